-------------------------------- MODULE Net --------------------------------
(* C01 - a network of CORRECT pubsub nodes (floodsub / randomsub / gossipsub),
   one topic.  Implementation-shaped: per node the state of pubsub.go (mySubs,
   myRelays, topics = `known`, seen) and of the router (mesh, fanout, backoff,
   mcache), per directed link a FIFO of RPCs (a stream preserves order per
   direction; SUBSCRIBE-before-GRAFT and UNSUBSCRIBE-before-PRUNE matter).

   Time: one tick = one heartbeat interval.  As in the harness, every node was
   created at the same instant, so all heartbeats of a round run before any RPC
   they send is received (hbTodo), stimuli (churn, publish) happen between
   heartbeats when the network is quiet, and a publish batch is issued at one
   instant (batchFresh).

   Every shufflePeers in the code is an existential choice here.            *)
EXTENDS Naturals, Sequences, FiniteSets, TLC, NetProps

CONSTANTS
    Nodes,
    D, Dlo, Dhi, Dlazy, RandomSubD,         \* gossipsub degrees, randomsub fan-out
    PruneBackoff, UnsubBackoff, Slack, Sweep, \* ticks; backoff entries are swept every Sweep-th tick, Slack after expiry
    HistoryLen, HistoryGossip,              \* mcache windows
    SettleTicks,                            \* "settled" = no churn for this many ticks
    QuiesceTicks,                           \* ticks after a batch before it is judged (one IHAVE/IWANT round per hop)
    MaxSubs, MaxRelays, MaxChurn, MaxPub,   \* exploration bounds
    InitKinds,                              \* router types Init chooses from (a subset of Kinds)
    \* mechanism switches: TRUE = the protocol as implemented. The MUST-FAIL configurations set one to FALSE.
    FloodForwardToFloodsubPeers,            \* gossipsub rpcs(): floodsub-speaking topic peers always get the message
    GossipRound,                            \* heartbeat emits IHAVE, handleIHave asks, handleIWant answers
    RelayForwards,                          \* a relay-only node accepts and forwards
    HelloCarriesRelays,                     \* the hello packet announces relayed topics too
    StrictSettled,                          \* Publish waits for MeshSettled (FALSE: time-based settling only)
    Backpressure,                           \* TRUE: when a node changes its interest, any of its peers' outbound queues may be full
    AnnounceLostAfterFull                   \* MUST-FAIL variant: announce() gives up at the first full queue (later peers get nothing, no retry)

VARIABLES
    kind,        \* router type per node (chosen in Init, never changes)
    conn,        \* set of undirected edges {a, b}
    subs, relays,\* reference counts
    known,       \* known[n] = peers n believes interested (pubsub.topics[T])
    chan,        \* chan[<<a, b>>] = FIFO of packets a -> b
    mesh, fanout,\* gossipsub; mesh[n] is meaningful only while n is joined (= interested)
    backoff,     \* backoff[n][p]: 0 = no entry; 1 = expired+slack passed, waiting for the sweep; v > Slack+1 = still active
    seen, mcache,\* mcache[n][m] = remaining windows (0 = not cached)
    delivered,   \* delivered[n][m][s] = how often m came out of subscription s of n (saturating at 2)
    pub,         \* pub[m] = publisher of m (DOMAIN pub = published messages)
    batch, batchFresh, sincePub,   \* the batch under way
    tick, quietFor, hbTodo,
    nchurn,
    pend         \* <<n, p, k>>: RPC k (SUB / UNSUB / GRAFT / PRUNE) from n to p met a full outbound queue and awaits its retry

vars == <<kind, conn, subs, relays, known, chan, mesh, fanout, backoff, seen, mcache,
          delivered, pub, batch, batchFresh, sincePub, tick, quietFor, hbTodo, nchurn, pend>>

Msgs  == 1..MaxPub
Links == {l \in Nodes \X Nodes : l[1] # l[2]}
Min(a, b) == IF a < b THEN a ELSE b
Max(a, b) == IF a > b THEN a ELSE b
SubsetsOfSize(S, k) == {X \in SUBSET S : Cardinality(X) = k}

Pkt(t, x) == [t |-> t, x |-> x]            \* x is always a set (ids, or {backoff})

Int(n)    == Interested(subs, relays, n)
IsG(n)    == kind[n] = "gossip"
Peers(n)  == {m \in Nodes : {n, m} \in conn}
GPeers(n) == {m \in known[n] : IsG(m)}      \* getPeers: topic peers speaking /meshsub
AllQuiet  == hbTodo = {} /\ pend = {} /\ \A l \in Links : chan[l] = <<>>
\* "the meshes have settled (pending prune backoffs have expired and been swept and a few heartbeats
\* have passed)": no backoff entry is left, and the next heartbeat of a joined gossipsub node would
\* neither graft nor prune, and whoever is outside its mesh is within the exhaustive gossip fan-out.
\* (Without this, a message published by a node whose mesh is still empty because of a pending backoff
\* can be lost: the heartbeat that sweeps the backoff grafts the peer FIRST and then gossips only to
\* non-mesh peers - found by this model, reproduced on the real code, outside the statement's premise.)
MeshSettled ==
    \A n \in Nodes : IsG(n) =>
        /\ \A p \in Nodes : backoff[n][p] = 0
        /\ Int(n) => /\ Cardinality(mesh[n]) < Dhi
                     /\ Cardinality(mesh[n]) >= Dlo \/ GPeers(n) \subseteq mesh[n]
                     /\ Cardinality(GPeers(n) \ mesh[n]) <= Dlazy
Settled   == /\ quietFor = SettleTicks /\ hbTodo = {} /\ pend = {} /\ (batchFresh \/ \A l \in Links : chan[l] = <<>>)
             /\ (IF StrictSettled THEN MeshSettled ELSE TRUE)
Quiescent == batch # {} /\ AllQuiet /\ sincePub = QuiesceTicks
BoActive(v) == v > Slack + 1
BoSet(v, i) == Max(v, i + Slack + 1)

\* append pkt to the queue from n to every member of S that n has a stream to
SendTo(ch, n, S, pkt) == [l \in Links |-> IF l[1] = n /\ l[2] \in S /\ l[2] \in Peers(n) THEN Append(ch[l], pkt) ELSE ch[l]]
Pop(ch, a, b) == [ch EXCEPT ![<<a, b>>] = Tail(@)]

---------------------------------------------------------------------------
Roles == {r \in [s : 0..MaxSubs, r : 0..MaxRelays] : ~(r.s > 0 /\ r.r > 0) /\ r.s <= 1}
AllEdges == {{a, b} : a, b \in Nodes} \ {{a} : a \in Nodes}

\* any configuration: roles were taken first, then the connections were made and the hello
\* packets (which carry the interest) have been exchanged; no mesh yet
InitCfg(k, c, ro) ==
    /\ kind = k /\ conn = c
    /\ subs = [n \in Nodes |-> ro[n].s] /\ relays = [n \in Nodes |-> ro[n].r]
    /\ known = [n \in Nodes |-> {m \in Nodes : {n, m} \in c /\ (ro[m].s > 0 \/ (ro[m].r > 0 /\ HelloCarriesRelays))}]
    /\ chan = [l \in Links |-> <<>>]
    /\ mesh = [n \in Nodes |-> {}] /\ fanout = [n \in Nodes |-> {}]
    /\ backoff = [n \in Nodes |-> [p \in Nodes |-> 0]]
    /\ seen = [n \in Nodes |-> {}] /\ mcache = [n \in Nodes |-> [m \in Msgs |-> 0]]
    /\ delivered = [n \in Nodes |-> [m \in Msgs |-> [s \in 1..MaxSubs |-> 0]]]
    /\ pub = <<>> /\ batch = {} /\ batchFresh = FALSE /\ sincePub = 0
    /\ tick = 0 /\ quietFor = 0 /\ hbTodo = {} /\ nchurn = 0 /\ pend = {}

Init == \E k \in [Nodes -> InitKinds], c \in SUBSET AllEdges, ro \in [Nodes -> Roles] : InitCfg(k, c, ro)

---------------------------------------------------------------------------
(* gossipsub Join / Leave (gossipsub.go:1444-1521) *)

\* the mesh Join builds: fanout peers not backed off, topped up to D with eligible peers
JoinChoices(n) ==
    LET keep == {p \in fanout[n] : backoff[n][p] = 0}
        elig == {p \in GPeers(n) : p \notin keep /\ backoff[n][p] = 0}
        need == IF Cardinality(keep) < D THEN Min(D - Cardinality(keep), Cardinality(elig)) ELSE 0
    IN {keep \cup X : X \in SubsetsOfSize(elig, need)}

(* Backpressure (pubsub.announce, announceRetry, gossipsub sendRPC / pushControl): at the instant a node changes its
   interest the outbound queue of any subset F of its peers may be full.  The announcement to such a peer is dropped and
   re-sent by announceRetry (which re-checks the CURRENT interest) within a second; a GRAFT / PRUNE to such a peer is kept
   and re-sent (if still current) by the next flush.  Delayed, never lost.  The retries are modelled as `pend` entries
   that fire before the next heartbeat.
   MUST-FAIL variant AnnounceLostAfterFull: the loop over the peers stops at the first full queue f (which still gets
   its retry); L = the peers that come later in the (random) map order get neither announcement nor retry.          *)
FullChoices(n) == IF Backpressure THEN SUBSET Peers(n) ELSE {{}}
\* <<peers announced to at once, peers that get a retry>>
AnnounceSplits(n, F) ==
    IF F = {} THEN {<<Peers(n), {}>>}
    ELSE IF ~AnnounceLostAfterFull THEN {<<Peers(n) \ F, F>>}
    ELSE UNION {{<<Peers(n) \ L, {f}>> : L \in {X \in SUBSET Peers(n) : f \in X /\ F \subseteq X}} : f \in F}

\* n becomes interested: announce to every peer, then (gossipsub) join and GRAFT
BecomeInterested(n) ==
    \E F \in FullChoices(n) : \E sp \in AnnounceSplits(n, F) :
    LET c1 == SendTo(chan, n, sp[1], Pkt("SUB", {}))
        pa == {<<n, p, "SUB">> : p \in sp[2]}
    IN
    IF IsG(n)
      THEN \E G \in JoinChoices(n) :
             /\ mesh' = [mesh EXCEPT ![n] = G]
             /\ fanout' = [fanout EXCEPT ![n] = {}]
             /\ chan' = SendTo(c1, n, G \ F, Pkt("GRAFT", {}))
             /\ pend' = pa \cup {<<n, p, "GRAFT">> : p \in G \cap F}
             /\ UNCHANGED backoff
      ELSE chan' = c1 /\ pend' = pa /\ UNCHANGED <<mesh, fanout, backoff>>

\* n stops being interested: announce, then (gossipsub) leave: PRUNE every mesh member with the
\* unsubscribe backoff and remember it ourselves
CeaseInterest(n) ==
    \E F \in FullChoices(n) : \E sp \in AnnounceSplits(n, F) :
    LET c1 == SendTo(chan, n, sp[1], Pkt("UNSUB", {}))
        pa == {<<n, p, "UNSUB">> : p \in sp[2]}
    IN
    IF IsG(n)
      THEN /\ chan' = SendTo(c1, n, mesh[n] \ F, Pkt("PRUNE", {UnsubBackoff}))
           /\ pend' = pa \cup {<<n, p, "PRUNE">> : p \in mesh[n] \cap F}
           /\ backoff' = [backoff EXCEPT ![n] = [p \in Nodes |-> IF p \in mesh[n] THEN BoSet(@[p], UnsubBackoff) ELSE @[p]]]
           /\ mesh' = [mesh EXCEPT ![n] = {}]
           /\ UNCHANGED fanout
      ELSE chan' = c1 /\ pend' = pa /\ UNCHANGED <<mesh, fanout, backoff>>

\* a dropped RPC is retried: the announcement with the interest as it is NOW, GRAFT / PRUNE only if still current
Retry(n, p, k) ==
    /\ <<n, p, k>> \in pend
    /\ pend' = pend \ {<<n, p, k>>}
    /\ LET send == CASE k = "SUB" -> Int(n) [] k = "UNSUB" -> ~Int(n)
                      [] k = "GRAFT" -> Int(n) /\ p \in mesh[n] [] k = "PRUNE" -> ~(Int(n) /\ p \in mesh[n])
       IN chan' = IF send /\ p \in Peers(n) THEN SendTo(chan, n, {p}, Pkt(k, IF k = "PRUNE" THEN {UnsubBackoff} ELSE {})) ELSE chan
    /\ UNCHANGED <<kind, conn, subs, relays, known, mesh, fanout, backoff, seen, mcache, delivered, pub, batch, batchFresh,
                   sincePub, tick, quietFor, hbTodo, nchurn>>

---------------------------------------------------------------------------
(* churn: only between heartbeats, when the network is quiet, and not while a batch is under way;
   0 or 1 heartbeats after the previous churn step, or after a full settle period *)
ChurnOK == /\ nchurn < MaxChurn /\ AllQuiet /\ (batch = {} \/ Quiescent)
           /\ quietFor \in (IF nchurn > 0 THEN {0, 1, SettleTicks} ELSE {1, SettleTicks})
Churned == /\ nchurn' = nchurn + 1 /\ quietFor' = 0 /\ batch' = {} /\ batchFresh' = FALSE /\ sincePub' = 0
           /\ UNCHANGED <<kind, seen, mcache, pub, tick, hbTodo>>

Subscribe(n) ==
    /\ ChurnOK /\ subs[n] < MaxSubs
    /\ subs' = [subs EXCEPT ![n] = @ + 1]
    /\ IF Int(n) THEN UNCHANGED <<chan, mesh, fanout, backoff, pend>> ELSE BecomeInterested(n)
    /\ Churned /\ UNCHANGED <<conn, relays, known, delivered>>

Cancel(n) ==
    /\ ChurnOK /\ subs[n] > 0
    /\ subs' = [subs EXCEPT ![n] = @ - 1]
    \* the subscription object is gone; a later Subscribe creates a fresh one
    /\ delivered' = [delivered EXCEPT ![n] = [m \in Msgs |-> [@[m] EXCEPT ![subs[n]] = 0]]]
    /\ IF subs[n] = 1 /\ relays[n] = 0 THEN CeaseInterest(n) ELSE UNCHANGED <<chan, mesh, fanout, backoff, pend>>
    /\ Churned /\ UNCHANGED <<conn, relays, known>>

Relay(n) ==
    /\ ChurnOK /\ relays[n] < MaxRelays
    /\ relays' = [relays EXCEPT ![n] = @ + 1]
    /\ IF Int(n) THEN UNCHANGED <<chan, mesh, fanout, backoff, pend>> ELSE BecomeInterested(n)
    /\ Churned /\ UNCHANGED <<conn, subs, known, delivered>>

Unrelay(n) ==
    /\ ChurnOK /\ relays[n] > 0
    /\ relays' = [relays EXCEPT ![n] = @ - 1]
    /\ IF relays[n] = 1 /\ subs[n] = 0 THEN CeaseInterest(n) ELSE UNCHANGED <<chan, mesh, fanout, backoff, pend>>
    /\ Churned /\ UNCHANGED <<conn, subs, known, delivered>>

\* a new connection: both sides open their stream and send the hello packet (all current interest)
Hello(n) == Int(n) /\ (subs[n] > 0 \/ HelloCarriesRelays)
Connect(a, b) ==
    /\ ChurnOK /\ a # b /\ {a, b} \notin conn
    /\ conn' = conn \cup {{a, b}}
    /\ chan' = [chan EXCEPT ![<<a, b>>] = IF Hello(a) THEN <<Pkt("SUB", {})>> ELSE <<>>,
                            ![<<b, a>>] = IF Hello(b) THEN <<Pkt("SUB", {})>> ELSE <<>>]
    /\ Churned /\ UNCHANGED <<subs, relays, known, mesh, fanout, backoff, delivered, pend>>

\* the whole connection goes away: handleDeadPeers + OnClosedOutboundStream on both sides
\* (topics, mesh, fanout forget the peer; backoff entries stay)
Disconnect(a, b) ==
    /\ ChurnOK /\ {a, b} \in conn
    /\ conn' = conn \ {{a, b}}
    /\ known' = [known EXCEPT ![a] = @ \ {b}, ![b] = @ \ {a}]
    /\ mesh' = [mesh EXCEPT ![a] = @ \ {b}, ![b] = @ \ {a}]
    /\ fanout' = [fanout EXCEPT ![a] = @ \ {b}, ![b] = @ \ {a}]
    /\ Churned /\ UNCHANGED <<subs, relays, chan, backoff, delivered, pend>>

---------------------------------------------------------------------------
(* publishing and forwarding *)

\* pubsub.notifySubs: every live subscription gets the message
Notify(dl, n, id) == [dl EXCEPT ![n][id] = [s \in 1..MaxSubs |-> IF s <= subs[n] THEN Min(@[s] + 1, 2) ELSE @[s]]]

\* to whom node n sends message id that it got from `from` (itself when publishing);
\* fo = the fanout set in force (only used when n has not joined)
Targets(n, from, author, fo) ==
    LET base == CASE kind[n] = "flood"  -> known[n]                                  \* floodsub.go:82-106
                  [] kind[n] = "random" -> known[n]                                  \* randomsub.go: floodsub peers + all (<= RandomSubD) randomsub peers
                  [] kind[n] = "gossip" ->                                           \* gossipsub.go:1351-1422
                        IF known[n] = {} THEN {}
                        ELSE (IF FloodForwardToFloodsubPeers THEN {m \in known[n] : ~IsG(m)} ELSE {})
                             \cup (IF Int(n) THEN mesh[n] ELSE fo)
    IN base \ {from, author}

Put(mc, n, id) == IF IsG(n) THEN [mc EXCEPT ![n][id] = HistoryLen] ELSE mc

\* Topic.Publish on node n (subscribed or not): only in a settled network inside the sound premise
Publish(n) ==
    LET id == Len(pub) + 1 IN
    /\ id \in Msgs /\ Settled
    /\ batch = {} \/ batchFresh \/ Quiescent
    /\ PremiseCfg(Nodes, kind, conn, subs, relays, n, Dlo, Dlazy, RandomSubD)
    /\ \E x \in Nodes : subs[x] > 0
    /\ pub' = Append(pub, n)
    /\ batch' = (IF batchFresh THEN batch ELSE {}) \cup {id}
    /\ batchFresh' = TRUE /\ sincePub' = 0
    /\ seen' = [seen EXCEPT ![n] = @ \cup {id}]
    /\ delivered' = Notify(delivered, n, id)
    /\ mcache' = Put(mcache, n, id)
    /\ \E F \in (IF IsG(n) /\ ~Int(n) /\ fanout[n] = {}
                   THEN SubsetsOfSize(GPeers(n), Min(D, Cardinality(GPeers(n)))) ELSE {fanout[n]}) :
         /\ fanout' = [fanout EXCEPT ![n] = IF IsG(n) /\ ~Int(n) THEN F ELSE @]
         /\ chan' = SendTo(chan, n, Targets(n, n, n, F), Pkt("MSG", {id}))
    /\ UNCHANGED <<kind, conn, subs, relays, known, mesh, backoff, tick, quietFor, hbTodo, nchurn, pend>>

\* one packet from m is handled by n (handleIncomingRPC + router.HandleRPC)
Recv(n, m) ==
    /\ n # m /\ hbTodo = {} /\ chan[<<m, n>>] # <<>>
    /\ LET p == Head(chan[<<m, n>>])
           c0 == Pop(chan, m, n)
       IN
       CASE p.t = "SUB" ->
              /\ known' = [known EXCEPT ![n] = @ \cup {m}] /\ chan' = c0
              /\ UNCHANGED <<mesh, backoff, seen, mcache, delivered>>
         [] p.t = "UNSUB" ->
              /\ known' = [known EXCEPT ![n] = @ \ {m}] /\ chan' = c0
              /\ UNCHANGED <<mesh, backoff, seen, mcache, delivered>>
         [] p.t = "GRAFT" ->                                   \* handleGraft
              IF ~Int(n) \/ m \in mesh[n]
                THEN chan' = c0 /\ UNCHANGED <<known, mesh, backoff, seen, mcache, delivered>>
              ELSE IF BoActive(backoff[n][m])
                THEN /\ chan' = SendTo(c0, n, {m}, Pkt("PRUNE", {PruneBackoff}))
                     /\ backoff' = [backoff EXCEPT ![n][m] = BoSet(@, PruneBackoff)]
                     /\ UNCHANGED <<known, mesh, seen, mcache, delivered>>
              ELSE \/ /\ mesh' = [mesh EXCEPT ![n] = @ \cup {m}] /\ chan' = c0
                      /\ UNCHANGED <<known, backoff, seen, mcache, delivered>>
                   \/ \* at (or over) Dhi a GRAFT from a peer that dialled us is refused (direction not modelled)
                      /\ Cardinality(mesh[n]) >= Dhi
                      /\ chan' = SendTo(c0, n, {m}, Pkt("PRUNE", {PruneBackoff}))
                      /\ backoff' = [backoff EXCEPT ![n][m] = BoSet(@, PruneBackoff)]
                      /\ UNCHANGED <<known, mesh, seen, mcache, delivered>>
         [] p.t = "PRUNE" ->                                   \* handlePrune
              IF ~Int(n)
                THEN chan' = c0 /\ UNCHANGED <<known, mesh, backoff, seen, mcache, delivered>>
                ELSE /\ mesh' = [mesh EXCEPT ![n] = @ \ {m}]
                     /\ backoff' = [backoff EXCEPT ![n][m] = BoSet(@, CHOOSE b \in p.x : TRUE)]
                     /\ chan' = c0 /\ UNCHANGED <<known, seen, mcache, delivered>>
         [] p.t = "MSG" ->
              LET id == CHOOSE i \in p.x : TRUE
                  accept == (subs[n] > 0 \/ (relays[n] > 0 /\ RelayForwards)) /\ id \notin seen[n]
              IN IF ~accept
                   THEN chan' = c0 /\ UNCHANGED <<known, mesh, backoff, seen, mcache, delivered>>
                   ELSE /\ seen' = [seen EXCEPT ![n] = @ \cup {id}]
                        /\ delivered' = Notify(delivered, n, id)
                        /\ mcache' = Put(mcache, n, id)
                        /\ chan' = SendTo(c0, n, Targets(n, m, pub[id], {}), Pkt("MSG", {id}))
                        /\ UNCHANGED <<known, mesh, backoff>>
         [] p.t = "IHAVE" ->                                   \* handleIHave: only for a joined topic
              LET want == p.x \ seen[n] IN
              /\ chan' = IF Int(n) /\ want # {} THEN SendTo(c0, n, {m}, Pkt("IWANT", want)) ELSE c0
              /\ UNCHANGED <<known, mesh, backoff, seen, mcache, delivered>>
         [] p.t = "IWANT" ->                                   \* handleIWant: whatever is still in the cache
              LET have == {i \in p.x : mcache[n][i] > 0} IN
              /\ chan' = IF have # {} THEN SendTo(c0, n, {m}, Pkt("MSGS", have)) ELSE c0
              /\ UNCHANGED <<known, mesh, backoff, seen, mcache, delivered>>
         [] p.t = "MSGS" ->                                    \* the IWANT reply: several messages in one RPC
              LET new == IF subs[n] > 0 \/ (relays[n] > 0 /\ RelayForwards) THEN p.x \ seen[n] ELSE {}
                  RECURSIVE Fwd(_, _)
                  Fwd(ch, S) == IF S = {} THEN ch
                                ELSE LET i == CHOOSE i \in S : TRUE
                                     IN Fwd(SendTo(ch, n, Targets(n, m, pub[i], {}), Pkt("MSG", {i})), S \ {i})
                  RECURSIVE Ntf(_, _)
                  Ntf(dl, S) == IF S = {} THEN dl ELSE LET i == CHOOSE i \in S : TRUE IN Ntf(Notify(dl, n, i), S \ {i})
              IN /\ seen' = [seen EXCEPT ![n] = @ \cup new]
                 /\ delivered' = Ntf(delivered, new)
                 /\ mcache' = [mcache EXCEPT ![n] = [i \in Msgs |-> IF i \in new /\ IsG(n) THEN HistoryLen ELSE @[i]]]
                 /\ chan' = Fwd(c0, new)
                 /\ UNCHANGED <<known, mesh, backoff>>
    /\ batchFresh' = FALSE
    /\ UNCHANGED <<kind, conn, subs, relays, fanout, pub, batch, sincePub, tick, quietFor, hbTodo, nchurn, pend>>

---------------------------------------------------------------------------
(* time *)

Tick ==
    /\ AllQuiet
    /\ tick' = (tick + 1) % Sweep
    /\ quietFor' = Min(quietFor + 1, SettleTicks)
    /\ sincePub' = IF batch # {} THEN Min(sincePub + 1, QuiesceTicks) ELSE 0
    /\ backoff' = [n \in Nodes |-> [p \in Nodes |-> IF backoff[n][p] > 1 THEN backoff[n][p] - 1 ELSE backoff[n][p]]]
    /\ hbTodo' = {n \in Nodes : IsG(n)}
    /\ batchFresh' = FALSE
    /\ UNCHANGED <<kind, conn, subs, relays, known, chan, mesh, fanout, seen, mcache, delivered, pub, batch, nchurn, pend>>

GossipIds(n) == {i \in Msgs : mcache[n][i] > HistoryLen - HistoryGossip}

\* gossipsub.heartbeat: backoff sweep, mesh maintenance, fanout maintenance, gossip, cache shift
Heartbeat(n) ==
    /\ n \in hbTodo
    /\ LET bo1 == IF tick = 0 THEN [p \in Nodes |-> IF backoff[n][p] = 1 THEN 0 ELSE backoff[n][p]] ELSE backoff[n]
           ids == IF GossipRound THEN GossipIds(n) ELSE {}
       IN
       IF Int(n)
         THEN LET elig == {p \in GPeers(n) : p \notin mesh[n] /\ bo1[p] = 0}
                  need == IF Cardinality(mesh[n]) < Dlo THEN Min(D - Cardinality(mesh[n]), Cardinality(elig)) ELSE 0
              IN \E G \in SubsetsOfSize(elig, need) :
                   LET m1 == mesh[n] \cup G IN
                   \E K \in (IF Cardinality(m1) >= Dhi THEN SubsetsOfSize(m1, D) ELSE {m1}) :
                     LET P == m1 \ K
                         cands == GPeers(n) \ K
                     IN \E L \in (IF ids = {} THEN {{}} ELSE SubsetsOfSize(cands, Min(Dlazy, Cardinality(cands)))) :
                          /\ mesh' = [mesh EXCEPT ![n] = K]
                          /\ backoff' = [backoff EXCEPT ![n] = [p \in Nodes |-> IF p \in P THEN BoSet(bo1[p], PruneBackoff) ELSE bo1[p]]]
                          /\ chan' = SendTo(SendTo(SendTo(chan, n, G \ P, Pkt("GRAFT", {})), n, P, Pkt("PRUNE", {PruneBackoff})),
                                            n, L, Pkt("IHAVE", ids))
                          /\ UNCHANGED fanout
         ELSE IF fanout[n] # {}
           THEN LET f0 == fanout[n] \cap known[n]
                    more == GPeers(n) \ f0
                    need == IF Cardinality(f0) < D THEN Min(D - Cardinality(f0), Cardinality(more)) ELSE 0
                IN \E A \in SubsetsOfSize(more, need) :
                     LET f1 == f0 \cup A
                         cands == GPeers(n) \ f1
                     IN \E L \in (IF ids = {} THEN {{}} ELSE SubsetsOfSize(cands, Min(Dlazy, Cardinality(cands)))) :
                          \* the fanout expires FanoutTTL after the last publication: any time once settled
                          /\ fanout' \in (IF quietFor = SettleTicks /\ batch = {} THEN {[fanout EXCEPT ![n] = f1], [fanout EXCEPT ![n] = {}]}
                                                                    ELSE {[fanout EXCEPT ![n] = f1]})
                          /\ chan' = SendTo(chan, n, L, Pkt("IHAVE", ids))
                          /\ backoff' = [backoff EXCEPT ![n] = bo1]
                          /\ UNCHANGED mesh
           ELSE /\ backoff' = [backoff EXCEPT ![n] = bo1] /\ UNCHANGED <<chan, mesh, fanout>>
    /\ mcache' = [mcache EXCEPT ![n] = [i \in Msgs |-> IF @[i] > 0 THEN @[i] - 1 ELSE 0]]
    /\ hbTodo' = hbTodo \ {n}
    /\ UNCHANGED <<kind, conn, subs, relays, known, seen, delivered, pub, batch, batchFresh, sincePub, tick, quietFor, nchurn, pend>>

Next == \/ \E n \in Nodes : Subscribe(n) \/ Cancel(n) \/ Relay(n) \/ Unrelay(n) \/ Publish(n) \/ Heartbeat(n)
        \/ \E a, b \in Nodes : Connect(a, b) \/ Disconnect(a, b) \/ Recv(a, b)
        \/ \E a, b \in Nodes, k \in {"SUB", "UNSUB", "GRAFT", "PRUNE"} : Retry(a, b, k)
        \/ Tick

Spec == Init /\ [][Next]_vars
\* for the liveness reading: time does not stop
FairSpec == Spec /\ WF_vars(Next)

---------------------------------------------------------------------------
(* properties *)

Live(n) == 1..subs[n]
NoDead(n) == {}
Cnt(n, s, m) == delivered[n][m][s]

\* Quiescent => every message of the batch came out of every live subscription of every
\* subscriber exactly once (the publisher's own included)
P_C01_ExactlyOnce == Quiescent => ExactlyOnce(Nodes, Live, NoDead, batch, Cnt)
\* never more than once, settled or not
P_C01_NoDup == NoDup(Nodes, LAMBDA n : 1..MaxSubs, DOMAIN pub, Cnt)

\* every batch is eventually judged (no symmetry in the configuration that checks this)
P_C01_Live == (batch # {}) ~> Quiescent

\* model sanity: once settled every node knows exactly its interested neighbours (C05's conclusion)
KnownConverged == (quietFor = SettleTicks /\ AllQuiet) => \A n \in Nodes : known[n] = ExpectedKnown(Nodes, conn, subs, relays, n)
\* mesh members are peers we have a stream to; a gossipsub node backs off only gossipsub peers
MeshSane == \A n \in Nodes : mesh[n] \subseteq Peers(n) /\ fanout[n] \subseteq Peers(n) /\ (~IsG(n) => mesh[n] = {} /\ fanout[n] = {})

TypeOK ==
    /\ kind \in [Nodes -> Kinds] /\ conn \subseteq AllEdges
    /\ subs \in [Nodes -> 0..MaxSubs] /\ relays \in [Nodes -> 0..MaxRelays]
    /\ known \in [Nodes -> SUBSET Nodes] /\ mesh \in [Nodes -> SUBSET Nodes] /\ fanout \in [Nodes -> SUBSET Nodes]
    /\ \A l \in Links : Len(chan[l]) <= 12
    /\ seen \in [Nodes -> SUBSET Msgs] /\ batch \subseteq Msgs /\ Len(pub) <= MaxPub
    /\ quietFor \in 0..SettleTicks /\ sincePub \in 0..QuiesceTicks /\ tick \in 0..(Sweep - 1) /\ hbTodo \subseteq Nodes
=============================================================================
