------------------------------ MODULE NetProps ------------------------------
(* C01 - the meaning, shared by the protocol model (Net.tla), the scenario
   generator (GenNet.tla) and the trace specification (NetTrace.tla).

   Everything here is a pure operator over a *configuration*
       kind  : node -> "flood" | "random" | "gossip"      (router type)
       E     : set of undirected edges {a, b}             (live connections)
       subs  : node -> number of live subscriptions
       relays: node -> number of relay references
   and over a *delivery bag*  Cnt(n, s, m) = how many times message m came out
   of subscription s of node n.

   Premise (DESIGN C01, Reading): the SOUND subset of the statement's premise:
     - the overlay (subscribers and relays joined by live connections) is connected;
     - every gossipsub overlay node has at most Dlo+Dlazy gossipsub overlay neighbours
       (its mesh holds >= Dlo of them once settled and the remainder, <= Dlazy, is
       gossiped to exhaustively; floodsub-speaking neighbours are always flooded);
     - every randomsub overlay node has at most RandomSubD randomsub overlay neighbours;
     - a publisher that is not in the overlay is adjacent to it.
   "Settled" (announcements propagated, backoffs expired and swept, a few
   heartbeats passed) is a matter of time and is realised by whoever drives the
   network (Net.tla: quietFor; the harness: virtual time).                    *)
EXTENDS Naturals, FiniteSets, Sequences

Kinds == {"flood", "random", "gossip"}

\* Which protocol two correct nodes end up speaking (multistream picks the first protocol of
\* the DIALLER's list that the listener supports; lists: gossipsub = meshsub/1.3,1.2,1.1,1.0,floodsub;
\* randomsub = randomsub/1.0, floodsub/1.0; floodsub = floodsub/1.0). The result is the same
\* in both directions for every pair, so a link has ONE protocol:
LinkProto(ka, kb) == IF ka = "gossip" /\ kb = "gossip" THEN "meshsub"
                     ELSE IF ka = "random" /\ kb = "random" THEN "randomsub"
                     ELSE "floodsub"

Nbrs(E, n) == {m \in UNION E : m # n /\ {n, m} \in E}

Interested(subs, relays, n) == subs[n] > 0 \/ relays[n] > 0
Overlay(N, subs, relays) == {n \in N : Interested(subs, relays, n)}

RECURSIVE Closure(_, _, _)
Closure(E, S, R) == LET R2 == R \cup {m \in S : \E r \in R : {r, m} \in E}
                    IN IF R2 = R THEN R ELSE Closure(E, S, R2)
\* S induces a connected subgraph (the choice of the root does not matter)
ConnectedSet(E, S) == IF S = {} THEN TRUE ELSE Closure(E, S, {CHOOSE x \in S : TRUE}) = S

KindDeg(kind, E, O, n, k) == Cardinality({m \in Nbrs(E, n) \cap O : kind[m] = k})

SoundDegrees(kind, E, O, Dlo, Dlazy, RandomSubD) ==
    \A n \in O : /\ kind[n] = "gossip" => KindDeg(kind, E, O, n, "gossip") <= Dlo + Dlazy
                 /\ kind[n] = "random" => KindDeg(kind, E, O, n, "random") <= RandomSubD

\* the configuration half of the premise, for publisher p
PremiseCfg(N, kind, E, subs, relays, p, Dlo, Dlazy, RandomSubD) ==
    LET O == Overlay(N, subs, relays) IN
    /\ ConnectedSet(E, O)
    /\ SoundDegrees(kind, E, O, Dlo, Dlazy, RandomSubD)
    /\ (IF p \in O THEN TRUE ELSE Nbrs(E, p) \cap O # {})

\* what every node should believe once announcements have propagated (drift information only)
ExpectedKnown(N, E, subs, relays, n) == {m \in Nbrs(E, n) : Interested(subs, relays, m)}

---------------------------------------------------------------------------
(* The two predicates of C01 over a delivery bag.
   Live(n)  = the subscriptions of node n that were live from before the batch was
              published until it was read (for a non-subscriber: {}),
   Dead(n)  = subscriptions of n cancelled before the batch was published,
   Batch    = the messages published in the batch under examination,
   All      = every message published so far.                                 *)
ExactlyOnce(N, Live(_), Dead(_), Batch, Cnt(_, _, _)) ==
    \A m \in Batch : \A n \in N :
        /\ \A s \in Live(n) : Cnt(n, s, m) = 1
        /\ \A s \in Dead(n) : Cnt(n, s, m) = 0

NoDup(N, Subs(_), All, Cnt(_, _, _)) ==
    \A n \in N : \A s \in Subs(n) : \A m \in All : Cnt(n, s, m) <= 1
=============================================================================
