------------------------------ MODULE NetTrace ------------------------------
(* Trace specification for C01.  Reads the NDJSON log of harness/drivers/c01
   (N REAL nodes per scenario), follows the configuration through the logged
   operations (the same configuration step as Net.tla / GenNet.tla), and at every
   `check` line - one publish batch read back after the quiescence wait - evaluates
   the two predicates of NetProps on the REAL delivery bag:

       P_C01_ExactlyOnce   every message of the batch came out of every live subscription of every
                           subscriber exactly once (the publisher's own included), and out of no
                           subscription that had been cancelled before;
       P_C01_NoDup         no (subscription, message) pair was ever delivered twice.

   ExactlyOnce is judged only when the premise held when the batch was published:
     cfg      NetProps!PremiseCfg on the tracked configuration (sound degree bounds, overlay
              connected, publisher in or adjacent to the overlay);
     env      the environment did what the scenario asked: host-level connections = the intended
              graph and every node has a pubsub stream to exactly its neighbours;
     settled  Net!MeshSettled evaluated on the nodes' own state at publish time (no backoff entry
              left; the next heartbeat would neither graft nor prune; peers outside the mesh are
              within the exhaustive gossip fan-out).
   A batch whose premise did not establish is DISCARDED (reported, never failed).

   Second topic: scenarios may give the nodes static roles on an unrelated topic "U" (taken BEFORE the roles on the
   topic under test) with traffic in every batch; its observations come under E.u and are judged by the same operators.

   Several measured topics: "clones" holds the observations of additional topics on which every node plays the same roles
   and performs the same operations and publications as on the topic under test; each is judged like it (P_C01 is a
   per-topic statement; one heartbeat's gossip has to serve all of them).

   Streams (long-running histories, "stream": true): one message per heartbeat; the gossipsub part of the premise is
   evaluated PER MESSAGE on the mesh state logged at its publish instant (MsgSettled: everybody outside a mesh is within
   the exhaustive gossip fan-out, and no GRAFT/PRUNE anywhere during the message's propagation window); messages
   whose window saw a mesh change are not judged.
   Whether every node's ListPeers equals the model's `known` (= NetProps!ExpectedKnown) is reported as
   drift information only.  One <<"RES", json>> line is printed per check line; the cursor must reach
   the end of the file (POSTCONDITION prints the high-water mark).                                 *)
EXTENDS Naturals, Sequences, FiniteSets, TLC, Json, NetProps

CONSTANT MaxN
Trace == ndJsonDeserialize("trace.ndjson")

VARIABLES l,            \* cursor
          n,            \* number of nodes of the current scenario
          kind, conn, subs, relays,   \* the tracked configuration (nodes > n are isolated bystanders)
          usubs, urelays,             \* static roles on the unrelated second topic "U" (0 everywhere in single-topic scenarios)
          par,          \* parameters of the scenario (from the reset line)
          msgs, umsgs   \* names of all messages published so far in the scenario (per topic)
tvars == <<l, n, kind, conn, subs, relays, usubs, urelays, par, msgs, umsgs>>

All == 1..MaxN
Range(f) == {f[x] : x \in DOMAIN f}
E == Trace[l]
More == l <= Len(Trace)
Adv == l' = l + 1
EdgeSet(es) == {{e[1], e[2]} : e \in {x \in Range(es) : Len(x) = 2}}

NoPar == [Dlo |-> 1, Dlazy |-> 2, Dhi |-> 3, D |-> 2, RandomSubD |-> 6, windowMs |-> 0]
TInit == /\ TLCSet(1, 0) /\ l = 1 /\ n = 0
         /\ kind = [i \in All |-> "flood"] /\ conn = {} /\ subs = [i \in All |-> 0] /\ relays = [i \in All |-> 0]
         /\ usubs = [i \in All |-> 0] /\ urelays = [i \in All |-> 0]
         /\ par = NoPar /\ msgs = {} /\ umsgs = {}

SubsOf(r) == CASE r = "sub" -> 1 [] r = "sub2" -> 2 [] OTHER -> 0
TReset ==
    /\ More /\ E.e = "reset" /\ E.n <= MaxN
    /\ n' = E.n
    /\ kind' = [i \in All |-> IF i <= E.n THEN E.kinds[i] ELSE "flood"]
    /\ conn' = EdgeSet(E.edges)
    /\ subs' = [i \in All |-> IF i <= E.n THEN SubsOf(E.roles[i]) ELSE 0]
    /\ relays' = [i \in All |-> IF i <= E.n /\ E.roles[i] = "relay" THEN 1 ELSE 0]
    /\ usubs' = [i \in All |-> IF i <= Len(E.uroles) THEN SubsOf(E.uroles[i]) ELSE 0]
    /\ urelays' = [i \in All |-> IF i <= Len(E.uroles) /\ E.uroles[i] = "relay" THEN 1 ELSE 0]
    /\ par' = [Dlo |-> E.params.Dlo, Dlazy |-> E.params.Dlazy, Dhi |-> E.params.Dhi, D |-> E.params.D, RandomSubD |-> E.params.RandomSubD,
               windowMs |-> E.params.windowMs]
    /\ msgs' = {} /\ umsgs' = {} /\ Adv

\* the configuration step of Net.tla (Subscribe / Cancel / Relay / Unrelay / Connect / Disconnect) - topic under test only
TOp ==
    /\ More /\ E.e = "op"
    /\ IF ~E.ok \/ E.op = "wait" THEN UNCHANGED <<conn, subs, relays>>
       ELSE CASE E.op = "sub"     -> subs' = [subs EXCEPT ![E.a] = @ + 1] /\ UNCHANGED <<conn, relays>>
              [] E.op = "cancel"  -> subs' = [subs EXCEPT ![E.a] = @ - 1] /\ UNCHANGED <<conn, relays>>
              [] E.op = "relay"   -> relays' = [relays EXCEPT ![E.a] = @ + 1] /\ UNCHANGED <<conn, subs>>
              [] E.op = "unrelay" -> relays' = [relays EXCEPT ![E.a] = @ - 1] /\ UNCHANGED <<conn, subs>>
              [] E.op = "conn"    -> conn' = conn \cup {{E.a, E.b}} /\ UNCHANGED <<subs, relays>>
              [] E.op = "disc"    -> conn' = conn \ {{E.a, E.b}} /\ UNCHANGED <<subs, relays>>
    /\ Adv /\ UNCHANGED <<n, kind, usubs, urelays, par, msgs, umsgs>>

---------------------------------------------------------------------------
(* one publish batch (or stream) on one topic; X = the observations of that topic (the line itself for the topic under
   test, E.u for the second topic), S/R = the tracked subscription / relay counts of that topic *)
LiveOf(X, i) == IF i <= n THEN Range(X.live[i]) ELSE {}
DeadOf(X, i) == IF i <= n THEN Range(X.dead[i]) ELSE {}
NamesOf(ps)  == {p.m : p \in Range(ps)}

\* ExactlyOnce / NoDup of NetProps on the logged bag, for the messages B
ExactlyOnceOn(X, B) ==
    LET DM == [m \in B |-> {d \in Range(X.deliv) : d.m = m}]
        Cnt(i, s, m) == LET ds == {d \in DM[m] : d.n = i /\ d.s = s} IN IF ds = {} THEN 0 ELSE (CHOOSE d \in ds : TRUE).c
    IN ExactlyOnce(1..n, LAMBDA i : LiveOf(X, i), LAMBDA i : DeadOf(X, i), B, Cnt)
\* the driver logs one entry per (subscription, message published so far): no entry above 1 <=> NetProps!NoDup
DupsOf(X) == {d \in Range(X.deliv) : d.m # "?" /\ d.c > 1}
NoDupOn(X, allmsgs) ==
    LET Cnt(i, s, m) == LET ds == {d \in DupsOf(X) : d.n = i /\ d.s = s /\ d.m = m} IN IF ds = {} THEN 0 ELSE (CHOOSE d \in ds : TRUE).c
    IN NoDup(1..n, LAMBDA i : LiveOf(X, i) \cup DeadOf(X, i), allmsgs, Cnt)
SpuriousOf(X) == {d \in Range(X.deliv) : d.m = "?"}        \* payloads nobody published on this topic
BadOf(X, B) == {d \in Range(X.deliv) : d.m \in B /\ ((d.s \in LiveOf(X, d.n) /\ d.c # 1) \/ (d.s \in DeadOf(X, d.n) /\ d.c # 0))}

\* the log is consistent with the configuration this specification tracked
LogOKOf(X, S) == /\ EdgeSet(E.edges) = conn
                 /\ \A i \in 1..n : Len(X.live[i]) = S[i]
PremCfgOf(X, S, R) == \A p \in Range(X.pubs) : PremiseCfg(1..n, kind, conn, S, R, p.n, par.Dlo, par.Dlazy, par.RandomSubD)
\* for streams the gossipsub degree bound is replaced by the exact condition read at every publish instant (MsgSettled)
PremCfgStream(X, S, R) ==
    LET O == Overlay(1..n, S, R) IN
    /\ ConnectedSet(conn, O)
    /\ \A i \in O : kind[i] = "random" => KindDeg(kind, conn, O, i, "random") <= par.RandomSubD
    /\ \A p \in Range(X.pubs) : (IF p.n \in O THEN TRUE ELSE Nbrs(conn, p.n) \cap O # {})
\* observed when the batch was published (real, peers) and again when it was read back (real1, peers1)
PremEnv == /\ {Range(e) : e \in Range(E.real)} = conn /\ {Range(e) : e \in Range(E.real1)} = conn
           /\ \A i \in 1..n : Range(E.peers[i]) = Nbrs(conn, i) /\ Range(E.peers1[i]) = Nbrs(conn, i)
\* Net!MeshSettled on the nodes' own state
SettledAt(mesh, backoff, views, joined) ==
    \A i \in 1..n : kind[i] = "gossip" =>
        LET me == Range(mesh[i])
            gp == {m \in Range(views[i]) : kind[m] = "gossip"}
        IN /\ backoff[i] = <<>>
           /\ joined[i] => /\ Cardinality(me) < par.Dhi
                           /\ Cardinality(me) >= par.Dlo \/ gp \subseteq me
                           /\ Cardinality(gp \ me) <= par.Dlazy
\* ... when the batch was published and again when it was read back, and no GRAFT/PRUNE on the topic in between
MeshEvents(onT) == {e \in Range(E.meshev) : e[2] = onT}
PremSettledOf(X, onT) == /\ SettledAt(X.mesh, X.backoff, X.views, X.joined)
                         /\ SettledAt(X.mesh1, X.backoff1, X.views1, X.joined1)
                         /\ MeshEvents(onT) = {}
\* a message of a stream: at its publish instant every joined gossipsub node had at most Dlazy gossipsub topic peers outside
\* its mesh (the gossip fan-out is exhaustive), and no mesh changed anywhere while it could still be propagating
MsgSettled(p) ==
    /\ \A i \in 1..n : (kind[i] = "gossip" /\ p.joined[i]) =>
           Cardinality({m \in Range(p.views[i]) : kind[m] = "gossip"} \ Range(p.mesh[i])) <= par.Dlazy
    /\ \A e \in MeshEvents(1) : ~(p.t < e[1] /\ e[1] <= p.t + par.windowMs)
    /\ p.t + par.windowMs <= E.tq
Drift(X, S, R) == {i \in 1..n : Range(X.views[i]) # ExpectedKnown(1..n, conn, S, R, i)
                                \/ X.topics[i] # (S[i] > 0) \/ X.nsubs[i] # S[i] \/ X.nrelays[i] # R[i]}

\* verdict record for one topic
Judge(X, S, R, onT, allmsgs) ==
    LET B == NamesOf(X.pubs)
        logok == LogOKOf(X, S)
        strm == onT = 1 /\ E.stream
        prem == <<IF strm THEN PremCfgStream(X, S, R) ELSE PremCfgOf(X, S, R), PremEnv, IF strm THEN TRUE ELSE PremSettledOf(X, onT)>>
        ok3 == logok /\ prem[1] /\ prem[2] /\ prem[3]
        J == IF ~ok3 THEN {} ELSE IF strm THEN {p.m : p \in {q \in Range(X.pubs) : MsgSettled(q)}} ELSE B
        once == ExactlyOnceOn(X, J)
        nodup == NoDupOn(X, allmsgs \cup B)
        viol == (IF ~once THEN {"P_C01_ExactlyOnce"} ELSE {}) \cup (IF ~nodup THEN {"P_C01_NoDup"} ELSE {})
                \cup (IF SpuriousOf(X) # {} THEN {"P_C01_ExactlyOnce"} ELSE {})
    IN [logok |-> logok,
        verdict |-> IF ~logok THEN "badlog" ELSE IF viol # {} THEN "viol" ELSE IF J # {} THEN "ok" ELSE "discard",
        premcfg |-> prem[1], premenv |-> prem[2], premsettled |-> prem[3],
        njudged |-> Cardinality(J), npubs |-> Cardinality(B),
        viol |-> viol, drift |-> Drift(X, S, R), bad |-> BadOf(X, J), dups |-> DupsOf(X), spurious |-> Cardinality(SpuriousOf(X))]

P_C01_ExactlyOnce == Judge(E, subs, relays, 1, msgs).viol \cap {"P_C01_ExactlyOnce"} = {}
P_C01_NoDup == Judge(E, subs, relays, 1, msgs).viol \cap {"P_C01_NoDup"} = {}

TCheck ==
    /\ More /\ E.e = "check"
    /\ LET rt == Judge(E, subs, relays, 1, msgs)
           two == Len(E.u.pubs) > 0
           ru == IF two THEN Judge(E.u, usubs, urelays, 0, umsgs) ELSE [verdict |-> "none"]
           \* the additional measured topics ("clones"): same tracked roles as the topic under test, judged by the same operator
           rc == [i \in DOMAIN E.clones |-> Judge(E.clones[i], subs, relays, E.clones[i].topic, {d.m : d \in Range(E.clones[i].deliv)})]
       IN PrintT(<<"RES", ToJson([scn |-> E.scn, k |-> E.k, stream |-> E.stream, t |-> rt, u |-> ru, cl |-> rc])>>)
    /\ msgs' = msgs \cup NamesOf(E.pubs)
    /\ umsgs' = umsgs \cup NamesOf(E.u.pubs)
    /\ Adv /\ UNCHANGED <<n, kind, conn, subs, relays, usubs, urelays, par>>

TNext == TReset \/ TOp \/ TCheck
TraceSpec == TInit /\ [][TNext]_tvars

HW == IF TLCGet(1) < l THEN TLCSet(1, l) ELSE TRUE
Accepted == PrintT(<<"HW", TLCGet(1), Len(Trace) + 1>>)
=============================================================================
