------------------------------ MODULE NetTrace ------------------------------
(* Trace specification for C01.  Reads the NDJSON log of harness/drivers/c01
   (N REAL nodes per scenario), follows the configuration through the logged
   operations (the same configuration step as Net.tla / GenNet.tla), and at every
   `check` line - one publish batch read back after the quiescence wait - evaluates
   the two predicates of NetProps on the REAL delivery bag:

       P_C01_ExactlyOnce   every message of the batch came out of every live subscription of every
                           subscriber exactly once (the publisher's own included), and out of no
                           subscription that had been cancelled before;
       P_C01_NoDup         no (subscription, message) pair was ever delivered twice.

   ExactlyOnce is judged only when the premise held when the batch was published:
     cfg      NetProps!PremiseCfg on the tracked configuration (sound degree bounds, overlay
              connected, publisher in or adjacent to the overlay);
     env      the environment did what the scenario asked: host-level connections = the intended
              graph and every node has a pubsub stream to exactly its neighbours;
     settled  Net!MeshSettled evaluated on the nodes' own state at publish time (no backoff entry
              left; the next heartbeat would neither graft nor prune; peers outside the mesh are
              within the exhaustive gossip fan-out).
   A batch whose premise did not establish is DISCARDED (reported, never failed).
   Whether every node's ListPeers equals the model's `known` (= NetProps!ExpectedKnown) is reported as
   drift information only.  One <<"RES", json>> line is printed per check line; the cursor must reach
   the end of the file (POSTCONDITION prints the high-water mark).                                 *)
EXTENDS Naturals, Sequences, FiniteSets, TLC, Json, NetProps

CONSTANT MaxN
Trace == ndJsonDeserialize("trace.ndjson")

VARIABLES l,            \* cursor
          n,            \* number of nodes of the current scenario
          kind, conn, subs, relays,   \* the tracked configuration (nodes > n are isolated bystanders)
          par,          \* parameters of the scenario (from the reset line)
          msgs          \* names of all messages published so far in the scenario
tvars == <<l, n, kind, conn, subs, relays, par, msgs>>

All == 1..MaxN
Range(f) == {f[x] : x \in DOMAIN f}
E == Trace[l]
More == l <= Len(Trace)
Adv == l' = l + 1
EdgeSet(es) == {{e[1], e[2]} : e \in {x \in Range(es) : Len(x) = 2}}

NoPar == [Dlo |-> 1, Dlazy |-> 2, Dhi |-> 3, D |-> 2, RandomSubD |-> 6]
TInit == /\ TLCSet(1, 0) /\ l = 1 /\ n = 0
         /\ kind = [i \in All |-> "flood"] /\ conn = {} /\ subs = [i \in All |-> 0] /\ relays = [i \in All |-> 0]
         /\ par = NoPar /\ msgs = {}

TReset ==
    /\ More /\ E.e = "reset" /\ E.n <= MaxN
    /\ n' = E.n
    /\ kind' = [i \in All |-> IF i <= E.n THEN E.kinds[i] ELSE "flood"]
    /\ conn' = EdgeSet(E.edges)
    /\ subs' = [i \in All |-> IF i <= E.n THEN (CASE E.roles[i] = "sub" -> 1 [] E.roles[i] = "sub2" -> 2 [] OTHER -> 0) ELSE 0]
    /\ relays' = [i \in All |-> IF i <= E.n /\ E.roles[i] = "relay" THEN 1 ELSE 0]
    /\ par' = [Dlo |-> E.params.Dlo, Dlazy |-> E.params.Dlazy, Dhi |-> E.params.Dhi, D |-> E.params.D, RandomSubD |-> E.params.RandomSubD]
    /\ msgs' = {} /\ Adv

\* the configuration step of Net.tla (Subscribe / Cancel / Relay / Unrelay / Connect / Disconnect)
TOp ==
    /\ More /\ E.e = "op"
    /\ IF ~E.ok \/ E.op = "wait" THEN UNCHANGED <<conn, subs, relays>>
       ELSE CASE E.op = "sub"     -> subs' = [subs EXCEPT ![E.a] = @ + 1] /\ UNCHANGED <<conn, relays>>
              [] E.op = "cancel"  -> subs' = [subs EXCEPT ![E.a] = @ - 1] /\ UNCHANGED <<conn, relays>>
              [] E.op = "relay"   -> relays' = [relays EXCEPT ![E.a] = @ + 1] /\ UNCHANGED <<conn, subs>>
              [] E.op = "unrelay" -> relays' = [relays EXCEPT ![E.a] = @ - 1] /\ UNCHANGED <<conn, subs>>
              [] E.op = "conn"    -> conn' = conn \cup {{E.a, E.b}} /\ UNCHANGED <<subs, relays>>
              [] E.op = "disc"    -> conn' = conn \ {{E.a, E.b}} /\ UNCHANGED <<subs, relays>>
    /\ Adv /\ UNCHANGED <<n, kind, par, msgs>>

---------------------------------------------------------------------------
(* one publish batch *)
Live(i) == IF i <= n THEN Range(E.live[i]) ELSE {}
Dead(i) == IF i <= n THEN Range(E.dead[i]) ELSE {}
Batch == {p.m : p \in Range(E.pubs)}
Cnt(i, s, m) == LET ds == {d \in Range(E.deliv) : d.n = i /\ d.s = s /\ d.m = m}
                IN IF ds = {} THEN 0 ELSE (CHOOSE d \in ds : TRUE).c

P_C01_ExactlyOnce == ExactlyOnce(1..n, Live, Dead, Batch, Cnt)
P_C01_NoDup == NoDup(1..n, LAMBDA i : Live(i) \cup Dead(i), msgs \cup Batch, Cnt)
Spurious == {d \in Range(E.deliv) : d.m = "?"}        \* payloads nobody published

\* the log is consistent with the configuration this specification tracked
LogOK == /\ EdgeSet(E.edges) = conn
         /\ \A i \in 1..n : Len(E.live[i]) = subs[i]
PremCfg == \A p \in Range(E.pubs) : PremiseCfg(1..n, kind, conn, subs, relays, p.n, par.Dlo, par.Dlazy, par.RandomSubD)
\* observed when the batch was published (real, peers) and again when it was read back (real1, peers1)
PremEnv == /\ {Range(e) : e \in Range(E.real)} = conn /\ {Range(e) : e \in Range(E.real1)} = conn
           /\ \A i \in 1..n : Range(E.peers[i]) = Nbrs(conn, i) /\ Range(E.peers1[i]) = Nbrs(conn, i)
PremSettled ==
    \A i \in 1..n : kind[i] = "gossip" =>
        LET me == Range(E.mesh[i])
            gp == {m \in Range(E.views[i]) : kind[m] = "gossip"}
        IN /\ E.backoff[i] = <<>>
           /\ E.joined[i] => /\ Cardinality(me) < par.Dhi
                             /\ Cardinality(me) >= par.Dlo \/ gp \subseteq me
                             /\ Cardinality(gp \ me) <= par.Dlazy
Drift == {i \in 1..n : Range(E.views[i]) # ExpectedKnown(1..n, conn, subs, relays, i)
                       \/ E.topics[i] # (subs[i] > 0) \/ E.nsubs[i] # subs[i] \/ E.nrelays[i] # relays[i]}

Bad1 == {d \in Range(E.deliv) : d.m \in Batch /\ ((d.s \in Live(d.n) /\ d.c # 1) \/ (d.s \in Dead(d.n) /\ d.c # 0))}
Dups == {d \in Range(E.deliv) : d.m # "?" /\ d.c > 1}

TCheck ==
    /\ More /\ E.e = "check"
    /\ LET prem == <<PremCfg, PremEnv, PremSettled>>
           judged == LogOK /\ prem[1] /\ prem[2] /\ prem[3]
           viol == (IF judged /\ ~P_C01_ExactlyOnce THEN {"P_C01_ExactlyOnce"} ELSE {})
                   \cup (IF ~P_C01_NoDup THEN {"P_C01_NoDup"} ELSE {})
                   \cup (IF Spurious # {} THEN {"P_C01_ExactlyOnce"} ELSE {})
       IN PrintT(<<"RES", ToJson([scn |-> E.scn, k |-> E.k, logok |-> LogOK,
                                  verdict |-> IF ~LogOK THEN "badlog" ELSE IF viol # {} THEN "viol" ELSE IF judged THEN "ok" ELSE "discard",
                                  premcfg |-> prem[1], premenv |-> prem[2], premsettled |-> prem[3],
                                  viol |-> viol, drift |-> Drift,
                                  bad |-> IF judged THEN Bad1 ELSE {}, dups |-> Dups, spurious |-> Cardinality(Spurious)])>>)
    /\ msgs' = msgs \cup Batch
    /\ Adv /\ UNCHANGED <<n, kind, conn, subs, relays, par>>

TNext == TReset \/ TOp \/ TCheck
TraceSpec == TInit /\ [][TNext]_tvars

HW == IF TLCGet(1) < l THEN TLCSet(1, l) ELSE TRUE
Accepted == PrintT(<<"HW", TLCGet(1), Len(Trace) + 1>>)
=============================================================================
