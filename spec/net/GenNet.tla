------------------------------- MODULE GenNet -------------------------------
(* Scenario generator for C01.  Works on CONFIGURATIONS only (the protocol
   dynamics are whatever the real nodes do): it builds, step by step, a
   configuration (router kind and initial role of every node, then the initial
   graph edge by edge), then applies up to MaxChurn churn operations, and emits
   every history after which the SOUND premise of C01 (NetProps!PremiseCfg)
   holds for at least one publisher and somebody subscribes.

   Building the configuration by steps (instead of in Init) keeps the number of
   initial states at one, so that the same module serves exhaustive BFS (all
   configurations for N <= 3) and -simulate (random configurations, N = 4, 5).

   Emitted (one JSON object per scenario):
     n, kinds[], roles[] ("none" | "sub" | "relay"), edges[[a,b]], ops[{op,a,b}],
     elig[k] = publishers for which the premise holds after the first k-1 operations
               (elig[1] = initial configuration, elig[Len(ops)+1] = final one).
   The orchestrator adds the timing of each operation and the publish batches.  *)
EXTENDS Naturals, Sequences, FiniteSets, TLC, Json, NetProps

CONSTANTS N, MaxChurn, Canon,      \* Canon: only kind vectors that are sorted (cuts relabelled duplicates in BFS)
          GenKinds,                \* router types to choose from (Kinds, or {"gossip"} for the all-gossipsub family)
          Dlo, Dlazy, RandomSubD, MaxSubs, MaxRelays

Nodes == 1..N
Pairs == {p \in Nodes \X Nodes : p[1] < p[2]}
PairSeq == LET RECURSIVE Mk(_, _)
               Mk(a, b) == IF a >= N THEN <<>> ELSE IF b > N THEN Mk(a + 1, a + 2) ELSE <<<<a, b>>>> \o Mk(a, b + 1)
           IN Mk(1, 2)
Rank(k) == CASE k = "flood" -> 1 [] k = "gossip" -> 2 [] k = "random" -> 3

VARIABLES stage, i, kind, conn, subs, relays, roles0, edges0, ops, elig
vars == <<stage, i, kind, conn, subs, relays, roles0, edges0, ops, elig>>

Elig == {p \in Nodes : /\ PremiseCfg(Nodes, kind, conn, subs, relays, p, Dlo, Dlazy, RandomSubD)
                       /\ \E x \in Nodes : subs[x] > 0}

Init == /\ stage = "node" /\ i = 1
        /\ kind = [n \in Nodes |-> "flood"] /\ conn = {}
        /\ subs = [n \in Nodes |-> 0] /\ relays = [n \in Nodes |-> 0]
        /\ roles0 = <<>> /\ edges0 = {} /\ ops = <<>> /\ elig = <<>>

SetNode ==
    /\ stage = "node"
    /\ \E k \in GenKinds, r \in {"none", "sub", "relay"} :
         /\ Canon /\ i > 1 => Rank(kind[i - 1]) <= Rank(k)
         /\ kind' = [kind EXCEPT ![i] = k]
         /\ subs' = [subs EXCEPT ![i] = IF r = "sub" THEN 1 ELSE 0]
         /\ relays' = [relays EXCEPT ![i] = IF r = "relay" THEN 1 ELSE 0]
         /\ roles0' = Append(roles0, r)
    /\ IF i = N THEN stage' = (IF N > 1 THEN "edge" ELSE "churn") /\ i' = 1 ELSE stage' = stage /\ i' = i + 1
    /\ UNCHANGED <<conn, edges0, ops, elig>>

SetEdge ==
    /\ stage = "edge"
    /\ \E present \in BOOLEAN :
         conn' = IF present THEN conn \cup {{PairSeq[i][1], PairSeq[i][2]}} ELSE conn
    /\ IF i = Len(PairSeq) THEN stage' = "start" /\ i' = 1 ELSE stage' = stage /\ i' = i + 1
    /\ UNCHANGED <<kind, subs, relays, roles0, edges0, ops, elig>>

\* the initial configuration is complete
Start ==
    /\ stage = "start"
    /\ stage' = "churn" /\ edges0' = conn /\ elig' = <<Elig>>
    /\ UNCHANGED <<i, kind, conn, subs, relays, roles0, ops>>

Op(o, a, b) == [op |-> o, a |-> a, b |-> b]
Churn ==
    /\ stage = "churn" /\ Len(ops) < MaxChurn
    /\ \/ \E n \in Nodes : /\ subs[n] < MaxSubs /\ subs' = [subs EXCEPT ![n] = @ + 1]
                           /\ ops' = Append(ops, Op("sub", n, 0)) /\ UNCHANGED <<relays, conn>>
       \/ \E n \in Nodes : /\ subs[n] > 0 /\ subs' = [subs EXCEPT ![n] = @ - 1]
                           /\ ops' = Append(ops, Op("cancel", n, 0)) /\ UNCHANGED <<relays, conn>>
       \/ \E n \in Nodes : /\ relays[n] < MaxRelays /\ relays' = [relays EXCEPT ![n] = @ + 1]
                           /\ ops' = Append(ops, Op("relay", n, 0)) /\ UNCHANGED <<subs, conn>>
       \/ \E n \in Nodes : /\ relays[n] > 0 /\ relays' = [relays EXCEPT ![n] = @ - 1]
                           /\ ops' = Append(ops, Op("unrelay", n, 0)) /\ UNCHANGED <<subs, conn>>
       \/ \E p \in Pairs : /\ {p[1], p[2]} \notin conn /\ conn' = conn \cup {{p[1], p[2]}}
                           /\ ops' = Append(ops, Op("conn", p[1], p[2])) /\ UNCHANGED <<subs, relays>>
       \/ \E p \in Pairs : /\ {p[1], p[2]} \in conn /\ conn' = conn \ {{p[1], p[2]}}
                           /\ ops' = Append(ops, Op("disc", p[1], p[2])) /\ UNCHANGED <<subs, relays>>
    /\ elig' = Append(elig, {p \in Nodes : /\ PremiseCfg(Nodes, kind, conn', subs', relays', p, Dlo, Dlazy, RandomSubD)
                                            /\ \E x \in Nodes : subs'[x] > 0})
    /\ UNCHANGED <<stage, i, kind, roles0, edges0>>

Next == SetNode \/ SetEdge \/ Start \/ Churn
Spec == Init /\ [][Next]_vars

SetToSeq(S) == LET RECURSIVE F(_)
                   F(T) == IF T = {} THEN <<>> ELSE LET x == CHOOSE x \in T : \A y \in T : x <= y IN <<x>> \o F(T \ {x})
               IN F(S)
EdgeSeq(E) == LET RECURSIVE F(_)
                  F(k) == IF k > Len(PairSeq) THEN <<>>
                          ELSE (IF {PairSeq[k][1], PairSeq[k][2]} \in E THEN <<PairSeq[k]>> ELSE <<>>) \o F(k + 1)
              IN F(1)

\* a scenario is complete whenever the configuration reached admits a publication
Emit == (stage = "churn" /\ elig[Len(elig)] # {}) =>
          PrintT(<<"SCN", ToJson([n |-> N, kinds |-> kind, roles |-> roles0, edges |-> EdgeSeq(edges0), ops |-> ops,
                                  elig |-> [k \in 1..Len(elig) |-> SetToSeq(elig[k])]])>>)
=============================================================================
