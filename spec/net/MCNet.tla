------------------------------- MODULE MCNet -------------------------------
(* Model-checking harness for Net.tla: symmetry sets and a few fixed initial
   configurations used by the MUST-FAIL (non-vacuity) runs.                 *)
EXTENDS Net
CONSTANTS n1, n2, n3, n4
Sym2 == Permutations({n1, n2})
Sym3 == Permutations({n1, n2, n3})
SymLeaves == Permutations({n2, n3, n4})

Sub == [s |-> 1, r |-> 0]
Rly == [s |-> 0, r |-> 1]
Non == [s |-> 0, r |-> 0]

\* a 4-star of gossipsub subscribers: the centre has degree 3 = Dhi, so every time the third leaf
\* grafts, the mesh is cut back to D = 2 and a leaf is left with an empty mesh and a pending backoff:
\* the meshes never settle.  With StrictSettled = FALSE (time-based settling only) a message published
\* by that leaf just before the sweeping heartbeat is lost (the heartbeat grafts first, gossips to
\* non-mesh peers second) - which is why MeshSettled is part of the premise.
InitStar4 == InitCfg([n \in Nodes |-> "gossip"], {{n1, n2}, {n1, n3}, {n1, n4}}, [n \in Nodes |-> Sub])

\* two gossipsub pairs; joining them later leaves a link that is in nobody's mesh (both ends already
\* have Dlo mesh members): everything crossing it needs the IHAVE/IWANT round
InitTwoPairs == InitCfg([n \in Nodes |-> "gossip"], {{n1, n2}, {n3, n4}}, [n \in Nodes |-> Sub])

\* a relay-only cut vertex between a floodsub and a gossipsub subscriber
InitRelayCut == InitCfg((n1 :> "flood") @@ (n2 :> "gossip") @@ (n3 :> "gossip"), {{n1, n2}, {n2, n3}},
                        (n1 :> Sub) @@ (n2 :> Rly) @@ (n3 :> Sub))
=============================================================================
