SPECIFICATION Spec
CONSTANTS
  NIds = 2
  L = 4
  Horizon = 10
  MaxAdv = 3
INVARIANT Emit
CHECK_DEADLOCK FALSE
