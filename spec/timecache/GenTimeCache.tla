---------------------------- MODULE GenTimeCache ----------------------------
(* Scenario generator for the time cache (C02): every sequence of L operations
   over  add(id) / has(id) / adv(n)  (advance time by n ticks, 1 <= n <= MaxAdv)
   that stays within Horizon ticks, in a canonical form:
     - ids are introduced in order (the cache treats ids alike),
     - a run of time advances is written  adv(MaxAdv)* adv(n)?  (adv 1; adv 1 = adv 2),
     - an emitted sequence ends with an observation (a trailing advance shows nothing).
   Every shorter sequence is a prefix of an emitted one.  Only INPUTS are
   emitted; the results are whatever the real cache answers and are judged by
   TimeCacheTrace.  In -simulate mode the same module yields random long
   sequences (deeper horizons than the exhaustive bound).                     *)
EXTENDS Naturals, Sequences, FiniteSets, TLC, Json

CONSTANTS NIds,      \* number of ids (introduced in the order a, b, c)
          L, Horizon, MaxAdv

IdSeq == SubSeq(<<"a", "b", "c">>, 1, NIds)

VARIABLES hist, now, used     \* used = number of ids introduced so far

vars == <<hist, now, used>>

Init == hist = <<>> /\ now = 0 /\ used = 0

IdOp(kind, i) ==
    /\ i <= used + 1
    /\ hist' = Append(hist, [op |-> kind, id |-> IdSeq[i], n |-> 0])
    /\ used' = IF i > used THEN i ELSE used
    /\ UNCHANGED now

Adv(n) ==
    /\ now + n <= Horizon
    /\ Len(hist) < L - 1                    \* an observation must be able to follow
    /\ IF hist = <<>> THEN TRUE
       ELSE (hist[Len(hist)].op # "adv" \/ hist[Len(hist)].n = MaxAdv)
    /\ hist' = Append(hist, [op |-> "adv", id |-> "", n |-> n])
    /\ now' = now + n
    /\ UNCHANGED used

Next == /\ Len(hist) < L
        /\ \/ \E i \in 1..Len(IdSeq) : IdOp("add", i) \/ IdOp("has", i)
           \/ \E n \in 1..MaxAdv : Adv(n)

Spec == Init /\ [][Next]_vars

Emit == (IF Len(hist) = L THEN hist[L].op # "adv" ELSE FALSE) => PrintT(<<"SCN", ToJson([ops |-> hist])>>)
=============================================================================
