SPECIFICATION MCSpec
CONSTANTS
  Ids = {"a", "b"}
  Bug = "none"
  Strategies = {"first", "last"}
  TTL = 2
  Sweep = 3
  Horizon = 10
INVARIANTS TypeOK P_C02_Remembered P_C02_Forgotten
PROPERTIES P_C02_AddNewIffAbsent
CHECK_DEADLOCK FALSE
