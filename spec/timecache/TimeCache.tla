----------------------------- MODULE TimeCache -----------------------------
(* The seen-message time cache of go-libp2p-pubsub (timecache/*.go), property
   C02, second sentence: "An ID stays remembered for at least the configured
   TTL (counted from its first sighting under the first-seen strategy, from its
   latest sighting under last-seen) and is eventually forgotten once the TTL
   plus one sweep interval has passed without qualifying activity"; Add returns
   true iff the id was absent.

   Time is counted in ticks.  The cache is created at tick 0; the background
   sweeper (util.go: background/sweep) fires every `sweep` ticks after creation
   and deletes the entries whose expiry is STRICTLY before the sweep instant.
   Has does not look at the expiry (an expired but not yet swept id is still
   reported).  An operation performed at tick n is ordered after the sweep of
   tick n (the driver forces this order with synctest.Wait).

   strategy / ttl / sweep are variables only so that the trace specification
   can bind them per scenario (they never change).                           *)
EXTENDS Integers, FiniteSets

CONSTANTS Ids,      \* message ids
          Bug       \* "none" = the code as read.  Other values are seeded variants used ONLY to show that
                    \* the properties below are not vacuous (each must make TLC report a violation):
                    \* "sweep_le", "has_norefresh", "first_add_refresh"

VARIABLES strategy,   \* "first" (FirstSeenCache) or "last" (LastSeenCache)
          ttl, sweep, \* in ticks
          exp,        \* exp[id] = expiry tick of a stored id, NONE if the id is not in the map
          now,        \* current tick
          firstSeen,  \* monitor: tick of the Add that (last) inserted the id, NONE if never
          lastTouch   \* monitor: tick of the last Add, or Has that found the id, NONE if never

params == <<strategy, ttl, sweep>>
tcvars == <<strategy, ttl, sweep, exp, now, firstSeen, lastTouch>>

NONE == -1
Present(id) == exp[id] # NONE

TCInit == /\ exp = [id \in Ids |-> NONE] /\ now = 0
          /\ firstSeen = [id \in Ids |-> NONE] /\ lastTouch = [id \in Ids |-> NONE]

(* --- results, evaluated in the state in which the call is made --- *)
AddRes(id) == ~Present(id)      \* TRUE = "new": FirstSeenCache.Add / LastSeenCache.Add return !ok
HasRes(id) == Present(id)

(* --- actions --- *)
\* first_seen_cache.go:50-61: an existing entry is left alone; last_seen_cache.go:42-50: always re-stamped
Add(id) ==
    /\ exp' = IF Present(id) /\ strategy = "first" /\ Bug # "first_add_refresh"
                THEN exp ELSE [exp EXCEPT ![id] = now + ttl]
    /\ firstSeen' = IF Present(id) THEN firstSeen ELSE [firstSeen EXCEPT ![id] = now]
    /\ lastTouch' = [lastTouch EXCEPT ![id] = now]
    /\ UNCHANGED <<params, now>>

\* first_seen_cache.go:41-47: pure lookup; last_seen_cache.go:53-63: a hit re-stamps the expiry
Has(id) ==
    /\ exp' = IF Present(id) /\ strategy = "last" /\ Bug # "has_norefresh"
                THEN [exp EXCEPT ![id] = now + ttl] ELSE exp
    /\ lastTouch' = IF Present(id) THEN [lastTouch EXCEPT ![id] = now] ELSE lastTouch
    /\ UNCHANGED <<params, now, firstSeen>>

\* util.go:29-37: `if expiry.Before(now) { delete }`
Swept(e, t) == IF Bug = "sweep_le" THEN e <= t ELSE e < t
Tick ==
    /\ now' = now + 1
    /\ exp' = IF now' % sweep = 0
                THEN [id \in Ids |-> IF Present(id) /\ Swept(exp[id], now') THEN NONE ELSE exp[id]]
                ELSE exp
    /\ UNCHANGED <<params, firstSeen, lastTouch>>

TCNext == Tick \/ \E id \in Ids : Add(id) \/ Has(id)

(* --- the property --- *)
\* the qualifying instant: first sighting under first-seen, latest sighting under last-seen
Q(id) == IF strategy = "first" THEN firstSeen[id] ELSE lastTouch[id]

\* remembered for at least the TTL ...
P_C02_Remembered == \A id \in Ids : Q(id) # NONE /\ now <= Q(id) + ttl => HasRes(id)
\* ... and forgotten once TTL plus one sweep interval has passed without qualifying activity
P_C02_Forgotten  == \A id \in Ids : (Q(id) = NONE \/ now > Q(id) + ttl + sweep) => ~HasRes(id)
\* Add answers "new" exactly for ids Has would not report, and afterwards Has reports the id
P_C02_AddNewIffAbsent ==
    [][\A id \in Ids : Add(id) => (AddRes(id) = ~HasRes(id)) /\ Present(id)']_tcvars

TypeOK == /\ strategy \in {"first", "last"} /\ ttl \in Nat /\ sweep \in Nat \ {0}
          /\ exp \in [Ids -> {NONE} \cup 0..(now + ttl)] /\ now \in Nat
          /\ firstSeen \in [Ids -> {NONE} \cup 0..now] /\ lastTouch \in [Ids -> {NONE} \cup 0..now]
=============================================================================
