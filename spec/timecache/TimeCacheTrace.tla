--------------------------- MODULE TimeCacheTrace ---------------------------
(* Trace specification for the time cache (C02, container part).  The file is
   a concatenation of scenarios recorded from the REAL cache by
   harness/drivers/c02cache (reset line, then add / has / tick lines).
   The container is deterministic, so the trace has exactly one explanation:
   the cursor `l` walks the file, the model (TimeCache.tla) takes the same
   step, and four predicates are evaluated on the REAL result of every call:

     P_C02_ModelAgreement   the result equals the model's (exact agreement);
     P_C02_Remembered       an id is reported present up to TTL after its qualifying instant;
     P_C02_Forgotten        an id is reported absent once TTL + Sweep have passed since it
                            (and an id never added is reported absent);
     P_C02_AddNewIffAbsent  Add answers "new" iff the cache itself established absence at
                            this very instant, and whatever it established stays so until
                            time moves.

   The last three use only monitors computed from the real answers (oq, olast),
   not the model state.  A failing predicate does not stop the walk: it prints
     <<"VIOL", json>>   and the walk goes on, so one run lists every failure.
   Model agreement is reported once per scenario (the model then follows its
   own answers).  A line that cannot be consumed at all (malformed trace, a
   driver whose clock is not where the scenario says) leaves the cursor short
   of the end; the orchestrator reports that as inconclusive.               *)
EXTENDS Integers, Sequences, FiniteSets, TLC, Json

CONSTANT Ids

Trace == ndJsonDeserialize("trace.ndjson")

VARIABLES strategy, ttl, sweep, exp, now, firstSeen, lastTouch,   \* the model (TimeCache)
          oq,      \* oq[id]: qualifying instant according to the REAL answers (NONE = never)
          olast,   \* olast[id] = [t, p]: presence of id established by the real cache at tick t
          scn, unit, half,   \* current scenario: index, tick length in ms, operations at mid-tick
          drift,   \* the real cache has already disagreed with the model in this scenario
          l        \* cursor

T == INSTANCE TimeCache WITH Bug <- "none"
NONE == T!NONE

tvars == <<strategy, ttl, sweep, exp, now, firstSeen, lastTouch, oq, olast, scn, unit, half, drift, l>>
E == Trace[l]
More == l <= Len(Trace)
Adv == l' = l + 1

TInit == /\ TLCSet(1, 0)
         /\ strategy = "first" /\ ttl = 1 /\ sweep = 1 /\ T!TCInit
         /\ oq = [id \in Ids |-> NONE] /\ olast = [id \in Ids |-> [t |-> NONE, p |-> FALSE]]
         /\ scn = 0 /\ unit = 1000 /\ half = FALSE /\ drift = FALSE /\ l = 1

TReset ==
    /\ More /\ E.e = "reset"
    /\ strategy' = E.strategy /\ ttl' = E.ttl /\ sweep' = E.sweep
    /\ exp' = [id \in Ids |-> NONE] /\ now' = 0
    /\ firstSeen' = [id \in Ids |-> NONE] /\ lastTouch' = [id \in Ids |-> NONE]
    /\ oq' = [id \in Ids |-> NONE] /\ olast' = [id \in Ids |-> [t |-> NONE, p |-> FALSE]]
    /\ scn' = E.scn /\ unit' = E.unit_ms /\ half' = E.half /\ drift' = FALSE /\ Adv

\* the driver's virtual clock must be where the model's tick counter says
TTick ==
    /\ More /\ E.e = "tick"
    /\ T!Tick
    /\ E.t = now' * unit + (IF half THEN unit \div 2 ELSE 0)
    /\ Adv /\ UNCHANGED <<oq, olast, scn, unit, half, drift>>

Report(pred, id, p, mp) ==
    PrintT(<<"VIOL", ToJson([scn |-> scn, line |-> l, pred |-> pred, op |-> E.e, id |-> id, now |-> now,
                             q |-> oq[id], ttl |-> ttl, sweep |-> sweep, strategy |-> strategy,
                             real_present |-> p, model_present |-> mp])>>)

\* p = presence of id as the real cache just reported it (Has: r; Add: ~r)
Judge(id, p) ==
    LET q  == oq[id]
        mp == T!Present(id)
    IN \* IF, not a disjunction: TLC would explore (and print) both disjuncts of an action-level "\/"
       /\ IF (q # NONE /\ now <= q + ttl) => p          THEN TRUE ELSE Report("P_C02_Remembered", id, p, mp)
       /\ IF (q = NONE \/ now > q + ttl + sweep) => ~p   THEN TRUE ELSE Report("P_C02_Forgotten", id, p, mp)
       /\ IF olast[id].t = now => p = olast[id].p        THEN TRUE ELSE Report("P_C02_AddNewIffAbsent", id, p, mp)
       /\ IF drift \/ p = mp                             THEN TRUE ELSE Report("P_C02_ModelAgreement", id, p, mp)
       /\ drift' = (drift \/ p # mp)

TAdd ==
    /\ More /\ E.e = "add" /\ E.id \in Ids
    /\ Judge(E.id, ~E.r)
    /\ T!Add(E.id)
    /\ oq' = IF strategy = "last" \/ E.r THEN [oq EXCEPT ![E.id] = now] ELSE oq
    /\ olast' = [olast EXCEPT ![E.id] = [t |-> now, p |-> TRUE]]
    /\ Adv /\ UNCHANGED <<scn, unit, half>>

THas ==
    /\ More /\ E.e = "has" /\ E.id \in Ids
    /\ Judge(E.id, E.r)
    /\ T!Has(E.id)
    /\ oq' = IF strategy = "last" /\ E.r THEN [oq EXCEPT ![E.id] = now] ELSE oq
    /\ olast' = [olast EXCEPT ![E.id] = [t |-> now, p |-> E.r]]
    /\ Adv /\ UNCHANGED <<scn, unit, half>>

TNext == TReset \/ TTick \/ TAdd \/ THas
TraceSpec == TInit /\ [][TNext]_tvars

\* high-water mark of the cursor (needs -workers 1)
HW == IF TLCGet(1) < l THEN TLCSet(1, l) ELSE TRUE
Accepted == PrintT(<<"HW", TLCGet(1), Len(Trace) + 1>>)
=============================================================================
