---------------------------- MODULE MCTimeCache ----------------------------
(* Exhaustive check of TimeCache: every sequence of Add / Has / Tick (of any
   length) within Horizon ticks, for every strategy in Strategies.  The state
   has no history, so "every sequence" is the closure of the state graph.    *)
EXTENDS TimeCache

CONSTANTS Strategies, TTL, Sweep, Horizon

MCInit == /\ strategy \in Strategies /\ ttl = TTL /\ sweep = Sweep /\ TCInit
MCNext == (now < Horizon /\ Tick) \/ \E id \in Ids : Add(id) \/ Has(id)
MCSpec == MCInit /\ [][MCNext]_tcvars
=============================================================================
