SPECIFICATION TraceSpec
CONSTANTS
  Ids = {"a", "b", "c"}
CONSTRAINT HW
POSTCONDITION Accepted
CHECK_DEADLOCK FALSE
