SPECIFICATION Spec
CONSTANTS
  Peers = {"p1", "p2"}
  Topics = {"t1", "t2"}
  Msgs = {"g1"}
  Cap = 1
  Bump = 1
  Amount = 1
  MaxLen = 0
  Prelude = 0
  DevD7 = FALSE
  DevDirectKeep = FALSE
  DevLeaveNoPrune = FALSE
  DevLeaveNoClose = FALSE
  DevDouble = FALSE
  DevBLLeak = FALSE
INVARIANT TypeOK
INVARIANT P_X03_a
INVARIANT P_X03_b
INVARIANT P_X03_c
INVARIANT P_X03_d
INVARIANT P_X03_e
INVARIANT P_X03_f
VIEW MCView
CHECK_DEADLOCK FALSE
