----------------------------- MODULE TagsTrace -----------------------------
(* Trace specification for X03.  Every line is one step of a scenario replayed on the real node
   (harness/drivers/x03, projected by bin/lib/props/x03.py):

     a, p, m, on     the stimulus (world action kind; peer / message / flag where it has one)
     t               virtual ms at the end of the step
     ev              the tag-relevant RawTracer events of the step, in order:
                     [k (Join Leave Graft Prune Up Down Validate Duplicate Deliver Reject), p, t (topic), m, r (reason), ms]
     mesh, up, direct, joined          from the node's snapshot after the step (<<t, p>> pairs / names)
     prot, tags, other, conn, nf       from the REAL BasicConnMgr and the tag tracer after the step:
                     prot <<p, tag>>, tags <<p, topic, value>> (pubsub-deliveries:<topic>), other <<p, tag name, value>>,
                     conn names, nf <<m, <<peers>>>>

   The operators of Tags are folded over the events: Mn... gives the MEANING (reference values, which
   messages are validating), TT.../CM... with the as-found deviations switched on (configuration:
   DevDouble = DevBLLeak = TRUE) gives what the code as found is known to do and is used ONLY to label a
   failure that a listed finding explains ("as-found-...").  Ticks of the connection manager's decayer
   are placed by the time stamps (multiples of the resolution; a tag decays at the first tick that
   is not before its nextTick = last tick before registration + interval, then every interval).

   The replay is deterministic: there is one behaviour; every failing predicate instance is printed
   (<<"VIOL", json>>) instead of blocking the cursor; <<"DRIFT", json>> lines are notes (no verdict).  *)
EXTENDS Tags

Trace == ndJsonDeserialize("trace.ndjson")

VARIABLES l,       \* cursor
          next,    \* next[t]: virtual ms of the next decay of the delivery tag of t
          clock,   \* virtual ms up to which decayer ticks have been applied
          ivl, res \* decay interval / decayer resolution of the scenario (ms)
tvars == <<vars, l, next, clock, ivl, res>>

E == Trace[l]
SeqSet(q) == {q[i] : i \in DOMAIN q}

TInit == /\ TLCSet(1, 0) /\ l = 1
         /\ tt = T0 /\ mn = Mn0 /\ up = {} /\ conn = {} /\ mesh = [t \in Topics |-> {}]
         /\ direct = {} /\ bl = {} /\ hist = <<>>
         /\ next = [t \in Topics |-> 0] /\ clock = 0 /\ ivl = 60000 /\ res = 60000

TReset == /\ E.a = "reset"
          /\ tt' = T0 /\ mn' = Mn0 /\ mesh' = [t \in Topics |-> {}] /\ direct' = SeqSet(E.direct0)
          /\ next' = [t \in Topics |-> 0] /\ clock' = E.t /\ ivl' = E.intervalMs /\ res' = E.resMs
          /\ UNCHANGED <<up, conn, bl, hist>>

(* ---------------------------------------------------------------- decayer ticks *)
DecayAt(S, tau) ==
    LET dueT == {t \in S.tt.dtag : S.next[t] <= tau}
        dueM == {t \in S.mn.joined : S.next[t] <= tau}
    IN  [S EXCEPT !.tt = DecayAllT(@, dueT), !.mn = DecayAllM(@, dueM),
                  !.next = [t \in Topics |-> IF t \in dueT \cup dueM THEN @[t] + ivl ELSE @[t]]]

RECURSIVE TickLoop(_, _, _)
TickLoop(S, tau, upto) == IF tau > upto THEN S ELSE TickLoop(DecayAt(S, tau), tau + res, upto)
\* all ticks in (S.clock, upto]
Ticks(S, upto) == IF upto <= S.clock THEN S
                  ELSE [TickLoop(S, ((S.clock \div res) + 1) * res, upto) EXCEPT !.clock = upto]

(* ---------------------------------------------------------------- one tracer event *)
ApplyEv(S, e) ==
    CASE e.k = "Join"  -> [S EXCEPT !.tt = TTJoin(@, e.t), !.mn = MnJoin(@, e.t),
                                    !.next[e.t] = (e.ms \div res) * res + ivl]
      [] e.k = "Leave" -> [S EXCEPT !.tt = TTLeave(@, e.t), !.mn = MnLeave(@, e.t)]
      [] e.k = "Graft" -> [S EXCEPT !.tt = TTGraft(@, e.p, e.t), !.mesh[e.t] = @ \cup {e.p}]
      [] e.k = "Prune" -> [S EXCEPT !.tt = TTPrune(@, e.p, e.t), !.mesh[e.t] = @ \ {e.p}]
      [] e.k = "Up"    -> [S EXCEPT !.tt = TTUp(@, e.p, e.p \in S.direct)]
      [] e.k = "Down"  -> [S EXCEPT !.tt = TTDown(@, e.p, {t \in Topics : e.p \in S.mesh[t]}),
                                    !.mesh = [t \in Topics |-> @[t] \ {e.p}]]
      [] e.k = "Validate" ->
            [S EXCEPT !.tt = TTValidate(@, e.m), !.mn = MnValidate(@, e.m, e.p, e.t),
                      !.drift = IF IsValidating(S.mn, e.m) THEN @ \cup {"validate-while-validating"} ELSE @]
      [] e.k = "Duplicate" -> [S EXCEPT !.tt = TTDuplicate(@, e.m, e.p), !.mn = MnDuplicate(@, e.m, e.p)]
      [] e.k = "Deliver" /\ e.p = "self" -> S    \* a local message reached the raw tracers: no credit is due (and the tag
                                                \* tracer as found never sees it); whatever appears is judged by Check
      [] e.k = "Deliver" ->
            IF IsValidating(S.mn, e.m)
              THEN [S EXCEPT !.tt = TTDeliver(@, e.m, e.p, e.t), !.mn = MnDeliver(@, e.m)]
              ELSE [S EXCEPT !.tt = TTDeliver(@, e.m, e.p, e.t), !.drift = @ \cup {"deliver-without-validate"}]
      [] e.k = "Reject" ->
            \* the rejected object is the validated one: always for the three validation reasons; for a blacklist
            \* reason only when this step releases the validator of that very message (a copy rejected on arrival
            \* carries the same reason)
            LET inst == IsValidating(S.mn, e.m) /\
                        (e.r \in ValidationReasons \/ (e.r \in BlacklistReasons /\ E.a = "rel" /\ E.m = e.m))
            IN  [S EXCEPT !.tt = TTReject(@, e.m, e.r, inst), !.mn = IF inst THEN MnEnd(@, e.m) ELSE @]
      [] OTHER -> S

RECURSIVE FoldEv(_, _, _)
FoldEv(S, evs, i) == IF i > Len(evs) THEN S ELSE FoldEv(ApplyEv(Ticks(S, evs[i].ms), evs[i]), evs, i + 1)

(* ---------------------------------------------------------------- one line *)
Report(tag, pred, kind, p, t, m, obs, exp) ==
    PrintT(<<tag, ToJson([pred |-> pred, kind |-> kind, scn |-> E.scn, i |-> E.i, a |-> E.a,
                          p |-> p, t |-> t, m |-> m, obs |-> obs, exp |-> exp])>>)

After ==
    LET S0 == [tt |-> tt, mn |-> mn, mesh |-> mesh, next |-> next, direct |-> direct, clock |-> clock, drift |-> {}]
        S1 == CASE E.a = "direct" /\ E.on  -> [S0 EXCEPT !.direct = @ \cup {E.p}, !.tt = TTAddDirect(@, E.p)]
                [] E.a = "direct" /\ ~E.on -> [S0 EXCEPT !.direct = @ \ {E.p}, !.tt = TTRemoveDirect(@, E.p)]
                [] E.a = "down"            -> [S0 EXCEPT !.tt = CMDisconnected(@, E.p), !.mn = MnDisconnected(@, E.p)]
                [] OTHER -> S0
    IN  Ticks(FoldEv(S1, E.ev, 1), E.t)

ObsVal(p, t) == LET s == {x \in SeqSet(E.tags) : x[1] = p /\ x[2] = t}
                IN  IF s = {} THEN 0 ELSE (CHOOSE x \in s : TRUE)[3]

Check(S) ==
    LET obsProt == SeqSet(E.prot)
        obsMesh == SeqSet(E.mesh)
        obsDirect == SeqSet(E.direct)
        obsUp == SeqSet(E.up)
        obsConn == SeqSet(E.conn)
        obsNF == SeqSet(E.nf)
        keys == {x[1] : x \in obsNF}
        V == Validating(S.mn)
    IN
    \* X03.a
    /\ \A p \in Peers, t \in Topics :
         LET pr == <<p, t>> \in obsProt
             me == <<t, p>> \in obsMesh
         IN  (pr # me) => Report("VIOL", "P_X03_a", IF pr THEN "stale" ELSE "missing", p, t, "", 0, 0)
    /\ \A x \in obsProt : (x[2] \notin Topics \cup {Direct}) => Report("VIOL", "P_X03_a", "unknown-tag", x[1], x[2], "", 0, 0)
    \* X03.b
    /\ \A p \in Peers :
         LET d == <<p, Direct>> \in obsProt
         IN  /\ (d /\ p \notin obsDirect) => Report("VIOL", "P_X03_b", "stale", p, "", "", 0, 0)
             /\ (~d /\ p \in obsDirect /\ p \in obsUp) => Report("VIOL", "P_X03_b", "missing", p, "", "", 0, 0)
    \* X03.c
    /\ \A x \in obsProt : x[2] \in Topics =>
         /\ x[1] \notin obsConn => Report("VIOL", "P_X03_c", "gone-peer", x[1], x[2], "", 0, 0)
         /\ x[2] \notin S.mn.joined => Report("VIOL", "P_X03_c", "left-topic", x[1], x[2], "", 0, 0)
    \* X03.d / X03.f
    /\ \A p \in Peers, t \in Topics :
         LET o == ObsVal(p, t)
             x == S.mn.exp[p][t]
         IN  (o # x) => Report("VIOL", IF t \in S.mn.joined THEN "P_X03_d" ELSE "P_X03_f",
                               IF o = S.tt.val[p][t] /\ <<p, t>> \in S.tt.dbl THEN "as-found-double" ELSE IF o > x THEN "higher" ELSE "lower",
                               p, t, "", o, x)
    /\ \A x \in SeqSet(E.other) : Report("VIOL", "P_X03_d", "foreign-tag", x[1], x[2], "", x[3], 0)
    \* X03.e
    /\ \A m \in keys \ V : Report("VIOL", "P_X03_e", IF m \in DOMAIN S.tt.nf /\ m \in S.tt.leaked THEN "as-found-blleak" ELSE "leak", "", "", m, 0, 0)
    /\ \A m \in V \ keys : Report("VIOL", "P_X03_e", "missing", "", "", m, 0, 0)
    /\ \A x \in obsNF : (x[1] \in V /\ SeqSet(x[2]) # S.mn.ms[x[1]].near) =>
                           Report("VIOL", "P_X03_e", "members", "", "", x[1], Cardinality(SeqSet(x[2])), Cardinality(S.mn.ms[x[1]].near))
    \* notes
    /\ \A t \in Topics : (S.mesh[t] # {q \in Peers : <<t, q>> \in obsMesh}) => Report("DRIFT", "mesh-events", "", "", t, "", 0, 0)
    /\ (S.direct # obsDirect) => Report("DRIFT", "direct", "", "", "", "", 0, 0)
    /\ (S.mn.joined # SeqSet(E.joined)) => Report("DRIFT", "joined", "", "", "", "", 0, 0)
    /\ \A d \in S.drift : Report("DRIFT", d, "", "", "", "", 0, 0)

TStep == /\ E.a # "reset"
         /\ \E S \in {After} :
              /\ Check(S)
              /\ tt' = S.tt /\ mn' = S.mn /\ mesh' = S.mesh /\ direct' = S.direct /\ next' = S.next /\ clock' = S.clock
         /\ UNCHANGED <<up, conn, bl, hist, ivl, res>>

TNext == l <= Len(Trace) /\ (TReset \/ TStep) /\ l' = l + 1

TraceSpec == TInit /\ [][TNext]_tvars

HW == IF TLCGet(1) < l THEN TLCSet(1, l) ELSE TRUE
Accepted == PrintT(<<"HW", TLCGet(1), Len(Trace) + 1>>)
=============================================================================
