SPECIFICATION GenSpec
CONSTANTS
  Peers = {"p1", "p2", "p3"}
  Topics = {"t1", "t2"}
  Msgs = {"g1", "g2"}
  Cap = 2
  Bump = 1
  Amount = 1
  MaxLen = 2
  Prelude = 1
  DevD7 = FALSE
  DevDirectKeep = FALSE
  DevLeaveNoPrune = FALSE
  DevLeaveNoClose = FALSE
  DevDouble = FALSE
  DevBLLeak = FALSE
INVARIANT Emit
CHECK_DEADLOCK FALSE
