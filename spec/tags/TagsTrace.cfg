SPECIFICATION TraceSpec
CONSTANTS
  Peers = {"p1", "p2", "p3", "p4", "p5", "p6", "p7", "self"}
  Topics = {"t1", "t2", "t3"}
  Msgs = {}
  Cap = 3
  Bump = 1
  Amount = 1
  MaxLen = 0
  Prelude = 0
  DevD7 = FALSE
  DevDirectKeep = FALSE
  DevLeaveNoPrune = FALSE
  DevLeaveNoClose = FALSE
  DevDouble = TRUE
  DevBLLeak = TRUE
CONSTRAINT HW
POSTCONDITION Accepted
CHECK_DEADLOCK FALSE
