SPECIFICATION Spec
CONSTANTS
  Peers = {"p1", "p2"}
  Topics = {"t1"}
  Msgs = {"g1", "g2"}
  Cap = 2
  Bump = 1
  Amount = 1
  MaxLen = 0
  Prelude = 0
  DevD7 = FALSE
  DevDirectKeep = TRUE
  DevLeaveNoPrune = FALSE
  DevLeaveNoClose = FALSE
  DevDouble = FALSE
  DevBLLeak = FALSE
INVARIANT P_X03_b
VIEW MCView
CHECK_DEADLOCK FALSE
