------------------------------- MODULE Tags -------------------------------
(* X03 - connection-manager tagging of go-libp2p-pubsub (/repo/tag_tracer.go and its call
   sites in gossipsub.go: NewGossipSub, WithDirectPeers, Attach, OnClosedOutboundStream,
   AddDirectPeer, RemoveDirectPeer; pubsubTracer dispatch in trace.go).

   PROPERTIES (machine-readable copy: properties_x.json)

   X03.a MeshProtected.   At every quiescent point, for every peer p and topic t: the connection
         manager protects p under the tag "pubsub:<t>" IF AND ONLY IF p is in mesh[t] - across
         Join/Leave, GRAFT/PRUNE from either side, heartbeat maintenance, score pruning, fanout
         promotion, disconnects, re-connects and blacklisting.
   X03.b DirectProtected. The tag "pubsub:<direct>" protects p ONLY IF p is a configured direct peer,
         and ALWAYS when p is a direct peer with an established outbound stream (configured by
         option or by AddDirectPeer); it survives reconnects and is lifted by RemoveDirectPeer.
   X03.c Balance.         Protect/Unprotect balance: NEVER a "pubsub:<t>" protection for a peer without
         a connection, NEVER one for a topic the node has not joined (after Leave(t) nobody carries
         the tag of t; after a peer is gone its topic protections are gone).
   X03.d DeliveryValue.   The value of the decaying tag "pubsub-deliveries:<t>" of peer p EQUALS the
         reference value: +bump, bounded by the cap, for EXACTLY the first deliverer of each delivered
         message of t and the near-first deliverers (peers whose duplicate was traced between
         ValidateMessage and DeliverMessage of that message), AT MOST ONCE per peer and message;
         minus the decay amount at every decay interval (tag removed at <= 0); reset when the peer's
         last connection closes.  NEVER a bump for a rejected / ignored / throttled message, for a
         duplicate that arrives after the delivery, for a locally published message; no other tag
         is written by pubsub.
   X03.e NearFirstExact.  tagTracer.nearFirst has an entry for message m EXACTLY while m is being
         validated (created at ValidateMessage, gone after DeliverMessage or after ANY rejection that
         ends the validation), holding exactly the peers whose duplicates were traced in that window:
         no leak.
   X03.f ClosedTagInert.  A delivery tag exists ONLY for joined topics: Leave(t) closes the tag (every
         value of t disappears); a message of t still validating at Leave(t) and delivered afterwards
         changes no tag and does not crash; re-joining starts from zero.

   STRUCTURE.  Two levels, kept apart on purpose:
     * MECHANISM  (record tt, operators TT.../CM...): what tag_tracer.go and the BasicConnMgr keep -
       protections, decaying values, the registered decaying tags, the nearFirst map - one operator
       per RawTracer callback / direct call / connection-manager event.  Named deviations (constants
       Dev...) are seeded defects or the code as found:
           DevDouble  (AS FOUND)  DeliverMessage bumps msg.ReceivedFrom and then every member of nearFirst,
                                  which contains ReceivedFrom again when the first deliverer re-sent the
                                  message while it validated: two bumps for one message;
           DevBLLeak  (AS FOUND)  a message that comes back from validation after its forwarder/source was
                                  blacklisted is rejected with a blacklist reason, which RejectMessage
                                  does not clean up: the nearFirst entry leaks;
           DevD7, DevDirectKeep, DevLeaveNoPrune, DevLeaveNoClose: seeded defects (non-vacuity).
     * MEANING    (record mn, operators Mn...): the message pipeline as the trace shows it (per message:
       validating / done, first deliverer, peers whose duplicate fell into the validation window) and
       the reference delivery values exp.
   The environment (a small gossipsub: joined topics, streams, connections, mesh, direct peers,
   blacklist) drives both; the invariants P_X03_* relate them.  The same operators are folded over
   recorded tracer events of the real node by TagsTrace.tla.

   DELIBERATE ABSTRACTIONS: Join and its initial GRAFTs are separate steps (GraftP also stands for
   heartbeat / opportunistic grafting and fanout promotion, PruneP for the peer's PRUNE, heartbeat and
   score pruning); connection and streams go up together; signature failures and queue overflow happen
   before ValidateMessage and touch nothing here; a validation outlasting the seen-cache TTL is outside
   the model (Expire only forgets finished messages).                                                *)
EXTENDS Naturals, Sequences, FiniteSets, TLC, Json

CONSTANTS Peers, Topics, Msgs,
          Cap, Bump, Amount,     \* GossipSubConnTagMessageDeliveryCap / ...BumpMessageDelivery / ...DecayAmount
          MaxLen,                \* 0: model checking (no history); > 0: generator, scenarios of exactly MaxLen stimuli
          Prelude,               \* generator: which initial situation (see GenInit)
          DevD7, DevDirectKeep, DevLeaveNoPrune, DevLeaveNoClose, DevDouble, DevBLLeak

VARIABLES tt,      \* mechanism: [dtag, prot, val, nf, dbl, leaked]
          mn,      \* meaning:   [joined, ms, exp]
          up,      \* peers with an established outbound stream (gs.peers)
          conn,    \* peers the connection manager has a connection to
          mesh,    \* mesh[t]
          direct,  \* configured direct peers
          bl,      \* blacklisted peers
          hist     \* generator output

vars == <<tt, mn, up, conn, mesh, direct, bl, hist>>

Direct == "<direct>"
NoPeer == ""
ValidationReasons == {"validation failed", "validation ignored", "validation throttled"}
BlacklistReasons  == {"blacklisted peer", "blacklisted source"}

Min(a, b) == IF a < b THEN a ELSE b
EmptyF == [x \in {} |-> {}]
Put(f, k, v) == [x \in DOMAIN f \cup {k} |-> IF x = k THEN v ELSE f[x]]
Del(f, k) == [x \in DOMAIN f \ {k} |-> f[x]]
Zeros == [p \in Peers |-> [t \in Topics |-> 0]]

(* ------------------------------------------------------------------ mechanism *)
\* dbl / leaked: where an as-found deviation has taken effect (labels for TagsTrace; hidden by MCView)
T0 == [dtag |-> {}, prot |-> [p \in Peers |-> {}], val |-> Zeros, nf |-> EmptyF, dbl |-> {}, leaked |-> {}]

\* tagTracer.Join -> addDeliveryTag (RegisterDecayingTag fails when the name is registered: no change)
TTJoin(T, t) == [T EXCEPT !.dtag = @ \cup {t}]
\* tagTracer.Leave -> removeDeliveryTag: the decayer drops the tag from every peer
TTLeave(T, t) == IF DevLeaveNoClose THEN T
                 ELSE [T EXCEPT !.dtag = @ \ {t}, !.val = [p \in Peers |-> [@[p] EXCEPT ![t] = 0]],
                                !.dbl = {x \in @ : x[2] # t}]
TTGraft(T, p, t) == [T EXCEPT !.prot[p] = @ \cup {t}]          \* tagMeshPeer
TTPrune(T, p, t) == [T EXCEPT !.prot[p] = @ \ {t}]             \* untagMeshPeer
\* tagTracer.OnNewOutboundStream
TTUp(T, p, isDirect) == IF isDirect THEN [T EXCEPT !.prot[p] = @ \cup {Direct}] ELSE T
\* GossipSubRouter.OnClosedOutboundStream: the mesh loop calls untagMeshPeer (fix 4e69f3d, D7)
TTDown(T, p, meshTopics) == IF DevD7 THEN T ELSE [T EXCEPT !.prot[p] = @ \ meshTopics]
TTAddDirect(T, p) == [T EXCEPT !.prot[p] = @ \cup {Direct}]
TTRemoveDirect(T, p) == IF DevDirectKeep THEN T ELSE [T EXCEPT !.prot[p] = @ \ {Direct}]

\* decayingTag.Bump with BumpSumBounded(0, Cap); bumpDeliveryTag fails when no tag is registered for the topic
BumpSet(T, S, t) ==
    IF t \in T.dtag
      THEN [T EXCEPT !.val = [q \in Peers |-> IF q \in S THEN [@[q] EXCEPT ![t] = Min(Cap, @ + Bump)] ELSE @[q]]]
      ELSE T

TTValidate(T, m) == IF m \in DOMAIN T.nf THEN T ELSE [T EXCEPT !.nf = Put(@, m, {})]
TTDuplicate(T, m, p) == IF m \in DOMAIN T.nf THEN [T EXCEPT !.nf = Put(@, m, @[m] \cup {p})] ELSE T
\* tagTracer.DeliverMessage: p = msg.ReceivedFrom, t = msg.GetTopic()
TTDeliver(T, m, p, t) ==
    LET near == IF m \in DOMAIN T.nf THEN T.nf[m] ELSE {}
        T1   == BumpSet(T, {p}, t)
        T2   == BumpSet(T1, IF DevDouble THEN near ELSE near \ {p}, t)
        dbl  == DevDouble /\ p \in near /\ t \in T.dtag
    IN  [T2 EXCEPT !.nf = Del(@, m), !.dbl = IF dbl THEN @ \cup {<<p, t>>} ELSE @]
\* tagTracer.RejectMessage; inst = the rejected message object is the one that went through ValidateMessage
TTReject(T, m, reason, inst) ==
    IF reason \in ValidationReasons THEN [T EXCEPT !.nf = Del(@, m)]
    ELSE IF inst /\ m \in DOMAIN T.nf
           THEN (IF DevBLLeak THEN [T EXCEPT !.leaked = @ \cup {m}] ELSE [T EXCEPT !.nf = Del(@, m)])
           ELSE T
\* the decayer visits tag t: DecayFixed(Amount), the value is deleted at <= 0
CMDecay(T, t) == IF t \in T.dtag
                   THEN [T EXCEPT !.val = [p \in Peers |-> [@[p] EXCEPT ![t] = IF @ > Amount THEN @ - Amount ELSE 0]]]
                   ELSE T
\* cmNotifee.Disconnected for the last connection: the peer's tag record is dropped
CMDisconnected(T, p) == [T EXCEPT !.val[p] = [t \in Topics |-> 0], !.dbl = {x \in @ : x[1] # p}]

(* ------------------------------------------------------------------ meaning *)
Mn0 == [joined |-> {}, ms |-> EmptyF, exp |-> Zeros]
Done(t) == [st |-> "done", first |-> NoPeer, near |-> {}, topic |-> t]

MnJoin(M, t) == [M EXCEPT !.joined = @ \cup {t}]
MnLeave(M, t) == [M EXCEPT !.joined = @ \ {t}, !.exp = [p \in Peers |-> [@[p] EXCEPT ![t] = 0]]]
IsValidating(M, m) == m \in DOMAIN M.ms /\ M.ms[m].st = "val"
Validating(M) == {m \in DOMAIN M.ms : M.ms[m].st = "val"}
MnValidate(M, m, p, t) == [M EXCEPT !.ms = Put(@, m, [st |-> "val", first |-> p, near |-> {}, topic |-> t])]
MnDuplicate(M, m, p) == IF IsValidating(M, m) THEN [M EXCEPT !.ms[m].near = @ \cup {p}] ELSE M
MnDeliver(M, m) ==
    LET r == M.ms[m]
        who == {r.first} \cup r.near
    IN  [M EXCEPT !.ms[m] = Done(r.topic),
                  !.exp = IF r.topic \in M.joined
                            THEN [q \in Peers |-> IF q \in who THEN [@[q] EXCEPT ![r.topic] = Min(Cap, @ + Bump)] ELSE @[q]]
                            ELSE @]
MnEnd(M, m) == [M EXCEPT !.ms[m] = Done(M.ms[m].topic)]
MnLocal(M, m, t) == [M EXCEPT !.ms = Put(@, m, Done(t))]
MnDecay(M, t) == IF t \in M.joined
                   THEN [M EXCEPT !.exp = [p \in Peers |-> [@[p] EXCEPT ![t] = IF @ > Amount THEN @ - Amount ELSE 0]]]
                   ELSE M
MnDisconnected(M, p) == [M EXCEPT !.exp[p] = [t \in Topics |-> 0]]

(* ------------------------------------------------------------------ environment *)
Rec == MaxLen > 0
Log(a, p, t, m, r) == hist' = IF Rec THEN Append(hist, [a |-> a, p |-> p, t |-> t, m |-> m, r |-> r]) ELSE hist

Init == /\ tt = T0 /\ mn = Mn0 /\ up = {} /\ conn = {} /\ mesh = [t \in Topics |-> {}]
        /\ direct = {} /\ bl = {} /\ hist = <<>>

Sub(t) == /\ t \notin mn.joined
          /\ tt' = TTJoin(tt, t) /\ mn' = MnJoin(mn, t)
          /\ UNCHANGED <<up, conn, mesh, direct, bl>> /\ Log("sub", "", t, "", "")

Unsub(t) == /\ t \in mn.joined
            /\ mesh' = [mesh EXCEPT ![t] = {}]
            /\ tt' = LET T1 == TTLeave(tt, t)
                     IN  IF DevLeaveNoPrune THEN T1
                         ELSE [T1 EXCEPT !.prot = [p \in Peers |-> IF p \in mesh[t] THEN @[p] \ {t} ELSE @[p]]]
            /\ mn' = MnLeave(mn, t)
            /\ UNCHANGED <<up, conn, direct, bl>> /\ Log("unsub", "", t, "", "")

ConnUp(p) == /\ p \notin conn /\ p \notin bl
             /\ conn' = conn \cup {p} /\ up' = up \cup {p}
             /\ tt' = TTUp(tt, p, p \in direct)
             /\ UNCHANGED <<mn, mesh, direct, bl>> /\ Log("up", p, "", "", "")

MeshOf(p) == {t \in Topics : p \in mesh[t]}
Unmesh(p) == [t \in Topics |-> mesh[t] \ {p}]

ConnDown(p) == /\ p \in conn
               /\ conn' = conn \ {p} /\ up' = up \ {p} /\ mesh' = Unmesh(p)
               /\ tt' = CMDisconnected(IF p \in up THEN TTDown(tt, p, MeshOf(p)) ELSE tt, p)
               /\ mn' = MnDisconnected(mn, p)
               /\ UNCHANGED <<direct, bl>> /\ Log("down", p, "", "", "")

\* BlacklistPeer: the outbound stream is closed (OnClosedOutboundStream), the connection stays
Blacklist(p) == /\ p \notin bl /\ bl' = bl \cup {p}
                /\ up' = up \ {p} /\ mesh' = Unmesh(p)
                /\ tt' = IF p \in up THEN TTDown(tt, p, MeshOf(p)) ELSE tt
                /\ UNCHANGED <<mn, conn, direct>> /\ Log("bl", p, "", "", "")

GraftP(p, t) == /\ p \in up /\ t \in mn.joined /\ p \notin mesh[t] /\ p \notin direct
                /\ mesh' = [mesh EXCEPT ![t] = @ \cup {p}]
                /\ tt' = TTGraft(tt, p, t)
                /\ UNCHANGED <<mn, up, conn, direct, bl>> /\ Log("graft", p, t, "", "")

PruneP(p, t) == /\ p \in mesh[t]
                /\ mesh' = [mesh EXCEPT ![t] = @ \ {p}]
                /\ tt' = TTPrune(tt, p, t)
                /\ UNCHANGED <<mn, up, conn, direct, bl>> /\ Log("prune", p, t, "", "")

AddDirect(p) == /\ p \notin direct /\ direct' = direct \cup {p}
                /\ tt' = TTAddDirect(tt, p)
                /\ UNCHANGED <<mn, up, conn, mesh, bl>> /\ Log("direct", p, "", "", "on")

RemoveDirect(p) == /\ p \in direct /\ direct' = direct \ {p}
                   /\ tt' = TTRemoveDirect(tt, p)
                   /\ UNCHANGED <<mn, up, conn, mesh, bl>> /\ Log("direct", p, "", "", "off")

\* a copy of m (topic t) arrives from p on its inbound stream
Arrive(p, m, t) ==
    /\ p \in conn /\ p \notin bl /\ t \in mn.joined
    /\ IF m \notin DOMAIN mn.ms
         THEN /\ tt' = TTValidate(tt, m) /\ mn' = MnValidate(mn, m, p, t)
         ELSE /\ mn.ms[m].topic = t
              /\ tt' = TTDuplicate(tt, m, p) /\ mn' = MnDuplicate(mn, m, p)
    /\ UNCHANGED <<up, conn, mesh, direct, bl>> /\ Log("msg", p, t, m, "")

\* the validator accepts: the message returns to the event loop, which re-checks the blacklist (e26af6f)
Accept(m) == /\ IsValidating(mn, m)
             /\ LET r == mn.ms[m] IN
                  IF r.first \in bl
                    THEN tt' = TTReject(tt, m, "blacklisted peer", TRUE) /\ mn' = MnEnd(mn, m)
                    ELSE tt' = TTDeliver(tt, m, r.first, r.topic) /\ mn' = MnDeliver(mn, m)
             /\ UNCHANGED <<up, conn, mesh, direct, bl>> /\ Log("rel", "", "", m, "accept")

RejectV(m, r) == /\ IsValidating(mn, m)
                 /\ tt' = TTReject(tt, m, IF r = "reject" THEN "validation failed" ELSE "validation ignored", TRUE)
                 /\ mn' = MnEnd(mn, m)
                 /\ UNCHANGED <<up, conn, mesh, direct, bl>> /\ Log("rel", "", "", m, r)

\* the node publishes itself: raw tracers are not called for local messages
Local(m, t) == /\ m \notin DOMAIN mn.ms
               /\ mn' = MnLocal(mn, m, t)
               /\ UNCHANGED <<tt, up, conn, mesh, direct, bl>> /\ Log("local", "", t, m, "")

\* the seen cache forgets a finished message
Expire == /\ \E m \in DOMAIN mn.ms : mn.ms[m].st = "done"
          /\ mn' = [mn EXCEPT !.ms = [m \in Validating(mn) |-> mn.ms[m]]]
          /\ UNCHANGED <<tt, up, conn, mesh, direct, bl>> /\ Log("expire", "", "", "", "")

TickT(t) == /\ \E p \in Peers : tt.val[p][t] > 0 \/ mn.exp[p][t] > 0
            /\ tt' = CMDecay(tt, t) /\ mn' = MnDecay(mn, t)
            /\ UNCHANGED <<up, conn, mesh, direct, bl>> /\ Log("tick", "", t, "", "")

RECURSIVE DecayAllT(_, _), DecayAllM(_, _)
DecayAllT(T, S) == IF S = {} THEN T ELSE LET t == CHOOSE x \in S : TRUE IN DecayAllT(CMDecay(T, t), S \ {t})
DecayAllM(M, S) == IF S = {} THEN M ELSE LET t == CHOOSE x \in S : TRUE IN DecayAllM(MnDecay(M, t), S \ {t})
\* generator: one tick of the decayer with the decay interval equal to its resolution (every tag decays)
TickAll == /\ \E p \in Peers, t \in Topics : tt.val[p][t] > 0
           /\ tt' = DecayAllT(tt, Topics) /\ mn' = DecayAllM(mn, Topics)
           /\ UNCHANGED <<up, conn, mesh, direct, bl>> /\ Log("tick", "", "", "", "")

Hb == /\ Rec /\ UNCHANGED <<tt, mn, up, conn, mesh, direct, bl>> /\ Log("hb", "", "", "", "")

Core ==
    \/ \E t \in Topics : Sub(t) \/ Unsub(t)
    \/ \E p \in Peers : ConnUp(p) \/ ConnDown(p) \/ Blacklist(p) \/ AddDirect(p) \/ RemoveDirect(p)
    \/ \E p \in Peers, t \in Topics : GraftP(p, t) \/ PruneP(p, t)
    \/ \E p \in Peers, m \in Msgs, t \in Topics : Arrive(p, m, t)
    \/ \E m \in Msgs : Accept(m) \/ RejectV(m, "reject") \/ RejectV(m, "ignore")

Next == ~Rec /\ (Core \/ Expire \/ (\E m \in Msgs, t \in Topics : Local(m, t)) \/ \E t \in Topics : TickT(t))
Spec == Init /\ [][Next]_vars

(* ------------------------------------------------------------------ properties *)
TypeOK == /\ tt.dtag \subseteq Topics
          /\ \A p \in Peers : tt.prot[p] \subseteq Topics \cup {Direct}
          /\ \A p \in Peers, t \in Topics : tt.val[p][t] \in 0..Cap /\ mn.exp[p][t] \in 0..Cap
          /\ DOMAIN tt.nf \subseteq Msgs /\ DOMAIN mn.ms \subseteq Msgs
          /\ up \subseteq conn /\ \A t \in Topics : mesh[t] \subseteq up

P_X03_a == \A p \in Peers, t \in Topics : (t \in tt.prot[p]) <=> (p \in mesh[t])
P_X03_b == \A p \in Peers : /\ Direct \in tt.prot[p] => p \in direct
                            /\ (p \in direct /\ p \in up) => Direct \in tt.prot[p]
P_X03_c == \A p \in Peers, t \in Topics : t \in tt.prot[p] => (p \in conn /\ t \in mn.joined)
P_X03_d == tt.val = mn.exp
P_X03_e == /\ DOMAIN tt.nf = Validating(mn)
           /\ \A m \in DOMAIN tt.nf : m \in DOMAIN mn.ms /\ tt.nf[m] = mn.ms[m].near
P_X03_f == \A t \in Topics \ mn.joined : t \notin tt.dtag /\ \A p \in Peers : tt.val[p][t] = 0

MCView == <<tt.dtag, tt.prot, tt.val, tt.nf, mn, up, conn, mesh, direct, bl>>

(* ------------------------------------------------------------------ generator *)
\* Prelude 0: nothing has happened.  Prelude 1: t1 joined, p1 and p2 connected and in the mesh of t1,
\* message g1 of t1 from p1 is validating.  The history starts with the stimuli that produce the situation.
L(a, p, t, m, r) == [a |-> a, p |-> p, t |-> t, m |-> m, r |-> r]
GenInit ==
    IF Prelude = 0 THEN Init
    ELSE /\ tt = [T0 EXCEPT !.dtag = {"t1"}, !.prot = [p \in Peers |-> IF p \in {"p1", "p2"} THEN {"t1"} ELSE {}],
                            !.nf = Put(EmptyF, "g1", {})]
         /\ mn = [Mn0 EXCEPT !.joined = {"t1"}, !.ms = Put(EmptyF, "g1", [st |-> "val", first |-> "p1", near |-> {}, topic |-> "t1"])]
         /\ up = {"p1", "p2"} /\ conn = {"p1", "p2"}
         /\ mesh = [t \in Topics |-> IF t = "t1" THEN {"p1", "p2"} ELSE {}]
         /\ direct = {} /\ bl = {}
         /\ hist = <<L("sub", "", "t1", "", ""), L("up", "p1", "", "", ""), L("up", "p2", "", "", ""),
                     L("graft", "p1", "t1", "", ""), L("graft", "p2", "t1", "", ""), L("msg", "p1", "t1", "g1", "")>>

PreLen == IF Prelude = 0 THEN 0 ELSE 6
Count(a) == Cardinality({i \in DOMAIN hist : hist[i].a = a})
\* generator only: the node publishes a message of its own (no model state: raw tracers are not called for it)
LocalG(t) == /\ Count("local") < 1
             /\ UNCHANGED <<tt, mn, up, conn, mesh, direct, bl>> /\ Log("local", "", t, "l1", "")
\* the real seen cache keeps an id for 5 minutes: a validation must not outlast it (at most 4 one-minute ticks per
\* scenario), and forgetting (6 minutes pass) is offered only while nothing validates; the tag values are gone by then
ExpireG == /\ Validating(mn) = {} /\ Count("expire") < 1
           /\ Expire
TickG == Count("tick") < 4 /\ Count("expire") = 0 /\ TickAll
GenNext == Rec /\ Len(hist) < PreLen + MaxLen /\ (Core \/ (\E t \in Topics : LocalG(t)) \/ ExpireG \/ TickG \/ Hb)
GenSpec == GenInit /\ [][GenNext]_vars

Emit == (Len(hist) = PreLen + MaxLen) => PrintT(<<"SCN", ToJson([evs |-> hist])>>)
=============================================================================
