----------------------------- MODULE MeshProps -----------------------------
(* C07 - the predicates of "mesh maintenance keeps every joined topic's mesh
   within its invariants", written once over explicit arguments so that the
   model (Mesh.tla, exhaustively checked) and the trace specification
   (MeshTrace.tla, evaluated on lines recorded from the real router) use the
   very same text.

   P is the parameter record [D, Dlo, Dhi, Dscore, Dout, oppTicks, oppPeers, oppThr].
   V is the view of ONE topic just before a step:
     V.M       mesh members
     V.sc      [peer -> Int]  the scores in force (the heartbeat caches them)
     V.outb    peers whose connection is outbound (gs.outbound[p] = true)
     V.cand    peers known to be subscribed to the topic and connected with a
               mesh-capable protocol (the domain getPeers draws from)
     V.direct  direct peers
     V.boSure  peers with a backoff entry that is certainly still running
     V.boMaybe peers with a backoff entry that has expired but may still be in
               the map (the code never grafts them; the property allows both)
   Choices the code makes at random are existential here.                   *)
EXTENDS Integers, FiniteSets

Min2(a, b) == IF a < b THEN a ELSE b

\* gossipsub.go GossipSubParams.validate
ValidParams(P) ==
    /\ P.Dscore <= P.Dhi
    /\ \/ P.D = 0 /\ P.Dlo = 0 /\ P.Dhi = 0 /\ P.Dout = 0
       \/ /\ P.Dlo <= P.D /\ P.D <= P.Dhi
          /\ P.Dout < P.Dlo /\ P.Dout < P.D \div 2

Neg(V)  == {p \in V.M : V.sc[p] < 0}
Bo(V)   == V.boSure \cup V.boMaybe

\* candidates outside `cur`, given that the peers in `xbo` received a backoff earlier in the same step
EligBaseSure(V, cur, xbo) == {p \in V.cand \ cur : p \notin V.direct /\ p \notin (Bo(V) \cup xbo)}
EligBaseMay(V, cur, xbo)  == {p \in V.cand \ cur : p \notin V.direct /\ p \notin (V.boSure \cup xbo)}
EligSure(V, cur, xbo) == {p \in EligBaseSure(V, cur, xbo) : V.sc[p] >= 0}
EligMay(V, cur, xbo)  == {p \in EligBaseMay(V, cur, xbo) : V.sc[p] >= 0}

\* getPeers(topic, n, filter): n random members of the filtered set, all of them if there are
\* fewer - or if n <= 0 (sic)
Take(G, n, sure, may) ==
    /\ G \subseteq may
    /\ IF n > 0 THEN Cardinality(G) <= n /\ (Cardinality(G) = n \/ sure \subseteq G)
                ELSE sure \subseteq G

\* value at index len/2 of the ascending sort
Median(S, sc) ==
    CHOOSE v \in {sc[p] : p \in S} :
        /\ Cardinality({q \in S : sc[q] < v}) <= Cardinality(S) \div 2
        /\ Cardinality({q \in S : sc[q] <= v}) > Cardinality(S) \div 2

\* K keeps n best-scoring members of S (ties free)
TopKept(S, K, n, sc) ==
    \/ n <= 0
    \/ n > Cardinality(S)
    \/ LET v == CHOOSE x \in {sc[p] : p \in S} :
                   /\ Cardinality({q \in S : sc[q] >= x}) >= n
                   /\ Cardinality({q \in S : sc[q] > x}) < n
       IN /\ {q \in S : sc[q] > v} \subseteq K
          /\ Cardinality({q \in K \cap S : sc[q] >= v}) >= n

CutQuality(P, V, S, K) ==
    P.Dscore + P.Dout <= P.D =>
        /\ TopKept(S, K, P.Dscore, V.sc)
        /\ Cardinality(K \cap V.outb) >= Min2(P.Dout, Cardinality(S \cap V.outb))

------------------------------------------------------------------------------
(* Heartbeat step on one topic: pre-view V, mesh afterwards Mp, oppTick = the
   opportunistic-graft tick condition held.                                  *)

P_C07_NoNegative(V, Mp) == \A p \in Mp : V.sc[p] >= 0

\* the set every own-initiative addition must come from: never direct, never backed off, never negative
P_C07_Additions(V, Mp) == (Mp \ V.M) \subseteq EligMay(V, V.M, {})

P_C07_Grow(P, V, Mp) ==
    LET M1 == V.M \ Neg(V) IN
    Cardinality(M1) < P.Dlo =>
        /\ M1 \subseteq Mp
        /\ \/ Cardinality(Mp) >= P.D
           \/ EligSure(V, M1, Neg(V)) \subseteq Mp

P_C07_Cut(P, V, Mp) ==
    LET M1 == V.M \ Neg(V)
        K  == M1 \cap Mp IN
    Cardinality(M1) >= P.Dhi =>
        /\ Cardinality(K) = P.D
        /\ CutQuality(P, V, M1, K)

\* the complete account: the step is some run of the five phases in code order.
\* An explanation is a split of the additions into <<G, Q>> (under-subscription grafts,
\* outbound-quota grafts; the rest are opportunistic grafts).
Explanations(P, V, oppTick, Mp) ==
    LET N  == Neg(V)
        M1 == V.M \ N
        A  == Mp \ V.M
        R1 == M1 \ Mp
        xbo == N \cup R1
        \* candidates by filter, before "not in the mesh" is applied (hoisted: they do not depend on the split)
        bS == {p \in V.cand : p \notin V.direct /\ p \notin Bo(V)}
        bM == {p \in V.cand : p \notin V.direct /\ p \notin V.boSure}
        cM1 == Cardinality(M1)
    IN
    {e \in UNION {{<<G, Q>> : Q \in SUBSET (A \ G)} : G \in SUBSET A} :
         LET G   == e[1]
             Q   == e[2]
             O   == A \ (G \cup Q)
             M2  == M1 \cup G
             M3  == M2 \ R1
             M4  == M3 \cup Q
         IN
         /\ IF cM1 < P.Dlo
              THEN Take(G, P.D - cM1, {p \in bS \ (M1 \cup N) : V.sc[p] >= 0}, {p \in bM \ (M1 \cup N) : V.sc[p] >= 0})
              ELSE G = {}
         /\ IF Cardinality(M2) >= P.Dhi
              THEN Cardinality(M3) = P.D /\ CutQuality(P, V, M2, M3)
              ELSE R1 = {}
         /\ IF Cardinality(M3) >= P.Dlo /\ Cardinality(M3 \cap V.outb) < P.Dout
              THEN Take(Q, P.Dout - Cardinality(M3 \cap V.outb),
                        {p \in (bS \cap V.outb) \ (M3 \cup xbo) : V.sc[p] >= 0},
                        {p \in (bM \cap V.outb) \ (M3 \cup xbo) : V.sc[p] >= 0})
              ELSE Q = {}
         /\ IF oppTick /\ Cardinality(M4) > 1 /\ Median(M4, V.sc) < P.oppThr
              THEN LET med == Median(M4, V.sc) IN
                   Take(O, P.oppPeers, {p \in bS \ (M4 \cup xbo) : V.sc[p] > med},
                                       {p \in bM \ (M4 \cup xbo) : V.sc[p] > med})
              ELSE O = {}}

HbExplained(P, V, oppTick, Mp) ==
    /\ Neg(V) \cap Mp = {}
    /\ Explanations(P, V, oppTick, Mp) # {}

\* which phases certainly had an effect (for coverage obligations): a set of tags
HbPhases(P, V, oppTick, Mp) ==
    LET E  == Explanations(P, V, oppTick, Mp)
        A  == Mp \ V.M
    IN IF E = {} THEN {} ELSE
       (IF Neg(V) # {} THEN {"neg"} ELSE {})
       \cup (IF \A e \in E : e[1] # {} THEN {"grow"} ELSE {})
       \cup (IF (V.M \ Neg(V)) \ Mp # {} THEN {"cut"} ELSE {})
       \cup (IF \A e \in E : e[2] # {} THEN {"quota"} ELSE {})
       \cup (IF \A e \in E : A \ (e[1] \cup e[2]) # {} THEN {"opp"} ELSE {})

------------------------------------------------------------------------------
(* A GRAFT from peer p handled on a joined topic (handleGraft)               *)
GraftAdmissible(P, V, p) ==
    /\ p \notin V.direct
    /\ p \notin V.boSure
    /\ V.sc[p] >= 0
    /\ ~(Cardinality(V.M) >= P.Dhi /\ p \notin V.outb)

\* reason a GRAFT from a non-member is refused, "" if none applies (code order)
GraftRefusal(P, V, p) ==
    IF p \in V.direct THEN "direct"
    ELSE IF p \in V.boSure THEN "backoff"
    ELSE IF V.sc[p] < 0 THEN "negative"
    ELSE IF Cardinality(V.M) >= P.Dhi /\ p \notin V.outb THEN "dhi"
    ELSE ""

(* Join: the new mesh Mp (fanout promotion or fresh selection)               *)
JoinAdmissible(V, Mp) == \A p \in Mp : p \notin V.direct /\ p \notin V.boSure /\ V.sc[p] >= 0
=============================================================================
