----------------------------- MODULE MeshTrace -----------------------------
(* Trace specification for C07 over the common step-line format of the router
   drivers (harness/world): one line per stimulus, with the ordered tracer
   events of the step ("ev"), the frames received by the fake peers ("out")
   and the snapshot of the real router after the step ("st").  The pre-state
   of a step is the snapshot of the previous line.

   The replay is deterministic, so the specification walks the file line by
   line, evaluates the predicates of MeshProps.tla (the same operators the
   model Mesh.tla is checked against) on every line and every topic, and
   prints one <<"VIOL", json>> per failing predicate and one <<"COV", json>>
   per line that exercised something the coverage obligations ask for.
   The only monitor is d6: the <<topic, peer>> pairs admitted by a GRAFT while
   the peer had no outbound stream (finding D6), so that this known defect has
   a signature of its own.                                                   *)
EXTENDS Integers, Sequences, FiniteSets, TLC, Json

Trace == ndJsonDeserialize("trace.ndjson")

VARIABLES l,      \* cursor
          base,   \* line of the current scenario's reset (carries the configuration)
          d6,     \* monitor, see above
          gated,  \* fake peers whose reads are currently held back by the harness ("gate" action)
          fanleft, \* topics whose fanout set lost a member (stream closed) since the last heartbeat
          ebo,    \* [<<topic, peer>> -> ms]: backoffs derived from OBSERVED events only (a lower bound of the expiry): a PRUNE
                  \* the router handled (tracer Prune in a step that received it) with the backoff it carried, a prune of
                  \* the router's own (heartbeat, Leave). Whatever the implementation's backoff map says, the peer is
                  \* backed off until then
          pxlow   \* the pairs of ebo whose PRUNE carried PX records while the sender scored below AcceptPXThreshold

tvars == <<l, base, d6, gated, fanleft, ebo, pxlow>>
MP == INSTANCE MeshProps

Rng(s) == {s[i] : i \in DOMAIN s}
Line == Trace[l]
Pre  == Trace[l - 1].st
Post == Line.st
Cfg  == Trace[base].act.cfg
Act  == Line.act.a

P == [D |-> Cfg.D, Dlo |-> Cfg.Dlo, Dhi |-> Cfg.Dhi, Dscore |-> Cfg.Dscore, Dout |-> Cfg.Dout,
      oppTicks |-> Cfg.oppTicks, oppPeers |-> Cfg.oppPeers,
      oppThr |-> IF Cfg.score THEN Cfg.thr.oppGraft ELSE 0]

MeshProtos == {"/meshsub/1.0.0", "/meshsub/1.1.0", "/meshsub/1.2.0", "/meshsub/1.3.0"}

Keys(r) == DOMAIN r
MeshOf(st, t)   == IF t \in Keys(st.mesh) THEN Rng(st.mesh[t]) ELSE {}
FanoutOf(st, t) == IF t \in Keys(st.fanout) THEN Rng(st.fanout[t]) ELSE {}
TopicOf(st, t)  == IF t \in Keys(st.topics) THEN Rng(st.topics[t]) ELSE {}
BoOf(st, t)     == IF t \in Keys(st.backoff) THEN st.backoff[t] ELSE <<>>
Conn(st)        == Keys(st.gsPeers)
ScOf(st, p)     == IF p \in Keys(st.scores) THEN st.scores[p] ELSE 0
Joined(st)      == {t \in Keys(st.subs) \cup Keys(st.relays) :
                       ~(t \in Keys(st.myTopics) /\ st.myTopics[t].fanoutOnly)}
Known(st)       == Keys(st.scores) \cup Keys(st.gsPeers) \cup Rng(st.direct)
                     \cup UNION {Rng(st.mesh[t]) : t \in Keys(st.mesh)}
                     \cup UNION {Rng(st.topics[t]) : t \in Keys(st.topics)}
                     \cup UNION {Keys(st.backoff[t]) : t \in Keys(st.backoff)}

\* events of this line
EvIdx(k) == {i \in DOMAIN Line.ev : Line.ev[i].k = k}
Ev(i) == Line.ev[i]
RecvGrafts == UNION {{<<Ev(i).p, t>> : t \in Rng(Ev(i).rpc.graft)} : i \in EvIdx("Recv")}
RecvPrunes == UNION {{<<Ev(i).p, Ev(i).rpc.prune[j].topic>> : j \in DOMAIN Ev(i).rpc.prune} : i \in EvIdx("Recv")}
Downs == {Ev(i).p : i \in EvIdx("Down")}
Ups   == {Ev(i).p : i \in EvIdx("Up")}
SentGraft(p, t) == \E i \in EvIdx("Send") : Ev(i).p = p /\ t \in Rng(Ev(i).rpc.graft)
SentPrune(p, t) == \E i \in EvIdx("Send") : Ev(i).p = p /\ \E j \in DOMAIN Ev(i).rpc.prune : Ev(i).rpc.prune[j].topic = t
DropGraft(p, t) == \E i \in EvIdx("Drop") : Ev(i).p = p /\ t \in Rng(Ev(i).rpc.graft)
PendGraft(st, p, t) == p \in Keys(st.control) /\ t \in Rng(st.control[p].graft)
PendPrune(st, p, t) == p \in Keys(st.control) /\ t \in Rng(st.control[p].prune)
\* on the wire: a frame with the control message reached the fake peer during this step
WireGraft(p, t) == p \in Keys(Line.out) /\ \E i \in DOMAIN Line.out[p] : t \in Rng(Line.out[p][i].graft)
WirePrune(p, t) == p \in Keys(Line.out) /\ \E i \in DOMAIN Line.out[p] :
                       \E j \in DOMAIN Line.out[p][i].prune : Line.out[p][i].prune[j].topic = t

Gossip == ~Post.dead /\ Post.router = "gossipsub"
\* a line that crosses exactly one heartbeat and nothing else
PureHb == Act = "hb" /\ Line.hb = 1 /\ EvIdx("Recv") = {} /\ EvIdx("Up") = {} /\ EvIdx("Down") = {}
NoHb   == Line.hb = 0

\* clearBackoff (every 15th tick) removed the entry before the heartbeat selected candidates
Swept(t, p) == /\ Line.hb >= 1 /\ Post.ticks % 15 = 0
               /\ p \in Keys(BoOf(Pre, t)) /\ p \notin Keys(BoOf(Post, t))
               /\ BoOf(Pre, t)[p] + 2000 < Post.now

MinS(S) == CHOOSE x \in S : \A y \in S : x <= y
EboOf(t) == {x[2] : x \in {y \in DOMAIN ebo : y[1] = t /\ ebo[y] > Post.now}}

\* backoff (ms) a Prune event of this line for <<p, t>> stands for (the shortest that could apply)
RecvPruneDurs(p, t) ==
    UNION {{IF Ev(i).rpc.prune[j].backoff > 0 THEN Ev(i).rpc.prune[j].backoff * 1000 ELSE Cfg.pruneBackoffMs
              : j \in {k \in DOMAIN Ev(i).rpc.prune : Ev(i).rpc.prune[k].topic = t}}
             : i \in {k \in EvIdx("Recv") : Ev(k).p = p}}
PruneDur(p, t) ==
    LET rb == RecvPruneDurs(p, t)
        own == IF t \in {Ev(i).topic : i \in EvIdx("Leave")} THEN {Cfg.unsubBackoffMs}
               ELSE IF Line.hb >= 1 \/ rb = {} THEN {Cfg.pruneBackoffMs} ELSE {}
    IN MinS(rb \cup own)
EboNext ==
    LET pe  == EvIdx("Prune")
        new == {<<Ev(i).topic, Ev(i).p>> : i \in pe}
        val(x) == MinS({Ev(i).t : i \in {k \in pe : Ev(k).topic = x[1] /\ Ev(k).p = x[2]}}) + PruneDur(x[2], x[1])
        keep == {x \in DOMAIN ebo : ebo[x] > Post.now}
    IN [x \in keep \cup new |->
          IF x \in new THEN (IF x \in keep /\ ebo[x] > val(x) THEN ebo[x] ELSE val(x)) ELSE ebo[x]]
PxLowNext ==
    {x \in pxlow : x \in DOMAIN EboNext /\ EboNext[x] > Post.now}
    \cup {x \in {<<Ev(i).topic, Ev(i).p>> : i \in EvIdx("Prune")} :
            /\ ScOf(Pre, x[2]) >= 0 /\ ScOf(Pre, x[2]) < Cfg.thr.acceptPX
            /\ \E i \in {k \in EvIdx("Recv") : Ev(k).p = x[2]} :
                  \E j \in DOMAIN Ev(i).rpc.prune : Ev(i).rpc.prune[j].topic = x[1] /\ Ev(i).rpc.prune[j].npx > 0}

U == Known(Pre) \cup Known(Post)
View(t) ==
    LET bo == BoOf(Pre, t)
        sure == {p \in Keys(bo) : bo[p] > Post.now /\ ~Swept(t, p)} \cup EboOf(t)
    IN [M |-> MeshOf(Pre, t),
        sc |-> [p \in U |-> ScOf(Pre, p)],
        outb |-> {p \in Keys(Pre.outbound) : Pre.outbound[p]},
        cand |-> {p \in TopicOf(Pre, t) : p \in Conn(Pre) /\ Pre.gsPeers[p] \in MeshProtos},
        direct |-> Rng(Pre.direct),
        boSure |-> sure,
        boMaybe |-> Keys(bo) \ sure]

Viol(pred, kind, t, p) == [scn |-> Line.scn, i |-> Line.i, a |-> Act, pred |-> pred, kind |-> kind, t |-> t, p |-> p]
Cov(tag, t) == [scn |-> Line.scn, i |-> Line.i, tag |-> tag, t |-> t]

------------------------------------------------------------------------------
(* state predicates, every line *)
ShapeViols ==
    {Viol("P_C07_Shape", "mesh-for-topic-not-joined", t, "") : t \in Keys(Post.mesh) \ Joined(Post)}
    \cup {Viol("P_C07_Shape", "joined-topic-without-mesh", t, "") : t \in Joined(Post) \ Keys(Post.mesh)}
    \cup {Viol("P_C07_Shape", "fanout-for-joined-topic", t, "") : t \in Keys(Post.fanout) \cap Keys(Post.mesh)}
    \cup {Viol("P_C07_Shape", "fanout-without-lastpub", t, "") : t \in Keys(Post.fanout) \ Keys(Post.lastpub)}

D6Next ==
    {x \in d6 : x[2] \in MeshOf(Post, x[1])}
    \cup {<<x[2], x[1]>> : x \in {y \in RecvGrafts : /\ y[1] \in MeshOf(Post, y[2]) \ MeshOf(Pre, y[2])
                                                      /\ (y[1] \notin Conn(Pre) \/ y[1] \notin Conn(Post))}}

ConnectedViols ==
    UNION {{Viol("P_C07_Connected",
                 IF <<t, p>> \in D6Next THEN "graft-admitted-without-outbound-stream" ELSE "member-not-connected", t, p)
              : p \in MeshOf(Post, t) \ Conn(Post)} : t \in Keys(Post.mesh)}

------------------------------------------------------------------------------
(* heartbeat step on topic t (joined before and after) *)
HbViols(t) ==
    LET V   == View(t)
        Mp  == MeshOf(Post, t)
        A   == Mp \ V.M
        N   == MP!Neg(V)
        M1  == V.M \ N
        R1  == M1 \ Mp
        K   == M1 \cap Mp
        opp == Post.ticks % P.oppTicks = 0
        elig == MP!EligMay(V, V.M, {})
        basic ==
            {Viol("P_C07_NoNegative", "negative-member-after-heartbeat", t, p) : p \in {q \in Mp : V.sc[q] < 0}}
            \cup {Viol("P_C07_Additions",
                       IF p \in V.direct THEN "hb-direct"
                       ELSE IF p \in V.boSure THEN "hb-backoff"
                       ELSE IF V.sc[p] < 0 THEN "hb-negative" ELSE "hb-not-candidate", t, p) : p \in A \ elig}
            \cup (IF MP!P_C07_Grow(P, V, Mp) THEN {} ELSE {Viol("P_C07_Grow", "not-grown", t, "")})
            \cup (IF Cardinality(M1) >= P.Dhi /\ Cardinality(K) # P.D
                    THEN {Viol("P_C07_Cut", "not-cut-to-D", t, "")}
                  ELSE IF Cardinality(M1) >= P.Dhi /\ ~MP!CutQuality(P, V, M1, K)
                    THEN {Viol("P_C07_Cut", IF MP!TopKept(M1, K, P.Dscore, V.sc) THEN "outbound-quota-not-kept" ELSE "best-scoring-not-kept", t, "")}
                  ELSE {})
    IN basic
       \cup (IF basic = {} /\ ~MP!HbExplained(P, V, opp, Mp)
               THEN {IF Cardinality(M1) < P.Dlo THEN Viol("P_C07_Grow", "not-exact", t, "")
                     ELSE IF Cardinality(M1) >= P.Dhi THEN Viol("P_C07_Cut", "not-exact", t, "")
                     ELSE IF R1 # {} THEN Viol("P_C07_Cut", "cut-below-Dhi", t, "")
                     ELSE Viol("P_C07_Grow", "additions-not-explained-by-quota-or-opportunistic-graft", t, "")}
               ELSE {})
       \cup {Viol("P_C07_Signalling", "graft-not-sent", t, p) : p \in {q \in A : ~(SentGraft(q, t) \/ PendGraft(Post, q, t))}}
       \cup {Viol("P_C07_Signalling", "prune-not-sent", t, p) :
                p \in {q \in (V.M \ Mp) \cap Conn(Post) : ~(SentPrune(q, t) \/ PendPrune(Post, q, t))}}
       \* a peer the heartbeat pruned (and backed off) is not grafted again by a later step of the same heartbeat
       \cup {Viol("P_C07_Additions", "hb-grafted-peer-it-just-pruned", t, Ev(j).p) :
                j \in {x \in EvIdx("Graft") : Ev(x).topic = t /\ \E i \in EvIdx("Prune") : i < x /\ Ev(i).topic = t /\ Ev(i).p = Ev(x).p}}
       \* pushed to the queue of a peer whose writes are not gated: the frame must have arrived
       \cup {Viol("P_C07_Signalling", "graft-not-on-wire", t, p) :
                p \in {q \in (A \cap Conn(Post)) \ gated : SentGraft(q, t) /\ ~WireGraft(q, t) /\ Post.peers[q].q = 0}}

HbCov(t) ==
    LET V == View(t)
        Mp == MeshOf(Post, t)
        ph == MP!HbPhases(P, V, Post.ticks % P.oppTicks = 0, Mp)
    IN {Cov("hb-" \o x, t) : x \in ph} \cup {Cov("hb", t)}
       \* a cut and a later graft step in one heartbeat, the topic's backoff map not existing yet when it started
       \cup (IF "cut" \in ph /\ Mp \ V.M # {} /\ Keys(BoOf(Pre, t)) = {} THEN {Cov("hb-cut-then-add-no-backoff-map", t)} ELSE {})
       \cup (IF "cut" \in ph /\ Mp \ V.M # {} THEN {Cov("hb-cut-then-add", t)} ELSE {})
       \* under-subscribed while a peer whose PRUNE carried PX it was not entitled to (score below AcceptPXThreshold) is still
       \* backed off and otherwise a perfect candidate
       \cup (IF Cardinality(V.M \ MP!Neg(V)) < P.Dlo
                /\ \E x \in pxlow : x[1] = t /\ x[2] \in EboOf(t) /\ x[2] \in V.cand \ (V.M \cup V.direct) /\ V.sc[x[2]] >= 0
               THEN {Cov("hb-below-dlo-px-pruner-backed-off", t)} ELSE {})
       \cup (IF Cardinality(V.M \ MP!Neg(V)) < P.Dlo /\ \E p \in EboOf(t) : p \in V.cand \ (V.M \cup V.direct) /\ V.sc[p] >= 0
               THEN {Cov("hb-below-dlo-pruner-backed-off", t)} ELSE {})
       \cup (IF P.D = 0 /\ P.Dhi = 0 THEN {Cov("hb-allzero", t)} ELSE {})
       \cup (IF P.Dscore + P.Dout > P.D /\ "cut" \in ph THEN {Cov("hb-cut-unasserted-quality", t)} ELSE {})
       \* the outbound bubble-up of the over-subscription branch matters: Dout >= 2, more outbound members than were kept,
       \* exactly Dout of them kept next to inbound ones (the selection held fewer than Dout, others were rotated in)
       \cup (LET M1 == V.M \ MP!Neg(V)
                 K  == M1 \cap Mp IN
             IF "cut" \in ph /\ P.Dout >= 2 /\ P.Dscore + P.Dout <= P.D
                /\ Cardinality(K \cap V.outb) = P.Dout /\ Cardinality(M1 \cap V.outb) > P.Dout /\ K \ V.outb # {}
               THEN {Cov("hb-cut-outbound-quota-binding", t)} ELSE {})
       \cup (IF "cut" \in ph /\ P.Dout >= 2 THEN {Cov("hb-cut-dout2", t)} ELSE {})

\* what waited in gs.control is re-sent by the heartbeat (flush), still waits, or had become stale
RetryViols ==
    UNION {{Viol("P_C07_Signalling", "graft-retry-lost", t, p) :
               t \in {x \in Rng(Pre.control[p].graft) : ~(SentGraft(p, x) \/ PendGraft(Post, p, x) \/ p \notin MeshOf(Post, x))}}
           \cup {Viol("P_C07_Signalling", "prune-retry-lost", t, p) :
               t \in {x \in Rng(Pre.control[p].prune) : ~(SentPrune(p, x) \/ PendPrune(Post, p, x) \/ p \in MeshOf(Post, x))}}
             : p \in Keys(Pre.control) \cap Conn(Post)}
RetryCov ==
    UNION {{Cov("graft-retried", t) : t \in {x \in Rng(Pre.control[p].graft) : SentGraft(p, x)}}
           \cup {Cov("prune-retried", t) : t \in {x \in Rng(Pre.control[p].prune) : SentPrune(p, x)}}
             : p \in Keys(Pre.control) \cap Conn(Post)}

------------------------------------------------------------------------------
(* steps without a heartbeat *)
\* topic stays joined: members come only by an admissible GRAFT, go only by PRUNE / stream death
StayViols(t) ==
    LET V  == View(t)
        Mp == MeshOf(Post, t)
    IN {Viol("P_C07_Additions",
             IF <<p, t>> \notin RecvGrafts THEN "added-without-graft-or-heartbeat"
             ELSE "graft-" \o MP!GraftRefusal(P, V, p), t, p)
          : p \in {q \in Mp \ V.M : <<q, t>> \notin RecvGrafts \/ ~MP!GraftAdmissible(P, V, q)}}
       \cup {Viol("P_C07_Signalling", "removed-without-prune", t, p)
          : p \in {q \in (V.M \ Mp) \cap Conn(Post) : /\ <<q, t>> \notin RecvPrunes /\ q \notin Downs
                                                       /\ ~(SentPrune(q, t) \/ PendPrune(Post, q, t))}}
StayCov(t) ==
    LET V  == View(t)
        Mp == MeshOf(Post, t)
    IN UNION {(IF p \in Mp \ V.M THEN {Cov("graft-accepted", t)} ELSE {})
              \cup (IF p \notin V.M /\ p \notin Mp /\ p \in Conn(Pre) /\ SentPrune(p, t) /\ MP!GraftRefusal(P, V, p) # ""
                      THEN {Cov("graft-refused-" \o MP!GraftRefusal(P, V, p), t)} ELSE {})
                : p \in {x[1] : x \in {y \in RecvGrafts : y[2] = t}}}
       \cup (IF (V.M \ Mp) \cap Downs # {} THEN {Cov("member-departed", t)} ELSE {})
       \cup (IF \E p \in V.M \ Mp : <<p, t>> \in RecvPrunes THEN {Cov("remote-prune", t)} ELSE {})

\* Join (fanout promotion or fresh selection)
JoinViols(t) ==
    LET V  == View(t)
        Mp == MeshOf(Post, t)
        F  == FanoutOf(Pre, t)
    IN {Viol("P_C07_Additions",
             (IF p \in F THEN "join-promoted-" ELSE "join-selected-")
               \o (IF p \in V.direct THEN "direct" ELSE IF p \in V.boSure THEN "backoff" ELSE "negative"), t, p)
          : p \in {q \in Mp : q \in V.direct \/ q \in V.boSure \/ V.sc[q] < 0}}
       \cup {Viol("P_C07_Signalling", "graft-not-sent", t, p) : p \in {q \in Mp \cap Conn(Post) : ~(SentGraft(q, t) \/ PendGraft(Post, q, t))}}
JoinCov(t) ==
    LET V == View(t)
        F == FanoutOf(Pre, t)
    IN {Cov("join", t)}
       \cup (IF t \in Keys(Pre.fanout) THEN {Cov("join-fanout", t)} ELSE {})
       \cup (IF \E p \in F : p \in MP!Bo(V) THEN {Cov("join-fanout-backedoff", t)} ELSE {})
       \cup (IF \E p \in F : V.sc[p] < 0 THEN {Cov("join-fanout-negative", t)} ELSE {})
       \cup (IF \E p \in F : p \in V.direct THEN {Cov("join-fanout-direct", t)} ELSE {})
       \cup (IF \E p \in MeshOf(Post, t) : DropGraft(p, t) /\ PendGraft(Post, p, t) THEN {Cov("graft-dropped", t)} ELSE {})

\* Leave
LeaveViols(t) ==
    {Viol("P_C07_Signalling", "leave-prune-not-sent", t, p)
       : p \in {q \in MeshOf(Pre, t) \cap Conn(Post) : q \notin Downs /\ ~(SentPrune(q, t) \/ PendPrune(Post, q, t))}}
LeaveCov(t) == {Cov("leave", t)} \cup (IF MeshOf(Pre, t) \cap Conn(Post) # {} THEN {Cov("leave-nonempty", t)} ELSE {})

\* no RPC pushed (or dropped) in this step carries GRAFT and PRUNE for one topic (the staleness filter and the
\* backoff rule exclude it: it would mean a peer was grafted while the backoff of its prune had just begun)
RpcViols ==
    UNION {{Viol("P_C07_Signalling", "graft-and-prune-for-one-topic-in-one-rpc", t, Ev(i).p) :
               t \in {x \in Rng(Ev(i).rpc.graft) : \E j \in DOMAIN Ev(i).rpc.prune : Ev(i).rpc.prune[j].topic = x}}
             : i \in EvIdx("Send") \cup EvIdx("Drop")}

\* Join found a fanout set one of whose members had left since the last heartbeat (the set must not hold it any more)
FanLeftNext ==
    IF Line.hb >= 1 THEN {}
    ELSE {t \in fanleft : t \in Keys(Post.fanout)}
         \cup {t \in Keys(Pre.fanout) \cap Keys(Post.fanout) : FanoutOf(Pre, t) \cap Downs # {}}

------------------------------------------------------------------------------
Topics == Keys(Pre.mesh) \cup Keys(Post.mesh)

LineViols ==
    IF ~Gossip \/ Act = "reset" THEN {}
    ELSE ShapeViols \cup ConnectedViols
         \cup UNION {IF t \in Keys(Pre.mesh) /\ t \in Keys(Post.mesh)
                       THEN (IF PureHb /\ Pre.scoresExact THEN HbViols(t) ELSE IF NoHb THEN StayViols(t) ELSE {})
                     ELSE IF t \in Keys(Post.mesh)
                       THEN (IF NoHb THEN JoinViols(t) ELSE {})
                     ELSE LeaveViols(t) : t \in Topics}
         \cup (IF PureHb THEN RetryViols ELSE {})
         \cup RpcViols

LineCov ==
    IF ~Gossip \/ Act = "reset" THEN {}
    ELSE UNION {IF t \in Keys(Pre.mesh) /\ t \in Keys(Post.mesh)
                  THEN (IF PureHb /\ Pre.scoresExact THEN HbCov(t) ELSE IF NoHb THEN StayCov(t) ELSE {Cov("hb-mixed", t)})
                ELSE IF t \in Keys(Post.mesh)
                  THEN (IF NoHb THEN JoinCov(t) \cup (IF t \in fanleft THEN {Cov("join-fanout-after-member-left", t)} ELSE {}) ELSE {})
                ELSE LeaveCov(t) : t \in Topics}
         \cup (IF PureHb THEN RetryCov ELSE {})
         \* one heartbeat grafts a connected peer in one topic and prunes it in another (one RPC carries both)
         \cup (IF PureHb /\ \E t1 \in Keys(Pre.mesh) \cap Keys(Post.mesh), t2 \in Keys(Pre.mesh) \cap Keys(Post.mesh) :
                            t1 # t2 /\ ((MeshOf(Post, t1) \ MeshOf(Pre, t1)) \cap (MeshOf(Pre, t2) \ MeshOf(Post, t2)) \cap Conn(Post)) # {}
                 THEN {Cov("hb-graft-and-prune-same-peer", "")} ELSE {})

PrintAll(tag, S) == \A x \in S : PrintT(<<tag, ToJson(x)>>)

TInit == TLCSet(1, 0) /\ l = 1 /\ base = 1 /\ d6 = {} /\ gated = {} /\ fanleft = {} /\ ebo = <<>> /\ pxlow = {}

TStep ==
    /\ l <= Len(Trace)
    /\ IF Act = "reset"
         THEN base' = l /\ d6' = {} /\ gated' = {} /\ fanleft' = {} /\ ebo' = <<>> /\ pxlow' = {}
         ELSE /\ base' = base
              /\ gated' = IF Act = "gate" THEN (IF Line.act.on THEN gated \cup {Line.act.p} ELSE gated \ {Line.act.p}) ELSE gated
              /\ d6' = IF Gossip THEN D6Next ELSE d6
              /\ fanleft' = IF Gossip THEN FanLeftNext ELSE {}
              /\ ebo' = IF Gossip THEN EboNext ELSE <<>>
              /\ pxlow' = IF Gossip THEN PxLowNext ELSE {}
              /\ PrintAll("VIOL", LineViols)
              /\ PrintAll("COV", LineCov)
    /\ l' = l + 1

TraceSpec == TInit /\ [][TStep]_tvars

HW == IF TLCGet(1) < l THEN TLCSet(1, l) ELSE TRUE
Accepted == PrintT(<<"HW", TLCGet(1), Len(Trace) + 1>>)
=============================================================================
