\* run with: tlc -simulate num=100 -depth 12 -seed 1 -config GenMesh.cfg GenMesh.tla
SPECIFICATION GSpec
CONSTANTS
  NP = 6
  D = 4
  Dlo = 2
  Dhi = 5
  Dscore = 2
  Dout = 1
  OppTicks = 2
  OppPeers = 1
  OppThr = 1
  MaxEvents = 100
  MaxHb = 100
  MaxDrops = 0
  InitMode = "empty"
  ClassMode = "full"
  InitJoined = {TRUE}
  HbFilterDirect = TRUE
  CutAtGE = TRUE
  SendsGraft = TRUE
  BubbleToD = TRUE
  FreshBackoff = TRUE
  DownCleansFanout = TRUE
  JoinFilterDirect = TRUE
  GraftNeedsStream = FALSE
  AllowDirectInFanout = TRUE
  AllowHalf = FALSE
  L = 9
  HbEvery = 3
INVARIANT Emit
CHECK_DEADLOCK FALSE
