SPECIFICATION PSpec
CHECK_DEADLOCK FALSE
