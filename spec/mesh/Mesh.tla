------------------------------- MODULE Mesh -------------------------------
(* C07 - implementation-shaped model of ONE topic's mesh maintenance in the
   gossipsub router (gossipsub.go: heartbeat 1677-1849, handleGraft,
   handlePrune, Join, Leave, OnClosedOutboundStream, sendRPC / pushControl /
   piggybackControl / flush), with NP peers.

   Per peer: conn (none | in | out | half: the peer's stream to us is alive
   but our outbound stream to it is gone), score in -1..2, direct flag,
   backoff entry (none | active | expired: present in the map but elapsed),
   subscribed flag, mesh-capable protocol flag.  Choices the code makes at
   random (getPeers, shufflePeers) are existential.  The heartbeat is one
   atomic action composed of its five phases in code order.

   The predicates are those of MeshProps.tla, asserted here as action
   properties between the state before and after a step; MeshTrace.tla
   asserts the same operators on lines recorded from the real router.

   Switches: HbFilterDirect / CutAtGE / SendsGraft / BubbleToD / FreshBackoff (the graft steps
   after the cut look the backoff map up again) / DownCleansFanout are TRUE in the code;
   flipping one gives a configuration that MUST fail (non-vacuity).
   AllowHalf = TRUE lets the environment kill only the outbound stream: with
   GraftNeedsStream = FALSE (the code as found) P_C07_Connected fails = D6.
   AllowDirectInFanout = TRUE lets AddDirectPeer hit a fanout member: with
   JoinFilterDirect = FALSE (the code as found) P_C07_Additions fails = D16. *)
EXTENDS Integers, FiniteSets, Sequences, TLC

CONSTANTS NP, D, Dlo, Dhi, Dscore, Dout, OppTicks, OppPeers, OppThr,
          MaxEvents, MaxHb, MaxDrops, InitMode, ClassMode, InitJoined,
          HbFilterDirect, CutAtGE, SendsGraft, BubbleToD, FreshBackoff, DownCleansFanout,
          JoinFilterDirect, GraftNeedsStream, AllowDirectInFanout, AllowHalf

Peers  == 1..NP
Scores == -1..2
PublishThr == -4      \* below every score of the model, as in the harness

VARIABLES conn, sc, direct, bo, sub, cap,
          joined, mesh, fanoutOn, fanout, ticks, ctl,
          nev, nhb, ndrop,
          act, arg, sent       \* observations of the last step (hidden by VIEW): action, <<peer, detail>>, RPCs pushed

svars == <<conn, sc, direct, bo, sub, cap, joined, mesh, fanoutOn, fanout, ticks, ctl, nev, nhb, ndrop>>
vars  == <<conn, sc, direct, bo, sub, cap, joined, mesh, fanoutOn, fanout, ticks, ctl, nev, nhb, ndrop, act, arg, sent>>
View  == svars

MP == INSTANCE MeshProps

P == [D |-> D, Dlo |-> Dlo, Dhi |-> Dhi, Dscore |-> Dscore, Dout |-> Dout,
      oppTicks |-> OppTicks, oppPeers |-> OppPeers, oppThr |-> OppThr]

Connected(p)   == conn[p] \in {"in", "out"}          \* p \in gs.peers
HasInStream(p) == conn[p] # "none"
Outb           == {p \in Peers : conn[p] = "out"}
Cand           == {p \in Peers : Connected(p) /\ cap[p] /\ sub[p]}
V == [M |-> mesh, sc |-> sc, outb |-> Outb, cand |-> Cand,
      direct |-> {p \in Peers : direct[p]},
      boSure |-> {p \in Peers : bo[p] = "active"},
      boMaybe |-> {p \in Peers : bo[p] = "expired"}]

Min2(a, b) == IF a < b THEN a ELSE b
Range(s) == {s[i] : i \in DOMAIN s}

\* getPeers: n random members of E; all of E when n <= 0 (sic) or E is smaller
TakeSets(E, n) == IF n > 0 THEN {G \in SUBSET E : Cardinality(G) = Min2(n, Cardinality(E))} ELSE {E}

------------------------------------------------------------------------------
(* initial states *)
Cls(c, s, d, b, u, k, i) == [conn |-> c, sc |-> s, direct |-> d, bo |-> b, sub |-> u, cap |-> k, in |-> i]

MemberClasses ==
    IF ClassMode = "full" THEN
      << Cls("in", -1, FALSE, "none", TRUE, TRUE, TRUE),  Cls("out", -1, FALSE, "none", TRUE, TRUE, TRUE),
         Cls("in", 0, FALSE, "none", TRUE, TRUE, TRUE),   Cls("out", 0, FALSE, "none", TRUE, TRUE, TRUE),
         Cls("in", 1, FALSE, "none", TRUE, TRUE, TRUE),   Cls("out", 1, FALSE, "none", TRUE, TRUE, TRUE),
         Cls("in", 2, FALSE, "none", TRUE, TRUE, TRUE),   Cls("out", 2, FALSE, "none", TRUE, TRUE, TRUE),
         Cls("in", 1, TRUE, "none", TRUE, TRUE, TRUE),    Cls("out", 1, FALSE, "active", TRUE, TRUE, TRUE),
         Cls("in", 0, FALSE, "expired", TRUE, TRUE, TRUE), Cls("out", 2, FALSE, "none", FALSE, TRUE, TRUE) >>
    ELSE IF ClassMode = "lite" THEN
      << Cls("in", -1, FALSE, "none", TRUE, TRUE, TRUE),
         Cls("in", 0, FALSE, "none", TRUE, TRUE, TRUE),   Cls("out", 0, FALSE, "none", TRUE, TRUE, TRUE),
         Cls("in", 1, FALSE, "none", TRUE, TRUE, TRUE),   Cls("out", 1, FALSE, "none", TRUE, TRUE, TRUE),
         Cls("in", 2, FALSE, "none", TRUE, TRUE, TRUE),
         Cls("in", 1, TRUE, "none", TRUE, TRUE, TRUE),    Cls("out", 1, FALSE, "active", TRUE, TRUE, TRUE) >>
    ELSE IF ClassMode = "tiny" THEN
      << Cls("in", -1, FALSE, "none", TRUE, TRUE, TRUE),
         Cls("in", 0, FALSE, "none", TRUE, TRUE, TRUE),   Cls("out", 0, FALSE, "none", TRUE, TRUE, TRUE),
         Cls("in", 1, FALSE, "none", TRUE, TRUE, TRUE),
         Cls("in", 2, FALSE, "none", TRUE, TRUE, TRUE),   Cls("out", 2, FALSE, "none", TRUE, TRUE, TRUE) >>
    ELSE IF ClassMode = "dout" THEN       \* for Dout >= 2: members of both directions at equal and different scores
      << Cls("in", 0, FALSE, "none", TRUE, TRUE, TRUE),   Cls("out", 0, FALSE, "none", TRUE, TRUE, TRUE),
         Cls("in", 1, FALSE, "none", TRUE, TRUE, TRUE),   Cls("out", 1, FALSE, "none", TRUE, TRUE, TRUE),
         Cls("in", 2, FALSE, "none", TRUE, TRUE, TRUE) >>
    ELSE
      << Cls("in", -1, FALSE, "none", TRUE, TRUE, TRUE),
         Cls("in", 0, FALSE, "none", TRUE, TRUE, TRUE),   Cls("out", 0, FALSE, "none", TRUE, TRUE, TRUE),
         Cls("in", 1, FALSE, "none", TRUE, TRUE, TRUE),   Cls("in", 2, FALSE, "none", TRUE, TRUE, TRUE) >>

OtherClasses ==
    IF ClassMode = "full" THEN
      << Cls("in", 0, FALSE, "none", TRUE, TRUE, FALSE),  Cls("out", 0, FALSE, "none", TRUE, TRUE, FALSE),
         Cls("in", 1, FALSE, "none", TRUE, TRUE, FALSE),  Cls("out", 1, FALSE, "none", TRUE, TRUE, FALSE),
         Cls("in", 2, FALSE, "none", TRUE, TRUE, FALSE),  Cls("out", 2, FALSE, "none", TRUE, TRUE, FALSE),
         Cls("out", -1, FALSE, "none", TRUE, TRUE, FALSE), Cls("out", 2, TRUE, "none", TRUE, TRUE, FALSE),
         Cls("out", 2, FALSE, "active", TRUE, TRUE, FALSE), Cls("out", 2, FALSE, "expired", TRUE, TRUE, FALSE),
         Cls("out", 2, FALSE, "none", FALSE, TRUE, FALSE), Cls("out", 2, FALSE, "none", TRUE, FALSE, FALSE),
         Cls("none", 0, FALSE, "none", FALSE, TRUE, FALSE) >>
    ELSE IF ClassMode = "lite" THEN
      << Cls("in", 0, FALSE, "none", TRUE, TRUE, FALSE),  Cls("out", 0, FALSE, "none", TRUE, TRUE, FALSE),
         Cls("in", 2, FALSE, "none", TRUE, TRUE, FALSE),  Cls("out", 1, FALSE, "none", TRUE, TRUE, FALSE),
         Cls("out", -1, FALSE, "none", TRUE, TRUE, FALSE), Cls("out", 2, TRUE, "none", TRUE, TRUE, FALSE),
         Cls("out", 2, FALSE, "active", TRUE, TRUE, FALSE), Cls("out", 2, FALSE, "expired", TRUE, TRUE, FALSE),
         Cls("none", 0, FALSE, "none", FALSE, TRUE, FALSE) >>
    ELSE IF ClassMode = "tiny" THEN
      << Cls("in", 0, FALSE, "none", TRUE, TRUE, FALSE),  Cls("out", 1, FALSE, "none", TRUE, TRUE, FALSE),
         Cls("out", -1, FALSE, "none", TRUE, TRUE, FALSE), Cls("out", 2, TRUE, "none", TRUE, TRUE, FALSE),
         Cls("out", 2, FALSE, "active", TRUE, TRUE, FALSE), Cls("none", 0, FALSE, "none", FALSE, TRUE, FALSE) >>
    ELSE IF ClassMode = "dout" THEN
      << Cls("out", 1, FALSE, "none", TRUE, TRUE, FALSE) >>
    ELSE
      << Cls("in", 0, FALSE, "none", TRUE, TRUE, FALSE),  Cls("out", 1, FALSE, "none", TRUE, TRUE, FALSE),
         Cls("out", 2, FALSE, "active", TRUE, TRUE, FALSE) >>

Classes == MemberClasses \o OtherClasses

InitFrom(idx, j) ==
    /\ conn   = [p \in Peers |-> Classes[idx[p]].conn]
    /\ sc     = [p \in Peers |-> Classes[idx[p]].sc]
    /\ direct = [p \in Peers |-> Classes[idx[p]].direct]
    /\ bo     = [p \in Peers |-> Classes[idx[p]].bo]
    /\ sub    = [p \in Peers |-> Classes[idx[p]].sub]
    /\ cap    = [p \in Peers |-> Classes[idx[p]].cap]
    /\ joined = j
    /\ mesh   = IF j THEN {p \in Peers : Classes[idx[p]].in} ELSE {}
    /\ fanout = IF j THEN {} ELSE {p \in Peers : Classes[idx[p]].in}
    /\ fanoutOn = (~j /\ \E p \in Peers : Classes[idx[p]].in)

\* peers are interchangeable: one representative per multiset of classes (non-decreasing index sequences)
RECURSIVE NonDec(_, _)
NonDec(n, lo) == IF n = 0 THEN {<<>>} ELSE UNION {{<<i>> \o s : s \in NonDec(n - 1, i)} : i \in lo..Len(Classes)}

InitClasses ==
    \E idx \in NonDec(NP, 1) : \E j \in InitJoined :
        /\ (~j /\ ~AllowDirectInFanout) => \A p \in Peers : ~(Classes[idx[p]].in /\ Classes[idx[p]].direct)
        /\ InitFrom(idx, j)

InitEmpty ==
    /\ conn = [p \in Peers |-> "none"] /\ sc = [p \in Peers |-> 0] /\ direct = [p \in Peers |-> FALSE]
    /\ bo = [p \in Peers |-> "none"] /\ sub = [p \in Peers |-> FALSE] /\ cap \in [Peers -> BOOLEAN]
    /\ joined = FALSE /\ mesh = {} /\ fanout = {} /\ fanoutOn = FALSE

Init ==
    /\ IF InitMode = "classes" THEN InitClasses ELSE InitEmpty
    /\ ticks \in 0..(OppTicks - 1)
    /\ ctl = [p \in Peers |-> "none"]
    /\ nev = 0 /\ nhb = 0 /\ ndrop = 0 /\ act = "init" /\ arg = <<0, "">> /\ sent = {}

------------------------------------------------------------------------------
(* sendRPC: S = set of <<p, kind>> (at most one per peer) pushed now; the pushes to the peers
   in Dr are dropped (queue full) and their GRAFT/PRUNE goes to gs.control for retry.  A retry
   pending for a peer we push to is piggybacked when it is not stale (then it has the kind we
   are sending anyway) and forgotten otherwise.  No queue (not connected): nothing happens.
   The retries of the peers in `forget` are dropped without being sent (stale at flush).     *)
SendPeers(S) == {s[1] : s \in S}
SendsF(S, forget) ==
    \E Dr \in SUBSET {p \in SendPeers(S) : Connected(p)} :
        /\ Cardinality(Dr) <= MaxDrops - ndrop
        /\ ndrop' = ndrop + Cardinality(Dr)
        /\ sent' = {s \in S : Connected(s[1]) /\ s[1] \notin Dr}
        /\ ctl' = [p \in Peers |-> IF p \in SendPeers(S)
                                     THEN (IF p \in Dr THEN (CHOOSE s \in S : s[1] = p)[2] ELSE "none")
                                     ELSE IF p \in forget THEN "none" ELSE ctl[p]]
Sends(S) == SendsF(S, {})
\* flush(): what still waits in gs.control goes through the staleness filter (piggybackControl) and is re-sent
Stale(p, m) == (ctl[p] = "G" /\ p \notin m) \/ (ctl[p] = "P" /\ p \in m)
NoSends == sent' = {} /\ UNCHANGED <<ctl, ndrop>>

Ev(a, p, x) == nev < MaxEvents /\ nev' = nev + 1 /\ act' = a /\ arg' = <<p, x>> /\ UNCHANGED <<nhb, ticks>>
B2S(b) == IF b THEN "T" ELSE "F"

------------------------------------------------------------------------------
(* environment and API *)
PeerUp(p, dir, s) ==
    /\ conn[p] \in {"none", "half"}
    /\ Ev("up", p, dir \o (IF s THEN "+" ELSE "-"))
    /\ conn' = [conn EXCEPT ![p] = dir]
    /\ sub' = [sub EXCEPT ![p] = s]
    /\ NoSends
    /\ UNCHANGED <<sc, direct, bo, cap, joined, mesh, fanoutOn, fanout>>

\* OnClosedOutboundStream (+ clearPeerFromTopicsState): `to` = "none" (connection gone) or "half"
PeerDown(p, to) ==
    /\ Connected(p)
    /\ to = "half" => AllowHalf
    /\ Ev("down", p, to)
    /\ conn' = [conn EXCEPT ![p] = to]
    /\ sub' = [sub EXCEPT ![p] = FALSE]
    /\ mesh' = mesh \ {p}
    /\ fanout' = IF DownCleansFanout THEN fanout \ {p} ELSE fanout
    /\ ctl' = [ctl EXCEPT ![p] = "none"]
    /\ sent' = {} /\ UNCHANGED ndrop
    /\ UNCHANGED <<sc, direct, bo, cap, joined, fanoutOn>>

\* the surviving inbound stream of a half peer closes: the router is not told (no outbound stream)
HalfGone(p) ==
    /\ conn[p] = "half"
    /\ Ev("halfgone", p, "")
    /\ conn' = [conn EXCEPT ![p] = "none"]
    /\ sub' = [sub EXCEPT ![p] = FALSE]
    /\ NoSends
    /\ UNCHANGED <<sc, direct, bo, cap, joined, mesh, fanoutOn, fanout>>

SubChange(p, s) ==
    /\ HasInStream(p) /\ sub[p] # s
    /\ Ev("sub", p, B2S(s))
    /\ sub' = [sub EXCEPT ![p] = s]
    /\ NoSends
    /\ UNCHANGED <<conn, sc, direct, bo, cap, joined, mesh, fanoutOn, fanout>>

SetScore(p, v) ==
    /\ sc[p] # v
    /\ Ev("score", p, ToString(v))
    /\ sc' = [sc EXCEPT ![p] = v]
    /\ NoSends
    /\ UNCHANGED <<conn, direct, bo, sub, cap, joined, mesh, fanoutOn, fanout>>

SetDirect(p, b) ==
    /\ direct[p] # b
    /\ (b /\ p \in fanout) => AllowDirectInFanout
    /\ Ev("direct", p, B2S(b))
    /\ direct' = [direct EXCEPT ![p] = b]
    /\ NoSends
    /\ UNCHANGED <<conn, sc, bo, sub, cap, joined, mesh, fanoutOn, fanout>>

Expire(p) ==
    /\ bo[p] = "active"
    /\ Ev("expire", p, "")
    /\ bo' = [bo EXCEPT ![p] = "expired"]
    /\ NoSends
    /\ UNCHANGED <<conn, sc, direct, sub, cap, joined, mesh, fanoutOn, fanout>>

\* handleGraft
RemoteGraft(p) ==
    /\ HasInStream(p)
    /\ Ev("graft", p, "")
    /\ UNCHANGED <<conn, sc, direct, sub, cap, joined, fanoutOn, fanout>>
    /\ IF ~joined \/ p \in mesh \/ (GraftNeedsStream /\ ~Connected(p))
         THEN NoSends /\ UNCHANGED <<mesh, bo>>
       ELSE IF direct[p]
         THEN Sends({<<p, "P">>}) /\ UNCHANGED <<mesh, bo>>
       ELSE IF bo[p] = "active"
         THEN Sends({<<p, "P">>}) /\ UNCHANGED <<mesh, bo>>                 \* + behaviour penalty, backoff refreshed
       ELSE IF sc[p] < 0 \/ (Cardinality(mesh) >= Dhi /\ conn[p] # "out")
         THEN Sends({<<p, "P">>}) /\ bo' = [bo EXCEPT ![p] = "active"] /\ UNCHANGED mesh
       ELSE mesh' = mesh \cup {p} /\ NoSends /\ UNCHANGED bo

\* handlePrune
RemotePrune(p) ==
    /\ HasInStream(p) /\ joined
    /\ Ev("prune", p, "")
    /\ mesh' = mesh \ {p}
    /\ bo' = [bo EXCEPT ![p] = "active"]
    /\ NoSends
    /\ UNCHANGED <<conn, sc, direct, sub, cap, joined, fanoutOn, fanout>>

CodeElig(cur, b, filterDirect) ==
    {p \in Cand \ cur : (filterDirect => ~direct[p]) /\ b[p] = "none" /\ sc[p] >= 0}

Join ==
    /\ ~joined
    /\ Ev("join", 0, "")
    /\ joined' = TRUE /\ fanoutOn' = FALSE /\ fanout' = {}
    /\ IF fanoutOn
         THEN LET keep == {p \in fanout : sc[p] >= 0 /\ bo[p] = "none" /\ (JoinFilterDirect => ~direct[p])} IN
              IF Cardinality(keep) < D
                THEN \E more \in TakeSets(CodeElig(keep, bo, TRUE), D - Cardinality(keep)) : mesh' = keep \cup more
                ELSE mesh' = keep
         ELSE \E S \in TakeSets(CodeElig({}, bo, TRUE), D) : mesh' = S
    /\ Sends({<<p, "G">> : p \in mesh'})
    /\ UNCHANGED <<conn, sc, direct, bo, sub, cap>>

Leave ==
    /\ joined
    /\ Ev("leave", 0, "")
    /\ joined' = FALSE /\ mesh' = {}
    /\ bo' = [p \in Peers |-> IF p \in mesh THEN "active" ELSE bo[p]]
    /\ Sends({<<p, "P">> : p \in mesh})
    /\ UNCHANGED <<conn, sc, direct, sub, cap, fanoutOn, fanout>>

\* publish on a topic that is not joined: getFanoutPeersForPublishing
Publish ==
    /\ ~joined
    /\ Ev("publish", 0, "")
    /\ IF fanout = {}
         THEN \E S \in TakeSets({p \in Cand : ~direct[p] /\ sc[p] >= PublishThr}, D) :
                 fanout' = S /\ fanoutOn' = (fanoutOn \/ S # {})
         ELSE UNCHANGED <<fanout, fanoutOn>>
    /\ NoSends
    /\ UNCHANGED <<conn, sc, direct, bo, sub, cap, joined, mesh>>

------------------------------------------------------------------------------
(* heartbeat: over-subscription selection exactly as coded *)
RECURSIVE PermSeqs(_)
PermSeqs(S) == IF S = {} THEN {<<>>} ELSE UNION {{<<x>> \o s : s \in PermSeqs(S \ {x})} : x \in S}

\* the first k elements of a descending sort (ties in any order)
RECURSIVE Heads(_, _)
Heads(S, k) ==
    IF k = 0 \/ S = {} THEN {<<>>}
    ELSE UNION {{<<x>> \o s : s \in Heads(S \ {x}, k - 1)} : x \in {y \in S : \A z \in S : sc[y] >= sc[z]}}

\* sort by score, then shuffle plst[Dscore:]
Plsts(S) == UNION {{h \o t : t \in PermSeqs(S \ Range(h))} : h \in Heads(S, Dscore)}

Rot(pl, i) == <<pl[i]>> \o SubSeq(pl, 1, i - 1) \o SubSeq(pl, i + 1, Len(pl))

\* "first bubble up all outbound peers already in the selection to the front" (indices are 1-based here)
RECURSIVE BubA(_, _, _)
BubA(pl, i, ihave) ==
    IF i > (IF BubbleToD THEN D ELSE Dscore) \/ ihave <= 0 THEN pl      \* the code scans the whole selection (i < D)
    ELSE IF pl[i] \in Outb THEN BubA(Rot(pl, i), i + 1, ihave - 1) ELSE BubA(pl, i + 1, ihave)

\* "now bubble up enough outbound peers outside the selection to the front"
RECURSIVE BubB(_, _, _)
BubB(pl, i, ineed) ==
    IF i > Len(pl) \/ ineed <= 0 THEN pl
    ELSE IF pl[i] \in Outb THEN BubB(Rot(pl, i), i + 1, ineed - 1) ELSE BubB(pl, i + 1, ineed)

KeptOf(pl) ==
    LET outc == Cardinality({i \in 1..D : pl[i] \in Outb})
        fin  == IF outc < Dout
                  THEN BubB(IF outc > 0 THEN BubA(pl, 2, outc) ELSE pl, D + 1, Dout - outc)
                  ELSE pl
    IN {fin[i] : i \in 1..D}

CutChoices(S) == {KeptOf(pl) : pl \in Plsts(S)}

OverSubscribed(S) == IF CutAtGE THEN Cardinality(S) >= Dhi ELSE Cardinality(S) > Dhi

HbMesh(bo0) ==
    LET N   == {p \in mesh : sc[p] < 0}
        m1  == mesh \ N
        bo1 == [p \in Peers |-> IF p \in N THEN "active" ELSE bo0[p]]
    IN
    \E G \in (IF Cardinality(m1) < Dlo THEN TakeSets(CodeElig(m1, bo1, HbFilterDirect), D - Cardinality(m1)) ELSE {{}}) :
      LET m2 == m1 \cup G IN
      \E K \in (IF OverSubscribed(m2) THEN CutChoices(m2) ELSE {m2}) :
        LET X   == m2 \ K
            bo3 == [p \in Peers |-> IF p \in X THEN "active" ELSE bo1[p]]
            oc  == Cardinality(K \cap Outb)
            \* the map the later graft steps consult: looked up again after the cut (a snapshot taken at the top of
            \* the loop is nil, and stays blind to this heartbeat's prunes, when the topic had no entry yet)
            boL == IF FreshBackoff \/ (\E p \in Peers : bo0[p] # "none") THEN bo3 ELSE bo0
        IN
        \E Q \in (IF Cardinality(K) >= Dlo /\ oc < Dout
                    THEN TakeSets({p \in CodeElig(K, boL, HbFilterDirect) : conn[p] = "out"}, Dout - oc)
                    ELSE {{}}) :
          LET m4 == K \cup Q IN
          \E O \in (IF (ticks + 1) % OppTicks = 0 /\ Cardinality(m4) > 1 /\ MP!Median(m4, sc) < OppThr
                      THEN TakeSets({p \in Cand \ m4 : (HbFilterDirect => ~direct[p]) /\ boL[p] = "none"
                                                        /\ sc[p] > MP!Median(m4, sc)}, OppPeers)
                      ELSE {{}}) :
            /\ mesh' = m4 \cup O
            /\ bo' = bo3
            /\ LET tograft == IF SendsGraft THEN G \cup Q \cup O ELSE {}
                   toprune == N \cup X
                   targets == tograft \cup toprune
               IN \* sendGraftPrune, then flush re-sends what is still waiting in gs.control
                  LET waiting == {q \in Peers \ targets : ctl[q] # "none"} IN
                  SendsF({<<p, "G">> : p \in tograft} \cup {<<p, "P">> : p \in toprune}
                         \cup {<<p, ctl[p]>> : p \in {q \in waiting : ~Stale(q, mesh')}},
                         {q \in waiting : Stale(q, mesh')})
            /\ UNCHANGED <<fanout, fanoutOn>>

HbFanout(bo0) ==
    /\ bo' = bo0 /\ UNCHANGED mesh
    /\ LET waiting == {q \in Peers : ctl[q] # "none"} IN
       SendsF({<<p, ctl[p]>> : p \in {q \in waiting : ~Stale(q, {})}}, {q \in waiting : Stale(q, {})})
    /\ IF ~fanoutOn THEN UNCHANGED <<fanout, fanoutOn>>
       ELSE \/ fanoutOn' = FALSE /\ fanout' = {}                                 \* FanoutTTL elapsed
            \/ LET keep == {p \in fanout : sub[p] /\ sc[p] >= PublishThr} IN
               /\ fanoutOn' = TRUE
               /\ IF Cardinality(keep) < D
                    THEN \E more \in TakeSets({p \in Cand \ keep : ~direct[p] /\ sc[p] >= PublishThr}, D - Cardinality(keep)) :
                            fanout' = keep \cup more
                    ELSE fanout' = keep

Heartbeat ==
    /\ nhb < MaxHb /\ nhb' = nhb + 1 /\ act' = "hb" /\ arg' = <<0, "">> /\ UNCHANGED nev
    /\ ticks' = (ticks + 1) % OppTicks
    /\ \E sweep \in (IF \E p \in Peers : bo[p] = "expired" THEN BOOLEAN ELSE {FALSE}) :   \* clearBackoff (every 15th tick): elapsed entries leave the map
         LET bo0 == IF sweep THEN [p \in Peers |-> IF bo[p] = "expired" THEN "none" ELSE bo[p]] ELSE bo IN
         IF joined THEN HbMesh(bo0) ELSE HbFanout(bo0)
    /\ UNCHANGED <<conn, sc, direct, sub, cap, joined>>

Next ==
    \/ \E p \in Peers : \/ \E dir \in {"in", "out"}, s \in BOOLEAN : PeerUp(p, dir, s)
                        \/ \E to \in {"none", "half"} : PeerDown(p, to)
                        \/ HalfGone(p)
                        \/ \E s \in BOOLEAN : SubChange(p, s)
                        \/ \E v \in Scores : SetScore(p, v)
                        \/ \E b \in BOOLEAN : SetDirect(p, b)
                        \/ Expire(p)
                        \/ RemoteGraft(p)
                        \/ RemotePrune(p)
    \/ Join \/ Leave \/ Publish \/ Heartbeat

Spec == Init /\ [][Next]_vars

------------------------------------------------------------------------------
(* properties *)
TypeOK ==
    /\ conn \in [Peers -> {"none", "in", "out", "half"}] /\ sc \in [Peers -> Scores]
    /\ direct \in [Peers -> BOOLEAN] /\ bo \in [Peers -> {"none", "active", "expired"}]
    /\ sub \in [Peers -> BOOLEAN] /\ cap \in [Peers -> BOOLEAN]
    /\ joined \in BOOLEAN /\ mesh \subseteq Peers /\ fanout \subseteq Peers /\ fanoutOn \in BOOLEAN
    /\ ctl \in [Peers -> {"none", "G", "P"}]

\* a mesh exists exactly for joined topics; fanout state only for topics that are not joined
P_C07_Shape == (~joined => mesh = {}) /\ (joined => ~fanoutOn /\ fanout = {}) /\ (~fanoutOn => fanout = {})
\* mesh members are currently connected peers (peers with an outbound stream)
P_C07_Connected == \A p \in mesh : Connected(p)

IsHb == act' = "hb" /\ joined
Own == IF act' \in {"hb", "join"} THEN mesh' \ mesh ELSE {}
Removed == IF act' \in {"hb", "leave"} THEN {p \in mesh \ mesh' : Connected(p)} ELSE {}

A_NoNegative == IsHb => MP!P_C07_NoNegative(V, mesh')
A_Grow       == IsHb => MP!P_C07_Grow(P, V, mesh')
A_Cut        == IsHb => MP!P_C07_Cut(P, V, mesh')
A_Explained  == IsHb => MP!HbExplained(P, V, ticks' = 0, mesh')
A_Additions  ==
    /\ IsHb => MP!P_C07_Additions(V, mesh')
    /\ act' = "join" => MP!JoinAdmissible(V, mesh')
    /\ act' = "graft" => \A p \in mesh' \ mesh : MP!GraftAdmissible(P, V, p)
    /\ act' \notin {"hb", "join", "graft"} => mesh' \subseteq mesh
A_Signalling ==
    /\ \A p \in Own : <<p, "G">> \in sent' \/ ctl'[p] = "G"
    /\ \A p \in Removed : <<p, "P">> \in sent' \/ ctl'[p] = "P"
    \* what was waiting for a retry is re-sent by the heartbeat's flush, waits on, or became stale
    /\ act' = "hb" => \A p \in Peers : (ctl[p] # "none" /\ Connected(p)) =>
                          \/ <<p, ctl[p]>> \in sent' \/ ctl'[p] = ctl[p]
                          \/ (ctl[p] = "G" /\ p \notin mesh') \/ (ctl[p] = "P" /\ p \in mesh')

P_C07_NoNegative == [][A_NoNegative]_vars
P_C07_Grow       == [][A_Grow]_vars
P_C07_Cut        == [][A_Cut]_vars
P_C07_Explained  == [][A_Explained]_vars
P_C07_Additions  == [][A_Additions]_vars
P_C07_Signalling == [][A_Signalling]_vars
=============================================================================
