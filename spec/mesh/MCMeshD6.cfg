\* MUST fail (the code as found, D6): GRAFT admitted from a peer whose outbound stream is gone
SPECIFICATION Spec
CONSTANTS
  NP = 2
  D = 2
  Dlo = 1
  Dhi = 3
  Dscore = 1
  Dout = 0
  OppTicks = 2
  OppPeers = 1
  OppThr = 1
  MaxEvents = 2
  MaxHb = 0
  MaxDrops = 1
  InitMode = "classes"
  ClassMode = "tiny"
  InitJoined = {TRUE}
  HbFilterDirect = TRUE
  CutAtGE = TRUE
  SendsGraft = TRUE
  BubbleToD = TRUE
  FreshBackoff = TRUE
  DownCleansFanout = TRUE
  JoinFilterDirect = TRUE
  GraftNeedsStream = FALSE
  AllowDirectInFanout = TRUE
  AllowHalf = TRUE
INVARIANT P_C07_Connected
VIEW View
CHECK_DEADLOCK FALSE
