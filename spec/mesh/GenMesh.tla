------------------------------ MODULE GenMesh ------------------------------
(* Scenario generator for C07 (run with -simulate): a random assignment of
   the peer classes of Mesh.tla (the state the replay driver first builds:
   who is connected in which direction, who is in the mesh or the fanout,
   scores, direct peers, backoffs), followed by L steps of the model with a
   heartbeat every HbEvery-th step.  Only the stimuli are emitted; what the
   real router does with them is judged by MeshTrace.tla.                    *)
EXTENDS Mesh, Json

CONSTANTS L, HbEvery

VARIABLES hist, init0
gvars == <<conn, sc, direct, bo, sub, cap, joined, mesh, fanoutOn, fanout, ticks, ctl, nev, nhb, ndrop, act, arg, sent, hist, init0>>

GInit ==
    /\ InitEmpty /\ cap = [p \in Peers |-> TRUE]
    /\ ticks = 0 /\ ctl = [p \in Peers |-> "none"]
    /\ nev = 0 /\ nhb = 0 /\ ndrop = 0 /\ act = "init" /\ arg = <<0, "">> /\ sent = {}
    /\ hist = <<>> /\ init0 = <<>>

\* first step: draw the classes (RandomElement: a fresh draw for every simulated behaviour)
Setup ==
    /\ init0 = <<>>
    \* (bound through singleton sets so that each draw is evaluated exactly once)
    /\ \E idx \in {[p \in Peers |-> RandomElement(1..Len(Classes))]} :
       \E jj \in {RandomElement(1..4) # 1} :              \* three in four start joined, the others with a fanout
          /\ conn'   = [p \in Peers |-> Classes[idx[p]].conn]
          /\ sc'     = [p \in Peers |-> Classes[idx[p]].sc]
          /\ direct' = [p \in Peers |-> Classes[idx[p]].direct /\ (jj \/ ~Classes[idx[p]].in)]
          /\ bo'     = [p \in Peers |-> Classes[idx[p]].bo]
          /\ sub'    = [p \in Peers |-> Classes[idx[p]].sub]
          /\ cap'    = [p \in Peers |-> Classes[idx[p]].cap]
          /\ joined' = jj
          /\ mesh'   = IF jj THEN {p \in Peers : Classes[idx[p]].in} ELSE {}
          /\ fanout' = IF jj THEN {} ELSE {p \in Peers : Classes[idx[p]].in}
          /\ fanoutOn' = (~jj /\ \E p \in Peers : Classes[idx[p]].in)
          /\ init0' = [conn |-> conn', sc |-> sc', direct |-> direct', bo |-> bo', sub |-> sub', cap |-> cap',
                       joined |-> joined', mesh |-> mesh', fanout |-> fanout']
    /\ UNCHANGED <<ticks, ctl, nev, nhb, ndrop, act, arg, sent, hist>>

GStep ==
    /\ init0 # <<>> /\ Len(hist) < L
    /\ IF Len(hist) % HbEvery = HbEvery - 1 THEN Heartbeat ELSE (Next /\ act' \notin {"hb", "expire", "halfgone"})
    /\ hist' = Append(hist, [a |-> act', p |-> arg'[1], x |-> arg'[2]])
    /\ UNCHANGED init0

GSpec == GInit /\ [][Setup \/ GStep]_gvars

Emit == Len(hist) = L => PrintT(<<"SCN", ToJson([init |-> init0, hist |-> hist])>>)
=============================================================================
