\* MUST fail: graftPeer does not record the GRAFT to send
SPECIFICATION Spec
CONSTANTS
  NP = 3
  D = 2
  Dlo = 1
  Dhi = 3
  Dscore = 1
  Dout = 0
  OppTicks = 2
  OppPeers = 1
  OppThr = 1
  MaxEvents = 0
  MaxHb = 1
  MaxDrops = 1
  InitMode = "classes"
  ClassMode = "tiny"
  InitJoined = {TRUE}
  HbFilterDirect = TRUE
  CutAtGE = TRUE
  SendsGraft = FALSE
  BubbleToD = TRUE
  FreshBackoff = TRUE
  DownCleansFanout = TRUE
  JoinFilterDirect = TRUE
  GraftNeedsStream = FALSE
  AllowDirectInFanout = TRUE
  AllowHalf = FALSE
PROPERTY P_C07_Signalling
VIEW View
CHECK_DEADLOCK FALSE
