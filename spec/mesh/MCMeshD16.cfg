\* MUST fail (the code as found, D16): Join promotes a fanout member that was made a direct peer
SPECIFICATION Spec
CONSTANTS
  NP = 2
  D = 2
  Dlo = 1
  Dhi = 3
  Dscore = 1
  Dout = 0
  OppTicks = 2
  OppPeers = 1
  OppThr = 1
  MaxEvents = 2
  MaxHb = 0
  MaxDrops = 1
  InitMode = "classes"
  ClassMode = "tiny"
  InitJoined = {FALSE}
  HbFilterDirect = TRUE
  CutAtGE = TRUE
  SendsGraft = TRUE
  BubbleToD = TRUE
  FreshBackoff = TRUE
  DownCleansFanout = TRUE
  JoinFilterDirect = FALSE
  GraftNeedsStream = FALSE
  AllowDirectInFanout = TRUE
  AllowHalf = FALSE
PROPERTY P_C07_Additions
VIEW View
CHECK_DEADLOCK FALSE
