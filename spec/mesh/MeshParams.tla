----------------------------- MODULE MeshParams -----------------------------
(* C07, parameter domain: the answers of the real GossipSubParams.validate on
   a grid of (D, Dlo, Dhi, Dscore, Dout) (harness/drivers/c07 TestC07Validate)
   are compared with MeshProps!ValidParams, the domain for which the mesh
   model is checked.  A set the code accepts although the model calls it
   invalid is printed as <<"ACCEPTS", json>> (the orchestrator then replays
   mesh scenarios under it: the property is quantified over every set the
   code accepts); a set the code rejects although it is valid is printed as
   <<"REJECTS", json>>.                                                      *)
EXTENDS Integers, Sequences, FiniteSets, TLC, Json

Lines == ndJsonDeserialize("params.ndjson")
MP == INSTANCE MeshProps

VARIABLE k
PInit == k = 1
PNext ==
    /\ k <= Len(Lines)
    /\ LET x == Lines[k]
           P == [D |-> x.D, Dlo |-> x.Dlo, Dhi |-> x.Dhi, Dscore |-> x.Dscore, Dout |-> x.Dout] IN
       /\ (x.ok /\ ~MP!ValidParams(P)) => PrintT(<<"ACCEPTS", ToJson(P)>>)
       /\ (~x.ok /\ MP!ValidParams(P)) => PrintT(<<"REJECTS", ToJson(P)>>)
    /\ (k = Len(Lines)) => PrintT(<<"CHECKED", k>>)
    /\ k' = k + 1
PSpec == PInit /\ [][PNext]_k
=============================================================================
