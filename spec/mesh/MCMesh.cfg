\* one of the exhaustive configurations bin/lib/props/c07.py builds (every class state x one heartbeat); the others differ in the constants only
SPECIFICATION Spec
CONSTANTS
  NP = 4
  D = 2
  Dlo = 1
  Dhi = 3
  Dscore = 1
  Dout = 0
  OppTicks = 2
  OppPeers = 1
  OppThr = 1
  MaxEvents = 0
  MaxHb = 1
  MaxDrops = 1
  InitMode = "classes"
  ClassMode = "tiny"
  InitJoined = {TRUE}
  HbFilterDirect = TRUE
  CutAtGE = TRUE
  SendsGraft = TRUE
  BubbleToD = TRUE
  FreshBackoff = TRUE
  DownCleansFanout = TRUE
  JoinFilterDirect = TRUE
  GraftNeedsStream = FALSE
  AllowDirectInFanout = TRUE
  AllowHalf = FALSE
INVARIANT TypeOK
INVARIANT P_C07_Shape
INVARIANT P_C07_Connected
PROPERTY P_C07_NoNegative
PROPERTY P_C07_Grow
PROPERTY P_C07_Cut
PROPERTY P_C07_Explained
PROPERTY P_C07_Additions
PROPERTY P_C07_Signalling
VIEW View
CHECK_DEADLOCK FALSE
