--------------------------- MODULE PeerLifeTrace ---------------------------
(* Trace specification for C13.  Every line is one step of a lifecycle replayed on the real
   node (harness/drivers/c13): the stimulus (act / e, p, k), the number of heartbeats that
   fired during the step, and - observed inside the node's event loop after the step - for
   every lifecycle peer the per-peer containers that mention it (keys), the pubsub:<topic>
   protections the real BasicConnMgr holds for it (prot) and whether a connection exists (conn).

   The model of PeerLife (all deviations off = intended behaviour) is advanced by the stimulus;
   the replay is deterministic, so there is exactly one behaviour and every failing predicate
   is printed (<<"VIOL", json>>) instead of blocking the cursor:

     P_C13_Reclaimed   on the last line (everything down, all retention periods elapsed):
                       no container lists the peer and no protection is left;
     P_C13_Immediate   on every line: a container that is emptied at the very event that closes the
                       stream / connection it belongs to (queues, topics, inbound handlers, router
                       peers, mesh, fanout, pending gossip/control, outbound flags, IDONTWANT sets)
                       lists the peer only if the model says it may;
     DRIFT (note only) a key outside the MAY set of the model with the known deviations switched on (the code
                       as found), a precondition the model does not see fulfilled, connection state that differs.

   cond classifies a leak by the deviation (D5/D6/D7/D14, DESIGN section 5) whose condition the
   model saw for that peer and container - "none" when no such condition occurred.            *)
EXTENDS PeerLife

Trace == ndJsonDeserialize("trace.ndjson")

VARIABLES l,      \* cursor
          psAF    \* the same model with the four deviations switched on (the code as found): used only to tell
                  \* model drift from the consequences of the known deviations
tvars == <<vars, l, psAF>>

AF == INSTANCE PeerLife WITH DevD5 <- TRUE, DevD6 <- TRUE, DevD7 <- TRUE, DevD14 <- TRUE, ps <- psAF

E == Trace[l]
SeqSet(q) == {q[i] : i \in DOMAIN q}

TInit == /\ TLCSet(1, 0)
         /\ l = 1
         /\ router = "gossipsub"
         /\ ps = [p \in Peers |-> InitPeer("v11", FALSE, FALSE, FALSE)]
         /\ psAF = ps
         /\ pubd = FALSE /\ elapsed = FALSE /\ hist = <<>>

TReset ==
    /\ E.a = "reset"
    /\ router' = E.router
    /\ ps' = [p \in Peers |-> InitPeer(E.peers[p].proto, E.peers[p].pos, E.peers[p].refuse, E.peers[p].neg)]
    /\ psAF' = ps'
    /\ pubd' = FALSE /\ elapsed' = FALSE /\ hist' = <<>>

Cond(s, c) ==
    CASE c = CExt /\ "D5" \in s.dev -> "D5"
      [] c \in {CMesh, CProt} /\ "D6" \in s.dev -> "D6"
      [] c = CProt /\ "D7" \in s.dev -> "D7"
      [] c = CGater /\ "D14" \in s.dev -> "D14"
      [] OTHER -> "none"

Report(tag, pred, p, c, s) ==
    PrintT(<<tag, ToJson([pred |-> pred, scn |-> E.scn, i |-> E.i, p |-> p, c |-> c, cond |-> Cond(s, c),
                          proto |-> s.proto, router |-> router, e |-> E.e, k |-> E.k])>>)

TStep ==
    /\ E.a # "reset"
    /\ LET pd1 == pubd \/ E.e = "NodePub"
           \* a free choice of the node is resolved by what it did: after a reset of its outbound stream it either
           \* respawned the writer (a queue exists again) or had used up the peer's backoff attempts
           \* (only where the model cannot know: the attempts a disconnect race may have used up)
           resp == IF ps[E.p].attHi < MaxRespawns THEN TRUE
                   ELSE IF ps[E.p].attLo >= MaxRespawns THEN FALSE
                   ELSE "pubsub.peers" \in SeqSet(E.keys[E.p])
           a1  == CASE E.e = "OutReset" -> [ps EXCEPT ![E.p] = OutResetEv(@, resp)]
                    [] E.e \in PeerEvents -> [ps EXCEPT ![E.p] = PeerEv(@, E.e, E.k)]
                    [] E.e \in GlobalEvents \cup {"Elapse"} -> [p \in Peers |-> GlobalEv(ps[p], E.e, pd1)]
                    [] OTHER -> ps
           nps == IF E.hb > 0 THEN [p \in Peers |-> HbEv(a1[p], pd1)] ELSE a1
           b1  == CASE E.e = "OutReset" -> [psAF EXCEPT ![E.p] = AF!OutResetEv(@, resp)]
                    [] E.e \in PeerEvents -> [psAF EXCEPT ![E.p] = AF!PeerEv(@, E.e, E.k)]
                    [] E.e \in GlobalEvents \cup {"Elapse"} -> [p \in Peers |-> AF!GlobalEv(psAF[p], E.e, pd1)]
                    [] OTHER -> psAF
           naf == IF E.hb > 0 THEN [p \in Peers |-> AF!HbEv(b1[p], pd1)] ELSE b1
           Obs(p) == SeqSet(E.keys[p]) \cup (IF Len(E.prot[p]) > 0 THEN {CProt} ELSE {})
       IN  /\ ps' = nps
           /\ psAF' = naf
           /\ pubd' = pd1
           /\ elapsed' = (elapsed \/ E.e = "Elapse")
           /\ UNCHANGED <<router, hist>>
           /\ (E.e \in PeerEvents /\ ~Pre(ps[E.p], E.e, E.k)) => Report("DRIFT", "pre", E.p, "", ps[E.p])
           /\ \A p \in Peers :
                LET may == KeysOf(nps[p], router) IN
                /\ E.conn[p] # nps[p].conn => Report("DRIFT", "conn", p, "", nps[p])
                /\ IF E.fin
                     THEN \A c \in Obs(p) : Report("VIOL", "P_C13_Reclaimed", p, c, nps[p])
                     ELSE /\ \A c \in (Obs(p) \cap Immediate) \ may : Report("VIOL", "P_C13_Immediate", p, c, nps[p])
                /\ \A c \in Obs(p) \ AF!KeysOf(naf[p], router) : Report("DRIFT", "may", p, c, naf[p])

TNext == l <= Len(Trace) /\ (TReset \/ TStep) /\ l' = l + 1

TraceSpec == TInit /\ [][TNext]_tvars

HW == IF TLCGet(1) < l THEN TLCSet(1, l) ELSE TRUE
Accepted == PrintT(<<"HW", TLCGet(1), Len(Trace) + 1>>)
=============================================================================
