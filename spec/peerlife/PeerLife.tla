------------------------------ MODULE PeerLife ------------------------------
(* C13 - all state attributable to a peer is reclaimed after it disconnects.

   (a) GENERATOR.  A peer lifecycle is a sequence over
         ConnUp, OutUp, OutFail, OutReset, InUp, InDup, InReset, InEOF,
         Send(kind), Blacklist, ConnDown     (per peer; kind: sub(t1|t2), unsub, graft, prune, prune with PX,
                                              ihave, iwant, idontwant, ext(ension handshake), publish valid |
                                              invalid signature | slow to validate, pgflood = PRUNE + GRAFTs
                                              inside the backoff from a peer that stopped reading)
         NodePub, Hb, Wait                   (the node publishes on a topic it has not joined / one heartbeat /
                                              time for a slow validation to end)
       constrained only by libp2p's rules: streams need a connection; the node's
       outbound stream is opened by the node itself once the connection is
       identified (so ConnUp leaves it "pending": OutUp = NewStream succeeds,
       OutFail = NewStream fails); an RPC needs an inbound stream - whatever has
       happened to the outbound direction.  Every lifecycle ends with every peer
       completely down and is followed by Elapse (all retention periods).

   (b) MODEL.  For every per-peer container of the node: which event inserts the
       peer's key and which removes it, as the code is INTENDED to.  K is a MAY
       set: a key is added when the event can insert it and removed only when the
       code definitely removes it at that event (timed expiry is left to Elapse),
       so K is an upper bound of the keys of the real node at every step and
           P_C13 == Gone(p) /\ elapsed => Keys(p) = {}
       is sound for the real node as far as the real node conforms to the upper
       bound (checked line by line by PeerLifeTrace).
       The four deviations of the code as found (DESIGN section 5) are named
       constants; with any of them TRUE the invariant must fail (non-vacuity).   *)
EXTENDS Naturals, Sequences, FiniteSets, TLC, Json

CONSTANTS Peers,        \* lifecycle peers, e.g. {"p1"} or {"p1", "p2"}
          Protos,       \* protocol versions a peer may speak
          Routers,      \* routers of the node under test
          MaxLen,       \* bound on the number of events before Elapse
          DevD5,        \* TRUE: peerExtensions entry of a pre-v1.3 peer survives the inbound close
          DevD6,        \* TRUE: GRAFT is admitted although the sender has no outbound stream (gs.peers)
          DevD7,        \* TRUE: pubsub:<topic> protection survives the removal from the mesh on outbound close
          DevD14,       \* TRUE: a verdict leaving validation when no stream is left recreates gater stats
          DevRefusedGraft, \* TRUE (a seeded variant): a GRAFT refused because the mesh is full still fires the Graft trace event, so the
                        \*       sender is protected in the connection manager although it never enters the mesh (nothing unprotects it)
          DevGiveUp     \* TRUE (a seeded variant, not the code as found): handleDeadPeers stores the respawned writer's queue in
                        \*       pubsub.peers BEFORE asking the dead-peer backoff, so that it stays when the backoff gives the peer up

VARIABLES ps,           \* ps[p] = per-peer record (see InitPeer)
          router,       \* router of the node under test
          pubd,         \* the node has published on the fanout topic t2
          elapsed,      \* Elapse has happened
          hist          \* history of events (generator output; hidden by VIEW in MC)

vars == <<ps, router, pubd, elapsed, hist>>

SendKinds == {"sub1", "sub2", "unsub1", "graft", "prune", "prunepx", "ihave", "iwant",
              "idontwant", "ext", "pubv", "pubi", "pubslow", "pgflood", "graftx"}
CtlKinds  == {"graft", "prune", "prunepx", "ihave", "iwant", "idontwant", "ext", "pgflood", "graftx"}
PeerEvents == {"ConnUp", "OutUp", "OutFail", "OutReset", "InUp", "InDup", "InReset", "InEOF",
               "Send", "Blacklist", "ConnDown"}
GlobalEvents == {"NodePub", "Hb", "Wait"}
MaxRespawns == 4     \* backoff.go MaxBackoffAttempts: the 5th dead stream within the TTL is not respawned

(* ------------------------------------------------------------------ containers *)
CTopics == "pubsub.topics"
CProt   == "connmgr.protect"
CExt    == "gs.extensions.peerExtensions"
CSent   == "gs.extensions.sentExtensions"
CGater  == "gater.peerStats"
CMesh   == "gs.mesh"

Core == {"pubsub.peers", CTopics, "pubsub.inboundStreams", "pubsub.deadPeerBackoff"}
GsOnly == {"gs.peers", CMesh, "gs.fanout", "gs.gossip", "gs.control", "gs.peerhave", "gs.iasked",
           "gs.peerdontwant", "gs.unwanted", "gs.outbound", "gs.backoff", "gs.mcache.peertx",
           CExt, CSent, "score.peerStats", "score.peerIPs", "score.deliveries.peers", CGater,
           "gossipTracer.promises", "gossipTracer.peerPromises", "tagTracer.nearFirst", CProt}
Containers == Core \cup GsOnly \cup {"randomsub.peers"}

\* cleared by the node at the very event that closes the stream / connection they belong to
Immediate == {"pubsub.peers", CTopics, "pubsub.inboundStreams", "gs.peers", CMesh, "gs.fanout", "gs.gossip",
              "gs.control", "gs.outbound", "gs.unwanted", "randomsub.peers"}
\* removed by a timer of the node (heartbeat sweeps, score refresh, TTLs): everything Elapse may take away
Timed == {"gs.backoff", "gs.peerhave", "gs.iasked", "gs.peerdontwant", "gs.unwanted", "gs.mcache.peertx",
          "score.peerStats", "score.peerIPs", "score.deliveries.peers", "gossipTracer.promises",
          "gossipTracer.peerPromises", "tagTracer.nearFirst", "pubsub.deadPeerBackoff", "gs.gossip",
          "gs.control", "gs.fanout"}
\* removed by rt.OnClosedOutboundStream (gossipsub.go) / RandomSubRouter
OutClears == {"gs.peers", CMesh, "gs.fanout", "gs.gossip", "gs.control", "gs.outbound", "gs.unwanted",
              CSent, CGater, "randomsub.peers"}
ScoreKeys == {"score.peerStats", "score.peerIPs"}
OutUpKeys == {"gs.peers", "gs.outbound", "score.peerStats", "score.peerIPs", CGater, "randomsub.peers"}

Applicable(r) == IF r = "gossipsub" THEN Core \cup GsOnly
                 ELSE IF r = "randomsub" THEN Core \cup {"randomsub.peers"} ELSE Core

(* ------------------------------------------------------------------ per-peer state *)
InitPeer(proto, pos, refuse, neg) ==
    [conn |-> FALSE,     \* a connection exists
     out  |-> "none",    \* the node's outbound stream: none | pend (NewStream in flight) | up | failed
     inb  |-> FALSE,     \* the node has an inbound stream of the peer
     bl   |-> FALSE,     \* blacklisted
     proto |-> proto,
     refuse |-> refuse,  \* a GRAFT of this peer is refused for a reason that lasts: direct peer, or the mesh is full (Dhi reached;
                         \* here a bootstrapper-style node with Dhi = 0) and the peer dialled us
     neg  |-> neg,       \* negative application score: a GRAFT is refused while the node keeps score statistics of the peer (it
                         \* certainly does while its outbound stream is up; a peer without statistics scores 0)
     pos  |-> pos,       \* score > 0: forgotten at disconnect; otherwise retained for RetainScore
     attLo |-> 0,        \* dead-peer backoff attempts used up for certain (outbound streams that died on a live connection)
     attHi |-> 0,        \* ... and at most (a plain disconnect counts when the node sees the stream die before the connection)
     slow |-> FALSE,     \* a message of the peer is still in validation
     subs |-> {},        \* topics the peer announced (pubsub.topics)
     K    |-> {},        \* MAY set over Containers \ {pubsub.topics}
     dev  |-> {}]        \* conditions of the deviations D5/D6/D7/D14 that occurred

Gone(s) == ~s.conn
KeysOf(s, r) == {c \in (s.K \cup (IF s.subs # {} THEN {CTopics} ELSE {})) : c \in Applicable(r)}

Add(s, cs)  == [s EXCEPT !.K = @ \cup cs]
Del(s, cs)  == [s EXCEPT !.K = @ \ cs]
Flag(s, d)  == [s EXCEPT !.dev = @ \cup {d}]

\* handleDeadPeers / BlacklistPeer: q.Close, delete(peers), clearPeerFromTopicsState, rt.OnClosedOutboundStream
\* (router maps, extensions.sentExtensions, gater.removePeerStats(outbound), score retain-or-forget);
\* intended (D7 repaired): the removal from the mesh also drops the pubsub:<topic> protection
OutDown(s) ==
    LET d7 == CProt \in s.K \/ "D6" \in s.dev      \* (a peer admitted by D6 is protected as well)
        rg == DevRefusedGraft /\ "RG" \in s.dev       \* (OnClosedOutboundStream unprotects mesh members only)
        rm == OutClears \cup {"pubsub.peers"} \cup (IF s.pos THEN ScoreKeys ELSE {})
                        \cup (IF (d7 /\ DevD7) \/ rg THEN {} ELSE {CProt})
        \* leaving the mesh / dropping the gater entry here also ends a D6 / D14 situation
        s1 == [s EXCEPT !.K = @ \ rm, !.subs = {}, !.dev = @ \ {"D6", "D14"}]
    IN  IF d7 THEN Flag(s1, "D7") ELSE s1

\* handleNewStream's deferred cleanup -> onClosedIncomingStream: clearPeerFromTopicsState, gater.removePeerStats(inbound),
\* extensions.OnClosedIncomingStream; intended (D5 repaired): for every protocol version
InDown(s, last) ==
    LET d5 == CExt \in s.K /\ s.proto # "v13"
        rm == (IF d5 /\ DevD5 THEN {} ELSE {CExt})
              \cup (IF s.out # "up" THEN {CGater} ELSE {})
              \cup (IF last THEN {"pubsub.inboundStreams"} ELSE {})
        s1 == [s EXCEPT !.K = @ \ rm, !.subs = {}, !.dev = IF s.out # "up" THEN @ \ {"D14"} ELSE @]
    IN  IF d5 THEN Flag(s1, "D5") ELSE s1

\* a verdict (Deliver / Reject / Duplicate) leaves validation: gater.getPeerStats creates the entry; intended (D14
\* repaired): not when no stream of the peer is left whose close would remove it again
ValDone(s) ==
    IF ~s.slow THEN s
    ELSE LET s1 == [s EXCEPT !.slow = FALSE] IN
         IF s.inb \/ s.out = "up" THEN Add(s1, {CGater})
         ELSE IF DevD14 THEN Flag(Add(s1, {CGater}), "D14") ELSE Flag(s1, "D14")

Pre(s, e, k) ==
    CASE e = "ConnUp"    -> ~s.conn
      [] e = "OutUp"     -> s.out = "pend"
      [] e = "OutFail"   -> s.out = "pend"
      \* (generated lifecycles avoid a reset whose outcome - respawn or give-up - hinges on the disconnect race above)
      [] e = "OutReset"  -> s.out = "up" /\ (s.attHi < MaxRespawns \/ s.attLo >= MaxRespawns)
      [] e = "InUp"      -> s.conn /\ ~s.inb
      [] e = "InDup"     -> s.inb
      [] e = "InReset"   -> s.inb
      [] e = "InEOF"     -> s.inb
      [] e = "Send"      -> s.inb /\ k \in SendKinds
      [] e = "Blacklist" -> s.conn /\ ~s.bl
      [] e = "ConnDown"  -> s.conn
      [] OTHER           -> FALSE

SendEv(s, k) ==
    LET s0 == Add(s, {CExt} \cup (IF k \in CtlKinds THEN {"gs.peerhave"} ELSE {})) IN   \* extensions.HandleRPC records the first RPC of any peer
    CASE k = "sub1"   -> [s0 EXCEPT !.subs = @ \cup {"t1"}]
      [] k = "sub2"   -> [s0 EXCEPT !.subs = @ \cup {"t2"}]
      [] k = "unsub1" -> [s0 EXCEPT !.subs = @ \ {"t1"}]
      [] k = "graft"  -> \* handleGraft; intended (D6 repaired): only a peer with an outbound stream is admitted
            \* and not a direct peer, not a peer with a negative score, not a peer that dialled us when the mesh is full: those
            \* are answered with a PRUNE (and a backoff), the Graft trace event - protection, score inMesh - is not fired
            IF s.refuse \/ (s.neg /\ s.out = "up")
              THEN IF DevRefusedGraft THEN Flag(Add(s0, {"gs.backoff", CProt}), "RG") ELSE Add(s0, {"gs.backoff"})
              ELSE LET adm == s.out = "up" \/ DevD6
                       s1  == Add(s0, {"gs.backoff"} \cup (IF adm THEN {CMesh, CProt} ELSE {}))
                   IN  IF s.out # "up" THEN Flag(s1, "D6") ELSE s1
      [] k = "graftx" -> s0       \* GRAFT for a topic the node has not joined: ignored
      [] k \in {"prune", "prunepx"} -> \* handlePrune: out of the mesh, tracer.Prune unprotects (also ends a D6 / D7 situation)
            [Add(Del(s0, {CMesh, CProt}), {"gs.backoff"}) EXCEPT !.dev = @ \ {"D6", "D7", "RG"}]
      [] k = "pgflood" -> \* a PRUNE and then GRAFTs inside the backoff while the peer does not read: the node's PRUNE replies
                          \* overflow its outbound queue and are kept for retry in gs.control (a queue exists while pend / up)
            [Add(Del(s0, {CMesh, CProt}), {"gs.backoff"} \cup (IF s.out \in {"pend", "up"} THEN {"gs.control"} ELSE {}))
               EXCEPT !.dev = @ \ {"D6", "D7", "RG"}]
      [] k = "ihave"  -> Add(s0, {"gs.iasked", "gossipTracer.promises", "gossipTracer.peerPromises"})
      [] k = "iwant"  -> Add(s0, {"gs.mcache.peertx"})
      [] k = "idontwant" -> Add(s0, {"gs.unwanted", "gs.peerdontwant"})
      [] k = "ext"    -> s0
      [] k \in {"pubv", "pubi"} -> Add(s0, {CGater, "score.deliveries.peers", "tagTracer.nearFirst"})
      [] k = "pubslow" -> \* (a blacklisted sender's message is rejected at once, without validation)
            [Add(s0, {"score.deliveries.peers", "tagTracer.nearFirst"} \cup (IF s.bl THEN {CGater} ELSE {})) EXCEPT !.slow = @ \/ ~s.bl]

\* handlePeerDead -> handleDeadPeers; still connected: the writer is respawned with backoff - unless the peer has used up
\* its backoff attempts (backoff.go), in which case the node gives the peer up until the next connection
OutResetEv(s, respawn) ==
    LET s1 == [OutDown(s) EXCEPT !.attLo = @ + 1, !.attHi = @ + 1] IN
    IF respawn THEN [Add(s1, {"pubsub.peers", "pubsub.deadPeerBackoff"}) EXCEPT !.out = "pend"]
               ELSE \* given up: no queue, no writer, nothing in flight (intended; DevGiveUp leaves the queue behind)
                    [Add(s1, {"pubsub.deadPeerBackoff"} \cup (IF DevGiveUp THEN {"pubsub.peers"} ELSE {})) EXCEPT !.out = "none"]

PeerEv(s, e, k) ==
    CASE e = "ConnUp"   -> \* identify completes -> handlePendingPeers: queue + NewStream in flight (not for a blacklisted peer)
            IF s.bl THEN [s EXCEPT !.conn = TRUE]
            ELSE [Add(s, {"pubsub.peers"}) EXCEPT !.conn = TRUE, !.out = "pend"]
      [] e = "OutUp"    -> \* newPeerStream -> rt.OnNewOutboundStream
            [Add(s, OutUpKeys \cup (IF s.proto = "v13" THEN {CSent} ELSE {})) EXCEPT !.out = "up"]
      [] e = "OutFail"  -> \* newPeerError
            [Del(s, {"pubsub.peers"}) EXCEPT !.out = "failed"]
      [] e = "OutReset" -> OutResetEv(s, s.attHi < MaxRespawns)      \* the 5th death within the TTL is not respawned
      [] e = "InUp"     -> [Add(s, {"pubsub.inboundStreams"}) EXCEPT !.inb = TRUE]
      [] e = "InDup"    -> InDown(s, FALSE)        \* the replaced stream's handler reports ClosedStream
      [] e \in {"InReset", "InEOF"} -> [InDown(s, TRUE) EXCEPT !.inb = FALSE]
      [] e = "Send"     -> SendEv(s, k)
      [] e = "Blacklist" ->
            IF s.out \in {"pend", "up"} THEN [OutDown(s) EXCEPT !.bl = TRUE, !.out = "none"]
            ELSE [s EXCEPT !.bl = TRUE]
      [] e = "ConnDown" ->
            \* (the node may see its stream die before the connection is reported closed: handleDeadPeers then
            \*  records a dead-peer backoff entry and respawns the writer, whose NewStream fails)
            LET s1 == IF s.out = "up" THEN [Add(OutDown(s), {"pubsub.deadPeerBackoff"}) EXCEPT !.attHi = @ + 1]
                                      ELSE IF DevGiveUp /\ s.out = "none" THEN s     \* (nothing ever removes a queue left behind)
                                      ELSE Del(s, {"pubsub.peers"})
                s2 == [s1 EXCEPT !.out = "none"]
                s3 == IF s.inb THEN InDown(s2, TRUE) ELSE s2
            IN  [s3 EXCEPT !.conn = FALSE, !.inb = FALSE]

\* heartbeat: the node may graft a subscribed peer it has a stream to, may prune it again, keeps its fanout filled
HbEv(s, pd) ==
    IF s.out # "up" THEN s
    ELSE Add(s, (IF "t1" \in s.subs THEN {CMesh, CProt, "gs.backoff"} ELSE {})
                \cup (IF "t2" \in s.subs /\ pd THEN {"gs.fanout"} ELSE {})
                \cup (IF s.subs # {} THEN {"gs.gossip"} ELSE {}))
\* the node publishes on t2 (not joined): fanout is chosen among the subscribed peers it has a stream to
PubEv(s) == IF s.out = "up" /\ "t2" \in s.subs THEN Add(s, {"gs.fanout"}) ELSE s
\* all retention periods pass
ElapseEv(s) == Del(ValDone(s), Timed)

GlobalEv(s, e, pd) ==
    CASE e = "NodePub" -> PubEv(s)
      [] e = "Hb"      -> HbEv(s, pd)
      [] e = "Wait"    -> HbEv(ValDone(s), pd)
      [] e = "Elapse"  -> ElapseEv(s)

(* ------------------------------------------------------------------ machine *)
Init == /\ router \in Routers
        /\ ps \in [Peers -> {x \in {InitPeer(pr, po, rf, ng) : pr \in Protos, po \in BOOLEAN, rf \in BOOLEAN, ng \in BOOLEAN} : ~(x.neg /\ x.pos)}]
        /\ pubd = FALSE /\ elapsed = FALSE /\ hist = <<>>

AllGone == \A p \in Peers : Gone(ps[p])
SomeConn == \E p \in Peers : ps[p].conn

DoPeer(p, e, k) ==
    /\ Pre(ps[p], e, k)
    /\ ps' = [ps EXCEPT ![p] = PeerEv(ps[p], e, k)]
    /\ hist' = Append(hist, [e |-> e, p |-> p, k |-> k])
    /\ UNCHANGED <<router, pubd, elapsed>>

DoGlobal(e) ==
    /\ SomeConn
    /\ e = "Wait" => \E p \in Peers : ps[p].slow
    /\ ps' = [p \in Peers |-> GlobalEv(ps[p], e, pubd \/ e = "NodePub")]
    /\ pubd' = (pubd \/ e = "NodePub")
    /\ hist' = Append(hist, [e |-> e, p |-> "", k |-> ""])
    /\ UNCHANGED <<router, elapsed>>

Elapse ==
    /\ AllGone /\ ~elapsed /\ Len(hist) > 0
    /\ ps' = [p \in Peers |-> ElapseEv(ps[p])]
    /\ elapsed' = TRUE
    /\ UNCHANGED <<router, pubd, hist>>

Next ==
    \/ /\ ~elapsed /\ Len(hist) < MaxLen
       /\ \/ \E p \in Peers : \E e \in PeerEvents \ {"Send"} : DoPeer(p, e, "")
          \/ \E p \in Peers : \E k \in SendKinds : DoPeer(p, "Send", k)
          \/ \E e \in GlobalEvents : DoGlobal(e)
    \/ Elapse

Spec == Init /\ [][Next]_vars

\* The respawn budget needs 12 events (ConnUp OutUp (OutReset OutUp)x4 OutReset ConnDown): a second machine over a small
\* alphabet whose lifecycles march straight to the third death of the outbound stream and branch only from there on.
RespawnKinds == {"graft", "sub1", "idontwant"}
NextR ==
    \/ /\ ~elapsed /\ Len(hist) < MaxLen
       /\ \E p \in Peers :
            LET late == ps[p].attLo >= MaxRespawns - 1 IN
            \/ Len(hist) = 0 /\ DoPeer(p, "ConnUp", "")
            \/ \E e \in {"OutUp", "OutReset", "ConnDown"} : DoPeer(p, e, "")
            \/ late /\ \E e \in {"InUp", "InReset", "OutFail"} : DoPeer(p, e, "")
            \/ late /\ \E k \in RespawnKinds : DoPeer(p, "Send", k)
    \/ Elapse
SpecR == Init /\ [][NextR]_vars

(* ------------------------------------------------------------------ properties *)
TypeOK ==
    /\ router \in Routers /\ pubd \in BOOLEAN /\ elapsed \in BOOLEAN
    /\ \A p \in Peers :
         /\ ps[p].out \in {"none", "pend", "up", "failed"}
         /\ ps[p].K \subseteq Containers \ {CTopics}
         /\ ps[p].subs \subseteq {"t1", "t2"}
         /\ (ps[p].out \in {"pend", "up"} \/ ps[p].inb) => ps[p].conn       \* streams need a connection
         /\ ps[p].out \in {"pend", "up"} => ~ps[p].bl

\* the property: gone and retention elapsed => no key
P_C13 == elapsed => \A p \in Peers : Gone(ps[p]) => KeysOf(ps[p], router) = {}
\* containers emptied at once: whenever the stream / connection they belong to is gone
P_C13_Immediate ==
    \A p \in Peers :
      \* (IDONTWANT ids received without an outbound stream, and control kept for retry while NewStream was still
      \*  in flight, are not tied to a stream close: they expire with the next heartbeats)
      /\ Gone(ps[p]) => KeysOf(ps[p], router) \cap (Immediate \ {"gs.unwanted", "gs.control"}) = {}
      /\ ps[p].out # "up" => KeysOf(ps[p], router) \cap {"gs.peers", "gs.outbound", "gs.fanout", CMesh, "randomsub.peers"} = {}
      /\ ~ps[p].inb => KeysOf(ps[p], router) \cap {CTopics, "pubsub.inboundStreams"} = {}

MCView == <<ps, router, pubd, elapsed, Len(hist)>>

\* generator: every complete lifecycle (everything down again, last event a disconnect) is printed once
Emit == (AllGone /\ ~elapsed /\ Len(hist) > 0 /\ hist[Len(hist)].e = "ConnDown")
           => PrintT(<<"SCN", ToJson([evs |-> hist])>>)
\* generator runs do not care about protocol or score: one initial state
GenInit == /\ router = "gossipsub"
           /\ ps = [p \in Peers |-> InitPeer("v11", FALSE, FALSE, FALSE)]
           /\ pubd = FALSE /\ elapsed = FALSE /\ hist = <<>>
GenNext == ~elapsed /\ Next /\ ~elapsed'
GenSpec == GenInit /\ [][GenNext]_vars
GenNextR == ~elapsed /\ NextR /\ ~elapsed'
GenSpecR == GenInit /\ [][GenNextR]_vars
=============================================================================
