SPECIFICATION Spec
CONSTANTS
  Peers = {"p1"}
  Protos = {"flood", "v10", "v11", "v12", "v13"}
  Routers = {"gossipsub", "floodsub", "randomsub"}
  MaxLen = 6
  DevD5 = TRUE
  DevD6 = TRUE
  DevD7 = TRUE
  DevD14 = TRUE
  DevGiveUp = FALSE
  DevRefusedGraft = FALSE
INVARIANT P_C13
VIEW MCView
CHECK_DEADLOCK FALSE
