SPECIFICATION TraceSpec
CONSTANTS
  Peers = {"p1", "p2"}
  Protos = {"flood", "random", "v10", "v11", "v12", "v13"}
  Routers = {"gossipsub", "floodsub", "randomsub"}
  MaxLen = 0
  DevD5 = FALSE
  DevD6 = FALSE
  DevD7 = FALSE
  DevD14 = FALSE
  DevGiveUp = FALSE
  DevRefusedGraft = FALSE
CONSTRAINT HW
POSTCONDITION Accepted
CHECK_DEADLOCK FALSE
