SPECIFICATION GenSpec
CONSTANTS
  Peers = {"p1"}
  Protos = {"v11"}
  Routers = {"gossipsub"}
  MaxLen = 5
  DevD5 = FALSE
  DevD6 = FALSE
  DevD7 = FALSE
  DevD14 = FALSE
  DevGiveUp = FALSE
  DevRefusedGraft = FALSE
INVARIANT Emit
CHECK_DEADLOCK FALSE
