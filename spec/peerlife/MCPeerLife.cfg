SPECIFICATION Spec
CONSTANTS
  Peers = {"p1"}
  Protos = {"flood", "v10", "v11", "v12", "v13"}
  Routers = {"gossipsub", "floodsub", "randomsub"}
  MaxLen = 8
  DevD5 = FALSE
  DevD6 = FALSE
  DevD7 = FALSE
  DevD14 = FALSE
  DevGiveUp = FALSE
  DevRefusedGraft = FALSE
INVARIANTS TypeOK P_C13 P_C13_Immediate
VIEW MCView
CHECK_DEADLOCK FALSE
