----------------------------- MODULE RpcQueue -----------------------------
(* rpc_queue.go at the grain of its critical sections: one mutex (queueMu),
   two condition variables (dataAvailable = WD, spaceAvailable = WS), the
   context.AfterFunc goroutine of Pop, Close.  One action per step between
   lock/unlock/wait points.  Property C15.

   BroadcastUnderLock = FALSE is the code as found at the pinned commit: the
   AfterFunc broadcasts dataAvailable WITHOUT holding queueMu, so a cancel
   that lands between Pop's context check and its Wait() is lost (defect D11).
   BroadcastUnderLock = TRUE is the repaired code.

   Variant = "none" is the code as it stands.  Every other value is ONE
   single-line slip of rpc_queue.go (a seeded change that was or could be made).
   Each of them must make a named property fail on a small configuration
   (MCRpcQueue.tla, bin/lib/props/c15.py: MUST_FAIL) while "none" passes on the
   same configuration: the properties are not vacuous, and the table in c15.py
   names the forced / burst scenario of the drivers that exposes the slip in
   the real code.
     "afterfunc-signal"   AfterFunc: Signal instead of Broadcast             (seeded a1)
     "push-if"            push: `if` instead of `for` around the wait        (seeded a2)
     "popsig-transition"  Pop signals spaceAvailable only on full -> full-1  (seeded b1)
     "pushsig-transition" push signals dataAvailable only on empty -> 1
     "popsig-none", "pushsig-none"      the Signal is missing altogether
     "popsig-data", "pushsig-space"     the Signal goes to the other condition
     "close-nolock"       Close without queueMu                              (seeded b2)
     "close-signal"       Close: Signal instead of Broadcast (both conditions)
     "close-nodata", "close-nospace"    Close forgets one of the two broadcasts
     "pop-norecheck", "push-norecheck"  no `closed` re-check after a wake-up
     "pop-if"             Pop: `if` instead of `for` around the wait
     "pop-ctxonce"        Pop checks its context before the loop only
     "pop-normalfirst"    priorityQueue.Pop serves the normal class first
     "len-normalonly"     priorityQueue.Len forgets the urgent class           *)
EXTENDS Naturals, Sequences, FiniteSets, TLC

CONSTANTS Cap,                 \* queue capacity
          Pushers,             \* set of pusher process ids
          Poppers,             \* set of popper process ids
          Script,              \* Script[p] = sequence of [x, urgent, block] a pusher performs
          NPops,               \* NPops[j]  = number of Pop calls popper j performs (one ctx per popper)
          CanCancel,           \* set of poppers whose context may be cancelled
          CanClose,            \* BOOLEAN: may Close() be called
          BroadcastUnderLock,  \* see above
          Variant              \* see above

VARIABLES normal, prio, closed,    \* the queue proper
          mu,                      \* lock owner, or "none"
          WD, WS,                  \* wait sets of the two conditions
          pc,                      \* control point of each process
          k,                       \* k[p] = index of the current operation of p
          ctxDone,                 \* ctxDone[j]: popper j's context is cancelled
          afReg,                   \* afReg[j]: AfterFunc registered and not yet stopped/fired
          res                      \* res[p] = sequence of results so far

Q == INSTANCE RpcQueueSeq WITH cap <- Cap

vars == <<normal, prio, closed, mu, WD, WS, pc, k, ctxDone, afReg, res>>
Procs == Pushers \cup Poppers
Items == UNION {{Script[p][i].x : i \in 1..Len(Script[p])} : p \in Pushers}

Init ==
    /\ Q!QInit
    /\ mu = "none" /\ WD = {} /\ WS = {}
    /\ pc = [p \in Procs |-> "idle"]
    /\ k = [p \in Procs |-> 1]
    /\ ctxDone = [j \in Poppers |-> FALSE]
    /\ afReg = [j \in Poppers |-> FALSE]
    /\ res = [p \in Procs |-> <<>>]

Goto(p, l) == pc' = [pc EXCEPT ![p] = l]
Result(p, r) == res' = [res EXCEPT ![p] = Append(@, r)]
\* Signal wakes one waiter (if any), which one is not specified
SignalSet(W) == IF W = {} THEN {{}} ELSE {W \ {w} : w \in W}
\* priorityQueue.Len() as the code computes it
ImplLen == IF Variant = "len-normalonly" THEN Len(normal) ELSE Q!QLen

--------------------------------------------------------------------------
(* push(rpc, urgent, block) *)
Cur(p) == Script[p][k[p]]
HasOp(p) == IF p \in Pushers THEN k[p] <= Len(Script[p]) ELSE k[p] <= NPops[p]

U_Lock(p) ==   \* q.queueMu.Lock()
    /\ p \in Pushers /\ pc[p] = "idle" /\ HasOp(p) /\ mu = "none"
    /\ mu' = p /\ Goto(p, "u_chk")
    /\ UNCHANGED <<normal, prio, closed, WD, WS, k, ctxDone, afReg, res>>

U_Done(p, r) ==  \* common tail: report r, unlock, next operation
    /\ Result(p, r) /\ mu' = "none" /\ Goto(p, "idle") /\ k' = [k EXCEPT ![p] = @ + 1]

U_Chk(p) ==    \* if q.closed { panic }
    /\ pc[p] = "u_chk" /\ mu = p
    /\ IF closed
         THEN U_Done(p, "pushclosed") /\ UNCHANGED <<normal, prio, closed, WD, WS, ctxDone, afReg>>
         ELSE Goto(p, "u_loop") /\ UNCHANGED <<normal, prio, closed, mu, WD, WS, k, ctxDone, afReg, res>>

\* append to the class; dataAvailable.Signal(); return nil
U_Append(p) ==
    /\ IF Cur(p).urgent THEN prio' = Append(prio, Cur(p).x) /\ UNCHANGED normal
                        ELSE normal' = Append(normal, Cur(p).x) /\ UNCHANGED prio
    /\ CASE Variant = "pushsig-none" -> UNCHANGED <<WD, WS>>
         [] Variant = "pushsig-transition" /\ Q!QLen # 0 -> UNCHANGED <<WD, WS>>   \* only when the queue was empty
         [] Variant = "pushsig-space" -> (\E W \in SignalSet(WS) : WS' = W) /\ UNCHANGED WD
         [] OTHER -> (\E W \in SignalSet(WD) : WD' = W) /\ UNCHANGED WS       \* dataAvailable.Signal()
    /\ U_Done(p, "ok")
    /\ UNCHANGED <<closed, ctxDone, afReg>>

U_Loop(p) ==   \* for Len == maxSize { if block { (schedule point) Wait ... } else return ErrQueueFull }
    /\ pc[p] \in {"u_loop", "u_append"} /\ mu = p
    /\ IF pc[p] = "u_loop" /\ ImplLen = Cap       \* NB the code tests equality, not >=
         THEN IF Cur(p).block
                THEN \* about to wait: the schedule point of the hook rpcqueue.push.beforeWait
                     Goto(p, "u_beforewait") /\ UNCHANGED <<normal, prio, closed, mu, WD, WS, k, ctxDone, afReg, res>>
                ELSE U_Done(p, "full") /\ UNCHANGED <<normal, prio, closed, WD, WS, ctxDone, afReg>>
         ELSE U_Append(p)

U_Wait(p) ==   \* spaceAvailable.Wait(): join the wait set and release the lock atomically
    /\ pc[p] = "u_beforewait" /\ mu = p
    /\ WS' = WS \cup {p} /\ mu' = "none" /\ Goto(p, "u_waiting")
    /\ UNCHANGED <<normal, prio, closed, WD, k, ctxDone, afReg, res>>

U_Wake(p) ==   \* return from Wait(): re-acquire the lock once signalled; "if q.closed { panic }"; loop
    /\ pc[p] = "u_waiting" /\ p \notin WS /\ mu = "none"
    /\ IF closed /\ Variant # "push-norecheck"
         THEN U_Done(p, "pushclosed") /\ UNCHANGED <<normal, prio, closed, WD, WS, ctxDone, afReg>>
         ELSE /\ mu' = p /\ Goto(p, IF Variant = "push-if" THEN "u_append" ELSE "u_loop")
              /\ UNCHANGED <<normal, prio, closed, WD, WS, k, ctxDone, afReg, res>>

--------------------------------------------------------------------------
(* Pop(ctx) *)
P_Lock(j) ==
    /\ j \in Poppers /\ pc[j] = "idle" /\ HasOp(j) /\ mu = "none"
    /\ mu' = j /\ Goto(j, "p_chkclosed")
    /\ UNCHANGED <<normal, prio, closed, WD, WS, k, ctxDone, afReg, res>>

P_Done(j, r) ==  \* deferred: unregisterAfterFunc(); Unlock()
    /\ Result(j, r) /\ mu' = "none" /\ Goto(j, "idle") /\ k' = [k EXCEPT ![j] = @ + 1]
    /\ afReg' = [afReg EXCEPT ![j] = FALSE]

P_ChkClosed(j) ==  \* if q.closed return ErrQueueClosed ; register AfterFunc
    /\ pc[j] = "p_chkclosed" /\ mu = j
    /\ IF closed
         THEN P_Done(j, "closed") /\ UNCHANGED <<normal, prio, closed, WD, WS, ctxDone>>
         ELSE IF Variant = "pop-ctxonce" /\ ctxDone[j] /\ ImplLen = 0
           THEN P_Done(j, "cancelled") /\ UNCHANGED <<normal, prio, closed, WD, WS, ctxDone>>
           ELSE /\ afReg' = [afReg EXCEPT ![j] = TRUE] /\ Goto(j, "p_loop")
                /\ UNCHANGED <<normal, prio, closed, mu, WD, WS, k, ctxDone, res>>

\* rpc := q.queue.Pop(); spaceAvailable.Signal(); return rpc
P_Take(j) ==
    /\ IF Q!QLen = 0
         THEN P_Done(j, "nil") /\ UNCHANGED <<normal, prio>>         \* priorityQueue.Pop on an empty queue yields nil
         ELSE IF (prio # <<>> /\ Variant # "pop-normalfirst") \/ normal = <<>>
                THEN prio' = Tail(prio) /\ UNCHANGED normal /\ P_Done(j, Head(prio))
                ELSE normal' = Tail(normal) /\ UNCHANGED prio /\ P_Done(j, Head(normal))
    /\ CASE Variant = "popsig-none" -> UNCHANGED <<WD, WS>>
         [] Variant = "popsig-transition" /\ Q!QLen # Cap -> UNCHANGED <<WD, WS>>   \* only when the queue was full
         [] Variant = "popsig-data" -> (\E W \in SignalSet(WD) : WD' = W) /\ UNCHANGED WS
         [] OTHER -> (\E W \in SignalSet(WS) : WS' = W) /\ UNCHANGED WD        \* spaceAvailable.Signal()
    /\ UNCHANGED <<closed, ctxDone>>

P_Loop(j) ==   \* for Len == 0 { select ctx.Done ... (schedule point) Wait ... }
    /\ pc[j] \in {"p_loop", "p_take"} /\ mu = j
    /\ IF pc[j] = "p_loop" /\ ImplLen = 0
         THEN IF ctxDone[j] /\ Variant # "pop-ctxonce"
                THEN P_Done(j, "cancelled") /\ UNCHANGED <<normal, prio, closed, WD, WS, ctxDone>>
                ELSE \* context checked, about to wait: the schedule point of the hook rpcqueue.pop.beforeWait
                     Goto(j, "p_beforewait") /\ UNCHANGED <<normal, prio, closed, mu, WD, WS, k, ctxDone, afReg, res>>
         ELSE P_Take(j)

P_Wait(j) ==   \* dataAvailable.Wait(): join the wait set and release the lock atomically
    /\ pc[j] = "p_beforewait" /\ mu = j
    /\ WD' = WD \cup {j} /\ mu' = "none" /\ Goto(j, "p_waiting")
    /\ UNCHANGED <<normal, prio, closed, WS, k, ctxDone, afReg, res>>

P_Wake(j) ==   \* signalled: re-acquire; "if q.closed return ErrQueueClosed"; loop
    /\ pc[j] = "p_waiting" /\ j \notin WD /\ mu = "none"
    /\ IF closed /\ Variant # "pop-norecheck"
         THEN P_Done(j, "closed") /\ UNCHANGED <<normal, prio, closed, WD, WS, ctxDone>>
         ELSE /\ mu' = j /\ Goto(j, IF Variant = "pop-if" THEN "p_take" ELSE "p_loop")
              /\ UNCHANGED <<normal, prio, closed, WD, WS, k, ctxDone, afReg, res>>

(* the goroutine context.AfterFunc starts once the context is done *)
AfterFunc(j) ==
    /\ j \in Poppers /\ ctxDone[j] /\ afReg[j]
    /\ BroadcastUnderLock => mu = "none"      \* repaired code: Lock(); Broadcast(); Unlock()
    /\ IF Variant = "afterfunc-signal"
         THEN \E W \in SignalSet(WD) : WD' = W
         ELSE WD' = {}                         \* dataAvailable.Broadcast()
    /\ afReg' = [afReg EXCEPT ![j] = FALSE]    \* runs once
    /\ UNCHANGED <<normal, prio, closed, mu, WS, pc, k, ctxDone, res>>

--------------------------------------------------------------------------
(* environment *)
Cancel(j) ==
    /\ j \in CanCancel /\ ~ctxDone[j]
    /\ ctxDone' = [ctxDone EXCEPT ![j] = TRUE]
    /\ UNCHANGED <<normal, prio, closed, mu, WD, WS, pc, k, afReg, res>>

Close ==   \* Lock(); closed = true; Broadcast both; Unlock()
    /\ CanClose /\ ~closed
    /\ Variant # "close-nolock" => mu = "none"
    /\ closed' = TRUE
    /\ CASE Variant = "close-signal" -> \E W \in SignalSet(WD) : WD' = W
         [] Variant = "close-nodata" -> UNCHANGED WD
         [] OTHER -> WD' = {}
    /\ CASE Variant = "close-signal" -> \E W \in SignalSet(WS) : WS' = W
         [] Variant = "close-nospace" -> UNCHANGED WS
         [] OTHER -> WS' = {}
    /\ UNCHANGED <<normal, prio, mu, pc, k, ctxDone, afReg, res>>

ProcStep(p) == U_Lock(p) \/ U_Chk(p) \/ U_Loop(p) \/ U_Wait(p) \/ U_Wake(p)
               \/ P_Lock(p) \/ P_ChkClosed(p) \/ P_Loop(p) \/ P_Wait(p) \/ P_Wake(p)

Next == (\E p \in Procs : ProcStep(p)) \/ (\E j \in Poppers : AfterFunc(j) \/ Cancel(j)) \/ Close

Fairness == /\ \A p \in Procs : WF_vars(ProcStep(p))
            /\ \A j \in Poppers : WF_vars(AfterFunc(j))

Spec == Init /\ [][Next]_vars /\ Fairness

--------------------------------------------------------------------------
(* properties *)
TypeOK == /\ mu \in Procs \cup {"none"}
          /\ WD \subseteq Poppers /\ WS \subseteq Pushers
          /\ closed \in BOOLEAN

P_C15_Bounded == Q!P_C15_Bounded

\* a process in a wait set is parked at the matching control point
WaitSetsSound == /\ \A j \in WD : pc[j] = "p_waiting"
                 /\ \A p \in WS : pc[p] = "u_waiting"

\* refinement: the abstract queue only ever changes by a step of the sequential spec
P_C15_Refines == [][Q!SeqNext(Items)]_<<normal, prio, closed>>

\* results are the ones the sequential spec allows at the instant they are produced
LastRes(p) == res'[p][Len(res'[p])]
P_C15_Results == [][\A p \in Procs : res'[p] # res[p] =>
        IF p \in Pushers
          THEN \/ LastRes(p) = "pushclosed" /\ closed
               \/ LastRes(p) = "full" /\ ~closed /\ Q!QLen = Cap /\ ~Cur(p).block
               \/ LastRes(p) = "ok" /\ ~closed /\ Q!QLen < Cap
          ELSE \/ LastRes(p) = "closed" /\ closed
               \/ LastRes(p) = "cancelled" /\ ~closed /\ Q!QLen = 0 /\ ctxDone[p]
               \/ ~closed /\ Q!QLen > 0 /\ LastRes(p) = (IF prio # <<>> THEN Head(prio) ELSE Head(normal))
    ]_vars

\* liveness (under weak fairness of every process step)
Busy(p) == pc[p] # "idle"
P_C15_CancelledPopReturns == \A j \in Poppers : (ctxDone[j] /\ Busy(j)) ~> ~Busy(j)
P_C15_CloseReleasesAll    == \A p \in Procs : (closed /\ Busy(p)) ~> ~Busy(p)
\* a blocked operation resumes when space/data arrives (unless somebody else used it up first)
P_C15_BlockedPushResumes  == \A p \in Pushers : (pc[p] = "u_waiting" /\ Q!QLen < Cap) ~> (pc[p] # "u_waiting" \/ Q!QLen = Cap)
P_C15_BlockedPopResumes   == \A j \in Poppers : (pc[j] = "p_waiting" /\ Q!QLen > 0) ~> (pc[j] # "p_waiting" \/ Q!QLen = 0)
=============================================================================
