-------------------------- MODULE GenRpcQueueSeq --------------------------
(* Scenario generator for C15: every sequence of queue operations up to a
   bounded length, for one capacity, with at most MaxBlocked calls blocked at
   a time.  Only the *inputs* are emitted; the results are whatever the real
   queue does and are judged by RpcQueueTrace.  The little count-based model
   here exists to know how many calls are blocked.

   Bursts (MaxBurst > 1): an operation may be glued to the one before it
   (g = TRUE): the driver then runs both back to back in ONE goroutine on one
   P, so that the waiters woken by the first (Signal / Broadcast only marks
   them runnable) have NOT run yet when the second executes.  This is where a
   lost or mis-counted wake-up shows (two pops before the pusher woken by the
   first re-acquires the lock, a push that steals the slot freed for a woken
   pusher, ...).  The model therefore separates an operation from the
   resolution of the waiters it wakes: Resolve steps drain them one at a time
   and an operation that is not glued requires that nothing is left to
   resolve (the driver waits for quiescence there).  Gluing is offered exactly
   when it matters: waiters are pending and the previous operation returned.
   Fills: the queue starts with that many normal items (the driver pushes them
   first), so that interesting positions are reached within the length bound. *)
EXTENDS Naturals, Sequences, FiniteSets, TLC, Json

CONSTANTS Cap, L, MaxBlocked, MaxBurst, Fills

VARIABLES n, p,          \* number of normal / urgent items queued
          closed,
          bpN, bpU,      \* blocked pushes (normal / urgent)
          bpop,          \* bpop[c] = blocked pops using context c
          cctx,          \* cancelled contexts
          hist,
          blen,          \* operations in the burst that may still be extended (0: none)
          fill,          \* initial number of normal items
          tags           \* what the model believes the scenario exercises (used to stratify sampling)

vars == <<n, p, closed, bpN, bpU, bpop, cctx, hist, blen, fill, tags>>
Ctx == {1, 2}

Init == /\ fill \in Fills /\ n = fill /\ p = 0 /\ closed = FALSE /\ bpN = 0 /\ bpU = 0
        /\ bpop = [c \in Ctx |-> 0] /\ cctx = {} /\ hist = <<>> /\ blen = 0 /\ tags = {}

Blocked == bpN + bpU + bpop[1] + bpop[2]
LivePops == (IF 1 \in cctx THEN 0 ELSE bpop[1]) + (IF 2 \in cctx THEN 0 ELSE bpop[2])

(* --- resolution of woken waiters, one at a time, in any order --- *)
RPop(c) ==   \* a blocked pop returns: closed, an item (urgent first), or cancelled
    /\ bpop[c] > 0
    /\ \/ closed /\ UNCHANGED <<n, p>>
       \/ ~closed /\ n + p > 0 /\ IF p > 0 THEN p' = p - 1 /\ n' = n ELSE n' = n - 1 /\ p' = p
       \/ ~closed /\ n + p = 0 /\ c \in cctx /\ UNCHANGED <<n, p>>
    /\ bpop' = [bpop EXCEPT ![c] = @ - 1]
    /\ UNCHANGED <<bpN, bpU>>
RPushN == /\ bpN > 0 /\ (closed \/ n + p < Cap)
          /\ bpN' = bpN - 1 /\ n' = (IF closed THEN n ELSE n + 1)
          /\ UNCHANGED <<p, bpU, bpop>>
RPushU == /\ bpU > 0 /\ (closed \/ n + p < Cap)
          /\ bpU' = bpU - 1 /\ p' = (IF closed THEN p ELSE p + 1)
          /\ UNCHANGED <<n, bpN, bpop>>
Resolve == /\ (\E c \in Ctx : RPop(c)) \/ RPushN \/ RPushU
           /\ blen' = 0
           /\ UNCHANGED <<closed, cctx, hist, fill, tags>>
Pending == \/ \E c \in Ctx : bpop[c] > 0 /\ (closed \/ n + p > 0 \/ c \in cctx)
           \/ (bpN > 0 \/ bpU > 0) /\ (closed \/ n + p < Cap)     \* = ENABLED Resolve

(* --- operations --- *)
\* g: glued to the previous operation (same goroutine, no quiescence in between)
CanGlue == blen >= 1 /\ blen < MaxBurst /\ Pending
Glue(g) == IF g THEN CanGlue ELSE ~Pending
Rec(o, g, blocks) ==
    /\ hist' = Append(hist, [op |-> o.op, u |-> o.u, b |-> o.b, c |-> o.c, g |-> g])
    /\ blen' = IF blocks THEN 0 ELSE (IF g THEN blen + 1 ELSE 1)   \* an operation that blocks ends its burst
LastOp == IF hist = <<>> THEN "" ELSE hist[Len(hist)].op

Push(u, b, g) ==
    /\ Glue(g)
    /\ LET accepted == ~closed /\ n + p < Cap
           blocks == ~closed /\ n + p = Cap /\ b IN
       /\ blocks => Blocked < MaxBlocked
       /\ Rec([op |-> "push", u |-> u, b |-> b, c |-> 0], g, blocks)
       /\ IF accepted THEN IF u THEN p' = p + 1 /\ n' = n ELSE n' = n + 1 /\ p' = p
                      ELSE UNCHANGED <<n, p>>
       /\ IF blocks THEN IF u THEN bpU' = bpU + 1 /\ UNCHANGED bpN ELSE bpN' = bpN + 1 /\ UNCHANGED bpU
                    ELSE UNCHANGED <<bpN, bpU>>
       /\ tags' = IF g /\ accepted /\ LastOp = "push" /\ LivePops >= 2 THEN tags \cup {"uu"}
                  ELSE IF g /\ accepted /\ LastOp = "pop" /\ bpN + bpU >= 1 THEN tags \cup {"stealspace"}
                  ELSE tags
    /\ UNCHANGED <<closed, bpop, cctx, fill>>

Pop(c, g) ==
    /\ Glue(g)
    /\ LET takes == ~closed /\ n + p > 0
           blocks == ~closed /\ n + p = 0 /\ c \notin cctx IN
       /\ blocks => Blocked < MaxBlocked
       /\ Rec([op |-> "pop", u |-> FALSE, b |-> FALSE, c |-> c], g, blocks)
       /\ IF takes THEN IF p > 0 THEN p' = p - 1 /\ n' = n ELSE n' = n - 1 /\ p' = p
                   ELSE UNCHANGED <<n, p>>
       /\ bpop' = IF blocks THEN [bpop EXCEPT ![c] = @ + 1] ELSE bpop
       /\ tags' = IF g /\ takes /\ LastOp = "pop" /\ bpN + bpU >= 2 THEN tags \cup {"pp"}
                  ELSE IF g /\ takes /\ LastOp = "push" /\ LivePops >= 1 THEN tags \cup {"stealdata"}
                  ELSE tags
    /\ UNCHANGED <<closed, bpN, bpU, cctx, fill>>

Cancel(c, g) ==
    /\ Glue(g)
    /\ c \notin cctx
    /\ Rec([op |-> "cancel", u |-> FALSE, b |-> FALSE, c |-> c], g, FALSE)
    /\ cctx' = cctx \cup {c}
    /\ UNCHANGED <<n, p, closed, bpN, bpU, bpop, fill, tags>>

Close(g) ==
    /\ Glue(g)
    /\ ~closed
    /\ Rec([op |-> "close", u |-> FALSE, b |-> FALSE, c |-> 0], g, FALSE)
    /\ closed' = TRUE
    /\ UNCHANGED <<n, p, bpN, bpU, bpop, cctx, fill, tags>>

Next == /\ Len(hist) < L
        /\ \/ Resolve
           \/ \E g \in BOOLEAN :
                \/ \E u, b \in BOOLEAN : Push(u, b, g)
                \/ \E c \in Ctx : Pop(c, g) \/ Cancel(c, g)
                \/ Close(g)

Spec == Init /\ [][Next]_vars

HasBurst == \E i \in 1..Len(hist) : hist[i].g
\* emit every complete scenario once it reaches the length bound (with MaxBurst > 1: only those with a burst,
\* the others are what the configuration without bursts produces)
Emit == (Len(hist) = L /\ (MaxBurst > 1 => HasBurst)) =>
           PrintT(<<"SCN", ToJson([cap |-> Cap, fill |-> fill, ops |-> hist, tags |-> tags])>>)
=============================================================================
