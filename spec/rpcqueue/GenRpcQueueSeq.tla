-------------------------- MODULE GenRpcQueueSeq --------------------------
(* Scenario generator for C15: every sequence of queue operations up to a
   bounded length, for one capacity, with at most MaxBlocked calls blocked at
   a time.  Only the *inputs* are emitted; the results are whatever the real
   queue does and are judged by RpcQueueTrace.  The little count-based model
   here exists to know how many calls are blocked.                        *)
EXTENDS Naturals, Sequences, FiniteSets, TLC, Json

CONSTANTS Cap, L, MaxBlocked

VARIABLES n, p,          \* number of normal / urgent items queued
          closed,
          bpN, bpU,      \* blocked pushes (normal / urgent)
          bpop,          \* bpop[c] = blocked pops using context c
          cctx,          \* cancelled contexts
          hist

vars == <<n, p, closed, bpN, bpU, bpop, cctx, hist>>
Ctx == {1, 2}

Init == n = 0 /\ p = 0 /\ closed = FALSE /\ bpN = 0 /\ bpU = 0
        /\ bpop = [c \in Ctx |-> 0] /\ cctx = {} /\ hist = <<>>

Blocked == bpN + bpU + bpop[1] + bpop[2]
Rec(o) == hist' = Append(hist, o)

\* after an item was added: a blocked pop (if any) takes one
AfterAdd(n1, p1) ==
    IF bpop[1] + bpop[2] > 0
      THEN \E c \in {c \in Ctx : bpop[c] > 0} :
             /\ bpop' = [bpop EXCEPT ![c] = @ - 1]
             /\ IF p1 > 0 THEN p' = p1 - 1 /\ n' = n1 ELSE n' = n1 - 1 /\ p' = p1
      ELSE n' = n1 /\ p' = p1 /\ UNCHANGED bpop

Push(u, b) ==
    /\ Rec([op |-> "push", u |-> u, b |-> b, c |-> 0])
    /\ IF closed THEN UNCHANGED <<n, p, closed, bpN, bpU, bpop, cctx>>
       ELSE IF n + p < Cap
         THEN (IF u THEN AfterAdd(n, p + 1) ELSE AfterAdd(n + 1, p)) /\ UNCHANGED <<closed, bpN, bpU, cctx>>
       ELSE IF b
         THEN /\ Blocked < MaxBlocked
              /\ IF u THEN bpU' = bpU + 1 /\ UNCHANGED bpN ELSE bpN' = bpN + 1 /\ UNCHANGED bpU
              /\ UNCHANGED <<n, p, closed, bpop, cctx>>
       ELSE UNCHANGED <<n, p, closed, bpN, bpU, bpop, cctx>>

Pop(c) ==
    /\ Rec([op |-> "pop", u |-> FALSE, b |-> FALSE, c |-> c])
    /\ IF closed THEN UNCHANGED <<n, p, closed, bpN, bpU, bpop, cctx>>
       ELSE IF n + p > 0
         THEN \* take one (urgent first); a blocked push (if any) then fills the space
              LET n1 == IF p > 0 THEN n ELSE n - 1
                  p1 == IF p > 0 THEN p - 1 ELSE p IN
              /\ IF bpN + bpU > 0
                   THEN \/ bpN > 0 /\ bpN' = bpN - 1 /\ n' = n1 + 1 /\ p' = p1 /\ UNCHANGED bpU
                        \/ bpU > 0 /\ bpU' = bpU - 1 /\ p' = p1 + 1 /\ n' = n1 /\ UNCHANGED bpN
                   ELSE n' = n1 /\ p' = p1 /\ UNCHANGED <<bpN, bpU>>
              /\ UNCHANGED <<closed, bpop, cctx>>
       ELSE IF c \in cctx THEN UNCHANGED <<n, p, closed, bpN, bpU, bpop, cctx>>
       ELSE /\ Blocked < MaxBlocked /\ bpop' = [bpop EXCEPT ![c] = @ + 1]
            /\ UNCHANGED <<n, p, closed, bpN, bpU, cctx>>

Cancel(c) ==
    /\ c \notin cctx
    /\ Rec([op |-> "cancel", u |-> FALSE, b |-> FALSE, c |-> c])
    /\ cctx' = cctx \cup {c} /\ bpop' = [bpop EXCEPT ![c] = 0]
    /\ UNCHANGED <<n, p, closed, bpN, bpU>>

Close ==
    /\ ~closed
    /\ Rec([op |-> "close", u |-> FALSE, b |-> FALSE, c |-> 0])
    /\ closed' = TRUE /\ bpN' = 0 /\ bpU' = 0 /\ bpop' = [c \in Ctx |-> 0]
    /\ UNCHANGED <<n, p, cctx>>

Next == /\ Len(hist) < L
        /\ \/ \E u, b \in BOOLEAN : Push(u, b)
           \/ \E c \in Ctx : Pop(c) \/ Cancel(c)
           \/ Close

Spec == Init /\ [][Next]_vars

\* emit every complete scenario once it reaches the length bound
Emit == Len(hist) = L => PrintT(<<"SCN", ToJson([cap |-> Cap, ops |-> hist])>>)
=============================================================================
