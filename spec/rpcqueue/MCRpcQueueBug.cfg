SPECIFICATION Spec
CONSTANTS
  Cap = 1
  Pushers <- MCPushers
  Poppers <- MCPoppers
  Script <- MCScript
  NPops <- MCNPops
  CanCancel <- MCCanCancel
  CanClose = TRUE
  BroadcastUnderLock = FALSE
  Variant = "none"
INVARIANTS TypeOK P_C15_Bounded WaitSetsSound
PROPERTIES P_C15_Refines P_C15_Results P_C15_CancelledPopReturns P_C15_CloseReleasesAll P_C15_BlockedPushResumes P_C15_BlockedPopResumes
CHECK_DEADLOCK FALSE
