--------------------------- MODULE RpcQueueSeq ---------------------------
(* Sequential meaning of the per-peer outbound queue (rpc_queue.go): a bounded
   two-class FIFO with close.  This is the specification the lock-grain model
   RpcQueue.tla refines and the one real call/return histories are linearised
   against (RpcQueueTrace.tla).  Property C15. *)
EXTENDS Naturals, Sequences

VARIABLES cap,          \* capacity (maxSize); a variable only so that a trace spec can bind it per scenario
          normal,       \* FIFO of normal items
          prio,         \* FIFO of urgent items
          closed        \* BOOLEAN

qvars == <<normal, prio, closed>>

QLen == Len(normal) + Len(prio)

QInit == normal = <<>> /\ prio = <<>> /\ closed = FALSE

(* --- effects; each returns through the parameter r the reported result --- *)

\* push on a closed queue is reported (the code panics with ErrQueuePushOnClosed)
PushClosed(r)      == closed /\ r = "pushclosed" /\ UNCHANGED qvars
\* a non-blocking push fails exactly when the queue is full
PushFull(block, r) == ~closed /\ QLen = cap /\ ~block /\ r = "full" /\ UNCHANGED qvars
PushOk(x, urgent, r) ==
    /\ ~closed /\ QLen < cap /\ r = "ok"
    /\ IF urgent THEN prio' = Append(prio, x) /\ UNCHANGED normal
                 ELSE normal' = Append(normal, x) /\ UNCHANGED prio
    /\ UNCHANGED closed

\* every effect a push may have, given its arguments
PushEffect(x, urgent, block, r) ==
    PushClosed(r) \/ PushFull(block, r) \/ PushOk(x, urgent, r)

\* pop: closed wins, then urgent before normal, each class in insertion order
PopClosed(r) == closed /\ r = "closed" /\ UNCHANGED qvars
PopItem(r) ==
    /\ ~closed /\ QLen > 0
    /\ IF prio # <<>> THEN r = Head(prio) /\ prio' = Tail(prio) /\ UNCHANGED normal
                      ELSE r = Head(normal) /\ normal' = Tail(normal) /\ UNCHANGED prio
    /\ UNCHANGED closed
\* only an empty, open queue lets a cancelled pop report cancellation
PopCancelled(cancelled, r) ==
    ~closed /\ QLen = 0 /\ cancelled /\ r = "cancelled" /\ UNCHANGED qvars

PopEffect(cancelled, r) == PopClosed(r) \/ PopItem(r) \/ PopCancelled(cancelled, r)

CloseEffect == closed' = TRUE /\ UNCHANGED <<normal, prio>>

\* an operation that has no enabled effect is (rightly) blocked
PushBlocked(block) == ~closed /\ QLen = cap /\ block
PopBlocked(cancelled) == ~closed /\ QLen = 0 /\ ~cancelled

\* next-state relation over the abstract queue alone (for refinement checking)
SeqNext(Items) ==
    \/ \E x \in Items, u \in BOOLEAN : PushOk(x, u, "ok")
    \/ \E r \in Items : PopItem(r)
    \/ CloseEffect

P_C15_Bounded == QLen <= cap
=============================================================================
