SPECIFICATION Spec
CONSTANTS
  Cap = 1
  L = 3
  MaxBlocked = 2
INVARIANT Emit
CHECK_DEADLOCK FALSE
