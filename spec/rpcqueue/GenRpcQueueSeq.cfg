SPECIFICATION Spec
CONSTANTS
  Cap = 1
  L = 3
  MaxBlocked = 2
  MaxBurst = 1
  Fills = {0}
INVARIANT Emit
CHECK_DEADLOCK FALSE
