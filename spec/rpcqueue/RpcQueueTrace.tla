--------------------------- MODULE RpcQueueTrace ---------------------------
(* Trace specification for C15: call/return histories recorded from the real
   rpcQueue (sequential replays, bursts of operations run back to back by one
   goroutine, forced interleavings around the two schedule points, concurrent
   stress windows) are linearised against RpcQueueSeq.
   A history is accepted iff the cursor can reach the end of the file.
   Every call takes effect (TLin) at some instant between its call and its ret
   line; a quiet line lists the calls still outstanding when nothing can run
   any more, and is accepted only if none of them has taken effect AND the
   sequential queue, in the state reached, gives each of them nothing it could
   do (PushBlocked / PopBlocked).  That is P_C15_Progress: a wake-up lost by
   the code (a pusher left waiting although a burst of pops made room, a Pop
   that misses a Close landing between its check and its wait) leaves a call
   in the list which the sequential queue says must return.  The driver's
   note lines (parked / release / nohook) are removed before validation. *)
EXTENDS Naturals, Sequences, FiniteSets, TLC, Json

Trace == ndJsonDeserialize("trace.ndjson")

VARIABLES normal, prio, closed,   \* abstract queue (RpcQueueSeq)
          cap,                    \* capacity of the current scenario
          ops,                    \* id |-> [op, x, urgent, block, ctx, st, r] of calls not yet returned
          cctx,                   \* contexts cancelled so far
          l                       \* cursor

Q == INSTANCE RpcQueueSeq

tvars == <<normal, prio, closed, cap, ops, cctx, l>>
Range(f) == {f[i] : i \in DOMAIN f}
E == Trace[l]
More == l <= Len(Trace)
Adv == l' = l + 1

TInit == /\ TLCSet(1, 0) /\ Q!QInit /\ cap = 1 /\ ops = <<>> /\ cctx = {} /\ l = 1

TReset ==
    /\ More /\ E.e = "reset"
    /\ normal' = <<>> /\ prio' = <<>> /\ closed' = FALSE
    /\ cap' = E.cap /\ ops' = <<>> /\ cctx' = {} /\ Adv

TCall ==
    /\ More /\ E.e = "call" /\ E.id \notin DOMAIN ops
    /\ ops' = ops @@ (E.id :> [op |-> E.op,
                               x |-> IF E.op = "push" THEN E.x ELSE "",
                               urgent |-> IF E.op = "push" THEN E.urgent ELSE FALSE,
                               block |-> IF E.op = "push" THEN E.block ELSE FALSE,
                               ctx |-> IF E.op = "pop" THEN E.ctx ELSE 0,
                               st |-> "pending", r |-> ""])
    /\ Adv /\ UNCHANGED <<normal, prio, closed, cap, cctx>>

\* the operation takes effect (internal step; the result is whatever the sequential spec yields)
Results == {"ok", "full", "pushclosed", "closed", "cancelled", "done"} \cup Range(normal) \cup Range(prio)
TLin(id) ==
    /\ ops[id].st = "pending"
    /\ \E r \in Results :
         /\ CASE ops[id].op = "push"  -> Q!PushEffect(ops[id].x, ops[id].urgent, ops[id].block, r)
              [] ops[id].op = "pop"   -> Q!PopEffect(ops[id].ctx \in cctx, r)
              [] ops[id].op = "close" -> Q!CloseEffect /\ r = "done"
         /\ ops' = [ops EXCEPT ![id].st = "lin", ![id].r = r]
    /\ UNCHANGED <<cap, cctx, l>>

TRet ==
    /\ More /\ E.e = "ret" /\ E.id \in DOMAIN ops
    /\ ops[E.id].st = "lin" /\ ops[E.id].r = E.res
    /\ ops' = [i \in DOMAIN ops \ {E.id} |-> ops[i]]
    /\ Adv /\ UNCHANGED <<normal, prio, closed, cap, cctx>>

TCancel ==
    /\ More /\ E.e = "cancel"
    /\ cctx' = cctx \cup {E.ctx}
    /\ Adv /\ UNCHANGED <<normal, prio, closed, cap, ops>>

\* quiescence: exactly the listed calls are still blocked, and the sequential spec agrees
\* that each of them has nothing it could do (this is where a lost wake-up shows)
TQuiet ==
    /\ More /\ E.e = "quiet"
    /\ DOMAIN ops = Range(E.blocked)
    /\ \A id \in DOMAIN ops :
          /\ ops[id].st = "pending"
          /\ CASE ops[id].op = "push"  -> Q!PushBlocked(ops[id].block)
               [] ops[id].op = "pop"   -> Q!PopBlocked(ops[id].ctx \in cctx)
               [] ops[id].op = "close" -> FALSE
    /\ Adv /\ UNCHANGED <<normal, prio, closed, cap, ops, cctx>>

TNext == TReset \/ TCall \/ TRet \/ TCancel \/ TQuiet \/ (\E id \in DOMAIN ops : TLin(id))

TraceSpec == TInit /\ [][TNext]_tvars

\* high-water mark of the cursor (needs -workers 1)
HW == IF TLCGet(1) < l THEN TLCSet(1, l) ELSE TRUE
Bounded == Q!P_C15_Bounded
Accepted == PrintT(<<"HW", TLCGet(1), Len(Trace) + 1>>)
=============================================================================
