---------------------------- MODULE MCRpcQueue ----------------------------
EXTENDS RpcQueue
\* two pushers (normal+blocking, urgent+non-blocking mixes), two poppers, one cancellable context, close
MCPushers == {"u1", "u2"}
MCPoppers == {"p1", "p2"}
MCScript == [u1 |-> <<[x |-> "a", urgent |-> FALSE, block |-> TRUE], [x |-> "b", urgent |-> TRUE, block |-> FALSE]>>,
             u2 |-> <<[x |-> "c", urgent |-> FALSE, block |-> TRUE]>>]
MCNPops == [p1 |-> 1, p2 |-> 2]
MCCanCancel == {"p1"}
\* larger configuration for the thorough tier
MC2Pushers == {"u1", "u2", "u3"}
MC2Script == [u1 |-> <<[x |-> "a", urgent |-> FALSE, block |-> TRUE], [x |-> "b", urgent |-> TRUE, block |-> TRUE]>>,
              u2 |-> <<[x |-> "c", urgent |-> FALSE, block |-> FALSE], [x |-> "d", urgent |-> FALSE, block |-> TRUE]>>,
              u3 |-> <<[x |-> "e", urgent |-> TRUE, block |-> TRUE]>>]
MC2NPops == [p1 |-> 2, p2 |-> 2]
MC2CanCancel == {"p1", "p2"}

(* Small configurations for the single-line-slip variants (see RpcQueue.tla, Variant): each is run twice by
   bin/lib/props/c15.py, with Variant = "none" (every property must hold) and with the variant (the named
   property must fail).  Naming: <cfg>Pushers, <cfg>Poppers, <cfg>Script, <cfg>NPops, <cfg>CanCancel. *)
It(x, u, b) == [x |-> x, urgent |-> u, block |-> b]
None == {}
NoScript == [p \in {} |-> <<>>]
NoPops == [j \in {} |-> 0]

\* one popper on an empty queue (close / cancel while it is between its checks and its wait)
SP1Pushers == {}            SP1Poppers == {"p1"}        SP1Script == NoScript
SP1NPops == [p1 |-> 1]      SP1CanCancel == {}
\* two poppers on an empty queue, one cancellable
SP2Pushers == {}            SP2Poppers == {"p1", "p2"}  SP2Script == NoScript
SP2NPops == [p1 |-> 1, p2 |-> 1]   SP2CanCancel == {"p2"}
\* one pusher: fills capacity 1, then blocks
SU1Pushers == {"u1"}        SU1Poppers == {}            SU1Script == [u1 |-> <<It("a", FALSE, FALSE), It("b", FALSE, TRUE)>>]
SU1NPops == NoPops          SU1CanCancel == {}
\* three blocking pushers on capacity 1 (two of them wait)
SU3Pushers == {"u1", "u2", "u3"}   SU3Poppers == {}
SU3Script == [u1 |-> <<It("a", FALSE, TRUE)>>, u2 |-> <<It("b", FALSE, TRUE)>>, u3 |-> <<It("c", TRUE, TRUE)>>]
SU3NPops == NoPops          SU3CanCancel == {}
\* seeded b1: capacity 2 filled, two blocking pushers wait, one popper pops twice
SB1Pushers == {"u1", "u2", "u3"}   SB1Poppers == {"p1"}
SB1Script == [u1 |-> <<It("a", FALSE, FALSE), It("b", FALSE, FALSE)>>, u2 |-> <<It("c", FALSE, TRUE)>>, u3 |-> <<It("d", TRUE, TRUE)>>]
SB1NPops == [p1 |-> 2]      SB1CanCancel == {}
\* its mirror image: two poppers wait on an empty queue of capacity 2, one pusher pushes twice
SPPPushers == {"u1"}        SPPPoppers == {"p1", "p2"}
SPPScript == [u1 |-> <<It("a", FALSE, FALSE), It("b", TRUE, FALSE)>>]
SPPNPops == [p1 |-> 1, p2 |-> 1]   SPPCanCancel == {}
\* seeded a2: capacity 1, a blocked pusher is woken by a pop and a third pusher takes the slot first
SA2Pushers == {"u1", "u2", "u3"}   SA2Poppers == {"p1"}
SA2Script == [u1 |-> <<It("a", FALSE, TRUE)>>, u2 |-> <<It("b", FALSE, TRUE)>>, u3 |-> <<It("c", FALSE, FALSE)>>]
SA2NPops == [p1 |-> 1]      SA2CanCancel == {}
\* one pusher and one popper, capacity 1 (the Signal that is missing or goes to the wrong condition)
SUPPushers == {"u1"}        SUPPoppers == {"p1"}
SUPScript == [u1 |-> <<It("a", FALSE, TRUE), It("b", TRUE, TRUE)>>]
SUPNPops == [p1 |-> 2]      SUPCanCancel == {}
\* two classes, capacity 2 (selection order, Len)
SCLPushers == {"u1"}        SCLPoppers == {"p1"}
SCLScript == [u1 |-> <<It("a", FALSE, FALSE), It("b", TRUE, FALSE), It("c", TRUE, FALSE)>>]
SCLNPops == [p1 |-> 2]      SCLCanCancel == {}
=============================================================================
