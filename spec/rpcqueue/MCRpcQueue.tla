---------------------------- MODULE MCRpcQueue ----------------------------
EXTENDS RpcQueue
\* two pushers (normal+blocking, urgent+non-blocking mixes), two poppers, one cancellable context, close
MCPushers == {"u1", "u2"}
MCPoppers == {"p1", "p2"}
MCScript == [u1 |-> <<[x |-> "a", urgent |-> FALSE, block |-> TRUE], [x |-> "b", urgent |-> TRUE, block |-> FALSE]>>,
             u2 |-> <<[x |-> "c", urgent |-> FALSE, block |-> TRUE]>>]
MCNPops == [p1 |-> 1, p2 |-> 2]
MCCanCancel == {"p1"}
\* larger configuration for the thorough tier
MC2Pushers == {"u1", "u2", "u3"}
MC2Script == [u1 |-> <<[x |-> "a", urgent |-> FALSE, block |-> TRUE], [x |-> "b", urgent |-> TRUE, block |-> TRUE]>>,
              u2 |-> <<[x |-> "c", urgent |-> FALSE, block |-> FALSE], [x |-> "d", urgent |-> FALSE, block |-> TRUE]>>,
              u3 |-> <<[x |-> "e", urgent |-> TRUE, block |-> TRUE]>>]
MC2NPops == [p1 |-> 2, p2 |-> 2]
MC2CanCancel == {"p1", "p2"}
=============================================================================
