SPECIFICATION Spec
CONSTANTS
  Cap = 2
  Pushers <- MC2Pushers
  Poppers <- MCPoppers
  Script <- MC2Script
  NPops <- MC2NPops
  CanCancel <- MC2CanCancel
  CanClose = TRUE
  BroadcastUnderLock = TRUE
  Variant = "none"
INVARIANTS TypeOK P_C15_Bounded WaitSetsSound
PROPERTIES P_C15_Refines P_C15_Results P_C15_CancelledPopReturns P_C15_CloseReleasesAll P_C15_BlockedPushResumes P_C15_BlockedPopResumes
CHECK_DEADLOCK FALSE
