------------------------------ MODULE GenPublish ------------------------------
(* Scenario generator for C06: histories of stimuli (the `hist` of Publish.tla)
   that end in publishes / forwards, emitted as JSON together with the coverage
   tags the MODEL predicts for them (used only to stratify the sample that is
   replayed; the tags that count are recomputed by PublishTrace on the real
   steps).  Only the inputs are emitted: what the real node then does is judged
   by PublishTrace.

   Prep = TRUE starts from prepared states - every peer connected, each
   subscribed or not (PrepTp), the node subscribed first or not (PrepJoined),
   any subset of the peers grafted when PrepMesh - whose history is the
   canonical way to build them, so that an exhaustive search (BFS) over the
   next MaxDyn stimuli is affordable.  Alphabet restricts the stimuli, MaxOther
   bounds those that are neither heartbeat nor message (focused families, e.g.
   the fanout life cycle).  Prep = FALSE starts from the empty state
   (-simulate, seeded by the orchestrator).                                  *)
EXTENDS MCPublish, Json

CONSTANTS Prep, PrepTp, PrepJoined, PrepMesh, Alphabet, MaxOther, MaxDyn

VARIABLES nother, ndyn      \* stimuli after the prepared prefix: those that are neither heartbeat nor message / all
gvars == <<vars, nother, ndyn>>

PrepTpAll    == SUBSET Peers
PrepTpFull   == {Peers}
PrepTpBig    == {S \in SUBSET Peers : Cardinality(S) >= Cardinality(Peers) - 1}
\* randomsub: the first k peers subscribed, k around RandomSubD
PrepTpPrefix == {{PeerSeq[i] : i \in 1..k} : k \in {3, 6, 7, 8, 9} \cap (1..Len(PeerSeq))}
AlphaAll     == {"peer", "sub", "graft", "score", "direct", "idontwant", "down", "subscribe", "hb", "publish", "local", "msg"}
AlphaSim     == AlphaAll \cup {"batch", "batchlocal"}
AlphaMsg     == {"publish", "local", "msg"}
AlphaFanout  == {"sub", "score", "down", "direct", "hb", "publish"}
AlphaFlood   == {"score", "direct", "sub", "publish"}
AlphaDirect  == {"direct", "score", "graft", "idontwant", "publish", "msg"}
AlphaBatch   == {"batch", "batchlocal"}
AlphaIdw     == {"idontwant", "hb", "publish", "msgo"}
AlphaPlain   == {"peer", "sub", "down", "subscribe", "publish", "local", "msg"}
BoolBoth == BOOLEAN
OnlyTrue == {TRUE}
OnlyFalse == {FALSE}

SeqOfSet(S) == [i \in 1..Cardinality({j \in DOMAIN PeerSeq : PeerSeq[j] \in S}) |->
                  PeerSeq[CHOOSE j \in DOMAIN PeerSeq : PeerSeq[j] \in S /\ Cardinality({k \in 1..j : PeerSeq[k] \in S}) = i]]

GenInit ==
    /\ nother = 0 /\ ndyn = 0
    /\ IF ~Prep THEN Init
       ELSE /\ conn = Peers /\ ever = Peers /\ tp \in PrepTp /\ joined \in PrepJoined
            /\ mesh \in (IF Gossip /\ joined /\ PrepMesh THEN SUBSET Peers ELSE {{}})
            /\ fanKey = FALSE /\ fanout = {} /\ lastpub = NoPub /\ firstpub = NoPub /\ direct = {}
            /\ score = [p \in Peers |-> 0] /\ unw = NoUnw /\ idwcnt = [p \in Peers |-> 0] /\ ticks = 1 /\ nmsg = 0 /\ fanLost = FALSE
            /\ last = [kind |-> "none", fails |-> {}] /\ tags = {}
            /\ hist = (IF joined THEN <<H("subscribe", "", "", 0, FALSE)>> ELSE <<>>)
                      \o [i \in DOMAIN PeerSeq |-> H("peer", PeerSeq[i], ProtoOf[PeerSeq[i]], 0, PeerSeq[i] \in tp)]
                      \o [i \in DOMAIN SeqOfSet(mesh) |-> H("graft", SeqOfSet(mesh)[i], "", 0, FALSE)]

A(n) == n \in Alphabet
GenStep ==
    \/ A("peer") /\ \E p \in Peers, b \in BOOLEAN : PeerUp(p, b)
    \/ A("sub") /\ \E p \in Peers, b \in BOOLEAN : Sub(p, b)
    \/ A("graft") /\ \E p \in Peers : Graft(p)
    \/ A("direct") /\ \E p \in Peers : SetDirect(p)
    \/ A("idontwant") /\ \E p \in Peers, k \in Msgs : IDontWant(p, k)
    \/ A("down") /\ \E p \in Peers : Down(p)
    \/ A("score") /\ \E p \in Peers, v \in ScoreVals : SetScore(p, v)
    \/ A("subscribe") /\ Subscribe
    \/ A("hb") /\ Heartbeat
    \/ A("publish") /\ Publish(FALSE, FALSE)
    \/ A("local") /\ Publish(TRUE, FALSE)
    \/ A("batch") /\ Publish(FALSE, TRUE)
    \/ A("batchlocal") /\ Publish(TRUE, TRUE)
    \/ A("msg") /\ \E s \in Peers, a \in Peers \cup {Outsider} : Forward(s, a)
    \/ A("msgo") /\ \E s \in Peers : Forward(s, Outsider)

Done    == nmsg = MaxMsgs \/ ndyn >= MaxDyn
GenNext == /\ ~Done /\ GenStep /\ tags' = tags \cup LastTags'
           /\ nother' = nother + (IF hist'[Len(hist')].a \in {"hb", "publish", "msg"} THEN 0 ELSE 1)
           /\ nother' <= MaxOther /\ ndyn' = ndyn + 1
GenSpec == GenInit /\ [][GenNext]_gvars

Emit == (Done /\ nmsg >= 1 /\ (Prep => last.kind \in {"pub", "fwd", "hb"}))
           => PrintT(<<"SCN", ToJson([acts |-> hist, tags |-> tags, nmsg |-> nmsg])>>)
=============================================================================
