\* every type-correct state over 3 peers (flood, v1.0, v1.2) x every message origin / heartbeat: gossipsub, flood publish off
SPECIFICATION SpecAll
CONSTANTS
  PeerSeq <- Seq3
  ProtoOf <- ProtoMixed
  Router = "gossipsub"
  D = 2
  Dlo = 1
  FanoutTTL = 2
  IDWTTL = 2
  Thr <- MCThr
  ScoreVals <- MCScores3
  FloodPublish = FALSE
  RsSize = 10
  MaxMsgs = 1
  MaxHist = 1
  MaxDirect = 1
  MaxUnwanted = 1
  IdwAhead = 1
  IdwPerHb = 2
  ExcludeSource = TRUE
  EarlyReturn = FALSE
  FanoutUnfiltered = FALSE
  BatchLocalSkipped = TRUE
  Tolerated = {}
INVARIANTS TypeOK P_C06_Never P_C06_Direct P_C06_Flood P_C06_Mesh P_C06_Fanout P_C06_FanoutStable P_C06_FloodPublish P_C06_Floodsub P_C06_Randomsub
CHECK_DEADLOCK FALSE
