---------------------------- MODULE PublishTrace ----------------------------
(* Trace specification for C06 over the common step-line format of
   harness/world (one line per stimulus: tracer events `ev`, frames received by
   every fake peer `out`, post-snapshot `st`; the first line of a scenario is
   the reset line with the configuration).

   For every step in which the REAL node accepted exactly one message
   (a `Deliver` event: remote via a `msg` stimulus, local via `publish`), and for
   every message of a `batch` step (AddToBatch + PublishBatch: one Deliver per
   message, in batch order; the k-th is local-only iff act.msgs[k] says so):
     pre-state  = the previous line's snapshot (taken inside the event loop),
     m, t       = the delivered message and its topic,
     src/author = Deliver.via / Deliver.from ("self" for own messages),
     Rlo        = peers with a Send or Drop event whose rpc carries m,
     Rhi        = Rlo + peers at which a frame carrying m arrived,
   and the predicates of PublishRules are evaluated on that view
   (P_C06_Never, _Direct, _Flood, _Mesh, _Fanout, _FanoutStable, _FloodPublish,
   _Floodsub, _Randomsub).  In addition, on every step:
     P_C06_Copy          every received frame carrying a message has copyEqual (the marshalled
                         bytes of the received pb.Message - from, data, seqno, topic, signature,
                         key and unrecognised fields - equal those of the message as it was sent
                         to the node; both sides use the canonical encoding, so this is equality
                         of the wire bytes of the message);
                         in a Deliver step every Send shows up as a frame (unless the
                         peer is gated / gone), every frame has a Send event, and the
                         node's own messages arrive signed and authored by the node;
     P_C06_Never         a copy leaves the node only together with the acceptance of
                         that message (duplicates, rejected and local-only messages
                         cause no copy); IWANT replies (`iwant` stimuli) are not publishes;
     P_C06_FanoutStable  fanout members disappear only because they left the topic, fell
                         below the publish threshold, lost their stream, the topic was
                         joined, or - at a heartbeat - now > lastpub + FanoutTTL, where
                         lastpub is THIS module's own monitor (time of the last observed
                         fanout publish), not the node's bookkeeping.
   The walk never blocks: failures are printed as <<"VIOL", json>>, evaluated
   steps as <<"STEP", json>> (with the coverage tags of DESIGN's obligations),
   and the orchestrator turns them into the verdict.                          *)
EXTENDS Integers, Sequences, FiniteSets, TLC, Json, PublishRules

Trace == ndJsonDeserialize("trace.ndjson")

RsSize     == 10      \* harness/world builds the randomsub node with NewRandomSub(ctx, h, 10)
HbSettle   == 400     \* world.Heartbeat stops 400 ms after the heartbeat instant
MeshProtos == {"/meshsub/1.0.0", "/meshsub/1.1.0", "/meshsub/1.2.0", "/meshsub/1.3.0"}
FloodProto == "/floodsub/1.0.0"

VARIABLES l,        \* cursor
          cfg,      \* configuration of the current scenario (reset line)
          lastpub,  \* monitor: topic -> virtual ms of the last observed fanout publish
          firstpub, \* monitor: topic -> virtual ms of the publish that selected the current fanout
          fanLost,  \* monitor: topics whose fanout lost a member at a heartbeat since it was selected
          gated,    \* monitor: peers whose writes the scenario gated
          usedNames,\* monitor: message names already accepted or published in this scenario (a scenario may
                    \* re-use a name for a second, different message: IDONTWANTs are then not attributable)
          idw,      \* monitor: IDONTWANT announcements in force, records [p, m, ttl, rpc] built from the observed
                    \* `idontwant` stimuli exactly as the code documents (union over RPCs; first MaxIDontWantLength
                    \* ids of an RPC; RPCs beyond MaxIDontWantMessages per heartbeat ignored; TTL in heartbeats;
                    \* forgotten when the peer's stream closes) - NOT copied from the node's bookkeeping
          idwCnt,   \* monitor: peer -> IDONTWANT RPCs counted in the current heartbeat interval
          idwSeq,   \* monitor: peer -> accepted IDONTWANT RPCs so far (coverage: announced in an EARLIER RPC)
          created   \* monitor: message names that exist (the scenario interpreter can name their real ids)
tvars == <<l, cfg, lastpub, firstpub, fanLost, gated, usedNames, idw, idwCnt, idwSeq, created>>

Rng(s) == {s[i] : i \in DOMAIN s}
Get(f, k, d) == IF k \in DOMAIN f THEN f[k] ELSE d
SetAt(f, k) == IF k \in DOMAIN f THEN Rng(f[k]) ELSE {}
Has(r, k) == k \in DOMAIN r

E == Trace[l]
P == Trace[l - 1].st                    \* pre-state (only used when InScenario)
Q == E.st                               \* post-state
IsReset == E.act.a = "reset"
InScenario == l > 1 /\ ~IsReset /\ Trace[l - 1].scn = E.scn /\ ~P.dead /\ ~Q.dead
Router == P.router
Gossip == Router = "gossipsub"

MsgsOf(rpc) == {rpc.msgs[j].m : j \in DOMAIN rpc.msgs}
EvIdx(k) == {i \in DOMAIN E.ev : E.ev[i].k = k}
Delivers == EvIdx("Deliver")
SendTo(m) == {E.ev[i].p : i \in {i \in EvIdx("Send") : m \in MsgsOf(E.ev[i].rpc)}}
DropTo(m) == {E.ev[i].p : i \in {i \in EvIdx("Drop") : m \in MsgsOf(E.ev[i].rpc)}}
WireTo(m) == {p \in DOMAIN E.out : \E j \in DOMAIN E.out[p] : m \in MsgsOf(E.out[p][j])}
SendAny == {E.ev[i].p : i \in {i \in EvIdx("Send") \cup EvIdx("Drop") : E.ev[i].rpc.msgs # <<>>}}
WireAny == {p \in DOMAIN E.out : \E j \in DOMAIN E.out[p] : E.out[p][j].msgs # <<>>}
\* every message name that left the node in this step (events or frames)
Leaving == UNION ({MsgsOf(E.ev[i].rpc) : i \in EvIdx("Send") \cup EvIdx("Drop")}
                  \cup UNION {{MsgsOf(E.out[p][j]) : j \in DOMAIN E.out[p]} : p \in DOMAIN E.out})
Accepted == {E.ev[i].m : i \in Delivers}
BadCopy == {p \in DOMAIN E.out : \E j \in DOMAIN E.out[p] : E.out[p][j].msgs # <<>> /\ ~E.out[p][j].copyEqual}
\* peers at which a copy of m arrived without signature or with another author than the node itself
UnsignedOwn(m) == {p \in DOMAIN E.out : \E j \in DOMAIN E.out[p] : \E k \in DOMAIN E.out[p][j].msgs :
                      LET x == E.out[p][j].msgs[k] IN x.m = m /\ (~x.signed \/ x.from # "self")}
DownIn == {E.ev[i].p : i \in EvIdx("Down")}

LocalOnly == E.act.a = "publish" /\ Has(E.act, "localOnly") /\ E.act.localOnly

\* --------------------------------------------------------------- the view of a Deliver step
AllPeers == DOMAIN P.peers \cup DOMAIN E.out \cup UNION {Rng(P.topics[t]) : t \in DOMAIN P.topics}
IsMesh(p) == Gossip /\ p \in DOMAIN P.gsPeers /\ P.gsPeers[p] \in MeshProtos
Scored == Gossip /\ cfg.score
ScoreOf(p) == IF Scored THEN Get(P.scores, p, 0) ELSE 0
PubThr == IF Scored THEN cfg.thr.publish ELSE 0
OkSet == {p \in AllPeers : ScoreOf(p) >= PubThr}
DirectSet == IF Gossip THEN Rng(P.direct) ELSE {}
TopicPeers(t) == SetAt(P.topics, t)
EligFor(t) == {p \in TopicPeers(t) : IsMesh(p) /\ p \notin DirectSet /\ p \in OkSet}

\* local: local-only publication; batch: part of a batch; fpre / fpost: fanout[t] before / after this message
View(d, local, batch, fpre, fpost) ==
    LET t == d.topic IN
    [router |-> Router, self |-> "self", src |-> d.via, author |-> d.from, local |-> local, batch |-> batch,
     floodPublish |-> Gossip /\ cfg.flood, D |-> cfg.D,
     tpKnown |-> t \in DOMAIN P.topics, tp |-> TopicPeers(t),
     joined |-> Gossip /\ t \in DOMAIN P.mesh,
     mesh |-> IF Gossip THEN SetAt(P.mesh, t) ELSE {},
     fanout |-> fpre, fanoutPost |-> fpost,
     direct |-> DirectSet,
     floodp |-> IF Router = "randomsub" THEN {p \in DOMAIN P.rsPeers : P.rsPeers[p] = FloodProto}
                ELSE {p \in AllPeers : ~IsMesh(p)},
     elig |-> EligFor(t), ok |-> OkSet,
     atThr |-> {p \in AllPeers : Scored /\ ScoreOf(p) = PubThr},
     unwanted |-> IF Gossip THEN {x.p : x \in {y \in idw : y.m = d.m}} ELSE {},
     unwantedLo |-> IF Gossip THEN {p \in DOMAIN P.unwanted : d.m \in DOMAIN P.unwanted[p]} ELSE {},
     queue |-> DOMAIN P.peers, rsSize |-> RsSize]

\* --------------------------------------------------------------- reporting
Where == [scn |-> E.scn, i |-> E.i, line |-> l, act |-> E.act.a]
Viol(pred, kind, more) ==
    PrintT(<<"VIOL", ToJson([pred |-> pred, kind |-> kind, at |-> Where, more |-> more])>>)
StepOut(kind, tags, sig) ==
    PrintT(<<"STEP", ToJson([kind |-> kind, at |-> Where, tags |-> tags, sig |-> sig])>>)

\* --------------------------------------------------------------- judging one Deliver step
(* Which optional fields the accepted remote message carries (harness/drivers/c06 builds them as the `msg`
   stimulus says): P_C06_Copy is only as strong as the variety of messages whose copies were compared. *)
ActFlag(k) == E.act.a = "msg" /\ Has(E.act, k) /\ E.act[k]
ActRsa == E.act.a = "msg" /\ Has(E.act, "rsa") /\ E.act.rsa > 0
FieldTags ==
    LET keyed == (ActRsa \/ ActFlag("withKey")) /\ ~ActFlag("unsigned") /\ ~ActFlag("nofrom")
    IN Tag(keyed, "forwarded-copy-with-key") \cup Tag(keyed, "forwarded-copy-with-key-" \o Router)
       \cup Tag(ActRsa, "forwarded-copy-rsa-author")
       \cup Tag(ActFlag("unk"), "forwarded-copy-unknown-field")
       \cup Tag(E.act.a = "msg" /\ Has(E.act, "size") /\ E.act.size >= 1000, "forwarded-copy-large")
       \cup Tag(ActFlag("unsigned") \/ ActFlag("nofrom"), "forwarded-copy-unsigned")
       \cup Tag(ActFlag("nofrom"), "forwarded-copy-no-from")
       \cup Tag(ActFlag("noseqno"), "forwarded-copy-no-seqno")

FanPre(t)  == IF Gossip THEN SetAt(P.fanout, t) ELSE {}
FanPost(t) == IF Gossip THEN SetAt(Q.fanout, t) ELSE {}
JudgeDeliver(d, local, batch, fpre, fpost) ==
    LET v    == View(d, local, batch, fpre, fpost)
        m    == d.m
        \* a single local-only publication: nothing at all may leave; in a batch the copies are told apart by name
        Rev  == IF v.local /\ ~batch THEN SendAny ELSE SendTo(m) \cup DropTo(m)
        Wire == IF v.local /\ ~batch THEN WireAny ELSE WireTo(m)
        Rhi  == Rev \cup Wire
        ambiguous == m \in usedNames
        F    == {f \in StepFailures(v, Rev, Rhi) : ~(ambiguous /\ f[2] \in {"mesh-unwanted-sent", "fanout-unwanted-sent"})}
        sent == IF v.local THEN {} ELSE SendTo(m)
        lostFrames == {p \in sent \ Wire : p \notin gated /\ p \in DOMAIN Q.peers /\ ~Q.peers[p].closed /\ Q.peers[p].q = 0}
        extra == [m |-> m, topic |-> d.topic, src |-> d.via, author |-> d.from, router |-> Router,
                  R |-> Rev, wire |-> Wire, tp |-> v.tp, tpKnown |-> v.tpKnown, joined |-> v.joined, mesh |-> v.mesh,
                  fanout |-> v.fanout, fanoutPost |-> v.fanoutPost, direct |-> v.direct, floodp |-> v.floodp \cap (v.tp \cup v.mesh),
                  ok |-> v.ok, unwanted |-> v.unwanted, queue |-> v.queue, flood |-> v.floodPublish, local |-> v.local]
        tags == StepTags(v, Rev)
                \cup Tag(Gossip /\ ~v.local /\ ~v.joined /\ ~FloodMode(v) /\ v.fanout # {} /\ d.topic \in fanLost,
                         "fanout-reuse-after-member-removed")
                \cup Tag(DropTo(m) # {}, "drop-counts-as-sent")
                \cup (IF Wire # {} THEN FieldTags ELSE {})     \* copies arrived: copyEqual compared them with what was received
                \cup Tag(ambiguous, "message-name-reused")
                \cup Tag(Gossip /\ ~v.local /\ ~FloodMode(v) /\ ~ambiguous
                         /\ \E x \in idw : /\ x.m = m /\ x.rpc < Get(idwSeq, x.p, 0) /\ x.p \in v.queue /\ x.p \notin Excl(v)
                                           /\ x.p \in (IF v.joined THEN v.mesh ELSE v.fanout \cup v.fanoutPost) \ DirectIn(v),
                         "idontwant-in-earlier-rpc")
        sig  == [router |-> Router, own |-> d.via = "self", sa |-> d.via = d.from, local |-> v.local, flood |-> v.floodPublish,
                 joined |-> v.joined, ntp |-> Cardinality(v.tp), nmesh |-> Cardinality(v.mesh), nfan |-> Cardinality(v.fanout),
                 ndir |-> Cardinality(DirectIn(v)), nfl |-> Cardinality(FloodOk(v)), nunw |-> Cardinality(v.unwanted \cap (v.mesh \cup v.fanout)),
                 nR |-> Cardinality(Rev), excl |-> Cardinality(Excl(v) \cap Known(v))]
    IN /\ \A f \in F : Viol(f[1], f[2], extra)
       /\ (Wire \ (IF v.local THEN {} ELSE SendTo(m)) # {} /\ ~v.local) => Viol("P_C06_Copy", "frame-without-send-event", extra)
       /\ lostFrames # {} => Viol("P_C06_Copy", "send-without-frame", extra)
       /\ (d.via = "self" /\ ~v.local /\ UnsignedOwn(m) # {}) => Viol("P_C06_Copy", "own-copy-unsigned", extra)
       /\ StepOut(IF d.via = "self" THEN "pub" ELSE "fwd", tags, sig)

\* --------------------------------------------------------------- a batch step: one Deliver per message, in batch order
IsBatch == E.act.a = "batch"
Rank(i) == Cardinality({j \in Delivers : j <= i})
BatchLocal(k) == Has(E.act.msgs[k], "localOnly") /\ E.act.msgs[k].localOnly
BatchOK == IsBatch /\ Cardinality(Delivers) = Len(E.act.msgs) /\ E.hb = 0 /\ (Gossip => P.scoresExact)
\* the first message that goes through the fanout code path selects the fanout, the later ones re-use it
JudgeBatch ==
    \A i \in Delivers :
       LET k == Rank(i)
           d == E.ev[i]
           firstRouted == \A j \in 1..(k - 1) : BatchLocal(j)
           fpre == IF FanPre(d.topic) # {} \/ (firstRouted /\ ~BatchLocal(k)) THEN FanPre(d.topic)
                   ELSE IF BatchLocal(k) THEN {} ELSE FanPost(d.topic)
           \* a message that reached nobody is not named by the recorder: the stimulus names it
       IN JudgeDeliver([d EXCEPT !.m = E.act.msgs[k].m], BatchLocal(k), TRUE, fpre, FanPost(d.topic))

\* --------------------------------------------------------------- fanout life cycle (every step of a gossipsub scenario)
HbInstant == IF (E.t - HbSettle - 100) % cfg.hbMs = 0 THEN E.t - HbSettle ELSE E.t
Expired(t) == E.hb > 0 /\ (t \notin DOMAIN lastpub \/ HbInstant > lastpub[t] + cfg.fanoutTTLMs)
\* topics whose fanout use in this step is judged by JudgeDeliver (P_C06_Fanout / P_C06_FanoutStable)
PublishedTo == IF Cardinality(Delivers) = 1 \/ BatchOK THEN {E.ev[i].topic : i \in Delivers} ELSE {}
FanoutTopics == {t \in DOMAIN P.fanout : P.fanout[t] # <<>>}
HbView(t) ==
    [fanout |-> SetAt(P.fanout, t), fanoutPost |-> SetAt(Q.fanout, t), tp |-> TopicPeers(t), ok |-> OkSet,
     atThr |-> {p \in AllPeers : Scored /\ ScoreOf(p) = PubThr}, direct |-> DirectSet,
     queue |-> DOMAIN P.peers, elig |-> EligFor(t), D |-> cfg.D, expired |-> Expired(t),
     excused |-> DownIn \cup (AllPeers \ DOMAIN Q.peers) \cup (IF t \in DOMAIN Q.mesh THEN AllPeers ELSE {})]
JudgeFanout ==
    IF ~Gossip \/ E.hb > 1 \/ (E.hb = 1 /\ E.act.a # "hb") THEN TRUE
    ELSE \A t \in FanoutTopics \ PublishedTo :
           LET h == HbView(t)
               tags == Tag(h.expired /\ h.fanoutPost = {}, "fanout-expiry")
                       \cup Tag(~h.expired /\ E.hb = 1 /\ h.fanout \ h.fanoutPost # {}, "fanout-member-removed")
                       \cup Tag(E.hb = 1 /\ h.fanoutPost \ h.fanout # {}, "fanout-refill")
                       \cup Tag(E.hb = 1 /\ ~h.expired /\ h.fanout \cap h.atThr \cap h.tp \cap h.queue # {}, "fanout-member-at-threshold")
                       \cup Tag(~h.expired /\ E.hb = 1 /\ t \in DOMAIN firstpub /\ HbInstant > firstpub[t] + cfg.fanoutTTLMs /\ h.fanoutPost # {},
                                "fanout-kept-past-first-ttl")
           IN /\ \A k \in C06_FanoutKept_F(h) :
                   Viol("P_C06_FanoutStable", k, [topic |-> t, fanout |-> h.fanout, fanoutPost |-> h.fanoutPost, tp |-> h.tp,
                                                  ok |-> h.ok, queue |-> h.queue, elig |-> h.elig, hb |-> E.hb, now |-> E.t,
                                                  lastpub |-> Get(lastpub, t, -1), ttl |-> cfg.fanoutTTLMs])
              /\ tags # {} => StepOut("hb", tags, [router |-> Router, nfan |-> Cardinality(h.fanout), nfanPost |-> Cardinality(h.fanoutPost)])

\* --------------------------------------------------------------- one line
Judge ==
    IF ~InScenario THEN TRUE
    ELSE /\ BadCopy # {} => Viol("P_C06_Copy", "copy-differs", [peers |-> BadCopy])
         /\ (E.act.a # "iwant" /\ ~LocalOnly /\ Leaving \ Accepted # {})
               => Viol("P_C06_Never", "copy-without-acceptance", [msgs |-> Leaving \ Accepted, accepted |-> Accepted])
         /\ IF BatchOK THEN JudgeBatch
            ELSE IF ~IsBatch /\ Cardinality(Delivers) = 1 /\ E.hb = 0 /\ (Gossip => P.scoresExact)
              THEN LET d0 == E.ev[CHOOSE i \in Delivers : TRUE]
                       d  == IF E.act.a = "publish" /\ Has(E.act, "m") /\ d0.via = "self" THEN [d0 EXCEPT !.m = E.act.m] ELSE d0
                   IN JudgeDeliver(d, LocalOnly, FALSE, FanPre(d.topic), FanPost(d.topic))
              ELSE Delivers # {} => StepOut("skipped", {"skipped-step"}, [n |-> Cardinality(Delivers), hb |-> E.hb])
         /\ JudgeFanout

\* monitors
OwnFanoutPublish(t) ==
    /\ InScenario /\ Gossip /\ ~cfg.flood /\ t \notin DOMAIN P.mesh
    /\ \/ /\ ~IsBatch /\ Cardinality(Delivers) = 1 /\ ~LocalOnly
          /\ LET d == E.ev[CHOOSE i \in Delivers : TRUE] IN d.topic = t /\ d.via = "self"
       \/ /\ BatchOK /\ E.act.t = t /\ \E k \in 1..Len(E.act.msgs) : ~BatchLocal(k)
NextLastpub ==
    LET ts == IF InScenario /\ Gossip THEN {E.ev[i].topic : i \in Delivers} ELSE {}
        upd == {t \in ts : OwnFanoutPublish(t)}
        dom == (DOMAIN lastpub \cup upd)
    IN [t \in dom |-> IF t \in upd THEN E.ev[CHOOSE i \in Delivers : TRUE].t ELSE lastpub[t]]
NextFirstpub ==
    LET ts == IF InScenario /\ Gossip THEN {E.ev[i].topic : i \in Delivers} ELSE {}
        upd == {t \in ts : OwnFanoutPublish(t) /\ SetAt(P.fanout, t) = {}}
        dom == (DOMAIN firstpub \cup upd)
    IN [t \in dom |-> IF t \in upd THEN E.ev[CHOOSE i \in Delivers : TRUE].t ELSE firstpub[t]]
NextFanLost ==
    IF ~(InScenario /\ Gossip) THEN fanLost
    ELSE (fanLost \cup {t \in FanoutTopics : E.hb > 0 /\ SetAt(P.fanout, t) \ SetAt(Q.fanout, t) # {}})
         \ {t \in DOMAIN Q.mesh \cup DOMAIN P.fanout : SetAt(Q.fanout, t) = {}}

\* ------------------------------------------------------------ the IDONTWANT monitor (gossipsub.go handleIDontWant, clearIDontWantCounters)
IdwAct == InScenario /\ Gossip /\ E.act.a = "idontwant"
IdwPeer == E.act.p
\* the RPC reached handleIDontWant: it arrived, its sender is not graylisted (direct peers always pass), and the sender has
\* not used up its MaxIDontWantMessages RPCs of this heartbeat interval
IdwArrived == \E i \in EvIdx("Recv") : E.ev[i].p = IdwPeer /\ E.ev[i].rpc.idontwant # <<>>
IdwHandled == IdwAct /\ IdwArrived /\ (IdwPeer \in DirectSet \/ ~Scored \/ ScoreOf(IdwPeer) >= cfg.thr.graylist)
IdwCounted == IdwHandled /\ Get(idwCnt, IdwPeer, 0) < cfg.maxIDWMsgs
IdwNames == IF ~IdwCounted THEN {}
            ELSE {E.act.ids[i] : i \in {i \in 1..Min2(Len(E.act.ids), cfg.maxIDWLen) :
                                            E.act.ids[i] \in created \/ (Has(E.act, "own") /\ E.act.own)}}
NextIdw ==
    IF ~(InScenario /\ Gossip) THEN idw
    ELSE LET n    == Get(idwSeq, IdwPeer, 0) + 1
             add  == IF IdwAct THEN {[p |-> IdwPeer, m |-> x, ttl |-> cfg.idwTTL, rpc |-> n] : x \in IdwNames} ELSE {}
             kept == {x \in idw : ~\E y \in add : y.p = x.p /\ y.m = x.m}
             all  == {x \in kept \cup add : x.p \notin DownIn}
         IN {[x EXCEPT !.ttl = x.ttl - E.hb] : x \in {y \in all : y.ttl - E.hb > 0}}
NextIdwCnt ==
    IF ~(InScenario /\ Gossip) THEN idwCnt
    ELSE IF E.hb > 0 THEN <<>>
    ELSE IF IdwCounted THEN [q \in DOMAIN idwCnt \cup {IdwPeer} |-> Get(idwCnt, q, 0) + (IF q = IdwPeer THEN 1 ELSE 0)]
    ELSE idwCnt
NextIdwSeq ==
    IF IdwAct /\ IdwCounted THEN [q \in DOMAIN idwSeq \cup {IdwPeer} |-> Get(idwSeq, q, 0) + (IF q = IdwPeer THEN 1 ELSE 0)]
    ELSE idwSeq
NextCreated ==
    IF ~InScenario THEN created
    ELSE created \cup (IF E.act.a = "msg" /\ Has(E.act, "m") THEN {E.act.m} ELSE {}) \cup {E.ev[i].m : i \in Delivers}

TInit == idw = {} /\ idwCnt = <<>> /\ idwSeq = <<>> /\ created = {} /\ l = 1 /\ cfg = [router |-> "none"] /\ lastpub = <<>> /\ firstpub = <<>> /\ fanLost = {} /\ gated = {} /\ usedNames = {} /\ TLCSet(1, 0)

TNext ==
    /\ l <= Len(Trace)
    /\ Judge
    /\ IF IsReset
         THEN /\ cfg' = E.act.cfg /\ lastpub' = <<>> /\ firstpub' = <<>> /\ fanLost' = {} /\ gated' = {} /\ usedNames' = {}
              /\ idw' = {} /\ idwCnt' = <<>> /\ idwSeq' = <<>> /\ created' = {}
         ELSE /\ cfg' = cfg /\ lastpub' = NextLastpub /\ firstpub' = NextFirstpub /\ fanLost' = NextFanLost
              /\ idw' = NextIdw /\ idwCnt' = NextIdwCnt /\ idwSeq' = NextIdwSeq /\ created' = NextCreated
              /\ usedNames' = usedNames \cup {E.ev[i].m : i \in Delivers}
                                         \cup (IF E.act.a = "publish" /\ Has(E.act, "m") THEN {E.act.m} ELSE {})
              /\ gated' = IF E.act.a = "gate" THEN (IF E.act.on THEN gated \cup {E.act.p} ELSE gated \ {E.act.p}) ELSE gated
    /\ l' = l + 1

TraceSpec == TInit /\ [][TNext]_tvars

\* high-water mark of the cursor: the orchestrator checks that the whole file was walked
HW == IF TLCGet(1) < l THEN TLCSet(1, l) ELSE TRUE
Walked == PrintT(<<"HW", TLCGet(1), Len(Trace) + 1>>)
=============================================================================
