\* histories of up to MaxHist stimuli from the empty state (history hidden by VIEW)
SPECIFICATION Spec
CONSTANTS
  PeerSeq <- Seq3
  ProtoOf <- ProtoMixed
  Router = "gossipsub"
  D = 2
  Dlo = 1
  FanoutTTL = 2
  IDWTTL = 2
  Thr <- MCThr
  ScoreVals <- MCScores3
  FloodPublish = FALSE
  RsSize = 10
  MaxMsgs = 2
  MaxHist = 6
  MaxDirect = 1
  MaxUnwanted = 1
  IdwAhead = 1
  IdwPerHb = 2
  ExcludeSource = TRUE
  EarlyReturn = FALSE
  FanoutUnfiltered = FALSE
  BatchLocalSkipped = TRUE
  Tolerated = {}
INVARIANTS TypeOK P_C06_Never P_C06_Direct P_C06_Flood P_C06_Mesh P_C06_Fanout P_C06_FanoutStable P_C06_FloodPublish P_C06_Floodsub P_C06_Randomsub
CHECK_DEADLOCK FALSE
VIEW MView
