\* example (the orchestrator writes its own variants): gossipsub, 4 peers, every prepared state + one message
SPECIFICATION GenSpec
CONSTANTS
  PeerSeq <- Seq4
  ProtoOf <- ProtoMixed
  Router = "gossipsub"
  D = 2
  Dlo = 1
  FanoutTTL = 2
  IDWTTL = 2
  Thr <- MCThr
  ScoreVals <- MCScores3
  FloodPublish = FALSE
  RsSize = 10
  MaxMsgs = 1
  MaxHist = 30
  MaxDirect = 1
  MaxUnwanted = 1
  IdwAhead = 1
  IdwPerHb = 2
  ExcludeSource = TRUE
  EarlyReturn = FALSE
  FanoutUnfiltered = FALSE
  BatchLocalSkipped = TRUE
  Tolerated = {}
  Prep = TRUE
  PrepTp <- PrepTpAll
  PrepJoined <- BoolBoth
  PrepMesh = TRUE
  Alphabet <- AlphaMsg
  MaxOther = 0
  MaxDyn = 1
INVARIANT Emit
CHECK_DEADLOCK FALSE
