------------------------------ MODULE MCPublish ------------------------------
(* Exhaustive configurations for C06.

   SpecAll  : EVERY type-correct router state over the peers (mixed protocols, each
              peer connected or not, subscribed or not, in mesh/fanout or not, score
              below / at / above the publish threshold, at most MaxDirect direct peers,
              at most one IDONTWANT, joined or not, fresh or expiring fanout), then ONE
              step: publish (local-only or not), forward from every source with every
              author, or a heartbeat.  The recipient computation is a pure function of
              the state, so this covers every reachable pre-state x every message origin.
   Spec     : histories from the empty state (reachability, fanout life cycle).       *)
EXTENDS Publish

Seq3 == <<"p1", "p2", "p3">>
Seq4 == <<"p1", "p2", "p3", "p4">>
Seq8 == <<"p1", "p2", "p3", "p4", "p5", "p6", "p7", "p8">>
Seq9 == <<"p1", "p2", "p3", "p4", "p5", "p6", "p7", "p8", "p9">>
ProtoMixed  == [p \in {"p1", "p2", "p3", "p4"} |-> CASE p = "p1" -> "flood" [] p = "p2" -> "v10" [] p = "p3" -> "v12" [] OTHER -> "v13"]
ProtoFlood  == [p \in {"p1", "p2", "p3", "p4"} |-> "flood"]
ProtoRandom == [p \in {"p1", "p2", "p3", "p4", "p5", "p6", "p7", "p8", "p9"} |-> IF p = "p1" THEN "flood" ELSE "random"]

MCThr     == -4                 \* publish threshold (negative numbers cannot be written in a cfg)
MCScores3 == {-5, -4, 0}        \* below / exactly at / above the threshold
MCScores2 == {-5, -4}
MCScoresLow == {-5}

InitAll ==
    /\ conn \in (IF Router = "randomsub" THEN {Peers, Peers \ {PeerSeq[2]}} ELSE SUBSET Peers) /\ ever = Peers
    /\ tp \in SUBSET Peers
    /\ joined \in BOOLEAN
    /\ mesh \in (IF Gossip /\ joined THEN SUBSET conn ELSE {{}})
    /\ fanout \in (IF Gossip /\ ~joined THEN {F \in SUBSET conn : Cardinality(F) <= D} ELSE {{}})
    /\ fanKey \in (IF fanout # {} THEN {TRUE} ELSE IF Gossip /\ ~joined THEN BOOLEAN ELSE {FALSE})
    /\ ticks = FanoutTTL + 1
    /\ lastpub \in (IF fanKey THEN {1, ticks} ELSE IF Gossip /\ ~joined THEN {NoPub, ticks} ELSE {NoPub})
    /\ firstpub = lastpub
    /\ direct \in (IF Gossip THEN {S \in SUBSET Peers : Cardinality(S) <= MaxDirect} ELSE {{}})
    /\ score \in (IF Gossip THEN [Peers -> ScoreVals] ELSE {[p \in Peers |-> 0]})
    /\ unw \in (IF Gossip THEN {NoUnw} \cup {[NoUnw EXCEPT ![p][1] = IDWTTL] : p \in conn} ELSE {NoUnw})
    /\ idwcnt = [p \in Peers |-> 0]
    /\ nmsg = 0 /\ fanLost = FALSE /\ last = [kind |-> "none", fails |-> {}] /\ hist = <<>> /\ tags = {}

NextOne == /\ last.kind = "none"
           /\ \/ \E b, c \in BOOLEAN : Publish(b, c)
              \/ \E s \in Peers, a \in Peers \cup {Outsider} : Forward(s, a)
              \/ Heartbeat
           /\ tags' = tags

SpecAll == InitAll /\ [][NextOne]_vars

MView == mvars
=============================================================================
