---------------------------- MODULE PublishRules ----------------------------
(* C06 - every forwarded copy goes to exactly the peers the router rules require.

   The property predicates, written once over a "view" of one publish/forward
   step, and used both by the implementation-shaped model (Publish.tla, checked
   exhaustively by TLC) and by the trace specification (PublishTrace.tla, which
   builds the view from what the REAL node did).

   A view v describes the state just BEFORE message m on topic t is handed to
   the router, plus the little that is observed after it:

     router        "gossipsub" | "floodsub" | "randomsub"
     self          name of the node itself
     src, author   peer the message came from / peer that authored it (both = self for own messages)
     local         the publication was local-only
     batch         the message was published as part of a batch (Topic.AddToBatch + PublishBatch)
     floodPublish  the node was built WithFloodPublish(true)
     D             mesh/fanout degree
     tpKnown       the node has an entry topics[t]
     tp            topics[t]              peers known to be subscribed to t
     joined        t is in mesh (subscribed or relaying)
     mesh          mesh[t]
     fanout        fanout[t] before the step
     fanoutPost    fanout[t] after the step
     direct        direct peers
     floodp        peers the router treats as floodsub-only (no mesh feature / floodsub protocol)
     elig          peers eligible for a fresh fanout: meshsub protocol, in tp, not direct, score >= publish threshold
     ok            peers whose score is >= the publish threshold
     atThr         peers whose score is exactly the publish threshold (coverage only)
     unwanted      peers that announced IDONTWANT for m (within TTL and per-heartbeat budget): must NOT get a copy
                   through the mesh / fanout rule
     unwantedLo    peers that are merely not OWED a copy for IDONTWANT reasons (the trace specification adds
                   what the node's own bookkeeping says, so that an obligation is never demanded on the
                   strength of the monitor alone; {} in the model)
     queue         peers with an outbound queue ("provided an outbound stream exists")
     rsSize        RandomSub network size estimate

   Recipients: Rlo = peers with a Send or Drop event carrying m (a drop satisfies
   an obligation); Rhi = Rlo plus peers at which a frame carrying m arrived (no
   copy may escape the accounting).  In the model Rlo = Rhi.

   Every operator X_F returns the SET of failed sub-clauses (strings, used as
   signatures); P_C06_X holds iff that set is empty.                          *)
EXTENDS Naturals, FiniteSets

RandomSubD == 6

Min2(a, b) == IF a < b THEN a ELSE b
Max2(a, b) == IF a > b THEN a ELSE b
CeilSqrt(n) == CHOOSE k \in 0..n : k * k >= n /\ (k = 0 \/ (k - 1) * (k - 1) < n)
SubsetsOfSize(S, k) == {X \in SUBSET S : Cardinality(X) = k}
Tag(cond, s) == IF cond THEN {s} ELSE {}

Excl(v)      == {v.src, v.author}
Known(v)     == v.tp \cup v.mesh                    \* reading: a peer that GRAFTed declared interest
FloodMode(v) == v.floodPublish /\ v.src = v.self
DirectIn(v)  == v.direct \cap v.tp
FloodOk(v)   == {p \in v.tp : p \in v.floodp /\ p \in v.ok}
\* recipients that only the mesh / fanout rule can justify
Unexplained(v, R) == (R \ Excl(v)) \ (DirectIn(v) \cup FloodOk(v))
Missed(v, S, Rlo) == (S \cap v.queue) \ Rlo

Gs(v)  == v.router = "gossipsub" /\ ~v.local

(* never to the source, the author, a peer not known in the topic, nor - for a
   local-only publication - to anyone.  A fanout member that has unsubscribed
   since it was selected is reported with its own signature (what the code as
   found did until the next heartbeat; repaired, see known_findings.txt D22).  *)
C06_Never_F(v, Rhi) ==
    LET unknown == (Rhi \ Excl(v)) \ Known(v)
        stale   == IF v.joined THEN {} ELSE v.fanout \ v.tp
    IN Tag(v.src \in Rhi, "to-source") \cup Tag(v.author \in Rhi, "to-author")
       \cup Tag(v.local /\ ~v.batch /\ Rhi # {}, "local-sent")
       \cup Tag(v.local /\ v.batch /\ Rhi # {}, "local-sent-in-batch")
       \cup Tag(~v.local /\ unknown \ stale # {}, "to-unknown-peer")
       \cup Tag(~v.local /\ unknown \cap stale # {}, "to-fanout-member-that-left-topic")

C06_Direct_F(v, Rlo) ==
    Tag(Gs(v) /\ Missed(v, DirectIn(v) \ Excl(v), Rlo) # {}, "direct-missed")

C06_Flood_F(v, Rlo) ==
    Tag(Gs(v) /\ Missed(v, FloodOk(v) \ Excl(v), Rlo) # {}, "floodsub-peer-missed")

C06_Mesh_F(v, Rlo, Rhi) ==
    IF ~(Gs(v) /\ v.joined /\ ~FloodMode(v)) THEN {}
    ELSE LET missed == Missed(v, v.mesh \ (Excl(v) \cup v.unwanted \cup v.unwantedLo), Rlo)
             extra  == Unexplained(v, Rhi) \ (v.mesh \ v.unwanted)
         IN Tag(missed # {} /\ v.tpKnown, "mesh-missed")
            \cup Tag(missed # {} /\ ~v.tpKnown, "mesh-missed-no-topic-entry")
            \cup Tag(extra \cap v.mesh # {}, "mesh-unwanted-sent")
            \cup Tag((extra \ v.mesh) \cap Known(v) # {}, "non-mesh-sent")

(* not joined: the pre-existing fanout is used as it is; an empty one is
   replaced by min(D, |eligible|) eligible peers, which is then what fanout[t]
   holds.  Members that are no longer known in the topic are not owed a copy.  *)
C06_Fanout_F(v, Rlo, Rhi) ==
    IF ~(Gs(v) /\ ~v.joined /\ ~FloodMode(v)) THEN {}
    ELSE LET fresh  == v.fanout = {}
             F      == IF fresh THEN v.fanoutPost ELSE v.fanout
             missed == Missed(v, (F \cap v.tp) \ (Excl(v) \cup v.unwanted \cup v.unwantedLo), Rlo)
             extra  == Unexplained(v, Rhi) \ (F \ v.unwanted)
         IN Tag(fresh /\ v.tpKnown /\ ~(F \subseteq v.elig), "fanout-ineligible")
            \cup Tag(fresh /\ v.tpKnown /\ Cardinality(F) # Min2(v.D, Cardinality(v.elig)), "fanout-size")
            \cup Tag(fresh /\ ~v.tpKnown /\ F # {}, "fanout-size")
            \cup Tag(missed # {}, "fanout-missed")
            \cup Tag(extra \cap F # {}, "fanout-unwanted-sent")
            \cup Tag((extra \ F) \cap Known(v) # {}, "non-fanout-sent")

C06_FanoutStable_F(v) ==
    Tag(v.router = "gossipsub" /\ ~v.joined /\ v.fanout # {} /\ v.fanoutPost # v.fanout, "fanout-reselected")

C06_FloodPublish_F(v, Rlo, Rhi) ==
    IF ~(Gs(v) /\ FloodMode(v)) THEN {}
    ELSE LET Exp == {p \in v.tp : p \in v.direct \/ p \in v.ok} \ Excl(v)
         IN Tag(Missed(v, Exp, Rlo) # {}, "floodpublish-missed")
            \cup Tag(((Rhi \ Excl(v)) \ Exp) \cap Known(v) # {}, "floodpublish-extra")

C06_Floodsub_F(v, Rlo, Rhi) ==
    IF ~(v.router = "floodsub" /\ ~v.local) THEN {}
    ELSE Tag(Missed(v, v.tp \ Excl(v), Rlo) # {}, "floodsub-missed")

C06_Randomsub_F(v, Rlo, Rhi) ==
    IF ~(v.router = "randomsub" /\ ~v.local) THEN {}
    ELSE LET fl     == (v.tp \cap v.floodp) \ Excl(v)
             rsp    == (v.tp \ v.floodp) \ Excl(v)
             target == Min2(Cardinality(rsp), Max2(RandomSubD, CeilSqrt(v.rsSize)))
         IN Tag(Missed(v, fl, Rlo) # {}, "randomsub-floodsub-peer-missed")
            \cup Tag(Cardinality(rsp) <= RandomSubD /\ Missed(v, rsp, Rlo) # {}, "randomsub-missed")
            \cup Tag(Cardinality(rsp) > RandomSubD /\ Cardinality(Rhi \cap rsp) > target, "randomsub-too-many")
            \cup Tag(Cardinality(rsp) > RandomSubD
                     /\ Cardinality(Rlo \cap rsp) + Cardinality(rsp \ v.queue) < target, "randomsub-too-few")

(* A heartbeat (or any other step that is not a publish): view h =
     [fanout, fanoutPost, tp, ok, atThr, direct, queue, elig, D, expired, excused]
   expired: now > lastpub + FanoutTTL by the monitor's own clock;
   excused: members whose outbound stream closed in the step, or everybody when
   the topic was joined in the step.                                           *)
C06_FanoutKept_F(h) ==
    LET removed == h.fanout \ h.fanoutPost
        added   == h.fanoutPost \ h.fanout
        \* a member that was made a direct peer is no longer eligible: it may stay (as the code does) or go
        stillOk == {p \in removed : p \in h.tp /\ p \in h.ok /\ p \in h.queue /\ p \notin h.direct /\ p \notin h.excused}
    IN Tag(~h.expired /\ stillOk # {}, "fanout-member-dropped")
       \cup Tag(~(added \subseteq h.elig), "fanout-refill-ineligible")
       \cup Tag(added # {} /\ Cardinality(h.fanoutPost) > h.D, "fanout-refill-over-D")

\* all failures of one publish/forward step, as <<predicate name, kind>> pairs
StepFailures(v, Rlo, Rhi) ==
    LET P(n, S) == {<<n, k>> : k \in S}
    IN P("P_C06_Never", C06_Never_F(v, Rhi))
       \cup P("P_C06_Direct", C06_Direct_F(v, Rlo))
       \cup P("P_C06_Flood", C06_Flood_F(v, Rlo))
       \cup P("P_C06_Mesh", C06_Mesh_F(v, Rlo, Rhi))
       \cup P("P_C06_Fanout", C06_Fanout_F(v, Rlo, Rhi))
       \cup P("P_C06_FanoutStable", C06_FanoutStable_F(v))
       \cup P("P_C06_FloodPublish", C06_FloodPublish_F(v, Rlo, Rhi))
       \cup P("P_C06_Floodsub", C06_Floodsub_F(v, Rlo, Rhi))
       \cup P("P_C06_Randomsub", C06_Randomsub_F(v, Rlo, Rhi))

(* Coverage tags of a step (DESIGN C06 obligations), computed from the view and
   the observed recipients; the orchestrator requires each of them on at least
   one validated step of the real code.                                        *)
StepTags(v, Rlo) ==
    LET g == v.router = "gossipsub"
        rsp == (v.tp \ v.floodp) \ Excl(v)
    IN Tag(v.src # v.self /\ v.src # v.author, "fwd-src-ne-author")
       \cup Tag(g /\ v.src # v.self /\ v.author \in v.mesh /\ v.author \in v.queue, "author-is-mesh-peer")
       \cup Tag(g /\ v.src # v.self /\ v.src \in v.mesh, "source-is-mesh-peer")
       \cup Tag(g /\ ~v.local /\ FloodOk(v) \ Excl(v) # {}, "floodsub-peer-served")
       \cup Tag(g /\ ~v.local /\ (FloodOk(v) \cap v.atThr \cap v.queue) \ Excl(v) # {}, "floodsub-peer-at-threshold")
       \cup Tag(g /\ ~v.local /\ ~FloodMode(v) /\ {p \in v.tp \cap v.queue : p \in v.floodp /\ p \notin v.ok /\ p \notin v.direct} \ (Excl(v) \cup v.mesh) # {}, "floodsub-peer-below-threshold")
       \cup Tag(g /\ ~v.local /\ v.joined /\ ~FloodMode(v) /\ (DirectIn(v) \cap v.queue) \ (v.mesh \cup Excl(v)) # {}, "direct-not-in-mesh")
       \cup Tag(g /\ ~v.local /\ v.joined /\ ~FloodMode(v) /\ (v.mesh \cap v.unwanted \cap v.queue) \ (Excl(v) \cup DirectIn(v)) # {}, "mesh-peer-idontwant")
       \cup Tag(g /\ ~v.local /\ ~FloodMode(v) /\ ((FloodOk(v) \cup DirectIn(v)) \cap v.unwanted \cap v.queue) \ Excl(v) # {},
                 "floodsub-or-direct-peer-idontwant")
       \cup Tag(g /\ ~v.local /\ v.joined /\ ~FloodMode(v) /\ (v.mesh \cap v.queue) \ Excl(v) # {}, "mesh-publish")
       \cup Tag(g /\ ~v.local /\ v.joined /\ ~FloodMode(v) /\ {p \in v.tp \cap v.queue : p \notin v.floodp} \ (v.mesh \cup v.direct \cup Excl(v)) # {}, "non-mesh-gossipsub-peer-skipped")
       \cup Tag(g /\ ~v.local /\ ~v.joined /\ ~FloodMode(v) /\ v.fanout = {} /\ v.fanoutPost # {}, "fanout-select")
       \cup Tag(g /\ ~v.local /\ ~v.joined /\ ~FloodMode(v) /\ v.fanout = {} /\ Cardinality(v.elig) > v.D, "fanout-select-more-than-D")
       \cup Tag(g /\ ~v.local /\ ~v.joined /\ ~FloodMode(v) /\ v.fanout = {} /\ Cardinality(v.elig) <= v.D /\ v.elig \cap v.atThr # {},
                 "fanout-select-needs-peer-at-threshold")
       \cup Tag(g /\ ~v.local /\ ~v.joined /\ ~FloodMode(v) /\ v.fanout = {} /\ v.tpKnown
                 /\ {p \in DirectIn(v) \cap v.queue : p \notin v.floodp /\ p \in v.ok} # {}, "fanout-select-skips-direct")
       \cup Tag(g /\ ~v.local /\ ~v.joined /\ ~FloodMode(v) /\ v.fanout # {}, "fanout-reuse")
       \cup Tag(g /\ ~v.local /\ ~v.joined /\ ~FloodMode(v) /\ v.fanout # {} /\ v.elig \ v.fanout # {}, "fanout-reuse-with-alternatives")
       \cup Tag(g /\ ~v.local /\ FloodMode(v) /\ v.tp \cap v.queue # {}, "flood-publish")
       \cup Tag(g /\ ~v.local /\ FloodMode(v) /\ {p \in v.tp \cap v.queue : p \notin v.ok /\ p \notin v.direct} # {}, "flood-publish-below-threshold")
       \cup Tag(g /\ v.floodPublish /\ v.src # v.self /\ v.joined
                 /\ {p \in v.tp \cap v.queue : p \notin v.floodp /\ p \in v.ok} \ (v.mesh \cup v.direct \cup Excl(v)) # {}, "forward-under-flood-publish")
       \cup Tag(g /\ ~v.local /\ FloodMode(v) /\ {p \in DirectIn(v) \cap v.queue : p \notin v.ok} # {}, "flood-publish-direct-below-threshold")
       \cup Tag(g /\ ~v.local /\ ~FloodMode(v) /\ {p \in DirectIn(v) \cap v.queue : p \notin v.ok} \ (Excl(v) \cup v.mesh) # {}, "direct-below-threshold")
       \cup Tag(v.local, "local-only")
       \cup Tag(v.local /\ ~v.batch /\ v.tp \cap v.queue # {}, "local-only-with-topic-peers")
       \cup Tag(v.local /\ v.batch /\ v.tp \cap v.queue # {}, "batch-local-only-with-topic-peers")
       \cup Tag(~v.local /\ v.batch /\ v.tp \cap v.queue # {}, "batch-publish")
       \cup Tag(v.router = "floodsub" /\ ~v.local /\ (v.tp \cap v.queue) \ Excl(v) # {}, "floodsub-router")
       \cup Tag(v.router = "randomsub" /\ ~v.local /\ Cardinality(rsp) > RandomSubD, "randomsub-above-D")
       \cup Tag(v.router = "randomsub" /\ ~v.local /\ Cardinality(rsp) <= RandomSubD /\ rsp # {}, "randomsub-below-D")
       \cup Tag(~v.local /\ (v.tp \ v.queue) \ Excl(v) # {}, "topic-peer-without-queue")
       \cup Tag(~v.local /\ v.queue \ (Known(v) \cup Excl(v)) # {}, "connected-peer-not-in-topic")
=============================================================================
