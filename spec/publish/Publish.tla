------------------------------- MODULE Publish -------------------------------
(* C06 - implementation-shaped model of the recipient computation of the three
   routers for ONE topic: GossipSubRouter.rpcs / getFanoutPeersForPublishing /
   the fanout part of heartbeat (gossipsub.go), FloodSubRouter.Publish,
   RandomSubRouter.Publish, and PubSub.publishMessage (local-only messages skip
   the router).  The state is named after the code; the actions are the stimuli
   of the shared scenario interpreter (harness/world), so that `hist` can be
   replayed into the real node (GenPublish.tla).

   The property predicates live in PublishRules.tla and are evaluated on `last`,
   the record of the most recent step.  Constants that switch a line of the
   code off exist for the configurations that MUST fail (non-vacuity):
     ExcludeSource     FALSE = the `pid == from` test of rpcs/Publish dropped
     EarlyReturn       TRUE  = rpcs returns at once when topics[t] is absent   (code as found, repaired by D21)
     FanoutUnfiltered  TRUE  = fanout members used without re-checking topics[t] (code as found, repaired by D22)
     BatchLocalSkipped FALSE = publishMessageBatch hands local-only messages of a batch to the router (code as found)
     Tolerated         failure kinds accepted as listed findings (empty)
   The registered configurations check the REPAIRED code (both FALSE, nothing
   tolerated); the as-found settings are kept as configurations that must fail. *)
EXTENDS Integers, Sequences, FiniteSets, TLC, PublishRules

CONSTANTS PeerSeq,        \* the peers, in the order scenarios create them
          ProtoOf,        \* peer -> "flood" | "random" | "v10" | "v11" | "v12" | "v13"  (fixed per peer, as for fake peers)
          Router,         \* "gossipsub" | "floodsub" | "randomsub"
          D, Dlo,         \* degree and low watermark (heartbeat grafts only when |mesh| < Dlo)
          FanoutTTL,      \* in heartbeats
          IDWTTL,         \* IDONTWANT time to live, in heartbeats
          Thr,            \* publish threshold (<= 0)
          ScoreVals,      \* application scores a scenario may assign
          FloodPublish,
          RsSize,         \* RandomSub size estimate
          MaxMsgs, MaxHist, MaxDirect, MaxUnwanted,
          IdwAhead,       \* an IDONTWANT may name any of the next IdwAhead messages (one id per RPC)
          IdwPerHb,       \* MaxIDontWantMessages: IDONTWANT RPCs of one peer handled per heartbeat interval
          ExcludeSource, EarlyReturn, FanoutUnfiltered, BatchLocalSkipped, Tolerated

Peers    == {PeerSeq[i] : i \in DOMAIN PeerSeq}
Self     == "self"
Outsider == "px"          \* a connected peer that never subscribes (authors messages, is never a recipient)
NoPub    == -1
Msgs     == 1..MaxMsgs

VARIABLES conn,      \* peers with an outbound stream: PubSub.peers (queue) and router.peers (protocol)
          ever,      \* peers that have been connected at some time (a fake peer exists for them)
          tp,        \* PubSub.topics[T]
          joined,    \* T in mesh (gossipsub) / subscribed (floodsub, randomsub)
          mesh,      \* mesh[T]
          fanKey,    \* fanout has an entry for T
          fanout,    \* fanout[T]
          lastpub,   \* lastpub[T] in ticks, NoPub = no entry
          firstpub,  \* ticks of the publish that selected the current fanout (coverage only)
          direct, score,
          unw,       \* unw[p][m] = remaining TTL of p's IDONTWANT for message m (0 = none)
          idwcnt,    \* peerdontwant: IDONTWANT RPCs of p counted in this heartbeat interval
          ticks,     \* heartbeats so far
          nmsg,      \* messages used so far (every publish/forward uses a fresh one)
          fanLost,   \* a heartbeat removed a fanout member since the fanout was selected (coverage)
          last,      \* record of the most recent step
          hist, tags \* history of stimuli, coverage tags collected on the way (scenario generation)

vars  == <<conn, ever, tp, joined, mesh, fanKey, fanout, lastpub, firstpub, direct, score, unw, idwcnt, ticks, nmsg, fanLost, last, hist, tags>>
mvars == <<conn, ever, tp, joined, mesh, fanKey, fanout, lastpub, firstpub, direct, score, unw, idwcnt, ticks, nmsg, fanLost, last>>

Gossip == Router = "gossipsub"
MeshFeature(p) == p \in conn /\ ProtoOf[p] \notin {"flood", "random"}
Unwanted(m) == {p \in Peers : unw[p][m] > 0}
OkSet == {p \in Peers : score[p] >= Thr}
Elig  == {p \in tp : MeshFeature(p) /\ p \notin direct /\ score[p] >= Thr}
NoUnw == [p \in Peers |-> [m \in Msgs |-> 0]]
H(a, p, q, v, b) == [a |-> a, p |-> p, q |-> q, v |-> v, b |-> b]

View(src, author, m, local, batch, fpost) ==
    [router |-> Router, self |-> Self, src |-> src, author |-> author, local |-> local, batch |-> batch,
     floodPublish |-> FloodPublish, D |-> D, tpKnown |-> tp # {}, tp |-> tp, joined |-> Gossip /\ joined,
     mesh |-> mesh, fanout |-> fanout, fanoutPost |-> fpost, direct |-> direct,
     floodp |-> IF Router = "randomsub" THEN {p \in conn : ProtoOf[p] = "flood"} ELSE {p \in Peers : ~MeshFeature(p)},
     elig |-> Elig, ok |-> OkSet, atThr |-> {p \in Peers : score[p] = Thr}, unwanted |-> Unwanted(m), unwantedLo |-> {},
     queue |-> conn, rsSize |-> RsSize]

-----------------------------------------------------------------------------
(* the recipient computation, in the shape of the code: a set of possible
   outcomes [R, fan, key, lp] (free choices of the code = several outcomes)    *)
Out(R, fan, key, lp) == [R |-> R, fan |-> fan, key |-> key, lp |-> lp]
Keep(R) == Out(R, fanout, fanKey, lastpub)
\* the final loop of rpcs / Publish: skip source and author; sendRPC needs a queue
Filter(S, src, author) == {p \in S : (ExcludeSource => p # src) /\ p # author /\ p \in conn}

RpcsFloodsub(src, author) == {Keep(Filter(tp, src, author))}

RpcsRandomsub(src, author) ==
    LET cand   == {p \in tp : (ExcludeSource => p # src) /\ p # author}
        fl     == {p \in cand : p \in conn /\ ProtoOf[p] = "flood"}
        rsp    == cand \ fl
        target == Min2(Cardinality(rsp), Max2(RandomSubD, CeilSqrt(RsSize)))
        picks  == IF Cardinality(rsp) > RandomSubD THEN SubsetsOfSize(rsp, target) ELSE {rsp}
    IN {Keep((fl \cup S) \cap conn) : S \in picks}

RpcsGossipsub(src, author, m) ==
    IF EarlyReturn /\ tp = {} THEN {Keep({})}
    ELSE IF FloodPublish /\ src = Self
      THEN {Keep(Filter({p \in tp : p \in direct \/ score[p] >= Thr}, src, author))}
    ELSE LET base == (direct \cap tp) \cup {p \in tp : ~MeshFeature(p) /\ score[p] >= Thr}
             wanted(G) == {p \in G : unw[p][m] = 0}
         IN IF joined THEN {Keep(Filter(base \cup wanted(mesh), src, author))}
            ELSE LET picks  == IF fanout # {} THEN {fanout}
                               ELSE SubsetsOfSize(Elig, Min2(D, Cardinality(Elig)))
                     use(F) == IF FanoutUnfiltered THEN F ELSE F \cap tp
                 IN {Out(Filter(base \cup wanted(use(F)), src, author), F, fanKey \/ F # {}, ticks) : F \in picks}

Rpcs(src, author, m) ==
    CASE Router = "floodsub"  -> RpcsFloodsub(src, author)
      [] Router = "randomsub" -> RpcsRandomsub(src, author)
      [] OTHER                -> RpcsGossipsub(src, author, m)

-----------------------------------------------------------------------------
Rec(h) == hist' = Append(hist, h)
Other  == last' = [kind |-> "other", fails |-> {}]

Init == /\ conn = {} /\ ever = {} /\ tp = {} /\ joined = FALSE /\ mesh = {} /\ fanKey = FALSE /\ fanout = {}
        /\ lastpub = NoPub /\ firstpub = NoPub /\ direct = {} /\ score = [p \in Peers |-> 0] /\ unw = NoUnw /\ idwcnt = [p \in Peers |-> 0]
        /\ ticks = 1 /\ nmsg = 0 /\ fanLost = FALSE /\ last = [kind |-> "none", fails |-> {}] /\ hist = <<>> /\ tags = {}

PeerUp(p, sub) ==
    /\ p \notin conn
    /\ conn' = conn \cup {p} /\ ever' = ever \cup {p}
    /\ tp' = IF sub THEN tp \cup {p} ELSE tp
    /\ Rec(H("peer", p, ProtoOf[p], 0, sub)) /\ Other
    /\ UNCHANGED <<joined, mesh, fanKey, fanout, lastpub, firstpub, direct, score, unw, idwcnt, ticks, nmsg, fanLost>>

Sub(p, v) ==
    /\ p \in conn /\ (p \in tp) # v
    /\ tp' = IF v THEN tp \cup {p} ELSE tp \ {p}
    /\ Rec(H("sub", p, "", 0, v)) /\ Other
    /\ UNCHANGED <<conn, ever, joined, mesh, fanKey, fanout, lastpub, firstpub, direct, score, unw, idwcnt, ticks, nmsg, fanLost>>

\* handleGraft: no SUBSCRIBE needed; refused for direct peers and negative scores
Graft(p) ==
    /\ Gossip /\ joined /\ p \in conn /\ p \notin mesh
    /\ mesh' = IF p \notin direct /\ score[p] >= 0 THEN mesh \cup {p} ELSE mesh
    /\ Rec(H("graft", p, "", 0, FALSE)) /\ Other
    /\ UNCHANGED <<conn, ever, tp, joined, fanKey, fanout, lastpub, firstpub, direct, score, unw, idwcnt, ticks, nmsg, fanLost>>

SetScore(p, v) ==
    /\ Gossip /\ p \in conn /\ score[p] # v
    /\ score' = [score EXCEPT ![p] = v]
    /\ Rec(H("score", p, "", v, FALSE)) /\ Other
    /\ UNCHANGED <<conn, ever, tp, joined, mesh, fanKey, fanout, lastpub, firstpub, direct, unw, idwcnt, ticks, nmsg, fanLost>>

SetDirect(p) ==
    /\ Gossip /\ p \in conn /\ p \notin direct /\ Cardinality(direct) < MaxDirect
    /\ direct' = direct \cup {p}
    /\ Rec(H("direct", p, "", 0, TRUE)) /\ Other
    /\ UNCHANGED <<conn, ever, tp, joined, mesh, fanKey, fanout, lastpub, firstpub, score, unw, idwcnt, ticks, nmsg, fanLost>>

\* one IDONTWANT RPC naming the k-th message from now (handleIDontWant: RPCs beyond the per-heartbeat budget are
\* ignored; the ids of successive RPCs ACCUMULATE in the peer's set)
IDontWant(p, k) ==
    /\ Gossip /\ p \in conn /\ k \in (nmsg + 1)..Min2(nmsg + IdwAhead, MaxMsgs)
    /\ Cardinality({x \in Peers : \E m \in Msgs : unw[x][m] > 0} \cup {p}) <= MaxUnwanted
    /\ IF idwcnt[p] < IdwPerHb
         THEN unw' = [unw EXCEPT ![p][k] = IDWTTL] /\ idwcnt' = [idwcnt EXCEPT ![p] = @ + 1]
         ELSE UNCHANGED <<unw, idwcnt>>
    /\ Rec(H("idontwant", p, "", k, FALSE)) /\ Other
    /\ UNCHANGED <<conn, ever, tp, joined, mesh, fanKey, fanout, lastpub, firstpub, direct, score, ticks, nmsg, fanLost>>

\* RemovePeer + clearPeerFromTopicsState
Down(p) ==
    /\ p \in conn
    /\ conn' = conn \ {p} /\ tp' = tp \ {p} /\ mesh' = mesh \ {p} /\ fanout' = fanout \ {p}
    /\ unw' = [unw EXCEPT ![p] = [m \in Msgs |-> 0]]
    /\ UNCHANGED idwcnt
    /\ Rec(H("down", p, "", 0, FALSE)) /\ Other
    /\ UNCHANGED <<ever, joined, fanKey, lastpub, firstpub, direct, score, ticks, nmsg, fanLost>>

\* Join: promote the fanout (negative scores dropped), fill up to D
Subscribe ==
    /\ ~joined /\ joined' = TRUE
    /\ IF ~Gossip THEN UNCHANGED mesh
       ELSE LET kept  == {p \in fanout : score[p] >= 0}
                cands == {p \in tp : MeshFeature(p) /\ p \notin kept /\ p \notin direct /\ score[p] >= 0}
                need  == IF Cardinality(kept) < D THEN Min2(D - Cardinality(kept), Cardinality(cands)) ELSE 0
            IN \E S \in SubsetsOfSize(cands, need) : mesh' = kept \cup S
    /\ fanout' = {} /\ fanKey' = FALSE /\ lastpub' = NoPub /\ firstpub' = NoPub /\ fanLost' = FALSE
    /\ Rec(H("subscribe", "", "", 0, FALSE)) /\ Other
    /\ UNCHANGED <<conn, ever, tp, direct, score, unw, idwcnt, ticks, nmsg>>

\* heartbeat: mesh (negative scores pruned, refill when below Dlo), fanout expiry and maintenance, IDONTWANT TTL
Heartbeat ==
    LET expired == lastpub # NoPub /\ lastpub + FanoutTTL <= ticks
        mkept   == {p \in mesh : score[p] >= 0}
        mcands  == {p \in tp : MeshFeature(p) /\ p \notin mesh /\ p \notin direct /\ score[p] >= 0}
        mneed   == IF Gossip /\ joined /\ Cardinality(mkept) < Dlo THEN Min2(D - Cardinality(mkept), Cardinality(mcands)) ELSE 0
        fkept   == {p \in fanout : p \in tp /\ score[p] >= Thr}
        fcands  == {p \in tp : MeshFeature(p) /\ p \notin fkept /\ p \notin direct /\ score[p] >= Thr}
        fneed   == IF fanKey /\ Cardinality(fkept) < D THEN Min2(D - Cardinality(fkept), Cardinality(fcands)) ELSE 0
    IN /\ ticks' = ticks + 1
       /\ unw' = [p \in Peers |-> [m \in Msgs |-> IF unw[p][m] > 0 THEN unw[p][m] - 1 ELSE 0]]
       /\ idwcnt' = [p \in Peers |-> 0]
       /\ \E S \in SubsetsOfSize(mcands, mneed) : mesh' = mkept \cup S
       /\ IF expired THEN fanout' = {} /\ fanKey' = FALSE /\ lastpub' = NoPub /\ firstpub' = NoPub /\ fanLost' = FALSE
          ELSE /\ \E S \in SubsetsOfSize(fcands, fneed) : fanout' = (IF fanKey THEN fkept ELSE fanout) \cup S
               /\ fanLost' = (fanLost \/ (fanKey /\ fanout \ fkept # {}))
               /\ UNCHANGED <<fanKey, lastpub, firstpub>>
       /\ LET h == [fanout |-> fanout, fanoutPost |-> fanout', tp |-> tp, ok |-> OkSet, atThr |-> {p \in Peers : score[p] = Thr}, direct |-> direct, queue |-> conn,
                     elig |-> Elig, D |-> D, expired |-> expired, excused |-> {}]
          IN last' = [kind |-> "hb", expired |-> expired /\ fanout # {}, h |-> h,
                      keptPast |-> ~expired /\ fanout' # {} /\ firstpub # NoPub /\ firstpub + FanoutTTL <= ticks,
                      fails |-> {<<"P_C06_FanoutStable", k>> : k \in C06_FanoutKept_F(h)}]
       /\ Rec(H("hb", "", "", 0, FALSE))
       /\ UNCHANGED <<conn, ever, tp, joined, direct, score, nmsg>>

\* publishMessage skips the router for local-only messages; publishMessageBatch must do the same
DoMsg(src, author, local, batch, h) ==
    /\ nmsg < MaxMsgs
    /\ LET m == nmsg + 1 IN
       \E o \in (IF local /\ (~batch \/ BatchLocalSkipped) THEN {Keep({})} ELSE Rpcs(src, author, m)) :
          /\ fanout' = o.fan /\ fanKey' = o.key /\ lastpub' = o.lp
          /\ firstpub' = IF fanout = {} /\ o.fan # {} THEN ticks ELSE firstpub
          /\ LET v == View(src, author, m, local, batch, o.fan)
             IN last' = [kind |-> IF src = Self THEN "pub" ELSE "fwd", v |-> v, R |-> o.R, lost |-> fanLost,
                         multi |-> [p \in Peers |-> Cardinality({x \in Msgs : unw[p][x] > 0}) >= 2],
                         fails |-> StepFailures(v, o.R, o.R)]
    /\ nmsg' = nmsg + 1 /\ Rec(h)
    /\ UNCHANGED <<conn, ever, tp, joined, mesh, direct, score, unw, idwcnt, ticks, fanLost>>

\* batch = the message is part of a batch; consecutive batch publications of a history form ONE PublishBatch call
Publish(local, batch) == /\ (batch => Gossip)
                         /\ DoMsg(Self, Self, local, batch, H("publish", "", IF batch THEN "batch" ELSE "", nmsg + 1, local))

\* a remote message is accepted only while subscribed
Forward(src, author) ==
    /\ joined /\ src \in conn /\ author \in ever \cup {Outsider}
    /\ DoMsg(src, author, FALSE, FALSE, H("msg", src, author, nmsg + 1, FALSE))

\* coverage tags of the last step (scenario generation; the real ones are recomputed by PublishTrace)
LastTags ==
    CASE last.kind \in {"pub", "fwd"} ->
           StepTags(last.v, last.R)
           \cup Tag(Gossip /\ ~last.v.local /\ ~FloodMode(last.v)
                    /\ \E p \in (last.v.unwanted \cap (last.v.mesh \cup last.v.fanout) \cap last.v.queue) \ (Excl(last.v) \cup DirectIn(last.v)) : last.multi[p],
                    "idontwant-several-rpcs")
           \cup Tag(last.lost /\ Gossip /\ ~last.v.local /\ ~last.v.joined /\ ~FloodMode(last.v) /\ last.v.fanout # {},
                    "fanout-reuse-after-member-removed")
      [] last.kind = "hb" -> Tag(last.expired, "fanout-expiry")
                             \cup Tag(last.h.fanout \ last.h.fanoutPost # {} /\ ~last.expired, "fanout-member-removed")
                             \cup Tag(last.h.fanoutPost \ last.h.fanout # {}, "fanout-refill")
                             \cup Tag(last.keptPast, "fanout-kept-past-first-ttl")
                             \cup Tag(~last.h.expired /\ last.h.fanout \cap last.h.atThr \cap last.h.tp # {}, "fanout-member-at-threshold")
      [] OTHER -> {}

Step == \/ \E p \in Peers, b \in BOOLEAN : PeerUp(p, b) \/ Sub(p, b)
        \/ \E p \in Peers : Graft(p) \/ SetDirect(p) \/ Down(p)
        \/ \E p \in Peers, k \in Msgs : IDontWant(p, k)
        \/ \E p \in Peers, v \in ScoreVals : SetScore(p, v)
        \/ Subscribe \/ Heartbeat
        \/ \E b, c \in BOOLEAN : Publish(b, c)
        \/ \E s \in Peers, a \in Peers \cup {Outsider} : Forward(s, a)

Next == Len(hist) < MaxHist /\ Step /\ tags' = tags \cup LastTags'
Spec == Init /\ [][Next]_vars

-----------------------------------------------------------------------------
(* properties: the failures of the last step (StepFailures / C06_FanoutKept_F of PublishRules) *)
Fails == last.fails          \* computed once, when the step is taken
Holds(name) == \A f \in Fails : f[1] = name => f[2] \in Tolerated

P_C06_Never        == Holds("P_C06_Never")
P_C06_Direct       == Holds("P_C06_Direct")
P_C06_Flood        == Holds("P_C06_Flood")
P_C06_Mesh         == Holds("P_C06_Mesh")
P_C06_Fanout       == Holds("P_C06_Fanout")
P_C06_FanoutStable == Holds("P_C06_FanoutStable")
P_C06_FloodPublish == Holds("P_C06_FloodPublish")
P_C06_Floodsub     == Holds("P_C06_Floodsub")
P_C06_Randomsub    == Holds("P_C06_Randomsub")

TypeOK == /\ conn \subseteq Peers /\ tp \subseteq Peers /\ mesh \subseteq conn /\ fanout \subseteq conn
          /\ (mesh # {} => joined) /\ (fanout # {} => fanKey /\ ~joined) /\ Cardinality(fanout) <= Max2(D, 0)
          /\ (fanKey => lastpub # NoPub) /\ nmsg <= MaxMsgs

=============================================================================
