-------------------------- MODULE SubFilterFnTrace --------------------------
(* Trace specification for X07, function level.  Every line of trace.ndjson is one input (list of subscription
   entries, allow-set) and what the REAL filters of subscription_filter.go returned for it (harness/drivers/x07
   TestX07Fn): FilterSubscriptions itself, the allowlist filter, the regexp filter, and both wrapped by
   WrapLimitSubscriptionFilter with limits len-1, len, len+1.  The spec is a function of the trace: every line is
   accepted, failing predicates are PRINTED (<<"VIOL", json>>), coverage tags likewise (<<"COV", json>>).

     P_X07_OnlyAllowed, P_X07_AtMostOne, P_X07_FromInput   shape of a result (X07.a)
     P_X07_NetEffect        meaning (X07.b); `explained` says whether the result is exactly what the transcribed
                            algorithm of the code as found (SubFilterFn!FilterCancel) yields: finding X07-F1
     P_X07_Limit            error iff more than `limit` RAW entries, nothing returned with the error (X07.c)
     P_X07_CanSubscribe     CanSubscribe(t) iff t is allowed, for every filter incl. the wrapper (X07.a, X07.c)
     P_X07_Idempotent, P_X07_OrderInsensitive               (X07.h)
     P_X07_NoPanic          no filter panics on any input                                            *)
EXTENDS SubFilterFn, Integers, TLC, Json

Trace == ndJsonDeserialize("trace.ndjson")
VARIABLES l, tags       \* cursor; coverage tags seen so far (a tag is printed the first time it occurs)
E == Trace[l]

JudgeVar(e, v) ==
    LET subs  == e.subs
        allow == ToSet(e.allow)
        Uu    == ToSet(e.u)
        out   == ToSet(v.out)
        expErr == LimitRejects(subs, v.limit)
        base  == [id |-> e.id, kind |-> v.kind, limit |-> v.limit]     \* the check script looks the case up by id
        ok    == ~expErr /\ v.err = ""
        V(pred, why, expl) == [pred |-> pred, why |-> why, explained |-> expl, at |-> base]
    IN  (IF v.panic THEN {V("P_X07_NoPanic", v.err, FALSE)} ELSE {})
   \cup (IF ~v.panic /\ expErr # (v.err # "") THEN {V("P_X07_Limit", IF expErr THEN "no error above the limit" ELSE "error at or below the limit", FALSE)} ELSE {})
   \cup (IF expErr /\ v.err # "" /\ v.err # "ErrTooManySubscriptions" THEN {V("P_X07_Limit", "wrong error: " \o v.err, FALSE)} ELSE {})
   \cup (IF v.err # "" /\ v.out # <<>> THEN {V("P_X07_Limit", "subscriptions returned together with an error", FALSE)} ELSE {})
   \cup (IF ~v.panic /\ ToSet(v.can) # allow \cap Uu THEN {V("P_X07_CanSubscribe", "CanSubscribe differs from the allow-set", FALSE)} ELSE {})
   \cup (IF ok /\ ~OnlyAllowed(out, allow) THEN {V("P_X07_OnlyAllowed", "a disallowed topic in the result", FALSE)} ELSE {})
   \cup (IF ok /\ (~AtMostOnePerTopic(out) \/ Cardinality(out) # Len(v.out)) THEN {V("P_X07_AtMostOne", "a topic twice in the result", FALSE)} ELSE {})
   \cup (IF ok /\ ~FromInput(subs, out) THEN {V("P_X07_FromInput", "an entry that is not in the input", FALSE)} ELSE {})
   \cup (IF ok /\ OnlyAllowed(out, allow) /\ AtMostOnePerTopic(out) /\ ~NetEffectC(subs, allow, out, Uu)
           THEN {V("P_X07_NetEffect", "result differs from the net effect of the allowed part of the input", out = FilterCancel(subs, allow))} ELSE {})
   \cup (IF ok /\ (ToSet(v.out2) # out \/ Len(v.out2) # Len(v.out)) THEN {V("P_X07_Idempotent", "filtering the result again changed it", FALSE)} ELSE {})
   \cup (IF ok /\ ToSet(v.outSorted) # out THEN {V("P_X07_OrderInsensitive", "reordering entries of different topics changed the result", FALSE)} ELSE {})

CovVar(e, v) ==
    LET subs == e.subs  allow == ToSet(e.allow)  out == ToSet(v.out) IN
    (IF v.limit >= 0 THEN {IF Len(subs) > v.limit THEN "limit:over" ELSE IF Len(subs) = v.limit THEN "limit:exact" ELSE "limit:under"} ELSE {})
    \cup (IF v.limit >= 0 /\ Len(subs) > v.limit /\ Cardinality(FilterCancel(subs, allow)) <= v.limit /\ v.err # "" THEN {"limit:rawNotDeduped"} ELSE {})
    \cup (IF v.err = "" /\ out = FilterCancel(subs, allow) THEN {"asCancelFold"} ELSE {})
    \cup (IF v.err = "" /\ out = FilterLast(subs, allow) THEN {"asLastWins"} ELSE {})
    \cup {"kind:" \o v.kind}

Cov(e) ==
    LET subs == e.subs  allow == ToSet(e.allow) IN
    UNION {CovVar(e, e.vars[i]) : i \in DOMAIN e.vars}
    \cup (IF \E t \in TopicsOf(subs) \cap allow : \E i, j \in IdxOf(subs, t) : subs[i].s # subs[j].s THEN {"contradiction"} ELSE {})
    \cup (IF \E t \in TopicsOf(subs) \cap allow : \E i, j \in IdxOf(subs, t) : i # j /\ subs[i].s = subs[j].s THEN {"repeat"} ELSE {})
    \cup (IF \E t \in TopicsOf(subs) \cap allow : \E i, j \in IdxOf(subs, t) : i # j /\ subs[i].s /\ subs[j].s /\ subs[i].r # subs[j].r THEN {"repeatOtherPartial"} ELSE {})
    \cup (IF FilterCancel(subs, allow) # FilterLast(subs, allow) THEN {"cancelDiffersFromLast"} ELSE {})
    \cup (IF \E t \in TopicsOf(subs) \cap allow : Cardinality(IdxOf(subs, t)) >= 3 /\ \E e2 \in FilterCancel(subs, allow) : e2.t = t /\ \E i, j \in IdxOf(subs, t) : subs[i].s # subs[j].s
            THEN {"restartAfterCancel"} ELSE {})
    \cup (IF TopicsOf(subs) \ allow # {} THEN {"disallowedDropped"} ELSE {})
    \cup (IF \E i \in DOMAIN subs : subs[i].t \notin allow /\ ~subs[i].s THEN {"disallowedUnsubDropped"} ELSE {})
    \cup (IF subs # <<>> /\ FilterCancel(subs, allow) = {} THEN {"emptyResult"} ELSE {})

TInit == TLCSet(1, 0) /\ l = 1 /\ tags = {}
TStep == /\ l <= Len(Trace)
         /\ \A i \in DOMAIN E.vars : \A v \in JudgeVar(E, E.vars[i]) : PrintT(<<"VIOL", ToJson(v)>>)
         /\ LET c == Cov(E) IN
              /\ (c \ tags # {}) => PrintT(<<"COV", ToJson([id |-> E.id, tags |-> c \ tags])>>)
              /\ tags' = tags \cup c
         /\ l' = l + 1
TraceSpec == TInit /\ [][TStep]_<<l, tags>>

HW == IF TLCGet(1) < l THEN TLCSet(1, l) ELSE TRUE
Accepted == PrintT(<<"HW", TLCGet(1), Len(Trace) + 1>>)
=============================================================================
