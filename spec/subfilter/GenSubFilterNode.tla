-------------------------- MODULE GenSubFilterNode --------------------------
(* Scenario generator for X07, node level: every sequence of exactly L stimuli over the alphabet selected by Kinds
   (exhaustively, or seeded random with -simulate), for one real node with a subscription filter and the fake peers
   Peers.  Only INPUTS are emitted (the action format of harness/drivers/x07); what the real node does with them is
   judged by SubFilterNodeTrace.  The check script adds the prologue (connects, initial subscriptions) and resolves
   the payload codes: "none", "msg:<topic>" (a fresh message), "again" (the previous message once more),
   "graft:<topic>", "msg+graft:<topic>".  The little state only keeps cancel/unrelay meaningful. *)
EXTENDS Naturals, Sequences, FiniteSets, TLC, Json

CONSTANTS U, Allow, Peers, L, Kinds,
          SubTopics, SubLens, WithPartial,   \* subscription lists an RPC may carry
          Pays,                              \* payload codes an RPC may carry
          ApiTopics, MaxRef

VARIABLES nsubs, nrelays, hist
vars == <<nsubs, nrelays, hist>>

Entries == {e \in [t : SubTopics, s : BOOLEAN, r : BOOLEAN] : (e.r => e.s) /\ (e.r => WithPartial)}
SubLists == UNION {[1..k -> Entries] : k \in SubLens}

Init == nsubs = [t \in U |-> 0] /\ nrelays = [t \in U |-> 0] /\ hist = <<>>
K(k) == k \in Kinds /\ Len(hist) < L
Add(a) == hist' = Append(hist, a)

Rpc(p, subs, pay) == /\ K("rpc") /\ Add([a |-> "rpc", p |-> p, subs |-> subs, pay |-> pay]) /\ UNCHANGED <<nsubs, nrelays>>
Api(k, t) ==
    /\ K(k) /\ Add([a |-> k, t |-> t])
    /\ CASE k \in {"subscribe", "psubscribe"} -> /\ nsubs[t] < MaxRef
                                                 /\ nsubs' = IF t \in Allow THEN [nsubs EXCEPT ![t] = @ + 1] ELSE nsubs
                                                 /\ UNCHANGED nrelays
         [] k = "relay"   -> /\ nrelays[t] < MaxRef
                             /\ nrelays' = IF t \in Allow THEN [nrelays EXCEPT ![t] = @ + 1] ELSE nrelays
                             /\ UNCHANGED nsubs
         [] k = "cancel"  -> nsubs[t] > 0 /\ nsubs' = [nsubs EXCEPT ![t] = @ - 1] /\ UNCHANGED nrelays
         [] k = "unrelay" -> nrelays[t] > 0 /\ nrelays' = [nrelays EXCEPT ![t] = @ - 1] /\ UNCHANGED nsubs
         [] OTHER -> UNCHANGED <<nsubs, nrelays>>
Hb == K("hb") /\ Add([a |-> "hb"]) /\ UNCHANGED <<nsubs, nrelays>>

ApiKinds == {"join", "subscribe", "psubscribe", "ppublish", "publish", "relay", "cancel", "unrelay"}
Next == \/ \E p \in Peers, subs \in SubLists, pay \in Pays : Rpc(p, subs, pay)
        \/ \E k \in ApiKinds, t \in ApiTopics : Api(k, t)
        \/ Hb
Spec == Init /\ [][Next]_vars

Emit == Len(hist) = L => PrintT(<<"SCN", ToJson([acts |-> hist])>>)
=============================================================================
