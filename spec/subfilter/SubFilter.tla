------------------------------ MODULE SubFilter ------------------------------
(* PROPERTIES X07 - subscription filters (subscription_filter.go and their uses in pubsub.go)

   X07.a  FilterSubscriptions / allowlist / regexp filters, shape of the result: for every list of subscription
          entries and every predicate the result contains only topics the predicate allows, at most one entry per
          topic, only entries taken from the input, and no error.
          [subscription_filter.go: FilterSubscriptions, allowlistSubscriptionFilter, rxSubscriptionFilter;
           predicates P_X07_OnlyAllowed, P_X07_AtMostOne, P_X07_FromInput, P_X07_CanSubscribe]
   X07.b  Net effect (meaning): whatever the receiver believed about the sender before, processing the filter's
          result gives the belief that processing the allowed part of the raw list in order gives (what a node
          without a filter does with those topics).  The code as found does NOT have this property for lists that
          repeat a topic: a contradictory pair cancels instead of the later entry winning, and of two equal
          notifications the first wins (its requestsPartial flag is kept), finding X07-F1.  What the code does
          guarantee is P_X07_NetEffectConsistent: equality of subscribed-ness for senders that announce every change
          of their state once (alternating flags that start by contradicting the receiver's belief).
          [FilterSubscriptions lines 104-111 + PubSub.handleIncomingRPC lines 1497-1533;
           predicates P_X07_NetEffect (known finding when explained by the cancelling fold), P_X07_NetEffectConsistent]
   X07.c  Limit wrapper: an RPC with MORE than `limit` raw subscription entries (counted before filtering and
          de-duplication, as the doc comment "number of subscriptions allowed in an RPC message" says) is refused with
          ErrTooManySubscriptions and nothing at all is returned; with exactly `limit` or fewer entries the result is
          exactly the wrapped filter's result; CanSubscribe is the wrapped filter's.
          [limitSubscriptionFilter.FilterIncomingSubscriptions / CanSubscribe; predicates P_X07_Limit, P_X07_CanSubscribe]
   X07.d  A node with a filter never records interest of a peer in a disallowed topic: p.topics, ListPeers and the
          peer events of its topics only ever mention allowed topics, and for allowed topics they follow X07.b.
          [PubSub.handleIncomingRPC lines 1487-1495; predicates P_X07_NoDisallowedInterest, P_X07_Belief, P_X07_ListPeers,
           P_X07_PeerEvents]
   X07.e  A node with a filter never joins, subscribes to, relays or publishes on a disallowed topic: Join,
          PubSub.Subscribe, PubSub.Publish (and hence Topic.Subscribe/Relay/Publish, which need a handle) return an
          error, the topic never shows in GetTopics / myTopics / mySubs / myRelays, no announcement or GRAFT for it
          leaves the node, no message of it is validated, delivered or forwarded, and a GRAFT for it is ignored
          (no mesh entry).  Allowed topics are never refused by the filter.
          [PubSub.tryJoin line 1788, Join, Subscribe, Publish; subscribedToMsg/canRelayMsg; GossipSubRouter.handleGraft
           unknown-topic branch; predicates P_X07_JoinRefused, P_X07_AllowedNotRefused, P_X07_NoDisallowedAnnounce,
           P_X07_NoDisallowedTraffic]
   X07.f  An RPC whose subscriptions the filter refuses (error) is ignored as a whole: no subscription of it is
          applied, none of its messages is validated / delivered / forwarded / marked seen (the same message sent
          again in an acceptable RPC is a first delivery), none of its control is handled (a GRAFT does not admit the
          sender, no PRUNE answers it) and the sender is not penalised.  The doc comments say only that the filter "may
          return an error"; the behaviour is the code's (log line "subscription filter error; ignoring RPC"); the RPC
          is still reported to the tracer (RecvRPC precedes the filter).
          [PubSub.handleIncomingRPC lines 1488-1494; predicate P_X07_RejectedRpcIgnored]
   X07.g  An RPC the filter accepts - including one from which it removed entries, and one with exactly `limit`
          entries - is processed in full: its messages of subscribed topics are delivered (or counted as duplicates),
          its GRAFT for a subscribed topic admits the sender.
          [PubSub.handleIncomingRPC after line 1495; predicate P_X07_RestProcessed]
   X07.h  Filtering is idempotent (filtering a result again, in any order, returns it) and insensitive to the order
          of entries of DIFFERENT topics (the result is a function of the per-topic subsequences).
          [FilterSubscriptions; predicates P_X07_Idempotent, P_X07_OrderInsensitive]

   This module is the node-level model: one action per event-loop turn (handleIncomingRPC of one RPC; one API call).
   The function level lives in SubFilterFn.tla / MCSubFilterFn.tla.  Deliberate deviations: one message per RPC at
   most, the router is reduced to "GRAFT for a topic with a mesh admits the sender", validation is instantaneous,
   peers never disconnect (C05 covers that part of p.topics).  The constants after Limit select seeded model
   defects that MUST violate a property (non-vacuity); Dedup = "cancel" is the code as found. *)
EXTENDS SubFilterFn, TLC

CONSTANTS U,            \* universe of topics
          Allow,        \* topics the filter allows
          Peers,
          Limit,        \* -1: no WrapLimitSubscriptionFilter
          MaxSubs,      \* longest subscription list in one RPC
          WithPartial,  \* FALSE: entries without the requestsPartial flag only (smaller state space)
          Msgs,         \* messages that may arrive: records [m, t]
          Dedup,        \* "cancel" (as found) | "last" (repair)
          FilterOnRecv, \* FALSE: handleIncomingRPC forgets to consult the filter when there is a single entry
          LimitCmp,     \* "gt" (as written) | "ge"
          LimitCountsRaw,  \* TRUE (as written) | FALSE: the limit is applied to the filtered list
          ErrIgnoresAll,   \* TRUE (as written) | FALSE: after a filter error the rest of the RPC is still handled
          JoinChecked,     \* TRUE (as written) | FALSE: tryJoin does not consult CanSubscribe
          PartialSkipsRest \* FALSE (as written) | TRUE: an RPC from which entries were removed is dropped

VARIABLES bel,        \* bel[p][t]: the node's p.topics, cell values "no" / "sub" / "subP"
          joined,     \* topics with a Topic handle (myTopics)
          mysubs,     \* topics with a subscription (mySubs)
          announced,  \* topics for which an announcement ever left the node
          seen,       \* message names marked seen (= delivered to the subscription in this model)
          mesh,       \* mesh[t]: peers admitted by GRAFT
          last        \* the last turn (stimulus + state before), read by the step properties

vars == <<bel, joined, mysubs, announced, seen, mesh, last>>

Entries == {e \in [t : U, s : BOOLEAN, r : BOOLEAN] : (e.r => e.s) /\ (e.r => WithPartial)}
SubLists == UNION {[1..n -> Entries] : n \in 0..MaxSubs}
NoLast == [kind |-> "none"]

Init == /\ bel = [p \in Peers |-> [t \in U |-> "no"]]
        /\ joined = {} /\ mysubs = {} /\ announced = {} /\ seen = {}
        /\ mesh = [t \in U |-> {}] /\ last = NoLast

Filtered(subs) == IF Dedup = "last" THEN FilterLast(subs, Allow) ELSE FilterCancel(subs, Allow)
Consulted(subs) == subs # <<>> /\ (FilterOnRecv \/ Len(subs) > 1)
Count(subs) == IF LimitCountsRaw THEN Len(subs) ELSE Cardinality(Filtered(subs))
Refused(subs) == /\ Consulted(subs) /\ Limit >= 0
                 /\ IF LimitCmp = "gt" THEN Count(subs) > Limit ELSE Count(subs) >= Limit

\* one turn of handleIncomingRPC
Recv(p, subs, msgs, graft) ==
    LET dropAll == \/ Refused(subs) /\ ErrIgnoresAll
                   \/ PartialSkipsRest /\ Consulted(subs) /\ ~Refused(subs) /\ Cardinality(Filtered(subs)) # Len(subs)
        row == IF Refused(subs) THEN bel[p]
               ELSE IF Consulted(subs) THEN ApplySet(bel[p], Filtered(subs))
               ELSE SeqApply(bel[p], subs, 1)
    IN /\ last' = [kind |-> "rpc", p |-> p, subs |-> subs, msgs |-> msgs, graft |-> graft,
                   before |-> <<bel, seen, mesh>>]
       /\ IF dropAll THEN UNCHANGED <<bel, seen, mesh>>
          ELSE /\ bel' = [bel EXCEPT ![p] = row]
               /\ seen' = seen \cup {x.m : x \in {x \in msgs : x.t \in mysubs}}
               /\ mesh' = [t \in U |-> IF t \in graft /\ t \in mysubs THEN mesh[t] \cup {p} ELSE mesh[t]]
       /\ UNCHANGED <<joined, mysubs, announced>>

\* Join / Subscribe (tryJoin + Topic.Subscribe + announce)
Subscribe(t) ==
    LET refused == JoinChecked /\ t \notin Allow IN
    /\ last' = [kind |-> "api", t |-> t, err |-> refused]
    /\ IF refused THEN UNCHANGED <<joined, mysubs, announced>>
       ELSE joined' = joined \cup {t} /\ mysubs' = mysubs \cup {t} /\ announced' = announced \cup {t}
    /\ UNCHANGED <<bel, seen, mesh>>

Cancel(t) ==
    /\ t \in mysubs
    /\ last' = [kind |-> "cancel", t |-> t]
    /\ mysubs' = mysubs \ {t} /\ mesh' = [mesh EXCEPT ![t] = {}] /\ announced' = announced
    /\ UNCHANGED <<bel, joined, seen>>

\* besides its subscriptions an RPC carries nothing, one message, or one GRAFT
Payloads == {[msgs |-> {}, graft |-> {}]} \cup {[msgs |-> {x}, graft |-> {}] : x \in Msgs}
            \cup {[msgs |-> {}, graft |-> {t}] : t \in U}
Next == \/ \E p \in Peers, subs \in SubLists, pl \in Payloads : Recv(p, subs, pl.msgs, pl.graft)
        \/ \E t \in U : Subscribe(t) \/ Cancel(t)

Spec == Init /\ [][Next]_vars

\* ---------------------------------------------------------------- properties
TypeOK == /\ bel \in [Peers -> [U -> Vals]] /\ joined \subseteq U /\ mysubs \subseteq joined
          /\ seen \subseteq {x.m : x \in Msgs} /\ mesh \in [U -> SUBSET Peers]

P_X07_NoDisallowedInterest == \A p \in Peers, t \in U : bel[p][t] # "no" => t \in Allow
P_X07_JoinRefused == /\ joined \subseteq Allow /\ mysubs \subseteq Allow /\ announced \subseteq Allow
                     /\ (last.kind = "api" /\ last.t \notin Allow) => last.err
P_X07_AllowedNotRefused == (last.kind = "api" /\ last.t \in Allow) => ~last.err
P_X07_NoDisallowedTraffic == /\ \A x \in Msgs : x.m \in seen => x.t \in Allow
                             /\ \A t \in U \ Allow : mesh[t] = {}
IsRpc == last.kind = "rpc"
Over == IsRpc /\ LimitRejects(last.subs, Limit)
P_X07_NetEffect ==
    (IsRpc /\ ~Over) => bel[last.p] = SeqApply(last.before[1][last.p], AllowedPart(last.subs, Allow), 1)
P_X07_NetEffectConsistent ==
    (IsRpc /\ ~Over /\ Consistent(last.before[1][last.p], last.subs, Allow)) =>
        \A t \in U : (bel[last.p][t] = "no") = (SeqApply(last.before[1][last.p], AllowedPart(last.subs, Allow), 1)[t] = "no")
P_X07_RejectedRpcIgnored == Over => <<bel, seen, mesh>> = last.before
P_X07_RestProcessed ==
    (IsRpc /\ ~Over) => /\ \A x \in last.msgs : x.t \in mysubs => x.m \in seen
                        /\ \A t \in last.graft : t \in mysubs => last.p \in mesh[t]
=============================================================================
