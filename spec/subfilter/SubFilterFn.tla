----------------------------- MODULE SubFilterFn -----------------------------
(* X07, function level: the subscription filters of subscription_filter.go as pure functions.

   An entry of RPC.subscriptions is a record [t |-> topic, s |-> subscribe flag, r |-> requestsPartial flag].
   One cell of the receiver's belief p.topics[t][peer] is "no" (absent), "sub" or "subP" (present, the peer
   asked for partial messages). A row B of the belief is a function Universe -> {"no", "sub", "subP"}.

   Two levels:
     FilterCancel   the algorithm of FilterSubscriptions transcribed line by line (implementation-shaped):
                    a map topic -> first surviving entry; an entry with the SAME flag as the surviving one is
                    dropped (first of equals wins), an entry with the OPPOSITE flag deletes the map entry (the
                    pair cancels) and a later entry for that topic starts afresh.
     NetEffect      the meaning: whatever the receiver believed before, processing the filter's output gives
                    the same belief as processing the allowed part of the input in order (which is what
                    handleIncomingRPC does when no filter is installed).  FilterLast (the last entry of every
                    allowed topic) satisfies it; FilterCancel does NOT (finding X07-F1, see SubFilter.tla). *)
EXTENDS Naturals, Sequences, FiniteSets

Vals == {"no", "sub", "subP"}
Val(e) == IF ~e.s THEN "no" ELSE IF e.r THEN "subP" ELSE "sub"
ToSet(q) == {q[i] : i \in DOMAIN q}
TopicsOf(subs) == {subs[i].t : i \in DOMAIN subs}
AllowedPart(subs, allow) == SelectSeq(subs, LAMBDA e : e.t \in allow)

\* ---------------------------------------------------------------- FilterSubscriptions as written (lines 94-124)
RECURSIVE FoldLoop(_, _, _, _)
FoldLoop(subs, allow, i, acc) ==           \* acc[t] = index of the entry held in accept[t], 0 = no entry
    IF i > Len(subs) THEN acc
    ELSE LET e == subs[i] IN
         IF e.t \notin allow THEN FoldLoop(subs, allow, i + 1, acc)                          \* if !filter(topic) { continue }
         ELSE IF acc[e.t] # 0
              THEN IF e.s # subs[acc[e.t]].s
                     THEN FoldLoop(subs, allow, i + 1, [acc EXCEPT ![e.t] = 0])               \* delete(accept, topic)
                     ELSE FoldLoop(subs, allow, i + 1, acc)                                    \* equal flag: nothing
              ELSE FoldLoop(subs, allow, i + 1, [acc EXCEPT ![e.t] = i])                      \* accept[topic] = sub

FilterCancelIdx(subs, allow) ==
    LET acc == FoldLoop(subs, allow, 1, [t \in TopicsOf(subs) |-> 0]) IN {acc[t] : t \in TopicsOf(subs)} \ {0}
FilterCancel(subs, allow) == {subs[i] : i \in FilterCancelIdx(subs, allow)}     \* the result, as a set (map order is random)

\* ---------------------------------------------------------------- the repair: the last entry of a topic wins
LastIdx(subs, t) == CHOOSE i \in DOMAIN subs : subs[i].t = t /\ \A j \in DOMAIN subs : subs[j].t = t => j <= i
FilterLast(subs, allow) == {subs[LastIdx(subs, t)] : t \in TopicsOf(subs) \cap allow}

\* limitSubscriptionFilter.FilterIncomingSubscriptions (lines 143-149): the RAW number of entries is compared
LimitRejects(subs, limit) == limit >= 0 /\ Len(subs) > limit          \* limit = -1: no wrapper

\* ---------------------------------------------------------------- what the receiver does with a list (pubsub.go:1497-1533)
RECURSIVE SeqApply(_, _, _)
SeqApply(B, subs, i) ==
    IF i > Len(subs) THEN B
    ELSE SeqApply(IF subs[i].t \in DOMAIN B THEN [B EXCEPT ![subs[i].t] = Val(subs[i])] ELSE B, subs, i + 1)

\* a filter result has at most one entry per topic, so the order in which it is processed is irrelevant
ApplySet(B, S) == [t \in DOMAIN B |-> IF \E e \in S : e.t = t THEN Val(CHOOSE e \in S : e.t = t) ELSE B[t]]

\* ---------------------------------------------------------------- predicates on (input, allow, output)
OnlyAllowed(out, allow) == \A e \in out : e.t \in allow
AtMostOnePerTopic(out) == \A e, f \in out : e.t = f.t => e = f
FromInput(subs, out) == out \subseteq ToSet(subs)

\* the meaning, as stated: for EVERY prior belief
NetEffect(subs, allow, out, U) ==
    \A B \in [U -> Vals] : ApplySet(B, out) = SeqApply(B, AllowedPart(subs, allow), 1)
\* the same in closed form (MCSubFilterFn checks the equivalence on every input; the trace specs use this one)
NetEffectC(subs, allow, out, U) ==
    /\ AtMostOnePerTopic(out)
    /\ \A t \in U : IF t \in allow /\ t \in TopicsOf(subs)
                      THEN \E e \in out : e.t = t /\ Val(e) = Val(subs[LastIdx(subs, t)])
                      ELSE ~\E e \in out : e.t = t

\* the envelope in which the as-found algorithm is right: a sender that announces every change of its own state
\* exactly once (flags of a topic alternate and the first one contradicts what the receiver believes); only
\* subscribed-ness is compared (the partial flag of a cancelled unsubscribe+subscribe pair is lost even here)
IdxOf(subs, t) == {i \in DOMAIN subs : subs[i].t = t}
Alternating(subs, t) ==
    \A i, j \in IdxOf(subs, t) : (i < j /\ ~\E k \in IdxOf(subs, t) : i < k /\ k < j) => subs[i].s # subs[j].s
FirstIdx(subs, t) == CHOOSE i \in IdxOf(subs, t) : \A j \in IdxOf(subs, t) : i <= j
Consistent(B, subs, allow) ==
    \A t \in TopicsOf(subs) \cap allow \cap DOMAIN B :
        Alternating(subs, t) /\ (B[t] = "no") = subs[FirstIdx(subs, t)].s
NetEffectConsistent(subs, allow, out, U) ==
    \A B \in [U -> {"no", "sub"}] :
        Consistent(B, subs, allow) =>
            \A t \in U : (ApplySet(B, out)[t] = "no") = (SeqApply(B, AllowedPart(subs, allow), 1)[t] = "no")
=============================================================================
