SPECIFICATION Spec
CONSTANTS
  U = {"T1", "T3"}
  Allow = {"T1"}
  Peers = {"p1"}
  Limit = 2
  MaxSubs = 3
  WithPartial = FALSE
  Msgs <- MCMsgs
  Dedup = "last"
  FilterOnRecv = TRUE
  LimitCmp = "gt"
  LimitCountsRaw = TRUE
  ErrIgnoresAll = TRUE
  JoinChecked = TRUE
  PartialSkipsRest = FALSE
INVARIANTS TypeOK P_X07_NoDisallowedInterest P_X07_JoinRefused P_X07_AllowedNotRefused P_X07_NoDisallowedTraffic
  P_X07_NetEffect P_X07_NetEffectConsistent P_X07_RejectedRpcIgnored P_X07_RestProcessed
CHECK_DEADLOCK FALSE
