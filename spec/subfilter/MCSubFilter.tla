----------------------------- MODULE MCSubFilter -----------------------------
(* Model-checking instance of the node-level model of X07: topics T1 (allowed) and T3 (not allowed), one message
   of each.  The configurations are written by bin/lib/props/x07.py (one that holds everything with Dedup = "last",
   the code as found with Dedup = "cancel" which MUST fail P_X07_NetEffect only, and one seeded defect per property). *)
EXTENDS SubFilter
MCMsgs == {[m |-> "m1", t |-> "T1"], [m |-> "m3", t |-> "T3"]}
=============================================================================
