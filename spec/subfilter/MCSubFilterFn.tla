---------------------------- MODULE MCSubFilterFn ----------------------------
(* Exhaustive function-level model check for X07: EVERY list of at most L subscription entries over the
   topics U (x subscribe/unsubscribe x requestsPartial) and EVERY allow-set is an initial state; the
   properties are invariants of that state.  Dedup selects the algorithm:
     "cancel"  FilterSubscriptions as written            (P_X07_NetEffect MUST fail: finding X07-F1)
     "last"    the repair (last entry of a topic wins)    (everything holds)
   and seeded model defects, one per property, that MUST fail it (non-vacuity):
     "unsubLeak" (unsubscribe entries bypass the predicate), "noDedup", "sticky" (a cancelled topic stays
     dead for the rest of the list), "adjacent" (a pair cancels only when adjacent in the raw list),
     "pairsOnce" (one pass removing adjacent contradictory pairs, no map), "dropPartial" (the result is rebuilt
     without the requestsPartial flag). *)
EXTENDS SubFilterFn, TLC

CONSTANTS U, L, Dedup
VARIABLES subs, allow

Entries == {e \in [t : U, s : BOOLEAN, r : BOOLEAN] : e.r => e.s}
Inputs == UNION {[1..n -> Entries] : n \in 0..L}

RECURSIVE StickyLoop(_, _, _, _)
StickyLoop(x, al, i, acc) ==      \* acc[t] = Len(x)+1: the topic was cancelled once and is never accepted again
    IF i > Len(x) THEN acc
    ELSE LET e == x[i] IN
         IF e.t \notin al \/ acc[e.t] = Len(x) + 1 THEN StickyLoop(x, al, i + 1, acc)
         ELSE IF acc[e.t] # 0
              THEN IF e.s # x[acc[e.t]].s THEN StickyLoop(x, al, i + 1, [acc EXCEPT ![e.t] = Len(x) + 1])
                   ELSE StickyLoop(x, al, i + 1, acc)
              ELSE StickyLoop(x, al, i + 1, [acc EXCEPT ![e.t] = i])

RECURSIVE AdjLoop(_, _, _, _)
AdjLoop(x, al, i, acc) ==         \* a contradicting entry cancels only if it directly follows an entry of its topic
    IF i > Len(x) THEN acc
    ELSE LET e == x[i] IN
         IF e.t \notin al THEN AdjLoop(x, al, i + 1, acc)
         ELSE IF acc[e.t] # 0
              THEN IF e.s # x[acc[e.t]].s /\ x[i - 1].t = e.t THEN AdjLoop(x, al, i + 1, [acc EXCEPT ![e.t] = 0])
                   ELSE AdjLoop(x, al, i + 1, acc)
              ELSE AdjLoop(x, al, i + 1, [acc EXCEPT ![e.t] = i])

RECURSIVE PairsOnce(_, _)
PairsOnce(x, i) ==
    IF i > Len(x) THEN {}
    ELSE IF i < Len(x) /\ x[i].t = x[i + 1].t /\ x[i].s # x[i + 1].s THEN PairsOnce(x, i + 2)
    ELSE {x[i]} \cup PairsOnce(x, i + 1)

Filter(x, al) ==
    CASE Dedup = "cancel"    -> FilterCancel(x, al)
      [] Dedup = "last"      -> FilterLast(x, al)
      [] Dedup = "unsubLeak" -> FilterCancel(SelectSeq(x, LAMBDA e : e.t \in al \/ ~e.s), TopicsOf(x))
      [] Dedup = "noDedup"   -> ToSet(AllowedPart(x, al))
      [] Dedup = "sticky"    -> LET acc == StickyLoop(x, al, 1, [t \in TopicsOf(x) |-> 0])
                                IN {x[i] : i \in ({acc[t] : t \in TopicsOf(x)} \ {0, Len(x) + 1})}
      [] Dedup = "adjacent"  -> LET acc == AdjLoop(x, al, 1, [t \in TopicsOf(x) |-> 0])
                                IN {x[i] : i \in ({acc[t] : t \in TopicsOf(x)} \ {0})}
      [] Dedup = "pairsOnce" -> PairsOnce(AllowedPart(x, al), 1)
      [] Dedup = "dropPartial" -> {[e EXCEPT !.r = FALSE] : e \in FilterCancel(x, al)}

Out == Filter(subs, allow)

Init == subs \in Inputs /\ allow \in SUBSET U
Next == UNCHANGED <<subs, allow>>
Spec == Init /\ [][Next]_<<subs, allow>>

\* ---------------------------------------------------------------- properties (X07.a, X07.b, X07.e)
P_X07_OnlyAllowed == OnlyAllowed(Out, allow)
P_X07_AtMostOne == AtMostOnePerTopic(Out)
P_X07_FromInput == FromInput(subs, Out)
P_X07_NetEffect == NetEffect(subs, allow, Out, U)
P_X07_NetEffectConsistent == NetEffectConsistent(subs, allow, Out, U)
L_ClosedForm == AtMostOnePerTopic(Out) => (NetEffect(subs, allow, Out, U) <=> NetEffectC(subs, allow, Out, U))

\* filtering a result again (in any order) changes nothing
Orders(S) == {q \in [1..Cardinality(S) -> S] : \A i, j \in DOMAIN q : i # j => q[i] # q[j]}
P_X07_Idempotent == \A q \in Orders(Out) : Filter(q, allow) = Out
\* entries of different topics commute (adjacent transpositions generate every reordering that keeps each
\* topic's own order), so the result is a function of the per-topic subsequences only
Swap(x, i) == [j \in DOMAIN x |-> IF j = i THEN x[i + 1] ELSE IF j = i + 1 THEN x[i] ELSE x[j]]
P_X07_OrderInsensitive ==
    \A i \in 1..(Len(subs) - 1) : subs[i].t # subs[i + 1].t => Filter(Swap(subs, i), allow) = Out
\* the two algorithms agree exactly when no allowed topic occurs twice ... or the last entry happens to survive
L_CancelVsLast ==
    (\A t \in TopicsOf(subs) \cap allow : Cardinality(IdxOf(subs, t)) = 1) => FilterCancel(subs, allow) = FilterLast(subs, allow)
=============================================================================
