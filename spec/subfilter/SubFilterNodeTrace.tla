------------------------- MODULE SubFilterNodeTrace -------------------------
(* Trace specification for X07, node level: step lines recorded by harness/drivers/x07 TestX07Node on ONE real node
   built with WithSubscriptionFilter (allowlist / regexp, optionally inside WrapLimitSubscriptionFilter) and
   wire-level fake peers, projected by bin/lib/props/x07.py to the fields read here (every field always present).

   The monitors are driven by the STIMULI (act) and compared with what was OBSERVED (p.topics, ListPeers, GetTopics,
   peer events, tracer events, frames read by the fake peers, messages returned by subscriptions, mesh, penalties).
   The replays are deterministic, so the spec is a function of the trace: every line is accepted, failing predicates
   are PRINTED (<<"VIOL", json>>) and the check script turns them into violations; coverage tags likewise.

     P_X07_NoDisallowedInterest  p.topics / ListPeers never mention a topic the filter rejects          (X07.d)
     P_X07_Belief                p.topics after an accepted RPC = the allowed part of its subscription list applied
                                 in order to the previous belief; unchanged by anything else               (X07.d, X07.b)
     P_X07_NetEffect             the same, when the observed belief is what the cancelling fold of the code as found
                                 yields (finding X07-F1; `explained`)                                         (X07.b)
     P_X07_ListPeers             ListPeers(t) = peers believed subscribed to t                                (X07.d)
     P_X07_PeerEvents            peer events of a joined topic alternate and end at the belief                 (X07.d)
     P_X07_JoinRefused           Join / Subscribe / Relay / Publish (both API generations) of a rejected topic return
                                 the filter's error and leave no trace in myTopics/mySubs/myRelays/GetTopics   (X07.e)
     P_X07_AllowedNotRefused     no error for allowed topics                                                   (X07.e)
     P_X07_NoDisallowedAnnounce  no subscription announcement, GRAFT, PRUNE or Join trace for a rejected topic  (X07.e)
     P_X07_NoDisallowedTraffic   no message of a rejected topic validated / delivered / forwarded, no mesh or fanout (X07.e)
     P_X07_RejectedRpcIgnored    an RPC with more than `limit` raw entries changes nothing: belief, messages (not
                                 even marked seen), GRAFT, no PRUNE back, no penalty                           (X07.f, X07.c)
     P_X07_RestProcessed         an accepted RPC (also one with exactly `limit` entries, also one from which entries were
                                 filtered out) has its first-seen messages of subscribed topics delivered and its
                                 GRAFT for a subscribed topic admitted                                          (X07.g)  *)
EXTENDS SubFilterFn, Integers, TLC, Json

Trace == ndJsonDeserialize("trace.ndjson")

VARIABLES m,   \* all monitors (one record)
          l    \* cursor
E == Trace[l]

EmptyM == [u |-> {}, allow |-> {}, limit |-> -1, peers |-> {}, router |-> "", scn |-> 0, bel |-> <<>>, conn |-> {},
           nsubs |-> <<>>, nrelays |-> <<>>, seen |-> {}, rejected |-> {}, mesh |-> <<>>, pen |-> <<>>, evst |-> <<>>,
           handlers |-> {}, left |-> {}]

ResetM(e) ==
    LET Uu == ToSet(e.cfg.u)  P == ToSet(e.cfg.peers) IN
    [u |-> Uu, allow |-> ToSet(e.cfg.allow), limit |-> e.cfg.limit, peers |-> P, router |-> e.cfg.router, scn |-> e.scn,
     bel |-> [p \in P |-> [t \in Uu |-> "no"]], conn |-> {},
     nsubs |-> [t \in Uu |-> 0], nrelays |-> [t \in Uu |-> 0], seen |-> {}, rejected |-> {},
     mesh |-> [t \in Uu |-> {}], pen |-> [p \in P |-> 0], evst |-> [t \in Uu |-> [p \in P |-> FALSE]],
     handlers |-> {}, left |-> {}]

\* ------------------------------------------------------------------ observations
Find(q, key, val) == {i \in DOMAIN q : q[i][key] = val}
ObsBel(e, P, Uu) ==
    [p \in P |-> [t \in Uu |-> LET I == {i \in DOMAIN e.bel : e.bel[i].p = p /\ e.bel[i].t = t}
                               IN IF I = {} THEN "no" ELSE e.bel[CHOOSE i \in I : TRUE].v]]
PsOf(q, t) == LET I == Find(q, "t", t) IN IF I = {} THEN {} ELSE ToSet(q[CHOOSE i \in I : TRUE].ps)
PenOf(e, p) == LET I == Find(e.pen, "p", p) IN IF I = {} THEN 0 ELSE e.pen[CHOOSE i \in I : TRUE].n

NeedsJoin == {"join", "subscribe", "psubscribe", "ppublish", "publish", "relay"}
ApiKinds == NeedsJoin \cup {"cancel", "unrelay"}

\* peer events of one (topic, peer): each must flip the state
RECURSIVE EvFold(_, _, _, _, _)
EvFold(pev, i, t, p, st) ==      \* st = [on, bad]
    IF i > Len(pev) THEN st
    ELSE IF pev[i].t = t /\ pev[i].p = p
         THEN EvFold(pev, i + 1, t, p, [on |-> pev[i].k = "join", bad |-> st.bad \/ ((pev[i].k = "join") = st.on)])
         ELSE EvFold(pev, i + 1, t, p, st)

\* ------------------------------------------------------------------ one step
Step(x, e) ==
    LET a     == e.act
        Uu    == x.u
        P     == x.peers
        obs   == ObsBel(e, P, Uu)
        isRpc == a.a = "rpc"
        over  == isRpc /\ LimitRejects(a.subs, x.limit)
        rowM  == IF isRpc /\ ~over THEN SeqApply(x.bel[a.p], AllowedPart(a.subs, x.allow), 1) ELSE <<>>
        rowI  == IF isRpc /\ ~over THEN ApplySet(x.bel[a.p], FilterCancel(a.subs, x.allow)) ELSE <<>>
        expB  == IF isRpc /\ ~over THEN [x.bel EXCEPT ![a.p] = rowM] ELSE x.bel
        asFnd == IF isRpc /\ ~over THEN [x.bel EXCEPT ![a.p] = rowI] ELSE x.bel
        belOK == obs = expB
        belKF == ~belOK /\ obs = asFnd
        bel1  == obs                                   \* re-synchronise on what the node believes
        base  == [scn |-> x.scn, i |-> e.i]
        V(pred, clause, expl) == [pred |-> pred, clause |-> clause, explained |-> expl, at |-> base, a |-> a.a]
        \* ---- API
        isApi == a.a \in ApiKinds
        okApi == isApi /\ e.err = ""
        t     == IF isApi THEN a.t ELSE ""
        ns1   == IF okApi /\ a.a \in {"subscribe", "psubscribe"} THEN [x.nsubs EXCEPT ![t] = @ + 1]
                 ELSE IF okApi /\ a.a = "cancel" /\ x.nsubs[t] > 0 THEN [x.nsubs EXCEPT ![t] = @ - 1] ELSE x.nsubs
        nr1   == IF okApi /\ a.a = "relay" THEN [x.nrelays EXCEPT ![t] = @ + 1]
                 ELSE IF okApi /\ a.a = "unrelay" /\ x.nrelays[t] > 0 THEN [x.nrelays EXCEPT ![t] = @ - 1] ELSE x.nrelays
        h1    == IF okApi /\ a.a \in NeedsJoin THEN x.handlers \cup {t} ELSE x.handlers
        left1 == IF isApi /\ (x.nsubs[t] + x.nrelays[t] > 0) /\ (ns1[t] + nr1[t] = 0) THEN x.left \cup {t} ELSE x.left
        \* ---- what the node may no longer mention
        stateTopics == ToSet(e.myTopics) \cup ToSet(e.mySubs) \cup ToSet(e.myRelays) \cup ToSet(e.gt)
        annTopics == UNION {ToSet(e.sent[i].subs) \cup ToSet(e.sent[i].graft) \cup ToSet(e.sent[i].prune) : i \in DOMAIN e.sent}
                     \cup {e.annev[i].topic : i \in DOMAIN e.annev} \cup ToSet(e.joinev)
        msgTopics == {e.mev[i].topic : i \in DOMAIN e.mev} \cup {e.dlv[i].topic : i \in DOMAIN e.dlv}
                     \cup UNION {{e.sent[i].msgs[j].topic : j \in DOMAIN e.sent[i].msgs} : i \in DOMAIN e.sent}
                     \cup {e.mesh[i].t : i \in DOMAIN e.mesh} \cup ToSet(e.fanout)
        \* ---- messages / GRAFT of an RPC
        msgs  == IF isRpc THEN ToSet(a.msgs) ELSE {}
        Interested(tt) == tt \in Uu /\ (x.nsubs[tt] > 0 \/ x.nrelays[tt] > 0)
        Touched(mm) == \/ \E i \in DOMAIN e.mev : e.mev[i].m = mm
                       \/ \E i \in DOMAIN e.dlv : e.dlv[i].m = mm
                       \/ \E i \in DOMAIN e.sent : \E j \in DOMAIN e.sent[i].msgs : e.sent[i].msgs[j].m = mm
        Delivered(mm, tt) == /\ \E i \in DOMAIN e.mev : e.mev[i].m = mm /\ e.mev[i].k = "Deliver"
                             /\ x.nsubs[tt] > 0 => \E i \in DOMAIN e.dlv : e.dlv[i].m = mm
        fresh == {y \in msgs : Interested(y.t) /\ y.m \notin x.seen}
        grafts == IF isRpc THEN ToSet(a.graft) ELSE {}
        meshNow(tt) == PsOf(e.mesh, tt)
        prunedBack(tt) == \E i \in DOMAIN e.sent : e.sent[i].p = a.p /\ tt \in ToSet(e.sent[i].prune)
        admitGrafts == {tt \in grafts : x.router = "gossipsub" /\ Interested(tt) /\ tt \notin x.left /\ a.p \notin x.mesh[tt] /\ e.hb = 0}
        seen1 == IF isRpc /\ ~over THEN x.seen \cup {y.m : y \in {y \in msgs : Interested(y.t)}} ELSE x.seen
        rej1  == IF over THEN x.rejected \cup {y.m : y \in msgs} ELSE x.rejected
        \* ---- peer events
        evf   == [tt \in Uu |-> [p \in P |-> EvFold(e.pev, 1, tt, p, [on |-> x.evst[tt][p], bad |-> FALSE])]]
        viols ==
             {V("P_X07_NoDisallowedInterest", "p.topics", FALSE) : i \in {i \in DOMAIN e.bel : e.bel[i].t \notin x.allow}}
        \cup {V("P_X07_NoDisallowedInterest", "ListPeers", FALSE) : i \in {i \in DOMAIN e.lp : e.lp[i].t \notin x.allow /\ e.lp[i].ps # <<>>}}
        \cup (IF over /\ ~belOK THEN {V("P_X07_RejectedRpcIgnored", "subscriptions", FALSE)} ELSE {})
        \cup (IF isRpc /\ ~over /\ belKF THEN {V("P_X07_NetEffect", "belief", TRUE)} ELSE {})
        \cup (IF ~over /\ ~belOK /\ ~belKF THEN {V("P_X07_Belief", IF isRpc THEN "after-rpc" ELSE "changed-without-rpc", FALSE)} ELSE {})
        \cup {V("P_X07_ListPeers", tt, FALSE) : tt \in {tt \in Uu : PsOf(e.lp, tt) # {p \in P : bel1[p][tt] # "no"}}}
        \cup (IF \E tt \in Uu, p \in P : evf[tt][p].bad THEN {V("P_X07_PeerEvents", "not-alternating", FALSE)} ELSE {})
        \cup (IF \E tt \in h1, p \in P : evf[tt][p].on # (bel1[p][tt] # "no") THEN {V("P_X07_PeerEvents", "differs-from-belief", FALSE)} ELSE {})
        \cup (IF isApi /\ a.a \in NeedsJoin /\ t \notin x.allow /\ e.err # "filter"
                THEN {V("P_X07_JoinRefused", IF e.err = "" THEN "no-error" ELSE "other-error", FALSE)} ELSE {})
        \cup (IF ~(stateTopics \subseteq x.allow) THEN {V("P_X07_JoinRefused", "state", FALSE)} ELSE {})
        \cup (IF isApi /\ t \in x.allow /\ e.err # "" THEN {V("P_X07_AllowedNotRefused", e.err, FALSE)} ELSE {})
        \cup (IF ~(annTopics \subseteq x.allow) THEN {V("P_X07_NoDisallowedAnnounce", "wire-or-trace", FALSE)} ELSE {})
        \cup (IF ~(msgTopics \subseteq x.allow) THEN {V("P_X07_NoDisallowedTraffic", "message-or-mesh", FALSE)} ELSE {})
        \cup (IF over /\ \E y \in msgs : Touched(y.m) THEN {V("P_X07_RejectedRpcIgnored", "message", FALSE)} ELSE {})
        \cup (IF over /\ \E tt \in grafts \cap Uu : (a.p \in meshNow(tt) /\ a.p \notin x.mesh[tt]) THEN {V("P_X07_RejectedRpcIgnored", "graft", FALSE)} ELSE {})
        \cup (IF over /\ \E tt \in grafts : prunedBack(tt) THEN {V("P_X07_RejectedRpcIgnored", "prune-back", FALSE)} ELSE {})
        \cup (IF over /\ PenOf(e, a.p) # x.pen[a.p] THEN {V("P_X07_RejectedRpcIgnored", "penalty", FALSE)} ELSE {})
        \cup (IF isRpc /\ ~over /\ \E y \in fresh : ~Delivered(y.m, y.t) THEN {V("P_X07_RestProcessed", "message", FALSE)} ELSE {})
        \cup (IF isRpc /\ ~over /\ \E tt \in admitGrafts : a.p \notin meshNow(tt) THEN {V("P_X07_RestProcessed", "graft", FALSE)} ELSE {})
        x2 == [x EXCEPT !.bel = bel1, !.conn = IF a.a = "peer" THEN @ \cup {a.p} ELSE @,
                        !.nsubs = ns1, !.nrelays = nr1, !.handlers = h1, !.left = left1, !.seen = seen1, !.rejected = rej1,
                        !.mesh = [tt \in Uu |-> meshNow(tt)], !.pen = [p \in P |-> PenOf(e, p)],
                        !.evst = [tt \in Uu |-> [p \in P |-> evf[tt][p].on]]]
        cov ==
             {"router:" \o x.router}
        \cup (IF x.limit >= 0 THEN {"limitWrapped"} ELSE {"noLimit"})
        \cup (IF over THEN {"rpc:over"} ELSE {})
        \cup (IF isRpc /\ x.limit >= 0 /\ Len(a.subs) = x.limit THEN {"rpc:exact"} ELSE {})
        \cup (IF over /\ Cardinality(FilterCancel(a.subs, x.allow)) <= x.limit THEN {"over:rawCountDecides"} ELSE {})
        \cup (IF over /\ \E y \in msgs : Interested(y.t) /\ y.m \notin x.seen THEN {"over:freshMsg"} ELSE {})
        \cup (IF over /\ \E tt \in grafts : Interested(tt) /\ a.p \notin x.mesh[tt] /\ x.router = "gossipsub" THEN {"over:graft"} ELSE {})
        \cup (IF over /\ expB # [x.bel EXCEPT ![a.p] = SeqApply(x.bel[a.p], AllowedPart(a.subs, x.allow), 1)] THEN {"over:wouldChangeBelief"} ELSE {})
        \cup (IF isRpc /\ ~over /\ \E y \in fresh : y.m \in x.rejected THEN {"rejectedMsgLaterFresh"} ELSE {})
        \cup (IF isRpc /\ ~over /\ fresh # {} /\ x.limit >= 0 /\ Len(a.subs) = x.limit THEN {"exact:freshMsg"} ELSE {})
        \cup (IF isRpc /\ ~over /\ fresh # {} /\ TopicsOf(a.subs) \ x.allow # {} THEN {"filtered:freshMsg"} ELSE {})
        \cup (IF isRpc /\ ~over /\ admitGrafts # {} THEN {"graftAdmitted"} ELSE {})
        \cup (IF isRpc /\ ~over /\ admitGrafts # {} /\ TopicsOf(a.subs) \ x.allow # {} THEN {"filtered:graftAdmitted"} ELSE {})
        \cup (IF isRpc /\ grafts \ x.allow # {} THEN {"graftDisallowed"} ELSE {})
        \cup (IF isRpc /\ \E y \in msgs : y.t \notin x.allow THEN {"msgDisallowed"} ELSE {})
        \cup (IF isRpc /\ ~over /\ Len(a.subs) = 1 /\ a.subs[1].t \notin x.allow /\ a.subs[1].s THEN {"singleDisallowedSub"} ELSE {})
        \cup (IF isRpc /\ ~over /\ TopicsOf(a.subs) \ x.allow # {} /\ rowM # x.bel[a.p] THEN {"mixedAllowedDisallowed"} ELSE {})
        \cup (IF isRpc /\ ~over /\ rowM # x.bel[a.p] THEN {"beliefChanges"} ELSE {})
        \cup (IF isRpc /\ ~over /\ rowM # rowI THEN {"cancelFoldDiffers"} ELSE {})
        \cup (IF isRpc /\ ~over /\ \E tt \in Uu : rowM[tt] = "subP" THEN {"partialFlag"} ELSE {})
        \cup (IF e.pev # <<>> THEN {"peerEvent"} ELSE {})
        \cup (IF isApi /\ a.a \in NeedsJoin /\ t \notin x.allow THEN {"refused:" \o a.a} ELSE {})
        \cup (IF isApi /\ a.a \in NeedsJoin /\ t \in x.allow THEN {"allowed:" \o a.a} ELSE {})
    IN [next |-> x2, viols |-> viols, cov |-> cov]

TInit == TLCSet(1, 0) /\ m = EmptyM /\ l = 1

TReset ==
    /\ l <= Len(Trace) /\ E.act.a = "reset"
    /\ m' = ResetM(E) /\ l' = l + 1

TStep ==
    /\ l <= Len(Trace) /\ E.act.a # "reset"
    /\ LET r == Step(m, E) IN
         /\ m' = r.next
         /\ \A v \in r.viols : PrintT(<<"VIOL", ToJson(v)>>)
         /\ r.cov # {} => PrintT(<<"COV", ToJson([scn |-> m.scn, tags |-> r.cov])>>)
    /\ l' = l + 1

TNext == TReset \/ TStep
TraceSpec == TInit /\ [][TNext]_<<m, l>>

HW == IF TLCGet(1) < l THEN TLCSet(1, l) ELSE TRUE
Accepted == PrintT(<<"HW", TLCGet(1), Len(Trace) + 1>>)
=============================================================================
