--------------------------- MODULE GenSubFilterFn ---------------------------
(* Input generator for X07, function level: every list of at most L subscription entries over the topics U
   (x subscribe/unsubscribe; x requestsPartial when WithPartial).  Only INPUTS are emitted; what the real filters
   return for them is judged by SubFilterFnTrace.  With -simulate the same module yields seeded random longer lists. *)
EXTENDS Naturals, Sequences, TLC, Json

CONSTANTS U, L, WithPartial, MinLen
VARIABLE hist

Entries == {e \in [t : U, s : BOOLEAN, r : BOOLEAN] : (e.r => e.s) /\ (e.r => WithPartial)}
Init == hist = <<>>
Next == Len(hist) < L /\ \E e \in Entries : hist' = Append(hist, e)
Spec == Init /\ [][Next]_hist

Emit == Len(hist) >= MinLen => PrintT(<<"SCN", ToJson([subs |-> hist])>>)
EmitFull == Len(hist) = L => PrintT(<<"SCN", ToJson([subs |-> hist])>>)
=============================================================================
