----------------------------- MODULE ScoreParams -----------------------------
(* C10, second half: "for every parameter set the library accepts, computing a score
   never fails or yields NaN".

   The validate functions of score_params.go are transcribed over a grid of EXTENDED
   values  {NaN, -Inf, -1, 0, 1/2, 1, 2, +Inf}  (durations {-1ns, 0, 1ms, 1s, 2s}, the
   integer colocation threshold {-1, 0, 1, 2}) with IEEE comparison rules (every ordered
   comparison with NaN is false, NaN # x is true), for both SkipAtomicValidation settings.
   Parameter GROUPS are enumerated (the groups interact in the score only through
   addition, so a NaN/panic hazard shows group-wise); all other fields sit at valid defaults.

   Every vector is emitted with the model's verdict `accept` and with `hazard`: whether the
   scoring function of Score.tla, evaluated in IEEE arithmetic with these parameters, can
   produce NaN or divide by zero on SOME history (derived by hand per group, see Hazard).  The driver
   (TestC10Params) pushes every vector through the REAL validators and, when the real code
   accepts it, through a fixed history under recover().  The property predicate judged on the
   real observations is
       P_C10_Total == accepted_real => ~(NaN \/ panic)
   accepted_real # accept is model drift (a NOTE), not a violation. *)
EXTENDS Integers, Sequences, FiniteSets, TLC, Json

Grid == {"NaN", "-Inf", "-1", "0", "1/2", "1", "2", "+Inf"}
Durs == {"-1ns", "0", "1ms", "1s", "2s"}
Ints == {"-1", "0", "1", "2"}

\* position on the extended real line (durations in their own scale)
Rank(x) == CASE x = "-Inf" -> 0 [] x = "-1" -> 1 [] x = "0" -> 2 [] x = "1/2" -> 3 [] x = "1" -> 4
             [] x = "2" -> 5 [] x = "+Inf" -> 6
             [] x = "-1ns" -> 1 [] x = "1ms" -> 3 [] x = "1s" -> 4 [] x = "2s" -> 5
IsNaN(x) == x = "NaN"
Lt(a, b) == ~IsNaN(a) /\ ~IsNaN(b) /\ Rank(a) < Rank(b)
Gt(a, b) == Lt(b, a)
Le(a, b) == ~IsNaN(a) /\ ~IsNaN(b) /\ Rank(a) <= Rank(b)
Ge(a, b) == Le(b, a)
Eq(a, b) == ~IsNaN(a) /\ ~IsNaN(b) /\ Rank(a) = Rank(b)
Ne(a, b) == ~Eq(a, b)
Invalid(x) == x \in {"NaN", "-Inf", "+Inf"}        \* isInvalidNumber
BadDecay(d) == Le(d, "0") \/ Ge(d, "1") \/ Invalid(d)

-----------------------------------------------------------------------------
(* transcription of score_params.go *)

TimeInMeshOK(skip, T) ==
    IF skip /\ Eq(T.TimeInMeshWeight, "0") /\ Eq(T.TimeInMeshQuantum, "0") /\ Eq(T.TimeInMeshCap, "0") THEN TRUE
    ELSE /\ ~Eq(T.TimeInMeshQuantum, "0")
         /\ ~(Lt(T.TimeInMeshWeight, "0") \/ Invalid(T.TimeInMeshWeight))
         /\ ~(Ne(T.TimeInMeshWeight, "0") /\ Le(T.TimeInMeshQuantum, "0"))
         /\ ~(Ne(T.TimeInMeshWeight, "0") /\ (Le(T.TimeInMeshCap, "0") \/ Invalid(T.TimeInMeshCap)))

FirstDeliveriesOK(skip, T) ==
    IF skip /\ Eq(T.FirstMessageDeliveriesWeight, "0") /\ Eq(T.FirstMessageDeliveriesCap, "0") /\ Eq(T.FirstMessageDeliveriesDecay, "0") THEN TRUE
    ELSE /\ ~(Lt(T.FirstMessageDeliveriesWeight, "0") \/ Invalid(T.FirstMessageDeliveriesWeight))
         /\ ~(Ne(T.FirstMessageDeliveriesWeight, "0") /\ BadDecay(T.FirstMessageDeliveriesDecay))
         /\ ~(Ne(T.FirstMessageDeliveriesWeight, "0") /\ (Le(T.FirstMessageDeliveriesCap, "0") \/ Invalid(T.FirstMessageDeliveriesCap)))

MeshDeliveriesOK(skip, T) ==
    IF skip /\ Eq(T.MeshMessageDeliveriesWeight, "0") /\ Eq(T.MeshMessageDeliveriesCap, "0") /\ Eq(T.MeshMessageDeliveriesDecay, "0")
            /\ Eq(T.MeshMessageDeliveriesThreshold, "0") /\ Eq(T.MeshMessageDeliveriesWindow, "0") /\ Eq(T.MeshMessageDeliveriesActivation, "0") THEN TRUE
    ELSE /\ ~(Gt(T.MeshMessageDeliveriesWeight, "0") \/ Invalid(T.MeshMessageDeliveriesWeight))
         /\ ~(Ne(T.MeshMessageDeliveriesWeight, "0") /\ BadDecay(T.MeshMessageDeliveriesDecay))
         /\ ~(Ne(T.MeshMessageDeliveriesWeight, "0") /\ (Le(T.MeshMessageDeliveriesCap, "0") \/ Invalid(T.MeshMessageDeliveriesCap)))
         /\ ~(Ne(T.MeshMessageDeliveriesWeight, "0") /\ (Le(T.MeshMessageDeliveriesThreshold, "0") \/ Invalid(T.MeshMessageDeliveriesThreshold)))
         /\ ~Lt(T.MeshMessageDeliveriesWindow, "0")
         /\ ~(Ne(T.MeshMessageDeliveriesWeight, "0") /\ Lt(T.MeshMessageDeliveriesActivation, "1s"))

MeshFailureOK(skip, T) ==
    IF skip /\ Eq(T.MeshFailurePenaltyDecay, "0") /\ Eq(T.MeshFailurePenaltyWeight, "0") THEN TRUE
    ELSE /\ ~(Gt(T.MeshFailurePenaltyWeight, "0") \/ Invalid(T.MeshFailurePenaltyWeight))
         /\ ~(Ne(T.MeshFailurePenaltyWeight, "0") /\ BadDecay(T.MeshFailurePenaltyDecay))

InvalidDeliveriesOK(skip, T) ==
    IF skip /\ Eq(T.InvalidMessageDeliveriesDecay, "0") /\ Eq(T.InvalidMessageDeliveriesWeight, "0") THEN TRUE
    ELSE /\ ~(Gt(T.InvalidMessageDeliveriesWeight, "0") \/ Invalid(T.InvalidMessageDeliveriesWeight))
         /\ ~BadDecay(T.InvalidMessageDeliveriesDecay)

TopicOK(skip, T) ==
    /\ ~(Lt(T.TopicWeight, "0") \/ Invalid(T.TopicWeight))
    /\ TimeInMeshOK(skip, T) /\ FirstDeliveriesOK(skip, T) /\ MeshDeliveriesOK(skip, T)
    /\ MeshFailureOK(skip, T) /\ InvalidDeliveriesOK(skip, T)

PeerOK(skip, G, T) ==
    /\ TopicOK(skip, T)
    /\ (~skip \/ Ne(G.TopicScoreCap, "0")) => ~(Lt(G.TopicScoreCap, "0") \/ Invalid(G.TopicScoreCap))
    /\ (G.AppSpecificScore = "nil") => skip
    /\ (~skip \/ Ne(G.IPColocationFactorWeight, "0")) =>
          /\ ~(Gt(G.IPColocationFactorWeight, "0") \/ Invalid(G.IPColocationFactorWeight))
          /\ ~(Ne(G.IPColocationFactorWeight, "0") /\ Lt(G.IPColocationFactorThreshold, "1"))
    /\ (~skip \/ Ne(G.BehaviourPenaltyWeight, "0") \/ Ne(G.BehaviourPenaltyThreshold, "0")) =>
          /\ ~(Gt(G.BehaviourPenaltyWeight, "0") \/ Invalid(G.BehaviourPenaltyWeight))
          /\ ~(Ne(G.BehaviourPenaltyWeight, "0") /\ BadDecay(G.BehaviourPenaltyDecay))
          /\ ~(Lt(G.BehaviourPenaltyThreshold, "0") \/ Invalid(G.BehaviourPenaltyThreshold))
    /\ (~skip \/ Ne(G.DecayInterval, "0") \/ Ne(G.DecayToZero, "0")) =>
          /\ ~Lt(G.DecayInterval, "1s")
          /\ ~(Le(G.DecayToZero, "0") \/ Ge(G.DecayToZero, "1") \/ Invalid(G.DecayToZero))

ThresholdsOK(skip, H) ==
    /\ (~skip \/ Ne(H.PublishThreshold, "0") \/ Ne(H.GossipThreshold, "0") \/ Ne(H.GraylistThreshold, "0")) =>
          /\ ~(Gt(H.GossipThreshold, "0") \/ Invalid(H.GossipThreshold))
          /\ ~(Gt(H.PublishThreshold, "0") \/ Gt(H.PublishThreshold, H.GossipThreshold) \/ Invalid(H.PublishThreshold))
          /\ ~(Gt(H.GraylistThreshold, "0") \/ Gt(H.GraylistThreshold, H.PublishThreshold) \/ Invalid(H.GraylistThreshold))
    /\ (~skip \/ Ne(H.AcceptPXThreshold, "0")) => ~(Lt(H.AcceptPXThreshold, "0") \/ Invalid(H.AcceptPXThreshold))
    /\ (~skip \/ Ne(H.OpportunisticGraftThreshold, "0")) => ~(Lt(H.OpportunisticGraftThreshold, "0") \/ Invalid(H.OpportunisticGraftThreshold))

-----------------------------------------------------------------------------
(* where the scoring function breaks in IEEE arithmetic (x * 0 = NaN for x infinite or NaN;
   integer division by a zero quantum).  A counter c of a group with weight 0 contributes c * 0:
   it poisons the score as soon as c can become NaN or infinite, i.e. when it is multiplied at
   every refresh by a decay that is NaN or infinite (0 * Inf = NaN), when it is cut down to a cap
   of -Inf, or when it is subtracted from a threshold of +Inf. *)
NonFinite(x) == x \in {"NaN", "-Inf", "+Inf"}
Hazard(G, T) ==
    \/ Eq(T.TimeInMeshQuantum, "0")                                                      \* D3
    \/ Eq(T.TimeInMeshWeight, "0") /\ T.TimeInMeshCap = "-Inf"
    \/ Eq(T.FirstMessageDeliveriesWeight, "0") /\ (NonFinite(T.FirstMessageDeliveriesDecay) \/ T.FirstMessageDeliveriesCap = "-Inf")   \* D4
    \* (the mesh-delivery counter reaches the score only through `counter < threshold`, which is false for NaN)
    \/ Eq(T.MeshMessageDeliveriesWeight, "0") /\ T.MeshMessageDeliveriesDecay # "NaN"
         /\ (T.MeshMessageDeliveriesThreshold = "+Inf"
             \/ (T.MeshMessageDeliveriesCap = "-Inf" /\ T.MeshMessageDeliveriesThreshold \notin {"NaN", "-Inf"}))
    \/ Eq(T.MeshFailurePenaltyWeight, "0") /\ NonFinite(T.MeshFailurePenaltyDecay)
    \/ NonFinite(G.AppSpecificWeight)
    \/ Eq(G.BehaviourPenaltyWeight, "0") /\ G.BehaviourPenaltyDecay = "+Inf"

-----------------------------------------------------------------------------
(* the grid *)
DefT == [TopicWeight |-> "1",
         TimeInMeshWeight |-> "1", TimeInMeshQuantum |-> "1s", TimeInMeshCap |-> "2",
         FirstMessageDeliveriesWeight |-> "1", FirstMessageDeliveriesDecay |-> "1/2", FirstMessageDeliveriesCap |-> "2",
         MeshMessageDeliveriesWeight |-> "-1", MeshMessageDeliveriesDecay |-> "1/2", MeshMessageDeliveriesCap |-> "2",
         MeshMessageDeliveriesThreshold |-> "1", MeshMessageDeliveriesWindow |-> "1s", MeshMessageDeliveriesActivation |-> "1s",
         MeshFailurePenaltyWeight |-> "-1", MeshFailurePenaltyDecay |-> "1/2",
         InvalidMessageDeliveriesWeight |-> "-1", InvalidMessageDeliveriesDecay |-> "1/2"]
DefG == [TopicScoreCap |-> "2", AppSpecificScore |-> "fn", AppSpecificWeight |-> "1",
         IPColocationFactorWeight |-> "-1", IPColocationFactorThreshold |-> "1",
         BehaviourPenaltyWeight |-> "-1", BehaviourPenaltyThreshold |-> "1", BehaviourPenaltyDecay |-> "1/2",
         DecayInterval |-> "1s", DecayToZero |-> "1/2"]
DefH == [GossipThreshold |-> "-1", PublishThreshold |-> "-1", GraylistThreshold |-> "-1",
         AcceptPXThreshold |-> "1", OpportunisticGraftThreshold |-> "1"]

Dom(f) == IF f \in {"TimeInMeshQuantum", "MeshMessageDeliveriesWindow", "MeshMessageDeliveriesActivation", "DecayInterval"} THEN Durs
          ELSE IF f = "IPColocationFactorThreshold" THEN Ints
          ELSE IF f = "AppSpecificScore" THEN {"fn", "nil"}
          ELSE Grid

\* all assignments of grid values to the fields F
Assign(F) == {a \in [F -> Grid \cup Durs \cup Ints \cup {"fn", "nil"}] : \A f \in F : a[f] \in Dom(f)}

P3Others == {"MeshMessageDeliveriesDecay", "MeshMessageDeliveriesCap", "MeshMessageDeliveriesThreshold",
             "MeshMessageDeliveriesWindow", "MeshMessageDeliveriesActivation"}
TopicGroups ==
    [P1 |-> {{"TimeInMeshWeight", "TimeInMeshQuantum", "TimeInMeshCap"}},
     P2 |-> {{"FirstMessageDeliveriesWeight", "FirstMessageDeliveriesDecay", "FirstMessageDeliveriesCap"}},
     \* P3: the weight with every pair of the five other fields
     P3 |-> {{"MeshMessageDeliveriesWeight", a, b} : a, b \in P3Others},
     P3b |-> {{"MeshFailurePenaltyWeight", "MeshFailurePenaltyDecay"}},
     P4 |-> {{"InvalidMessageDeliveriesWeight", "InvalidMessageDeliveriesDecay"}},
     TW |-> {{"TopicWeight"}}]
GlobalGroups ==
    [CAP |-> {{"TopicScoreCap"}},
     P5 |-> {{"AppSpecificWeight", "AppSpecificScore"}},
     P6 |-> {{"IPColocationFactorWeight", "IPColocationFactorThreshold"}},
     P7 |-> {{"BehaviourPenaltyWeight", "BehaviourPenaltyThreshold", "BehaviourPenaltyDecay"}},
     DECAY |-> {{"DecayInterval", "DecayToZero"}}]
ThreshGroups ==
    [TH |-> {{"GossipThreshold", "PublishThreshold", "GraylistThreshold"}},
     THX |-> {{"AcceptPXThreshold", "OpportunisticGraftThreshold"}}]

Vec(kind, grp, skip, a) ==
    LET T == IF kind = "topic" THEN a @@ DefT ELSE DefT
        G == IF kind = "global" THEN a @@ DefG ELSE DefG
        H == IF kind = "thresholds" THEN a @@ DefH ELSE DefH
        acc == IF kind = "thresholds" THEN ThresholdsOK(skip, H) ELSE PeerOK(skip, G, T)
    IN [kind |-> kind, grp |-> grp, skip |-> skip, f |-> a, accept |-> acc,
        hazard |-> IF kind = "thresholds" THEN FALSE ELSE acc /\ Hazard(G, T)]

VectorsOf(kind, Groups) ==
    UNION {UNION {{Vec(kind, g, s, a) : a \in Assign(F)} : F \in Groups[g]} : g \in DOMAIN Groups, s \in BOOLEAN}

AllVectors == VectorsOf("topic", TopicGroups) \cup VectorsOf("global", GlobalGroups) \cup VectorsOf("thresholds", ThreshGroups)

VARIABLE v
Init == v \in AllVectors
Next == UNCHANGED v
Spec == Init /\ [][Next]_v
Emit == PrintT(<<"VEC", ToJson(v)>>)

\* model-level statement of the finding family: the validators accept vectors on which the function breaks
\* (this invariant MUST be violated as long as D3/D4 are in the tree; kept as a non-vacuity check of Hazard)
NoAcceptedHazard == ~v.hazard
=============================================================================
