SPECIFICATION TraceSpec
CONSTANTS
  Peers = {"p1", "p2", "p3"}
  Topics = {"t1", "t2", "t3"}
  Ids = {"m1", "m2", "m3", "m4"}
CONSTRAINT HW
POSTCONDITION Accepted
CHECK_DEADLOCK FALSE
