------------------------------- MODULE Score -------------------------------
(* C10 - the GossipSub v1.1 peer score as an exact fixed-point function of the
   peer's event history.

   Units.  S = 2^6.  The counters firstMessageDeliveries (fmd), meshMessageDeliveries
   (mmd), invalidMessageDeliveries (imd) and the behaviour penalty (pen) are kept in
   units of 1/S; the sticky mesh failure penalty (mfp, a squared deficit) and every
   score in units of 1/S^2.  Time is counted in whole ticks (1 tick = 1 s of the
   virtual clock).  Parameter sets used with this module have decays 1/d with d a
   power of two, a dyadic DecayToZero (dtz/S), integer weights, caps and thresholds
   and whole-tick durations, so every value below is an exact integer and the same
   value is an exactly representable dyadic rational in float64: the real score
   multiplied by S^2 must be EQUAL to Score(p).

   The actions are the entry points through which the router and the maintenance
   loop feed the scorer (tracer callbacks, refresh, delivery-record GC, parameter
   update).  They are written as total effects (`Do...`): an event about a peer that
   is not tracked, or about a topic that is not scored, has no effect.  The score
   function `Score(p)` is written from the v1.1 specification text (P1..P7, topic
   weights, topic score cap); two conventions that the specification leaves open are
   taken from the implementation: time in mesh and the activation of P3 are sampled
   at decay ticks (Refresh), and nothing is recorded for a topic while it has no
   score parameters.  The P3 activation flag is cleared by Graft only (a pruned peer
   keeps its P3 penalty, in addition to the sticky P3b, until it is grafted again).

   params (variable `par`, it changes with SetTopicParams and the trace
   specification binds it per scenario):
     [topics |-> [t |-> TP], cap, appW, ipW, ipThr, wl, penW, penThr, penD, dtz, retain, ttl]
     TP = [tw, w1, q, c1,  w2, d2, c2,  w3, d3, c3, thr, win, act,  w3b, d3b,  w4, d4]
   weights/caps/thresholds are integers in real units, q/win/act/retain/ttl are ticks,
   d* are the divisors of the decays, dtz is DecayToZero in units of 1/S, wl is the
   sequence of whitelisted IPs. *)
EXTENDS Integers, Sequences, FiniteSets, TLC

CONSTANTS Peers, Topics, Ids    \* finite universes (strings)

S  == 64
S2 == S * S

VARIABLES now,       \* virtual clock (ticks)
          par,       \* score parameters
          tracked,   \* peers that have a stats entry (connected or retained)
          conn,      \* conn[p]: currently connected
          expire,    \* expire[p]: end of retention (meaningful for tracked, disconnected peers)
          pen,       \* behaviour penalty counter (1/S)
          ips,       \* ips[p]: set of IPs
          app,       \* application specific score of p (integer, set by the application)
          ts,        \* ts[p][t]: per topic counters
          rec        \* rec[id]: delivery record

svars == <<now, par, tracked, conn, expire, pen, ips, app, ts, rec>>

TS0  == [inMesh |-> FALSE, graft |-> 0, meshTime |-> 0, fmd |-> 0, mmd |-> 0,
         active |-> FALSE, mfp |-> 0, imd |-> 0]
Rec0 == [st |-> "none", validated |-> 0, peers |-> {}, expire |-> 0]

MinI(a, b) == IF a < b THEN a ELSE b
MaxI(a, b) == IF a > b THEN a ELSE b
Sq(x) == x * x
RangeOf(f) == {f[i] : i \in DOMAIN f}

RECURSIVE SumOver(_, _)
SumOver(D, f) == IF D = {} THEN 0
                 ELSE LET x == CHOOSE y \in D : TRUE IN f[x] + SumOver(D \ {x}, f)

Scored(t) == t \in DOMAIN par.topics
TP(t)     == par.topics[t]
Live(p, t) == p \in tracked /\ Scored(t)    \* events about (p,t) are recorded

SInit(p0) ==
    /\ now = 0 /\ par = p0 /\ tracked = {}
    /\ conn = [p \in Peers |-> FALSE] /\ expire = [p \in Peers |-> 0]
    /\ pen = [p \in Peers |-> 0] /\ ips = [p \in Peers |-> {}]
    /\ app = [p \in Peers |-> 0]
    /\ ts = [p \in Peers |-> [t \in Topics |-> TS0]]
    /\ rec = [i \in Ids |-> Rec0]

-----------------------------------------------------------------------------
(* THE SCORING FUNCTION (GossipSub v1.1, "Peer Scoring") *)

\* per topic components, as functions of a counter record s of topic t
\* P1 time in mesh: quantised, capped, only while in the mesh
V1(s, t) == IF s.inMesh THEN MinI(s.meshTime \div TP(t).q, TP(t).c1) * TP(t).w1 * S2 ELSE 0
\* P2 first message deliveries (the counter is capped and decays)
V2(s, t) == s.fmd * S * TP(t).w2
\* P3 mesh message delivery deficit, squared, once activated
V3(s, t) == IF s.active /\ s.mmd < TP(t).thr * S THEN Sq(TP(t).thr * S - s.mmd) * TP(t).w3 ELSE 0
\* P3b sticky mesh failure penalty
V3b(s, t) == s.mfp * TP(t).w3b
\* P4 invalid messages, squared
V4(s, t) == Sq(s.imd) * TP(t).w4

ScoredTopics == Topics \cap DOMAIN par.topics
Capped(x) == IF par.cap > 0 /\ x > par.cap * S2 THEN par.cap * S2 ELSE x

C1(p, t) == V1(ts[p][t], t)
C2(p, t) == V2(ts[p][t], t)
C3(p, t) == V3(ts[p][t], t)
C3b(p, t) == V3b(ts[p][t], t)
C4(p, t) == V4(ts[p][t], t)
TopicScore(p, t) == TP(t).tw * (C1(p, t) + C2(p, t) + C3(p, t) + C3b(p, t) + C4(p, t))
TopicSum(p) == SumOver(ScoredTopics, [t \in ScoredTopics |-> TopicScore(p, t)])
TopicPart(p) == Capped(TopicSum(p))

\* P5 application specific score
C5(p) == app[p] * par.appW * S2
\* P6 IP colocation: squared surplus over the threshold, summed over the peer's non whitelisted IPs
PeersOnIP(ip) == Cardinality({q \in tracked : ip \in ips[q]})
Surplus(p) == LET I == ips[p] \ RangeOf(par.wl) IN
    SumOver(I, [ip \in I |-> Sq(MaxI(PeersOnIP(ip) - par.ipThr, 0))])
C6(p) == Surplus(p) * par.ipW * S2
\* P7 behaviour penalty: squared excess over the threshold
C7(p) == IF pen[p] > par.penThr * S THEN Sq(pen[p] - par.penThr * S) * par.penW ELSE 0

Score(p) == IF p \notin tracked THEN 0 ELSE TopicPart(p) + C5(p) + C6(p) + C7(p)

\* the score of a tracked peer without its penalty components, from counter records T[t]
PositiveOf(p, T) == Capped(SumOver(ScoredTopics, [t \in ScoredTopics |-> TP(t).tw * (V1(T[t], t) + V2(T[t], t))])) + C5(p)
PositivePart(p) == IF p \notin tracked THEN 0 ELSE PositiveOf(p, ts[p])

-----------------------------------------------------------------------------
(* EVENTS *)

Forget(T, p) == [T EXCEPT ![p] = [t \in Topics |-> TS0]]

\* OnNewOutboundStream (+ the host's view of the peer's addresses)
DoConnect(p, I) ==
    /\ tracked' = tracked \cup {p}
    /\ conn' = [conn EXCEPT ![p] = TRUE]
    /\ ips' = [ips EXCEPT ![p] = I]
    /\ UNCHANGED <<now, par, expire, pen, app, ts, rec>>

\* OnClosedOutboundStream: positive scores are dropped, the others retained for par.retain
StickyOnLeave(s, t) ==
    IF s.active /\ s.mmd < TP(t).thr * S THEN s.mfp + Sq(TP(t).thr * S - s.mmd) ELSE s.mfp
DoDisconnect(p) ==
    IF p \notin tracked THEN UNCHANGED svars
    ELSE IF Score(p) > 0
      THEN /\ tracked' = tracked \ {p}
           /\ conn' = [conn EXCEPT ![p] = FALSE]
           /\ expire' = [expire EXCEPT ![p] = 0]
           /\ pen' = [pen EXCEPT ![p] = 0]
           /\ ips' = [ips EXCEPT ![p] = {}]
           /\ ts' = Forget(ts, p)
           /\ UNCHANGED <<now, par, app, rec>>
      ELSE /\ ts' = [ts EXCEPT ![p] = [t \in Topics |->
                        IF ~Scored(t) THEN ts[p][t]
                        ELSE [ts[p][t] EXCEPT !.fmd = 0,
                                              !.mfp = IF ts[p][t].inMesh THEN StickyOnLeave(ts[p][t], t) ELSE @,
                                              !.inMesh = FALSE]]]
           /\ conn' = [conn EXCEPT ![p] = FALSE]
           /\ expire' = [expire EXCEPT ![p] = now + par.retain]
           /\ UNCHANGED <<now, par, tracked, pen, ips, app, rec>>

DoGraft(p, t) ==
    /\ ts' = IF Live(p, t)
               THEN [ts EXCEPT ![p][t] = [@ EXCEPT !.inMesh = TRUE, !.graft = now, !.meshTime = 0, !.active = FALSE]]
               ELSE ts
    /\ UNCHANGED <<now, par, tracked, conn, expire, pen, ips, app, rec>>

DoPrune(p, t) ==
    /\ ts' = IF Live(p, t)
               THEN [ts EXCEPT ![p][t] = [@ EXCEPT !.mfp = StickyOnLeave(ts[p][t], t), !.inMesh = FALSE]]
               ELSE ts
    /\ UNCHANGED <<now, par, tracked, conn, expire, pen, ips, app, rec>>

\* the delivery record of id, created on first mention
GetRec(id) == IF rec[id].st = "none" THEN [Rec0 EXCEPT !.st = "unknown", !.expire = now + par.ttl] ELSE rec[id]

DoValidate(id) ==
    /\ rec' = [rec EXCEPT ![id] = GetRec(id)]
    /\ UNCHANGED <<now, par, tracked, conn, expire, pen, ips, app, ts>>

\* counter increments: +1 then cap
FirstOn(s, t) ==
    LET s1 == [s EXCEPT !.fmd = MinI(@ + S, TP(t).c2 * S)]
    IN IF s.inMesh THEN [s1 EXCEPT !.mmd = MinI(@ + S, TP(t).c3 * S)] ELSE s1
NearFirstOn(s, t) == IF s.inMesh THEN [s EXCEPT !.mmd = MinI(@ + S, TP(t).c3 * S)] ELSE s
InvalidOn(s, n) == [s EXCEPT !.imd = @ + n * S]

\* DeliverMessage: first delivery by p; peers that forwarded the message while it was being
\* validated are credited a near-first delivery retroactively
DoDeliver(id, p, t) ==
    LET r == GetRec(id)
        first == r.st = "unknown"
        early == IF first THEN r.peers \ {p} ELSE {}
    IN /\ rec' = [rec EXCEPT ![id] = IF first THEN [r EXCEPT !.st = "valid", !.validated = now] ELSE r]
       /\ ts' = [q \in Peers |-> IF ~Live(q, t) THEN ts[q]
                                 ELSE IF q = p THEN [ts[q] EXCEPT ![t] = FirstOn(@, t)]
                                 ELSE IF q \in early THEN [ts[q] EXCEPT ![t] = NearFirstOn(@, t)]
                                 ELSE ts[q]]
       /\ UNCHANGED <<now, par, tracked, conn, expire, pen, ips, app>>

SigReasons    == {"missing signature", "invalid signature", "unexpected signature",
                  "unexpected auth info", "self originated message"}
IgnoreReasons == {"blacklisted peer", "blacklisted source", "validation queue full"}
Reasons == SigReasons \cup IgnoreReasons \cup {"validation throttled", "validation ignored", "validation failed"}

DoReject(id, p, t, reason) ==
    IF reason \in SigReasons
      THEN /\ ts' = IF Live(p, t) THEN [ts EXCEPT ![p][t] = InvalidOn(@, 1)] ELSE ts
           /\ UNCHANGED <<now, par, tracked, conn, expire, pen, ips, app, rec>>
    ELSE IF reason \in IgnoreReasons THEN UNCHANGED svars
    ELSE LET r == GetRec(id) IN
      IF r.st # "unknown"
        THEN /\ rec' = [rec EXCEPT ![id] = r]
             /\ UNCHANGED <<now, par, tracked, conn, expire, pen, ips, app, ts>>
      ELSE IF reason \in {"validation throttled", "validation ignored"}
        THEN /\ rec' = [rec EXCEPT ![id] = [r EXCEPT !.st = IF reason = "validation throttled" THEN "throttled" ELSE "ignored",
                                                     !.peers = {}]]
             /\ UNCHANGED <<now, par, tracked, conn, expire, pen, ips, app, ts>>
      ELSE \* invalid: the sender and everybody who forwarded it meanwhile are penalised
           /\ rec' = [rec EXCEPT ![id] = [r EXCEPT !.st = "invalid", !.peers = {}]]
           /\ ts' = [q \in Peers |->
                       LET n == (IF q = p THEN 1 ELSE 0) + (IF q \in r.peers THEN 1 ELSE 0)
                       IN IF Live(q, t) /\ n > 0 THEN [ts[q] EXCEPT ![t] = InvalidOn(@, n)] ELSE ts[q]]
           /\ UNCHANGED <<now, par, tracked, conn, expire, pen, ips, app>>

\* DuplicateMessage: by record status; a duplicate of a valid message counts for P3 only inside
\* the delivery window after validation, and only once per peer
DoDuplicate(id, p, t) ==
    LET r == GetRec(id) IN
    IF p \in r.peers
      THEN /\ rec' = [rec EXCEPT ![id] = r]
           /\ UNCHANGED <<now, par, tracked, conn, expire, pen, ips, app, ts>>
    ELSE CASE r.st = "unknown" ->
                /\ rec' = [rec EXCEPT ![id] = [r EXCEPT !.peers = @ \cup {p}]]
                /\ UNCHANGED <<now, par, tracked, conn, expire, pen, ips, app, ts>>
           [] r.st = "valid" ->
                /\ rec' = [rec EXCEPT ![id] = [r EXCEPT !.peers = @ \cup {p}]]
                /\ ts' = IF Live(p, t) /\ now - r.validated <= TP(t).win
                           THEN [ts EXCEPT ![p][t] = NearFirstOn(@, t)] ELSE ts
                /\ UNCHANGED <<now, par, tracked, conn, expire, pen, ips, app>>
           [] r.st = "invalid" ->
                /\ rec' = [rec EXCEPT ![id] = r]
                /\ ts' = IF Live(p, t) THEN [ts EXCEPT ![p][t] = InvalidOn(@, 1)] ELSE ts
                /\ UNCHANGED <<now, par, tracked, conn, expire, pen, ips, app>>
           [] OTHER ->
                /\ rec' = [rec EXCEPT ![id] = r]
                /\ UNCHANGED <<now, par, tracked, conn, expire, pen, ips, app, ts>>

DoPenalty(p, n) ==
    /\ pen' = IF p \in tracked THEN [pen EXCEPT ![p] = @ + n * S] ELSE pen
    /\ UNCHANGED <<now, par, tracked, conn, expire, ips, app, ts, rec>>

\* one decay step: multiply by 1/d, then decay-to-zero (z in the unit of v)
Decay(v, d, z) == LET w == v \div d IN IF w < z THEN 0 ELSE w
DecayExact(v, d, z) == IF v % d = 0 THEN TRUE ELSE (v \div d) < z   \* (IF, not \/: TLC would branch on a disjunction inside an action)

DecayTopic(s, t) ==
    LET a == [s EXCEPT !.fmd = Decay(@, TP(t).d2, par.dtz),
                       !.mmd = Decay(@, TP(t).d3, par.dtz),
                       !.mfp = Decay(@, TP(t).d3b, par.dtz * S),
                       !.imd = Decay(@, TP(t).d4, par.dtz)]
    IN IF s.inMesh
         THEN [a EXCEPT !.meshTime = now - s.graft,
                        !.active = @ \/ (now - s.graft > TP(t).act)]
         ELSE a

Purged == {p \in tracked : ~conn[p] /\ now > expire[p]}

\* refreshScores: connected peers decay; retained peers are left alone and purged after expiry
DoRefresh ==
    /\ tracked' = tracked \ Purged
    /\ ts' = [p \in Peers |->
                IF p \in Purged THEN [t \in Topics |-> TS0]
                ELSE IF p \in tracked /\ conn[p]
                  THEN [t \in Topics |-> IF Scored(t) THEN DecayTopic(ts[p][t], t) ELSE ts[p][t]]
                ELSE ts[p]]
    /\ pen' = [p \in Peers |-> IF p \in Purged THEN 0
                               ELSE IF p \in tracked /\ conn[p] THEN Decay(pen[p], par.penD, par.dtz)
                               ELSE pen[p]]
    /\ ips' = [p \in Peers |-> IF p \in Purged THEN {} ELSE ips[p]]
    /\ expire' = [p \in Peers |-> IF p \in Purged THEN 0 ELSE expire[p]]
    /\ UNCHANGED <<now, par, conn, app, rec>>

RefreshExact ==
    \A p \in tracked : conn[p] =>
        /\ DecayExact(pen[p], par.penD, par.dtz)
        /\ \A t \in Topics \cap DOMAIN par.topics :
             LET s == ts[p][t] IN
             /\ DecayExact(s.fmd, TP(t).d2, par.dtz) /\ DecayExact(s.mmd, TP(t).d3, par.dtz)
             /\ DecayExact(s.mfp, TP(t).d3b, par.dtz * S) /\ DecayExact(s.imd, TP(t).d4, par.dtz)

\* delivery records are forgotten after par.ttl
DoGC ==
    /\ rec' = [i \in Ids |-> IF rec[i].st # "none" /\ now > rec[i].expire THEN Rec0 ELSE rec[i]]
    /\ UNCHANGED <<now, par, tracked, conn, expire, pen, ips, app, ts>>

DoSetApp(p, v) ==
    /\ app' = [app EXCEPT ![p] = v]
    /\ UNCHANGED <<now, par, tracked, conn, expire, pen, ips, ts, rec>>

\* refreshIPs for one peer
DoSetIPs(p, I) ==
    /\ ips' = IF p \in tracked THEN [ips EXCEPT ![p] = I] ELSE ips
    /\ UNCHANGED <<now, par, tracked, conn, expire, pen, app, ts, rec>>

\* Topic.SetScoreParams -> peerScore.SetTopicScoreParams.
\* A record that validation refuses changes nothing (the old parameters stay in force).  ValidTP is
\* TopicScoreParams.validate (atomic mode) on the integer family: decay 1/d is inside (0,1) iff d >= 2.
ValidTP(tp) ==
    /\ tp.tw >= 0
    /\ tp.q # 0 /\ tp.w1 >= 0 /\ (tp.w1 # 0 => tp.q > 0 /\ tp.c1 > 0)
    /\ tp.w2 >= 0 /\ (tp.w2 # 0 => tp.d2 >= 2 /\ tp.c2 > 0)
    /\ tp.w3 <= 0 /\ (tp.w3 # 0 => tp.d3 >= 2 /\ tp.c3 > 0 /\ tp.thr > 0 /\ tp.act >= 1) /\ tp.win >= 0
    /\ tp.w3b <= 0 /\ (tp.w3b # 0 => tp.d3b >= 2)
    /\ tp.w4 <= 0 /\ tp.d4 >= 2
\* An accepted update of a topic that already has parameters cuts EACH delivery counter of every tracked peer
\* (connected or retained, in the mesh or not) down to ITS OWN new cap; nothing else is touched: the other
\* counters, time in mesh and the P3 activation flag stay, and the new weights, decays, thresholds, window,
\* activation and quantum simply apply from now on.  A topic without previous parameters starts with no history.
DoSetTopicParams(t, tp) ==
    IF ~ValidTP(tp) THEN UNCHANGED svars
    ELSE
    /\ par' = [par EXCEPT !.topics = [u \in DOMAIN par.topics \cup {t} |-> IF u = t THEN tp ELSE par.topics[u]]]
    /\ ts' = IF Scored(t)
               THEN [p \in Peers |-> IF p \in tracked
                        THEN [ts[p] EXCEPT ![t] = [@ EXCEPT !.fmd = MinI(@, tp.c2 * S), !.mmd = MinI(@, tp.c3 * S)]]
                        ELSE ts[p]]
               ELSE ts
    /\ UNCHANGED <<now, tracked, conn, expire, pen, ips, app, rec>>

DoTick(dt) ==
    /\ now' = now + dt
    /\ UNCHANGED <<par, tracked, conn, expire, pen, ips, app, ts, rec>>

\* an event given as a record (the format of generated histories and of recorded traces)
Apply(e) ==
    CASE e.e = "connect"    -> DoConnect(e.p, RangeOf(e.ips))
      [] e.e = "disconnect" -> DoDisconnect(e.p)
      [] e.e = "graft"      -> DoGraft(e.p, e.t)
      [] e.e = "prune"      -> DoPrune(e.p, e.t)
      [] e.e = "validate"   -> DoValidate(e.id)
      [] e.e = "deliver"    -> DoDeliver(e.id, e.p, e.t)
      [] e.e = "reject"     -> DoReject(e.id, e.p, e.t, e.reason)
      [] e.e = "duplicate"  -> DoDuplicate(e.id, e.p, e.t)
      [] e.e = "penalty"    -> DoPenalty(e.p, e.n)
      [] e.e = "refresh"    -> DoRefresh
      [] e.e = "gc"         -> DoGC
      [] e.e = "setapp"     -> DoSetApp(e.p, e.v)
      [] e.e = "setips"     -> DoSetIPs(e.p, RangeOf(e.ips))
      [] e.e = "setparams"  -> DoSetTopicParams(e.t, e.tp)
      [] e.e = "tick"       -> DoTick(e.dt)

-----------------------------------------------------------------------------
(* PROPERTIES over the model state (the trace specification evaluates the same
   predicates on the values observed on the real scorer) *)

P_C10_Bounds ==
    \A p \in Peers :
      /\ pen[p] >= 0
      /\ \A t \in Topics :
           LET s == ts[p][t] IN
           /\ s.fmd >= 0 /\ s.mmd >= 0 /\ s.mfp >= 0 /\ s.imd >= 0
           /\ IF Scored(t) THEN s.fmd <= TP(t).c2 * S /\ s.mmd <= TP(t).c3 * S
                           ELSE s = TS0

P_C10_PenaltiesOnlyLower ==
    \A p \in tracked :
      /\ C6(p) <= 0 /\ C7(p) <= 0
      /\ \A t \in Topics \cap DOMAIN par.topics : C3(p, t) <= 0 /\ C3b(p, t) <= 0 /\ C4(p, t) <= 0
      /\ Score(p) <= PositivePart(p)

\* untracked peers carry no state and score 0
P_C10_Forgotten ==
    \A p \in Peers \ tracked : ~conn[p] /\ pen[p] = 0 /\ ips[p] = {} /\ Score(p) = 0 /\ \A t \in Topics : ts[p][t] = TS0
=============================================================================
