------------------------------ MODULE GenScore ------------------------------
(* Event histories for C10: Score.tla's events under the guards of a sane router
   (a peer is grafted only while connected, a message is validated once, ...) with
   a history variable.  Used three ways:
     * MCScore*.cfg    exhaustive check of the model-level properties (VIEW hides hist),
     * exhaustive generation of all short histories (Emit prints them at length L),
     * `-simulate` generation of long random histories (seeded).
   Only the inputs are emitted; what the real scorer answers is judged by ScoreTrace. *)
EXTENDS Score, Json, SequencesExt

CONSTANTS PS,          \* index of the parameter set (ParamSets below)
          L,           \* history length
          MaxRefresh,  \* at most that many refreshes per history
          MaxNow,      \* the clock stops there
          IPSets,      \* IP assignments a peer can have (set of sets of IPs)
          AppVals,     \* values the application score can take
          Rich,        \* TRUE: the whole alphabet; FALSE: core alphabet (no GC/IPs/param update)
          Sim,         \* TRUE when run with -simulate: rare events are offered several times (weights)
          Warm         \* index of the forced prefix (0 = none) after which the free exploration starts

VARIABLES hist,      \* the events so far
          rmesh,     \* the router's view: {<<p, t>>} grafted
          nref, nset

vars == <<now, par, tracked, conn, expire, pen, ips, app, ts, rec, hist, rmesh, nref, nset>>

MkTP(tw, w1, q, c1, w2, d2, c2, w3, d3, c3, thr, win, act, w3b, d3b, w4, d4) ==
    [tw |-> tw, w1 |-> w1, q |-> q, c1 |-> c1, w2 |-> w2, d2 |-> d2, c2 |-> c2,
     w3 |-> w3, d3 |-> d3, c3 |-> c3, thr |-> thr, win |-> win, act |-> act,
     w3b |-> w3b, d3b |-> d3b, w4 |-> w4, d4 |-> d4]

\*            tw w1 q c1  w2 d2 c2  w3 d3 c3 thr win act w3b d3b w4 d4
TPa == MkTP(1, 1, 1, 3,  2, 2, 3, -1, 2, 4, 2,  1,  1, -1, 2, -2, 2)
TPb == MkTP(2, 1, 2, 2,  1, 4, 2, -2, 4, 2, 1,  0,  2, -2, 4, -1, 4)
TPc == MkTP(1, 2, 1, 1,  1, 2, 1, -1, 2, 1, 1,  1,  1, -1, 2, -1, 2)   \* every cap = 1
TPd == MkTP(1, 1, 3, 2,  1, 2, 2, -1, 2, 3, 2,  2,  3, -1, 2, -1, 2)   \* edge values: window 2, activation 3, quantum 3
TPe == MkTP(3, 0, 1, 1,  1, 2, 4,  0, 2, 1, 1,  0,  1,  0, 2, -1, 2)   \* P1, P3, P3b switched off by weight 0
\* lowered caps (SetTopicParams must cut the counters down)
TPaLow == [TPa EXCEPT !.c2 = 1, !.c3 = 1]
TPdLow == [TPd EXCEPT !.c2 = 1, !.c3 = 2, !.thr = 3]

MkPar(topics, cap, appW, ipW, ipThr, wl, penW, penThr, penD, dtz, retain, ttl) ==
    [topics |-> topics, cap |-> cap, appW |-> appW, ipW |-> ipW, ipThr |-> ipThr, wl |-> wl,
     penW |-> penW, penThr |-> penThr, penD |-> penD, dtz |-> dtz, retain |-> retain, ttl |-> ttl]

ParamSets == <<
    \* 1: all components on, two scored topics under a reachable topic score cap
    MkPar([t1 |-> TPa, t2 |-> TPb], 8, 1, -1, 1, <<>>, -1, 1, 2, 8, 2, 4),
    \* 2: every cap equal to 1, no retention time, whitelist
    MkPar([t1 |-> TPc, t2 |-> TPc], 1, 2, -2, 1, <<"10.0.1.1">>, -2, 0, 2, 16, 0, 1),
    \* 3: edge values, t2 scored only after SetTopicParams, no topic cap
    MkPar([t1 |-> TPd], 0, 1, -1, 2, <<>>, -1, 2, 4, 4, 3, 2),
    \* 4: components switched off by zero weights, quarter decays
    MkPar([t1 |-> TPe, t2 |-> TPb], 3, 1, 0, 1, <<>>, 0, 1, 2, 8, 1, 3)
>>

P0 == ParamSets[PS]

\* values for the constants IPSets / AppVals (a configuration file cannot spell them)
NoIPs    == {{}}
SomeIPs  == {{}, {"10.0.0.1"}, {"10.0.1.1"}, {"10.0.0.1", "10.0.1.1"}}
App2     == {0, -1}
App3     == {-1, 0, 2}

\* alternatives offered to SetTopicParams
Alt(t) == CASE PS = 1 /\ t = "t1" -> {TPaLow}
            [] PS = 2 /\ t = "t2" -> {TPa}
            [] PS = 3 /\ t = "t1" -> {TPdLow}
            [] PS = 3 /\ t = "t2" -> {TPc}
            [] PS = 4 /\ t = "t2" -> {TPaLow}
            [] OTHER -> {}

\* ... and, for a topic that has parameters, the current record with ONE aspect changed: each cap lowered alone,
\* both, raised, one lowered while the other is raised; every weight, decay, threshold, window, activation, quantum;
\* and records that validation refuses (cap 0 with a weight, decay 1, activation 0, negative topic weight, quantum 0)
Flip(d) == IF d = 2 THEN 4 ELSE 2
Variants(tp) ==
    { [tp EXCEPT !.c2 = 1], [tp EXCEPT !.c3 = 1], [tp EXCEPT !.c2 = 1, !.c3 = 1],
      [tp EXCEPT !.c2 = @ + 1], [tp EXCEPT !.c3 = @ + 1],
      [tp EXCEPT !.c2 = 1, !.c3 = @ + 1], [tp EXCEPT !.c2 = @ + 1, !.c3 = 1],
      [tp EXCEPT !.c2 = MaxI(@ - 1, 1)], [tp EXCEPT !.c3 = MaxI(@ - 1, 1)],
      [tp EXCEPT !.tw = @ + 1], [tp EXCEPT !.tw = 0],
      [tp EXCEPT !.w1 = @ + 1], [tp EXCEPT !.q = @ + 1], [tp EXCEPT !.c1 = @ + 1], [tp EXCEPT !.c1 = 1],
      [tp EXCEPT !.w2 = @ + 1], [tp EXCEPT !.d2 = Flip(@)],
      [tp EXCEPT !.w3 = @ - 1], [tp EXCEPT !.d3 = Flip(@)], [tp EXCEPT !.thr = @ + 1], [tp EXCEPT !.thr = MaxI(@ - 1, 1)],
      [tp EXCEPT !.win = @ + 1], [tp EXCEPT !.win = 0], [tp EXCEPT !.act = @ + 1], [tp EXCEPT !.act = 1],
      [tp EXCEPT !.w3b = @ - 1], [tp EXCEPT !.d3b = Flip(@)], [tp EXCEPT !.w4 = @ - 1], [tp EXCEPT !.d4 = Flip(@)],
      \* refused by validation
      [tp EXCEPT !.c2 = 0, !.w2 = 1], [tp EXCEPT !.d2 = 1, !.w2 = 1], [tp EXCEPT !.act = 0, !.w3 = -1],
      [tp EXCEPT !.tw = -1], [tp EXCEPT !.q = 0], [tp EXCEPT !.c3 = 1, !.d4 = 1] } \ {tp}
\* what SetTopicParams offers for topic t (in simulation a rotating handful, to keep the fan-out down)
Offered(t) ==
    LET V == IF Scored(t) THEN Variants(TP(t)) ELSE {}
        sq == SetToSeq(V)
        h == Len(hist) + nref + now
    IN Alt(t) \cup (IF ~Sim \/ V = {} THEN V
                     ELSE {sq[((h * 7) % Len(sq)) + 1], sq[((h * 7 + 3) % Len(sq)) + 1], sq[((h + 11) % Len(sq)) + 1]})

\* every message id belongs to one topic
IdTopic(i) == IF i = "m1" THEN "t1" ELSE IF i = "m2" /\ "t2" \in Topics THEN "t2"
              ELSE IF i = "m3" THEN "t1" ELSE IF "t2" \in Topics THEN "t2" ELSE "t1"

Init == /\ SInit(P0) /\ hist = <<>> /\ rmesh = {} /\ nref = 0 /\ nset = 0

\* forced prefixes: bring the scorer into an interesting region, explore exhaustively from there
E1(k, p) == [e |-> k, p |-> p]
E2(k, p, t) == [e |-> k, p |-> p, t |-> t]
Con(p) == [e |-> "connect", p |-> p, ips |-> <<>>]
Tk(n) == [e |-> "tick", dt |-> n]
Rf == [e |-> "refresh"]
Msg(k, i, p) == [e |-> k, id |-> i, p |-> p, t |-> IdTopic(i)]
WarmUps == <<
    \* 1: both peers grafted and past activation with a delivery deficit
    <<Con("p1"), Con("p2"), E2("graft", "p1", "t1"), E2("graft", "p2", "t1"), Tk(2), Rf>>,
    \* 2: p1 at the first-delivery cap, p2 near-first, a validated message inside its window
    <<Con("p1"), Con("p2"), E2("graft", "p1", "t1"), E2("graft", "p2", "t1"),
      Msg("deliver", "m2", "p1"), Msg("deliver", "m3", "p1"), [e |-> "validate", id |-> "m1", t |-> "t1"],
      Msg("duplicate", "m1", "p2"), Msg("deliver", "m1", "p1"), Tk(1)>>,
    \* 3: p1 retained with a negative score, p2 connected
    <<Con("p1"), Con("p2"), E2("graft", "p1", "t1"), Msg("reject", "m1", "p1") @@ [reason |-> "validation failed"],
      Tk(2), Rf, E1("disconnect", "p1"), Tk(1)>>,
    \* 4: p1 retained (score < 0) with a mesh-delivery counter of 2 (a parameter update must re-cap retained peers too)
    <<Con("p1"), Con("p2"), E2("graft", "p1", "t1"), Msg("deliver", "m2", "p1"), Msg("deliver", "m3", "p1"),
      Msg("reject", "m1", "p1") @@ [reason |-> "validation failed"], [e |-> "penalty", p |-> "p1", n |-> 2],
      [e |-> "penalty", p |-> "p1", n |-> 2], E1("disconnect", "p1")>>
>>
WarmUp == IF Warm = 0 THEN <<>> ELSE WarmUps[Warm]

Rec(e) == hist' = Append(hist, e)
Keep == UNCHANGED <<rmesh, nref, nset>>

Connect(p, I) == /\ ~conn[p] /\ DoConnect(p, I) /\ Keep
                 /\ Rec([e |-> "connect", p |-> p, ips |-> SetToSeq(I)])
Disconnect(p) == /\ conn[p] /\ DoDisconnect(p)
                 /\ rmesh' = {x \in rmesh : x[1] # p} /\ UNCHANGED <<nref, nset>>
                 /\ Rec([e |-> "disconnect", p |-> p])
Graft(p, t) == /\ conn[p] /\ <<p, t>> \notin rmesh /\ DoGraft(p, t)
               /\ rmesh' = rmesh \cup {<<p, t>>} /\ UNCHANGED <<nref, nset>>
               /\ Rec([e |-> "graft", p |-> p, t |-> t])
Prune(p, t) == /\ conn[p] /\ <<p, t>> \in rmesh /\ DoPrune(p, t)
               /\ rmesh' = rmesh \ {<<p, t>>} /\ UNCHANGED <<nref, nset>>
               /\ Rec([e |-> "prune", p |-> p, t |-> t])
Validate(i) == /\ rec[i].st = "none" /\ DoValidate(i) /\ Keep
               /\ Rec([e |-> "validate", id |-> i, t |-> IdTopic(i)])
Deliver(i, p) == /\ rec[i].st \in {"none", "unknown"} /\ DoDeliver(i, p, IdTopic(i)) /\ Keep
                 /\ Rec([e |-> "deliver", id |-> i, p |-> p, t |-> IdTopic(i)])
Reject(i, p, r) == /\ (IF r \in SigReasons \cup IgnoreReasons THEN TRUE ELSE rec[i].st \in {"none", "unknown"})
                   /\ DoReject(i, p, IdTopic(i), r) /\ Keep
                   /\ Rec([e |-> "reject", id |-> i, p |-> p, t |-> IdTopic(i), reason |-> r])
Duplicate(i, p) == /\ DoDuplicate(i, p, IdTopic(i)) /\ Keep
                   /\ Rec([e |-> "duplicate", id |-> i, p |-> p, t |-> IdTopic(i)])
Penalty(p, n) == /\ p \in tracked /\ DoPenalty(p, n) /\ Keep
                 /\ Rec([e |-> "penalty", p |-> p, n |-> n])
Refresh == /\ nref < MaxRefresh /\ RefreshExact /\ DoRefresh
           /\ nref' = nref + 1 /\ UNCHANGED <<rmesh, nset>>
           /\ Rec([e |-> "refresh"])
GC == /\ {i \in Ids : rec[i].st # "none" /\ now > rec[i].expire} # {}
      /\ DoGC /\ Keep /\ Rec([e |-> "gc"])
SetApp(p, v) == /\ v # app[p] /\ DoSetApp(p, v) /\ Keep
                /\ Rec([e |-> "setapp", p |-> p, v |-> v])
SetIPs(p, I) == /\ conn[p] /\ I # ips[p] /\ DoSetIPs(p, I) /\ Keep
                /\ Rec([e |-> "setips", p |-> p, ips |-> SetToSeq(I)])
SetTopicParams(t, tp) == /\ nset < 2 /\ (IF Scored(t) THEN TP(t) # tp ELSE TRUE) /\ DoSetTopicParams(t, tp)
                         /\ nset' = nset + 1 /\ UNCHANGED <<rmesh, nref>>
                         /\ Rec([e |-> "setparams", t |-> t, tp |-> tp])
Tick(dt) == /\ now + dt <= MaxNow /\ DoTick(dt) /\ Keep
            /\ Rec([e |-> "tick", dt |-> dt])

\* one representative per class of reject reasons in exhaustive runs would hide a swapped case:
\* all eleven are offered, rotating through the signature/ignore classes by position to keep the fan-out down
Pick(set) == LET sq == SetToSeq(set) IN sq[((Len(hist) + nref + now) % Len(sq)) + 1]
ReasonChoices == IF Sim THEN {Pick(SigReasons \cup IgnoreReasons), Pick({"validation throttled", "validation ignored", "validation failed"}), "validation failed"}
                 ELSE {Pick(SigReasons), Pick(IgnoreReasons), "validation throttled", "validation ignored", "validation failed"}
\* weights for -simulate (TLC picks uniformly among the successors, duplicates included)
W(n) == IF Sim THEN 1..n ELSE {1}

\* keep every value far inside TLC's 32 bit integers (and exactly representable in float64)
Safe == \A p \in Peers :
          /\ pen[p] <= 8 * S
          /\ \A t \in Topics : ts[p][t].imd <= 8 * S /\ ts[p][t].mfp <= 256 * S2

Event ==
    \/ \E p \in Peers, I \in IPSets : Connect(p, I)
    \/ \E p \in Peers, k \in W(2) : Disconnect(p)
    \/ \E p \in Peers, t \in Topics, k \in W(2) : Graft(p, t)
    \/ \E p \in Peers, t \in Topics, k \in W(3) : Prune(p, t)
    \/ \E i \in Ids, k \in W(3) : Validate(i)
    \/ \E i \in Ids, p \in Peers, k \in W(2) : Deliver(i, p)
    \/ \E i \in Ids, p \in Peers, r \in ReasonChoices : Reject(i, p, r)
    \/ \E i \in Ids, p \in Peers : Duplicate(i, p)
    \/ \E p \in Peers, n \in {1, 2} : Penalty(p, n)
    \/ \E k \in W(5) : Refresh
    \/ \E p \in Peers, v \in AppVals : SetApp(p, v)
    \/ \E k \in W(5) : Tick(1)
    \/ (Rich /\ \E k \in W(2) : GC)
    \/ (Rich /\ \E p \in Peers, I \in IPSets : SetIPs(p, I))
    \/ (Rich /\ \E t \in Topics : \E tp \in Offered(t) : SetTopicParams(t, tp))
    \/ (Rich /\ Tick(2))

Forced ==
    LET e == WarmUp[Len(hist) + 1] IN
    /\ Apply(e) /\ Rec(e)
    /\ rmesh' = CASE e.e = "graft" -> rmesh \cup {<<e.p, e.t>>}
                   [] e.e = "prune" -> rmesh \ {<<e.p, e.t>>}
                   [] e.e = "disconnect" -> {x \in rmesh : x[1] # e.p}
                   [] OTHER -> rmesh
    /\ nref' = nref + (IF e.e = "refresh" THEN 1 ELSE 0)
    /\ UNCHANGED nset

\* the simulator evaluates the invariant Emit on every successor of the state it stands in: a walk ends
\* with one fixed event so that it is emitted exactly once
Next == IF Len(hist) < Len(WarmUp) THEN Forced
        ELSE IF Sim /\ Len(hist) = Len(WarmUp) + L - 1 THEN Tick(1)
        ELSE Len(hist) < Len(WarmUp) + L /\ Event /\ Safe'

Spec == Init /\ [][Next]_vars

\* exhaustive checking merges histories that lead to the same scorer state
View == <<now, par, tracked, conn, expire, pen, ips, app, ts, rec, rmesh, nref, nset, Len(hist)>>

Emit == Len(hist) = Len(WarmUp) + L => PrintT(<<"SCN", ToJson([ps |-> PS, warm |-> Warm, par |-> P0, peers |-> SetToSeq(Peers), topics |-> SetToSeq(Topics), ev |-> hist])>>)

-----------------------------------------------------------------------------
(* model-level properties *)

\* retention: a disconnect forgets a positive score at once and keeps a non-positive one; a retained
\* peer is neither decayed nor dropped by Refresh until the clock has passed its expiry, and then dropped
RetentionStep ==
    /\ Len(hist') = Len(hist) + 1
    /\ LET e == hist'[Len(hist')] IN
       /\ e.e = "disconnect" =>
            /\ (Score(e.p) > 0) <=> (e.p \notin tracked')
            /\ e.p \in tracked' => /\ ~conn'[e.p] /\ expire'[e.p] = now + par.retain
                                   /\ \A t \in Topics : ts'[e.p][t].fmd = 0 /\ ~ts'[e.p][t].inMesh
       /\ e.e = "refresh" =>
            \A p \in tracked : ~conn[p] =>
               /\ (p \in tracked') <=> (now <= expire[p])
               /\ p \in tracked' => ts'[p] = ts[p] /\ pen'[p] = pen[p]
       /\ e.e = "connect" => (e.p \in tracked => ts'[e.p] = ts[e.p] /\ pen'[e.p] = pen[e.p])
P_C10_Retention == [][RetentionStep]_vars

\* non-vacuity (these MUST be violated: the interesting situations are reachable)
NV_CapHit      == ~(\E p \in Peers, t \in Topics \cap DOMAIN par.topics : ts[p][t].fmd = TP(t).c2 * S)
NV_Retained    == ~(\E p \in tracked : ~conn[p] /\ Score(p) < 0)
NV_TopicCap    == ~(\E p \in tracked : par.cap > 0 /\ TopicSum(p) > par.cap * S2)
NV_Sticky      == ~(\E p \in Peers, t \in Topics : ts[p][t].mfp > 0)
=============================================================================
