SPECIFICATION Spec
CONSTANTS
  Peers = {"p1", "p2"}
  Topics = {"t1", "t2"}
  Ids = {"m1", "m2"}
  PS = 1
  L = 6
  MaxRefresh = 3
  MaxNow = 4
  IPSets <- NoIPs
  AppVals <- App2
  Rich = FALSE
  Sim = FALSE
  Warm = 0
INVARIANT P_C10_Bounds
INVARIANT P_C10_PenaltiesOnlyLower
INVARIANT P_C10_Forgotten
PROPERTY P_C10_Retention
VIEW View
CHECK_DEADLOCK FALSE
