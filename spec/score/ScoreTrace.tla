----------------------------- MODULE ScoreTrace -----------------------------
(* Trace specification for C10.  trace.ndjson holds event histories that were
   replayed into the REAL peerScore (harness/drivers/c10), one line per event with
   what the real scorer answered right after it:
     obs[p] = [score (real score times S^2), ok (the score was an exact integer, not NaN/Inf),
               tracked, conn, pen (times S), cok (all counters exact),
               top[t] = [fmd, mmd, imd (times S), mfp (times S^2), mt (ticks in mesh), in, act]]
   The replay is deterministic: every line is applied to Score.tla's state by the
   event of the same name, then the observation of that line is judged against the
   model state (at the beginning of the next step).  The first failing predicate
   of a scenario is printed as <<"VIOL", ToJson(<<line, predicate, peer, what, expected, observed>>)>>;
   the orchestrator turns these lines into the verdict.  A scenario starts with a
   `reset` line carrying the parameter set. *)
EXTENDS Score, Json

Trace == ndJsonDeserialize("trace.ndjson")

VARIABLES l,     \* cursor
          bad    \* a predicate already failed in the current scenario

tvars == <<now, par, tracked, conn, expire, pen, ips, app, ts, rec, l, bad>>

NoPar == [topics |-> <<>>, cap |-> 0, appW |-> 0, ipW |-> 0, ipThr |-> 1, wl |-> <<>>,
          penW |-> 0, penThr |-> 0, penD |-> 2, dtz |-> 1, retain |-> 0, ttl |-> 1]

NCov == 37
TInit == TLCSet(1, 0) /\ (\A i \in 1..NCov : TLCSet(10 + i, 0)) /\ SInit(NoPar) /\ l = 1 /\ bad = FALSE

DoReset(p0) ==
    /\ now' = 0 /\ par' = p0 /\ tracked' = {}
    /\ conn' = [p \in Peers |-> FALSE] /\ expire' = [p \in Peers |-> 0]
    /\ pen' = [p \in Peers |-> 0] /\ ips' = [p \in Peers |-> {}]
    /\ app' = [p \in Peers |-> 0]
    /\ ts' = [p \in Peers |-> [t \in Topics |-> TS0]]
    /\ rec' = [i \in Ids |-> Rec0]

-----------------------------------------------------------------------------
(* judging the observation o of peer p (taken on the real scorer) against the model state *)

ObsRec(o, t) == [inMesh |-> o.top[t].in, meshTime |-> o.top[t].mt, fmd |-> o.top[t].fmd,
                 mmd |-> o.top[t].mmd, active |-> o.top[t].act, mfp |-> o.top[t].mfp, imd |-> o.top[t].imd]
ObsT(o) == [t \in ScoredTopics \cap DOMAIN o.top |-> ObsRec(o, t)]

\* result: <<predicate, what, expected, observed>> of the first failing predicate, or <<>>
JudgePeer(p, o) ==
    LET OT == DOMAIN o.top IN
    IF ~o.ok THEN <<"P_C10_Function", "score is not an exact multiple of 1/S^2 (NaN, Inf or a different formula)", Score(p), o.raw>>
    ELSE IF o.tracked # (p \in tracked) THEN <<"P_C10_Retention", "tracked", p \in tracked, o.tracked>>
    ELSE IF o.score # Score(p) THEN <<"P_C10_Function", "score", Score(p), o.score>>
    ELSE IF ~o.cok THEN <<"P_C10_Function", "a counter is not an exact multiple of its unit", ts[p], o.top>>
    ELSE IF \E t \in OT : \/ o.top[t].fmd < 0 \/ o.top[t].mmd < 0 \/ o.top[t].imd < 0 \/ o.top[t].mfp < 0
                          \/ (Scored(t) /\ (o.top[t].fmd > TP(t).c2 * S \/ o.top[t].mmd > TP(t).c3 * S))
      THEN <<"P_C10_Bounds", "topic counter", ts[p], o.top>>
    ELSE IF o.pen < 0 THEN <<"P_C10_Bounds", "behaviour penalty", pen[p], o.pen>>
    ELSE IF o.tracked /\ ScoredTopics \subseteq OT /\ o.score > PositiveOf(p, ObsT(o))
      THEN <<"P_C10_PenaltiesOnlyLower", "score above its penalty-free part", PositiveOf(p, ObsT(o)), o.score>>
    \* the inspector's counters (PeerScoreSnapshot) are observable too
    ELSE IF o.pen # pen[p] THEN <<"P_C10_Function", "counter:behaviourPenalty", pen[p], o.pen>>
    ELSE IF \E t \in OT : o.top[t].fmd # ts[p][t].fmd THEN <<"P_C10_Function", "counter:firstMessageDeliveries", ts[p], o.top>>
    ELSE IF \E t \in OT : o.top[t].mmd # ts[p][t].mmd THEN <<"P_C10_Function", "counter:meshMessageDeliveries", ts[p], o.top>>
    ELSE IF \E t \in OT : o.top[t].imd # ts[p][t].imd THEN <<"P_C10_Function", "counter:invalidMessageDeliveries", ts[p], o.top>>
    ELSE IF \E t \in OT : o.top[t].in /\ ts[p][t].inMesh /\ o.top[t].mt # ts[p][t].meshTime THEN <<"P_C10_Function", "counter:timeInMesh", ts[p], o.top>>
    ELSE <<>>

-----------------------------------------------------------------------------
(* coverage of the validated real steps (obligations of the check): which situations the event e
   meets in the state before it.  Counted in TLC registers, printed at the end. *)
Tag(c, i) == IF c THEN {i} ELSE {}
AtLive(e) == "p" \in DOMAIN e /\ "t" \in DOMAIN e /\ Live(e.p, e.t)
CovTags(e) ==
    LET k == e.e
        s == IF AtLive(e) THEN ts[e.p][e.t] ELSE TS0
        r == IF "id" \in DOMAIN e THEN GetRec(e.id) ELSE Rec0
        connected == {p \in tracked : conn[p]}
        retained == {p \in tracked : ~conn[p]}
        upd == k = "setparams" /\ Scored(e.t) /\ ValidTP(e.tp)
        clk == k \in {"tick", "refresh"}   \* situations that are states, not steps, are sampled when the clock moves
    IN  Tag(k = "deliver" /\ AtLive(e) /\ s.fmd + S >= TP(e.t).c2 * S, 1)
   \cup Tag(k = "refresh" /\ \E p \in connected, t \in ScoredTopics : ts[p][t].fmd = TP(t).c2 * S, 2)
   \cup Tag(k = "disconnect" /\ e.p \in tracked /\ Score(e.p) <= 0, 3)
   \cup Tag(k = "disconnect" /\ e.p \in tracked /\ Score(e.p) > 0, 4)
   \cup Tag(k = "connect" /\ e.p \in retained /\ Score(e.p) < 0, 5)
   \cup Tag(k = "graft" /\ AtLive(e) /\ (s.mfp > 0 \/ s.imd > 0), 6)
   \cup Tag(k = "duplicate" /\ AtLive(e) /\ s.inMesh /\ r.st = "unknown" /\ e.p \notin r.peers, 7)
   \cup Tag(k = "deliver" /\ r.st = "unknown" /\ \E q \in r.peers \ {e.p} : Live(q, e.t) /\ ts[q][e.t].inMesh, 8)
   \cup Tag(k = "duplicate" /\ AtLive(e) /\ s.inMesh /\ r.st = "valid" /\ e.p \notin r.peers /\ now - r.validated < TP(e.t).win, 9)
   \cup Tag(k = "duplicate" /\ AtLive(e) /\ s.inMesh /\ r.st = "valid" /\ e.p \notin r.peers /\ now - r.validated = TP(e.t).win, 10)
   \cup Tag(k = "duplicate" /\ AtLive(e) /\ s.inMesh /\ r.st = "valid" /\ e.p \notin r.peers /\ now - r.validated > TP(e.t).win, 11)
   \cup Tag(k = "duplicate" /\ AtLive(e) /\ r.st = "invalid", 12)
   \cup Tag(upd /\ \E p \in tracked : ts[p][e.t].fmd > e.tp.c2 * S \/ ts[p][e.t].mmd > e.tp.c3 * S, 13)
   \cup Tag(k = "setparams" /\ ~Scored(e.t) /\ ValidTP(e.tp), 14)
   \cup Tag(clk /\ \E p \in tracked : par.cap > 0 /\ TopicSum(p) > par.cap * S2
                                /\ Cardinality({t \in ScoredTopics : TopicScore(p, t) > 0}) >= 2, 15)
   \cup Tag(clk /\ \E p \in tracked : C6(p) < 0, 16)
   \cup Tag(clk /\ \E p \in tracked : \E ip \in ips[p] \cap RangeOf(par.wl) : PeersOnIP(ip) > par.ipThr, 17)
   \cup Tag(k = "refresh" /\ \E p \in connected : \/ (pen[p] > 0 /\ Decay(pen[p], par.penD, par.dtz) = 0)
                                                  \/ \E t \in ScoredTopics :
                                                       \/ (ts[p][t].fmd > 0 /\ Decay(ts[p][t].fmd, TP(t).d2, par.dtz) = 0)
                                                       \/ (ts[p][t].mmd > 0 /\ Decay(ts[p][t].mmd, TP(t).d3, par.dtz) = 0)
                                                       \/ (ts[p][t].imd > 0 /\ Decay(ts[p][t].imd, TP(t).d4, par.dtz) = 0)
                                                       \/ (ts[p][t].mfp > 0 /\ Decay(ts[p][t].mfp, TP(t).d3b, par.dtz * S) = 0), 18)
   \cup Tag(k = "refresh" /\ Purged # {}, 19)
   \cup Tag(k = "refresh" /\ \E p \in retained \ Purged : Score(p) < 0, 20)
   \cup Tag(k = "refresh" /\ \E p \in retained : now = expire[p], 21)
   \cup Tag(clk /\ \E p \in tracked, t \in ScoredTopics : C3(p, t) < 0, 22)
   \cup Tag(k \in {"prune", "disconnect"} /\ "p" \in DOMAIN e /\ e.p \in tracked
            /\ \E t \in ScoredTopics : (k = "disconnect" \/ t = e.t) /\ ts[e.p][t].inMesh /\ StickyOnLeave(ts[e.p][t], t) > ts[e.p][t].mfp, 23)
   \cup Tag(clk /\ \E p \in tracked : C7(p) < 0, 24)
   \cup Tag(clk /\ \E p \in tracked, t \in ScoredTopics : ts[p][t].inMesh /\ ts[p][t].meshTime \div TP(t).q > TP(t).c1, 25)
   \cup Tag(k = "refresh" /\ \E p \in connected, t \in ScoredTopics : ts[p][t].inMesh /\ ~ts[p][t].active /\ now - ts[p][t].graft = TP(t).act, 26)
   \cup Tag(k = "refresh" /\ \E p \in connected, t \in ScoredTopics : ts[p][t].inMesh /\ ~ts[p][t].active /\ now - ts[p][t].graft > TP(t).act, 27)
   \cup Tag(k = "gc" /\ \E i \in Ids : rec[i].st # "none" /\ now > rec[i].expire, 28)
   \cup Tag(k = "deliver" /\ AtLive(e) /\ s.inMesh /\ s.mmd + S >= TP(e.t).c3 * S, 29)
   \cup Tag(clk /\ \E p \in tracked, t \in ScoredTopics : C3b(p, t) < 0 /\ ~ts[p][t].inMesh, 30)
   \cup Tag(clk /\ par.ipW < 0 /\ \E p \in tracked : \E ip \in ips[p] \ RangeOf(par.wl) : PeersOnIP(ip) - par.ipThr >= 2, 31)
   \* parameter updates of a topic that has parameters (upd), by what they do to the two delivery caps
   \cup Tag(upd /\ e.tp.c2 < TP(e.t).c2 /\ e.tp.c3 >= TP(e.t).c3 /\ \E p \in tracked : ts[p][e.t].fmd > e.tp.c2 * S, 32)
   \cup Tag(upd /\ e.tp.c3 < TP(e.t).c3 /\ e.tp.c2 >= TP(e.t).c2 /\ \E p \in tracked : ts[p][e.t].mmd > e.tp.c3 * S, 33)
   \cup Tag(upd /\ e.tp.c2 < TP(e.t).c2 /\ e.tp.c3 < TP(e.t).c3
            /\ \E p \in tracked : ts[p][e.t].fmd > e.tp.c2 * S \/ ts[p][e.t].mmd > e.tp.c3 * S, 34)
   \cup Tag(k = "setparams" /\ ~ValidTP(e.tp) /\ Scored(e.t), 35)
   \cup Tag(upd /\ e.tp.c2 >= TP(e.t).c2 /\ e.tp.c3 >= TP(e.t).c3
            /\ \E p \in tracked : ts[p][e.t].fmd > 0 \/ ts[p][e.t].mmd > 0 \/ ts[p][e.t].inMesh, 36)
   \cup Tag(upd /\ (e.tp.c2 < TP(e.t).c2 \/ e.tp.c3 < TP(e.t).c3)
            /\ \E p \in tracked : ~conn[p] /\ (ts[p][e.t].fmd > e.tp.c2 * S \/ ts[p][e.t].mmd > e.tp.c3 * S), 37)
CovCount(e) == \A i \in CovTags(e) : TLCSet(10 + i, TLCGet(10 + i) + 1)

\* the previous line's observation, judged in the state that line led to
PrevFail ==
    IF l = 1 THEN <<>>
    ELSE LET e == Trace[l - 1] IN
      IF e.e = "reset" THEN <<>>
      ELSE IF e.e = "panic" THEN <<"P_C10_Function", "panic", "no panic", e.msg>>
      ELSE IF e.e = "setparams" /\ e.refused # ~ValidTP(e.tp)
        THEN <<"P_C10_Function", "-", "parameter update refused by validation", ~ValidTP(e.tp), e.refused>>
      ELSE LET F == {p \in DOMAIN e.obs : JudgePeer(p, e.obs[p]) # <<>>} IN
           IF F = {} THEN (IF e.now # now THEN <<"MACH", "clock", now, e.now>> ELSE <<>>)
           ELSE LET p == CHOOSE q \in F : TRUE IN <<JudgePeer(p, e.obs[p])[1], p>> \o Tail(JudgePeer(p, e.obs[p]))

Report(f) == IF f = <<>> \/ bad THEN TRUE ELSE PrintT(<<"VIOL", ToJson(<<l - 1>> \o f)>>)

TStep ==
    /\ l <= Len(Trace) + 1
    /\ LET f == PrevFail IN
       /\ Report(f)
       /\ IF l <= Len(Trace)
            THEN LET e == Trace[l] IN
                 IF e.e = "panic" THEN /\ UNCHANGED svars /\ bad' = (bad \/ f # <<>>)
                 ELSE IF e.e = "reset" THEN /\ DoReset(e.par) /\ bad' = FALSE
                 ELSE /\ (IF bad \/ f # <<>> THEN TRUE ELSE CovCount(e)) /\ Apply(e) /\ bad' = (bad \/ f # <<>>)
            ELSE UNCHANGED svars /\ bad' = bad
    /\ l' = l + 1

TraceSpec == TInit /\ [][TStep]_tvars

HW == IF TLCGet(1) < l THEN TLCSet(1, l) ELSE TRUE
Accepted == PrintT(<<"COV", ToJson([i \in 1..NCov |-> TLCGet(10 + i)])>>) /\ PrintT(<<"HW", TLCGet(1), Len(Trace) + 2>>)
=============================================================================
