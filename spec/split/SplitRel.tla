----------------------------- MODULE SplitRel -----------------------------
(* C11 - the PROPERTY, as a relation between an RPC, a size limit and the
   fragments a splitter hands out.  Nothing here knows how the splitter works.

   An RPC (input or fragment) is a record of sequences
       pub      published messages (order matters)
       subs     subscriptions
       graft, prune
       ihave    entries [t |-> topic, ids |-> sequence of message ids]
       iwant    entries = sequences of message ids
       idw      IDONTWANT entries = sequences of message ids
       ext, partial, testext   sequences of length 0 or 1 (Control.Extensions,
                               RPC.Partial, RPC.TestExtension)
   The elements are opaque values compared with "=" only: records in the
   abstract model (Split.tla), content keys (strings) in recorded traces
   (SplitTrace.tla).  Sizes are passed in, so the relation is exact whatever
   computes them (the abstract Size of Split.tla, or the real Size() reported
   by the driver).

   Reading of the statement (DESIGN.md C11, properties.jsonl C11):
     * "fit the limit"          size <= limit
     * "only an individual element that cannot fit by itself is dropped":
       RPC.split hands such an element out in a fragment of its own and the
       caller drops it, so an oversized fragment is allowed iff it consists of
       ONE indivisible element: one message, one subscription, one GRAFT, one
       PRUNE, one IHAVE / IWANT / IDONTWANT entry with at most one id, or one
       of the three singleton fields.
     * "no empty RPC"           every fragment has at least one entry (an empty
       Control wrapper does not count as content)
     * contents: publish list equal as a sequence; every other kind equal as a
       multiset, IHAVE ids together with their topic.  Regrouping ids into
       other/more entries is free, packing optimality is not required.      *)
EXTENDS Naturals, Sequences, FiniteSets

KindSet == {"pub", "sub", "graft", "prune", "ihave", "iwant", "idontwant", "ext", "partial", "testext"}

Field(k) == CASE k = "pub" -> "pub" [] k = "sub" -> "subs" [] k = "graft" -> "graft" [] k = "prune" -> "prune"
              [] k = "ihave" -> "ihave" [] k = "iwant" -> "iwant" [] k = "idontwant" -> "idw"
              [] k = "ext" -> "ext" [] k = "partial" -> "partial" [] k = "testext" -> "testext"

Entries(r) == Len(r.pub) + Len(r.subs) + Len(r.graft) + Len(r.prune) + Len(r.ihave) + Len(r.iwant)
              + Len(r.idw) + Len(r.ext) + Len(r.partial) + Len(r.testext)

IsEmpty(r) == Entries(r) = 0

Indivisible(r) ==
    /\ Entries(r) = 1
    /\ Len(r.ihave) = 1 => Len(r.ihave[1].ids) <= 1
    /\ Len(r.iwant) = 1 => Len(r.iwant[1]) <= 1
    /\ Len(r.idw) = 1 => Len(r.idw[1]) <= 1

(* The items of kind k carried by a list of RPCs, as a set of positions and a
   value for each position (a multiset without building sequences).          *)
Pos(rs, k) ==
    CASE k = "ihave" ->
           UNION {UNION {{<<f, e, j>> : j \in DOMAIN rs[f].ihave[e].ids} : e \in DOMAIN rs[f].ihave} : f \in DOMAIN rs}
      [] k \in {"iwant", "idontwant"} ->
           UNION {UNION {{<<f, e, j>> : j \in DOMAIN rs[f][Field(k)][e]} : e \in DOMAIN rs[f][Field(k)]} : f \in DOMAIN rs}
      [] OTHER ->
           UNION {{<<f, e, 0>> : e \in DOMAIN rs[f][Field(k)]} : f \in DOMAIN rs}

Val(rs, k, p) ==
    CASE k = "ihave" -> <<rs[p[1]].ihave[p[2]].t, rs[p[1]].ihave[p[2]].ids[p[3]]>>
      [] k \in {"iwant", "idontwant"} -> rs[p[1]][Field(k)][p[2]][p[3]]
      [] OTHER -> rs[p[1]][Field(k)][p[2]]

(* Multiset comparison of kind k: lost = some item occurs more often in the
   input than in the fragments; extra = some item occurs more often in the
   fragments (duplicated or foreign).  When the input items are pairwise
   distinct (the usual case) plain sets decide it.                           *)
CmpL(ins, outs, k) ==
    LET PI == Pos(ins, k)      PO == Pos(outs, k)
        SI == {Val(ins, k, p) : p \in PI}
        SO == {Val(outs, k, p) : p \in PO}
    IN IF Cardinality(SI) = Cardinality(PI)
         THEN [lost  |-> ~(SI \subseteq SO),
               extra |-> ~(SO \subseteq SI) \/ Cardinality(PO) > Cardinality(SO)]
         ELSE LET CI(x) == Cardinality({p \in PI : Val(ins, k, p) = x})
                  CO(x) == Cardinality({p \in PO : Val(outs, k, p) = x})
              IN [lost  |-> \E x \in SI : CI(x) > CO(x),
                  extra |-> \E x \in SO : CO(x) > CI(x)]
Cmp(rpc, frags, k) == CmpL(<<rpc>>, frags, k)

(* the fragments' publish lists, concatenated, are the input's publish list *)
PubInOrder(rpc, frags) ==
    LET idx == SelectSeq([i \in DOMAIN frags |-> i], LAMBDA i : Len(frags[i].pub) > 0)   \* fragments that publish
        off[n \in 1..(Len(idx) + 1)] == IF n = 1 THEN 0 ELSE off[n - 1] + Len(frags[idx[n - 1]].pub)
    IN /\ off[Len(idx) + 1] = Len(rpc.pub)
       /\ \A n \in DOMAIN idx : \A j \in DOMAIN frags[idx[n]].pub : frags[idx[n]].pub[j] = rpc.pub[off[n] + j]

(* Everything the relation has to say about one split, as a record (so that a
   trace spec can report which clause failed).                               *)
Verdict(rpc, limit, frags, sizes) ==
    LET c == [k \in KindSet |-> Cmp(rpc, frags, k)]
        over == {i \in DOMAIN frags : sizes[i] > limit}
    IN [lost     |-> {k \in KindSet : c[k].lost},
        extra    |-> {k \in KindSet : c[k].extra},
        puborder |-> PubInOrder(rpc, frags),
        empty    |-> {i \in DOMAIN frags : IsEmpty(frags[i])},
        over     |-> over,
        badover  |-> {i \in over : ~Indivisible(frags[i])}]

Holds(v) == v.lost = {} /\ v.extra = {} /\ v.puborder /\ v.empty = {} /\ v.badover = {}

ValidSplitSz(rpc, limit, frags, sizes) ==
    /\ Len(sizes) = Len(frags)
    /\ Holds(Verdict(rpc, limit, frags, sizes))

-----------------------------------------------------------------------------
(* The same property one level up, at GossipSubRouter.sendRPC.  Observed per
   call: the RPCs QUEUED for the wire (with their sizes), the drop REPORTS -
   "rep": the content of every RPC handed to RawTracer.DropRPC, read inside the
   callback, with its size; "evt": the meta of the DROP_RPC trace events, which
   can name IHAVE/IWANT/IDONTWANT ids and count the rest - the control message
   kept for a RETRY, and the capacity of the peer's queue (cap < 0: unbounded).

     * conservation: per kind, queued (+) reported-dropped = original as
       multisets - nothing is dropped silently, nothing appears twice or from
       nowhere;
     * gossipsub never queues an RPC larger than the limit, nor an empty one;
     * only what cannot be sent is dropped: a reported RPC is either ONE
       indivisible element larger than the limit, or the peer's queue is full;
     * the messages queued, and the messages reported dropped, each follow the
       order of the input;
     * the DROP_RPC event says the same as the RPC given to the raw tracer;
     * retry: what the unchanged code does is keep, in gs.control[peer], the
       GRAFT and PRUNE of the LAST dropped RPC that carried any (they are
       reported as dropped AND piggybacked onto a later RPC; gossip ids are
       never retried).  Judged here: every GRAFT/PRUNE kept for a retry is one
       that was reported dropped in this call - a retry of something that was
       queued would send it twice.                                            *)
FlatPub(rs) ==
    LET idx == SelectSeq([i \in DOMAIN rs |-> i], LAMBDA i : Len(rs[i].pub) > 0)
        cat[n \in 0..Len(idx)] == IF n = 0 THEN <<>> ELSE cat[n - 1] \o rs[idx[n]].pub
    IN cat[Len(idx)]

\* s is a subsequence of t (greedy matching)
SubSeqOf(s, t) ==
    LET m[i \in 0..Len(s)] ==
            IF i = 0 THEN 0
            ELSE LET prev == m[i - 1]
                     cand == {j \in (prev + 1)..Len(t) : t[j] = s[i]}
                 IN IF cand = {} THEN Len(t) + 1 ELSE CHOOSE j \in cand : \A j2 \in cand : j <= j2
    IN m[Len(s)] <= Len(t)

GossipKinds == {"ihave", "iwant", "idontwant"}

SendVerdict(rpc, limit, queued, qsizes, rep, dsizes, evt, retry, cap) ==
    LET all  == queued \o rep
        c    == [k \in KindSet |-> CmpL(<<rpc>>, all, k)]
        full == cap >= 0 /\ Len(queued) >= cap
        evtOK(i) == /\ \A k \in GossipKinds : LET x == CmpL(<<rep[i]>>, <<evt[i]>>, k) IN ~x.lost /\ ~x.extra
                    /\ evt[i].n = <<Len(rep[i].pub), Len(rep[i].subs), Len(rep[i].graft), Len(rep[i].prune)>>
    IN [lost     |-> {k \in KindSet : c[k].lost},          \* neither queued nor reported: dropped silently
        extra    |-> {k \in KindSet : c[k].extra},
        puborder |-> SubSeqOf(FlatPub(queued), rpc.pub) /\ SubSeqOf(FlatPub(rep), rpc.pub),
        empty    |-> {i \in DOMAIN queued : IsEmpty(queued[i])},
        over     |-> {i \in DOMAIN queued : qsizes[i] > limit},
        baddrop  |-> {i \in DOMAIN rep : ~((dsizes[i] > limit /\ Indivisible(rep[i])) \/ full)},
        evtbad   |-> IF Len(evt) # Len(rep) THEN {0} ELSE {i \in DOMAIN rep : ~evtOK(i)},
        retrybad |-> {k \in {"graft", "prune"} : CmpL(rep, <<retry>>, k).extra}]

SendHolds(v) == /\ v.lost = {} /\ v.extra = {} /\ v.puborder /\ v.empty = {} /\ v.over = {}
                /\ v.baddrop = {} /\ v.evtbad = {} /\ v.retrybad = {}
=============================================================================
