----------------------------- MODULE SplitRel -----------------------------
(* C11 - the PROPERTY, as a relation between an RPC, a size limit and the
   fragments a splitter hands out.  Nothing here knows how the splitter works.

   An RPC (input or fragment) is a record of sequences
       pub      published messages (order matters)
       subs     subscriptions
       graft, prune
       ihave    entries [t |-> topic, ids |-> sequence of message ids]
       iwant    entries = sequences of message ids
       idw      IDONTWANT entries = sequences of message ids
       ext, partial, testext   sequences of length 0 or 1 (Control.Extensions,
                               RPC.Partial, RPC.TestExtension)
   The elements are opaque values compared with "=" only: records in the
   abstract model (Split.tla), content keys (strings) in recorded traces
   (SplitTrace.tla).  Sizes are passed in, so the relation is exact whatever
   computes them (the abstract Size of Split.tla, or the real Size() reported
   by the driver).

   Reading of the statement (DESIGN.md C11, properties.jsonl C11):
     * "fit the limit"          size <= limit
     * "only an individual element that cannot fit by itself is dropped":
       RPC.split hands such an element out in a fragment of its own and the
       caller drops it, so an oversized fragment is allowed iff it consists of
       ONE indivisible element: one message, one subscription, one GRAFT, one
       PRUNE, one IHAVE / IWANT / IDONTWANT entry with at most one id, or one
       of the three singleton fields.
     * "no empty RPC"           every fragment has at least one entry (an empty
       Control wrapper does not count as content)
     * contents: publish list equal as a sequence; every other kind equal as a
       multiset, IHAVE ids together with their topic.  Regrouping ids into
       other/more entries is free, packing optimality is not required.      *)
EXTENDS Naturals, Sequences, FiniteSets

KindSet == {"pub", "sub", "graft", "prune", "ihave", "iwant", "idontwant", "ext", "partial", "testext"}

Field(k) == CASE k = "pub" -> "pub" [] k = "sub" -> "subs" [] k = "graft" -> "graft" [] k = "prune" -> "prune"
              [] k = "ihave" -> "ihave" [] k = "iwant" -> "iwant" [] k = "idontwant" -> "idw"
              [] k = "ext" -> "ext" [] k = "partial" -> "partial" [] k = "testext" -> "testext"

Entries(r) == Len(r.pub) + Len(r.subs) + Len(r.graft) + Len(r.prune) + Len(r.ihave) + Len(r.iwant)
              + Len(r.idw) + Len(r.ext) + Len(r.partial) + Len(r.testext)

IsEmpty(r) == Entries(r) = 0

Indivisible(r) ==
    /\ Entries(r) = 1
    /\ Len(r.ihave) = 1 => Len(r.ihave[1].ids) <= 1
    /\ Len(r.iwant) = 1 => Len(r.iwant[1]) <= 1
    /\ Len(r.idw) = 1 => Len(r.idw[1]) <= 1

(* The items of kind k carried by a list of RPCs, as a set of positions and a
   value for each position (a multiset without building sequences).          *)
Pos(rs, k) ==
    CASE k = "ihave" ->
           UNION {UNION {{<<f, e, j>> : j \in DOMAIN rs[f].ihave[e].ids} : e \in DOMAIN rs[f].ihave} : f \in DOMAIN rs}
      [] k \in {"iwant", "idontwant"} ->
           UNION {UNION {{<<f, e, j>> : j \in DOMAIN rs[f][Field(k)][e]} : e \in DOMAIN rs[f][Field(k)]} : f \in DOMAIN rs}
      [] OTHER ->
           UNION {{<<f, e, 0>> : e \in DOMAIN rs[f][Field(k)]} : f \in DOMAIN rs}

Val(rs, k, p) ==
    CASE k = "ihave" -> <<rs[p[1]].ihave[p[2]].t, rs[p[1]].ihave[p[2]].ids[p[3]]>>
      [] k \in {"iwant", "idontwant"} -> rs[p[1]][Field(k)][p[2]][p[3]]
      [] OTHER -> rs[p[1]][Field(k)][p[2]]

(* Multiset comparison of kind k: lost = some item occurs more often in the
   input than in the fragments; extra = some item occurs more often in the
   fragments (duplicated or foreign).  When the input items are pairwise
   distinct (the usual case) plain sets decide it.                           *)
Cmp(rpc, frags, k) ==
    LET PI == Pos(<<rpc>>, k)      PO == Pos(frags, k)
        SI == {Val(<<rpc>>, k, p) : p \in PI}
        SO == {Val(frags, k, p) : p \in PO}
    IN IF Cardinality(SI) = Cardinality(PI)
         THEN [lost  |-> ~(SI \subseteq SO),
               extra |-> ~(SO \subseteq SI) \/ Cardinality(PO) > Cardinality(SO)]
         ELSE LET CI(x) == Cardinality({p \in PI : Val(<<rpc>>, k, p) = x})
                  CO(x) == Cardinality({p \in PO : Val(frags, k, p) = x})
              IN [lost  |-> \E x \in SI : CI(x) > CO(x),
                  extra |-> \E x \in SO : CO(x) > CI(x)]

(* the fragments' publish lists, concatenated, are the input's publish list *)
PubInOrder(rpc, frags) ==
    LET idx == SelectSeq([i \in DOMAIN frags |-> i], LAMBDA i : Len(frags[i].pub) > 0)   \* fragments that publish
        off[n \in 1..(Len(idx) + 1)] == IF n = 1 THEN 0 ELSE off[n - 1] + Len(frags[idx[n - 1]].pub)
    IN /\ off[Len(idx) + 1] = Len(rpc.pub)
       /\ \A n \in DOMAIN idx : \A j \in DOMAIN frags[idx[n]].pub : frags[idx[n]].pub[j] = rpc.pub[off[n] + j]

(* Everything the relation has to say about one split, as a record (so that a
   trace spec can report which clause failed).                               *)
Verdict(rpc, limit, frags, sizes) ==
    LET c == [k \in KindSet |-> Cmp(rpc, frags, k)]
        over == {i \in DOMAIN frags : sizes[i] > limit}
    IN [lost     |-> {k \in KindSet : c[k].lost},
        extra    |-> {k \in KindSet : c[k].extra},
        puborder |-> PubInOrder(rpc, frags),
        empty    |-> {i \in DOMAIN frags : IsEmpty(frags[i])},
        over     |-> over,
        badover  |-> {i \in over : ~Indivisible(frags[i])}]

Holds(v) == v.lost = {} /\ v.extra = {} /\ v.puborder /\ v.empty = {} /\ v.badover = {}

ValidSplitSz(rpc, limit, frags, sizes) ==
    /\ Len(sizes) = Len(frags)
    /\ Holds(Verdict(rpc, limit, frags, sizes))

-----------------------------------------------------------------------------
(* The same property one level up, at GossipSubRouter.sendRPC: what is QUEUED
   for the wire.  "alone" has the layout of an RPC and gives, for every element
   of the input, the size of an RPC carrying just that element.
     * gossipsub never queues an RPC larger than the limit, nor an empty one;
     * nothing is queued twice and nothing foreign is queued;
     * an element may be missing from the queue only if it cannot fit by itself
       (alone > limit), and then a drop has been reported (tracer DropRPC);
     * the queued publish lists, concatenated, are exactly the input's messages
       that fit by themselves, in order.                                     *)
AloneAt(alone, k, p) ==
    IF k = "ihave" THEN alone.ihave[p[2]].ids[p[3]] ELSE Val(<<alone>>, k, p)

SendVerdict(rpc, alone, limit, queued, qsizes, drops) ==
    LET c == [k \in KindSet |-> Cmp(rpc, queued, k)]
        \* positions of input items that are missing from the queue although they fit by themselves
        Wrong(k) ==
            LET PI == Pos(<<rpc>>, k)   PO == Pos(queued, k)
                SO == {Val(queued, k, p) : p \in PO}
            IN {p \in PI : /\ AloneAt(alone, k, p) <= limit
                           /\ LET x == Val(<<rpc>>, k, p) IN
                              \/ x \notin SO
                              \/ Cardinality({q \in PI : Val(<<rpc>>, k, q) = x /\ AloneAt(alone, k, q) <= limit})
                                   > Cardinality({q \in PO : Val(queued, k, q) = x})}
        wrong == [k \in KindSet |-> IF c[k].lost THEN Wrong(k) ELSE {}]
        idx  == SelectSeq([i \in DOMAIN rpc.pub |-> i], LAMBDA i : alone.pub[i] <= limit)
        fits == [rpc EXCEPT !.pub = [n \in DOMAIN idx |-> rpc.pub[idx[n]]]]
    IN [anylost    |-> {k \in KindSet : c[k].lost},           \* missing from the queue, rightly or wrongly
        lost       |-> {k \in KindSet : wrong[k] # {}},
        lostpub    |-> {Val(<<rpc>>, "pub", p) : p \in wrong["pub"]},
        extra      |-> {k \in KindSet : c[k].extra},
        puborder   |-> PubInOrder(fits, queued),
        empty      |-> {i \in DOMAIN queued : IsEmpty(queued[i])},
        over       |-> {i \in DOMAIN queued : qsizes[i] > limit},
        unreported |-> (\E k \in KindSet : c[k].lost) /\ drops = 0]

SendHolds(v) == v.lost = {} /\ v.extra = {} /\ v.puborder /\ v.empty = {} /\ v.over = {} /\ ~v.unreported
=============================================================================
