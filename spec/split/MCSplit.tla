------------------------------ MODULE MCSplit ------------------------------
(* Exhaustive check of ValidSplit(rpc, limit, SplitImpl(rpc, limit, Fixed)) over
   a bounded space of RPC shapes and ALL limits MinLimit .. Size(rpc)+1, and
   generator of the shapes for the replay on the real RPC.split.

   There is no behaviour, only an input space.  It is unfolded as a tree of
   depth 3 (messages/subscriptions/GRAFT/PRUNE, then the id-carrying kinds,
   then the singleton fields, then the limit) so that TLC's workers share it. *)
EXTENDS Split, TLC, Json

CONSTANTS Fixed,          \* repairs applied to the transcription (see Split.tla)
          Space,          \* record of option sets, see the MC_* operators below
          MinLimit

VARIABLES phase, shape, limit
vars == <<phase, shape, limit>>

----------------------------------------------------------------------------
(* option sets: sequences of element sizes / id lengths *)
A(ids) == [t |-> "A", tn |-> 4, ids |-> ids]
B(ids) == [t |-> "B", tn |-> 4, ids |-> ids]

MC_Quick ==
  [pub     |-> {<<>>, <<10, 30>>},
   subs    |-> {<<>>, <<8, 8>>},
   graft   |-> {<<>>, <<6, 6>>},
   prune   |-> {<<>>, <<6>>},
   iwant   |-> {<<>>, << <<6, 6>> >>, << <<6>>, <<6>> >>},
   ihave   |-> {<<>>, <<A(<<6, 6>>)>>, <<A(<<6>>), A(<<6>>)>>, <<A(<<6>>), B(<<6>>)>>},
   idw     |-> {<<>>, << <<6, 6>> >>, << <<6>>, <<6>> >>},
   ext     |-> {<<>>, <<2>>},
   partial |-> {<<>>, <<9>>},
   testext |-> {<<>>, <<0>>}]

\* publish packing on its own (no control): every sequence of up to 4 messages over three sizes, incl. the empty message
MC_Pub ==
  [pub     |-> UNION {[1..n -> {0, 10, 30}] : n \in 0..4},
   subs    |-> {<<>>, <<8>>},
   graft   |-> {<<>>}, prune |-> {<<>>}, iwant |-> {<<>>}, ihave |-> {<<>>}, idw |-> {<<>>},
   ext     |-> {<<>>}, partial |-> {<<>>, <<9>>}, testext |-> {<<>>}]

\* quick-tier model check: a sub-space of MC_Quick
MC_Smoke ==
  [pub     |-> {<<>>, <<10, 30>>},
   subs    |-> {<<>>, <<8, 8>>},
   graft   |-> {<<>>, <<6, 6>>},
   prune   |-> {<<>>, <<6>>},
   iwant   |-> {<<>>, << <<6, 6>> >>},
   ihave   |-> {<<>>, <<A(<<6, 6>>)>>, <<A(<<6>>), B(<<6>>)>>},
   idw     |-> {<<>>, << <<6>>, <<6>> >>},
   ext     |-> {<<>>, <<2>>},
   partial |-> {<<>>, <<9>>},
   testext |-> {<<>>}]

MC_Thorough ==
  [pub     |-> {<<>>, <<10, 30>>, <<30, 10, 10>>},
   subs    |-> {<<>>, <<8, 20>>},
   graft   |-> {<<>>, <<6>>},
   prune   |-> {<<>>, <<6, 12>>},
   iwant   |-> {<<>>, << <<6>>, <<20>> >>, << <<>> >>},
   ihave   |-> {<<>>, <<A(<<6>>), A(<<6>>)>>, <<A(<<6>>), B(<<6>>)>>, <<A(<<>>), B(<<20>>)>>},
   idw     |-> {<<>>, << <<6>> >>, << <<6>>, <<20>> >>},
   ext     |-> {<<>>, <<2>>},
   partial |-> {<<>>, <<9>>},
   testext |-> {<<>>, <<0>>}]

\* elements of 128 bytes and more: two-byte length prefixes at every level
MC_Long ==
  [pub     |-> {<<>>, <<131, 10>>},
   subs    |-> {<<>>, <<140>>},
   graft   |-> {<<>>, <<6>>},
   prune   |-> {<<>>, <<135, 6>>},
   iwant   |-> {<<>>, << <<60, 70>> >>},
   ihave   |-> {<<>>, <<A(<<64, 64>>)>>},
   idw     |-> {<<>>, << <<130>> >>},
   ext     |-> {<<>>, <<7>>},
   partial |-> {<<>>, <<150>>},
   testext |-> {<<>>, <<0>>}]

----------------------------------------------------------------------------
NoShape == [pub |-> <<>>, subs |-> <<>>, graft |-> <<>>, prune |-> <<>>, iwant |-> <<>>, ihave |-> <<>>,
            idw |-> <<>>, ext |-> <<>>, partial |-> <<>>, testext |-> <<>>]

Init == /\ phase = 0 /\ limit = 0
        /\ \E p \in Space.pub, s \in Space.subs, g \in Space.graft, r \in Space.prune :
              shape = [NoShape EXCEPT !.pub = p, !.subs = s, !.graft = g, !.prune = r]

Next == \/ /\ phase = 0 /\ phase' = 1 /\ limit' = 0
           /\ \E w \in Space.iwant, h \in Space.ihave, d \in Space.idw :
                 shape' = [shape EXCEPT !.iwant = w, !.ihave = h, !.idw = d]
        \/ /\ phase = 1 /\ phase' = 2 /\ limit' = 0
           /\ \E x \in Space.ext, p \in Space.partial, t \in Space.testext :
                 shape' = [shape EXCEPT !.ext = x, !.partial = p, !.testext = t]
        \/ /\ phase = 2 /\ phase' = 3 /\ shape' = shape
           /\ limit' \in MinLimit..(Size(Build(shape)) + 1)

Spec == Init /\ [][Next]_vars

----------------------------------------------------------------------------
Rpc == Build(shape)
V == SplitVerdict(Rpc, limit, SplitImpl(Rpc, limit, Fixed))

\* the theorem-as-invariant, and its clauses one by one (for the configurations that MUST fail)
Inv_Valid    == phase = 3 => Holds(V)
Inv_NoLoss   == phase = 3 => V.lost = {}
Inv_NoExtra  == phase = 3 => V.extra = {} /\ V.puborder
Inv_NonEmpty == phase = 3 => V.empty = {}
Inv_Fits     == phase = 3 => V.badover = {}
\* as found, everything except the known defects holds: losses only of the D1 kinds, no duplicates, order kept
Inv_AsFoundOtherwiseOK ==
    phase = 3 => /\ V.lost \subseteq {"idontwant", "ext", "partial", "testext"}
                 /\ V.extra = {} /\ V.puborder
Inv_WellFormed == WellFormed(Rpc)

\* generator: one line per complete shape, with its exact size and the limits to try
GenStop == phase <= 2
Emit == phase = 2 => PrintT(<<"SHAPE", ToJson([abs |-> shape, size |-> Size(Rpc),
                                               rest |-> Size([Rpc EXCEPT !.pub = <<>>]),
                                               lo |-> MinLimit, hi |-> Size(Rpc) + 1])>>)
=============================================================================
