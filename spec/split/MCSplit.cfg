SPECIFICATION Spec
CONSTANTS
  Fixed = {"D1", "empty", "sov0"}
  Space <- MC_Quick
  MinLimit = 2
INVARIANTS Inv_WellFormed Inv_Valid
CHECK_DEADLOCK FALSE
