SPECIFICATION Spec
CONSTANTS
  Fixed = {}
  Space <- MC_Quick
  MinLimit = 2
INVARIANTS Inv_NoLoss
CHECK_DEADLOCK FALSE
