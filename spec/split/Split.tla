------------------------------- MODULE Split -------------------------------
(* C11 - splitting an oversized RPC loses nothing and respects the limit.

   1. Abstract RPC shapes with the EXACT protobuf size function of
      pb/rpc.pb.go (tag + varint length + payload at every nesting level).
      Elements (all records; "k" is an identity, the rest is what the size
      function needs):
         message / subscription / GRAFT / PRUNE / extensions / partial /
         testExtension      [k, s]   s = encoded size of the element itself
         message id         [k, n]   n = length of the id string
         IHAVE entry        [t |-> [k, n], ids]   n = length of the topic string
         IWANT, IDONTWANT entry = sequence of message ids
      "ctl" says whether rpc.Control is non-nil.
   2. ValidSplit: the property (SplitRel) with the abstract sizes.
   3. SplitImpl(rpc, limit, fixed): a transcription of RPC.split
      (/repo/pubsub.go) - publish packing, fast path, per-kind loops.
      "fixed" is the set of repairs that are applied:
         "D1"     the slow path also carries IDONTWANT ids, Control.Extensions,
                  RPC.Partial and RPC.TestExtension (as found: silently dropped)
         "empty"  an RPC without any entry is never yielded (as found: when the
                  first element of a group does not fit by itself, the still
                  empty RPC under construction is yielded)
         "sov0"   sizeOfEmbeddedMsg counts one length byte for an empty message
                  (as found: pubsub.go's sovRpc(0) = 0 whereas the encoder and
                  pb.sovRpc use 1, so the publish packing under-estimates)
      fixed = {} is the algorithm as found at the pinned commit.             *)
EXTENDS Naturals, Sequences, FiniteSets, SplitRel, SequencesExt

Sov(l) == IF l < 128 THEN 1 ELSE IF l < 16384 THEN 2 ELSE IF l < 2097152 THEN 3 ELSE 4
Wrap(l) == 1 + l + Sov(l)                    \* field number <= 15, length-delimited

SumOver(s, F(_)) ==
    FoldLeft(LAMBDA a, x : a + F(x), 0, s)

IdsSize(ids) == SumOver(ids, LAMBDA i : Wrap(i.n))
ElemsSize(s) == SumOver(s, LAMBDA x : Wrap(x.s))

CtlInner(r) ==
      SumOver(r.ihave, LAMBDA e : Wrap(Wrap(e.t.n) + IdsSize(e.ids)))
    + SumOver(r.iwant, LAMBDA e : Wrap(IdsSize(e)))
    + ElemsSize(r.graft) + ElemsSize(r.prune)
    + SumOver(r.idw, LAMBDA e : Wrap(IdsSize(e)))
    + ElemsSize(r.ext)

Size(r) ==
      ElemsSize(r.subs) + ElemsSize(r.pub)
    + (IF r.ctl THEN Wrap(CtlInner(r)) ELSE 0)
    + ElemsSize(r.partial)
    + SumOver(r.testext, LAMBDA x : 3 + Wrap(x.s))      \* field 6492434: 4 tag bytes

Sizes(frags) == [i \in DOMAIN frags |-> Size(frags[i])]
ValidSplit(rpc, limit, frags) == ValidSplitSz(rpc, limit, frags, Sizes(frags))
SplitVerdict(rpc, limit, frags) == Verdict(rpc, limit, frags, Sizes(frags))

WellFormed(r) ==
    ~r.ctl => Len(r.ihave) + Len(r.iwant) + Len(r.graft) + Len(r.prune) + Len(r.idw) + Len(r.ext) = 0

-----------------------------------------------------------------------------
(* from a shape (sizes only) to an abstract RPC (elements with identities) *)
Elems(s)  == [i \in DOMAIN s |-> [k |-> i, s |-> s[i]]]
Ids(e, s) == [j \in DOMAIN s |-> [k |-> <<e, j>>, n |-> s[j]]]
Build(sh) ==
    [pub     |-> Elems(sh.pub),   subs |-> Elems(sh.subs),
     graft   |-> Elems(sh.graft), prune |-> Elems(sh.prune),
     iwant   |-> [e \in DOMAIN sh.iwant |-> Ids(e, sh.iwant[e])],
     idw     |-> [e \in DOMAIN sh.idw |-> Ids(e, sh.idw[e])],
     ihave   |-> [e \in DOMAIN sh.ihave |-> [t |-> [k |-> sh.ihave[e].t, n |-> sh.ihave[e].tn],
                                             ids |-> Ids(e, sh.ihave[e].ids)]],
     ext     |-> Elems(sh.ext), partial |-> Elems(sh.partial), testext |-> Elems(sh.testext),
     ctl     |-> Len(sh.graft) + Len(sh.prune) + Len(sh.iwant) + Len(sh.ihave) + Len(sh.idw) + Len(sh.ext) > 0]

-----------------------------------------------------------------------------
(* transcription of RPC.split *)

Blank == [pub |-> <<>>, subs |-> <<>>, ctl |-> FALSE, ihave |-> <<>>, iwant |-> <<>>, graft |-> <<>>,
          prune |-> <<>>, idw |-> <<>>, ext |-> <<>>, partial |-> <<>>, testext |-> <<>>]
BlankCtl == [Blank EXCEPT !.ctl = TRUE]

Fold(op(_, _), base, s) ==
    FoldLeft(op, base, s)

SplitImpl(rpc, limit, fixed) ==
    LET \* yield(nextRPC)
        Yield(out, r) == IF "empty" \in fixed /\ IsEmpty(r) THEN out ELSE Append(out, r)

        \* ---- publish packing (pubsub.go:343-382) ----
        Inc(m) == 1 + (IF m.s = 0 /\ "sov0" \notin fixed THEN 0 ELSE Sov(m.s)) + m.s
        Slice(st) == [Blank EXCEPT !.pub = SubSeq(rpc.pub, st.start, st.start + st.n - 1)]
        PubStep(st, m) ==
            IF st.sz + Inc(m) > limit
              THEN [out |-> Yield(st.out, Slice(st)), n |-> 1, sz |-> Inc(m), start |-> st.start + st.n]
              ELSE [st EXCEPT !.n = @ + 1, !.sz = @ + Inc(m)]
        pubFin == Fold(PubStep, [out |-> <<>>, n |-> 0, sz |-> 0, start |-> 1], rpc.pub)
        out0 == IF pubFin.sz > 0 THEN Yield(pubFin.out, Slice(pubFin)) ELSE pubFin.out

        \* ---- the pattern "append; if Size() > limit: undo, yield, start afresh with the element" ----
        Add(st, fld, e, fresh) ==
            LET c2 == [st.cur EXCEPT ![fld] = Append(@, e)] IN
            IF Size(c2) > limit
              THEN [out |-> Yield(st.out, st.cur), cur |-> [fresh EXCEPT ![fld] = <<e>>]]
              ELSE [st EXCEPT !.cur = c2]

        AddSub(st, x)   == Add(st, "subs", x, Blank)
        OpenCtl(st) ==                                   \* pubsub.go:412-421
            IF st.cur.ctl THEN st
            ELSE LET c2 == [st.cur EXCEPT !.ctl = TRUE] IN
                 IF Size(c2) > limit THEN [out |-> Yield(st.out, st.cur), cur |-> BlankCtl]
                                     ELSE [st EXCEPT !.cur = c2]
        AddGraft(st, x) == Add(st, "graft", x, BlankCtl)
        AddPrune(st, x) == Add(st, "prune", x, BlankCtl)

        \* IWANT / IDONTWANT: all ids go into the first entry of the RPC under construction
        AddIdEntry(fld, st, ids) ==
            LET st1 == IF Len(st.cur[fld]) = 0 THEN Add(st, fld, <<>>, BlankCtl) ELSE st
                AddId(s, id) ==
                    LET c2 == [s.cur EXCEPT ![fld][1] = Append(@, id)] IN
                    IF Size(c2) > limit
                      THEN [out |-> Yield(s.out, s.cur), cur |-> [BlankCtl EXCEPT ![fld] = << <<id>> >>]]
                      ELSE [s EXCEPT !.cur = c2]
            IN Fold(AddId, st1, ids)
        AddIWant(st, ids) == AddIdEntry("iwant", st, ids)
        AddIdw(st, ids)   == AddIdEntry("idw", st, ids)

        \* IHAVE: a new entry whenever the topic changes
        AddIHave(st, e) ==
            LET n0  == Len(st.cur.ihave)
                st1 == IF n0 = 0 \/ st.cur.ihave[n0].t # e.t
                         THEN Add(st, "ihave", [t |-> e.t, ids |-> <<>>], BlankCtl) ELSE st
                AddId(s, id) ==
                    LET m  == Len(s.cur.ihave)
                        c2 == [s.cur EXCEPT !.ihave[m].ids = Append(@, id)] IN
                    IF Size(c2) > limit
                      THEN [out |-> Yield(s.out, s.cur),
                            cur |-> [BlankCtl EXCEPT !.ihave = <<[t |-> e.t, ids |-> <<id>>]>>]]
                      ELSE [s EXCEPT !.cur = c2]
            IN Fold(AddId, st1, e.ids)

        AddExt(st, x)     == Add(st, "ext", x, BlankCtl)
        AddPartial(st, x) == Add(st, "partial", x, Blank)
        AddTestExt(st, x) == Add(st, "testext", x, Blank)

        \* ---- slow path (pubsub.go:394-508) ----
        s1 == Fold(AddSub, [out |-> out0, cur |-> Blank], rpc.subs)
        s2 == IF ~rpc.ctl THEN s1 ELSE
              LET a == OpenCtl(s1)
                  b == Fold(AddGraft, a, rpc.graft)
                  c == Fold(AddPrune, b, rpc.prune)
                  d == Fold(AddIWant, c, rpc.iwant)
                  e == Fold(AddIHave, d, rpc.ihave)
              IN IF "D1" \in fixed THEN Fold(AddExt, Fold(AddIdw, e, rpc.idw), rpc.ext) ELSE e
        s3 == IF "D1" \in fixed THEN Fold(AddTestExt, Fold(AddPartial, s2, rpc.partial), rpc.testext) ELSE s2
        slow == IF Size(s3.cur) > 0 THEN Yield(s3.out, s3.cur) ELSE s3.out

        \* ---- fast path (pubsub.go:384-393) ----
        rest == [rpc EXCEPT !.pub = <<>>]
    IN IF Size(rest) < limit
         THEN (IF Size(rest) # 0 THEN Yield(out0, rest) ELSE out0)
         ELSE slow
=============================================================================
