----------------------------- MODULE SplitTrace -----------------------------
(* Trace specification for C11.  Every line of trace.ndjson is one run of the
   REAL RPC.split recorded by harness/drivers/c11:
       [e |-> "case", id, limit, inp (shape of the input), insize,
        frags (shapes of the fragments, in the order yielded), sizes (their real
        Size()), ...]
   Each line is judged against the RELATION of SplitRel.tla only - with the
   sizes the real encoder reported - never against the transcription
   SplitImpl: a different but correct packing is accepted.  A line that fails
   is reported as <<"VIOL", json>> with the clauses that failed; the cursor
   always advances, so one run judges every line.

   Lines that carry the abstract shape ("abs", a seeded sample of the
   TLC-generated cases) are in addition compared with SplitImpl (repaired and
   as found) and reported as <<"IMPL", json>>: conformance information for the
   model, not a verdict.

   Lines with e = "send" were recorded one level up, at the real
   GossipSubRouter.sendRPC (what was queued for the wire, what was reported as
   dropped to the raw tracer and in the DROP_RPC trace event, what was kept for
   a retry); they are judged against SendVerdict of SplitRel.tla.

   Shapes omit empty fields; Norm restores them.                           *)
EXTENDS Naturals, Sequences, FiniteSets, TLC, Json, Split

Trace == ndJsonDeserialize("trace.ndjson")

VARIABLE l
E == Trace[l]

Get(r, f) == IF f \in DOMAIN r THEN r[f] ELSE <<>>
Norm(r) == [pub |-> Get(r, "pub"), subs |-> Get(r, "subs"), graft |-> Get(r, "graft"), prune |-> Get(r, "prune"),
            ihave |-> Get(r, "ihave"), iwant |-> Get(r, "iwant"), idw |-> Get(r, "idw"),
            ext |-> Get(r, "ext"), partial |-> Get(r, "partial"), testext |-> Get(r, "testext")]
Unk(r) == IF "unk" \in DOMAIN r THEN r.unk ELSE 0

Judge(e) ==
    LET rpc   == Norm(e.inp)
        frags == [i \in DOMAIN e.frags |-> Norm(e.frags[i])]
        shapeOK == Len(e.sizes) = Len(e.frags)
        v     == Verdict(rpc, e.limit, frags, e.sizes)
        \* "nothing else appears": no unknown fields in a fragment unless the input had them
        alien == {i \in DOMAIN e.frags : Unk(e.frags[i]) > 0 /\ Unk(e.inp) = 0}
    IN IF shapeOK /\ Holds(v) /\ alien = {} THEN TRUE
       ELSE PrintT(<<"VIOL", ToJson([id |-> e.id, lost |-> v.lost, extra |-> v.extra, puborder |-> v.puborder,
                                     empty |-> v.empty, over |-> v.over, badover |-> v.badover,
                                     alien |-> alien, shapeok |-> shapeOK])>>)

\* a line recorded at GossipSubRouter.sendRPC: what was queued for the wire, what was reported dropped
NormEvt(r) == [Norm(r) EXCEPT !.pub = <<>>] @@ [n |-> r.n]
JudgeSend(e) ==
    LET rpc    == Norm(e.inp)
        queued == [i \in DOMAIN e.queued |-> Norm(e.queued[i])]
        rep    == [i \in DOMAIN e.rep |-> Norm(e.rep[i])]
        evt    == [i \in DOMAIN e.evt |-> NormEvt(e.evt[i])]
        shapeOK == Len(e.qsizes) = Len(e.queued) /\ Len(e.dsizes) = Len(e.rep)
        v      == SendVerdict(rpc, e.limit, queued, e.qsizes, rep, e.dsizes, evt, Norm(e.retry), e.cap)
    IN IF shapeOK /\ SendHolds(v) THEN TRUE
       ELSE PrintT(<<"VIOL", ToJson([id |-> e.id, lost |-> v.lost, extra |-> v.extra, puborder |-> v.puborder,
                                     empty |-> v.empty, over |-> v.over, baddrop |-> v.baddrop,
                                     evtbad |-> v.evtbad, retrybad |-> v.retrybad, shapeok |-> shapeOK])>>)

FixedAll == {"D1", "empty", "sov0"}
Conformance(e) ==
    IF "abs" \notin DOMAIN e THEN TRUE
    ELSE LET a == Build(e.abs)
             r == Sizes(SplitImpl(a, e.limit, FixedAll))
             f == Sizes(SplitImpl(a, e.limit, {}))
         IN PrintT(<<"IMPL", ToJson([id |-> e.id, size |-> Size(a) = e.insize, repaired |-> r = e.sizes, asfound |-> f = e.sizes])>>)

TInit == TLCSet(1, 0) /\ l = 1
TNext == /\ l <= Len(Trace)
         /\ \/ E.e = "case" /\ Judge(E) /\ Conformance(E)
            \/ E.e = "send" /\ JudgeSend(E)
         /\ l' = l + 1
TraceSpec == TInit /\ [][TNext]_l

HW == IF TLCGet(1) < l THEN TLCSet(1, l) ELSE TRUE
Accepted == PrintT(<<"HW", TLCGet(1), Len(Trace) + 1>>)
=============================================================================
