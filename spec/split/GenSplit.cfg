SPECIFICATION Spec
CONSTANTS
  Fixed = {"D1", "empty", "sov0"}
  Space <- MC_Quick
  MinLimit = 2
CONSTRAINT GenStop
INVARIANT Emit
CHECK_DEADLOCK FALSE
