---------------------------- MODULE MCAutoTrace ----------------------------
(* Model-level half of X00: the monitor of AutoTrace.tla composed with a small
   abstract network of gossipsub nodes that emit trace events the way the
   library's call sites do (one action = one turn of a node's event loop, or a
   publication). TLC checks that no predicate of the monitor ever fires on the
   behaviours of the model (the predicates do not over-demand for any
   interleaving of the turns of different nodes), and that each seeded model
   defect (constant Defect) makes the predicate that is about it fire
   (non-vacuity; these configurations MUST fail).

   Grain, following the code:
     StreamUp / StreamDown   newPeerStream / handleDeadPeers: ON_NEW / ON_CLOSED_OUTBOUND_STREAM; the dead peer leaves
                             the mesh WITHOUT a PRUNE event, its queue is dropped
     Join / Leave            gossipsub Join: JOIN, then GRAFT(p) + sendGraft per selected peer (not in backoff);
                             Leave: LEAVE, then PRUNE(p) + sendPrune + unsubscribe backoff per member
     Heartbeat               graftPeer (candidate filter: has a stream, not a member, no backoff entry) or prunePeer
                             (PRUNE, backoff) then sendGraftPrune; emitGossip (IHAVE of delivered ids to a non-member)
     Publish                 PUBLISH_MESSAGE, markSeen, DELIVER(self), one SEND per mesh member
     Receive                 one RPC leaves the sender's queue (urgent lane first) and is handled by the receiver:
                             RECV_RPC; message: DUPLICATE if seen, else markSeen and DELIVER + forward to the mesh except
                             the sender (or REJECT(validation failed) after markSeen); GRAFT: accepted (GRAFT event) or
                             answered with PRUNE when backing off; PRUNE: PRUNE event whether or not a member, backoff;
                             IHAVE: IWANT for unseen ids; IWANT: the message from the cache, whoever asks
     Inject                  a peer that is not an instance ("fx") sends a message (tests with raw streams)
     Tick                    time; backoff entries are kept for their duration (presence is what the filters test)
   A send goes to the queue of the peer if it has room (SEND_RPC, ordered at the push) else it is refused (DROP_RPC). *)
EXTENDS AutoTrace

CONSTANTS NN,          \* nodes 1..NN
          Msgs,        \* message ids 1..Msgs
          Cap,         \* queue capacity per ordered pair
          MaxG,        \* bound on the number of events
          MaxTime,     \* bound on the clock (ticks of 1000 ms)
          Defect       \* "" or the name of a seeded defect

Nodes == 1..NN
T     == "t"
Ids   == <<"p1", "p2", "p3">>
Id(n) == Ids[n]
PruneBO == 2000
UnsubBO == 1000
TTL     == 3000

VARIABLES joined,   \* joined[n]: BOOLEAN (one topic)
          mesh,     \* mesh[n]: set of nodes
          up,       \* up[n]: nodes n has an outbound stream to
          seen,     \* seen[n][m]: end of the seen-cache entry of m (0 = not seen)
          cache,    \* cache[n]: delivered message ids (mcache)
          bo,       \* bo[n][p]: end of the backoff entry (0 = no entry)
          q,        \* q[a][b]: [n |-> normal lane, u |-> urgent lane] of RPC records
          pubd,     \* messages published or injected so far
          now,      \* clock (ticks)
          g,        \* events emitted so far
          Mon,      \* monitor state (AutoTrace!Init0)
          viol      \* names of the predicates that fired

mvars == <<joined, mesh, up, seen, cache, bo, q, pubd, now>>
vars  == <<mvars, g, Mon, viol>>

Cfg == [n \in Nodes |-> [id |-> Id(n), router |-> "gossipsub", ttl |-> TTL, pruneBackoff |-> PruneBO,
                         unsubBackoff |-> UnsubBO, elmax |-> MaxG + 100]]

Init == /\ joined = [n \in Nodes |-> FALSE] /\ mesh = [n \in Nodes |-> {}] /\ up = [n \in Nodes |-> {}]
        /\ seen = [n \in Nodes |-> [m \in 1..Msgs |-> 0]] /\ cache = [n \in Nodes |-> {}]
        /\ bo = [n \in Nodes |-> [p \in Nodes |-> 0]]
        /\ q = [a \in Nodes |-> [b \in Nodes |-> [n |-> <<>>, u |-> <<>>]]]
        /\ pubd = {} /\ now = 0 /\ g = 0
        /\ Mon = Init0(NN, Msgs, Cfg, {}) /\ viol = {}

-----------------------------------------------------------------------------
\* RPC contents (single purpose) and their content keys
RMsg(m)    == [kind |-> "msg", m |-> m, bo |-> 0]
RGraft     == [kind |-> "graft", m |-> 0, bo |-> 0]
RPrune(b)  == [kind |-> "prune", m |-> 0, bo |-> b]
RIHave(m)  == [kind |-> "ihave", m |-> m, bo |-> 0]
RIWant(m)  == [kind |-> "iwant", m |-> m, bo |-> 0]
RIdw(m)    == [kind |-> "idw", m |-> m, bo |-> 0]
Key(r) == CASE r.kind = "msg" -> r.m [] r.kind = "graft" -> 10 [] r.kind = "prune" -> 11 + r.bo
            [] r.kind = "ihave" -> 20 + r.m [] r.kind = "iwant" -> 30 + r.m [] r.kind = "idw" -> 40 + r.m

\* event records in the shape of the normalised trace lines (g, ln are stamped when applied)
Base(n, ty) == [k |-> "ev", g |-> 0, ln |-> 0, n |-> n, ts |-> now * 1000, ty |-> ty, p |-> "", pi |-> 0, t |-> T, m |-> 0, r |-> "",
                msgs |-> <<>>, graft |-> <<>>, prune |-> <<>>, ihave |-> <<>>, iwant |-> <<>>, c |-> 0, x |-> FALSE,
                hasgp |-> TRUE, u |-> FALSE]
EvP(n, ty, p)     == [Base(n, ty) EXCEPT !.p = IF p = 0 THEN "fx" ELSE Id(p), !.pi = p]
EvM(n, ty, p, m)  == [EvP(n, ty, p) EXCEPT !.m = m]
EvRej(n, p, m)    == [EvM(n, "REJECT_MESSAGE", p, m) EXCEPT !.r = "validation failed"]
EvRpc(n, ty, p, r, urgent) ==
    [EvP(n, ty, p) EXCEPT !.c = Key(r), !.u = urgent,
        !.msgs  = IF r.kind = "msg" THEN <<<<r.m, T>>>> ELSE <<>>,
        !.graft = IF r.kind = "graft" THEN <<T>> ELSE <<>>,
        !.prune = IF r.kind = "prune" THEN <<<<T, r.bo>>>> ELSE <<>>,
        !.ihave = IF r.kind = "ihave" THEN <<<<T, <<r.m>>>>>> ELSE <<>>,
        !.iwant = IF r.kind = "iwant" THEN <<r.m>> ELSE <<>>]

\* a send of r by a to b on lane urgent: st = [evs, q]
Send(st, a, b, r, urgent) ==
    LET lane == st.q[a][b] IN
    IF b \notin up[a] THEN st                                     \* no queue: sendRPC returns silently
    ELSE IF Len(lane.n) + Len(lane.u) < Cap
    THEN [evs |-> Append(st.evs, EvRpc(a, "SEND_RPC", b, r, urgent)),
          q   |-> IF urgent THEN [st.q EXCEPT ![a][b].u = Append(@, r)] ELSE [st.q EXCEPT ![a][b].n = Append(@, r)]]
    ELSE [evs |-> Append(st.evs, EvRpc(a, "DROP_RPC", b, r, urgent)), q |-> st.q]

RECURSIVE SendAll(_, _, _, _)
SendAll(st, a, bs, r) ==       \* bs: set of peers, served in a fixed order
    IF bs = {} THEN st
    ELSE LET b == CHOOSE x \in bs : \A y \in bs : x <= y IN SendAll(Send(st, a, b, r, FALSE), a, bs \ {b}, r)

Emit(st, e) == [st EXCEPT !.evs = Append(@, e)]
St0 == [evs |-> <<>>, q |-> q]

\* feed the events of the turn to the monitor
RECURSIVE Feed(_, _, _, _)
Feed(S, vs, evs, k) ==
    IF evs = <<>> THEN <<S, vs>>
    ELSE LET e   == [Head(evs) EXCEPT !.g = k, !.ln = k]
             res == Handle(S, e)
         IN Feed(res[1], vs \cup {v.pred : v \in res[2]}, Tail(evs), k + 1)

Commit(st) ==
    LET res == Feed(Mon, viol, st.evs, g + 1) IN
    /\ q' = st.q /\ Mon' = res[1] /\ viol' = res[2] /\ g' = g + Len(st.evs)

-----------------------------------------------------------------------------
StreamUp(a, b) ==
    /\ a # b /\ b \notin up[a]
    /\ up' = [up EXCEPT ![a] = @ \cup {b}]
    /\ Commit(Emit(St0, EvP(a, "ON_NEW_OUTBOUND_STREAM", b)))
    /\ UNCHANGED <<joined, mesh, seen, cache, bo, pubd, now>>

StreamDown(a, b) ==
    /\ b \in up[a]
    /\ up' = [up EXCEPT ![a] = @ \ {b}]
    /\ mesh' = [mesh EXCEPT ![a] = @ \ {b}]
    /\ Commit([evs |-> <<EvP(a, "ON_CLOSED_OUTBOUND_STREAM", b)>>, q |-> [q EXCEPT ![a][b] = [n |-> <<>>, u |-> <<>>]]])
    /\ UNCHANGED <<joined, seen, cache, bo, pubd, now>>

NoBackoff(a, p) == bo[a][p] = 0 \/ (Defect = "GraftIgnoresBackoff")

RECURSIVE GraftAll(_, _, _)
GraftAll(st, a, ps) ==
    IF ps = {} THEN st
    ELSE LET p == CHOOSE x \in ps : \A y \in ps : x <= y
             s1 == IF Defect = "GraftNoEvent" THEN st ELSE Emit(st, [EvP(a, "GRAFT", p) EXCEPT !.t = T])
         IN GraftAll(Send(s1, a, p, RGraft, FALSE), a, ps \ {p})

Join(a) ==
    /\ (~joined[a] \/ Defect = "JoinTwice")
    /\ \E ps \in SUBSET {p \in up[a] : NoBackoff(a, p) /\ p \notin mesh[a]} :
         /\ mesh' = [mesh EXCEPT ![a] = @ \cup ps]
         /\ Commit(GraftAll(Emit(St0, Base(a, "JOIN")), a, ps))
    /\ joined' = [joined EXCEPT ![a] = TRUE]
    /\ UNCHANGED <<up, seen, cache, bo, pubd, now>>

RECURSIVE PruneAll(_, _, _, _)
PruneAll(st, a, ps, skipOne) ==
    IF ps = {} THEN st
    ELSE LET p == CHOOSE x \in ps : \A y \in ps : x <= y
             s1 == IF skipOne THEN st ELSE Emit(st, EvP(a, "PRUNE", p))
         IN PruneAll(Send(s1, a, p, RPrune(UnsubBO \div 1000), FALSE), a, ps \ {p}, FALSE)

Leave(a) ==
    /\ joined[a]
    /\ joined' = [joined EXCEPT ![a] = FALSE]
    /\ mesh' = [mesh EXCEPT ![a] = {}]
    /\ bo' = [bo EXCEPT ![a] = [p \in Nodes |-> IF p \in mesh[a] THEN Max(@[p], now * 1000 + UnsubBO) ELSE @[p]]]
    /\ Commit(PruneAll(Emit(St0, Base(a, "LEAVE")), a, mesh[a], Defect = "LeaveOmitsPrune"))
    /\ UNCHANGED <<up, seen, cache, pubd, now>>

HbGraft(a, p) ==
    /\ joined[a] /\ p \in up[a] /\ p \notin mesh[a] /\ NoBackoff(a, p)
    /\ mesh' = [mesh EXCEPT ![a] = IF Defect = "WireGraftNoMesh" THEN @ ELSE @ \cup {p}]
    /\ Commit(Send(IF Defect = "WireGraftNoMesh" THEN St0 ELSE Emit(St0, EvP(a, "GRAFT", p)), a, p, RGraft, FALSE))
    /\ UNCHANGED <<joined, up, seen, cache, bo, pubd, now>>

HbPrune(a, p) ==
    /\ joined[a] /\ p \in mesh[a]
    /\ mesh' = [mesh EXCEPT ![a] = @ \ {p}]
    /\ bo' = [bo EXCEPT ![a][p] = Max(@, now * 1000 + PruneBO)]
    /\ Commit(Send(Emit(St0, EvP(a, "PRUNE", p)), a, p, RPrune(PruneBO \div 1000), FALSE))
    /\ UNCHANGED <<joined, up, seen, cache, pubd, now>>

HbGossip(a, p, m) ==
    /\ joined[a] /\ p \in up[a] /\ (p \notin mesh[a] \/ Defect = "IHaveToMesh") /\ (m \in cache[a] \/ Defect = "IHaveUnknown")
    /\ Commit(Send(St0, a, p, RIHave(m), FALSE))
    /\ UNCHANGED <<joined, mesh, up, seen, cache, bo, pubd, now>>

\* accept message m at node b from `from` (0 = local or fx) with the events evs0 before it
Accept(st, b, from, m, via) ==
    LET tgt == IF Defect = "ForwardToSender" THEN mesh[b] ELSE mesh[b] \ {from}
        dl  == EvM(b, "DELIVER_MESSAGE", via, m)
    IN IF Defect = "SendBeforeDeliver"
       THEN Emit(SendAll(st, b, tgt, RMsg(m)), dl)
       ELSE SendAll(Emit(st, dl), b, tgt, RMsg(m))

Publish(a, m) ==
    /\ m \notin pubd
    /\ pubd' = pubd \cup {m}
    /\ seen' = [seen EXCEPT ![a][m] = now * 1000 + TTL] /\ cache' = [cache EXCEPT ![a] = @ \cup {m}]
    /\ Commit(Accept(IF Defect = "NoPublishEvent" THEN St0 ELSE Emit(St0, EvM(a, "PUBLISH_MESSAGE", 0, m)), a, 0, m, a))
    /\ UNCHANGED <<joined, mesh, up, bo, now>>

\* a message m arrives at b in the RPC whose RECV_RPC is already in rcv; a = sender (0 = the raw peer fx)
OnMsg(rcv, b, a, m) ==
    IF seen[b][m] # 0 /\ Defect # "DeliverDuplicate"
    THEN /\ Commit(Emit(rcv, EvM(b, "DUPLICATE_MESSAGE", a, m)))
         /\ UNCHANGED <<joined, mesh, up, seen, cache, bo, now>>
    ELSE \/ /\ joined[b]                                  \* accepted
            /\ seen' = [seen EXCEPT ![b][m] = now * 1000 + TTL] /\ cache' = [cache EXCEPT ![b] = @ \cup {m}]
            \* Preprocess: IDONTWANT to another mesh member on the urgent lane, before the delivery
            /\ LET others == mesh[b] \ {a}
                   pre    == IF others = {} THEN rcv
                             ELSE Send(rcv, b, CHOOSE x \in others : TRUE, RIdw(m), TRUE)
               IN Commit(Accept(pre, b, a, m, a))
            /\ UNCHANGED <<joined, mesh, up, bo, now>>
         \/ /\ joined[b]                                  \* a validator rejects after markSeen
            /\ seen' = [seen EXCEPT ![b][m] = IF Defect = "RejectNotSeen" THEN @ ELSE now * 1000 + TTL]
            /\ Commit(Emit(rcv, EvRej(b, a, m)))
            /\ UNCHANGED <<joined, mesh, up, cache, bo, now>>
         \/ /\ ~joined[b]                                 \* not subscribed: ignored
            /\ Commit(rcv)
            /\ UNCHANGED <<joined, mesh, up, seen, cache, bo, now>>

Inject(b, m) ==          \* a raw peer (not an instance) sends m, new or a copy of a published one
    /\ joined[b]
    /\ pubd' = pubd \cup {m}
    /\ OnMsg(Emit(St0, EvRpc(b, "RECV_RPC", 0, RMsg(m), FALSE)), b, 0, m)

Spontaneous(b, m) ==     \* defect: a delivery out of nothing
    /\ Defect = "SpontaneousDeliver" /\ m \notin pubd /\ seen[b][m] = 0
    /\ seen' = [seen EXCEPT ![b][m] = now * 1000 + TTL] /\ cache' = [cache EXCEPT ![b] = @ \cup {m}]
    /\ Commit(Emit(St0, EvM(b, "DELIVER_MESSAGE", 1 + (b % NN), m)))
    /\ UNCHANGED <<joined, mesh, up, bo, pubd, now>>

\* which RPC leaves the queue a -> b: the urgent lane first
Lane(a, b) == IF q[a][b].u # <<>> THEN "u" ELSE "n"
Pos(a, b)  == IF Defect = "WireReorder" /\ Len(q[a][b].n) >= 2 /\ q[a][b].u = <<>> THEN 2 ELSE 1

Receive(a, b) ==
    /\ a # b /\ (q[a][b].n # <<>> \/ q[a][b].u # <<>>)
    /\ LET lane == Lane(a, b)
           pos  == Pos(a, b)
           sq   == IF lane = "u" THEN q[a][b].u ELSE q[a][b].n
           r    == sq[pos]
           rest == [i \in 1..(Len(sq) - 1) |-> IF i < pos THEN sq[i] ELSE sq[i + 1]]
           q1   == IF lane = "u" THEN [q EXCEPT ![a][b].u = rest] ELSE [q EXCEPT ![a][b].n = rest]
           rcv  == [evs |-> <<EvRpc(b, "RECV_RPC", a, r, lane = "u")>>, q |-> q1]
       IN CASE r.kind = "msg" -> OnMsg(rcv, b, a, r.m) /\ UNCHANGED pubd
            [] r.kind = "graft" ->
                 IF ~joined[b] \/ a \in mesh[b]
                 THEN Commit(rcv) /\ UNCHANGED <<joined, mesh, up, seen, cache, bo, pubd, now>>
                 ELSE IF bo[b][a] > now * 1000                          \* backing off: PRUNE reply, refresh
                 THEN /\ bo' = [bo EXCEPT ![b][a] = Max(@, now * 1000 + PruneBO)]
                      /\ Commit(Send(rcv, b, a, RPrune(PruneBO \div 1000), FALSE))
                      /\ UNCHANGED <<joined, mesh, up, seen, cache, pubd, now>>
                 ELSE /\ mesh' = [mesh EXCEPT ![b] = @ \cup {a}]        \* accepted (a need not have a stream from b: D6)
                      /\ Commit(Emit(rcv, EvP(b, "GRAFT", a)))
                      /\ UNCHANGED <<joined, up, seen, cache, bo, pubd, now>>
            [] r.kind = "prune" ->
                 IF ~joined[b]
                 THEN Commit(rcv) /\ UNCHANGED <<joined, mesh, up, seen, cache, bo, pubd, now>>
                 ELSE /\ mesh' = [mesh EXCEPT ![b] = @ \ {a}]
                      /\ bo' = [bo EXCEPT ![b][a] = Max(@, now * 1000 + (IF r.bo > 0 THEN r.bo * 1000 ELSE PruneBO))]
                      /\ Commit(Emit(rcv, EvP(b, "PRUNE", a)))
                      /\ UNCHANGED <<joined, up, seen, cache, pubd, now>>
            [] r.kind = "ihave" ->
                 /\ Commit(IF joined[b] /\ seen[b][r.m] = 0 THEN Send(rcv, b, a, RIWant(r.m), FALSE) ELSE rcv)
                 /\ UNCHANGED <<joined, mesh, up, seen, cache, bo, pubd, now>>
            [] r.kind = "iwant" ->
                 /\ Commit(IF r.m \in cache[b] THEN Send(rcv, b, a, RMsg(r.m), FALSE) ELSE rcv)
                 /\ UNCHANGED <<joined, mesh, up, seen, cache, bo, pubd, now>>
            [] OTHER -> Commit(rcv) /\ UNCHANGED <<joined, mesh, up, seen, cache, bo, pubd, now>>

GhostRecv(a, b) ==       \* defect: an RPC arrives that was never pushed
    /\ Defect = "WireSpontaneous" /\ a # b /\ joined[b] /\ a \notin mesh[b]
    /\ Commit(Emit(St0, EvRpc(b, "RECV_RPC", a, RIHave(1), FALSE)))
    /\ UNCHANGED mvars

Tick ==
    /\ now < MaxTime
    /\ now' = now + 1
    \* clearBackoff: entries whose time has passed may go (the code keeps them a little longer)
    /\ bo' = [n \in Nodes |-> [p \in Nodes |-> IF bo[n][p] <= (now + 1) * 1000 THEN 0 ELSE bo[n][p]]]
    \* the seen cache forgets an id TTL after it was marked
    /\ seen' = [n \in Nodes |-> [m \in 1..Msgs |-> IF seen[n][m] <= (now + 1) * 1000 THEN 0 ELSE seen[n][m]]]
    /\ UNCHANGED <<joined, mesh, up, cache, q, pubd, g, Mon, viol>>

Next == \/ \E a, b \in Nodes : StreamUp(a, b) \/ StreamDown(a, b) \/ Receive(a, b) \/ GhostRecv(a, b)
                               \/ HbGraft(a, b) \/ HbPrune(a, b) \/ \E m \in 1..Msgs : HbGossip(a, b, m)
        \/ \E a \in Nodes : Join(a) \/ Leave(a) \/ \E m \in 1..Msgs : Publish(a, m) \/ Inject(a, m) \/ Spontaneous(a, m)
        \/ Tick

Spec == Init /\ [][Next]_vars

Bound == g <= MaxG

\* the predicates of the monitor never fire on the model of the code
NoViolation == viol = {}
\* one invariant per predicate, for the configurations that must fail
Inv_Alternate     == "X00_Alternate" \notin viol
Inv_MeshEvents    == "X00_MeshEvents" \notin viol
Inv_LeavePrunes   == "X00_LeavePrunes" \notin viol
Inv_WireControl   == "X00_WireControl" \notin viol
Inv_Backoff     == "X00_Backoff" \notin viol
Inv_AtMostOnce    == "X00_AtMostOnce" \notin viol
Inv_Accounting    == "X00_Accounting" \notin viol
Inv_SendAccepted  == "X00_SendAccepted" \notin viol
Inv_Wire          == "X00_Wire" \notin viol
Inv_Origin        == "X00_Origin" \notin viol

\* the monitor's view of the mesh and of joined equals the model's whenever no Leave is in progress (C19 at this grain)
Rebuilt == \A n \in Nodes : /\ (T \in Mon.r[n].joined) = joined[n]
                            /\ {Id(p) : p \in mesh[n]} = Mesh(Mon, n, T)
                            /\ {Id(p) : p \in up[n]} = Mon.r[n].peers
=============================================================================
