--------------------------- MODULE AutoTraceTrace ---------------------------
(* Trace specification of X00: folds AutoTrace!Handle over the lines of trace.ndjson.

   The file holds the traces of several tests of the repository, each introduced by a
   reset line (k = "reset": test name, number of instances ni and message ids nm, the
   per-instance configuration recorded when NewPubSub ran, the predicates not checked
   for this test - spec/autotrace/EXCLUDED_TESTS.md). The other lines (k = "ev") are
   the tracer events of all instances of that test in g order, normalised by
   bin/lib/props/x00.py (names made small; nothing is judged there).

   The replay is deterministic: a violated predicate does not stop it, it is printed
   as <<"VIOL", json>>; the antecedent counters of a test are printed when the test
   ends (<<"COV", json>>). To keep TLC's per-state overhead (fingerprinting the whole
   monitor state) away from the per-line cost, one TLC step folds Batch lines. *)
EXTENDS AutoTrace, Json

Trace == ndJsonDeserialize("trace.ndjson")
Batch == 2000

VARIABLES l,      \* next line
          st      \* <<monitor state of the test being replayed (AutoTrace!Init0), its name, violations printed so far>>

tvars == <<l, st>>

Empty0 == Init0(0, 0, <<>>, {})

Report(t, s) == IF t = "" THEN TRUE ELSE PrintT(<<"COV", ToJson([test |-> t, cov |-> s.cov])>>)

\* line i: <<state, test, number of violations>>
One(x, i) ==
    LET E == Trace[i] IN
    IF E.k = "reset"
    THEN IF Report(x[2], x[1])
         THEN <<Init0(E.ni, E.nm, E.inst, ToSet(E.skip)), E.test, x[3]>>
         ELSE x
    ELSE LET res == Handle(x[1], E)
             vs  == res[2]
         IN IF /\ \A v \in vs : PrintT(<<"VIOL", ToJson([test |-> x[2]] @@ v)>>)
               /\ (i = Len(Trace) => Report(x[2], res[1]))
            THEN <<res[1], x[2], x[3] + Cardinality(vs)>>
            ELSE x

\* Divide and conquer: TLC conses operator arguments onto the caller's context and looks names up linearly,
\* so a linear recursion of depth Batch makes every lookup cost O(Batch).
RECURSIVE Fold(_, _, _)
Fold(x, lo, hi) ==
    IF lo > hi THEN x
    ELSE IF lo = hi THEN One(x, lo)
    ELSE LET mid  == (lo + hi) \div 2
             left == Fold(x, lo, mid)
         IN \* operator arguments are lazy: force the left half first, or line k is evaluated inside line k+1
            IF left[3] >= 0 THEN Fold(left, mid + 1, hi) ELSE left

TInit == /\ TLCSet(1, 0) /\ l = 1 /\ st = <<Empty0, "", 0>>

\* (one primed assignment of the folded value: TLC does not cache a LET at action level, it would fold once per use)
TStep ==
    /\ l <= Len(Trace)
    /\ st' = Fold(st, l, Min(l + Batch - 1, Len(Trace)))
    /\ l' = Min(l + Batch, Len(Trace) + 1)

TraceSpec == TInit /\ [][TStep]_tvars

\* high-water mark of the cursor (-workers 1); the run is complete iff it reaches Len(Trace) + 1
HW == IF TLCGet(1) < l THEN TLCSet(1, l) ELSE TRUE
Accepted == PrintT(<<"HW", TLCGet(1), Len(Trace) + 1>>)
=============================================================================
