SPECIFICATION Spec
CONSTANTS
  NN = 2
  Msgs = 1
  Cap = 2
  MaxG = 8
  MaxTime = 3
  Defect = ""
CONSTRAINT Bound
INVARIANT NoViolation
INVARIANT Rebuilt
CHECK_DEADLOCK FALSE
