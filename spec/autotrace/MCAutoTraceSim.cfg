SPECIFICATION Spec
CONSTANTS
  NN = 3
  Msgs = 2
  Cap = 2
  MaxG = 60
  MaxTime = 7
  Defect = ""
CONSTRAINT Bound
INVARIANT NoViolation
INVARIANT Rebuilt
CHECK_DEADLOCK FALSE
