------------------------------ MODULE AutoTrace ------------------------------
(* X00 - trace validation of the repository's own test suite.

   Every PubSub instance a test of the repository creates is given one more
   EventTracer (/repo/verif_autotrace.go, build tag verif). The events of all
   instances of one test, ordered by a process-wide sequence number g taken inside
   the tracer callback, are replayed through this machine. Per instance it is the
   C19 replay machine (spec/tracereplay/TraceReplay: outbound streams, joined
   topics, mesh) extended with what the predicates below need; across the
   instances of a test it keeps the RPCs in flight between each ordered pair.

   Which goroutine emits which event decides which order claims are sound
   (read off the call sites of pubsubTracer's methods):
     event loop (processLoop)    ON_NEW/ON_CLOSED_OUTBOUND_STREAM, JOIN, LEAVE, GRAFT, PRUNE, RECV_RPC,
                                 SEND_RPC, DROP_RPC, DELIVER_MESSAGE (and REJECT/DUPLICATE from shouldPush)
     validation workers / async  REJECT_MESSAGE, DUPLICATE_MESSAGE (validation.validate, doValidateTopic)
     validators / publisher      PUBLISH_MESSAGE, REJECT_MESSAGE, DUPLICATE_MESSAGE (validation.ValidateLocal)
   g is an atomic counter, so a callback that happens-before another has the smaller g: the event-loop
   events of one instance are in program order; an event of another goroutine is only ordered against
   events it is causally tied to (channel send/receive, the seen-cache lock, the network).
   tracer.SendRPC is called AFTER the push onto the peer's queue, so the receiver can trace RECV_RPC
   first: the hook also takes a g under the queue lock inside the push (gp) and SEND_RPC lines are
   ordered by gp.

   (* PROPERTIES
   X00.a Alternate      JOIN(t) and LEAVE(t) strictly alternate per instance and topic, starting with JOIN.
                        [pubsub.go handleAddSubscription/handleRemoveSubscription/handleAddRelay/handleRemoveRelay,
                         gossipsub.go Join/Leave guard on gs.mesh[topic]]
   X00.b MeshEvents     GRAFT(p,t) only while t is joined and p is not in the mesh of t; PRUNE(p,t) while t is joined
                        only for a mesh member, or in the turn of a RECV_RPC from p that carries PRUNE(t) (handlePrune
                        traces before it looks); a disconnect removes p from every mesh WITHOUT a PRUNE event
                        (OnClosedOutboundStream), and the machine does the same.
                        [gossipsub.go handleGraft, handlePrune, Join, heartbeat graftPeer/prunePeer, OnClosedOutboundStream]
   X00.c LeavePrunes    LEAVE(t) is followed, before the event loop does anything else, by exactly one PRUNE(p,t) per
                        member the mesh of t had; PRUNE(p,t) for a topic that is not joined occurs only there.
                        [gossipsub.go Leave]
   X00.d WireControl    An RPC handed to a peer's queue (SEND_RPC or DROP_RPC) carries GRAFT(t) only if the peer is in
                        the mesh of t, PRUNE(t) only if it is not, IHAVE(t,..) only if it is not and only ids this
                        instance delivered. [gossipsub.go sendGraft/sendPrune/sendGraftPrune/piggybackControl/flush/emitGossip]
   X00.e Backoff        No GRAFT(t) is handed to the queue of p before the backoff that the last PRUNE(p,t) event
                        started has run out (prune backoff, unsubscribe backoff, or the backoff p announced).
                        [gossipsub.go addBackoff/doAddBackoff, Join and heartbeat candidate filters]
   X00.f AtMostOnce     Per instance and message id at most one of DELIVER_MESSAGE / REJECT_MESSAGE(validation failed,
                        ignored, throttled) within the seen-cache TTL of the first time the id was referenced.
                        [pubsub.go markSeen/pushMsg, validation.go validate, timecache]
   X00.g Accounting     Every DELIVER/DUPLICATE/REJECT of id m is the outcome of one copy of m that reached the instance
                        before (a RECV_RPC listing m, once per listing, or a PUBLISH_MESSAGE(m)); a DUPLICATE needs a
                        second copy; a DELIVER with receivedFrom = self needs its own PUBLISH_MESSAGE.
                        [pubsub.go handleIncomingRPC/shouldPush/pushMsg/publishMessage, topic.go validate/Publish]
   X00.h SendAccepted   A message is handed to a peer's queue only after this instance DELIVERed it, and never to the
                        peer the delivered copy came from unless that peer asked with IWANT in the RPC being handled.
                        [pubsub.go publishMessage, gossipsub.go rpcs/handleIWant, floodsub.go/randomsub.go Publish]
   X00.i Wire           (instances of one test) every RECV_RPC at B from A that carries messages or control was
                        pushed by A onto its queue for B before, with the same content; non-urgent RPCs arrive in push
                        order, urgent ones (IDONTWANT) may only overtake non-urgent ones.
                        [rpc_queue.go, comm.go handleSendingMessages/handleNewStream, pubsub.go handleIncomingRPC]
   X00.j Origin         (instances of one test) a message DELIVERed with receivedFrom /= self was PUBLISHed by some
                        instance before, or entered from a peer that is not an instance (tests injecting raw RPCs).
   *)

   The machine is a pure function of (state, event) returning the new state and the set of violated
   predicates; the trace specification folds it over the NDJSON lines, MCAutoTrace composes it with an
   abstract network of routers. All ids are made small by the orchestrator (message ids 1..nm,
   instances 1..ni; peers and topics stay strings). *)
EXTENDS Naturals, Integers, Sequences, FiniteSets, TLC

\* the C19 replay machine (its variables are not used here, only the per-event functions on records)
TR == INSTANCE TraceReplay WITH peersT <- {}, joinedT <- {}, meshT <- <<>>, delivT <- <<>>, pubT <- <<>>,
                                sendT <- <<>>, dropT <- <<>>, badT <- {}

-----------------------------------------------------------------------------
PostSeen == {"validation failed", "validation ignored", "validation throttled"}   \* rejections after markSeen
OffLoop  == {"REJECT_MESSAGE", "DUPLICATE_MESSAGE", "PUBLISH_MESSAGE"}            \* may come from other goroutines

ToSet(sq) == {sq[i] : i \in DOMAIN sq}
Max(a, b) == IF a > b THEN a ELSE b
Min(a, b) == IF a < b THEN a ELSE b

M0   == [refs |-> 0, outc |-> 0, first |-> -1, fin |-> 0, dl |-> 0, dfrom |-> "", pubs |-> 0, selfdl |-> 0]
LR0  == [p |-> "", graft |-> {}, prune |-> <<>>, iwant |-> {}]      \* the last RECV_RPC of the instance
LV0  == [t |-> "", left |-> {}]                                      \* the Leave in progress
CH0  == [nq |-> <<>>, uq |-> <<>>, taint |-> FALSE]                  \* RPCs in flight A -> B: <<content key, gp>>

Cov0 == [join |-> 0, leave |-> 0, graft |-> 0, prune |-> 0, pruneRemote |-> 0, pruneLeave |-> 0, closedMesh |-> 0,
         wireGraft |-> 0, wirePrune |-> 0, wireIHave |-> 0, backoffChecked |-> 0, final |-> 0, finalAgain |-> 0,
         outcome |-> 0, dup |-> 0, selfDeliver |-> 0, sendMsg |-> 0, sendBack |-> 0, wireMatched |-> 0,
         wireLost |-> 0, wireUrgent |-> 0, origin |-> 0, events |-> 0, stream |-> 0]

\* cfg: one record per instance [id, router, ttl, pruneBackoff, unsubBackoff, elmax]; skip: predicates not checked in this test
Init0(ni, nm, cfg, skip) ==
    [r    |-> [i \in 1..ni |-> TR!R0],
     lv   |-> [i \in 1..ni |-> LV0],
     lr   |-> [i \in 1..ni |-> LR0],
     bo   |-> [i \in 1..ni |-> <<>>],          \* <<topic, peer>> |-> earliest end of the backoff (ms), grows
     ms   |-> [i \in 1..ni |-> [m \in 1..nm |-> M0]],
     pubd |-> [m \in 1..nm |-> FALSE],         \* PUBLISHed by some instance
     inj  |-> [m \in 1..nm |-> FALSE],         \* received from a peer that is not an instance
     ch   |-> [a \in 1..ni |-> [b \in 1..ni |-> CH0]],
     cfg  |-> cfg, skip |-> skip, cov |-> Cov0]

Get(f, k, d) == IF k \in DOMAIN f THEN f[k] ELSE d
Put(f, k, v) == (k :> v) @@ f

V(pred, e, info) == [pred |-> pred, n |-> e.n, ln |-> e.ln, g |-> e.g, ty |-> e.ty, info |-> info]
Chk(S, pred, ok, e, info) == IF ok \/ pred \in S.skip THEN {} ELSE {V(pred, e, info)}
Bump(S, f) == [S EXCEPT !.cov[f] = @ + 1]
BumpBy(S, f, k) == [S EXCEPT !.cov[f] = @ + k]

Gossip(S, n)  == S.cfg[n].router = "gossipsub"
Mesh(S, n, t) == TR!MeshOf(S.r[n].mesh, t)

-----------------------------------------------------------------------------
\* X00.c: any event-loop event other than the PRUNEs (and their sends) of the Leave in progress ends it
LeaveDone(S, e) ==
    LET n == e.n IN
    IF S.lv[n].left = {} THEN <<S, {}>>
    ELSE <<[S EXCEPT !.lv[n] = LV0, !.r[n].mesh = TR!SetMesh(@, S.lv[n].t, {})],
           Chk(S, "X00_LeavePrunes", FALSE, e, [topic |-> S.lv[n].t, notPruned |-> S.lv[n].left])>>

\* ---- streams
OnNew(S, e)    == <<Bump([S EXCEPT !.r[e.n] = TR!RNew(@, e.p)], "stream"), {}>>
OnClosed(S, e) ==
    LET inMesh == \E t \in DOMAIN S.r[e.n].mesh : e.p \in S.r[e.n].mesh[t]
    IN <<Bump(IF inMesh THEN Bump([S EXCEPT !.r[e.n] = TR!RClosed(@, e.p)], "closedMesh")
                        ELSE [S EXCEPT !.r[e.n] = TR!RClosed(@, e.p)], "stream"), {}>>

\* ---- X00.a
OnJoin(S, e) ==
    LET n == e.n IN
    <<Bump([S EXCEPT !.r[n].joined = @ \cup {e.t}], "join"),
      Chk(S, "X00_Alternate", e.t \notin S.r[n].joined, e, [topic |-> e.t, what |-> "JOIN while joined"])>>

OnLeave(S, e) ==
    LET n == e.n IN
    <<Bump([S EXCEPT !.r[n].joined = @ \ {e.t},
                     !.lv[n] = IF Gossip(S, n) THEN [t |-> e.t, left |-> Mesh(S, n, e.t)] ELSE LV0], "leave"),
      Chk(S, "X00_Alternate", e.t \in S.r[n].joined, e, [topic |-> e.t, what |-> "LEAVE while not joined"])>>

\* ---- X00.b
OnGraft(S, e) ==
    LET n == e.n IN
    <<Bump([S EXCEPT !.r[n] = TR!RGraft(@, e.p, e.t)], "graft"),
      Chk(S, "X00_MeshEvents", e.t \in S.r[n].joined, e, [what |-> "GRAFT for a topic that is not joined", topic |-> e.t, p |-> e.p])
      \cup Chk(S, "X00_MeshEvents", e.p \notin Mesh(S, n, e.t), e, [what |-> "GRAFT of a mesh member", topic |-> e.t, p |-> e.p])>>

\* backoff announced by p for t in the last RECV_RPC (seconds; 0 = none given, -1 = not known), -2 = no PRUNE(t) from p there
Announced(S, n, p, t) ==
    LET lr == S.lr[n]
        xs == {i \in DOMAIN lr.prune : lr.prune[i][1] = t}
    IN IF lr.p # p \/ xs = {} THEN -2 ELSE lr.prune[CHOOSE i \in xs : TRUE][2]

OnPrune(S, e) ==
    LET n      == e.n
        cfg    == S.cfg[n]
        joined == e.t \in S.r[n].joined
        member == e.p \in Mesh(S, n, e.t)
        ann    == Announced(S, n, e.p, e.t)
        leave  == ~joined /\ S.lv[n].t = e.t /\ e.p \in S.lv[n].left
        \* a lower bound of the backoff this PRUNE starts (ms); 0 = no claim
        dur    == IF ~joined THEN cfg.unsubBackoff
                  ELSE IF ann = -2 THEN cfg.pruneBackoff
                  ELSE IF ann = -1 THEN 0
                  ELSE IF ann = 0 THEN cfg.pruneBackoff
                  ELSE Min(ann * 1000, cfg.pruneBackoff)
        key    == <<e.t, e.p>>
        until  == Max(Get(S.bo[n], key, 0), e.ts + dur)
        S1     == [S EXCEPT !.r[n] = TR!RPrune(@, e.p, e.t),
                            !.lv[n].left = IF leave THEN @ \ {e.p} ELSE @,
                            !.bo[n] = IF dur > 0 THEN Put(@, key, until) ELSE @]
        S2     == Bump(S1, IF leave THEN "pruneLeave" ELSE IF joined /\ ~member THEN "pruneRemote" ELSE "prune")
    IN <<S2,
         IF joined
         THEN Chk(S, "X00_MeshEvents", member \/ ann # -2, e,
                  [what |-> "PRUNE of a peer that is neither a mesh member nor pruning us in this RPC", topic |-> e.t, p |-> e.p])
         ELSE Chk(S, "X00_LeavePrunes", leave, e,
                  [what |-> "PRUNE for a topic that is not joined, outside its LEAVE", topic |-> e.t, p |-> e.p])>>

\* ---- messages
RECURSIVE RefAll(_, _, _, _), MarkAll(_, _, _)
\* one copy per listing of a message id in an RPC
RefAll(ms, msgs, i, ts) ==
    IF i > Len(msgs) THEN ms
    ELSE LET m == msgs[i][1] IN
         RefAll([ms EXCEPT ![m].refs = @ + 1, ![m].first = IF @ = -1 THEN ts ELSE @], msgs, i + 1, ts)
MarkAll(f, msgs, i) == IF i > Len(msgs) THEN f ELSE MarkAll([f EXCEPT ![msgs[i][1]] = TRUE], msgs, i + 1)

MsgIds(msgs) == {msgs[i][1] : i \in DOMAIN msgs}

\* X00.f for a final outcome (DELIVER or a rejection after markSeen) of message m at time ts
Final(S, e) ==
    LET n == e.n  x == S.ms[n][e.m]  ttl == S.cfg[n].ttl
        again == x.fin >= 1
        okAgain == x.first >= 0 /\ e.ts >= x.first + ttl
    IN <<[S EXCEPT !.ms[n][e.m].fin = @ + 1,
                   !.ms[n][e.m].first = IF again /\ okAgain THEN x.first + ttl ELSE @,
                   !.cov.final = @ + 1, !.cov.finalAgain = @ + (IF again THEN 1 ELSE 0)],
         Chk(S, "X00_AtMostOnce", ~again \/ okAgain, e,
             [m |-> e.m, finalsBefore |-> x.fin, firstRef |-> x.first, ts |-> e.ts, ttl |-> ttl])>>

Outcome(S, e) ==      \* X00.g: one outcome per copy
    LET x == S.ms[e.n][e.m] IN
    <<[S EXCEPT !.ms[e.n][e.m].outc = @ + 1, !.cov.outcome = @ + 1],
      Chk(S, "X00_Accounting", x.outc < x.refs, e, [what |-> "more outcomes than copies", m |-> e.m, copies |-> x.refs, outcomes |-> x.outc])>>

OnPublish(S, e) ==
    <<[S EXCEPT !.ms[e.n][e.m].refs = @ + 1, !.ms[e.n][e.m].pubs = @ + 1,
                !.ms[e.n][e.m].first = IF @ = -1 THEN e.ts ELSE @, !.pubd[e.m] = TRUE], {}>>

OnDeliver(S, e) ==
    LET n   == e.n
        x   == S.ms[n][e.m]
        o   == Outcome(S, e)
        f   == Final(o[1], e)
        self == e.pi = n
        S3  == [f[1] EXCEPT !.ms[n][e.m].dfrom = e.p, !.ms[n][e.m].dl = @ + 1,
                            !.ms[n][e.m].selfdl = @ + (IF self THEN 1 ELSE 0),
                            !.cov.selfDeliver = @ + (IF self THEN 1 ELSE 0),
                            !.cov.origin = @ + (IF self THEN 0 ELSE 1)]
    IN <<S3, o[2] \cup f[2]
             \cup (IF self THEN Chk(S, "X00_Accounting", x.selfdl < x.pubs, e,
                                    [what |-> "own message delivered without PUBLISH_MESSAGE", m |-> e.m, published |-> x.pubs, deliveredOwn |-> x.selfdl])
                   ELSE Chk(S, "X00_Origin", S.pubd[e.m] \/ S.inj[e.m], e, [m |-> e.m, from |-> e.p]))>>

OnDuplicate(S, e) ==
    LET o == Outcome(S, e) IN
    <<Bump(o[1], "dup"),
      o[2] \cup Chk(S, "X00_Accounting", S.ms[e.n][e.m].refs >= 2, e,
                    [what |-> "DUPLICATE_MESSAGE without an earlier copy", m |-> e.m, copies |-> S.ms[e.n][e.m].refs])>>

OnReject(S, e) ==
    LET o == Outcome(S, e) IN
    IF e.r \in PostSeen THEN LET f == Final(o[1], e) IN <<f[1], o[2] \cup f[2]>>
    ELSE o

\* ---- the wire between two instances (X00.i)
RECURSIVE FindFrom(_, _, _)
FindFrom(q, c, i) == IF i > Len(q) THEN 0 ELSE IF q[i][1] = c THEN i ELSE FindFrom(q, c, i + 1)
Find(q, c) == FindFrom(q, c, 1)

Matchable(e) == e.c > 0 /\ ~e.x      \* carries messages or control, no extension fields the metadata hides

WireSend(S, e) ==
    LET a == e.n  b == e.pi IN
    IF b = 0 \/ b = a \/ ~Matchable(e) THEN S
    ELSE IF ~e.hasgp THEN [S EXCEPT !.ch[a][b].taint = TRUE]
    ELSE IF e.u THEN [S EXCEPT !.ch[a][b].uq = Append(@, <<e.c, e.g>>)]
    ELSE [S EXCEPT !.ch[a][b].nq = Append(@, <<e.c, e.g>>)]

WireRecv(S, e) ==
    LET b == e.n  a == e.pi IN
    IF a = 0 \/ a = b \/ ~Matchable(e) \/ S.ch[a][b].taint THEN <<S, {}>>
    ELSE LET ch == S.ch[a][b]
             iN == Find(ch.nq, e.c)
             iU == Find(ch.uq, e.c)
         IN IF iN = 0 /\ iU = 0
            THEN \* no push seen: a violation once the sender's event loop is known to have gone past the push
                 <<S, IF e.g < S.cfg[a].elmax
                      THEN Chk(S, "X00_Wire", FALSE, e, [what |-> "RPC received that the sender never pushed (or out of order)",
                                                         from |-> e.p, sender |-> a, pendingN |-> Len(ch.nq), pendingU |-> Len(ch.uq)])
                      ELSE {}>>
            ELSE IF iN > 0 /\ iU > 0 THEN <<[S EXCEPT !.ch[a][b].taint = TRUE], {}>>
            ELSE IF iN > 0
            THEN LET gp == ch.nq[iN][2] IN
                 <<[S EXCEPT !.ch[a][b].nq = SubSeq(@, iN + 1, Len(@)),
                             !.ch[a][b].uq = SelectSeq(@, LAMBDA x : x[2] > gp),
                             !.cov.wireMatched = @ + 1, !.cov.wireLost = @ + (iN - 1)], {}>>
            ELSE <<[S EXCEPT !.ch[a][b].uq = SubSeq(@, iU + 1, Len(@)),
                             !.cov.wireMatched = @ + 1, !.cov.wireUrgent = @ + 1], {}>>

OnRecv(S, e) ==
    LET n  == e.n
        S1 == [S EXCEPT !.lr[n] = [p |-> e.p, graft |-> ToSet(e.graft), prune |-> e.prune, iwant |-> ToSet(e.iwant)],
                        !.ms[n] = RefAll(@, e.msgs, 1, e.ts),
                        !.inj = IF e.pi = 0 THEN MarkAll(@, e.msgs, 1) ELSE @]
    IN WireRecv(S1, e)

\* ---- an RPC handed to the queue of e.p (accepted: SEND_RPC, refused: DROP_RPC): X00.d, X00.e, X00.h
IHaveIds(ih) == UNION {ToSet(ih[i][2]) : i \in DOMAIN ih}

OnOut(S, e, sent) ==
    LET n      == e.n
        gs     == Gossip(S, n)
        grafts == ToSet(e.graft)
        prunes == {e.prune[i][1] : i \in DOMAIN e.prune}
        badG   == {t \in grafts : e.p \notin Mesh(S, n, t)}
        badP   == {t \in prunes : e.p \in Mesh(S, n, t)}
        early  == {t \in grafts : e.ts + 1 < Get(S.bo[n], <<t, e.p>>, 0)}
        badIHt == {e.ihave[i][1] : i \in {j \in DOMAIN e.ihave : e.p \in Mesh(S, n, e.ihave[j][1])}}
        badIHm == {m \in IHaveIds(e.ihave) : S.ms[n][m].dl = 0}
        mids   == MsgIds(e.msgs)
        unacc  == {m \in mids : S.ms[n][m].dl = 0}
        back   == {m \in mids : S.ms[n][m].dfrom = e.p}
        asked  == IF S.lr[n].p = e.p THEN S.lr[n].iwant ELSE {}
        S1     == [S EXCEPT !.cov.wireGraft = @ + Cardinality(grafts), !.cov.wirePrune = @ + Cardinality(prunes),
                            !.cov.wireIHave = @ + Len(e.ihave),
                            !.cov.backoffChecked = @ + Cardinality({t \in grafts : <<t, e.p>> \in DOMAIN S.bo[n]}),
                            !.cov.sendMsg = @ + Cardinality(mids), !.cov.sendBack = @ + Cardinality(back)]
    IN <<IF sent THEN WireSend(S1, e) ELSE S1,
         (IF gs THEN Chk(S, "X00_WireControl", badG = {}, e, [what |-> "GRAFT to a peer that is not in the mesh", p |-> e.p, topics |-> badG])
                     \cup Chk(S, "X00_WireControl", badP = {}, e, [what |-> "PRUNE to a mesh member", p |-> e.p, topics |-> badP])
                     \cup Chk(S, "X00_WireControl", badIHt = {}, e, [what |-> "IHAVE to a mesh member", p |-> e.p, topics |-> badIHt])
                     \cup Chk(S, "X00_WireControl", badIHm = {}, e, [what |-> "IHAVE for a message that was not delivered here", p |-> e.p, ms |-> badIHm])
                     \cup Chk(S, "X00_Backoff", early = {}, e,
                              [what |-> "GRAFT inside the backoff started by the last PRUNE event", p |-> e.p, topics |-> early, ts |-> e.ts,
                               until |-> [t \in early |-> S.bo[n][<<t, e.p>>]]])
          ELSE {})
         \cup Chk(S, "X00_SendAccepted", unacc = {}, e, [what |-> "message handed to a peer before it was delivered here", p |-> e.p, ms |-> unacc])
         \cup Chk(S, "X00_SendAccepted", back \subseteq asked, e,
                  [what |-> "message sent back to the peer it was received from (no IWANT from it in the RPC being handled)",
                   p |-> e.p, ms |-> back \ asked])>>

-----------------------------------------------------------------------------
\* one event: <<new state, violations>>
Handle(S0, e) ==
    LET pre == IF e.ty \in OffLoop \/ e.ty \in {"SEND_RPC", "DROP_RPC"}
                  \/ (e.ty = "PRUNE" /\ e.t = S0.lv[e.n].t /\ e.t \notin S0.r[e.n].joined)
               THEN <<S0, {}>> ELSE LeaveDone(S0, e)
        S   == Bump(pre[1], "events")
        res == CASE e.ty = "RECV_RPC"          -> OnRecv(S, e)
                 [] e.ty = "SEND_RPC"          -> OnOut(S, e, TRUE)
                 [] e.ty = "DUPLICATE_MESSAGE" -> OnDuplicate(S, e)
                 [] e.ty = "DELIVER_MESSAGE"   -> OnDeliver(S, e)
                 [] e.ty = "DROP_RPC"          -> OnOut(S, e, FALSE)
                 [] e.ty = "REJECT_MESSAGE"    -> OnReject(S, e)
                 [] e.ty = "PUBLISH_MESSAGE"   -> OnPublish(S, e)
                 [] e.ty = "GRAFT"             -> OnGraft(S, e)
                 [] e.ty = "PRUNE"             -> OnPrune(S, e)
                 [] e.ty = "JOIN"              -> OnJoin(S, e)
                 [] e.ty = "LEAVE"             -> OnLeave(S, e)
                 [] e.ty = "ON_NEW_OUTBOUND_STREAM"    -> OnNew(S, e)
                 [] e.ty = "ON_CLOSED_OUTBOUND_STREAM" -> OnClosed(S, e)
                 [] OTHER -> <<S, {}>>
    IN <<res[1], pre[2] \cup res[2]>>
=============================================================================
