SPECIFICATION TraceSpec
CONSTANTS
  Guarded = TRUE
CONSTRAINT HW
POSTCONDITION Accepted
CHECK_DEADLOCK FALSE
