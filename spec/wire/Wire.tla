-------------------------------- MODULE Wire --------------------------------
(* C12 - no input from remote peers can crash the node or stall its event loop.

   What this module is, honestly: a CLASS TABLE of everything a remote peer can
   put on an inbound pubsub stream (frame kinds, and for a well-formed RPC one
   class per field), a tiny machine that says what each frame does to the
   streams of the node (the only thing a model can own here), and the three
   property predicates.  "For every byte stream" is not enumerable; the
   specification enumerates class combinations and short sequences, TLC
   generates them, the Go driver turns each class into bytes and writes them
   to a real inbound stream of a real node.  Level: exploration.

   The table is kept HERE and nowhere else; GenWire prints it (PrintT) and the
   orchestrator / driver read that print-out.                              *)
EXTENDS Naturals, Sequences, FiniteSets, TLC

CONSTANTS Guarded   \* TRUE: the property (no frame kills the node).  FALSE: the code as found
                    \* (D2: BasicSeqnoValidator indexes a 1..7 byte seqno) - used only by the
                    \* configuration that MUST fail (non-vacuity of P_C12_Alive).

Range(s) == {s[i] : i \in DOMAIN s}

-----------------------------------------------------------------------------
(* Frame kinds and their sub-kinds (how the framing is broken).  The first
   sub-kind of every kind is the one used when nothing else is said.       *)
SubKinds == [
  Empty     |-> <<"one", "many">>,                      \* length prefix 0 (one / a run of 1000): skipped
  TooLong   |-> <<"plus1", "big", "overflow">>,         \* prefix = limit+1 / 2^62 / a 10-byte varint: reset
  Garbage   |-> <<"random", "nonminimal", "wiretype", "innerlen">>,
                                                        \* seeded random bytes that do not decode / a non-minimal
                                                        \* length varint / an illegal wire type after a valid RPC /
                                                        \* an inner length that runs past the frame: reset
  Truncated |-> <<"body", "len", "nobody">>,            \* EOF inside the body / inside the length / right after the length
  Rpc       |-> <<"rpc">>,                              \* a well-formed RPC whose fields are given by classes
  Malformed |-> <<"field">>,                           \* a frame built around ONE hand-made protobuf field (classes: MalFields)
  Dup       |-> <<"streams">>,                         \* no bytes: the peer opens 8 further inbound streams, one after the other,
                                                        \* without closing the previous ones (the node keeps the last)
  Tick      |-> <<"hb">> ]                              \* no frame: one heartbeat of the node passes (end of a scenario)

(* One class per field of a well-formed RPC.  The FIRST class of a field is its
   blank value (absent / zero).  Counts: few = 2 (3 for subscriptions),
   many = more than the corresponding flood cap (10..40 elements).  "huge" = 64 KiB (the driver gives
   at most two elements of one RPC the full size, further "huge" elements are 128 bytes, so that the
   RPC stays under the 256 KiB size limit of the node under test).
   "known" topic = the topic the node has joined; known id = id of a message in
   the node's cache.  Every combination can be turned into bytes (no
   constraints between fields): e.g. sig = "signed" means "signed by the key
   the harness holds for `from` if it holds one, otherwise by the sender".   *)
Fields == [
  nsub       |-> <<"0", "1", "few", "limp", "many">>,     \* few = 3 = the limit of the limit filter, limp = limit+1
  subTopic   |-> <<"absent", "empty", "known", "unknown", "huge">>,
  subFlag    |-> <<"absent", "true", "false">>,
  subPart    |-> <<"absent", "req", "sup", "both">>,
  nmsg       |-> <<"0", "1", "few", "many", "qm", "q", "qp", "absorb", "over">>,
                 \* measured against the node's validation pipeline (loop -> validateQ -> worker -> sendMsg -> loop):
                 \* q = cap(validateQ), qm / qp = q-1 / q+1, absorb = q + workers + cap(sendMsg) = all the pipeline can
                 \* hold while the loop is busy, over = absorb + 16.  The driver reads q, workers, cap(sendMsg) off the node.
  msgTopic   |-> <<"absent", "empty", "known", "unknown", "huge">>,
  from       |-> <<"absent", "empty", "self", "own", "other", "garbage">>,
  seqno      |-> <<"0", "1", "3", "7", "8", "9">>,       \* length in bytes
  seqrel     |-> <<"ascending", "descending", "equal", "sameprefix", "prevprefix">>,
                 \* numeric relation of the sequence numbers of the messages of ONE RPC (they are validated concurrently):
                 \* equal = identical bytes; sameprefix = message 0 as its class says, the others 9 bytes = its first 8
                 \* bytes + a distinct tail (distinct message ids, ONE numeric value); prevprefix = the same, with the
                 \* prefix of the previous RPC of the scenario (a replay that arrives after the first validation ended)
  sig        |-> <<"absent", "signed", "bad", "empty">>,
  key        |-> <<"absent", "garbage", "mismatch", "match">>,
  data       |-> <<"empty", "small", "big">>,
  ngraft     |-> <<"0", "1", "many">>,
  graftTopic |-> <<"absent", "empty", "known", "unknown", "huge">>,
  nprune     |-> <<"0", "1", "pend", "pendp", "many">>,   \* pend = MaxPendingConnections + Connectors PRUNEs, pendp = one more
  pruneTopic |-> <<"absent", "empty", "known", "unknown", "huge">>,
  backoff    |-> <<"absent", "0", "1", "max">>,          \* max = 2^64-1
  npx        |-> <<"0", "1", "cap", "capp", "many">>,     \* cap = PrunePeers
  pxId       |-> <<"absent", "empty", "garbage", "connected", "unconnected", "self", "fresh">>,
                 \* fresh: a new identity per entry; its "valid" record points at an address nobody listens on (the dial hangs)
  pxRec      |-> <<"absent", "garbage", "wrongdomain", "wrongtype", "wrongid", "valid">>,
  nihave     |-> <<"0", "1", "many">>,
  ihaveTopic |-> <<"absent", "empty", "known", "unknown", "huge">>,
  ihaveN     |-> <<"0", "1", "capm", "cap", "capp", "many">>,   \* cap = MaxIHaveLength
  ihaveId    |-> <<"empty", "known", "unknown", "huge">>,
  niwant     |-> <<"0", "1", "many">>,
  iwantN     |-> <<"0", "1", "many">>,
  iwantId    |-> <<"empty", "known", "unknown", "huge">>,
  nidw       |-> <<"0", "1", "many">>,
  idwN       |-> <<"0", "1", "cap", "capp", "many">>,     \* cap = MaxIDontWantLength
  idwId      |-> <<"empty", "known", "unknown", "huge">>,
  ext        |-> <<"absent", "ctlonly", "empty", "test", "partial", "both">>,
  part       |-> <<"absent", "present">>,
  partTopic  |-> <<"absent", "empty", "known", "unknown", "huge">>,
  group      |-> <<"absent", "empty", "small", "huge">>,
  pdata      |-> <<"absent", "small", "huge">>,
  textmsg    |-> <<"absent", "present">>,
  tail       |-> <<"none", "unknown", "tolimit">> ]      \* unknown protobuf field / padded to exactly the size limit

(* Classes that do not short-circuit the processing of the rest of the RPC
   ("deep" cover: the enabling context is pinned so that a pair really reaches
   the handler).  A field that is not listed keeps all its classes.          *)
DeepOverride == [
  nsub       |-> <<"1", "few">>,
  subTopic   |-> <<"known", "absent", "unknown">>,
  nmsg       |-> <<"1", "few", "q", "qp", "absorb", "over">>,
  msgTopic   |-> <<"known">>,
  from       |-> <<"own", "other">>,
  sig        |-> <<"signed">>,
  key        |-> <<"absent", "match">>,
  ngraft     |-> <<"1", "many">>,
  graftTopic |-> <<"known", "unknown">>,
  nprune     |-> <<"1", "pend", "pendp", "many">>,
  pruneTopic |-> <<"known">>,
  npx        |-> <<"1", "cap", "capp", "many">>,
  pxId       |-> <<"unconnected", "garbage", "absent", "fresh">>,
  nihave     |-> <<"1", "many">>,
  ihaveTopic |-> <<"known">>,
  niwant     |-> <<"1", "many">>,
  nidw       |-> <<"1", "many">>,
  part       |-> <<"present">>,
  textmsg    |-> <<"present">>,
  tail       |-> <<"none", "unknown">> ]

(* Configuration of the node under test and of the hostile peer.  Factors in
   GossipOnly are meaningless for floodsub / randomsub nodes (their blank
   value is used there).                                                    *)
Cfg == [
  router    |-> <<"gossipsub", "floodsub", "randomsub">>,
  proto     |-> <<"v11", "v10", "v12", "v13", "flood">>, \* protocol of the hostile peer's streams
  hpeer     |-> <<"known", "unknown">>,                  \* unknown: the node has no outbound stream to the sender
  validator |-> <<"none", "seqno", "inline">>,           \* WithDefaultValidator(NewBasicSeqnoValidator(store)): asynchronous /
                                                         \* WithValidatorInline(true): runs inside the validation worker
  valq      |-> <<"default", "small">>,                  \* small: WithValidateQueueSize(2), WithValidateWorkers(1)
  hslow     |-> <<"off", "on">>,                         \* on: WithPeerOutboundQueueSize(2) and the hostile peer's transport does
                                                         \* not take the node's writes (its outbound queue overflows)
  filter    |-> <<"none", "allow", "regexp", "limit">>,  \* WithSubscriptionFilter(...)
  sign      |-> <<"strict", "nosign", "lax">>,           \* StrictSign / StrictNoSign (+content ids) / LaxSign
  score     |-> <<"off", "on">>,
  hscore    |-> <<"zero", "high", "low">>,               \* application score of the hostile peer (low: graylisted)
  gater     |-> <<"off", "on">>,
  testext   |-> <<"off", "on">>,
  partial   |-> <<"off", "on">>,
  hext      |-> <<"none", "test", "partial", "both">>,   \* extensions announced in the hostile peer's first RPC
  rpclog    |-> <<"off", "debug">> ]                     \* WithRPCLogger at debug level: every received RPC is rendered
GossipOnly == {"proto", "score", "hscore", "gater", "testext", "partial"}
CfgDeepOverride == [ sign |-> <<"strict">>, hscore |-> <<"zero", "high">>, filter |-> <<"none", "allow", "limit">> ]


(* The only constraint of the table: BasicSeqnoValidator is documented to need a signing policy with
   sequence numbers ("doesn't support anonymous mode"): with it an anonymous node ignores EVERY message,
   honest ones included, so that pair of classes is not a configuration of the property.              *)
Forbidden == << <<"cfg.validator", "seqno", "cfg.sign", "nosign">>, <<"cfg.validator", "inline", "cfg.sign", "nosign">> >>

(* The flood-protection caps the node under test is configured with (small, so that "exactly at the
   cap" and "one more" are cheap to reach).  The driver builds the node from THESE numbers and turns
   the classes capm / cap / capp / pend / pendp / limp into counts with them.                       *)
Caps == [ MaxIHaveLength |-> 3, MaxIHaveMessages |-> 2, MaxIDontWantLength |-> 2, MaxIDontWantMessages |-> 2,
          PrunePeers |-> 2, MaxPendingConnections |-> 4, Connectors |-> 1, GossipRetransmission |-> 2, SubLimit |-> 3,
          ValidateQueueSmall |-> 2, ValidateWorkersSmall |-> 1, OutboundQueueSmall |-> 2, SlowSubscriberBuffer |-> 2,
          OverMargin |-> 16 ]

(* Malformed frames: one hand-made field inside one of the 13 message types of the wire format.  These are the
   integer-overflow classes of every length the generated decoder adds to an index.  The whole product is
   replayed (it is small), not a pair cover.
     where: the message type whose Unmarshal meets the field (reached through its path from the RPC)
     field: unknown = field number 15 (unknown everywhere); known = a known length-delimited field of that type
     wt:    wire type (group = start+end pair, sgroup / egroup = start / end alone, illegal = 7)
     len:   for wt = len, the length varint: 0 / fits (3 bytes follow) / plus1 (one more than follows) / 2^31-1 /
            2^31 / 2^32 / ovfl = end offset exactly 2^63-1 / ovfl1 = end offset 2^63 (wraps int) / 2^63 / 2^64-1 /
            long = a varint of 11 bytes
     pre:   none = the field is the first byte of its message, known = a valid known field precedes it (offset > 0) *)
MalFields == [
  where |-> <<"rpc", "subopts", "message", "control", "ihave", "iwant", "graft", "prune", "idontwant",
              "extensions", "peerinfo", "partial", "testext">>,
  field |-> <<"unknown", "known">>,
  wt    |-> <<"len", "varint", "fixed64", "fixed32", "group", "sgroup", "egroup", "illegal">>,
  len   |-> <<"0", "fits", "plus1", "i31m", "i31", "u32", "ovfl", "ovfl1", "i63", "u64", "long">>,
  pre   |-> <<"none", "known">> ]
MalNoKnown == {"extensions", "testext"}     \* message types without a length-delimited field of their own
BlankM == [k \in DOMAIN MalFields |-> MalFields[k][1]]
IsMal(m) == /\ DOMAIN m = DOMAIN MalFields /\ \A k \in DOMAIN MalFields : m[k] \in Range(MalFields[k])
            /\ m.where \in MalNoKnown => m.field = "unknown"
            /\ m.wt # "len" => m.len = BlankM.len
\* does the frame decode?  (a known field accepts only its own wire type)
Decodes(m) == \/ m.wt = "len" /\ m.len \in {"0", "fits"}
              \/ m.field = "unknown" /\ m.wt \in {"varint", "fixed64", "fixed32", "group"}

Table == [ subkinds |-> SubKinds, fields |-> Fields, deep |-> DeepOverride,
           cfg |-> Cfg, gossipOnly |-> GossipOnly, cfgDeep |-> CfgDeepOverride, forbidden |-> Forbidden, caps |-> Caps,
           mal |-> MalFields, malNoKnown |-> MalNoKnown ]

-----------------------------------------------------------------------------
Blank == [k \in DOMAIN Fields |-> Fields[k][1]]
BlankCfg == [k \in DOMAIN Cfg |-> Cfg[k][1]]

\* a frame: kind, sub-kind and (for Rpc) the class of every field
Frame(kind, sub, ov) == [kind |-> kind, sub |-> sub, m |-> BlankM,
                         f |-> [k \in DOMAIN Fields |-> IF k \in DOMAIN ov THEN ov[k] ELSE Blank[k]]]
Raw(kind, sub) == [kind |-> kind, sub |-> sub, f |-> Blank, m |-> BlankM]
Mal(ov) == [kind |-> "Malformed", sub |-> "field", f |-> Blank,
            m |-> [k \in DOMAIN MalFields |-> IF k \in DOMAIN ov THEN ov[k] ELSE BlankM[k]]]

IsFrame(fr) == /\ fr.kind \in DOMAIN SubKinds
               /\ fr.sub \in Range(SubKinds[fr.kind])
               /\ DOMAIN fr.f = DOMAIN Fields
               /\ \A k \in DOMAIN Fields : fr.f[k] \in Range(Fields[k])
               /\ fr.kind # "Rpc" => fr.f = Blank
               /\ IsMal(fr.m) /\ (fr.kind # "Malformed" => fr.m = BlankM)
IsCfg(c) == /\ DOMAIN c = DOMAIN Cfg
            /\ \A k \in DOMAIN Cfg : c[k] \in Range(Cfg[k])
            /\ c.router # "gossipsub" => \A k \in GossipOnly : c[k] = BlankCfg[k]
            /\ ~(c.validator \in {"seqno", "inline"} /\ c.sign = "nosign")

(* The alphabet of named frames from which GenWire builds all sequences. *)
ValidMsg == [nmsg |-> "1", msgTopic |-> "known", from |-> "own", seqno |-> "8", sig |-> "signed", data |-> "small"]
Alphabet == [
  empty       |-> Raw("Empty", "one"),
  toolong     |-> Raw("TooLong", "plus1"),
  garbage     |-> Raw("Garbage", "random"),
  truncbody   |-> Raw("Truncated", "body"),
  truncnobody |-> Raw("Truncated", "nobody"),
  sub         |-> Frame("Rpc", "rpc", [nsub |-> "1", subTopic |-> "known", subFlag |-> "true"]),
  unsub       |-> Frame("Rpc", "rpc", [nsub |-> "1", subTopic |-> "known", subFlag |-> "false"]),
  subabsent   |-> Frame("Rpc", "rpc", [nsub |-> "1"]),
  submany     |-> Frame("Rpc", "rpc", [nsub |-> "many", subTopic |-> "unknown", subFlag |-> "true", subPart |-> "both"]),
  msg         |-> Frame("Rpc", "rpc", ValidMsg),
  msgseq3     |-> Frame("Rpc", "rpc", [ValidMsg EXCEPT !.seqno = "3"]),
  msgunsigned |-> Frame("Rpc", "rpc", [ValidMsg EXCEPT !.sig = "absent"]),
  msgself     |-> Frame("Rpc", "rpc", [ValidMsg EXCEPT !.from = "self", !.sig = "bad"]),
  msgmany     |-> Frame("Rpc", "rpc", [ValidMsg EXCEPT !.nmsg = "many", !.data = "big"]),
  graft       |-> Frame("Rpc", "rpc", [ngraft |-> "1", graftTopic |-> "known"]),
  prune       |-> Frame("Rpc", "rpc", [nprune |-> "1", pruneTopic |-> "known", backoff |-> "0"]),
  prunemax    |-> Frame("Rpc", "rpc", [nprune |-> "1", pruneTopic |-> "known", backoff |-> "max",
                                       npx |-> "many", pxId |-> "unconnected", pxRec |-> "garbage"]),
  prunepx     |-> Frame("Rpc", "rpc", [nprune |-> "1", pruneTopic |-> "known", npx |-> "1",
                                       pxId |-> "unconnected", pxRec |-> "valid"]),
  ihave       |-> Frame("Rpc", "rpc", [nihave |-> "1", ihaveTopic |-> "known", ihaveN |-> "many", ihaveId |-> "unknown"]),
  ihave0      |-> Frame("Rpc", "rpc", [nihave |-> "1", ihaveTopic |-> "known"]),
  iwant       |-> Frame("Rpc", "rpc", [niwant |-> "1", iwantN |-> "1", iwantId |-> "known"]),
  idontwant   |-> Frame("Rpc", "rpc", [nidw |-> "many", idwN |-> "many", idwId |-> "unknown"]),
  ext         |-> Frame("Rpc", "rpc", [ext |-> "both"]),
  partial     |-> Frame("Rpc", "rpc", [part |-> "present", partTopic |-> "known", group |-> "small", pdata |-> "small"]),
  testext     |-> Frame("Rpc", "rpc", [textmsg |-> "present"]) ]

(* Frames that only the anchor scenarios use (they are not letters of the sequence alphabet). *)
IHaveOf(n) == Frame("Rpc", "rpc", [nihave |-> "1", ihaveTopic |-> "known", ihaveN |-> n, ihaveId |-> "unknown"])
IdwOf(n)   == Frame("Rpc", "rpc", [nidw |-> "1", idwN |-> n, idwId |-> "unknown"])
PxOf(np)   == Frame("Rpc", "rpc", [nprune |-> np, pruneTopic |-> "known", npx |-> "1", pxId |-> "fresh", pxRec |-> "valid"])
AnchorFrames == [
  ihave1    |-> IHaveOf("1"),
  ihavecapm |-> IHaveOf("capm"),
  ihavecap  |-> IHaveOf("cap"),
  ihavecapp |-> IHaveOf("capp"),
  idw1      |-> IdwOf("1"),
  idwcap    |-> IdwOf("cap"),
  idwcapp   |-> IdwOf("capp"),
  pxcap     |-> Frame("Rpc", "rpc", [nprune |-> "1", pruneTopic |-> "known", npx |-> "cap", pxId |-> "fresh", pxRec |-> "valid"]),
  pxcapp    |-> Frame("Rpc", "rpc", [nprune |-> "1", pruneTopic |-> "known", npx |-> "capp", pxId |-> "fresh", pxRec |-> "valid"]),
  pxpend    |-> PxOf("pend"),
  pxpendp   |-> PxOf("pendp"),
  pxflood   |-> Frame("Rpc", "rpc", [nprune |-> "many", pruneTopic |-> "known", npx |-> "many", pxId |-> "fresh", pxRec |-> "valid"]),
  msgqm     |-> Frame("Rpc", "rpc", [ValidMsg EXCEPT !.nmsg = "qm"]),
  msgq      |-> Frame("Rpc", "rpc", [ValidMsg EXCEPT !.nmsg = "q"]),
  msgqp     |-> Frame("Rpc", "rpc", [ValidMsg EXCEPT !.nmsg = "qp"]),
  msgabsorb |-> Frame("Rpc", "rpc", [ValidMsg EXCEPT !.nmsg = "absorb"]),
  msgover   |-> Frame("Rpc", "rpc", [ValidMsg EXCEPT !.nmsg = "over"]),
  \* distinct messages of one author with ONE numeric sequence number, in one RPC (validated concurrently)
  msgpair   |-> Frame("Rpc", "rpc", [ValidMsg EXCEPT !.nmsg = "few"] @@ [seqrel |-> "sameprefix"]),
  msgpairs  |-> Frame("Rpc", "rpc", [ValidMsg EXCEPT !.nmsg = "many"] @@ [seqrel |-> "sameprefix"]),
  msgdesc   |-> Frame("Rpc", "rpc", [ValidMsg EXCEPT !.nmsg = "many"] @@ [seqrel |-> "descending"]),
  msgequal  |-> Frame("Rpc", "rpc", [ValidMsg EXCEPT !.nmsg = "few"] @@ [seqrel |-> "equal"]),
  msgprev   |-> Frame("Rpc", "rpc", [ValidMsg EXCEPT !.nmsg = "few"] @@ [seqrel |-> "prevprefix"]),
  ovfltop   |-> Mal([where |-> "rpc", field |-> "unknown", wt |-> "len", len |-> "ovfl1", pre |-> "known"]),
  ovflmsg   |-> Mal([where |-> "message", field |-> "unknown", wt |-> "len", len |-> "ovfl1", pre |-> "known"]),
  dup       |-> Raw("Dup", "streams"),
  sublim    |-> Frame("Rpc", "rpc", [nsub |-> "few", subTopic |-> "known", subFlag |-> "true"]),
  sublimp   |-> Frame("Rpc", "rpc", [nsub |-> "limp", subTopic |-> "known", subFlag |-> "true"]) ]
Letters == [a \in DOMAIN Alphabet \cup DOMAIN AnchorFrames |-> IF a \in DOMAIN Alphabet THEN Alphabet[a] ELSE AnchorFrames[a]]

(* Anchor scenarios: one short sequence per mechanism named in the property's anchors, in a
   configuration that is known to reach it, so that "the run reached the mechanism" (the coverage
   obligations of the check) does not depend on the luck of the covering arrays.  cfg lists the
   factors that differ from the blank configuration.                                          *)
Anchors == <<
  [name |-> "toolong",          cfg |-> [router |-> "gossipsub"], seq |-> <<"toolong">>],
  [name |-> "garbage",          cfg |-> [router |-> "gossipsub"], seq |-> <<"garbage">>],
  [name |-> "truncated",        cfg |-> [router |-> "gossipsub"], seq |-> <<"truncbody", "truncnobody">>],
  [name |-> "graft-in-backoff", cfg |-> [router |-> "gossipsub"], seq |-> <<"prune", "graft">>],
  [name |-> "ihave",            cfg |-> [router |-> "gossipsub"], seq |-> <<"ihave", "ihave0">>],
  [name |-> "iwant",            cfg |-> [router |-> "gossipsub"], seq |-> <<"iwant">>],
  [name |-> "px",               cfg |-> [router |-> "gossipsub"], seq |-> <<"prunepx">>],
  [name |-> "px-scored",        cfg |-> [router |-> "gossipsub", score |-> "on", hscore |-> "high"], seq |-> <<"prunepx", "prunemax">>],
  [name |-> "partial",          cfg |-> [router |-> "gossipsub", partial |-> "on", hext |-> "partial", proto |-> "v13"], seq |-> <<"partial">>],
  [name |-> "testext",          cfg |-> [router |-> "gossipsub", testext |-> "on", hext |-> "test", proto |-> "v13"], seq |-> <<"testext">>],
  [name |-> "seqno-validator",  cfg |-> [router |-> "gossipsub", validator |-> "seqno"], seq |-> <<"msg", "msg">>],
  [name |-> "seqno-short",      cfg |-> [router |-> "gossipsub", validator |-> "seqno"], seq |-> <<"msgseq3">>],
  [name |-> "limit-filter",     cfg |-> [router |-> "gossipsub", filter |-> "limit"], seq |-> <<"submany", "sub">>],
  [name |-> "graylisted",       cfg |-> [router |-> "gossipsub", score |-> "on", hscore |-> "low"], seq |-> <<"msg", "graft">>],
  [name |-> "unsigned",         cfg |-> [router |-> "gossipsub"], seq |-> <<"msgunsigned", "msgself">>],
  [name |-> "unknown-peer",     cfg |-> [router |-> "gossipsub", hpeer |-> "unknown"], seq |-> <<"graft", "msg", "ihave">>],
  \* every flood-protection cap: filled EXACTLY, then one more, inside one heartbeat, with and without scoring
  [name |-> "ihave-exact-more",       cfg |-> [router |-> "gossipsub", score |-> "on", hscore |-> "high"], seq |-> <<"ihavecap", "ihave1">>],
  [name |-> "ihave-many-more",        cfg |-> [router |-> "gossipsub", score |-> "on"], seq |-> <<"ihave", "ihave1">>],
  [name |-> "ihave-split-exact",      cfg |-> [router |-> "gossipsub", score |-> "on", hscore |-> "high"], seq |-> <<"ihavecapm", "ihave1", "ihave1">>],
  [name |-> "ihave-over-more",        cfg |-> [router |-> "gossipsub", score |-> "on"], seq |-> <<"ihavecapp", "ihave1">>],
  [name |-> "ihave-exact-noscore",    cfg |-> [router |-> "gossipsub"], seq |-> <<"ihavecap", "ihave1", "ihave1">>],
  [name |-> "ihave-rpcs-cap",         cfg |-> [router |-> "gossipsub", score |-> "on"], seq |-> <<"ihave0", "ihave0", "ihave1">>],
  [name |-> "idw-exact-more",         cfg |-> [router |-> "gossipsub", score |-> "on"], seq |-> <<"idwcap", "idw1", "idw1">>],
  [name |-> "idw-over",               cfg |-> [router |-> "gossipsub"], seq |-> <<"idwcapp", "idwcap">>],
  [name |-> "idw-rpcs-cap",           cfg |-> [router |-> "gossipsub", proto |-> "v12"], seq |-> <<"idw1", "idw1", "idw1">>],
  [name |-> "iwant-retransmission",   cfg |-> [router |-> "gossipsub", score |-> "on"], seq |-> <<"iwant", "iwant", "iwant">>],
  [name |-> "px-prunepeers",          cfg |-> [router |-> "gossipsub"], seq |-> <<"pxcap", "pxcapp">>],
  [name |-> "px-pending-exact",       cfg |-> [router |-> "gossipsub"], seq |-> <<"pxpend", "pxpendp">>],
  [name |-> "px-flood",               cfg |-> [router |-> "gossipsub"], seq |-> <<"pxflood", "pxpend">>],
  [name |-> "px-flood-scored",        cfg |-> [router |-> "gossipsub", score |-> "on", hscore |-> "high"], seq |-> <<"pxflood", "pxflood">>],
  \* every hand-off from the event loop to another goroutine, overfull by remote input:
  \* validation pipeline (one RPC with more new valid messages than validateQ + workers + sendMsg can absorb)
  [name |-> "valq-over-small",        cfg |-> [router |-> "gossipsub", valq |-> "small"], seq |-> <<"msgover", "msg">>],
  [name |-> "valq-over-default",      cfg |-> [router |-> "gossipsub"], seq |-> <<"msgover">>],
  [name |-> "valq-over-inline",       cfg |-> [router |-> "gossipsub", valq |-> "small", validator |-> "inline"], seq |-> <<"msgover", "msgover">>],
  [name |-> "valq-over-async",        cfg |-> [router |-> "gossipsub", valq |-> "small", validator |-> "seqno"], seq |-> <<"msgover">>],
  [name |-> "valq-over-scored",       cfg |-> [router |-> "gossipsub", valq |-> "small", score |-> "on", hscore |-> "high"], seq |-> <<"msgover">>],
  [name |-> "valq-exact",             cfg |-> [router |-> "gossipsub", valq |-> "small"], seq |-> <<"msgqm", "msgq", "msgqp", "msgabsorb">>],
  [name |-> "valq-over-floodsub",     cfg |-> [router |-> "floodsub", valq |-> "small"], seq |-> <<"msgover">>],
  [name |-> "valq-over-randomsub",    cfg |-> [router |-> "randomsub", valq |-> "small"], seq |-> <<"msgover">>],
  \* the hostile peer's own outbound queue (every GRAFT inside the backoff makes the node answer with a PRUNE)
  [name |-> "outq-overfull",          cfg |-> [router |-> "gossipsub", hslow |-> "on"], seq |-> <<"prune", "graft", "graft", "graft", "graft">>],
  [name |-> "outq-overfull-floodsub", cfg |-> [router |-> "floodsub", hslow |-> "on"], seq |-> <<"sub", "msg", "msg">>],
  \* the seqno validator under concurrent validation of one numeric value / descending values; replays afterwards
  [name |-> "seqno-sameprefix",       cfg |-> [router |-> "gossipsub", validator |-> "seqno"], seq |-> <<"msgpair", "msg">>],
  [name |-> "seqno-sameprefix-many",  cfg |-> [router |-> "gossipsub", validator |-> "seqno", valq |-> "small"], seq |-> <<"msgpairs", "msgpair">>],
  [name |-> "seqno-sameprefix-inline", cfg |-> [router |-> "gossipsub", validator |-> "inline"], seq |-> <<"msgpairs", "msgpairs">>],
  [name |-> "seqno-descending",       cfg |-> [router |-> "gossipsub", validator |-> "seqno"], seq |-> <<"msgdesc", "msgequal">>],
  [name |-> "seqno-replay-later",     cfg |-> [router |-> "gossipsub", validator |-> "seqno"], seq |-> <<"msg", "msgprev", "msgprev">>],
  [name |-> "seqno-sameprefix-flood", cfg |-> [router |-> "floodsub", validator |-> "seqno"], seq |-> <<"msgpair", "msgpairs">>],
  [name |-> "unknown-field-overflow", cfg |-> [router |-> "gossipsub"], seq |-> <<"ovfltop", "ovflmsg", "msg">>],
  [name |-> "dup-streams",            cfg |-> [router |-> "gossipsub"], seq |-> <<"dup", "sub", "dup", "msg">>],
  [name |-> "sub-limit",              cfg |-> [router |-> "gossipsub", filter |-> "limit"], seq |-> <<"sublim", "sublimp">>],
  [name |-> "floodsub",         cfg |-> [router |-> "floodsub"], seq |-> <<"msg", "garbage", "msg">>],
  [name |-> "randomsub",        cfg |-> [router |-> "randomsub"], seq |-> <<"msg", "toolong", "msg">>] >>

-----------------------------------------------------------------------------
(* The machine.  Two inbound streams of the node: "h" (the hostile peer's) and
   "g" (an honest peer's).  The node is either alive or not.                *)
Peers == {"h", "g"}
StreamStates == {"open", "reset", "eof"}

VARIABLES stream,   \* stream[p]: state of p's inbound stream as the node left it
          alive,    \* the node's process is running
          cfg       \* configuration of this run

wvars == <<stream, alive, cfg>>

\* what the node does to the stream a frame arrives on
Effect(fr) == CASE fr.kind \in {"TooLong", "Garbage"} -> "reset"
                [] fr.kind = "Truncated" -> IF fr.sub = "nobody" THEN "eof" ELSE "reset"
                [] fr.kind = "Malformed" -> IF Decodes(fr.m) THEN "open" ELSE "reset"
                [] OTHER -> "open"

\* conformance (drift only): the stream states the code may leave behind.  EOF inside the length prefix
\* is a reset once the error of the length peek is honoured (D17) and a clean close as long as it is not.
Conform(fr) == IF fr.kind = "Truncated" /\ fr.sub = "len" THEN {"reset", "eof"} ELSE {Effect(fr)}

\* number of RPCs the frame hands to the event loop
Recv(fr) == IF fr.kind = "Rpc" \/ (fr.kind = "Malformed" /\ Decodes(fr.m)) THEN 1 ELSE 0

\* D2 (deviation of the code as found): the message reaches BasicSeqnoValidator with a 1..7 byte seqno
ReachesSeqnoValidator(c, fr) ==
    /\ fr.kind = "Rpc" /\ c.validator \in {"seqno", "inline"} /\ fr.f.nmsg # "0"
    /\ fr.f.msgTopic = "known" /\ fr.f.from \in {"own", "other"}
    /\ \/ c.sign \in {"strict", "lax"} /\ fr.f.sig = "signed" /\ fr.f.key \in {"absent", "match"}
       \/ c.sign = "lax" /\ fr.f.sig = "absent"
    /\ c.score = "on" => c.hscore # "low"
Kills(c, fr) == ~Guarded /\ ReachesSeqnoValidator(c, fr) /\ fr.f.seqno \in {"1", "3", "7"}

WInit(C) == /\ cfg \in C
            /\ stream = [p \in Peers |-> "open"]
            /\ alive = TRUE

\* a peer whose stream ended opens a new one
Reopen(p) == /\ alive /\ stream[p] # "open"
             /\ stream' = [stream EXCEPT ![p] = "open"]
             /\ UNCHANGED <<alive, cfg>>

Send(p, fr) == /\ alive /\ stream[p] = "open"
               /\ stream' = [stream EXCEPT ![p] = Effect(fr)]
               /\ alive' = ~Kills(cfg, fr)
               /\ UNCHANGED cfg

-----------------------------------------------------------------------------
(* The property. *)
P_C12_Alive == alive

\* a frame changes only the state of the stream it arrives on, and that stream is
\* reset iff the frame is too long or does not decode (a truncated frame ends it)
IsolationStep(p, fr) ==
    /\ \A q \in Peers \ {p} : stream'[q] = stream[q]
    /\ (stream'[p] = "reset") <=> (fr.kind \in {"TooLong", "Garbage"} \/ (fr.kind = "Truncated" /\ fr.sub # "nobody")
                                     \/ (fr.kind = "Malformed" /\ ~Decodes(fr.m)))
    /\ fr.kind \in {"Empty", "Rpc", "Tick", "Dup"} => stream'[p] = "open"
    /\ fr.kind = "Truncated" => stream'[p] # "open"

(* Observed form of the predicates (WireTrace evaluates these on what the real
   node did).  obs = [alive, stream, gstream, hOut, gOut, eval, probe, throttled] *)
O_Alive(obs) == obs.alive
O_Isolation(fr, obs, prevHOut, prevGOut) ==
    /\ fr.kind \in {"TooLong", "Garbage"} => obs.stream = "reset"
    /\ fr.kind \in {"Empty", "Rpc", "Tick", "Dup"} => obs.stream = "open"
    /\ fr.kind = "Malformed" => obs.stream = (IF Decodes(fr.m) THEN "open" ELSE "reset")
    /\ fr.kind = "Truncated" => obs.stream \in {"reset", "eof"}
    /\ obs.gstream = "open"                       \* the honest peer's stream is untouched
    /\ obs.hOut = prevHOut /\ obs.gOut = prevGOut \* so are the node's own outbound streams
\* the event loop answers, a local Publish returns (and reaches the node's own subscription), an honest peer's later message is delivered
O_Liveness(obs) == obs.eval /\ obs.pub /\ (obs.probe \/ obs.throttled)
=============================================================================
