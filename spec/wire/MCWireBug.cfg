SPECIFICATION Spec
CONSTANTS
  Guarded = FALSE
INVARIANT TypeOK
INVARIANT P_C12_Alive
CHECK_DEADLOCK FALSE
