------------------------------- MODULE GenWire -------------------------------
(* Scenario generator for C12.  It prints the class table and the alphabet
   (the single source of truth for the orchestrator and the Go driver) and
   enumerates EVERY sequence of 1..L named frames sent by the hostile peer
   (which opens a new stream whenever the previous frame ended its stream).
   The covering arrays over single-frame class combinations are computed by
   the orchestrator from the printed table; every frame it builds is checked
   against the table again by WireTrace (IsFrame / IsCfg).                 *)
EXTENDS Wire, Json

CONSTANTS L

VARIABLES hist
gvars == <<stream, alive, cfg, hist>>

ASSUME PrintT(<<"TABLE", ToJson(Table)>>)
ASSUME PrintT(<<"ALPHABET", ToJson(Alphabet)>>)
ASSUME PrintT(<<"ANCHORS", ToJson(Anchors)>>)
ASSUME PrintT(<<"LETTERS", ToJson(Letters)>>)
ASSUME \A a \in DOMAIN Letters : IsFrame(Letters[a])
ASSUME \A i \in DOMAIN Anchors : /\ Range(Anchors[i].seq) \subseteq DOMAIN Letters
                                 /\ IsCfg([k \in DOMAIN Cfg |-> IF k \in DOMAIN Anchors[i].cfg THEN Anchors[i].cfg[k] ELSE BlankCfg[k]])

Init == WInit({BlankCfg}) /\ hist = <<>>

Step(a) == /\ Len(hist) < L
           /\ hist' = Append(hist, a)
           /\ stream' = [stream EXCEPT !["h"] = Effect(Alphabet[a])]   \* (re-opened first if it had ended)
           /\ alive' = ~Kills(cfg, Alphabet[a])
           /\ UNCHANGED cfg

Next == \E a \in DOMAIN Alphabet : Step(a)
Spec == Init /\ [][Next]_gvars

Emit == hist # <<>> => PrintT(<<"SCN", ToJson(hist)>>)
=============================================================================
