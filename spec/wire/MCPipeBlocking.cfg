SPECIFICATION Spec
CONSTANTS
  Q = 2
  W = 1
  S = 3
  N = 9
  Blocking = TRUE
  Async = FALSE
INVARIANT TypeOK
PROPERTY P_C12_Liveness_Pipe
PROPERTY P_C12_Accounted
CHECK_DEADLOCK FALSE
