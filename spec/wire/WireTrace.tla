------------------------------ MODULE WireTrace ------------------------------
(* Trace specification for C12.  One line per frame the driver wrote to a real
   inbound stream of a real node (plus one reset line per scenario):

     {"e":"reset","scn":n,"cfg":{factor:class},"hOut":b,"gOut":b}
     {"e":"frame","scn":n,"k":k,"fr":{"kind","sub","f":{field:class}},
      "obs":{"alive","stream","gstream","hOut","gOut","recv","eval","pub","probe","throttled","dec"}}

   Per line: the frame must be a frame of the class table (otherwise BAD: the
   machinery is broken), the three predicates are evaluated on what the node
   did (VIOL), and the model's prediction of the stream state and of the number
   of RPCs handed to the event loop is compared with the observation (DRIFT,
   never a verdict).  The replay is deterministic: one behaviour, the cursor
   always advances, everything is printed and the orchestrator collects it.  *)
EXTENDS Wire, Json

Trace == ndJsonDeserialize("trace.ndjson")

VARIABLES l, prevH, prevG
tvars == <<stream, alive, cfg, l, prevH, prevG>>

E == Trace[l]
More == l <= Len(Trace)

TInit == /\ TLCSet(1, 0) /\ l = 1 /\ prevH = TRUE /\ prevG = TRUE
         /\ stream = [p \in Peers |-> "open"] /\ alive = TRUE /\ cfg = BlankCfg

TReset == /\ More /\ E.e = "reset"
          /\ IF IsCfg(E.cfg) THEN cfg' = E.cfg
                             ELSE PrintT(<<"BAD", E.scn, 0, "cfg">>) /\ cfg' = BlankCfg
          /\ stream' = [p \in Peers |-> "open"] /\ alive' = TRUE
          /\ prevH' = E.hOut /\ prevG' = E.gOut
          /\ l' = l + 1

Viols(fr, obs) ==
    IF ~O_Alive(obs) THEN {"P_C12_Alive"}
    ELSE (IF O_Isolation(fr, obs, prevH, prevG) THEN {} ELSE {"P_C12_Isolation"}) \cup
         (IF O_Liveness(obs) THEN {} ELSE {"P_C12_Liveness"})

Drifts(fr, obs) ==
    IF ~obs.alive THEN {}
    ELSE (IF obs.stream \in Conform(fr) THEN {} ELSE {"stream"}) \cup
         (IF obs.recv = Recv(fr) THEN {} ELSE {"recv"})

TFrame == /\ More /\ E.e = "frame"
          /\ IF IsFrame(E.fr)
               THEN \* the table's decode oracle against the harness's own (recover-protected) decode of the same bytes:
                    \* a disagreement means the TABLE is wrong, never the node (machinery error, not a verdict)
                    /\ (E.fr.kind = "Malformed" /\ E.obs.dec \in {"yes", "no"} /\ (E.obs.dec = "yes") # Decodes(E.fr.m))
                          => PrintT(<<"BAD", E.scn, E.k, "oracle">>)
                    /\ \A v \in Viols(E.fr, E.obs) : PrintT(<<"VIOL", E.scn, E.k, v>>)
                    /\ \A d \in Drifts(E.fr, E.obs) : PrintT(<<"DRIFT", E.scn, E.k, d>>)
               ELSE PrintT(<<"BAD", E.scn, E.k, "frame">>)
          \* re-synchronise from the observation so that the rest of the scenario is still checked
          /\ stream' = [stream EXCEPT !["h"] = IF E.obs.alive THEN E.obs.stream ELSE "open",
                                      !["g"] = IF E.obs.alive THEN E.obs.gstream ELSE "open"]
          /\ alive' = E.obs.alive
          /\ prevH' = (IF E.obs.alive THEN E.obs.hOut ELSE prevH)
          /\ prevG' = (IF E.obs.alive THEN E.obs.gOut ELSE prevG)
          /\ UNCHANGED cfg
          /\ l' = l + 1

TNext == TReset \/ TFrame
TraceSpec == TInit /\ [][TNext]_tvars

HW == IF TLCGet(1) < l THEN TLCSet(1, l) ELSE TRUE
Accepted == PrintT(<<"HW", TLCGet(1), Len(Trace) + 1>>)
=============================================================================
