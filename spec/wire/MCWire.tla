------------------------------- MODULE MCWire -------------------------------
(* Exhaustive check of the stream machine over the alphabet of named frames.
   It is small on purpose: the model owns only the stream states and the
   "alive" bit; its real role is Gen (GenWire).  MCWire.cfg must pass;
   MCWireBug.cfg (Guarded = FALSE, the code as found: D2) MUST violate
   P_C12_Alive - non-vacuity of the predicate.                            *)
EXTENDS Wire

MCCfgs == {c \in {[BlankCfg EXCEPT !.validator = v, !.sign = s, !.router = r] :
                     v \in Range(Cfg.validator), s \in Range(Cfg.sign), r \in Range(Cfg.router)} : IsCfg(c)}

Init == WInit(MCCfgs)
Next == \E p \in Peers : \/ Reopen(p)
                         \/ \E a \in DOMAIN Alphabet : Send(p, Alphabet[a])
                         \/ \E k \in DOMAIN SubKinds : \E s \in Range(SubKinds[k]) : k # "Rpc" /\ Send(p, Raw(k, s))
Spec == Init /\ [][Next]_wvars

TypeOK == /\ stream \in [Peers -> StreamStates] /\ alive \in BOOLEAN /\ IsCfg(cfg)
          /\ \A a \in DOMAIN Alphabet : IsFrame(Alphabet[a])
          /\ \A k \in DOMAIN DeepOverride : Range(DeepOverride[k]) \subseteq Range(Fields[k])
          /\ \A k \in DOMAIN CfgDeepOverride : Range(CfgDeepOverride[k]) \subseteq Range(Cfg[k])
          /\ GossipOnly \subseteq DOMAIN Cfg

AllFrames == {Alphabet[a] : a \in DOMAIN Alphabet} \cup
             UNION {{Raw(k, s) : s \in Range(SubKinds[k])} : k \in DOMAIN SubKinds \ {"Rpc"}}
P_C12_Isolation == [][\A p \in Peers : \A fr \in AllFrames : Send(p, fr) => IsolationStep(p, fr)]_wvars
=============================================================================
