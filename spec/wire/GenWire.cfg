SPECIFICATION Spec
CONSTANTS
  Guarded = TRUE
  L = 2
INVARIANT Emit
INVARIANT P_C12_Alive
CHECK_DEADLOCK FALSE
