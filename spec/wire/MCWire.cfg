SPECIFICATION Spec
CONSTANTS
  Guarded = TRUE
INVARIANT TypeOK
INVARIANT P_C12_Alive
PROPERTY P_C12_Isolation
CHECK_DEADLOCK FALSE
