-------------------------------- MODULE Pipe --------------------------------
(* C12, the hand-offs between the event loop and the validation workers:

      loop --(validateQ, cap Q)--> W workers --(sendMsg, cap S)--> loop

   The event loop handles ONE inbound RPC carrying N new messages: it pushes
   them one by one into validateQ (validation.Push) and only afterwards goes
   back to its select, where it takes validated messages out of sendMsg and
   answers eval requests (the liveness probe of P_C12_Liveness).  A worker
   takes a request, validates it (signature check, inline validators: inside
   the worker) and hands the message back with a BLOCKING send on sendMsg
   (sendMsgBlocking); with asynchronous validators it spawns a goroutine
   that does the blocking send instead, and is free again at once.

   Blocking = FALSE is the code: Push never waits, a message that finds the
   queue full is dropped (RejectValidationQueueFull).  Blocking = TRUE is the
   variant in which Push waits for room: with N > Q + W + S the loop waits for
   the workers while the workers wait for the loop - the probe is never
   answered.  MCPipe.cfg must pass, MCPipeBlocking.cfg MUST violate
   P_C12_Liveness_Pipe (non-vacuity), MCPipeBlockingAsync.cfg passes (spawned
   goroutines keep the workers free, which is why only validation that ends
   inside the worker is discriminating).
   The same shape - the loop hands something to another goroutine through a
   bounded buffer and must never wait for it - holds for the per-peer outbound
   queues (hslow), the PX connect channel (pxflood) and subscriber channels.  *)
EXTENDS Naturals, FiniteSets

CONSTANTS Q, W, S,        \* cap(validateQ), number of workers, cap(sendMsg)
          N,              \* messages in the RPC
          Blocking,       \* Push waits for room in validateQ
          Async           \* validators are asynchronous (a worker spawns a goroutine per message)

VARIABLES pending,   \* messages of the RPC the loop has still to push (the loop is inside handleIncomingRPC while > 0)
          vq,        \* requests in validateQ
          holding,   \* workers that hold a validated message and wait for room in sendMsg
          spawned,   \* goroutines spawned by workers that wait for room in sendMsg
          sm,        \* messages in sendMsg
          delivered, dropped,
          probe      \* "none" -> "asked" -> "answered"

pvars == <<pending, vq, holding, spawned, sm, delivered, dropped, probe>>

Init == /\ pending = N /\ vq = 0 /\ holding = 0 /\ spawned = 0 /\ sm = 0
        /\ delivered = 0 /\ dropped = 0 /\ probe = "none"

\* the loop pushes the next message of the RPC
LoopPush == /\ pending > 0
            /\ IF vq < Q THEN /\ vq' = vq + 1 /\ pending' = pending - 1 /\ UNCHANGED dropped
               ELSE /\ ~Blocking                         \* the blocking variant waits here
                    /\ dropped' = dropped + 1 /\ pending' = pending - 1 /\ UNCHANGED vq
            /\ UNCHANGED <<holding, spawned, sm, delivered, probe>>

\* back in its select, the loop takes a validated message ...
LoopTake == /\ pending = 0 /\ sm > 0
            /\ sm' = sm - 1 /\ delivered' = delivered + 1
            /\ UNCHANGED <<pending, vq, holding, spawned, dropped, probe>>
\* ... or answers the probe
LoopEval == /\ pending = 0 /\ probe = "asked"
            /\ probe' = "answered"
            /\ UNCHANGED <<pending, vq, holding, spawned, sm, delivered, dropped>>

Ask == /\ probe = "none" /\ probe' = "asked"
       /\ UNCHANGED <<pending, vq, holding, spawned, sm, delivered, dropped>>

WorkerTake == /\ vq > 0 /\ holding < W
              /\ vq' = vq - 1
              /\ IF Async THEN spawned' = spawned + 1 /\ UNCHANGED holding
                          ELSE holding' = holding + 1 /\ UNCHANGED spawned
              /\ UNCHANGED <<pending, sm, delivered, dropped, probe>>

WorkerSend == /\ holding > 0 /\ sm < S
              /\ holding' = holding - 1 /\ sm' = sm + 1
              /\ UNCHANGED <<pending, vq, spawned, delivered, dropped, probe>>

SpawnedSend == /\ spawned > 0 /\ sm < S
               /\ spawned' = spawned - 1 /\ sm' = sm + 1
               /\ UNCHANGED <<pending, vq, holding, delivered, dropped, probe>>

Next == LoopPush \/ LoopTake \/ LoopEval \/ Ask \/ WorkerTake \/ WorkerSend \/ SpawnedSend
Spec == Init /\ [][Next]_pvars /\ WF_pvars(LoopPush) /\ WF_pvars(LoopTake) /\ WF_pvars(LoopEval) /\ WF_pvars(Ask)
             /\ WF_pvars(WorkerTake) /\ WF_pvars(WorkerSend) /\ WF_pvars(SpawnedSend)

TypeOK == /\ pending \in 0..N /\ vq \in 0..Q /\ holding \in 0..W /\ spawned \in 0..N /\ sm \in 0..S
          /\ delivered + dropped + pending + vq + holding + spawned + sm = N
          /\ probe \in {"none", "asked", "answered"}

\* the event loop answers the probe, whatever the RPC carried
P_C12_Liveness_Pipe == <>(probe = "answered")
\* nothing is lost silently: every message is delivered or counted as dropped
P_C12_Accounted == <>[](delivered + dropped = N)
=============================================================================
