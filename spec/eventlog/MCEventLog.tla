---------------------------- MODULE MCEventLog ----------------------------
EXTENDS EventLog
MCPeers == {"p1", "p2"}
MCConsumers == {"c1", "c2"}
MCCtx == {"c1"}                          \* c1's context may be cancelled
\* one handler, both consumers on it (this is where the re-arm matters)
MC1Handlers == {"h1"}
MC1HandlerOf == [c1 |-> "h1", c2 |-> "h1"]
Calls33 == [c1 |-> 3, c2 |-> 3]
Calls22 == [c1 |-> 2, c2 |-> 2]
Calls11 == [c1 |-> 1, c2 |-> 1]
\* two handlers created/cancelled independently, one consumer each
MC2Handlers == {"h1", "h2"}
MC2HandlerOf == [c1 |-> "h1", c2 |-> "h2"]
=============================================================================
