SPECIFICATION Spec
CONSTANTS
  Peers <- MCPeers
  Handlers <- MC1Handlers
  Consumers <- MCConsumers
  HandlerOf <- MC1HandlerOf
  MaxRaw = 3
  MaxCalls <- Calls22
  CtxCancellable <- MCCtx
  HCancellable <- MC1Handlers
  Mon = TRUE
  History = FALSE
  Rearm = TRUE
  CoalesceOnEqual = FALSE
  SignalOnInsert = TRUE
  FirstSighting = TRUE
  SeedAtomic = FALSE
  RegisterInThunk = TRUE
INVARIANTS M_C18_Replay M_C18_Alternate M_C18_Elide
CHECK_DEADLOCK FALSE
