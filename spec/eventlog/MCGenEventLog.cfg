SPECIFICATION GSpec
CONSTANTS
  Peers <- GPeers
  Handlers <- GHandlers
  Consumers <- GConsumers
  HandlerOf <- GHandlerOf
  MaxRaw = 6
  MaxCalls <- GMaxCalls
  CtxCancellable <- GCtx
  HCancellable <- GHandlers
  Mon = FALSE
  History = FALSE
  Rearm = TRUE
  CoalesceOnEqual = FALSE
  SignalOnInsert = TRUE
  FirstSighting = TRUE
  SeedAtomic = TRUE
  RegisterInThunk = TRUE
  L = 5
  Lmin = 5
  Extras = FALSE
INVARIANT Emit
CHECK_DEADLOCK FALSE
