SPECIFICATION Spec
CONSTANTS
  Peers <- MCPeers
  Handlers <- MC1Handlers
  Consumers <- MCConsumers
  HandlerOf <- MC1HandlerOf
  MaxRaw = 6
  MaxCalls <- Calls33
  CtxCancellable <- MCCtx
  HCancellable <- MC1Handlers
  Mon = TRUE
  History = FALSE
  Rearm = TRUE
  CoalesceOnEqual = FALSE
  SignalOnInsert = TRUE
  FirstSighting = TRUE
  SeedAtomic = TRUE
  RegisterInThunk = TRUE
INVARIANTS TypeOK MutexOK M_C18_Replay M_C18_Alternate M_C18_Elide P_C18_LogShape P_C18_WakePending
CHECK_DEADLOCK FALSE
