---------------------------- MODULE GenEventLog ----------------------------
(* Scenario generator for C18.  It drives the mutex-grain model EventLog at the
   grain the Go driver can force on the REAL code:

   * producer steps (remote SUBSCRIBE / UNSUBSCRIBE / disconnect, handler
     creation and cancellation, context cancellation) happen one at a time, each
     followed by quiescence (synctest.Wait);
   * a consumer call runs by itself up to the select of NextPeerEvent.  In mode
     "step" the harness context parks it in ctx.Done(), i.e. exactly between the
     unlock after an empty pull and the select (label "wait" of the model), until
     the scenario says "go"; in mode "free" it enters the select at once and is
     woken by the library alone;
   * everything the library does on its own (notification of the handlers, the
     critical sections of woken consumers, the second half of a two-event RPC)
     is "urgent": it runs, in every possible order, before the next scenario step.

   Only the inputs are emitted (the env steps); what the real handlers return is
   judged by EventLogTrace.  Steps:
     join/leave p      a raw event (the driver picks the wire stimulus: SUBSCRIBE, reconnect+hello,
                       UNSUBSCRIBE, disconnect, closed inbound stream)
     resub/reunsub p   SUBSCRIBE from a member / UNSUBSCRIBE from a non-member: no raw event
     flap p            one RPC carrying two subscription options of p: Leave,Join or Join,Leave
     newh/cancelh h    Topic.EventHandler() / TopicEventHandler.Cancel()
     racenewh h p      EventHandler() in flight together with a raw event of p: the driver parks the event loop,
                       submits both, unparks; the library orders them (both orders are explored here)
     call c m          consumer c calls NextPeerEvent on its handler, mode m
     go c              release consumer c from ctx.Done() into the select
     cancel c          cancel consumer c's context                                   *)
EXTENDS EventLog, Json

CONSTANTS L,          \* largest number of scenario steps
          Lmin,       \* scenarios of Lmin..L steps are emitted
          Extras      \* BOOLEAN: also resub / reunsub / flap and free-mode calls

VARIABLES mode, released, flap2, rh, scn, nx, nr

gvars == <<mode, released, flap2, rh, scn, nx, nr>>
NoFlap == [t |-> "-", p |-> "-"]
Free(c) == mode[c] = "free" \/ released[c]

GInit == Init /\ mode = [c \in Consumers |-> "step"] /\ released = [c \in Consumers |-> FALSE]
         /\ flap2 = NoFlap /\ rh = "" /\ scn = <<>> /\ nx = 0 /\ nr = 0

Urgent == \/ ~Quiet \/ flap2 # NoFlap \/ rh # ""
          \/ \E c \in Consumers : pc[c] \in {"lock", "pull", "rearm"}
          \/ \E c \in Consumers : pc[c] = "wait" /\ Free(c) /\ (sig[H(c)] = 1 \/ ctxDone[c])

Internal ==
    \/ \E h \in Handlers : Notify(h) /\ UNCHANGED gvars
    \/ /\ flap2 # NoFlap /\ Quiet /\ Raw(flap2.t, flap2.p)
       /\ flap2' = NoFlap /\ UNCHANGED <<mode, released, rh, scn, nx, nr>>
    \/ /\ rh # "" /\ NewHandler(rh)           \* the EventHandler() call in flight takes effect (seed + register)
       /\ rh' = "" /\ UNCHANGED <<mode, released, flap2, scn, nx, nr>>
    \/ \E c \in Consumers : (Lock(c) \/ RearmStep(c)) /\ UNCHANGED gvars
    \/ \E c \in Consumers : /\ PullStep(c)
                            /\ released' = [released EXCEPT ![c] = IF pc'[c] = "wait" THEN FALSE ELSE @]
                            /\ UNCHANGED <<mode, flap2, rh, scn, nx, nr>>
    \/ \E c \in Consumers : pc[c] = "wait" /\ Free(c) /\ WaitStep(c) /\ UNCHANGED gvars

Step(a, p, h, c, m) == [a |-> a, p |-> p, h |-> h, c |-> c, m |-> m]
Rec(s) == scn' = Append(scn, s)
Same == UNCHANGED <<mode, released, flap2, rh, nx, nr>>

Env ==
    /\ ~Urgent /\ Len(scn) < L
    /\ \/ \E p \in Peers : RawJoin(p) /\ Rec(Step("join", p, "", "", "")) /\ Same
       \/ \E p \in Peers : RawLeave(p) /\ Rec(Step("leave", p, "", "", "")) /\ Same
       \/ \E h \in Handlers : NewHandler(h) /\ Rec(Step("newh", "", h, "", "")) /\ Same
       \/ \E h \in Handlers : CancelHandler(h) /\ Rec(Step("cancelh", "", h, "", "")) /\ Same
       \/ \E c \in Consumers, m \in (IF Extras THEN {"step", "free"} ELSE {"step"}) :
             /\ Call(c) /\ mode' = [mode EXCEPT ![c] = m] /\ released' = [released EXCEPT ![c] = FALSE]
             /\ Rec(Step("call", "", H(c), c, m)) /\ UNCHANGED <<flap2, rh, nx, nr>>
       \/ \E c \in Consumers :
             /\ pc[c] = "wait" /\ ~Free(c)
             /\ released' = [released EXCEPT ![c] = TRUE]
             /\ Rec(Step("go", "", "", c, "")) /\ UNCHANGED <<vars, mode, flap2, rh, nx, nr>>
       \/ \E c \in Consumers : CancelCtx(c) /\ Rec(Step("cancel", "", "", c, "")) /\ Same
       \/ \* handler creation racing with a membership change: both are in flight, the library orders them
          /\ Extras /\ nr < 1 /\ nraw < MaxRaw
          /\ \E h \in Handlers \ created, p \in Peers :
               /\ rh' = h /\ flap2' = [t |-> IF p \in members THEN "L" ELSE "J", p |-> p]
               /\ Rec(Step("racenewh", p, h, "", ""))
          /\ nr' = nr + 1 /\ UNCHANGED <<vars, mode, released, nx>>
       \/ /\ Extras /\ nx < 2 /\ nx' = nx + 1 /\ UNCHANGED <<rh, nr>>
          /\ \E p \in Peers :
               \/ /\ Rec(Step(IF p \in members THEN "resub" ELSE "reunsub", p, "", "", ""))
                  /\ UNCHANGED <<vars, mode, released, flap2>>
               \/ /\ nraw + 2 <= MaxRaw
                  /\ Raw(IF p \in members THEN "L" ELSE "J", p)
                  /\ flap2' = [t |-> IF p \in members THEN "J" ELSE "L", p |-> p]
                  /\ Rec(Step("flap", p, "", "", "")) /\ UNCHANGED <<mode, released>>

GNext == (Urgent /\ Internal) \/ Env
GSpec == GInit /\ [][GNext]_<<vars, gvars>>

Emit == (Len(scn) >= Lmin /\ Len(scn) <= L /\ ~Urgent) =>
          PrintT(<<"SCN", ToJson([handlerOf |-> HandlerOf, steps |-> scn])>>)
=============================================================================
