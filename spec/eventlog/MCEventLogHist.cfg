SPECIFICATION Spec
CONSTANTS
  Peers <- MCPeers
  Handlers <- MC1Handlers
  Consumers <- MCConsumers
  HandlerOf <- MC1HandlerOf
  MaxRaw = 4
  MaxCalls <- Calls22
  CtxCancellable <- MCCtx
  HCancellable <- MC1Handlers
  Mon = TRUE
  History = TRUE
  Rearm = TRUE
  CoalesceOnEqual = FALSE
  SignalOnInsert = TRUE
  FirstSighting = TRUE
  SeedAtomic = TRUE
  RegisterInThunk = TRUE
INVARIANTS TypeOK MutexOK P_C18_Replay P_C18_Alternate P_C18_Elide MonitorsFaithful M_C18_Replay M_C18_Alternate M_C18_Elide P_C18_LogShape P_C18_WakePending
CHECK_DEADLOCK FALSE
