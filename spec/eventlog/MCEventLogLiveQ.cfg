SPECIFICATION Spec
CONSTANTS
  Peers <- MCPeers
  Handlers <- MC1Handlers
  Consumers <- MCConsumers
  HandlerOf <- MC1HandlerOf
  MaxRaw = 4
  MaxCalls <- Calls22
  CtxCancellable <- MCCtx
  HCancellable <- MC1Handlers
  Mon = FALSE
  History = FALSE
  Rearm = TRUE
  CoalesceOnEqual = FALSE
  SignalOnInsert = TRUE
  FirstSighting = TRUE
  SeedAtomic = TRUE
  RegisterInThunk = TRUE
INVARIANTS TypeOK MutexOK P_C18_WakePending
PROPERTIES P_C18_NoLostWake P_C18_CancelReturns P_C18_PullReturns
CHECK_DEADLOCK FALSE
