SPECIFICATION TraceSpec
CONSTANT Peers = {"p1", "p2", "p3", "p4"}
CONSTRAINT Cons
POSTCONDITION Accepted
CHECK_DEADLOCK FALSE
