---------------------------- MODULE EventLogOps ----------------------------
(* Meaning of the coalescing peer-event log of a TopicEventHandler
   (topic.go: evtLog / evtLogCh, addToEventLog, pullFromEventLog, the re-arm
   in NextPeerEvent) as pure operators over values, plus the predicates of
   property C18 over returned sequences.  Shared by the mutex-grain model
   EventLog.tla (exhaustive model checking), by the scenario generator and by
   the trace specification EventLogTrace.tla (which applies them to what the
   REAL handlers returned).

   An event is a record [t |-> "J" | "L", p |-> peer].  A log is a total
   function Peers -> {"J", "L", "-"} ("-" = nothing pending for the peer);
   the wake-up channel evtLogCh (capacity 1) is a number in {0, 1}.

   The three switches describe the shape of the code; TRUE/FALSE/TRUE is
   the code at the pinned commit, the other values are the mutants the
   must-fail configurations use (non-vacuity).                            *)
EXTENDS Naturals, Sequences, FiniteSets

CONSTANTS Peers,
          Rearm,             \* NextPeerEvent re-arms the signal after a pull that leaves events behind
          CoalesceOnEqual,   \* addToEventLog deletes on EQUAL instead of OPPOSITE pending event (mutant)
          SignalOnInsert     \* addToEventLog signals when it inserts

None == "-"
Opp(t) == IF t = "J" THEN "L" ELSE "J"
Ev(t, p) == [t |-> t, p |-> p]

NoLog == [p \in Peers |-> None]
Pending(lg) == {p \in Peers : lg[p] # None}
\* EventHandler(): the log is seeded with a Join for every current member; no signal is sent
Seed(mem) == [p \in Peers |-> IF p \in mem THEN "J" ELSE None]

\* addToEventLog (topic.go:506): <<log', sig'>>
Add(lg, sg, t, p) ==
    IF lg[p] = None
      THEN <<[lg EXCEPT ![p] = t], IF SignalOnInsert THEN 1 ELSE sg>>
    ELSE IF (IF CoalesceOnEqual THEN lg[p] = t ELSE lg[p] # t)
      THEN <<[lg EXCEPT ![p] = None], sg>>
    ELSE <<lg, sg>>

\* pullFromEventLog for the peer the map iteration happens to yield, and the
\* re-arm that follows it inside the same critical section: <<log', sig'>>
Take(lg, p) == [lg EXCEPT ![p] = None]
RearmSig(lg, sg) == IF Rearm /\ Pending(lg) # {} THEN 1 ELSE sg
Pull(lg, sg, p) == <<Take(lg, p), RearmSig(Take(lg, p), sg)>>

---------------------------------------------------------------------------
(* predicates of C18 *)

\* the set obtained by applying a sequence of events, in order, to the empty set
Apply(s) ==
    LET f[i \in 0..Len(s)] ==
          IF i = 0 THEN {}
          ELSE IF s[i].t = "J" THEN f[i - 1] \cup {s[i].p} ELSE f[i - 1] \ {s[i].p}
    IN f[Len(s)]

Only(s, p) == SelectSeq(s, LAMBDA e : e.p = p)

\* P_C18_Alternate for one peer: Join, Leave, Join, ... starting with Join
Alternates(s, p) ==
    LET r == Only(s, p) IN
    \A i \in 1..Len(r) : r[i].t = (IF i % 2 = 1 THEN "J" ELSE "L")

AlternatesAll(s) == \A p \in Peers : Alternates(s, p)

\* P_C18_Elide for one peer.  h is the history of the handler restricted to
\* the peer: records [k |-> "raw" | "ret", t |-> "J" | "L"] in the order in
\* which the raw events were produced and the events were handed to consumers.
\* A raw event may cancel the LAST still-pending event when that is its
\* opposite (both pending, adjacent) or be queued behind it; a returned event
\* must be the OLDEST pending one.  The history is fine iff some sequence of
\* such choices explains it: nothing reordered, duplicated or half-delivered.
ElideStep(S, e) ==
    IF e.k = "raw"
      THEN UNION { {Append(pd, e.t)} \cup
                   (IF pd # <<>> /\ pd[Len(pd)] = Opp(e.t) THEN {SubSeq(pd, 1, Len(pd) - 1)} ELSE {})
                   : pd \in S }
      ELSE { Tail(pd) : pd \in {q \in S : q # <<>> /\ Head(q) = e.t} }

ElideReach(h) ==
    LET f[i \in 0..Len(h)] == IF i = 0 THEN {<<>>} ELSE ElideStep(f[i - 1], h[i]) IN f[Len(h)]

ElideOK(h, p) == ElideReach(SelectSeq(h, LAMBDA e : e.p = p)) # {}
=============================================================================
