--------------------------- MODULE EventLogTrace ---------------------------
(* Trace specification for C18.  harness/drivers/c18 records what REAL topic
   event handlers of a real node did; this module replays the file against the
   meaning of the event log (EventLogOps: coalescing Add, pull of ANY pending
   peer) and evaluates the predicates of C18 on the real returned events.

   Lines (all carry scn):
     reset   peers, mem                 scenario start; mem = topics[T] (ground truth)
     stim    a, ops:[{p, seq:[bool]}]   BEFORE a wire stimulus: per peer the subscription options about to be
                                        processed (TRUE = SUBSCRIBE, FALSE = UNSUBSCRIBE / disconnect / closed stream)
     step    a, mem, lp, nh             AFTER stimulus + settle: topics[T], Topic.ListPeers(), #registered handlers
     newh h / cancelh h                 EventHandler() returned / Cancel() returned
     newhcall h                         EventHandler() is about to be called concurrently with a stimulus (its newh line follows)
     call    id, c, h, ctx, mode        a consumer is about to call NextPeerEvent (mode step: parks in ctx.Done())
     go id                              a parked call is released into the select
     cancel ctx                         a context is cancelled
     ret     id, k:J|L|ctx|err, p       NextPeerEvent returned
     quiet   blocked, parked, mem, lp   after synctest.Wait(): calls in the select / parked in ctx.Done()
     end

   Raw events are NOT read from the implementation: they are derived from the
   announced subscription options by the rule of handleIncomingRPC /
   clearPeerFromTopicsState (Join only if the peer is not a member, Leave only
   if it is) and told to every registered handler with EventLogOps!Add; the
   resulting membership must equal the ground truth of the next step line.
   Between two lines the hidden steps (raw events of the stimulus in flight,
   pulls of running or woken consumers) may happen in any order: TLC searches
   the linearisations.  WHICH pending event a pull returns is a free choice
   (Go map iteration), the ret line then selects the branch.  The wake-up
   channel is not modelled; instead every quiet line requires that a call is
   blocked in the select only if its handler's log is empty in the model
   (a blocked consumer with events pending is a lost wake-up or a lost event).

   A failing predicate does not block the cursor silently: the transition
   records its name in viol and prints <<"VIOL", json>>; states with viol # {}
   are not extended (CONSTRAINT), so a scenario is accepted iff SOME
   linearisation reaches its end with no predicate failing.  The orchestrator
   reads the high-water mark of the cursor and the VIOL lines printed at it. *)
EXTENDS Naturals, Sequences, FiniteSets, TLC, Json

CONSTANT Peers

Trace == ndJsonDeserialize("trace.ndjson")

O == INSTANCE EventLogOps WITH Rearm <- TRUE, CoalesceOnEqual <- FALSE, SignalOnInsert <- TRUE

VARIABLES members,     \* model membership (derived from the stimuli)
          created, live,
          creating,    \* handlers whose EventHandler() call is in flight (between a newhcall and its newh line)
          log,         \* h |-> log (EventLogOps)
          returned,    \* h |-> events the REAL handler returned, in linearisation order
          applied,     \* h |-> Apply(returned[h]), kept incrementally (long scenarios)
          lastT,       \* h |-> peer |-> type of the last event returned for the peer ("-" = none)
          altBad,      \* h |-> some returned event repeated the previous type of its peer / a first event was a Leave
          empt,        \* h |-> real evidence that the real log is empty: a call was seen blocked in the select and nothing
                       \*       was produced for h since (a context error is NOT such evidence, see CCtx)
          calls,       \* id |-> [h, ctx, mode, pc, k, p]
          cctx,        \* cancelled contexts
          inflight,    \* subscription options announced by the last stim line and not yet processed
          viol, scn, base, l

tvars == <<members, created, live, creating, log, returned, applied, lastT, altBad, empt, calls, cctx, inflight, viol, scn, base, l>>
E == Trace[l]
More == l <= Len(Trace)
Adv == l' = l + 1
SetOf(s) == {s[i] : i \in DOMAIN s}
Ids(st) == {id \in DOMAIN calls : calls[id].pc = st}
Flying == \E i \in DOMAIN inflight : inflight[i].seq # <<>>
Flag(V) == IF V = {} THEN TRUE ELSE PrintT(<<"VIOL", ToJson([scn |-> scn, k |-> l - base, preds |-> V])>>)

TInit == /\ TLCSet(1, 0)
         /\ members = {} /\ created = {} /\ live = {} /\ creating = {} /\ log = <<>> /\ returned = <<>> /\ applied = <<>> /\ lastT = <<>> /\ altBad = <<>> /\ empt = <<>>
         /\ calls = <<>> /\ cctx = {} /\ inflight = <<>> /\ viol = {} /\ scn = 0 /\ base = 1 /\ l = 1

TReset ==
    /\ More /\ E.e = "reset"
    /\ members' = SetOf(E.mem) /\ created' = {} /\ live' = {} /\ creating' = {} /\ log' = <<>> /\ returned' = <<>> /\ applied' = <<>> /\ lastT' = <<>> /\ altBad' = <<>> /\ empt' = <<>>
    /\ calls' = <<>> /\ cctx' = {} /\ inflight' = <<>> /\ viol' = {} /\ scn' = E.scn /\ base' = l /\ Adv

---------------------------------------------------------------------------
(* producers *)
TStim ==
    /\ More /\ E.e = "stim" /\ ~Flying
    /\ inflight' = E.ops /\ Adv
    /\ UNCHANGED <<members, created, live, creating, log, returned, applied, lastT, altBad, empt, calls, cctx, viol, scn, base>>

\* the event loop processes the next subscription option of peer inflight[i].p
Tell(t, p) ==
    /\ log' = [h \in DOMAIN log |-> IF h \in live THEN O!Add(log[h], 0, t, p)[1] ELSE log[h]]
    /\ empt' = [h \in DOMAIN empt |-> IF h \in live THEN FALSE ELSE empt[h]]
TRaw(i) ==
    /\ inflight[i].seq # <<>>
    /\ LET p == inflight[i].p
           v == Head(inflight[i].seq) IN
       /\ p \in Peers
       /\ IF v /\ p \notin members THEN members' = members \cup {p} /\ Tell("J", p)
          ELSE IF ~v /\ p \in members THEN members' = members \ {p} /\ Tell("L", p)
          ELSE UNCHANGED <<members, log, empt>>
    /\ inflight' = [inflight EXCEPT ![i].seq = Tail(@)]
    /\ UNCHANGED <<created, live, creating, returned, applied, lastT, altBad, calls, cctx, viol, scn, base, l>>

\* the membership derived from the stimuli must be the ground truth (otherwise the scenario is not judged:
\* the orchestrator reports MODEL-DRIFT); disagreement of the second ground truth (Topic.ListPeers) with the
\* first, or of the number of registered handlers, is reported as information only
Info(W) == IF W = {} THEN TRUE ELSE PrintT(<<"INFO", ToJson([scn |-> scn, k |-> l - base, what |-> W])>>)
TStep ==
    /\ More /\ E.e = "step" /\ ~Flying
    /\ LET V == IF members # SetOf(E.mem) THEN {"GroundTruth"} ELSE {}
           W == (IF SetOf(E.lp) # SetOf(E.mem) THEN {"ListPeersDisagrees"} ELSE {})
                \cup (IF E.nh # Cardinality(live) THEN {"HandlerCount"} ELSE {}) IN
       viol' = V /\ Flag(V) /\ Info(W)
    /\ Adv /\ UNCHANGED <<members, created, live, creating, log, returned, applied, lastT, altBad, empt, calls, cctx, inflight, scn, base>>

\* EventHandler(): the log is seeded with the current members and the handler registered - one step as far as the
\* property can tell (whatever the loop does before it is in the seed, whatever it does after it is notified).
Create(h) ==
    /\ created' = created \cup {h} /\ live' = live \cup {h}
    /\ log' = log @@ (h :> O!Seed(members))
    /\ returned' = returned @@ (h :> <<>>)
    /\ applied' = applied @@ (h :> {}) /\ lastT' = lastT @@ (h :> O!NoLog) /\ altBad' = altBad @@ (h :> FALSE)
    /\ empt' = empt @@ (h :> (members = {}))

\* a call of EventHandler() made while other things are in flight (the driver parks the event loop, submits the
\* call and a membership change, unparks): it takes effect at some instant between its newhcall and newh lines
TNewHCall ==
    /\ More /\ E.e = "newhcall" /\ E.h \notin created /\ E.h \notin creating
    /\ creating' = creating \cup {E.h}
    /\ Adv /\ UNCHANGED <<members, created, live, log, returned, applied, lastT, altBad, empt, calls, cctx, inflight, viol, scn, base>>

CCreate(h) ==
    /\ h \in creating /\ h \notin created
    /\ Create(h)
    /\ UNCHANGED <<members, creating, calls, cctx, inflight, viol, scn, base, l>>

TNewH ==
    /\ More /\ E.e = "newh"
    /\ IF E.h \in creating
         THEN /\ E.h \in created /\ creating' = creating \ {E.h}
              /\ UNCHANGED <<created, live, log, returned, applied, lastT, altBad, empt>>
         ELSE /\ E.h \notin created /\ ~Flying        \* made at a quiescent point: takes effect here
              /\ Create(E.h) /\ UNCHANGED creating
    /\ Adv /\ UNCHANGED <<members, calls, cctx, inflight, viol, scn, base>>

TCancelH ==
    /\ More /\ E.e = "cancelh" /\ E.h \in live /\ ~Flying
    /\ live' = live \ {E.h}
    /\ Adv /\ UNCHANGED <<members, created, creating, log, returned, applied, lastT, altBad, empt, calls, cctx, inflight, viol, scn, base>>

---------------------------------------------------------------------------
(* consumers *)
TCall ==
    /\ More /\ E.e = "call" /\ E.id \notin DOMAIN calls /\ E.h \in created
    /\ calls' = calls @@ (E.id :> [h |-> E.h, ctx |-> E.ctx, mode |-> E.mode, pc |-> "run", k |-> "", p |-> ""])
    /\ Adv /\ UNCHANGED <<members, created, live, creating, log, returned, applied, lastT, altBad, empt, cctx, inflight, viol, scn, base>>

\* the real handler h handed out event (t, p): history and monitors
Hand(h, t, p) ==
    /\ returned' = [returned EXCEPT ![h] = Append(@, O!Ev(t, p))]
    /\ applied' = [applied EXCEPT ![h] = IF t = "J" THEN @ \cup {p} ELSE @ \ {p}]
    /\ lastT' = [lastT EXCEPT ![h][p] = t]
    /\ altBad' = [altBad EXCEPT ![h] = @ \/ t = lastT[h][p] \/ (lastT[h][p] = "-" /\ t = "L")]

Rest(id) == IF calls[id].mode = "step" THEN "parked" ELSE "wait"

\* Lock; pull; (re-arm); Unlock of a call that is running or was woken: any pending peer
CPull(id) ==
    /\ calls[id].pc \in {"run", "wait"}
    /\ LET h == calls[id].h IN
       \E p \in O!Pending(log[h]) :
         /\ log' = [log EXCEPT ![h] = O!Take(@, p)]
         /\ Hand(h, log[h][p], p)
         /\ calls' = [calls EXCEPT ![id].pc = "lin", ![id].k = log[h][p], ![id].p = p]
    /\ UNCHANGED <<members, created, live, creating, empt, cctx, inflight, viol, scn, base, l>>

\* the pull found nothing (or the call was woken for nothing): on to ctx.Done() / the select.
\* Not conditioned on the model log: if the real log was empty although events are pending in
\* the model, the next quiet line says so.
CRest(id) ==
    /\ \/ calls[id].pc = "run"
       \/ calls[id].pc = "wait" /\ calls[id].mode = "step"     \* woken for nothing: parks again
    /\ calls' = [calls EXCEPT ![id].pc = Rest(id)]
    /\ UNCHANGED <<members, created, live, creating, log, returned, applied, lastT, altBad, empt, cctx, inflight, viol, scn, base, l>>

\* the call returns the context error.  Allowed whenever its context is cancelled, whatever the model log
\* holds and whether or not the call has looked at the log yet: the property does not exclude an implementation
\* that checks the context first.  Nothing is pulled in this step; so if the REAL call did remove an event and
\* swallowed it, the event stays pending in the model and the loss shows where the property says it must: a later
\* Leave without its Join (P_C18_Alternate / P_C18_Elide at a ret line) or a drained handler whose stream does not
\* rebuild the peer set (P_C18_Replay at a quiet line; the driver's epilogue drains every handler).
CCtx(id) ==
    /\ calls[id].pc \in {"run", "wait"} /\ calls[id].ctx \in cctx
    /\ calls' = [calls EXCEPT ![id].pc = "lin", ![id].k = "ctx", ![id].p = ""]
    /\ UNCHANGED <<members, created, live, creating, log, returned, applied, lastT, altBad, empt, cctx, inflight, viol, scn, base, l>>

TGo ==
    /\ More /\ E.e = "go" /\ E.id \in DOMAIN calls /\ calls[E.id].pc = "parked"
    /\ calls' = [calls EXCEPT ![E.id].pc = "wait"]
    /\ Adv /\ UNCHANGED <<members, created, live, creating, log, returned, applied, lastT, altBad, empt, cctx, inflight, viol, scn, base>>

TCancel ==
    /\ More /\ E.e = "cancel"
    /\ cctx' = cctx \cup {E.ctx}
    /\ Adv /\ UNCHANGED <<members, created, live, creating, log, returned, applied, lastT, altBad, empt, calls, inflight, viol, scn, base>>

Drop(id) == [i \in DOMAIN calls \ {id} |-> calls[i]]

TRet ==
    /\ More /\ E.e = "ret" /\ E.id \in DOMAIN calls
    /\ LET c == calls[E.id] IN
       \/ \* explained: the model handed out exactly this
          /\ c.pc = "lin" /\ c.k = E.k /\ c.p = E.p
          /\ calls' = Drop(E.id)
          /\ UNCHANGED <<returned, applied, lastT, altBad, empt, viol>>
       \/ \* an event that is not pending in the model: name the predicate it breaks
          /\ c.pc \in {"run", "wait"} /\ E.k \in {"J", "L"}
          /\ E.p \notin Peers \/ log[c.h][E.p] # E.k
          /\ LET s == Append(returned[c.h], O!Ev(E.k, E.p))
                 V == IF E.p \in Peers /\ ~O!Alternates(s, E.p) THEN {"P_C18_Alternate"} ELSE {"P_C18_Elide"} IN
             /\ returned' = [returned EXCEPT ![c.h] = s]
             /\ viol' = V /\ Flag(V)
          /\ calls' = Drop(E.id) /\ UNCHANGED <<applied, lastT, altBad, empt>>
       \/ \* neither an event nor the context error, or the context error although the context was never cancelled
          /\ E.k = "err" \/ (E.k = "ctx" /\ c.ctx \notin cctx)
          /\ viol' = {"P_C18_UnexpectedError"} /\ Flag({"P_C18_UnexpectedError"})
          /\ calls' = Drop(E.id) /\ UNCHANGED <<returned, applied, lastT, altBad, empt>>
    /\ Adv /\ UNCHANGED <<members, created, live, creating, log, cctx, inflight, scn, base>>

---------------------------------------------------------------------------
(* quiescence: the predicates of C18 on the real observations *)
Short == 24
Applied(h) == IF Len(returned[h]) <= Short THEN O!Apply(returned[h]) ELSE applied[h]
AltOK(h) == IF Len(returned[h]) <= Short THEN O!AlternatesAll(returned[h]) ELSE ~altBad[h]
Literal(h) == Len(returned[h]) <= Short => (O!Apply(returned[h]) = applied[h] /\ O!AlternatesAll(returned[h]) = ~altBad[h])
TQuiet ==
    /\ More /\ E.e = "quiet" /\ ~Flying /\ creating = {}
    /\ \A id \in DOMAIN calls : calls[id].pc \in {"wait", "parked"}
    /\ Ids("parked") = SetOf(E.parked) /\ Ids("wait") = SetOf(E.blocked)
    /\ LET truth == SetOf(E.mem)
           blockedOn(h) == \E id \in Ids("wait") : calls[id].h = h
           empt2 == [h \in DOMAIN empt |-> empt[h] \/ blockedOn(h)]
           V == (IF \E h \in live : blockedOn(h) /\ O!Pending(log[h]) # {} THEN {"P_C18_NoLostWake"} ELSE {})
                \cup (IF \E id \in Ids("wait") : calls[id].ctx \in cctx THEN {"P_C18_CancelReturns"} ELSE {})
                \* P_C18_Replay / P_C18_Alternate on what the real handlers returned.  Up to Short events the predicates are
                \* evaluated literally on the sequence (Apply, AlternatesAll); beyond that through the incremental
                \* monitors applied / altBad (same values: MonitorsFaithful of MCEventLogHist, and Literal below)
                \cup (IF \E h \in live : empt2[h] /\ Applied(h) # truth THEN {"P_C18_Replay"} ELSE {})
                \cup (IF \E h \in live : empt2[h] /\ Applied(h) # SetOf(E.lp) THEN {"P_C18_Replay_ListPeers"} ELSE {})
                \cup (IF \E h \in created : ~AltOK(h) THEN {"P_C18_Alternate"} ELSE {})
                \cup (IF \E h \in created : ~Literal(h) THEN {"MonitorMismatch"} ELSE {})
                \cup (IF members # truth THEN {"GroundTruth"} ELSE {}) IN
       /\ viol' = V /\ Flag(V)
       /\ empt' = empt2
    /\ Adv /\ UNCHANGED <<members, created, live, creating, log, returned, applied, lastT, altBad, calls, cctx, inflight, scn, base>>

TEnd ==
    /\ More /\ E.e = "end"
    /\ Adv /\ UNCHANGED <<members, created, live, creating, log, returned, applied, lastT, altBad, empt, calls, cctx, inflight, viol, scn, base>>

TNext == \/ TReset \/ TStim \/ TStep \/ TNewH \/ TCancelH \/ TCall \/ TGo \/ TCancel \/ TRet \/ TQuiet \/ TEnd
         \/ TNewHCall \/ (\E h \in creating : CCreate(h))
         \/ \E i \in DOMAIN inflight : TRaw(i)
         \/ \E id \in DOMAIN calls : CPull(id) \/ CRest(id) \/ CCtx(id)

TraceSpec == TInit /\ [][TNext]_tvars

\* high-water mark of the cursor over states in which no predicate has failed (needs -workers 1)
HW == IF TLCGet(1) < l THEN TLCSet(1, l) ELSE TRUE
Cons == viol = {} /\ HW
Accepted == PrintT(<<"HW", TLCGet(1), Len(Trace) + 1>>)
=============================================================================
