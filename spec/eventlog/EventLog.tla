----------------------------- MODULE EventLog -----------------------------
(* The peer-event stream of a topic (property C18) at mutex grain.

   Code modelled (go-libp2p-pubsub, pinned commit):
     pubsub.go  handleIncomingRPC      join notification only on first sighting of a SUBSCRIBE,
                                       leave notification only when the peer was present
                clearPeerFromTopicsState / notifyLeave   (disconnect, closed inbound stream)
     topic.go   Topic.EventHandler     seeds the log with Join for the current members INSIDE the
                                       event loop, atomically with the registration
                Topic.sendNotification for every registered handler: Lock; addToEventLog; Unlock
                addToEventLog          coalesces opposite events, signals on insert
                NextPeerEvent          for { Lock; pull; if ok { re-arm; Unlock; return }; Unlock;
                                             select { <-evtLogCh: continue; <-ctx.Done(): return } }
                TopicEventHandler.Cancel   unregisters the handler

   members       ground truth: what topics[t] holds
   log[h]        evtLog of handler h (peer |-> "J" / "L" / "-")
   sig[h]        evtLogCh, the capacity-1 wake-up channel, 0 or 1
   mu[h]         holder of evtLogMx
   evq           the notification the event loop is in the middle of: event and the
                 handlers still to be told (sendNotification iterates the handler set)
   pc[c]         consumer c: idle -> lock -> pull -> rearm -> idle      (an event is returned)
                                          pull -> wait -> lock ...     (log empty: unlock, select)
                                                  wait -> idle          (context done)
   returned[h]   events handed out by handler h, in the order in which they left the log
   hist[h]       raw events told to h and events returned by h, interleaved (history)

   Switches (EventLogOps has three more): FirstSighting = FALSE sends PeerJoin on every
   SUBSCRIBE; SeedAtomic = FALSE takes the membership snapshot for seeding outside the
   event loop; RegisterInThunk = FALSE seeds inside the loop but registers the handler
   afterwards from the caller.  All switches TRUE (CoalesceOnEqual FALSE) is the code as it is. *)
EXTENDS Naturals, Sequences, FiniteSets, TLC

CONSTANTS Peers, Handlers, Consumers,
          HandlerOf,        \* [Consumers -> Handlers]: the handler a consumer calls NextPeerEvent on
          MaxRaw,           \* bound on the number of raw events
          MaxCalls,         \* [Consumers -> Nat]: bound on the number of calls of a consumer
          CtxCancellable,   \* consumers whose context may be cancelled (one context per consumer)
          HCancellable,     \* handlers that may be cancelled
          Mon,              \* maintain the constant-size monitors applied/lastRet/altBad/er
          History,          \* maintain the full sequences returned/hist (small configurations only)
          Rearm, CoalesceOnEqual, SignalOnInsert, FirstSighting, SeedAtomic, RegisterInThunk

VARIABLES members, created, live, frozen, log, sig, mu, evq, snap,
          pc, ctxDone, ncalls, nraw,
          applied, lastRet, altBad, er,      \* monitors (see below)
          returned, hist                     \* full history

O == INSTANCE EventLogOps

vars == <<members, created, live, frozen, log, sig, mu, evq, snap, pc, ctxDone, ncalls, nraw,
          applied, lastRet, altBad, er, returned, hist>>
mon == <<applied, lastRet, altBad, er>>

Idle == [t |-> "-", p |-> "-", hs |-> {}]
NoSnap == [has |-> FALSE, mem |-> {}]
H(c) == HandlerOf[c]
Quiet == evq.hs = {}

RECURSIVE SeedSeq(_)
SeedSeq(S) == IF S = {} THEN <<>>
              ELSE LET p == CHOOSE x \in S : TRUE IN <<[k |-> "raw", t |-> "J", p |-> p]>> \o SeedSeq(S \ {p})

Init ==
    /\ members = {} /\ created = {} /\ live = {}
    /\ frozen = [h \in Handlers |-> {}]
    /\ log = [h \in Handlers |-> O!NoLog] /\ sig = [h \in Handlers |-> 0]
    /\ mu = [h \in Handlers |-> "none"] /\ evq = Idle
    /\ snap = [h \in Handlers |-> NoSnap]
    /\ pc = [c \in Consumers |-> "idle"] /\ ctxDone = [c \in Consumers |-> FALSE]
    /\ ncalls = [c \in Consumers |-> 0] /\ nraw = 0
    /\ returned = [h \in Handlers |-> <<>>] /\ hist = [h \in Handlers |-> <<>>]
    /\ applied = [h \in Handlers |-> {}] /\ lastRet = [h \in Handlers |-> O!NoLog] /\ altBad = FALSE
    /\ er = [h \in Handlers |-> [p \in Peers |-> {<<>>}]]

---------------------------------------------------------------------------
(* the event loop: producers *)

\* handleIncomingRPC / clearPeerFromTopicsState: the membership changes and the
\* notification of the registered handlers starts (handlers are told one by one)
Raw(t, p) ==
    /\ nraw < MaxRaw /\ Quiet
    /\ IF FirstSighting THEN (t = "J") <=> (p \notin members)
                        ELSE (t = "L") => (p \in members)       \* mutant: PeerJoin on every SUBSCRIBE
    /\ members' = IF t = "J" THEN members \cup {p} ELSE members \ {p}
    /\ evq' = IF live = {} THEN Idle ELSE [t |-> t, p |-> p, hs |-> live]
    /\ hist' = IF History
                 THEN [h \in Handlers |-> IF h \in live THEN Append(hist[h], [k |-> "raw", t |-> t, p |-> p]) ELSE hist[h]]
                 ELSE hist
    /\ er' = IF Mon
               THEN [h \in Handlers |-> IF h \in live THEN [er[h] EXCEPT ![p] = O!ElideStep(@, [k |-> "raw", t |-> t])] ELSE er[h]]
               ELSE er
    /\ nraw' = nraw + 1
    /\ UNCHANGED <<created, live, frozen, log, sig, mu, snap, pc, ctxDone, ncalls, returned, applied, lastRet, altBad>>

RawJoin(p) == Raw("J", p)
RawLeave(p) == Raw("L", p)

\* TopicEventHandler.sendNotification: Lock; addToEventLog; Unlock
Notify(h) ==
    /\ h \in evq.hs /\ mu[h] = "none"
    /\ LET r == O!Add(log[h], sig[h], evq.t, evq.p) IN
         /\ log' = [log EXCEPT ![h] = r[1]]
         /\ sig' = [sig EXCEPT ![h] = r[2]]
    /\ evq' = IF evq.hs = {h} THEN Idle ELSE [evq EXCEPT !.hs = @ \ {h}]
    /\ UNCHANGED <<members, created, live, frozen, mu, snap, pc, ctxDone, ncalls, nraw, returned, hist, mon>>

Register(h, mem) ==
    /\ created' = created \cup {h} /\ live' = live \cup {h}
    /\ log' = [log EXCEPT ![h] = O!Seed(mem)]
    /\ hist' = IF History THEN [hist EXCEPT ![h] = SeedSeq(mem)] ELSE hist
    /\ er' = IF Mon THEN [er EXCEPT ![h] = [p \in Peers |-> IF p \in mem THEN {<<"J">>} ELSE {<<>>}]] ELSE er
    /\ UNCHANGED <<applied, lastRet, altBad>>

\* Topic.EventHandler: the closure evaluated by the event loop seeds and registers at once
NewHandler(h) ==
    /\ SeedAtomic /\ RegisterInThunk /\ h \notin created /\ Quiet
    /\ Register(h, members)
    /\ UNCHANGED <<members, frozen, sig, mu, evq, snap, pc, ctxDone, ncalls, nraw, returned>>

\* mutants: the membership is read outside the event loop (SeedAtomic = FALSE: at any instant), or it is read
\* - and the log seeded - by the thunk inside the loop but the handler enters the handler set only afterwards,
\* from the calling goroutine (RegisterInThunk = FALSE).  Either way what the loop does between the two steps
\* never reaches the handler; the log of a handler that is not registered yet is invisible, so both are the
\* same pair of steps and differ only in when the first may happen.
SnapMembers(h) ==
    /\ ~SeedAtomic \/ (~RegisterInThunk /\ Quiet)
    /\ h \notin created /\ ~snap[h].has
    /\ snap' = [snap EXCEPT ![h] = [has |-> TRUE, mem |-> members]]
    /\ UNCHANGED <<members, created, live, frozen, log, sig, mu, evq, pc, ctxDone, ncalls, nraw, returned, hist, mon>>
RegisterLate(h) ==      \* needs the handler-set write lock: never in the middle of a notification
    /\ ~SeedAtomic \/ ~RegisterInThunk
    /\ h \notin created /\ snap[h].has /\ Quiet
    /\ Register(h, snap[h].mem)
    /\ UNCHANGED <<members, frozen, sig, mu, evq, snap, pc, ctxDone, ncalls, nraw, returned>>

\* TopicEventHandler.Cancel: needs the handler-set write lock, so never in the middle of a notification
CancelHandler(h) ==
    /\ h \in live /\ h \in HCancellable /\ Quiet
    /\ live' = live \ {h}
    /\ frozen' = [frozen EXCEPT ![h] = members]
    /\ UNCHANGED <<members, created, log, sig, mu, evq, snap, pc, ctxDone, ncalls, nraw, returned, hist, mon>>

---------------------------------------------------------------------------
(* consumers: NextPeerEvent(ctx) *)
Goto(c, l) == pc' = [pc EXCEPT ![c] = l]

Call(c) ==
    /\ pc[c] = "idle" /\ H(c) \in created /\ ncalls[c] < MaxCalls[c]
    /\ Goto(c, "lock") /\ ncalls' = [ncalls EXCEPT ![c] = @ + 1]
    /\ UNCHANGED <<members, created, live, frozen, log, sig, mu, evq, snap, ctxDone, nraw, returned, hist, mon>>

Lock(c) ==      \* t.evtLogMx.Lock()
    /\ pc[c] = "lock" /\ mu[H(c)] = "none"
    /\ mu' = [mu EXCEPT ![H(c)] = c] /\ Goto(c, "pull")
    /\ UNCHANGED <<members, created, live, frozen, log, sig, evq, snap, ctxDone, ncalls, nraw, returned, hist, mon>>

PullStep(c) ==  \* evt, ok := t.pullFromEventLog(); !ok: Unlock and go to the select
    /\ pc[c] = "pull"
    /\ LET h == H(c) IN
       IF O!Pending(log[h]) = {}
         THEN /\ mu' = [mu EXCEPT ![h] = "none"] /\ Goto(c, "wait")
              /\ UNCHANGED <<log, returned, hist, mon>>
         ELSE \E p \in O!Pending(log[h]) :       \* Go map iteration: any pending peer
              /\ log' = [log EXCEPT ![h] = O!Take(@, p)]
              /\ IF Mon
                   THEN LET t == log[h][p] IN
                        /\ applied' = [applied EXCEPT ![h] = IF t = "J" THEN @ \cup {p} ELSE @ \ {p}]
                        /\ lastRet' = [lastRet EXCEPT ![h][p] = t]
                        /\ altBad' = (altBad \/ t = lastRet[h][p] \/ (lastRet[h][p] = "-" /\ t # "J"))
                        /\ er' = [er EXCEPT ![h][p] = O!ElideStep(@, [k |-> "ret", t |-> t])]
                   ELSE UNCHANGED mon
              /\ returned' = IF History THEN [returned EXCEPT ![h] = Append(@, O!Ev(log[h][p], p))] ELSE returned
              /\ hist' = IF History THEN [hist EXCEPT ![h] = Append(@, [k |-> "ret", t |-> log[h][p], p |-> p])] ELSE hist
              /\ Goto(c, "rearm") /\ UNCHANGED mu
    /\ UNCHANGED <<members, created, live, frozen, sig, evq, snap, ctxDone, ncalls, nraw>>

RearmStep(c) == \* if len(evtLog) > 0 { non-blocking send }; Unlock; return evt
    /\ pc[c] = "rearm"
    /\ sig' = [sig EXCEPT ![H(c)] = O!RearmSig(log[H(c)], @)]
    /\ mu' = [mu EXCEPT ![H(c)] = "none"] /\ Goto(c, "idle")
    /\ UNCHANGED <<members, created, live, frozen, log, evq, snap, ctxDone, ncalls, nraw, returned, hist, mon>>

WaitStep(c) ==  \* select { case <-t.evtLogCh: continue; case <-ctx.Done(): return ctx.Err() }
    /\ pc[c] = "wait"
    /\ \/ sig[H(c)] = 1 /\ sig' = [sig EXCEPT ![H(c)] = 0] /\ Goto(c, "lock")
       \/ ctxDone[c] /\ Goto(c, "idle") /\ UNCHANGED sig
    /\ UNCHANGED <<members, created, live, frozen, log, mu, evq, snap, ctxDone, ncalls, nraw, returned, hist, mon>>

CancelCtx(c) ==
    /\ c \in CtxCancellable /\ ~ctxDone[c]
    /\ ctxDone' = [ctxDone EXCEPT ![c] = TRUE]
    /\ UNCHANGED <<members, created, live, frozen, log, sig, mu, evq, snap, pc, ncalls, nraw, returned, hist, mon>>

ConsumerStep(c) == Lock(c) \/ PullStep(c) \/ RearmStep(c) \/ WaitStep(c)

Next == \/ \E p \in Peers : RawJoin(p) \/ RawLeave(p)
        \/ \E h \in Handlers : Notify(h) \/ NewHandler(h) \/ SnapMembers(h) \/ RegisterLate(h) \/ CancelHandler(h)
        \/ \E c \in Consumers : Call(c) \/ ConsumerStep(c) \/ CancelCtx(c)

Fairness == /\ \A c \in Consumers : WF_vars(ConsumerStep(c))
            /\ \A h \in Handlers : WF_vars(Notify(h))

Spec == Init /\ [][Next]_vars /\ Fairness

---------------------------------------------------------------------------
(* properties *)
TypeOK ==
    /\ members \subseteq Peers /\ live \subseteq created /\ created \subseteq Handlers
    /\ \A h \in Handlers : sig[h] \in {0, 1} /\ mu[h] \in Consumers \cup {"none"}
    /\ \A h \in Handlers : \A p \in Peers : log[h][p] \in {"J", "L", "-"}
    /\ \A c \in Consumers : pc[c] \in {"idle", "lock", "pull", "rearm", "wait"}

MutexOK == \A c \in Consumers : (pc[c] \in {"pull", "rearm"}) <=> (mu[H(c)] = c)

Truth(h) == IF h \in live THEN members ELSE frozen[h]
Drained(h) == O!Pending(log[h]) = {}

\* once the network is quiet and the handler drained, the returned events rebuild the peer set
\* (for a cancelled handler: the peer set at the instant it was cancelled)
P_C18_Replay == \A h \in created : (Quiet /\ Drained(h)) => O!Apply(returned[h]) = Truth(h)

\* per peer: Join, Leave, Join, ... starting with Join
P_C18_Alternate == \A h \in Handlers : O!AlternatesAll(returned[h])

\* the returned sequence is the raw sequence minus adjacent Join/Leave pairs that were both pending
P_C18_Elide == \A h \in Handlers : \A p \in Peers : O!ElideOK(hist[h], p)

\* the same three through the constant-size monitors (what the large configurations check):
\*   applied[h]  = Apply(returned[h]), lastRet[h][p] = type of the last event returned for p,
\*   altBad      = some returned event repeated the previous type for its peer or a first event was a Leave,
\*   er[h][p]    = ElideReach of the history of (h, p)
M_C18_Replay == \A h \in created : (Quiet /\ Drained(h)) => applied[h] = Truth(h)
M_C18_Alternate == ~altBad
M_C18_Elide == \A h \in Handlers : \A p \in Peers : er[h][p] # {}
\* ... and the monitors say what the sequences say (checked where both are maintained)
MonitorsFaithful ==
    /\ \A h \in Handlers : applied[h] = O!Apply(returned[h])
    /\ altBad <=> ~P_C18_Alternate
    /\ \A h \in Handlers : \A p \in Peers : er[h][p] = O!ElideReach(SelectSeq(hist[h], LAMBDA e : e.p = p))

\* what the log may hold: a pending Join only for a member, a pending Leave only for a non-member
P_C18_LogShape == \A h \in live : Quiet => \A p \in Peers :
                      /\ log[h][p] = "J" => p \in members
                      /\ log[h][p] = "L" => p \notin members

Active(h) == \E c \in Consumers : H(c) = h /\ pc[c] \in {"lock", "pull", "rearm"}
\* safety form of "no lost wake-up": events pending and somebody in the select => a signal is
\* available or somebody is on the way to the log (and will re-arm)
P_C18_WakePending == \A c \in Consumers :
    (pc[c] = "wait" /\ ~Drained(H(c))) => (sig[H(c)] = 1 \/ Active(H(c)))

\* liveness (weak fairness of consumer steps and of the notification loop)
P_C18_NoLostWake == \A c \in Consumers :
    (pc[c] = "wait" /\ ~Drained(H(c))) ~> (pc[c] # "wait" \/ Drained(H(c)))
P_C18_CancelReturns == \A c \in Consumers : (pc[c] = "wait" /\ ctxDone[c]) ~> (pc[c] # "wait")
\* a consumer that found the log non-empty returns
P_C18_PullReturns == \A c \in Consumers : (pc[c] \in {"lock", "pull", "rearm"}) ~> (pc[c] \in {"idle", "wait"})
=============================================================================
