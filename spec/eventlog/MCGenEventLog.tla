--------------------------- MODULE MCGenEventLog ---------------------------
EXTENDS GenEventLog
GPeers == {"p1", "p2"}
GHandlers == {"h1"}
GConsumers == {"c1", "c2"}
GHandlerOf == [c1 |-> "h1", c2 |-> "h1"]
GMaxCalls == [c1 |-> 3, c2 |-> 3]
GCtx == {"c1"}
\* long random scenarios: two handlers, three consumers (two on h1)
G2Handlers == {"h1", "h2"}
G2Consumers == {"c1", "c2", "c3"}
G2HandlerOf == [c1 |-> "h1", c2 |-> "h1", c3 |-> "h2"]
G2MaxCalls == [c1 |-> 6, c2 |-> 6, c3 |-> 6]
G2Ctx == {"c1", "c3"}
=============================================================================
