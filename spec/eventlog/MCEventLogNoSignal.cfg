SPECIFICATION Spec
CONSTANTS
  Peers <- MCPeers
  Handlers <- MC1Handlers
  Consumers <- MCConsumers
  HandlerOf <- MC1HandlerOf
  MaxRaw = 2
  MaxCalls <- Calls11
  CtxCancellable <- MCCtx
  HCancellable <- MC1Handlers
  Mon = FALSE
  History = FALSE
  Rearm = TRUE
  CoalesceOnEqual = FALSE
  SignalOnInsert = FALSE
  FirstSighting = TRUE
  SeedAtomic = TRUE
  RegisterInThunk = TRUE
PROPERTIES P_C18_NoLostWake P_C18_CancelReturns P_C18_PullReturns
CHECK_DEADLOCK FALSE
