-------------------------- MODULE GaterParamsTrace --------------------------
(* judges the observations of TestX01Params: one line per vector
   {"v":{field:value},"validate":bool,"gossipsub":bool,"hasGater":bool,"floodsub":bool} *)
EXTENDS GaterParams

Trace == ndJsonDeserialize("trace.ndjson")
VARIABLE l
Fail(e) ==
    IF e.validate # InDomain(e.v)
      THEN LET off == {f \in DOMAIN e.v : e.v[f] # Base[f]}
               nan == {f \in off : e.v[f] = "NaN"} IN
           <<"P_X01g_Domain", IF e.validate THEN (IF nan # {} /\ InDomain([f \in DOMAIN e.v |-> IF f \in nan THEN Base[f] ELSE e.v[f]]) THEN "nan-accepted" ELSE "accepted-outside-domain")
                              ELSE "refused-inside-domain", off>>
    ELSE IF e.gossipsub # e.validate THEN <<"P_X01g_Option", "gossipsub-option-differs-from-validate", {}>>
    ELSE IF e.gossipsub /\ ~e.hasGater THEN <<"P_X01g_Option", "no-gater-installed", {}>>
    ELSE IF e.floodsub THEN <<"P_X01g_Option", "accepted-on-floodsub", {}>>
    ELSE <<>>
TInit == l = 1 /\ done = FALSE /\ TLCSet(1, 0)
TNext == /\ l <= Len(Trace)
         /\ LET f == Fail(Trace[l]) IN (f # <<>> => PrintT(<<"VIOL", ToJson([line |-> l, f |-> f, v |-> Trace[l].v])>>))
         /\ l' = l + 1 /\ UNCHANGED done
TraceSpec == TInit /\ [][TNext]_<<l, done>>
HW == IF TLCGet(1) < l THEN TLCSet(1, l) ELSE TRUE
Accepted == PrintT(<<"HW", TLCGet(1), Len(Trace) + 1>>)
=============================================================================
