------------------------------- MODULE Gater -------------------------------
(* X01 - the gossipsub peer gater (peer_gater.go): reactive validation-queue
   management by Random Early Drop.

   PROPERTIES (machine readable copy: properties_x.json)

   X01.a  Verdict.  The gater answers AcceptAll or AcceptControl, never AcceptNone.  It
          answers AcceptAll - deterministically - whenever (i) no validation throttle event
          happened within the last Quiet interval (strictly more than Quiet ago, or never),
          or (ii) the decayed throttle counter is 0, or (iii) the validate counter is non
          zero and throttle/validate < Threshold, or (iv) the IP of the peer has no recorded
          history (weighted total 0).  At router level a direct peer is always AcceptAll and a
          peer whose score is below the graylist threshold is AcceptNone before the gater is asked.
   X01.b  Random early drop, exactly.  In every other case, with u the uniform draw of the
          decision, the answer is AcceptAll iff u < (1 + deliver) / (1 + total), where
          total = deliver + DuplicateWeight*duplicate + IgnoreWeight*ignore + RejectWeight*reject
          are the counters of the peer's IP; otherwise AcceptControl.  Corollaries: an IP
          with deliveries only is never throttled; every peer always keeps a non zero chance;
          more deliveries never lower and more duplicates/ignores/rejects never raise the chance.
   X01.c  Counters are an exact function of the history of tracer events: validate += 1 per
          message entering validation; throttle += 1 and lastThrottle := now per reject with reason
          "validation queue full" / "validation throttled" (no peer is charged); deliver +=
          TopicDeliveryWeights[topic] (1 if absent or 0); duplicate += 1; ignore += 1 for
          "validation ignored"; reject += 1 for every other reason.  Every DecayInterval the
          global counters are multiplied by GlobalDecay and the counters of every IP that has a
          connected peer by SourceDecay; a value that falls below DecayToZero becomes 0.
   X01.d  One history per IP.  All peers that share an IP share ONE stats object: an event
          charged to one of them changes the chance of all of them and of nobody else.
   X01.e  Retention without leak.  While some peer of an IP has an outbound stream the IP's
          stats are kept and decay.  When the last one closes they are frozen (no decay) and
          kept for RetainStats: a peer of that IP that returns before the first decay tick
          strictly after the expiry finds them, a later one starts from zero.  A peer that
          has no stream left has no peerStats entry, and no entry outlives the IP record it
          points to.  (Known deviations of the pinned code: D14 late verdict, X01-F1 close
          of a peer whose IP record still counts another peer, X01-F2 unmatched outbound close.)
   X01.f  A throttled RPC loses only its payload.  When the router answers AcceptControl for
          an incoming RPC, its subscriptions and control messages are processed exactly as
          under AcceptAll, none of its publications enters validation (no Validate / Deliver /
          Reject / Duplicate event, not marked seen) and ThrottlePeer is traced once.
   X01.g  Parameters.  WithPeerGater refuses every parameter set outside the documented
          domain (Threshold > 0, decays in (0,1), DecayInterval >= 1s, DecayToZero in (0,1),
          Quiet >= 1s, DuplicateWeight > 0, Ignore/RejectWeight >= 1) and a router that is not
          gossipsub, and accepts every set inside it (GaterParams.tla).

   THE MODEL is written at the grain of the code: one operator per critical section of
   peerGater (every RawTracer callback, AcceptFrom, decayStats), each a pure function
   from the bookkeeping record x to the new record.
     x = [gval, gthr      global counters validate / throttle          (units 1/S)
          last            time of the last throttle (ms, NoTime = never)
          ps              peerStats: peer -> slot of its stats object (0 = no entry)
          is              ipStats:   ip   -> slot (0 = no entry)
          ob              slot -> [conn, exp, d, u, i, r]  (connected, expire ms, counters 1/S)]
   Units: S = 2^12.  Parameter sets used with this module have decays 1/gd, 1/sd with gd, sd
   powers of two, DecayToZero = dtz/S, DuplicateWeight = 1/dwd (dwd a power of two), integer
   Ignore/RejectWeight, Threshold = thN/thD and topic weights tw[t]/S, so every counter is
   an exact integer here and an exactly representable dyadic rational in float64: the real
   counter times S must be EQUAL to the model's (ExactTick tells when a division would not be exact).
   The uniform draw u is known to the cell: u in [k/M, (k+1)/M); Allowed(o, k) is the set
   of answers that some u of cell k gives (a singleton unless the chance lies inside the cell).

   Deliberate deviations: time is the virtual clock in ms; getPeerIP is the function ipOf
   (in a node: the address of the peer's connection, "U" = "<unknown>" when it has none).
   Patched = FALSE models the bookkeeping of peerStats exactly as the pinned code does it,
   TRUE the code with the patch proposed for finding X01-F1 (the gater remembers which peers
   are counted in `connected`, an entry is dropped whenever its peer's outbound stream is
   gone, and an ipStats record is never dropped while an entry points to it).  A verdict that
   arrives after the peer's last stream closed re-creates an entry in both (known finding D14).
   Bug names one seeded defect of the model (non-vacuity of the properties at model level,
   coverage obligations of the trace validation: the real traces must refute every one). *)
EXTENDS Integers, Sequences, FiniteSets, TLC

CONSTANTS Peers, IPs,   \* finite universes (strings)
          Patched       \* FALSE: peerStats bookkeeping exactly as the pinned code does it; TRUE: with the patch proposed for X01-F1
AsFound == ~Patched

VARIABLES Bug,      \* "none" or the name of one seeded defect of the model (never changes in a behaviour; a variable so
                    \* that the trace specification can try every defect in one run)
          par,      \* parameters [gd, sd, dtz, di, t0, retain, quiet, thN, thD, dwd, iw, rw, tw]
          ipOf,     \* environment: the IP the host reports for a peer
          outOpen,  \* environment: the node has an outbound stream to p that the gater was told about
          inOpen    \* environment: p has an inbound stream open (the gater is not told about openings)

S      == 4096
M      == 64
NoTime == 0 - 1
Slots  == 1..(Cardinality(IPs) + Cardinality(Peers))

Obj0 == [conn |-> 0, exp |-> NoTime, d |-> 0, u |-> 0, i |-> 0, r |-> 0]
G0   == [gval |-> 0, gthr |-> 0, last |-> NoTime, ps |-> [p \in Peers |-> 0], is |-> [a \in IPs |-> 0],
         ob |-> [k \in Slots |-> Obj0]]

MinS(X) == CHOOSE x \in X : \A y \in X : x <= y
Referenced(x) == {x.ps[p] : p \in Peers} \cup {x.is[a] : a \in IPs}
FreeSlots(x) == Slots \ Referenced(x)

-----------------------------------------------------------------------------
(* getPeerStats / getIPStats *)
Lookup(x, p) ==
    IF x.ps[p] # 0 THEN [x |-> x, id |-> x.ps[p]]
    ELSE LET a == ipOf[p] IN
         IF x.is[a] # 0 THEN [x |-> [x EXCEPT !.ps[p] = x.is[a]], id |-> x.is[a]]
         ELSE LET k == MinS(FreeSlots(x)) IN
              [x |-> [x EXCEPT !.ps[p] = k, !.is[a] = IF Bug = "noStoreIP" THEN 0 ELSE k, !.ob[k] = Obj0], id |-> k]

Bump(x, p, f, amt) == LET L == Lookup(x, p) IN [L.x EXCEPT !.ob[L.id][f] = @ + amt]

\* a verdict about a message of p (Deliver / Duplicate / Reject charged to the peer)
Streams(p) == outOpen[p] \/ inOpen[p]
Charge(x, p, f, amt) == Bump(x, p, f, amt)

(* OnNewOutboundStream *)
DoOutOpen(x, p) == IF ~AsFound /\ outOpen[p] THEN Lookup(x, p).x ELSE Bump(x, p, "conn", 1)

(* removePeerStats(p, outbound) at time t *)
DoRemove(x, p, outbound, t) ==
    IF x.ps[p] = 0 THEN x
    ELSE LET k  == x.ps[p]
             c0 == x.ob[k].conn
             ex == IF Bug = "noExpireSet" THEN x.ob[k].exp ELSE t + par.retain
         IN IF AsFound
            THEN LET c1 == IF outbound /\ (c0 > 0 \/ Bug = "noGuard") THEN c0 - 1
                           ELSE IF ~outbound /\ Bug = "inCloseDecrements" /\ c0 > 0 THEN c0 - 1
                           ELSE c0
                 IN IF c1 = 0
                    THEN [x EXCEPT !.ob[k].conn = 0, !.ob[k].exp = ex,
                                   !.ps[p] = IF Bug = "noDeleteOnClose" THEN @ ELSE 0]
                    ELSE [x EXCEPT !.ob[k].conn = c1]
            ELSE \* repaired: the gater remembers WHICH peers are counted in connected (here: outOpen)
                 LET c1 == IF outbound /\ (outOpen[p] \/ Bug = "noGuard") THEN c0 - 1
                           ELSE IF ~outbound /\ Bug = "inCloseDecrements" /\ c0 > 0 THEN c0 - 1 ELSE c0 IN
                 IF ~outbound /\ outOpen[p] THEN [x EXCEPT !.ob[k].conn = c1]
                 ELSE [x EXCEPT !.ob[k].conn = c1, !.ob[k].exp = IF c1 = 0 THEN ex ELSE @,
                                !.ps[p] = IF Bug = "noDeleteOnClose" THEN @ ELSE 0]
DoOutClose(x, p, t) == DoRemove(x, p, TRUE, t)
DoInClose(x, p, t)  == DoRemove(x, p, FALSE, t)

(* ValidateMessage; RejectMessage by reason; DeliverMessage; DuplicateMessage *)
ThrottleReasons == {"validation queue full", "validation throttled"}
IgnoreReasons   == {"validation ignored"}
PeerReasons     == {"validation failed", "invalid signature", "missing signature", "unexpected signature",
                    "unexpected auth info", "blacklisted peer", "blacklisted source", "self originated message"}
Reasons         == ThrottleReasons \cup IgnoreReasons \cup PeerReasons

DoValidate(x) == IF Bug = "noValidate" THEN x ELSE [x EXCEPT !.gval = @ + S]
DoThrottle(x, t) == [x EXCEPT !.gthr = @ + S, !.last = IF Bug = "noStamp" THEN @ ELSE t]
ClassOf(reason) ==
    IF reason \in ThrottleReasons
      THEN (IF Bug = "queueFullAsReject" /\ reason = "validation queue full" THEN "r"
            ELSE IF Bug = "throttledAsIgnore" /\ reason = "validation throttled" THEN "i" ELSE "thr")
    ELSE IF reason \in IgnoreReasons THEN (IF Bug = "ignoreAsReject" THEN "r" ELSE "i")
    ELSE (IF Bug = "rejectAsIgnore" THEN "i" ELSE "r")
DoReject(x, p, reason, t) ==
    LET c == ClassOf(reason) IN IF c = "thr" THEN DoThrottle(x, t) ELSE Charge(x, p, c, S)
TopicW(tp) == IF Bug = "noTopicWeight" THEN S
              ELSE IF tp \in DOMAIN par.tw
                THEN (IF par.tw[tp] = 0 /\ Bug # "zeroWeightKept" THEN S ELSE par.tw[tp])
                ELSE S
DoDeliver(x, p, tp) == Charge(x, p, "d", TopicW(tp))
DoDuplicate(x, p)   == Charge(x, p, IF Bug = "dupAsDeliver" THEN "d" ELSE "u", S)

(* decayStats at time t *)
Zeroed(w) == Bug # "noDtz" /\ (w < par.dtz \/ (Bug = "dtzLE" /\ w = par.dtz))
Dec(v, dd) == LET w == v \div dd IN IF Zeroed(w) THEN 0 ELSE w
Expired(o, t) == o.conn <= 0 /\ (o.exp < t \/ (Bug = "expireLE" /\ o.exp = t))
Decaying(x) == {k \in Slots : \E a \in IPs : x.is[a] = k /\ (x.ob[k].conn > 0 \/ Bug = "decayRetained")}
DoTick(x, t) ==
    LET gd == IF Bug = "globalUsesSource" THEN par.sd ELSE par.gd
        sd == IF Bug = "sourceUsesGlobal" THEN par.gd ELSE par.sd
        F(f, v) == IF Bug = "skip:" \o f THEN v ELSE Dec(v, sd)
    IN [x EXCEPT !.gval = IF Bug = "skip:gval" THEN @ ELSE Dec(@, gd),
                 !.gthr = IF Bug = "skip:gthr" THEN @ ELSE Dec(@, gd),
                 !.ob = [k \in Slots |-> IF k \in Decaying(x)
                                           THEN [x.ob[k] EXCEPT !.d = F("d", @), !.u = F("u", @), !.i = F("i", @), !.r = F("r", @)]
                                           ELSE x.ob[k]],
                 !.is = [a \in IPs |-> IF x.is[a] # 0 /\ Expired(x.ob[x.is[a]], t)
                                          /\ (Patched => \A p \in Peers : x.ps[p] # x.is[a]) THEN 0 ELSE x.is[a]]]
\* every division of this tick is exact (otherwise the scenario is outside the exact domain)
ExactTick(x) == /\ x.gval % par.gd = 0 /\ x.gthr % par.gd = 0
                /\ \A k \in Decaying(x) : LET o == x.ob[k] IN o.d % par.sd = 0 /\ o.u % par.sd = 0 /\ o.i % par.sd = 0 /\ o.r % par.sd = 0

\* the decay ticks in (from, to], in order; the ticker started at par.t0 with period par.di
NextTick(from) == par.t0 + ((from - par.t0) \div par.di + 1) * par.di
RECURSIVE DoAdv(_, _, _)
DoAdv(x, from, to) == LET nt == NextTick(from) IN IF nt > to THEN x ELSE DoAdv(DoTick(x, nt), nt, to)
RECURSIVE ExactAdv(_, _, _)
ExactAdv(x, from, to) == LET nt == NextTick(from) IN IF nt > to THEN TRUE ELSE ExactTick(x) /\ ExactAdv(DoTick(x, nt), nt, to)
RECURSIVE NTicks(_, _)
NTicks(from, to) == LET nt == NextTick(from) IN IF nt > to THEN 0 ELSE 1 + NTicks(nt, to)

(* AcceptFrom(p) at time t with the draw in cell k *)
IsQuiet(x, t) == x.last = NoTime \/ (IF Bug = "quietGE" THEN t - x.last >= par.quiet ELSE t - x.last > par.quiet)
BelowRatio(x) == x.gval # 0 /\ (IF Bug = "ratioLE" THEN x.gthr * par.thD <= par.thN * x.gval
                                ELSE IF Bug = "ratioInv" THEN x.gval * par.thD < par.thN * x.gthr
                                ELSE x.gthr * par.thD < par.thN * x.gval)
\* weighted total in units 1/(dwd*S)
TotalQ(o) == LET dwd == IF Bug = "dupWeight1" THEN 1 ELSE par.dwd
                 iw  == IF Bug = "swapIR" THEN par.rw ELSE par.iw
                 rw  == IF Bug = "swapIR" THEN par.iw ELSE par.rw
             IN par.dwd * (o.d + iw * o.i + rw * o.r) + (par.dwd \div dwd) * o.u
Allowed(o, k) ==
    LET Tq == TotalQ(o)
        X  == IF Bug = "noBias" THEN o.d * par.dwd * M ELSE (S + o.d) * par.dwd * M
        Y  == IF Bug = "noBias" THEN Tq ELSE par.dwd * S + Tq
    IN IF Tq = 0 THEN {"all"}
       ELSE IF Bug = "cmpInv" THEN (IF k + 1 <= X \div Y THEN {"ctl"} ELSE IF k >= (X + Y - 1) \div Y THEN {"all"} ELSE {"all", "ctl"})
       ELSE IF k + 1 <= X \div Y THEN {"all"}                    \* the whole cell lies below the chance
       ELSE IF k >= (X + Y - 1) \div Y THEN {"ctl"}              \* the whole cell lies at or above it
       ELSE {"all", "ctl"}
DoAccept(x, p, k, t) ==
    IF Bug # "noQuiet" /\ IsQuiet(x, t) THEN [x |-> x, res |-> {"all"}]
    ELSE IF Bug # "thrZeroSkip" /\ x.gthr = 0 THEN [x |-> x, res |-> {"all"}]
    ELSE IF Bug # "noRatio" /\ BelowRatio(x) THEN [x |-> x, res |-> {"all"}]
    ELSE LET L == Lookup(x, p) IN [x |-> L.x, res |-> Allowed(L.x.ob[L.id], k)]

\* values stay far inside TLC's 32 bit integers
InRange(x) == /\ x.gval <= 1024 * S /\ x.gthr <= 1024 * S
              /\ \A k \in Referenced(x) \ {0} : LET o == x.ob[k] IN
                    o.d <= 64 * S /\ o.u <= 64 * S /\ o.i <= 64 * S /\ o.r <= 64 * S
                    /\ par.dwd * (par.iw * o.i + par.rw * o.r) <= 16384 * S

-----------------------------------------------------------------------------
(* X01.a / X01.b written declaratively (independent of the shape of DoAccept): the answers
   AcceptFrom may give in bookkeeping state x for peer p at time t with the draw in cell k *)
SpecAllowed(x, p, k, t) ==
    LET o  == IF x.ps[p] # 0 THEN x.ob[x.ps[p]] ELSE IF x.is[ipOf[p]] # 0 THEN x.ob[x.is[ipOf[p]]] ELSE Obj0
        Tq == par.dwd * (o.d + par.iw * o.i + par.rw * o.r) + o.u
        num == (S + o.d) * par.dwd            \* chance = num / den
        den == par.dwd * S + Tq
        off == \/ x.last = NoTime \/ t - x.last > par.quiet
               \/ x.gthr = 0
               \/ (x.gval # 0 /\ x.gthr * par.thD < par.thN * x.gval)
               \/ Tq = 0
    IN IF off THEN {"all"}
       ELSE (IF k * den < num * M THEN {"all"} ELSE {})             \* some u of the cell is below the chance
            \cup (IF (k + 1) * den > num * M THEN {"ctl"} ELSE {})  \* some u of the cell is not

\* the canonical view of the bookkeeping, as the driver's dump reports it: one record per referenced object
ObjView(x, k) == [ip |-> IF \E a \in IPs : x.is[a] = k THEN CHOOSE a \in IPs : x.is[a] = k ELSE "",
                  peers |-> {p \in Peers : x.ps[p] = k},
                  conn |-> x.ob[k].conn, exp |-> x.ob[k].exp,
                  d |-> x.ob[k].d, u |-> x.ob[k].u, i |-> x.ob[k].i, r |-> x.ob[k].r]
View(x) == {ObjView(x, k) : k \in Referenced(x) \ {0}}

(* X01.d / X01.e as state predicates over a bookkeeping VIEW v (set of object records) and the environment;
   evaluated on the model at model level and on the dump of the REAL gater by the trace specification *)
EntryOf(v, p)  == {o \in v : p \in o.peers}
\* every peerStats entry points to the record ipStats holds for the peer's IP
V_Share(v) == \A p \in Peers : \A o \in EntryOf(v, p) : o.ip = ipOf[p]
\* a peer without any stream has no entry
V_NoLeak(v) == \A p \in Peers : EntryOf(v, p) # {} => Streams(p)
\* connected counts exactly the peers of the record that have an outbound stream
V_Conn(v) == \A o \in v : o.conn = Cardinality({p \in o.peers : outOpen[p]})
=============================================================================
