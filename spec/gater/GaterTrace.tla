----------------------------- MODULE GaterTrace -----------------------------
(* Trace specification for X01: deterministic replay of the histories recorded on the REAL
   peer gater (stand-alone object driven call by call, drivers/x01 TestX01Unit; or the gater of
   a running node fed by the real pipeline, TestX01Node) against the model Gater.tla.

   Line format (NDJSON, one line per call / clock advance):
     {"e":"reset","scn":n,"src":"unit"|"node","par":{gd,sd,dtz,di,t0,retain,quiet,thN,thD,dwd,iw,rw,tw:{topic:w},tol},
      "ipof":{peer:ip},"t":ms,"st":DUMP}
     {"e":"outopen"|"outclose"|"inopen"|"inclose"|"dup","p":peer,"t":ms[,"st":DUMP]}
     {"e":"validate","t":ms}   {"e":"reject","p":peer,"reason":r,"t":ms}   {"e":"deliver","p":peer,"topic":tp,"t":ms}
     {"e":"accept","p":peer,"k":cell of the uniform draw,"res":"all"|"ctl"|"none","t":ms}
     {"e":"adv","ms":d,"t":ms after}   {"e":"setip","p":peer,"ip":ip,"t":ms}   {"e":"obs","t":ms,"st":DUMP}
     DUMP = {"gval","gthr","last","bad",objs:[{"ip","peers":[..],"conn","exp","d","u","i","r"}]}
   counters are the real float64 values times S (the driver sets "bad" when one is not an integer
   then), times are ms of the virtual clock (-1 = the zero time).  In a node several callbacks
   happen between two dumps and the clock moves between them: every event line carries its own
   time and the model lets the decay ticks in between fire first ("t" never decreases).

   Judged per line (the observation of a line is compared in the state the line leads to):
     P_X01ab_Decision    the answer of AcceptFrom is one the draw's cell allows
     P_X01c_Counters     validate / throttle / lastThrottle / deliver / duplicate / ignore / reject
                         EQUAL the model's
     P_X01d_Sharing      the peer -> record mapping equals the model's
     P_X01e_Retention    the set of IP records, their connected count and expiry equal the model's
   and, on the real dump (only while it equals the model), the ideal bookkeeping predicates
     P_X01d_Share, P_X01e_NoLeak, P_X01e_Conn  (the V_ predicates of Gater.tla), reported with the cause recorded
   by the monitor "why" (D14 = late verdict, F1:* = the bookkeeping defects of finding X01-F1).

   Bugs = {"none"}: judge.  Bugs = a set of seeded model defects: one behaviour per defect, each
   stops at its first disagreement and prints <<"REFUTED", bug>>: a defect that the real traces do
   not refute is an unmet coverage obligation. *)
EXTENDS Gater, Json

CONSTANTS Bugs
Trace == ndJsonDeserialize("trace.ndjson")

VARIABLES l, g, now, bad, why, unm, failing,
          tm       \* names of the payload messages of the probe RPCs that were throttled (never processed)
tvars == <<Bug, par, ipOf, outOpen, inOpen, l, g, now, bad, why, unm, failing, tm>>

SetOf(s) == {s[i] : i \in DOMAIN s}
Get(r, key, d) == IF key \in DOMAIN r THEN r[key] ELSE d
NCov == 32
Flag(e, k) == Get(e, k, FALSE)
ByRouter(e) == Flag(e, "direct") \/ Flag(e, "gray")     \* the router answers before the gater is asked

ObsView(st) == {[ip |-> o.ip, peers |-> SetOf(o.peers), conn |-> o.conn, exp |-> o.exp,
                 d |-> o.d, u |-> o.u, i |-> o.i, r |-> o.r] : o \in SetOf(st.objs)}
Key(o) == <<o.ip, o.peers>>
Abs(a) == IF a < 0 THEN 0 - a ELSE a
Tol == Get(par, "tol", 0)
ExpEq(a, b) == a = b \/ (a # NoTime /\ b # NoTime /\ Abs(a - b) <= Tol)

\* the environment after event e
Out1(e) == CASE e.e = "outopen" -> [outOpen EXCEPT ![e.p] = TRUE]
             [] e.e = "outclose" -> [outOpen EXCEPT ![e.p] = FALSE]
             [] OTHER -> outOpen
In1(e)  == CASE e.e = "inopen" -> [inOpen EXCEPT ![e.p] = TRUE]
             [] e.e = "inclose" -> [inOpen EXCEPT ![e.p] = FALSE]
             [] OTHER -> inOpen
Ip1(e)  == IF e.e = "setip" THEN [ipOf EXCEPT ![e.p] = e.ip] ELSE ipOf
\* the clock before the call of line e: ticks up to e.t have fired ("adv" lines carry the time after)
Pre(e) == DoAdv(g, now, e.t)
\* the bookkeeping after event e
Post(e) ==
    LET x == Pre(e) IN
    CASE e.e = "outopen"  -> DoOutOpen(x, e.p)
      [] e.e = "outclose" -> DoOutClose(x, e.p, e.t)
      [] e.e = "inclose"  -> DoInClose(x, e.p, e.t)
      [] e.e = "validate" -> DoValidate(x)
      [] e.e = "reject"   -> DoReject(x, e.p, e.reason, e.t)
      [] e.e = "deliver"  -> DoDeliver(x, e.p, e.topic)
      [] e.e = "dup"      -> DoDuplicate(x, e.p)
      [] e.e = "accept"   -> IF ByRouter(e) THEN x ELSE DoAccept(x, e.p, e.k, e.t).x
      [] e.e = "rpc"      -> IF ByRouter(e) THEN x ELSE DoAccept(x, e.p, 0, e.t).x   \* (the new bookkeeping does not depend on the draw)
      [] OTHER -> x        \* inopen, setip, adv, obs, resend
Exact(e) == ExactAdv(g, now, e.t)

\* ---- the judgement of line e in the state it leads to (x = Post(e)); <<>> = nothing to report
BranchOf(x, e) == IF Flag(e, "direct") THEN "direct" ELSE IF Flag(e, "gray") THEN "graylisted"
                  ELSE IF IsQuiet(x, e.t) THEN "quiet" ELSE IF x.gthr = 0 THEN "throttle-zero"
                  ELSE IF BelowRatio(x) THEN "below-threshold" ELSE "random"
RouterAllowed(e, gaterSays) == IF Flag(e, "direct") THEN {"all"} ELSE IF Flag(e, "gray") THEN {"none"} ELSE gaterSays
JudgeAccept(e) ==
    LET a == RouterAllowed(e, DoAccept(Pre(e), e.p, e.k, e.t).res) IN
    IF e.res \in a THEN <<>>
    ELSE <<IF ByRouter(e) THEN "P_X01a_Router" ELSE "P_X01ab_Decision", BranchOf(Pre(e), e), e.p, a, e.res>>
\* a probe RPC (>= 1 fresh message, a GRAFT for a topic whose mesh the sender may enter, an IWANT for a cached
\* message) read from a peer's inbound stream: what the router answered is seen from what happened
\* (ThrottlePeer traced = AcceptControl; a message event = AcceptAll; nothing = AcceptNone)
JudgeRpc(e) ==
    LET x == Pre(e)
        anyk == UNION {DoAccept(x, e.p, k, e.t).res : k \in 0..(M - 1)}
        allowed == RouterAllowed(e, anyk)
        obs == IF e.thr > 0 THEN "ctl" ELSE IF e.mev > 0 THEN "all" ELSE "none"
        ctlLost == (e.graft # "" /\ ~e.inmesh /\ ~e.direct) \/ (e.iwant # "" /\ ~e.served)
    IN IF e.nmsg = 0 THEN <<>>
       ELSE IF obs \notin allowed THEN <<"P_X01a_Router", BranchOf(x, e), e.p, allowed, obs>>
       ELSE IF obs = "ctl" /\ (e.thr # 1 \/ e.mev # 0) THEN <<"P_X01f_ThrottledRPC", "payload-processed", e.p, e.thr, e.mev>>
       ELSE IF obs = "ctl" /\ ctlLost THEN <<"P_X01f_ThrottledRPC", "control-lost", e.p, e.inmesh, e.served>>
       ELSE IF obs = "all" /\ ctlLost THEN <<"MACH", "probe-control-ineffective", e.p, e.inmesh, e.served>>
       ELSE IF obs = "none" /\ (e.inmesh \/ e.served) THEN <<"P_X01a_Router", "graylisted-control-processed", e.p, e.inmesh, e.served>>
       ELSE <<>>
\* the payload of a throttled RPC was not marked seen: the same bytes from an accepted peer are validated
JudgeResend(e) == IF e.m \in tm /\ (~e.val \/ e.dup) THEN <<"P_X01f_ThrottledRPC", "payload-marked-seen", e.p, e.val, e.dup>> ELSE <<>>
JudgeState(x, st) ==
    LET mv == View(x)
        ov == ObsView(st)
        mk == {Key(o) : o \in mv}
        ok == {Key(o) : o \in ov}
        M1(k) == CHOOSE o \in mv : Key(o) = k
        O1(k) == CHOOSE o \in ov : Key(o) = k
    IN IF st.bad THEN <<"P_X01c_Counters", "not-representable", "", 0, 0>>
       ELSE IF st.gval # x.gval THEN <<"P_X01c_Counters", "validate", "", x.gval, st.gval>>
       ELSE IF st.gthr # x.gthr THEN <<"P_X01c_Counters", "throttle", "", x.gthr, st.gthr>>
       ELSE IF ~ExpEq(st.last, x.last) THEN <<"P_X01c_Counters", "lastThrottle", "", x.last, st.last>>
       ELSE IF {k[1] : k \in mk} # {k[1] : k \in ok} THEN <<"P_X01e_Retention", "records", "", {k[1] : k \in mk}, {k[1] : k \in ok}>>
       ELSE IF mk # ok THEN <<"P_X01d_Sharing", "entries", "", mk, ok>>
       ELSE IF \E k \in mk : M1(k).conn # O1(k).conn
         THEN LET k == CHOOSE k \in mk : M1(k).conn # O1(k).conn IN <<"P_X01e_Retention", "connected", k[1], M1(k).conn, O1(k).conn>>
       ELSE IF \E k \in mk : ~ExpEq(M1(k).exp, O1(k).exp)
         THEN LET k == CHOOSE k \in mk : ~ExpEq(M1(k).exp, O1(k).exp) IN <<"P_X01e_Retention", "expire", k[1], M1(k).exp, O1(k).exp>>
       ELSE IF \E k \in mk : M1(k).d # O1(k).d
         THEN LET k == CHOOSE k \in mk : M1(k).d # O1(k).d IN <<"P_X01c_Counters", "deliver", k[1], M1(k).d, O1(k).d>>
       ELSE IF \E k \in mk : M1(k).u # O1(k).u
         THEN LET k == CHOOSE k \in mk : M1(k).u # O1(k).u IN <<"P_X01c_Counters", "duplicate", k[1], M1(k).u, O1(k).u>>
       ELSE IF \E k \in mk : M1(k).i # O1(k).i
         THEN LET k == CHOOSE k \in mk : M1(k).i # O1(k).i IN <<"P_X01c_Counters", "ignore", k[1], M1(k).i, O1(k).i>>
       ELSE IF \E k \in mk : M1(k).r # O1(k).r
         THEN LET k == CHOOSE k \in mk : M1(k).r # O1(k).r IN <<"P_X01c_Counters", "reject", k[1], M1(k).r, O1(k).r>>
       ELSE <<>>
Judge(e) ==
    IF ~Exact(e) THEN <<"MACH", "inexact", "", 0, 0>>
    ELSE IF e.e = "accept" /\ JudgeAccept(e) # <<>> THEN JudgeAccept(e)
    ELSE IF e.e = "rpc" /\ JudgeRpc(e) # <<>> THEN JudgeRpc(e)
    ELSE IF e.e = "resend" /\ JudgeResend(e) # <<>> THEN JudgeResend(e)
    ELSE IF "st" \in DOMAIN e THEN JudgeState(Post(e), e.st)
    ELSE <<>>

\* ---- monitors for the cause of an ideal-bookkeeping failure
Why1(e) ==
    LET x == Pre(e)
        y == Post(e)
        o1 == Out1(e)
        i1 == In1(e)
    IN [p \in Peers |->
          IF y.ps[p] = 0 THEN ""
          ELSE IF x.ps[p] = 0 /\ ~(o1[p] \/ i1[p]) THEN (IF e.e \in {"deliver", "dup", "reject"} THEN "D14" ELSE "late-" \o e.e)
          ELSE IF e.e \in {"outclose", "inclose"} /\ e.p = p /\ ~(o1[p] \/ i1[p]) THEN "F1:shared-close"
          ELSE IF why[p] = "" /\ g.ps[p] # 0 /\ (\E a \in IPs : g.is[a] = g.ps[p]) /\ ~(\E a \in IPs : x.is[a] = g.ps[p])
            THEN "F1:record-dropped-under-entry"
          ELSE why[p]]
Unm1(e) == unm \/ (e.e = "outclose" /\ ~outOpen[e.p] /\ Pre(e).ps[e.p] # 0 /\ Pre(e).ob[Pre(e).ps[e.p]].conn > 0)

\* the ideal predicates on the real dump, with the environment after the line
IdealFails(e, w, um) ==
    LET v  == ObsView(e.st)
        o1 == Out1(e)
        i1 == In1(e)
        ip1 == Ip1(e)
        C(p) == IF w[p] # "" THEN w[p] ELSE IF um THEN "F1:unmatched-close" ELSE "none"
    IN {<<"P_X01d_Share", C(p), p>> : p \in {q \in Peers : \E o \in v : q \in o.peers /\ o.ip # ip1[q]}}
       \cup {<<"P_X01e_NoLeak", C(p), p>> : p \in {q \in Peers : (\E o \in v : q \in o.peers) /\ ~(o1[q] \/ i1[q])}}
       \cup {<<"P_X01e_Conn", IF um THEN "F1:unmatched-close" ELSE "none", o.ip>> :
                o \in {o \in v : o.conn # Cardinality({q \in o.peers : o1[q]})}}

\* ---- coverage of the validated real steps
Tag(c, i) == IF c THEN {i} ELSE {}
StatsAt(x, p) == IF x.ps[p] # 0 THEN x.ob[x.ps[p]] ELSE IF x.is[ipOf[p]] # 0 THEN x.ob[x.is[ipOf[p]]] ELSE Obj0
CovTags(e) ==
    LET x == Pre(e)
        acc == e.e = "accept" /\ ~ByRouter(e)
        rpc == e.e = "rpc" /\ e.nmsg > 0
        br == IF acc THEN BranchOf(x, e) ELSE ""
        o == IF acc THEN StatsAt(x, e.p) ELSE Obj0
        nt == NTicks(now, e.t)
        lt == IF nt = 0 THEN NoTime ELSE NextTick(now) + (nt - 1) * par.di
        rec == {g.ob[g.is[a]] : a \in {b \in IPs : g.is[b] # 0}}
    IN  Tag(acc /\ br = "quiet" /\ x.last # NoTime, 1)
   \cup Tag(acc /\ x.last # NoTime /\ e.t - x.last = par.quiet /\ br # "quiet", 2)
   \cup Tag(acc /\ br = "throttle-zero", 3)
   \cup Tag(acc /\ br = "below-threshold", 4)
   \cup Tag(acc /\ br = "random" /\ x.gval # 0 /\ x.gthr * par.thD = par.thN * x.gval, 5)
   \cup Tag(acc /\ br = "random" /\ TotalQ(o) = 0, 6)
   \cup Tag(acc /\ br = "random" /\ TotalQ(o) # 0 /\ Allowed(o, e.k) = {"all"}, 7)
   \cup Tag(acc /\ br = "random" /\ TotalQ(o) # 0 /\ Allowed(o, e.k) = {"ctl"}, 8)
   \cup Tag(acc /\ br = "random" /\ TotalQ(o) # 0 /\ x.ps[e.p] # 0 /\ Cardinality({q \in Peers : x.ps[q] = x.ps[e.p]}) >= 2, 9)
   \cup Tag(acc /\ br = "random" /\ TotalQ(o) # 0 /\ o.u = 0 /\ o.i = 0 /\ o.r = 0, 10)
   \cup Tag(nt > 0 /\ \E o2 \in rec : o2.conn > 0 /\ \E f \in {"d", "u", "i", "r"} : o2[f] > 0 /\ Dec(o2[f], par.sd) = 0, 11)
   \cup Tag(nt > 0 /\ ((g.gval > 0 /\ Dec(g.gval, par.gd) = 0) \/ (g.gthr > 0 /\ Dec(g.gthr, par.gd) = 0)), 12)
   \cup Tag(nt > 0 /\ \E o2 \in rec : o2.conn = 0 /\ o2.exp # NoTime /\ o2.exp < lt, 13)
   \cup Tag(nt > 0 /\ \E o2 \in rec : o2.conn = 0 /\ o2.exp = NextTick(now), 14)
   \cup Tag(nt > 0 /\ \E o2 \in rec : o2.conn = 0 /\ o2.exp >= lt /\ (o2.d + o2.u + o2.i + o2.r) > 0, 15)
   \cup Tag(e.e = "outopen" /\ x.ps[e.p] = 0 /\ x.is[ipOf[e.p]] # 0 /\ x.ob[x.is[ipOf[e.p]]].conn = 0
            /\ (x.ob[x.is[ipOf[e.p]]].r + x.ob[x.is[ipOf[e.p]]].d) > 0, 16)
   \cup Tag(e.e = "deliver" /\ e.topic \in DOMAIN par.tw /\ par.tw[e.topic] \notin {0, S}, 17)
   \cup Tag(e.e = "deliver" /\ e.topic \in DOMAIN par.tw /\ par.tw[e.topic] = 0, 18)
   \cup Tag(e.e = "deliver" /\ e.topic \notin DOMAIN par.tw, 19)
   \cup Tag(e.e = "outclose" /\ ~outOpen[e.p], 20)
   \cup Tag(e.e = "inclose" /\ x.ps[e.p] # 0 /\ x.ob[x.ps[e.p]].conn > 0, 21)
   \cup Tag(e.e = "inclose" /\ x.ps[e.p] # 0 /\ x.ob[x.ps[e.p]].conn = 0, 22)
   \cup Tag(e.e = "reject" /\ e.reason \in PeerReasons \ {"validation failed"}, 23)
   \cup Tag(e.e = "setip", 24)
   \cup Tag(rpc /\ e.thr > 0 /\ e.graft # "" /\ e.iwant # "", 25)
   \cup Tag(rpc /\ e.direct /\ BranchOf(x, [e EXCEPT !.direct = FALSE]) = "random", 26)
   \cup Tag(rpc /\ e.gray /\ ~e.direct, 27)
   \cup Tag(e.e = "resend" /\ e.m \in tm, 28)
   \cup Tag(e.e = "accept" /\ Flag(e, "direct"), 29)
   \cup Tag(e.e = "accept" /\ Flag(e, "gray") /\ ~Flag(e, "direct"), 30)
   \cup Tag(rpc /\ ~ByRouter(e) /\ e.thr = 0 /\ e.mev > 0 /\ BranchOf(x, e) = "quiet" /\ x.last # NoTime, 31)
   \cup Tag(Get(par, "tol", 0) > 0 /\ e.e \in {"deliver", "reject", "dup", "validate"}, 32)
CovCount(e) == \A i \in CovTags(e) : TLCSet(10 + i, TLCGet(10 + i) + 1)

-----------------------------------------------------------------------------
Dummy == [p \in Peers |-> FALSE]
TInit == /\ TLCSet(1, 0) /\ (\A i \in 1..NCov : TLCSet(10 + i, 0))
         /\ Bug \in Bugs /\ l = 1 /\ g = G0 /\ now = 0 /\ bad = FALSE
         /\ par = [di |-> 1000, t0 |-> 0] /\ ipOf = [p \in Peers |-> "A"] /\ outOpen = Dummy /\ inOpen = Dummy
         /\ why = [p \in Peers |-> ""] /\ unm = FALSE /\ failing = {} /\ tm = {}

Reset(e) == /\ par' = e.par /\ ipOf' = [p \in Peers |-> IF p \in DOMAIN e.ipof THEN e.ipof[p] ELSE "U"]
            /\ outOpen' = Dummy /\ inOpen' = Dummy /\ g' = G0 /\ now' = e.t /\ bad' = FALSE
            /\ why' = [p \in Peers |-> ""] /\ unm' = FALSE /\ failing' = {} /\ tm' = {}

Keep == UNCHANGED <<par, ipOf, outOpen, inOpen, g, now, why, unm, failing, tm>>

TStep ==
    /\ l <= Len(Trace)
    /\ UNCHANGED Bug
    /\ LET e == Trace[l] IN
       IF e.e = "reset" THEN Reset(e)
       ELSE IF bad THEN Keep /\ bad' = bad
       ELSE LET f == Judge(e) IN
            \* a disagreement about the bookkeeping desynchronises the replay: the rest of the scenario is skipped;
            \* a wrong answer (accept / rpc / resend lines) does not
            IF f # <<>> /\ (Bug # "none" \/ (f[1] \in {"MACH", "P_X01c_Counters", "P_X01d_Sharing", "P_X01e_Retention"} /\ f[2] # "probe-control-ineffective"))
              THEN /\ (IF Bug = "none" THEN PrintT(<<"VIOL", ToJson([line |-> l, scn |-> Trace[l].scn, e |-> e.e, f |-> f])>>)
                       ELSE PrintT(<<"REFUTED", Bug, l>>))
                   /\ Keep /\ bad' = TRUE
              ELSE LET w == Why1(e)
                       um == Unm1(e)
                       idl == IF "st" \in DOMAIN e THEN IdealFails(e, w, um) ELSE failing
                       new == {x \in idl : <<x[1], x[3]>> \notin {<<y[1], y[3]>> : y \in failing}}
                   IN /\ (IF f # <<>> THEN PrintT(<<"VIOL", ToJson([line |-> l, scn |-> Trace[l].scn, e |-> e.e, f |-> f])>>) ELSE TRUE)
                      /\ (IF Bug = "none" THEN CovCount(e) ELSE TRUE)
                      /\ (IF Bug = "none" /\ new # {}
                            THEN PrintT(<<"IDEAL", ToJson([line |-> l, scn |-> Trace[l].scn, e |-> e.e, f |-> new])>>) ELSE TRUE)
                      /\ g' = Post(e) /\ now' = e.t /\ par' = par
                      /\ outOpen' = Out1(e) /\ inOpen' = In1(e) /\ ipOf' = Ip1(e)
                      /\ why' = w /\ unm' = um /\ failing' = idl /\ bad' = FALSE
                      /\ tm' = IF e.e = "rpc" /\ e.thr > 0 /\ e.mev = 0 THEN tm \cup SetOf(e.msgs)
                                ELSE IF e.e = "rpc" THEN tm \ SetOf(e.msgs) ELSE tm
    /\ l' = IF Bug # "none" /\ bad' THEN Len(Trace) + 1 ELSE l + 1

TraceSpec == TInit /\ [][TStep]_tvars

HW == IF TLCGet(1) < l THEN TLCSet(1, l) ELSE TRUE
Accepted == (\A i \in 1..NCov : PrintT(<<"COV", i, TLCGet(10 + i)>>)) /\ PrintT(<<"HW", TLCGet(1), Len(Trace) + 1>>)
=============================================================================
