SPECIFICATION TraceSpec
CONSTANTS
  Peers = {"p1", "p2", "p3", "p4", "p5"}
  IPs = {"A", "B", "C", "D", "E", "U"}
  Patched = FALSE
  Bugs = {"none"}
CONSTRAINT HW
POSTCONDITION Accepted
CHECK_DEADLOCK FALSE
