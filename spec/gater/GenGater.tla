------------------------------ MODULE GenGater ------------------------------
(* X01 - environment of the peer gater: every sequence of tracer callbacks, AcceptFrom
   calls and clock advances up to a bound (exhaustive, histories merged by VIEW) or long
   random walks (-simulate).  One module serves three purposes:
     * model checking of the properties X01.a-e on the model Gater.tla (invariants and
       action properties below; configurations with BugC # "none", Patched = FALSE or
       Late = TRUE MUST fail);
     * scenario generation: Emit prints the history of every state at the length bound;
       only the inputs are emitted, what the real gater answers is judged by GaterTrace;
     * the forced prefixes WarmUp put the gater in a throttling state first, so that the
       exhaustive suffixes explore the random-early-drop regime.

   Stimuli sit at k*1000+500 ms of the virtual clock, decay ticks at multiples of
   par.di since par.t0 = 0: no stimulus shares an instant with a tick.  The well-formed
   environment: at most one outbound stream per peer; an outbound close without a
   preceding open ("unmatched": the peer was blacklisted / died while its stream was being
   opened) at most MaxUnmatched times; AcceptFrom only for a peer that has a stream (it is
   called for RPCs read from an inbound stream); a verdict for a peer without any stream
   ("late") only when Late; the IP of a peer changes only while it has no stream. *)
EXTENDS Gater, Json

CONSTANTS BugC,          \* the seeded model defect ("none" for the model itself)
          PS,            \* parameter set number
          L,             \* number of free events after the warm-up
          Warm,          \* warm-up number
          MaxNow,        \* clock bound (ms)
          Late,          \* allow verdicts for peers without streams (D14)
          MaxUnmatched,  \* unmatched outbound closes allowed
          MaxMoves,      \* IP changes allowed
          Sim,           \* -simulate mode
          Full           \* check the decision on all M cells (slow) instead of the boundary cells

VARIABLES g, now, hist, nun, nmv
vars == <<Bug, par, ipOf, outOpen, inOpen, g, now, hist, nun, nmv>>

Topics == {"t1", "t2", "t3", "t4"}

ParamSets == <<
  \* 1: decay 1/2 both, DecayToZero 1/8, retain 2.5 s (expiry ON a tick instant), quiet 3 s, Threshold 1/4, dup 1/8, ignore 1, reject 16
  [gd |-> 2, sd |-> 2, dtz |-> S \div 8, di |-> 1000, t0 |-> 0, retain |-> 2500, quiet |-> 3000, thN |-> 1, thD |-> 4,
   dwd |-> 8, iw |-> 1, rw |-> 16, tw |-> [t1 |-> 2 * S, t2 |-> 0, t3 |-> S \div 2]],
  \* 2: global decay 1/4, DecayToZero 1/4, retain 2 s, quiet 2 s, Threshold 1/2, dup 1/2, ignore 2, reject 4
  [gd |-> 4, sd |-> 2, dtz |-> S \div 4, di |-> 1000, t0 |-> 0, retain |-> 2000, quiet |-> 2000, thN |-> 1, thD |-> 2,
   dwd |-> 2, iw |-> 2, rw |-> 4, tw |-> [t1 |-> S, t3 |-> 4 * S]],
  \* 3: source decay 1/4, decay every 2 s, no retention, quiet 1 s, Threshold 1, all weights 1
  [gd |-> 2, sd |-> 4, dtz |-> S \div 16, di |-> 2000, t0 |-> 0, retain |-> 0, quiet |-> 1000, thN |-> 1, thD |-> 1,
   dwd |-> 1, iw |-> 1, rw |-> 1, tw |-> [t1 |-> 3 * S]],
  \* 4: long quiet (the throttle counter decays to zero first), Threshold 3/2, retain 1 s
  [gd |-> 4, sd |-> 2, dtz |-> S \div 2, di |-> 1000, t0 |-> 0, retain |-> 1000, quiet |-> 8000, thN |-> 3, thD |-> 2,
   dwd |-> 4, iw |-> 3, rw |-> 2, tw |-> [t2 |-> S \div 4]] >>
P0 == ParamSets[PS]

IP0 == [p \in Peers |-> IF p \in {"p1", "p2"} THEN "A" ELSE "B"]

\* forced prefixes
E(e) == [e |-> e]
EP(e, p) == [e |-> e, p |-> p]
Rej(p, r) == [e |-> "reject", p |-> p, reason |-> r]
WarmUps == <<
  \* 1: p1 connected, one validation, the queue overflows, p1 has one failed message: gate active, chance 1/17 (PS 1)
  << EP("outopen", "p1"), E("validate"), Rej("p1", "validation queue full"), Rej("p1", "validation failed") >>,
  \* 2: p1 and p2 (same IP) and p3 connected, p2 charged, throttled: the colocated peer pays
  << EP("outopen", "p1"), EP("outopen", "p2"), EP("outopen", "p3"), Rej("p3", "validation throttled"),
     [e |-> "deliver", p |-> "p1", topic |-> "t1"], Rej("p2", "validation ignored"), EP("dup", "p2") >>,
  \* 3: p1 came and went with a bad record (retained), gate active
  << EP("outopen", "p1"), Rej("p1", "validation failed"), Rej("p1", "validation throttled"), EP("outclose", "p1") >>,
  \* 4: inbound-only peer p2 next to a connected colocated p1
  << EP("outopen", "p1"), EP("inopen", "p2"), Rej("p2", "invalid signature"), Rej("p2", "validation queue full") >>
>>
WarmUp == IF Warm = 0 THEN <<>> ELSE WarmUps[Warm]

Init == /\ Bug = BugC /\ par = P0 /\ ipOf = IP0
        /\ outOpen = [p \in Peers |-> FALSE] /\ inOpen = [p \in Peers |-> FALSE]
        /\ g = G0 /\ now = 500 /\ hist = <<>> /\ nun = 0 /\ nmv = 0

Rec(e) == hist' = Append(hist, e)

\* the effect of one event on the variables (also used for the forced prefix)
Apply(e) ==
    /\ UNCHANGED <<par, Bug>>
    /\ CASE e.e = "outopen"  -> /\ g' = DoOutOpen(g, e.p) /\ outOpen' = [outOpen EXCEPT ![e.p] = TRUE]
                                /\ UNCHANGED <<ipOf, inOpen, now, nmv, nun>>
         [] e.e = "outclose" -> /\ g' = DoOutClose(g, e.p, now) /\ outOpen' = [outOpen EXCEPT ![e.p] = FALSE]
                                /\ nun' = nun + (IF outOpen[e.p] THEN 0 ELSE 1)
                                /\ UNCHANGED <<ipOf, inOpen, now, nmv>>
         [] e.e = "inopen"   -> /\ inOpen' = [inOpen EXCEPT ![e.p] = TRUE] /\ UNCHANGED <<g, ipOf, outOpen, now, nun, nmv>>
         [] e.e = "inclose"  -> /\ g' = DoInClose(g, e.p, now) /\ inOpen' = [inOpen EXCEPT ![e.p] = FALSE]
                                /\ UNCHANGED <<ipOf, outOpen, now, nun, nmv>>
         [] e.e = "validate" -> g' = DoValidate(g) /\ UNCHANGED <<ipOf, outOpen, inOpen, now, nun, nmv>>
         [] e.e = "reject"   -> g' = DoReject(g, e.p, e.reason, now) /\ UNCHANGED <<ipOf, outOpen, inOpen, now, nun, nmv>>
         [] e.e = "deliver"  -> g' = DoDeliver(g, e.p, e.topic) /\ UNCHANGED <<ipOf, outOpen, inOpen, now, nun, nmv>>
         [] e.e = "dup"      -> g' = DoDuplicate(g, e.p) /\ UNCHANGED <<ipOf, outOpen, inOpen, now, nun, nmv>>
         [] e.e = "accept"   -> g' = DoAccept(g, e.p, e.k, now).x /\ UNCHANGED <<ipOf, outOpen, inOpen, now, nun, nmv>>
         [] e.e = "adv"      -> /\ g' = DoAdv(g, now, now + e.ms) /\ now' = now + e.ms
                                /\ UNCHANGED <<ipOf, outOpen, inOpen, nun, nmv>>
         [] e.e = "setip"    -> /\ ipOf' = [ipOf EXCEPT ![e.p] = e.ip] /\ nmv' = nmv + 1
                                /\ UNCHANGED <<g, outOpen, inOpen, now, nun>>

\* one representative per class of reject reasons would hide a swapped case: all are offered, rotating by position
Pick(sq) == sq[((Len(hist) + now \div 1000) % Len(sq)) + 1]
PeerReasonSeq == <<"validation failed", "invalid signature", "missing signature", "unexpected signature",
                   "unexpected auth info", "blacklisted peer", "blacklisted source", "self originated message">>
ReasonChoices == {Pick(PeerReasonSeq), "validation ignored", "validation failed", Pick(<<"validation queue full", "validation throttled">>)}
TopicChoices == IF Sim THEN {Pick(<<"t1", "t2", "t3", "t4">>)} ELSE {Pick(<<"t1", "t3">>), Pick(<<"t2", "t4">>)}

\* the cells worth drawing for p: first and last, the last cell entirely below the chance, the first entirely
\* at or above it, and the cell that contains it
Cells(p) ==
    LET o  == IF g.ps[p] # 0 THEN g.ob[g.ps[p]] ELSE IF g.is[ipOf[p]] # 0 THEN g.ob[g.is[ipOf[p]]] ELSE Obj0
        X  == (S + o.d) * par.dwd * M
        Y  == par.dwd * S + TotalQ(o)
        lo == X \div Y
        hi == (X + Y - 1) \div Y
        off == IsQuiet(g, now) \/ g.gthr = 0 \/ BelowRatio(g) \/ TotalQ(o) = 0
    IN IF off THEN {M \div 2} ELSE {k \in {0, M - 1, lo - 1, lo, hi} : k >= 0 /\ k < M}

Event ==
    \/ \E p \in Peers : ~outOpen[p] /\ Apply(EP("outopen", p)) /\ Rec(EP("outopen", p))
    \/ \E p \in Peers : (outOpen[p] \/ nun < MaxUnmatched) /\ Apply(EP("outclose", p)) /\ Rec(EP("outclose", p))
    \/ \E p \in Peers : ~inOpen[p] /\ Apply(EP("inopen", p)) /\ Rec(EP("inopen", p))
    \/ \E p \in Peers : inOpen[p] /\ Apply(EP("inclose", p)) /\ Rec(EP("inclose", p))
    \/ Apply(E("validate")) /\ Rec(E("validate"))
    \/ \E p \in Peers, r \in ReasonChoices : (Late \/ Streams(p) \/ r \in ThrottleReasons) /\ Apply(Rej(p, r)) /\ Rec(Rej(p, r))
    \/ \E p \in Peers, tp \in TopicChoices : (Late \/ Streams(p))
          /\ Apply([e |-> "deliver", p |-> p, topic |-> tp]) /\ Rec([e |-> "deliver", p |-> p, topic |-> tp])
    \/ \E p \in Peers : (Late \/ Streams(p)) /\ Apply(EP("dup", p)) /\ Rec(EP("dup", p))
    \/ \E p \in Peers : Streams(p) /\ \E k \in Cells(p) :
          Apply([e |-> "accept", p |-> p, k |-> k]) /\ Rec([e |-> "accept", p |-> p, k |-> k])
    \/ \E ms \in {1000, 3000} : /\ now + ms <= MaxNow /\ ExactAdv(g, now, now + ms)
                                /\ Apply([e |-> "adv", ms |-> ms]) /\ Rec([e |-> "adv", ms |-> ms])
    \/ \E p \in Peers, a \in IPs : /\ nmv < MaxMoves /\ ~Streams(p) /\ a # ipOf[p] /\ a # "U"
                                   /\ Apply([e |-> "setip", p |-> p, ip |-> a]) /\ Rec([e |-> "setip", p |-> p, ip |-> a])

Forced == LET e == WarmUp[Len(hist) + 1] IN Apply(e) /\ Rec(e)

\* the simulator evaluates the invariant Emit on every successor: a walk ends with one fixed event
Next == IF Len(hist) < Len(WarmUp) THEN Forced
        ELSE IF Sim /\ Len(hist) = Len(WarmUp) + L - 1 THEN Apply(E("validate")) /\ Rec(E("validate"))
        ELSE Len(hist) < Len(WarmUp) + L /\ Event /\ InRange(g')

Spec == Init /\ [][Next]_vars

\* exhaustive checking merges histories that lead to the same state; the last event stays visible so that
\* every (state, event) pair is emitted
LastE == IF hist = <<>> THEN E("none") ELSE hist[Len(hist)]
StateView == <<g.gval, g.gthr, g.last, View(g), ipOf, outOpen, inOpen, now, nun, nmv, Len(hist)>>
GenView == <<StateView, LastE>>

Emit == Len(hist) = Len(WarmUp) + L =>
          PrintT(<<"SCN", ToJson([ps |-> PS, warm |-> Warm, par |-> P0, ipof |-> IP0, acts |-> hist])>>)

-----------------------------------------------------------------------------
(* model-level properties *)

\* X01.a/b: the code-shaped decision equals the declarative one, for every peer and every cell
StatsOf(p) == IF g.ps[p] # 0 THEN g.ob[g.ps[p]] ELSE IF g.is[ipOf[p]] # 0 THEN g.ob[g.is[ipOf[p]]] ELSE Obj0
\* (checked on the first and last cell and on the cells around the chance of p's record and around the chance the
\* defective variants would compute; Full = TRUE checks all M cells)
Around(x) == {k \in {x - 1, x, x + 1} : k >= 0 /\ k < M}
CheckCells(p) ==
    IF Full THEN 0..(M - 1)
    ELSE LET o == StatsOf(p)
             den == par.dwd * S + par.dwd * (o.d + par.iw * o.i + par.rw * o.r) + o.u
             alt == par.dwd * (o.d + o.i + o.r + o.u) + 1
         IN {0, M - 1} \cup Around(((S + o.d) * par.dwd * M) \div den) \cup Around((o.d * par.dwd * M) \div alt)
P_X01ab_Decision == \A p \in Peers : \A k \in CheckCells(p) : DoAccept(g, p, k, now).res = SpecAllowed(g, p, k, now)
\* an IP with deliveries only is never throttled
P_X01b_GoodNeverThrottled ==
    \A p \in Peers : (StatsOf(p).u = 0 /\ StatsOf(p).i = 0 /\ StatsOf(p).r = 0) => \A k \in {0, M \div 2, M - 1} : DoAccept(g, p, k, now).res = {"all"}
\* nobody is ever throttled for certain
P_X01b_AlwaysAChance == \A p \in Peers : "all" \in DoAccept(g, p, 0, now).res
\* the gate is off after a quiet period
P_X01a_QuietOff == (g.last = NoTime \/ now - g.last > par.quiet) => \A p \in Peers, k \in {0, M - 1} : DoAccept(g, p, k, now).res = {"all"}

P_X01d_Share  == V_Share(View(g))
P_X01e_NoLeak == V_NoLeak(View(g))
P_X01e_Conn   == V_Conn(View(g))
\* colocated peers see the same chance (they share the record or none of them has an entry yet)
P_X01d_SameChance == \A p, q \in Peers : (ipOf[p] = ipOf[q] /\ g.ps[p] # 0 /\ g.ps[q] # 0) => g.ps[p] = g.ps[q]

\* chance of the record o as a fraction
Num(o) == (S + o.d) * par.dwd
Den(o) == par.dwd * S + par.dwd * (o.d + par.iw * o.i + par.rw * o.r) + o.u
Fl(o) == (Num(o) * 1024) \div Den(o)     \* the chance in 1/1024, rounded down (cross products would overflow)
LastTick(from, to) == LET n == NTicks(from, to) IN IF n = 0 THEN NoTime ELSE NextTick(from) + (n - 1) * par.di
StepProps ==
    Len(hist') = Len(hist) + 1 =>
    LET e == hist'[Len(hist')] IN
    \* X01.b monotone: a delivery never lowers, a duplicate / ignore / reject never raises the chance of anybody
    /\ e.e = "deliver" => \A k \in Referenced(g) \ {0} : Fl(g'.ob[k]) >= Fl(g.ob[k])
    /\ (e.e = "dup" \/ (e.e = "reject" /\ e.reason \notin ThrottleReasons)) =>
          \A k \in Referenced(g) \ {0} : Fl(g'.ob[k]) <= Fl(g.ob[k])
    \* X01.c: the decision itself and the global events charge no peer
    /\ e.e \in {"validate", "accept"} \/ (e.e = "reject" /\ e.reason \in ThrottleReasons) =>
          \A k \in Referenced(g) \ {0} : g'.ob[k] = g.ob[k]
    \* X01.d: an event charged to p changes the record of p's IP only
    /\ e.e \in {"deliver", "dup", "reject"} => \A q \in Peers : (g.ps[q] # 0 /\ g.ps[q] # g'.ps[e.p]) => g'.ob[g.ps[q]] = g.ob[g.ps[q]]
    \* X01.e retention: the clock drops a record only when nobody is connected and a tick falls strictly after
    \* its expiry; a retained record is frozen; a record with a connected peer is never dropped
    /\ e.e = "adv" => \A a \in IPs : g.is[a] # 0 =>
          LET o == g.ob[g.is[a]] IN
          IF o.conn > 0 THEN g'.is[a] = g.is[a]
          ELSE /\ (g'.is[a] = 0) <=> (LastTick(now, now') > o.exp /\ (Patched => \A p \in Peers : g.ps[p] # g.is[a]))
               /\ g'.is[a] # 0 => g'.ob[g'.is[a]] = o
    \* ... and the expiry is stamped when the last connected peer goes
    /\ e.e \in {"outclose", "inclose"} => \A k \in Referenced(g) \ {0} :
          (g.ob[k].conn > 0 /\ g'.ob[k].conn = 0) => g'.ob[k].exp = now + par.retain
    \* nothing but the clock drops a record, nothing but a close drops an entry
    /\ e.e # "adv" => \A a \in IPs : g.is[a] # 0 => g'.is[a] = g.is[a]
    /\ e.e \notin {"outclose", "inclose"} => \A p \in Peers : g.ps[p] # 0 => g'.ps[p] = g.ps[p]
P_X01_Steps == [][StepProps]_vars

\* non-vacuity: the interesting situations are reachable inside the bounds (each MUST be violated)
NV_Throttled == ~(\E p \in Peers : DoAccept(g, p, M - 1, now).res = {"ctl"})
NV_Shared    == ~(\E p, q \in Peers : p # q /\ g.ps[p] # 0 /\ g.ps[p] = g.ps[q])
NV_Retained  == ~(\E a \in IPs : g.is[a] # 0 /\ g.ob[g.is[a]].conn = 0 /\ g.ob[g.is[a]].exp # NoTime /\ g.ob[g.is[a]].exp < now)
NV_Zeroed    == ~(Len(hist) > Len(WarmUp) /\ LastE.e = "adv" /\ g.gthr = 0 /\ g.last # NoTime /\ now - g.last <= par.quiet)
=============================================================================
