----------------------------- MODULE GaterParams -----------------------------
(* X01.g - WithPeerGater refuses every parameter set outside the documented domain and
   accepts every set inside it.

   The domain, from the field comments and error messages of PeerGaterParams.validate:
     Threshold > 0; GlobalDecay, SourceDecay, DecayToZero strictly between 0 and 1;
     DecayInterval >= 1s; Quiet >= 1s; DuplicateWeight > 0; IgnoreWeight >= 1; RejectWeight >= 1;
     RetainStats unconstrained ("a value of 0 means we don't retain stats").
   It is written over a grid of EXTENDED values; NaN is a member of no interval (a NaN
   threshold, decay or weight satisfies none of the documented constraints), +Inf is taken
   literally (+Inf > 0, +Inf >= 1).  Vectors: one field at a time off a valid base, and all
   pairs of float fields over the corner values.  The driver (TestX01Params) pushes every
   vector through the REAL validate(), through NewGossipSub(WithPeerGater(v)) and through
   NewFloodSub(WithPeerGater(v)); GaterParamsTrace judges
       P_X01g_Domain  == accepted by validate()  <=>  InDomain(v)
       P_X01g_Option  == NewGossipSub accepts <=> validate() accepts, and then the router has a gater;
                         NewFloodSub never accepts (the router is not gossipsub). *)
EXTENDS Integers, Sequences, FiniteSets, TLC, Json

Grid == {"NaN", "-Inf", "-1", "0", "1/2", "1", "2", "+Inf"}
Durs == {"-1ns", "0", "999ms", "1s", "2s"}
FloatFields == <<"Threshold", "GlobalDecay", "SourceDecay", "DecayToZero", "DuplicateWeight", "IgnoreWeight", "RejectWeight">>
DurFields == <<"DecayInterval", "Quiet", "RetainStats">>

Rank(x) == CASE x = "-Inf" -> 0 [] x = "-1" -> 1 [] x = "0" -> 2 [] x = "1/2" -> 3 [] x = "1" -> 4
             [] x = "2" -> 5 [] x = "+Inf" -> 6
             [] x = "-1ns" -> 1 [] x = "999ms" -> 3 [] x = "1s" -> 4 [] x = "2s" -> 5
IsNaN(x) == x = "NaN"
Gt(a, b) == ~IsNaN(a) /\ Rank(a) > Rank(b)
Ge(a, b) == ~IsNaN(a) /\ Rank(a) >= Rank(b)
Lt(a, b) == ~IsNaN(a) /\ Rank(a) < Rank(b)
Open01(x) == Gt(x, "0") /\ Lt(x, "1")

InDomain(v) ==
    /\ Gt(v.Threshold, "0")
    /\ Open01(v.GlobalDecay) /\ Open01(v.SourceDecay) /\ Open01(v.DecayToZero)
    /\ Ge(v.DecayInterval, "1s") /\ Ge(v.Quiet, "1s")
    /\ Gt(v.DuplicateWeight, "0") /\ Ge(v.IgnoreWeight, "1") /\ Ge(v.RejectWeight, "1")

Base == [Threshold |-> "1/2", GlobalDecay |-> "1/2", SourceDecay |-> "1/2", DecayToZero |-> "1/2",
         DuplicateWeight |-> "1/2", IgnoreWeight |-> "1", RejectWeight |-> "2",
         DecayInterval |-> "1s", Quiet |-> "1s", RetainStats |-> "0"]

Singles == {[Base EXCEPT ![FloatFields[i]] = x] : i \in DOMAIN FloatFields, x \in Grid}
           \cup {[Base EXCEPT ![DurFields[i]] = x] : i \in DOMAIN DurFields, x \in Durs}
Corner == {"NaN", "0", "1", "+Inf"}
Pairs == {[Base EXCEPT ![FloatFields[i]] = x, ![FloatFields[j]] = y] :
              i \in DOMAIN FloatFields, j \in DOMAIN FloatFields, x \in Corner, y \in Corner}
Vectors == Singles \cup Pairs

VARIABLE done
Init == done = FALSE
Next == ~done /\ done' = TRUE
Spec == Init /\ [][Next]_done
Emit == done => \A v \in Vectors : PrintT(<<"VEC", ToJson(v)>>)
=============================================================================
