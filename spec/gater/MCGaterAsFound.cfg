\* MUST FAIL: the bookkeeping of the pinned code violates P_X01e_NoLeak / P_X01d_Share / P_X01e_Conn / P_X01d_SameChance (findings D14, X01-F1)
SPECIFICATION Spec
CONSTANTS
  Peers = {"p1", "p2", "p3"}
  IPs = {"A", "B"}
  BugC = "none"
  Patched = FALSE
  PS = 1
  L = 4
  Warm = 0
  MaxNow = 6500
  Late = FALSE
  MaxUnmatched = 1
  MaxMoves = 1
  Sim = FALSE
  Full = FALSE
INVARIANT P_X01ab_Decision
INVARIANT P_X01b_GoodNeverThrottled
INVARIANT P_X01b_AlwaysAChance
INVARIANT P_X01a_QuietOff
INVARIANT P_X01d_Share
INVARIANT P_X01e_NoLeak
INVARIANT P_X01e_Conn
INVARIANT P_X01d_SameChance
PROPERTY P_X01_Steps
VIEW StateView
CHECK_DEADLOCK FALSE
