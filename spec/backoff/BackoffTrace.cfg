\* trace validation of recorded step lines (trace.ndjson); -workers 1
SPECIFICATION TraceSpec
CONSTRAINT HW
POSTCONDITION Accepted_
CHECK_DEADLOCK FALSE
