----------------------------- MODULE GenBackoff -----------------------------
(* Scenario generator for C08.  Backoff.tla in its Fused reading (exactly one heartbeat per
   tick, tick = 1 s = the heartbeat interval of the harness) is walked by TLC (simulation mode,
   or exhaustively for short bounds); every model step appends the CONCRETE stimuli of the common
   router replay driver (harness/drivers/router: {"cfg":{..},"acts":[..]}) to `hist`:

     Join -> subscribe T1      Leave -> cancel T1        RecvGraft(p) -> graft{p,T1}
     RecvPrune(p,b) -> prune{p,T1[,bo:b]}                HbTick -> hb
     Gate(p) -> gate{p,on} + QueueFill IHAVEs on the helper topic T2 from p (each answered with an
                IWANT: one blocks in the gated write, the others fill the queue of size QueueFill-1,
                so the next GRAFT/PRUNE to p is dropped and must be retried)
     Ungate(p) -> gate{p,off}  Down(p) -> [gate{p,off}] down{p}   Up(p) -> peer{p,..} (reconnect)
     SetScore(p,v) -> score{p,v}   SetDirect(p,on) -> direct{p,on}

   The last stimulus of a step also carries the model's prediction of the node's state after it
   (xj joined, xm mesh, xb peers with a backoff entry); the driver copies unknown keys into the
   step line, and the orchestrator compares them with the real snapshot (MODEL-DRIFT note, never a
   verdict).  The verdict comes from BackoffTrace on the recorded lines.                           *)
EXTENDS Backoff, Sequences, Json

CONSTANTS L,            \* model steps per scenario
          Topic, Helper,    \* "T1", "T2"
          QueueFill,    \* number of IHAVE fillers (= queue size + 1)
          MaxGate       \* a peer stays gated for at most this many ticks (the writer has a 30 s deadline)

VARIABLES hist, n, fill, gage
gvars == <<vars, hist, n, fill, gage>>

\* the cfg object of the scenario (keys: harness/drivers/router ConfigFrom); the queue holds
\* QueueFill - 1 RPCs, application score only, integer seconds
CfgJson == [score |-> TRUE, penWeight |-> 0, queue |-> QueueFill - 1, D |-> D, Dlo |-> Dlo, Dhi |-> Cardinality(Peers) + 1,
            Dscore |-> 1, Dout |-> 0, Dlazy |-> 2, pruneBackoffS |-> PruneBackoff, unsubBackoffS |-> UnsubBackoff,
            graftFloodS |-> GraftFlood, maxIHaveMsgs |-> 12, maxIHaveLen |-> 60, hosts |-> Cardinality(Peers) + 2]

Seq2(S) == LET RECURSIVE f(_) f(T) == IF T = {} THEN <<>> ELSE LET x == CHOOSE y \in T : TRUE IN <<x>> \o f(T \ {x}) IN f(S)
Proto(p) == IF p \in V10 THEN "v10" ELSE "v11"

Prefix ==
    LET ps == Seq2(Peers) IN
    [i \in 1..Len(ps) |-> [a |-> "peer", p |-> ps[i], proto |-> Proto(ps[i]), dir |-> "in", subs |-> <<Topic>>]]
    \o <<[a |-> "subscribe", t |-> Helper]>>
    \o [i \in 1..(InitTicks - 1) |-> [a |-> "hb"]]

GInit == Init /\ hist = Prefix /\ n = 0 /\ fill = 0 /\ gage = [p \in Peers |-> 0]

Pred == [xj |-> joined', xm |-> Seq2(mesh'), xb |-> Seq2({p \in Peers : backoff'[p] # NONE})]

Fillers(p) == [i \in 1..QueueFill |-> [a |-> "ihave", p |-> p, t |-> Helper, ids |-> <<"x" \o ToString(fill) \o "_" \o ToString(i)>>]]

Concrete ==
    LET a == act' IN
    CASE a.a = "join"   -> <<[a |-> "subscribe", t |-> Topic]>>
      [] a.a = "leave"  -> <<[a |-> "cancel", t |-> Topic]>>
      [] a.a = "graft"  -> <<[a |-> "graft", p |-> a.p, t |-> Topic]>>
      [] a.a = "prune"  -> IF a.b > 0 THEN <<[a |-> "prune", p |-> a.p, t |-> Topic, bo |-> a.b]>>
                                      ELSE <<[a |-> "prune", p |-> a.p, t |-> Topic]>>
      [] a.a = "hb"     -> <<[a |-> "hb"]>>
      [] a.a = "gate"   -> IF a.b = 1 THEN <<[a |-> "gate", p |-> a.p, on |-> TRUE]>> \o Fillers(a.p)
                                      ELSE <<[a |-> "gate", p |-> a.p, on |-> FALSE]>>
      [] a.a = "down"   -> (IF gated[a.p] THEN <<[a |-> "gate", p |-> a.p, on |-> FALSE]>> ELSE <<>>)
                           \o <<[a |-> "down", p |-> a.p]>>
      [] a.a = "up"     -> <<[a |-> "peer", p |-> a.p, dir |-> "in", subs |-> <<Topic>>]>>
      [] a.a = "score"  -> <<[a |-> "score", p |-> a.p, v |-> a.b]>>
      [] a.a = "direct" -> <<[a |-> "direct", p |-> a.p, on |-> (a.b = 1)]>>

WithPred(s) == [i \in 1..Len(s) |-> IF i = Len(s) THEN s[i] @@ Pred ELSE s[i]]

GStep ==
    /\ n < L /\ Next
    /\ n' = n + 1
    /\ hist' = hist \o WithPred(Concrete)
    /\ fill' = IF act'.a = "gate" /\ act'.b = 1 THEN fill + 1 ELSE fill
    /\ gage' = [p \in Peers |-> IF ~gated'[p] THEN 0 ELSE IF act'.a = "hb" THEN gage[p] + 1 ELSE gage[p]]
    /\ \A p \in Peers : gage'[p] <= MaxGate

\* a history that has reached the length bound is emitted by a step of its own (in simulation mode
\* TLC evaluates invariants on every candidate successor, an action only on the state it chose)
GEmit ==
    /\ n = L /\ PrintT(<<"SCN", ToJson([cfg |-> CfgJson, acts |-> hist])>>)
    /\ n' = L + 1 /\ UNCHANGED <<vars, hist, fill, gage>>

GNext == GStep \/ GEmit
GSpec == GInit /\ [][GNext]_gvars
=============================================================================
