---------------------------- MODULE BackoffTrace ----------------------------
(* Trace specification for C08 over the common router step-line format
   (harness/world: one line per stimulus with the ordered tracer events `ev`,
   the frames every fake peer received `out`, and the post-snapshot `st`).

   The replay is deterministic, so there is exactly one explanation: the cursor
   `l` walks the file and the INDEPENDENT monitor of Backoff.tla

       bo[t,p]    earliest instant (virtual ms) at which the node may GRAFT p on t
       lp[t,p]    the instant the running backoff was started
       kind[t,p]  "std" | "peer" | "unsub"

   is maintained from EVENTS, only in the four situations the property names:
     (1) tracer Prune(p,t) that is neither part of a Leave(t) nor the handling of a PRUNE
         received from p in the same step (= the node's own initiative, heartbeat)
                                                          bo >= tau + PruneBackoff
     (2) tracer Leave(t): every member of the pre-step mesh   bo >= tau + UnsubBackoff
     (3) Recv of PRUNE(t,b) from p while t is joined (mesh key in the previous line's st) and the
         RPC is accepted (p direct or score >= graylist)      bo >= tau + (b > 0 ? b s : PruneBackoff)
     (4) Recv of GRAFT(t) from p refused BECAUSE tau < bo     bo >= tau + PruneBackoff
   tau is the event's own timestamp.  The code computes expiries from time.Now() inside the
   same event-loop turn, and virtual time does not move inside a turn, so no tolerance is
   needed: a GRAFT at the expiry instant itself is legal (>=).

   Judged on every line (a failing predicate is printed as <<"VIOL", json>> and the walk goes
   on, so one run lists every failure):
     P_C08_NoEarlyGraft        every GRAFT(t) in a Send event (queue push: first send, piggybacked
                               retry, flush) to p has tau >= bo[t,p]; every GRAFT frame on the wire
                               is accounted for by such a push
     P_C08_Refuse              a GRAFT(t) received from p with t joined, p not in mesh[t], p not direct,
                               RPC accepted, tau < bo[t,p]:  p not in mesh'[t]; PRUNE(t) to p pushed or
                               kept for retry (if p has a queue); the node's backoff entry >= tau +
                               PruneBackoff; penalty delta = 1 + flood when the running backoff is a
                               standard one (flood: tau < lp + GraftFlood), in {1,2} otherwise - also when a
                               LATER branch of handleGraft (negative score, mesh at Dhi with an inbound peer)
                               would refuse the GRAFT anyway
     P_C08_PruneStatesBackoff  every PRUNE pushed (or dropped at a full queue, or on the wire) to a
                               v1.1+ peer states the backoff: the unsubscribe backoff when caused by
                               Leave, else the prune backoff (a retried PRUNE keeps its value)
     P_C08_KeepLater           while bo[t,p] lies in the future the node's own entry exists and is not
                               earlier (a shorter backoff never shortens a running longer one, the
                               sweep never drops an unexpired entry); the monitor never decreases
   PRUNEs with a backoff to v1.0 peers are only reported as <<"NOTE", ..>> (the property does not
   forbid them).  Coverage facts are printed as <<"COV", json>>.                                   *)
EXTENDS Integers, Sequences, FiniteSets, TLC, Json, SequencesExt

Trace == ndJsonDeserialize("trace.ndjson")

VARIABLES l,        \* cursor
          bo, lp, kind,   \* the monitor: functions over <<topic, peer>> (absent = 0 / "std")
          proto,    \* peer -> protocol id, from Up events
          retry,    \* <<peer, topic, backoff, hasBackoff>> of PRUNEs that were dropped at a full queue
          sentG, recvG,   \* <<topic, peer>> -> number of GRAFTs pushed / seen on the wire
          cfg       \* parameters of the current scenario (reset line)

tvars == <<l, bo, lp, kind, proto, retry, sentG, recvG, cfg>>

E    == Trace[l]
More == l <= Len(Trace)
Pre  == Trace[l - 1].st        \* never used on a reset line

Get(f, k, d) == IF k \in DOMAIN f THEN f[k] ELSE d
Put(f, k, v) == [x \in (DOMAIN f) \cup {k} |-> IF x = k THEN v ELSE f[x]]
Rng(s)       == {s[i] : i \in DOMAIN s}
Members(st, t) == IF "mesh" \in DOMAIN st /\ t \in DOMAIN st.mesh THEN Rng(st.mesh[t]) ELSE {}
Joined(st, t)  == "mesh" \in DOMAIN st /\ t \in DOMAIN st.mesh
V11(pr) == pr \in {"/meshsub/1.1.0", "/meshsub/1.2.0", "/meshsub/1.3.0"}
MeshProto(pr) == pr \in {"/meshsub/1.0.0", "/meshsub/1.1.0", "/meshsub/1.2.0", "/meshsub/1.3.0"}
ScoreOf(st, p) == IF "scores" \in DOMAIN st THEN Get(st.scores, p, 0) ELSE 0
IsDirect(st, p) == "direct" \in DOMAIN st /\ p \in Rng(st.direct)
\* AcceptFrom: direct peers always; otherwise the score must reach the graylist threshold
Accepted(st, p) == IsDirect(st, p) \/ ~cfg.score \/ ScoreOf(st, p) >= cfg.gray
HasQueue(st, p) == p \in DOMAIN st.peers /\ p \in DOMAIN st.gsPeers
ImplBo(st, t, p) == IF "backoff" \in DOMAIN st /\ t \in DOMAIN st.backoff /\ p \in DOMAIN st.backoff[t]
                    THEN st.backoff[t][p] ELSE -1

-----------------------------------------------------------------------------
(* the fold over the events of one line; a = accumulator *)

Raise(a, t, S, v, k, tau) ==
    LET keys == {<<t, p>> : p \in {q \in S : v > Get(a.bo, <<t, q>>, 0)}}
    IN [a EXCEPT !.bo   = [x \in (DOMAIN a.bo) \cup keys   |-> IF x \in keys THEN v   ELSE a.bo[x]],
                 !.lp   = [x \in (DOMAIN a.lp) \cup keys   |-> IF x \in keys THEN tau ELSE a.lp[x]],
                 !.kind = [x \in (DOMAIN a.kind) \cup keys |-> IF x \in keys THEN k   ELSE a.kind[x]]]

Rep(a, tag, r) == [a EXCEPT !.rep = @ \cup {<<tag, r>>}]

\* one PRUNE entry pr inside an RPC pushed to (or dropped for) p
CheckPrune(a, e, pr) ==
    LET pv  == Get(a.proto, e.p, "")
        exp == IF pr.topic \in a.left THEN cfg.ub ELSE cfg.pb
        ok  == pr.hasBackoff /\ (pr.backoff * 1000 = exp \/ <<e.p, pr.topic, pr.backoff, pr.hasBackoff>> \in a.retry)
        a1  == IF V11(pv) /\ ~ok
                 THEN Rep(a, "VIOL", [pred |-> "P_C08_PruneStatesBackoff", what |-> "push", ev |-> e.k, p |-> e.p, topic |-> pr.topic,
                                      t |-> e.t, hasBackoff |-> pr.hasBackoff, backoff |-> pr.backoff, want_ms |-> exp, proto |-> pv])
               ELSE IF pv # "" /\ ~V11(pv) /\ pr.hasBackoff
                 THEN Rep(a, "NOTE", [what |-> "PRUNE to a pre-v1.1 peer states a backoff", p |-> e.p, proto |-> pv])
               ELSE a
        a2  == IF V11(pv) THEN Rep(a1, "COV", [c |-> "prune-sent", unsub |-> (pr.topic \in a.left), ev |-> e.k]) ELSE
               IF pv # "" THEN Rep(a1, "COV", [c |-> "prune-sent-v10", unsub |-> (pr.topic \in a.left), ev |-> e.k]) ELSE a1
    IN IF e.k = "Drop" THEN [a2 EXCEPT !.retry = @ \cup {<<e.p, pr.topic, pr.backoff, pr.hasBackoff>>}] ELSE a2

\* site of a GRAFT push, for coverage only
Site(a, e, t) ==
    IF t \in a.joinedNow THEN (IF "fanout" \in DOMAIN Pre /\ t \in DOMAIN Pre.fanout THEN "join-promo" ELSE "join")
    ELSE IF e.p \in DOMAIN Pre.control /\ t \in Rng(Pre.control[e.p].graft)
           THEN (IF E.hb > 0 THEN "retry-flush" ELSE "retry-piggyback")
    ELSE IF <<e.p, t>> \in a.droppedNow THEN "retry-flush"
    ELSE IF E.hb > 0
           THEN (IF Cardinality(Members(Pre, t) \ a.prunedNow) < cfg.Dlo THEN "hb-under"
                 ELSE IF Get(Pre.outbound, e.p, FALSE) /\ ~\E q \in Members(Pre, t) : Get(Pre.outbound, q, FALSE) THEN "hb-outbound"
                 ELSE "hb-opportunistic")
    ELSE "other"

GraftPush(a, e, t) ==
    LET key == <<t, e.p>>
        b   == Get(a.bo, key, 0)
        a1  == IF e.t < b
                 THEN Rep(a, "VIOL", [pred |-> "P_C08_NoEarlyGraft", what |-> "push", p |-> e.p, topic |-> t, t |-> e.t, bo |-> b,
                                      kind |-> Get(a.kind, key, "std"), since |-> Get(a.lp, key, 0), site |-> Site(a, e, t)])
                 ELSE a
    IN Rep([a1 EXCEPT !.sentG = Put(@, key, Get(@, key, 0) + 1)],
           "COV", [c |-> "graft", site |-> Site(a, e, t), had |-> (b > 0), kind |-> Get(a.kind, key, "std")])

EvSend(a, e) ==
    LET a1 == FoldLeft(LAMBDA x, t : GraftPush(x, e, t), a, e.rpc.graft)
    IN FoldLeft(LAMBDA x, pr : CheckPrune(x, e, pr), a1, e.rpc.prune)

EvDrop(a, e) ==
    LET a1 == FoldLeft(LAMBDA x, pr : CheckPrune(x, e, pr), a, e.rpc.prune)
    IN [a1 EXCEPT !.droppedNow = @ \cup {<<e.p, t>> : t \in Rng(e.rpc.graft)}]

\* a GRAFT(t) received from e.p
RecvGraft(a, e, t) ==
    LET p    == e.p
        key  == <<t, p>>
        b    == Get(a.bo, key, 0)
        app  == /\ Joined(Pre, t) /\ p \notin Members(Pre, t) /\ ~IsDirect(Pre, p) /\ Accepted(Pre, p)
                /\ e.t < b
        k    == Get(a.kind, key, "std")
        fl   == e.t < Get(a.lp, key, 0) + cfg.gf
        pruned == \E j \in DOMAIN E.ev : /\ E.ev[j].n > e.n /\ E.ev[j].k \in {"Send", "Drop"} /\ E.ev[j].p = p
                                         /\ \E i \in DOMAIN E.ev[j].rpc.prune : E.ev[j].rpc.prune[i].topic = t
        penOk == cfg.score /\ cfg.penW = 0 /\ E.hb = 0 /\ Len(e.rpc.graft) = 1
                 /\ p \in DOMAIN Pre.pen /\ p \in DOMAIN E.st.pen
        d    == IF penOk THEN E.st.pen[p] - Pre.pen[p] ELSE 0
        want == IF fl THEN 2 ELSE 1
        bad  == (IF p \in Members(E.st, t) THEN {"admitted to the mesh"} ELSE {})
                \cup (IF HasQueue(Pre, p) /\ HasQueue(E.st, p) /\ ~pruned THEN {"no PRUNE pushed or kept for retry"} ELSE {})
                \cup (IF ImplBo(E.st, t, p) < e.t + cfg.pb THEN {"backoff not extended"} ELSE {})
                \cup (IF penOk /\ (IF k = "std" THEN d # want ELSE d \notin {1, 2}) THEN {"penalty"} ELSE {})
        a1   == IF app /\ bad # {}
                  THEN Rep(a, "VIOL", [pred |-> "P_C08_Refuse", p |-> p, topic |-> t, t |-> e.t, bo |-> b, kind |-> k,
                                       since |-> Get(a.lp, key, 0), flood |-> fl, pen_delta |-> d, pen_checked |-> penOk,
                                       impl_backoff |-> ImplBo(E.st, t, p), bad |-> bad])
                  ELSE a
        \* which of the refusal branches that FOLLOW the backoff check in handleGraft would also have refused
        \* this GRAFT (the penalty is due whatever else would refuse it; only peerFilter, unknown topic,
        \* already-in-mesh and direct peer precede the backoff check, and those are excluded by `app`)
        full == Cardinality(Members(Pre, t)) >= cfg.Dhi /\ ~Get(Pre.outbound, p, FALSE)
        neg  == ScoreOf(Pre, p) < 0
        a2   == IF app THEN Rep(a1, "COV", [c |-> "refuse", flood |-> fl, kind |-> k, pen |-> penOk, full |-> full, neg |-> neg]) ELSE a1
    IN IF app THEN Raise(a2, t, {p}, e.t + cfg.pb, "std", e.t) ELSE a2                         \* (4)

\* a PRUNE entry received from e.p
RecvPrune(a, e, pr) ==
    LET t == pr.topic
        v == e.t + (IF pr.backoff > 0 THEN pr.backoff * 1000 ELSE cfg.pb)
        k == IF pr.backoff > 0 /\ pr.backoff * 1000 # cfg.pb THEN "peer" ELSE "std"
    IN IF Joined(Pre, t) /\ Accepted(Pre, e.p)
         THEN LET a1 == Raise(a, t, {e.p}, v, k, e.t)                                            \* (3)
                  rel == IF pr.backoff = 0 THEN "absent" ELSE IF pr.backoff * 1000 > cfg.pb THEN "longer"
                         ELSE IF pr.backoff * 1000 < cfg.pb THEN "shorter" ELSE "equal"
              IN Rep([a1 EXCEPT !.rp = @ \cup {<<e.p, t>>}], "COV",
                     [c |-> "prune-recv", rel |-> rel, running |-> (Get(a.bo, <<t, e.p>>, 0) > e.t),
                      kept |-> (Get(a.bo, <<t, e.p>>, 0) > v)])
         ELSE a

EvRecv(a, e) ==
    LET a1 == FoldLeft(LAMBDA x, t : RecvGraft(x, e, t), a, e.rpc.graft)
    IN FoldLeft(LAMBDA x, pr : RecvPrune(x, e, pr), a1, e.rpc.prune)

EvLeave(a, e) ==
    [Raise(a, e.topic, Members(Pre, e.topic), e.t + cfg.ub, "unsub", e.t) EXCEPT !.left = @ \cup {e.topic}]     \* (2)

EvPrune(a, e) ==
    IF e.topic \in a.left \/ <<e.p, e.topic>> \in a.rp THEN a
    ELSE [Raise(a, e.topic, {e.p}, e.t + cfg.pb, "std", e.t) EXCEPT !.prunedNow = @ \cup {e.p}]               \* (1)

EvJoin(a, e) ==
    LET t == e.topic
        under == {k \in DOMAIN a.bo : k[1] = t /\ a.bo[k] > e.t}
        a1 == [a EXCEPT !.joinedNow = @ \cup {t}]
    IN IF \E k \in under : a.kind[k] = "unsub" THEN Rep(a1, "COV", [c |-> "rejoin-in-unsub"]) ELSE a1

StepEv(a, e) ==
    CASE e.k = "Up"    -> [a EXCEPT !.proto = Put(@, e.p, e.proto)]
      [] e.k = "Leave" -> EvLeave(a, e)
      [] e.k = "Join"  -> EvJoin(a, e)
      [] e.k = "Recv"  -> EvRecv(a, e)
      [] e.k = "Prune" -> EvPrune(a, e)
      [] e.k = "Send"  -> EvSend(a, e)
      [] e.k = "Drop"  -> EvDrop(a, e)
      [] OTHER         -> a

\* frames on the wire: every GRAFT frame must be accounted for by a (checked) push; PRUNE frames are
\* checked loosely (the cause of a delayed frame is not known any more)
WireGrafts(p) == [t \in UNION {Rng(E.out[p][i].graft) : i \in DOMAIN E.out[p]} |->
                     Cardinality({i \in DOMAIN E.out[p] : t \in Rng(E.out[p][i].graft)})]
Frames(a) ==
    LET ps == DOMAIN E.out
        keys == UNION {{<<t, p>> : t \in DOMAIN WireGrafts(p)} : p \in ps}
        rg == [k \in (DOMAIN a.recvG) \cup keys |-> Get(a.recvG, k, 0) + (IF k \in keys THEN WireGrafts(k[2])[k[1]] ELSE 0)]
        badG == {k \in keys : rg[k] > Get(a.sentG, k, 0)}
        badP == {<<p, i, j>> \in UNION {UNION {{<<p, i, j>> : j \in DOMAIN E.out[p][i].prune} : i \in DOMAIN E.out[p]} : p \in ps} :
                    LET pr == E.out[p][i].prune[j] IN
                    V11(Get(a.proto, p, "")) /\ ~(pr.hasBackoff /\ pr.backoff * 1000 \in {cfg.pb, cfg.ub})}
        a1 == [a EXCEPT !.recvG = rg]
        a2 == IF badG = {} THEN a1 ELSE
              Rep(a1, "VIOL", [pred |-> "P_C08_NoEarlyGraft", what |-> "wire", keys |-> badG, t |-> E.t])
    IN IF badP = {} THEN a2 ELSE
       Rep(a2, "VIOL", [pred |-> "P_C08_PruneStatesBackoff", what |-> "wire", frames |-> badP, t |-> E.t])

\* the node's own bookkeeping must cover the monitor while the deadline lies in the future
StateCheck(a) ==
    LET bad == {k \in DOMAIN a.bo : a.bo[k] > E.st.now /\ ImplBo(E.st, k[1], k[2]) < a.bo[k]}
    IN IF bad = {} THEN a ELSE
       Rep(a, "VIOL", [pred |-> "P_C08_KeepLater", what |-> "entry", t |-> E.t, act |-> E.act.a, hb |-> E.hb,
                       keys |-> {[topic |-> k[1], p |-> k[2], bo |-> a.bo[k], kind |-> a.kind[k], impl |-> ImplBo(E.st, k[1], k[2])] : k \in bad}])

-----------------------------------------------------------------------------
(* coverage facts that need the monitor (everything else is counted by the orchestrator) *)

Eligible(st, p) == /\ p \in DOMAIN st.gsPeers /\ MeshProto(st.gsPeers[p]) /\ ~IsDirect(st, p)
TopicPeers(st, t) == IF t \in DOMAIN st.topics THEN Rng(st.topics[t]) ELSE {}
Median(st, S) ==   \* the score at index |S| \div 2 of the ascending order (heartbeat's medianScore)
    LET n == Cardinality(S) \div 2
    IN CHOOSE v \in {ScoreOf(st, q) : q \in S} :
          /\ Cardinality({q \in S : ScoreOf(st, q) < v}) <= n
          /\ n < Cardinality({q \in S : ScoreOf(st, q) <= v})

Cover(a) ==
    LET Q == E.st
        \* peers a graft site looked at in this step and skipped only because of the backoff
        skippedJoin == {<<t, p>> \in UNION {{<<t, p>> : p \in TopicPeers(Pre, t)} : t \in a.joinedNow} :
                           /\ Eligible(Pre, p) /\ ScoreOf(Pre, p) >= 0 /\ Get(a.bo, <<t, p>>, 0) > E.t
                           /\ Joined(Q, t) /\ p \notin Members(Q, t) /\ Cardinality(Members(Q, t)) < cfg.D}
        hbT == IF E.act.a = "hb" /\ E.hb = 1 THEN {t \in DOMAIN Pre.mesh : Joined(Q, t)} ELSE {}
        skippedHb == {<<t, p>> \in UNION {{<<t, p>> : p \in TopicPeers(Pre, t)} : t \in hbT} :
                           /\ Eligible(Q, p) /\ p \notin Members(Q, t) /\ Get(a.bo, <<t, p>>, 0) > E.t}
        siteOf(t, p) ==
            LET M == Members(Q, t) IN
            IF ScoreOf(Q, p) >= 0 /\ Cardinality(M) < cfg.Dlo THEN "hb-under"
            ELSE IF ScoreOf(Q, p) >= 0 /\ cfg.Dout > 0 /\ Get(Q.outbound, p, FALSE) /\ ~\E q \in M : Get(Q.outbound, q, FALSE) THEN "hb-outbound"
            ELSE IF cfg.oppTicks > 0 /\ Q.ticks % cfg.oppTicks = 0 /\ Cardinality(M) > 1 /\ Median(Q, M) < cfg.oppThr
                    /\ ScoreOf(Q, p) > Median(Q, M) THEN "hb-opportunistic"
            ELSE "none"
        stale == {<<p, t>> \in UNION {{<<p, t>> : t \in Rng(Pre.control[p].graft)} : p \in DOMAIN Pre.control} :
                    /\ Get(a.bo, <<t, p>>, 0) > E.t
                    /\ ~(p \in DOMAIN Q.control /\ t \in Rng(Q.control[p].graft))
                    /\ Get(a.sentG, <<t, p>>, 0) = Get(sentG, <<t, p>>, 0)}
        sweep == E.hb > 0 /\ "ticks" \in DOMAIN Q /\ Q.ticks % 15 = 0
        a1 == IF skippedJoin = {} THEN a ELSE
              Rep(a, "COV", [c |-> "filtered", site |-> IF \E k \in skippedJoin : "fanout" \in DOMAIN Pre /\ k[1] \in DOMAIN Pre.fanout THEN "join-promo" ELSE "join"])
        a2 == FoldLeft(LAMBDA x, s : IF s = "none" THEN x ELSE Rep(x, "COV", [c |-> "filtered", site |-> s]), a1,
                       SetToSeq({siteOf(k[1], k[2]) : k \in skippedHb}))
        a3 == IF stale = {} THEN a2 ELSE Rep(a2, "COV", [c |-> "filtered", site |-> IF E.hb > 0 THEN "retry-flush" ELSE "retry-piggyback"])
        a4 == IF sweep /\ \E k \in DOMAIN a.bo : a.bo[k] > E.t THEN Rep(a3, "COV", [c |-> "sweep-unexpired"]) ELSE a3
    IN IF sweep /\ \E k \in DOMAIN a.bo : a.bo[k] <= E.t /\ ImplBo(Pre, k[1], k[2]) >= 0 /\ ImplBo(Q, k[1], k[2]) < 0
         THEN Rep(a4, "COV", [c |-> "sweep-expired-removed"]) ELSE a4

-----------------------------------------------------------------------------
TInit == /\ TLCSet(1, 0)
         /\ l = 1 /\ bo = <<>> /\ lp = <<>> /\ kind = <<>> /\ proto = <<>> /\ retry = {}
         /\ sentG = <<>> /\ recvG = <<>>
         /\ cfg = [pb |-> 0, ub |-> 0, gf |-> 0, gray |-> 0, score |-> FALSE, penW |-> 0, D |-> 0, Dlo |-> 0, Dhi |-> 0, Dout |-> 0,
                   oppTicks |-> 0, oppThr |-> 0, scn |-> 0]

TReset ==
    /\ More /\ E.act.a = "reset"
    /\ LET c == E.act.cfg IN
       cfg' = [pb |-> c.pruneBackoffMs, ub |-> c.unsubBackoffMs, gf |-> c.graftFloodMs, gray |-> c.thr.graylist,
               score |-> c.score, penW |-> c.penWeight, D |-> c.D, Dlo |-> c.Dlo, Dhi |-> c.Dhi, Dout |-> c.Dout,
               oppTicks |-> c.oppTicks, oppThr |-> c.thr.oppGraft, scn |-> E.scn]
    /\ bo' = <<>> /\ lp' = <<>> /\ kind' = <<>> /\ proto' = <<>> /\ retry' = {} /\ sentG' = <<>> /\ recvG' = <<>>
    /\ l' = l + 1

TStep ==
    /\ More /\ E.act.a # "reset"
    /\ LET a0 == [bo |-> bo, lp |-> lp, kind |-> kind, proto |-> proto, retry |-> retry, sentG |-> sentG, recvG |-> recvG,
                  left |-> {}, rp |-> {}, joinedNow |-> {}, prunedNow |-> {}, droppedNow |-> {}, rep |-> {}]
           a1 == IF E.st.dead \/ Pre.dead THEN a0
                 ELSE Cover(StateCheck(Frames(FoldLeft(StepEv, a0, E.ev))))
       IN /\ \A r \in a1.rep : PrintT(<<r[1], ToJson([scn |-> cfg.scn, i |-> E.i, line |-> l] @@ r[2])>>)
          /\ \A k \in DOMAIN bo : a1.bo[k] >= bo[k]       \* the monitor never decreases (by construction)
          /\ bo' = a1.bo /\ lp' = a1.lp /\ kind' = a1.kind /\ proto' = a1.proto /\ retry' = a1.retry
          /\ sentG' = a1.sentG /\ recvG' = a1.recvG
    /\ l' = l + 1 /\ UNCHANGED cfg

TNext == TReset \/ TStep
TraceSpec == TInit /\ [][TNext]_tvars

\* high-water mark of the cursor (needs -workers 1)
HW == IF TLCGet(1) < l THEN TLCSet(1, l) ELSE TRUE
Accepted_ == PrintT(<<"HW", TLCGet(1), Len(Trace) + 1>>)
=============================================================================
