------------------------------ MODULE Backoff ------------------------------
(* C08 - prune backoff is honoured in both directions.

   A focused model of ONE gossipsub node (go-libp2p-pubsub, gossipsub.go) and
   its handling of the prune backoff for ONE topic and a few peers:

     backoff[p]   the node's own bookkeeping (gs.backoff[topic][p]; NONE = no map entry)
     ctl[p]       GRAFT/PRUNE whose RPC was dropped (queue full) and wait for a retry
                  (gs.control[p]; piggybackControl drops stale ones)
     mesh, joined, up, score, direct, gated (a "slow peer": every push is dropped)

   and, next to it, the INDEPENDENT monitor the property is stated over (it is
   never consulted by the actions):

     bo[p]     earliest time at which the node may GRAFT p
     lp[p]     the instant the running backoff was started (last prune / refusal)
     kind[p]   "std" | "peer" (period named in the received PRUNE) | "unsub"

   The monitor moves only in the four situations the property names:
     (1) the node prunes p on its own initiative (heartbeat)   bo >= now + PruneBackoff
     (2) the node leaves the topic, for every mesh member       bo >= now + UnsubBackoff
     (3) a PRUNE(b) is received from p while joined             bo >= now + (b > 0 ? b : PruneBackoff)
     (4) a GRAFT from p is refused BECAUSE now < bo[p]          bo >= now + PruneBackoff
   Refusals for other reasons (direct peer, negative score) do not move it.

   Time is an integer clock.  In the exhaustive configuration (Fused = FALSE)
   Tick and Heartbeat are independent, so a heartbeat may fall on any instant
   relative to the deadlines, and the clock is unbounded (see View).  In the
   generator configurations (Fused = TRUE) a heartbeat happens exactly once per
   tick, like the real timer, so that a history maps to a replayable scenario
   (tick = 1 s = heartbeat interval; SweepEvery = 15, Slack = 2 as in the code).

   Note that the code tests the PRESENCE of a map entry at its graft sites
   (`_, doBackoff := backoff[p]`), not its expiry: after the deadline the node
   still waits for the next sweep (every 15th heartbeat, entries expired for
   more than 2 heartbeat intervals) before it grafts the peer again.

   Bug selects one seeded defect; "none" is the code as read.  Every other
   value must make the named property fail (non-vacuity; bin/lib/props/c08.py
   MUST_FAIL, MCBackoffBug.cfg).  FlushFilter = FALSE is the code AS FOUND at
   the pinned commit (defect D17: flush() re-sent dropped GRAFTs without the
   staleness check; repaired in /repo by commit 2980a5c) and must fail
   P_C08_NoEarlyGraft as well (MCBackoffAsFound.cfg). *)
EXTENDS Integers, FiniteSets, TLC

CONSTANTS Peers,          \* peer names
          V10,            \* the peers that speak gossipsub v1.0 (PRUNE carries no backoff)
          PruneBackoff, UnsubBackoff, GraftFlood,
          SweepEvery, Slack,   \* clearBackoff: every SweepEvery-th heartbeat, entries expired by more than Slack
          BVals,          \* explicit backoffs a remote PRUNE may name (0 = absent is always possible)
          D, Dlo,         \* mesh degree target / low watermark
          InitTicks,      \* heartbeats that happened before the history starts (aligns the sweep with the real tick counter)
          MaxNow,         \* Fused only: clock bound (the exhaustive configuration is unbounded, see View)
          MaxStim,        \* Fused only: at most this many stimuli between two heartbeats (0 = unbounded)
          Fused,          \* TRUE: Tick and Heartbeat are one step
          GatePeers, DownPeers, ScorePeers, DirectPeers,   \* which peers can be slow / disconnect / change score / be made direct
          FlushFilter,    \* TRUE: flush() applies the staleness filter to retried GRAFT/PRUNE (repaired, 2980a5c); FALSE: as found (D17)
          Bug

VARIABLES now, ticks, joined, mesh, up, score, direct, gated, backoff, ctl,   \* the node
          bo, lp, kind,                                                      \* the monitor
          sent,   \* output of the last step: set of [to, k, b, why, drop, retry]
          rf,     \* the last step was a received GRAFT: what the monitor says about it
          act,    \* label of the last step (the stimulus), for the scenario generator
          stim    \* stimuli since the last heartbeat (Fused only)

vars == <<now, ticks, joined, mesh, up, score, direct, gated, backoff, ctl, bo, lp, kind, sent, rf, act, stim>>

NONE == -1
Min(a, b) == IF a < b THEN a ELSE b
Max(a, b) == IF a > b THEN a ELSE b
NoRf == [app |-> FALSE, p |-> "", flood |-> FALSE, kind |-> "std", dpen |-> 0, pre |-> 0]

-----------------------------------------------------------------------------
(* the node's bookkeeping *)

\* doAddBackoff: keep the later expiry
AddBo(cur, exp) == IF Bug = "overwrite" THEN exp ELSE IF cur < exp THEN exp ELSE cur

\* makePrune: the backoff stated in a PRUNE (0 = field absent)
Stated(p, unsub) ==
    IF p \in V10 \/ Bug = "noStateBo" THEN 0
    ELSE IF unsub THEN UnsubBackoff ELSE PruneBackoff

\* sendRPC to p of fresh control items while p's retry set is c and the mesh is m:
\* piggybackControl keeps a retried GRAFT only if p is (still) in the mesh and a retried PRUNE
\* only if it is not; a full queue drops the whole RPC and pushControl keeps GRAFT/PRUNE for retry.
\* flush() (end of the heartbeat) re-sent what was still waiting WITHOUT that filter in the code as found
\* (defect D17: it deleted gs.control[p] before calling sendRPC); FlushFilter = TRUE is the repaired code.
Push(p, items, m, filter) ==
    LET keep == {x \in ctl[p] : \/ ~filter
                                \/ x.k = "graft" /\ (p \in m \/ Bug = "staleGraft")
                                \/ x.k = "prune" /\ p \notin m}
        all  == {[k |-> x.k, b |-> x.b, why |-> x.why, retry |-> FALSE] : x \in items}
                \cup {[k |-> x.k, b |-> x.b, why |-> x.why, retry |-> TRUE] : x \in keep}
    IN IF ~up[p] \/ all = {} THEN [out |-> {}, ctl |-> {}]
       ELSE [out |-> {[to |-> p, k |-> x.k, b |-> x.b, why |-> x.why, drop |-> gated[p], retry |-> x.retry] : x \in all},
             ctl |-> IF gated[p] THEN {[k |-> x.k, b |-> x.b, why |-> x.why] : x \in all} ELSE {}]

G(site)      == [k |-> "graft", b |-> 0, why |-> "graft"]
P(p, unsub)  == [k |-> "prune", b |-> Stated(p, unsub), why |-> IF unsub THEN "leave" ELSE "std"]

\* apply R(p) (a Push result or "untouched") to every peer
Untouched(p) == [out |-> {}, ctl |-> ctl[p]]
Deliver(R(_)) == /\ sent' = UNION {R(p).out : p \in Peers}
                 /\ ctl' = [p \in Peers |-> R(p).ctl]

\* the monitor
MRaise(S, v, k, tau) ==
    /\ bo'   = [p \in Peers |-> IF p \in S /\ v > bo[p] THEN v ELSE bo[p]]
    /\ lp'   = [p \in Peers |-> IF p \in S /\ v > bo[p] THEN tau ELSE lp[p]]
    /\ kind' = [p \in Peers |-> IF p \in S /\ v > bo[p] THEN k ELSE kind[p]]
MSame == UNCHANGED <<bo, lp, kind>>

Stimulus == IF Fused /\ MaxStim > 0 THEN stim < MaxStim /\ stim' = stim + 1 ELSE UNCHANGED stim

-----------------------------------------------------------------------------
Init ==
    /\ now = 0 /\ ticks = InitTicks % SweepEvery /\ joined = FALSE /\ mesh = {}
    /\ up = [p \in Peers |-> TRUE] /\ score = [p \in Peers |-> 0] /\ direct = {}
    /\ gated = [p \in Peers |-> FALSE]
    /\ backoff = [p \in Peers |-> NONE] /\ ctl = [p \in Peers |-> {}]
    /\ bo = [p \in Peers |-> 0] /\ lp = [p \in Peers |-> 0] /\ kind = [p \in Peers |-> "std"]
    /\ sent = {} /\ rf = NoRf /\ act = [a |-> "init", p |-> "", b |-> 0] /\ stim = 0

\* Join (fresh selection; fanout promotion applies the same backoff filter)
Join ==
    /\ ~joined /\ Stimulus
    /\ LET cands == {p \in Peers : up[p] /\ p \notin direct /\ score[p] >= 0
                                   /\ (Bug = "joinFilter" \/ backoff[p] = NONE)}
       IN \E S \in SUBSET cands :
            /\ Cardinality(S) = Min(D, Cardinality(cands))
            /\ mesh' = S
            /\ Deliver(LAMBDA p : IF p \in S THEN Push(p, {G("join")}, S, TRUE) ELSE Untouched(p))
    /\ joined' = TRUE /\ rf' = NoRf /\ act' = [a |-> "join", p |-> "", b |-> 0]
    /\ MSame /\ UNCHANGED <<now, ticks, up, score, direct, gated, backoff>>

\* Leave: PRUNE (unsubscribe backoff) to every mesh member, and remember it
Leave ==
    /\ joined /\ Stimulus
    /\ joined' = FALSE /\ mesh' = {}
    /\ Deliver(LAMBDA p : IF p \in mesh THEN Push(p, {P(p, TRUE)}, {}, TRUE) ELSE Untouched(p))
    /\ backoff' = [p \in Peers |-> IF p \in mesh
                                     THEN AddBo(backoff[p], now + (IF Bug = "leaveStd" THEN PruneBackoff ELSE UnsubBackoff))
                                     ELSE backoff[p]]
    /\ MRaise(mesh, now + UnsubBackoff, "unsub", now)                              \* (2)
    /\ rf' = NoRf /\ act' = [a |-> "leave", p |-> "", b |-> 0]
    /\ UNCHANGED <<now, ticks, up, score, direct, gated>>

\* handleGraft
RecvGraft(p) ==
    /\ up[p] /\ Stimulus
    /\ act' = [a |-> "graft", p |-> p, b |-> 0]
    /\ LET app   == joined /\ p \notin mesh /\ p \notin direct /\ now < bo[p]    \* the monitor's view, before the step
           flood == now < lp[p] + GraftFlood
           inBo  == backoff[p] # NONE /\ now < backoff[p]
           cut   == IF Bug = "floodSign" THEN backoff[p] + PruneBackoff - GraftFlood
                                         ELSE backoff[p] + GraftFlood - PruneBackoff
           pen   == 1 + (IF now < cut /\ Bug # "onePenalty" THEN 1 ELSE 0)
           reply == Deliver(LAMBDA q : IF q = p THEN Push(p, {P(p, FALSE)}, mesh, TRUE) ELSE Untouched(q))
       IN /\ IF app THEN MRaise({p}, now + PruneBackoff, "std", now) ELSE MSame      \* (4)
          /\ IF ~joined \/ p \in mesh
               THEN /\ UNCHANGED <<mesh, backoff, ctl>> /\ sent' = {}
                    /\ rf' = [NoRf EXCEPT !.app = app, !.p = p]
             ELSE IF p \in direct
               THEN /\ reply /\ UNCHANGED <<mesh, backoff>>
                    /\ rf' = [NoRf EXCEPT !.app = app, !.p = p]
             ELSE IF inBo /\ ~(Bug = "scoreFirst" /\ score[p] < 0)   \* scoreFirst: a later refusal branch hoisted before the backoff check
               THEN /\ reply /\ UNCHANGED mesh
                    /\ backoff' = [backoff EXCEPT ![p] = AddBo(@, now + PruneBackoff)]
                    /\ rf' = [app |-> app, p |-> p, flood |-> flood, kind |-> kind[p], dpen |-> pen, pre |-> bo[p]]
             ELSE IF score[p] < 0
               THEN /\ reply /\ UNCHANGED mesh
                    /\ backoff' = [backoff EXCEPT ![p] = AddBo(@, now + PruneBackoff)]
                    /\ rf' = [app |-> app, p |-> p, flood |-> flood, kind |-> kind[p], dpen |-> 0, pre |-> bo[p]]
             ELSE /\ mesh' = mesh \cup {p} /\ sent' = {} /\ UNCHANGED <<backoff, ctl>>
                  /\ rf' = [app |-> app, p |-> p, flood |-> flood, kind |-> kind[p], dpen |-> 0, pre |-> bo[p]]
    /\ UNCHANGED <<now, ticks, joined, up, score, direct, gated>>

\* handlePrune
RecvPrune(p, b) ==
    /\ up[p] /\ Stimulus
    /\ act' = [a |-> "prune", p |-> p, b |-> b]
    /\ IF joined
         THEN /\ mesh' = mesh \ {p}
              /\ backoff' = [backoff EXCEPT ![p] =
                                AddBo(@, now + (IF b > 0 /\ Bug # "ignorePeerBo" THEN b ELSE PruneBackoff))]
              /\ MRaise({p}, now + (IF b > 0 THEN b ELSE PruneBackoff),
                        IF b > 0 /\ b # PruneBackoff THEN "peer" ELSE "std", now)          \* (3)
         ELSE UNCHANGED <<mesh, backoff>> /\ MSame
    /\ sent' = {} /\ rf' = NoRf
    /\ UNCHANGED <<now, ticks, joined, up, score, direct, gated, ctl>>

\* heartbeat at instant t: clearBackoff, negative-score prune, under-subscription graft,
\* sendGraftPrune, flush of the remaining retries
HeartbeatAt(t) ==
    LET tk   == (ticks + 1) % SweepEvery
        gone(e) == IF Bug = "sweepAll" THEN e + Slack > t ELSE e + Slack < t
        bk1  == IF tk = 0 THEN [p \in Peers |-> IF backoff[p] # NONE /\ gone(backoff[p]) THEN NONE ELSE backoff[p]]
                          ELSE backoff
        neg  == IF joined THEN {p \in mesh : score[p] < 0} ELSE {}
        bk2  == [p \in Peers |-> IF p \in neg THEN AddBo(bk1[p], t + PruneBackoff) ELSE bk1[p]]
        m1   == mesh \ neg
        cands == {p \in Peers \ m1 : up[p] /\ p \notin direct /\ score[p] >= 0
                                     /\ (Bug = "hbFilter" \/ bk2[p] = NONE)}
        need == IF joined /\ Cardinality(m1) < Dlo THEN Min(D - Cardinality(m1), Cardinality(cands)) ELSE 0
    IN /\ ticks' = tk
       /\ backoff' = bk2
       /\ \E S \in SUBSET cands :
            /\ Cardinality(S) = need
            /\ mesh' = m1 \cup S
            /\ Deliver(LAMBDA p : IF p \in S THEN Push(p, {G("hb")}, m1 \cup S, TRUE)
                                  ELSE IF p \in neg THEN Push(p, {P(p, FALSE)}, m1 \cup S, TRUE)
                                  ELSE IF ctl[p] # {} THEN Push(p, {}, m1 \cup S, FlushFilter)   \* flush
                                  ELSE Untouched(p))
       /\ bo'   = [p \in Peers |-> IF p \in neg /\ t + PruneBackoff > bo[p] THEN t + PruneBackoff ELSE bo[p]]   \* (1)
       /\ lp'   = [p \in Peers |-> IF p \in neg /\ t + PruneBackoff > bo[p] THEN t ELSE lp[p]]
       /\ kind' = [p \in Peers |-> IF p \in neg /\ t + PruneBackoff > bo[p] THEN "std" ELSE kind[p]]
       /\ rf' = NoRf
       /\ UNCHANGED <<joined, up, score, direct, gated>>

Heartbeat == ~Fused /\ HeartbeatAt(now) /\ act' = [a |-> "hb", p |-> "", b |-> 0] /\ UNCHANGED <<now, stim>>
Tick      == ~Fused /\ now' = now + 1 /\ sent' = {} /\ rf' = NoRf
             /\ act' = [a |-> "tick", p |-> "", b |-> 0]
             /\ MSame /\ UNCHANGED <<ticks, joined, mesh, up, score, direct, gated, backoff, ctl, stim>>
HbTick    == Fused /\ now < MaxNow /\ now' = now + 1 /\ HeartbeatAt(now + 1) /\ stim' = 0
             /\ act' = [a |-> "hb", p |-> "", b |-> 0]

Gate(p)   == /\ p \in GatePeers /\ up[p] /\ ~gated[p] /\ Stimulus /\ gated' = [gated EXCEPT ![p] = TRUE]
             /\ sent' = {} /\ rf' = NoRf /\ act' = [a |-> "gate", p |-> p, b |-> 1]
             /\ MSame /\ UNCHANGED <<now, ticks, joined, mesh, up, score, direct, backoff, ctl>>
Ungate(p) == /\ gated[p] /\ UNCHANGED stim /\ gated' = [gated EXCEPT ![p] = FALSE]
             /\ sent' = {} /\ rf' = NoRf /\ act' = [a |-> "gate", p |-> p, b |-> 0]
             /\ MSame /\ UNCHANGED <<now, ticks, joined, mesh, up, score, direct, backoff, ctl>>

\* OnClosedOutboundStream: out of the mesh without PRUNE; the retry set is forgotten; the backoff is NOT
Down(p)   == /\ p \in DownPeers /\ up[p] /\ Stimulus
             /\ up' = [up EXCEPT ![p] = FALSE] /\ mesh' = mesh \ {p}
             /\ ctl' = [ctl EXCEPT ![p] = {}] /\ gated' = [gated EXCEPT ![p] = FALSE]
             /\ sent' = {} /\ rf' = NoRf /\ act' = [a |-> "down", p |-> p, b |-> 0]
             /\ MSame /\ UNCHANGED <<now, ticks, joined, score, direct, backoff>>
Up(p)     == /\ ~up[p] /\ Stimulus
             /\ up' = [up EXCEPT ![p] = TRUE]
             /\ sent' = {} /\ rf' = NoRf /\ act' = [a |-> "up", p |-> p, b |-> 0]
             /\ MSame /\ UNCHANGED <<now, ticks, joined, mesh, score, direct, gated, backoff, ctl>>

SetScore(p, v) == /\ p \in ScorePeers /\ score[p] # v /\ Stimulus
                  /\ score' = [score EXCEPT ![p] = v]
                  /\ sent' = {} /\ rf' = NoRf /\ act' = [a |-> "score", p |-> p, b |-> v]
                  /\ MSame /\ UNCHANGED <<now, ticks, joined, mesh, up, direct, gated, backoff, ctl>>
SetDirect(p, on) == /\ p \in DirectPeers /\ (p \in direct) # on /\ p \notin mesh /\ Stimulus
                    /\ direct' = IF on THEN direct \cup {p} ELSE direct \ {p}
                    /\ sent' = {} /\ rf' = NoRf /\ act' = [a |-> "direct", p |-> p, b |-> IF on THEN 1 ELSE 0]
                    /\ MSame /\ UNCHANGED <<now, ticks, joined, mesh, up, score, gated, backoff, ctl>>

Next == \/ Join \/ Leave \/ Heartbeat \/ Tick \/ HbTick
        \/ \E p \in Peers : \/ RecvGraft(p) \/ Gate(p) \/ Ungate(p) \/ Down(p) \/ Up(p)
                            \/ \E b \in BVals \cup {0} : RecvPrune(p, b)
                            \/ \E v \in {-1, 0} : SetScore(p, v)
                            \/ \E on \in BOOLEAN : SetDirect(p, on)

Spec == Init /\ [][Next]_vars

-----------------------------------------------------------------------------
(* C08, over the outputs of a step and the monitor.  The state predicates speak about the
   outputs of the LAST step (sent, rf); the exhaustive configurations check them as action
   properties ([][P']_vars: TLC evaluates those on every transition, also into states it has
   already seen) so that the pure output variables can be left out of the VIEW. *)

\* no GRAFT enters the peer's queue before the applicable backoff has expired (first send,
\* piggybacked retry and flush alike); a GRAFT exactly at the expiry instant is legal
NoEarlyGraft == \A s \in sent : (s.k = "graft" /\ ~s.drop) => now >= bo[s.to]

\* a GRAFT from a peer still under backoff is refused with a PRUNE (sent, or kept for retry when
\* the queue is full), penalised (doubly within the flood threshold of the last prune when the
\* running backoff is a standard one) and extends the backoff
Refuse ==
    rf.app => /\ rf.p \notin mesh
              /\ \E s \in sent : s.to = rf.p /\ s.k = "prune" /\ ~s.retry
              /\ bo[rf.p] >= now + PruneBackoff
              /\ backoff[rf.p] # NONE /\ backoff[rf.p] >= now + PruneBackoff
              /\ rf.dpen \in {1, 2}
              /\ rf.kind = "std" => rf.dpen = 1 + (IF rf.flood THEN 1 ELSE 0)

\* every PRUNE to a v1.1+ peer states the backoff (the unsubscribe backoff when leaving); none to v1.0
PruneStatesBackoff ==
    \A s \in sent : s.k = "prune" =>
        s.b = (IF s.to \in V10 THEN 0 ELSE IF s.why = "leave" THEN UnsubBackoff ELSE PruneBackoff)

\* the later deadline is kept: the monitor never decreases, and while it lies in the future the
\* node's own bookkeeping covers it (a shorter backoff must not shorten a longer running one,
\* the sweep must not drop unexpired entries)
KeepLater == \A p \in Peers : now < bo[p] => backoff[p] # NONE /\ backoff[p] >= bo[p]

P_C08_NoEarlyGraft       == [][NoEarlyGraft']_vars
P_C08_Refuse             == [][Refuse']_vars
P_C08_PruneStatesBackoff == [][PruneStatesBackoff']_vars
P_C08_KeepLater          == [][KeepLater' /\ \A p \in Peers : bo'[p] >= bo[p]]_vars

MaxB == CHOOSE m \in BVals \cup {PruneBackoff, UnsubBackoff} : \A x \in BVals \cup {PruneBackoff, UnsubBackoff} : x <= m
TypeOK ==
    /\ now \in Nat /\ ticks \in 0..(SweepEvery - 1) /\ joined \in BOOLEAN
    /\ mesh \subseteq Peers /\ (~joined => mesh = {}) /\ direct \subseteq Peers
    /\ \A p \in Peers : backoff[p] \in {NONE} \cup 0..(now + MaxB) /\ bo[p] \in 0..(now + MaxB) /\ lp[p] <= now
    /\ \A p \in mesh : up[p]

(* VIEW for the exhaustive configuration.  The pure outputs are dropped.  Every comparison in the
   model is between the clock and a stored deadline, so the behaviour is invariant under time
   translation: deadlines are kept RELATIVE to the clock and the clock itself is dropped, which
   makes the reachable view space finite although the clock is unbounded - the exhaustive check
   therefore covers histories of every length, not just MaxNow ticks.  Values that can no longer
   influence anything are canonicalised (a monitor deadline that has passed together with its
   start instant and kind; an entry that any later sweep deletes whatever its value). *)
View == <<ticks, joined, mesh, up, score, direct, gated, ctl,
          [p \in Peers |-> IF backoff[p] = NONE THEN NONE ELSE IF backoff[p] + Slack < now THEN -99 ELSE backoff[p] - now],
          [p \in Peers |-> IF bo[p] <= now THEN 0 ELSE bo[p] - now],
          [p \in Peers |-> IF bo[p] <= now THEN 0 ELSE now - lp[p]],
          [p \in Peers |-> IF bo[p] <= now THEN "std" ELSE kind[p]]>>
=============================================================================
