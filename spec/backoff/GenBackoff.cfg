\* scenario generator, run in simulation mode: tlc -simulate num=N -depth 65 (bin/lib/props/c08.py sets the variants)
SPECIFICATION GSpec
CONSTANTS
  Peers = {"p1", "p2"}
  V10 = {"p2"}
  PruneBackoff = 3
  UnsubBackoff = 1
  GraftFlood = 1
  SweepEvery = 15
  Slack = 2
  BVals = {1, 8}
  D = 2
  Dlo = 2
  InitTicks = 1
  MaxNow = 60
  MaxStim = 1
  Fused = TRUE
  GatePeers = {"p1", "p2"}
  DownPeers = {"p1", "p2"}
  ScorePeers = {"p1", "p2"}
  DirectPeers = {"p1"}
  FlushFilter = TRUE
  Bug = "none"
  L = 60
  Topic = "T1"
  Helper = "T2"
  QueueFill = 3
  MaxGate = 12
CHECK_DEADLOCK FALSE
