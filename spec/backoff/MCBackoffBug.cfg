\* one of the seeded model defects (see MUST_FAIL in bin/lib/props/c08.py): P_C08_NoEarlyGraft MUST fail
SPECIFICATION Spec
CONSTANTS
  Peers = {"p1", "p2"}
  V10 = {"p2"}
  PruneBackoff = 3
  UnsubBackoff = 1
  GraftFlood = 1
  SweepEvery = 2
  Slack = 1
  BVals = {1, 5}
  D = 2
  Dlo = 2
  InitTicks = 0
  MaxNow = 0
  MaxStim = 0
  Fused = FALSE
  GatePeers = {"p1"}
  DownPeers = {"p1"}
  ScorePeers = {"p1", "p2"}
  DirectPeers = {}
  FlushFilter = TRUE
  Bug = "hbFilter"
INVARIANT TypeOK
PROPERTY P_C08_NoEarlyGraft
PROPERTY P_C08_Refuse
PROPERTY P_C08_PruneStatesBackoff
PROPERTY P_C08_KeepLater
VIEW View
CHECK_DEADLOCK FALSE
