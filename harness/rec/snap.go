package rec

import (
	"math"
	"sort"

	pubsub "github.com/libp2p/go-libp2p-pubsub"
	"github.com/libp2p/go-libp2p/core/peer"

	"verifharness/hnet"
)

func ms(ns int64) int64 {
	if ns == 0 {
		return 0
	}
	return (ns - hnet.Epoch.UnixNano()) / 1e6
}

func peerSetMap(nm *hnet.Names, m map[string][]peer.ID) M {
	out := M{}
	for t, l := range m {
		out[t] = nm.Ps(l)
	}
	return out
}

func intOf(f float64) int64 {
	if math.IsNaN(f) || math.IsInf(f, 0) {
		return -999999
	}
	return int64(math.Round(f))
}

// Snap projects a VerifState to the JSON shape used by the trace
// specifications: symbolic names, sets as sorted arrays, maps as objects,
// times in virtual milliseconds, scores and penalties as integers (router
// scenarios use integer application scores). msgIDs lists the real ids of the
// messages known to the harness so that IDONTWANT checksums can be named.
func Snap(st *pubsub.VerifState, nm *hnet.Names, msgIDs []string) M {
	if st == nil {
		return M{"dead": true}
	}
	out := M{"dead": false, "now": ms(st.Now), "router": st.Router}
	peers := M{}
	for p, q := range st.Peers {
		peers[nm.P(p)] = M{"q": q.Normal + q.Priority, "prio": q.Priority, "closed": q.Closed}
	}
	out["peers"] = peers
	topics := M{}
	partial := M{}
	for t, m := range st.Topics {
		l := []string{}
		pl := M{}
		for p, s := range m {
			l = append(l, nm.P(p))
			if s.RequestsPartial || s.SupportsPartial {
				pl[nm.P(p)] = M{"req": s.RequestsPartial, "sup": s.SupportsPartial}
			}
		}
		sort.Strings(l)
		topics[t] = l
		if len(pl) > 0 {
			partial[t] = pl
		}
	}
	out["topics"] = topics
	out["partial"] = partial
	out["subs"] = st.MySubs
	out["relays"] = st.MyRelays
	mt := M{}
	for t, f := range st.MyTopics {
		mt[t] = M{"fanoutOnly": f.FanoutOnly, "handlers": f.EvtHandlers}
	}
	out["myTopics"] = mt
	out["inbound"] = nm.Ps(st.Inbound)
	out["blacklisted"] = nm.Ps(st.Blacklisted)
	out["deadBackoff"] = nm.Ps(st.DeadBackoff)
	if st.RandomPeers != nil {
		rp := M{}
		for p, pr := range st.RandomPeers {
			rp[nm.P(p)] = pr
		}
		out["rsPeers"] = rp
	}
	g := st.GS
	if g == nil {
		return out
	}
	gp := M{}
	for p, pr := range g.Peers {
		gp[nm.P(p)] = pr
	}
	out["gsPeers"] = gp
	out["direct"] = nm.Ps(g.Direct)
	out["mesh"] = peerSetMap(nm, g.Mesh)
	out["fanout"] = peerSetMap(nm, g.Fanout)
	lp := M{}
	for t, v := range g.Lastpub {
		lp[t] = ms(v)
	}
	out["lastpub"] = lp
	gossip := M{}
	for p, m := range g.Gossip {
		mm := M{}
		for t, ids := range m {
			mm[t] = nm.Ms(ids)
		}
		gossip[nm.P(p)] = mm
	}
	out["gossip"] = gossip
	ctl := M{}
	for p, c := range g.Control {
		gr, pr := c.Graft, c.Prune
		if gr == nil {
			gr = []string{}
		}
		if pr == nil {
			pr = []string{}
		}
		ctl[nm.P(p)] = M{"graft": gr, "prune": pr}
	}
	out["control"] = ctl
	cnt := func(m map[peer.ID]int) M {
		o := M{}
		for p, n := range m {
			o[nm.P(p)] = n
		}
		return o
	}
	out["peerhave"] = cnt(g.Peerhave)
	out["iasked"] = cnt(g.Iasked)
	out["peerdontwant"] = cnt(g.Peerdontwant)
	ck := map[string]string{}
	for _, id := range msgIDs {
		ck[pubsub.VerifChecksumKey(id)] = nm.M(id)
	}
	unw := M{}
	for p, m := range g.Unwanted {
		mm := M{}
		for k, ttl := range m {
			name, ok := ck[k]
			if !ok {
				name = "?" + k[:8]
			}
			mm[name] = ttl
		}
		unw[nm.P(p)] = mm
	}
	out["unwanted"] = unw
	ob := M{}
	for p, b := range g.Outbound {
		ob[nm.P(p)] = b
	}
	out["outbound"] = ob
	bo := M{}
	for t, m := range g.Backoff {
		mm := M{}
		for p, ns := range m {
			mm[nm.P(p)] = ms(ns)
		}
		bo[t] = mm
	}
	out["backoff"] = bo
	out["ticks"] = g.HeartbeatTicks
	hist := []any{}
	for _, slot := range g.History {
		s := []any{}
		for _, e := range slot {
			s = append(s, M{"m": nm.M(e.Mid), "topic": e.Topic})
		}
		hist = append(hist, s)
	}
	out["mcache"] = hist
	out["cacheMsgs"] = nm.Ms(g.CacheMsgs)
	ptx := M{}
	for mid, m := range g.PeerTx {
		ptx[nm.M(mid)] = cnt(m)
	}
	out["peertx"] = ptx
	out["peerExt"] = nm.Ps(g.PeerExtensions)
	out["sentExt"] = nm.Ps(g.SentExtensions)
	sc := M{}
	exact := true
	for p, s := range g.Scores {
		sc[nm.P(p)] = intOf(s)
		if s != math.Round(s) {
			exact = false
		}
	}
	out["scores"] = sc
	out["scoresExact"] = exact
	pen := M{}
	scored := []string{}
	retained := []string{}
	if g.Score != nil {
		for p, s := range g.Score.Peers {
			pen[nm.P(p)] = intOf(s.BehaviourPenalty)
			scored = append(scored, nm.P(p))
			if !s.Connected {
				retained = append(retained, nm.P(p))
			}
		}
	}
	sort.Strings(scored)
	sort.Strings(retained)
	out["pen"] = pen
	out["scored"] = scored
	out["retained"] = retained
	prom := M{}
	for mid, m := range g.Promises {
		mm := M{}
		for p, ns := range m {
			mm[nm.P(p)] = ms(ns)
		}
		prom[nm.M(mid)] = mm
	}
	out["promises"] = prom
	if g.Gater != nil {
		gp := []string{}
		for p := range g.Gater.Peers {
			gp = append(gp, nm.P(p))
		}
		sort.Strings(gp)
		out["gaterPeers"] = gp
		out["gaterThrottle"] = intOf(g.Gater.Throttle)
		out["gaterValidate"] = intOf(g.Gater.Validate)
	}
	return out
}

// PerPeerKeys renders VerifPerPeerKeys with symbolic names: container -> peers.
func PerPeerKeys(st *pubsub.VerifState, nm *hnet.Names) M {
	out := M{}
	if st == nil {
		return out
	}
	for k, l := range st.VerifPerPeerKeys() {
		out[k] = nm.Ps(l)
	}
	return out
}
