// Package rec records what a real PubSub instance does, at the library's own
// linearisation points: it implements pubsub.RawTracer (callbacks run
// synchronously inside the event loop for router and queue events, and on
// validation workers for Validate/Reject/Duplicate) and pubsub.EventTracer.
// Events are normalised to symbolic names and handed out in order.
package rec

import (
	"sort"
	"sync"

	pubsub "github.com/libp2p/go-libp2p-pubsub"
	pb "github.com/libp2p/go-libp2p-pubsub/pb"
	"github.com/libp2p/go-libp2p/core/peer"
	"github.com/libp2p/go-libp2p/core/protocol"

	"verifharness/hnet"
)

type M = map[string]any

// Recorder is a RawTracer and an EventTracer.
type Recorder struct {
	Names *hnet.Names
	Self  peer.ID

	mu   sync.Mutex
	seq  int
	evs  []M
	pbEv []*pb.TraceEvent

	// Hook, when set, is called synchronously inside every RawTracer callback
	// after the event has been recorded (it may block: that parks the goroutine
	// that produced the event, e.g. the event loop).
	Hook func(ev M)
	// MsgHook is called with the raw message of message events (before Hook).
	MsgHook func(kind string, msg *pubsub.Message, reason string)
	// KeepPB makes the recorder keep protobuf trace events.
	KeepPB bool
}

func New(names *hnet.Names, self peer.ID) *Recorder {
	return &Recorder{Names: names, Self: self}
}

var _ pubsub.RawTracer = (*Recorder)(nil)
var _ pubsub.EventTracer = (*Recorder)(nil)

func (r *Recorder) add(ev M) {
	r.mu.Lock()
	r.seq++
	ev["n"] = r.seq
	ev["t"] = hnet.NowMs()
	r.evs = append(r.evs, ev)
	h := r.Hook
	r.mu.Unlock()
	if h != nil {
		h(ev)
	}
}

// Take returns the events recorded since the previous Take.
func (r *Recorder) Take() []M {
	r.mu.Lock()
	defer r.mu.Unlock()
	e := r.evs
	r.evs = nil
	if e == nil {
		e = []M{}
	}
	for _, ev := range e {
		if id, ok := ev["_id"].(string); ok {
			ev["m"] = r.Names.M(id)
			delete(ev, "_id")
		}
	}
	return e
}

func (r *Recorder) TakePB() []*pb.TraceEvent {
	r.mu.Lock()
	defer r.mu.Unlock()
	e := r.pbEv
	r.pbEv = nil
	return e
}

func (r *Recorder) Trace(evt *pb.TraceEvent) {
	// the raw tracer interface is not invoked for locally published messages:
	// take their Publish / Deliver events from the event tracer instead
	switch evt.GetType() {
	case pb.TraceEvent_PUBLISH_MESSAGE:
		r.add(M{"k": "Publish", "_id": string(evt.GetPublishMessage().GetMessageID()), "topic": evt.GetPublishMessage().GetTopic(),
			"via": "self", "from": "self", "local": false, "self": true})
	case pb.TraceEvent_DELIVER_MESSAGE:
		if peer.ID(evt.GetDeliverMessage().GetReceivedFrom()) == r.Self {
			r.add(M{"k": "Deliver", "_id": string(evt.GetDeliverMessage().GetMessageID()), "topic": evt.GetDeliverMessage().GetTopic(),
				"via": "self", "from": "self", "local": false, "self": true})
		}
	case pb.TraceEvent_REJECT_MESSAGE:
		if peer.ID(evt.GetRejectMessage().GetReceivedFrom()) == r.Self {
			r.add(M{"k": "Reject", "_id": string(evt.GetRejectMessage().GetMessageID()), "topic": evt.GetRejectMessage().GetTopic(),
				"via": "self", "from": "self", "local": false, "self": true, "reason": evt.GetRejectMessage().GetReason()})
		}
	}
	if !r.KeepPB {
		return
	}
	r.mu.Lock()
	r.pbEv = append(r.pbEv, evt)
	r.mu.Unlock()
}

func (r *Recorder) OnNewOutboundStream(p peer.ID, proto protocol.ID) {
	r.add(M{"k": "Up", "p": r.Names.P(p), "proto": string(proto)})
}
func (r *Recorder) OnClosedOutboundStream(p peer.ID) { r.add(M{"k": "Down", "p": r.Names.P(p)}) }
func (r *Recorder) Join(topic string)                { r.add(M{"k": "Join", "topic": topic}) }
func (r *Recorder) Leave(topic string)               { r.add(M{"k": "Leave", "topic": topic}) }
func (r *Recorder) Graft(p peer.ID, topic string) {
	r.add(M{"k": "Graft", "p": r.Names.P(p), "topic": topic})
}
func (r *Recorder) Prune(p peer.ID, topic string) {
	r.add(M{"k": "Prune", "p": r.Names.P(p), "topic": topic})
}

func (r *Recorder) msgEv(kind string, msg *pubsub.Message, reason string) {
	if r.MsgHook != nil {
		r.MsgHook(kind, msg, reason)
	}
	id := msg.ID
	name := ""
	if id != "" {
		name = r.Names.MsgFromData(id, msg.GetData())
	} else {
		name = r.Names.MsgFromData(hnet.DefaultMsgID(msg.Message), msg.GetData())
	}
	ev := M{"k": kind, "m": name, "topic": msg.GetTopic(), "via": r.Names.P(msg.ReceivedFrom),
		"from": r.Names.P(peer.ID(msg.GetFrom())), "local": msg.Local, "self": false}
	if reason != "" {
		ev["reason"] = reason
	}
	r.add(ev)
}

func (r *Recorder) ValidateMessage(msg *pubsub.Message) { r.msgEv("Validate", msg, "") }
func (r *Recorder) DeliverMessage(msg *pubsub.Message)  { r.msgEv("Deliver", msg, "") }
func (r *Recorder) RejectMessage(msg *pubsub.Message, reason string) {
	r.msgEv("Reject", msg, reason)
}
func (r *Recorder) DuplicateMessage(msg *pubsub.Message)     { r.msgEv("Duplicate", msg, "") }
func (r *Recorder) UndeliverableMessage(msg *pubsub.Message) { r.msgEv("Undeliverable", msg, "") }
func (r *Recorder) ThrottlePeer(p peer.ID)                   { r.add(M{"k": "Throttle", "p": r.Names.P(p)}) }

func (r *Recorder) RecvRPC(rpc *pubsub.RPC) {
	r.add(M{"k": "Recv", "p": r.Names.P(rpc.From()), "rpc": RPCShape(&rpc.RPC, r.Names)})
}
func (r *Recorder) SendRPC(rpc *pubsub.RPC, p peer.ID) {
	r.add(M{"k": "Send", "p": r.Names.P(p), "rpc": RPCShape(&rpc.RPC, r.Names)})
}
func (r *Recorder) DropRPC(rpc *pubsub.RPC, p peer.ID) {
	r.add(M{"k": "Drop", "p": r.Names.P(p), "rpc": RPCShape(&rpc.RPC, r.Names)})
}

// RPCShape renders an RPC with symbolic names. Every field is always present
// (empty lists rather than absent keys) so that TLA+ record access never fails.
func RPCShape(rpc *pb.RPC, nm *hnet.Names) M {
	subs := []any{}
	for _, s := range rpc.GetSubscriptions() {
		subs = append(subs, M{"topic": s.GetTopicid(), "sub": s.GetSubscribe(), "reqPartial": s.GetRequestsPartial(), "supPartial": s.GetSupportsSendingPartial()})
	}
	msgs := []any{}
	for _, m := range rpc.GetPublish() {
		id := hnet.DefaultMsgID(m)
		msgs = append(msgs, M{"m": nm.MsgFromData(id, m.GetData()), "topic": m.GetTopic(), "from": nm.P(peer.ID(m.GetFrom())), "size": len(m.GetData()), "signed": m.Signature != nil})
	}
	graft, prune, ihave, iwant, idw := []any{}, []any{}, []any{}, []any{}, []any{}
	ext := M{"present": false, "test": false, "partial": false}
	if c := rpc.GetControl(); c != nil {
		for _, g := range c.GetGraft() {
			graft = append(graft, g.GetTopicID())
		}
		for _, p := range c.GetPrune() {
			px := []any{}
			for _, pi := range p.GetPeers() {
				px = append(px, M{"p": nm.P(peer.ID(pi.GetPeerID())), "rec": pi.SignedPeerRecord != nil})
			}
			prune = append(prune, M{"topic": p.GetTopicID(), "backoff": int(p.GetBackoff()), "hasBackoff": p.Backoff != nil, "px": px})
		}
		for _, h := range c.GetIhave() {
			ihave = append(ihave, M{"topic": h.GetTopicID(), "ids": nm.Ms(h.GetMessageIDs())})
		}
		for _, w := range c.GetIwant() {
			iwant = append(iwant, nm.Ms(w.GetMessageIDs()))
		}
		for _, d := range c.GetIdontwant() {
			idw = append(idw, nm.Ms(d.GetMessageIDs()))
		}
		if e := c.GetExtensions(); e != nil {
			ext = M{"present": true, "test": e.GetTestExtension(), "partial": e.GetPartialMessages()}
		}
	}
	// the partial-messages extension RPC (added for X04): parts metadata rendered as the list of set bits
	part := M{"present": false, "t": "", "g": "", "hasMsg": false, "msg": "", "hasMeta": false, "meta": []int{}}
	if pm := rpc.Partial; pm != nil {
		bits := []int{}
		for i, b := range pm.PartsMetadata {
			for j := 0; j < 8; j++ {
				if b&(1<<uint(j)) != 0 {
					bits = append(bits, i*8+j)
				}
			}
		}
		part = M{"present": true, "t": pm.GetTopicID(), "g": string(pm.GroupID), "hasMsg": len(pm.PartialMessage) > 0, "msg": string(pm.PartialMessage),
			"hasMeta": len(pm.PartsMetadata) > 0, "meta": bits}
	}
	return M{"subs": subs, "msgs": msgs, "graft": graft, "prune": prune, "ihave": ihave, "iwant": iwant,
		"idontwant": idw, "ext": ext, "hasPartial": rpc.Partial != nil, "hasTestExt": rpc.TestExtension != nil,
		"partial": part, "bytes": rpc.Size()}
}

// SortedKeys returns the sorted keys of a map with string keys.
func SortedKeys[V any](m map[string]V) []string {
	out := make([]string, 0, len(m))
	for k := range m {
		out = append(out, k)
	}
	sort.Strings(out)
	return out
}

// PBShape renders a protobuf trace event (the EventTracer view) with symbolic names.
func PBShape(e *pb.TraceEvent, nm *hnet.Names) M {
	out := M{"type": e.GetType().String(), "p": "", "topic": "", "m": "", "proto": "", "via": "", "reason": "", "rpc": M{}}
	meta := func(r *pb.TraceEvent_RPCMeta) M {
		msgs, subs, graft, prune, ihave, iwant, idw := []any{}, []any{}, []any{}, []any{}, []any{}, []any{}, []any{}
		for _, m := range r.GetMessages() {
			msgs = append(msgs, M{"m": nm.M(string(m.GetMessageID())), "topic": m.GetTopic()})
		}
		for _, s := range r.GetSubscription() {
			subs = append(subs, M{"topic": s.GetTopic(), "sub": s.GetSubscribe()})
		}
		if c := r.GetControl(); c != nil {
			for _, g := range c.GetGraft() {
				graft = append(graft, g.GetTopic())
			}
			for _, p := range c.GetPrune() {
				prune = append(prune, p.GetTopic())
			}
			for _, h := range c.GetIhave() {
				ids := []string{}
				for _, id := range h.GetMessageIDs() {
					ids = append(ids, nm.M(string(id)))
				}
				ihave = append(ihave, M{"topic": h.GetTopic(), "ids": ids})
			}
			for _, w := range c.GetIwant() {
				ids := []string{}
				for _, id := range w.GetMessageIDs() {
					ids = append(ids, nm.M(string(id)))
				}
				iwant = append(iwant, ids)
			}
			for _, d := range c.GetIdontwant() {
				ids := []string{}
				for _, id := range d.GetMessageIDs() {
					ids = append(ids, nm.M(string(id)))
				}
				idw = append(idw, ids)
			}
		}
		return M{"msgs": msgs, "subs": subs, "graft": graft, "prune": prune, "ihave": ihave, "iwant": iwant, "idontwant": idw}
	}
	switch e.GetType() {
	case pb.TraceEvent_PUBLISH_MESSAGE:
		out["m"], out["topic"] = nm.M(string(e.GetPublishMessage().GetMessageID())), e.GetPublishMessage().GetTopic()
	case pb.TraceEvent_REJECT_MESSAGE:
		x := e.GetRejectMessage()
		out["m"], out["topic"], out["via"], out["reason"] = nm.M(string(x.GetMessageID())), x.GetTopic(), nm.P(peer.ID(x.GetReceivedFrom())), x.GetReason()
	case pb.TraceEvent_DUPLICATE_MESSAGE:
		x := e.GetDuplicateMessage()
		out["m"], out["topic"], out["via"] = nm.M(string(x.GetMessageID())), x.GetTopic(), nm.P(peer.ID(x.GetReceivedFrom()))
	case pb.TraceEvent_DELIVER_MESSAGE:
		x := e.GetDeliverMessage()
		out["m"], out["topic"], out["via"] = nm.M(string(x.GetMessageID())), x.GetTopic(), nm.P(peer.ID(x.GetReceivedFrom()))
	case pb.TraceEvent_ON_NEW_OUTBOUND_STREAM:
		out["p"], out["proto"] = nm.P(peer.ID(e.GetOnNewOutboundStream().GetPeerID())), e.GetOnNewOutboundStream().GetProto()
	case pb.TraceEvent_ON_CLOSED_OUTBOUND_STREAM:
		out["p"] = nm.P(peer.ID(e.GetOnClosedOutboundStream().GetPeerID()))
	case pb.TraceEvent_RECV_RPC:
		out["p"], out["rpc"] = nm.P(peer.ID(e.GetRecvRPC().GetReceivedFrom())), meta(e.GetRecvRPC().GetMeta())
	case pb.TraceEvent_SEND_RPC:
		out["p"], out["rpc"] = nm.P(peer.ID(e.GetSendRPC().GetSendTo())), meta(e.GetSendRPC().GetMeta())
	case pb.TraceEvent_DROP_RPC:
		out["p"], out["rpc"] = nm.P(peer.ID(e.GetDropRPC().GetSendTo())), meta(e.GetDropRPC().GetMeta())
	case pb.TraceEvent_JOIN:
		out["topic"] = e.GetJoin().GetTopic()
	case pb.TraceEvent_LEAVE:
		out["topic"] = e.GetLeave().GetTopic()
	case pb.TraceEvent_GRAFT:
		out["p"], out["topic"] = nm.P(peer.ID(e.GetGraft().GetPeerID())), e.GetGraft().GetTopic()
	case pb.TraceEvent_PRUNE:
		out["p"], out["topic"] = nm.P(peer.ID(e.GetPrune().GetPeerID())), e.GetPrune().GetTopic()
	}
	return out
}
