// Package world is the scenario interpreter shared by the router-family
// drivers: one real node under test (NUT) built through the public
// constructors, any number of wire-level fake peers, a recorder attached as
// RawTracer/EventTracer, and one NDJSON step line per stimulus:
//
//	{"i","scn","t","act":{..},"hb":n,"ev":[tracer events],"out":{peer:[frames]},
//	 "deliv":[{"sub","m"}],"conn":[dials],"st":{snapshot}}
//
// All of it runs inside a testing/synctest bubble (virtual time). Stimuli are
// kept away from heartbeat instants so that no stimulus shares an instant with
// a timer.
package world

import (
	"bytes"
	"context"
	"fmt"
	"sort"
	"sync"
	"testing"
	"time"

	pubsub "github.com/libp2p/go-libp2p-pubsub"
	pb "github.com/libp2p/go-libp2p-pubsub/pb"
	"github.com/libp2p/go-libp2p/core/peer"

	"verifharness/hnet"
	"verifharness/rec"
	"verifharness/vh"
)

type M = map[string]any

// Config describes the node under test.
type Config struct {
	Router       string // "gossipsub" (default), "floodsub", "randomsub"
	Params       *pubsub.GossipSubParams
	Score        bool
	PenWeight    float64 // BehaviourPenaltyWeight (0 keeps penalties out of the score)
	Retain       time.Duration
	TopicScore   map[string]*pubsub.TopicScoreParams
	Thresholds   *pubsub.PeerScoreThresholds
	FloodPublish bool
	DoPX         bool
	QueueSize    int
	MaxMsgSize   int
	ConnMgr      bool
	Gater        bool
	TestExt      bool
	Hosts        int // number of simulated hosts to allocate (NUT + fake peers + spares)
	Opts         []pubsub.Option
	KeepPB       bool
	// TopicOpts, when set, gives the options the node joins a topic with (e.g. RequestPartialMessages).
	TopicOpts func(topic string) []pubsub.TopicOpt
	// PreNUT, when set, runs after the simulated network exists (w.Net, w.H) and before the node under
	// test is constructed; it may append to w.Cfg.Opts (options that need the ids of other hosts).
	PreNUT func(w *World)
}

// SmallParams are the scaled-down gossipsub parameters used by generated
// scenarios (heartbeat 1 s so that PRUNE backoffs in whole seconds are exact).
func SmallParams() pubsub.GossipSubParams {
	p := pubsub.DefaultGossipSubParams()
	p.D, p.Dlo, p.Dhi, p.Dscore, p.Dout, p.Dlazy = 4, 2, 5, 2, 1, 2
	p.HistoryLength, p.HistoryGossip = 3, 2
	p.GossipRetransmission = 2
	p.PruneBackoff = 5 * time.Second
	p.UnsubscribeBackoff = 2 * time.Second
	p.GraftFloodThreshold = 2 * time.Second
	p.FanoutTTL = 4 * time.Second
	p.MaxIHaveLength = 3
	p.MaxIHaveMessages = 2
	p.MaxIDontWantLength = 2
	p.MaxIDontWantMessages = 2
	p.IDontWantMessageTTL = 2
	p.IDontWantMessageThreshold = 64
	p.IWantFollowupTime = 1500 * time.Millisecond
	p.OpportunisticGraftTicks = 4
	p.OpportunisticGraftPeers = 1
	p.PrunePeers = 2
	p.DirectConnectTicks = 1000000
	p.HeartbeatInitialDelay = 100 * time.Millisecond
	p.HeartbeatInterval = time.Second
	return p
}

type subRec struct {
	name string
	sub  *pubsub.Subscription
}

// World is one scenario's universe.
type World struct {
	T     testing.TB
	Out   *vh.Out
	Cfg   Config
	Net   *hnet.Net
	H     *hnet.WrapHost
	NUT   *pubsub.PubSub
	Rec   *rec.Recorder
	Names *hnet.Names
	Fakes map[string]*hnet.FakePeer
	Ctx   context.Context
	Stop  context.CancelFunc

	mu      sync.Mutex
	app     map[peer.ID]float64
	topics  map[string]*pubsub.Topic
	subs    map[string][]subRec
	relays  map[string][]pubsub.RelayCancelFunc
	deliv   []M
	orig    map[string][]byte // message name -> canonical bytes of the pb.Message
	MsgIDs  []string
	msgs    map[string]*pb.Message
	nsub    int
	Scn     int
	step    int
	lastTik uint64
	Extra   func(w *World, line M) // lets a driver add fields to every step line
}

// New builds the NUT inside the current synctest bubble and emits the reset line.
func New(t testing.TB, out *vh.Out, scn int, cfg Config, resetArgs M) *World {
	if cfg.Hosts == 0 {
		cfg.Hosts = 8
	}
	w := &World{T: t, Out: out, Cfg: cfg, Scn: scn, Fakes: map[string]*hnet.FakePeer{}, app: map[peer.ID]float64{},
		topics: map[string]*pubsub.Topic{}, subs: map[string][]subRec{}, relays: map[string][]pubsub.RelayCancelFunc{},
		orig: map[string][]byte{}, msgs: map[string]*pb.Message{}, Names: hnet.NewNames()}
	w.Net = hnet.New(t, cfg.Hosts, cfg.ConnMgr)
	w.H = hnet.Wrap(w.Net.Take())
	w.Names.AddPeer(w.H.ID(), "self")
	w.Rec = rec.New(w.Names, w.H.ID())
	w.Rec.KeepPB = cfg.KeepPB
	w.Rec.MsgHook = func(kind string, msg *pubsub.Message, reason string) {
		id := msg.ID
		if id == "" {
			id = hnet.DefaultMsgID(msg.Message)
		}
		name := w.Names.MsgFromData(id, msg.GetData())
		w.mu.Lock()
		if _, ok := w.orig[name]; !ok {
			b, _ := msg.Message.Marshal()
			w.orig[name] = b
			w.MsgIDs = append(w.MsgIDs, id)
		}
		w.mu.Unlock()
	}
	w.Ctx, w.Stop = context.WithCancel(context.Background())
	if cfg.PreNUT != nil {
		cfg.PreNUT(w)
		cfg.Opts = w.Cfg.Opts
	}
	opts := []pubsub.Option{pubsub.WithRawTracer(w.Rec), pubsub.WithEventTracer(w.Rec)}
	if cfg.QueueSize > 0 {
		opts = append(opts, pubsub.WithPeerOutboundQueueSize(cfg.QueueSize))
	}
	if cfg.MaxMsgSize > 0 {
		opts = append(opts, pubsub.WithMaxMessageSize(cfg.MaxMsgSize))
	}
	var err error
	switch cfg.Router {
	case "floodsub":
		w.NUT, err = pubsub.NewFloodSub(w.Ctx, w.H, append(opts, cfg.Opts...)...)
	case "randomsub":
		w.NUT, err = pubsub.NewRandomSub(w.Ctx, w.H, 10, append(opts, cfg.Opts...)...)
	default:
		p := SmallParams()
		if cfg.Params != nil {
			p = *cfg.Params
		}
		opts = append(opts, pubsub.WithGossipSubParams(p), pubsub.WithFloodPublish(cfg.FloodPublish), pubsub.WithPeerExchange(cfg.DoPX))
		if cfg.Score {
			sp := &pubsub.PeerScoreParams{
				AppSpecificScore:      w.appScore,
				AppSpecificWeight:     1,
				DecayInterval:         24 * time.Hour,
				DecayToZero:           0.01,
				BehaviourPenaltyWeight: cfg.PenWeight,
				BehaviourPenaltyDecay: 0.999,
				RetainScore:           cfg.Retain,
				Topics:                map[string]*pubsub.TopicScoreParams{},
			}
			for k, v := range cfg.TopicScore {
				sp.Topics[k] = v
			}
			th := cfg.Thresholds
			if th == nil {
				th = &pubsub.PeerScoreThresholds{GossipThreshold: -2, PublishThreshold: -4, GraylistThreshold: -6, AcceptPXThreshold: 2, OpportunisticGraftThreshold: 1}
			}
			opts = append(opts, pubsub.WithPeerScore(sp, th))
		}
		if cfg.Gater {
			opts = append(opts, pubsub.WithPeerGater(pubsub.DefaultPeerGaterParams()))
		}
		if cfg.TestExt {
			opts = append(opts, pubsub.WithTestExtension(pubsub.TestExtensionConfig{OnReceiveTestExtension: func(peer.ID) {}}))
		}
		w.NUT, err = pubsub.NewGossipSub(w.Ctx, w.H, append(opts, cfg.Opts...)...)
	}
	if err != nil {
		t.Fatalf("world: cannot build NUT: %v", err)
	}
	if resetArgs == nil {
		resetArgs = M{}
	}
	resetArgs["router"] = w.routerName()
	out.Emit(M{"i": 0, "scn": scn, "t": hnet.NowMs(), "act": M{"a": "reset", "cfg": resetArgs}, "hb": 0, "ev": []any{}, "out": M{}, "deliv": []any{}, "conn": []any{}, "st": w.Snap()})
	return w
}

func (w *World) routerName() string {
	if w.Cfg.Router == "" {
		return "gossipsub"
	}
	return w.Cfg.Router
}

func (w *World) appScore(p peer.ID) float64 {
	w.mu.Lock()
	defer w.mu.Unlock()
	return w.app[p]
}

// Close shuts the scenario down; all goroutines must be able to exit.
func (w *World) Close() {
	// open every write gate and let pending announce retries (uncancellable sleeps of up to 1 s)
	// run out, otherwise goroutines are left behind when the bubble ends
	for _, f := range w.Fakes {
		w.H.UngateWrites(f.ID())
		w.H.ReleaseOpen(f.ID())
	}
	w.Stop()
	hnet.Settle(1200 * time.Millisecond)
}

// Snap takes the normalised snapshot of the NUT.
func (w *World) Snap() M {
	var extra []peer.ID
	for _, f := range w.Fakes {
		extra = append(extra, f.ID())
	}
	st := w.NUT.VerifSnapshot(extra...)
	w.mu.Lock()
	ids := append([]string(nil), w.MsgIDs...)
	w.mu.Unlock()
	return rec.Snap(st, w.Names, ids)
}

// RawSnap is the un-normalised snapshot.
func (w *World) RawSnap() *pubsub.VerifState {
	var extra []peer.ID
	for _, f := range w.Fakes {
		extra = append(extra, f.ID())
	}
	return w.NUT.VerifSnapshot(extra...)
}

// hbPhase is the distance in ms from the most recent heartbeat instant.
func (w *World) hbPhase() int64 {
	iv := int64(1000)
	if w.Cfg.Params != nil {
		iv = w.Cfg.Params.HeartbeatInterval.Milliseconds()
	}
	ph := (hnet.NowMs() - 100) % iv
	if ph < 0 {
		ph += iv
	}
	return ph
}

func (w *World) hbInterval() int64 {
	if w.Cfg.Params != nil {
		return w.Cfg.Params.HeartbeatInterval.Milliseconds()
	}
	return 1000
}

// guard keeps stimuli away from heartbeat instants: a stimulus starts only in
// the phase window [50, interval-150] ms after a heartbeat.
func (w *World) guard() {
	if w.routerName() != "gossipsub" {
		return
	}
	ph := w.hbPhase()
	iv := w.hbInterval()
	if ph < 50 {
		hnet.Settle(time.Duration(50-ph) * time.Millisecond)
	} else if ph > iv-150 {
		// cross the heartbeat as a step of its own
		w.Heartbeat()
	}
}

// Heartbeat advances virtual time across exactly one heartbeat (to 400 ms past
// it) and emits an "hb" step line.
func (w *World) Heartbeat() {
	iv := w.hbInterval()
	ph := w.hbPhase()
	next := hnet.NowMs() + (iv - ph) + 400
	hnet.AdvanceTo(next)
	w.emit(M{"a": "hb"})
}

// AdvanceHeartbeats crosses n heartbeats, one step line each.
func (w *World) AdvanceHeartbeats(n int) {
	for i := 0; i < n; i++ {
		w.Heartbeat()
	}
}

func (w *World) emit(act M) {
	w.step++
	st := w.Snap()
	hb := 0
	if tk, ok := st["ticks"].(uint64); ok {
		hb = int(tk - w.lastTik)
		w.lastTik = tk
	}
	outs := M{}
	for name, f := range w.Fakes {
		frs := f.Drain()
		l := []any{}
		for _, fr := range frs {
			sh := rec.RPCShape(fr.RPC, w.Names)
			sh["t"] = fr.T
			eq := true
			for _, m := range fr.RPC.GetPublish() {
				if !w.copyEqual(m) {
					eq = false
				}
			}
			sh["copyEqual"] = eq
			l = append(l, sh)
		}
		outs[name] = l
	}
	w.mu.Lock()
	deliv := w.deliv
	w.deliv = nil
	w.mu.Unlock()
	if deliv == nil {
		deliv = []M{}
	}
	conns := w.Names.Ps(w.H.TakeConnects())
	line := M{"i": w.step, "scn": w.Scn, "t": hnet.NowMs(), "act": act, "hb": hb, "ev": w.Rec.Take(),
		"out": outs, "deliv": deliv, "conn": conns, "st": st}
	if w.Cfg.KeepPB {
		tev := []any{}
		for _, e := range w.Rec.TakePB() {
			tev = append(tev, rec.PBShape(e, w.Names))
		}
		line["tev"] = tev
	}
	if w.Extra != nil {
		w.Extra(w, line)
	}
	w.Out.Emit(line)
}

func (w *World) copyEqual(m *pb.Message) bool {
	b, _ := m.Marshal()
	id := hnet.DefaultMsgID(m)
	name := w.Names.MsgFromData(id, m.GetData())
	w.mu.Lock()
	defer w.mu.Unlock()
	o, ok := w.orig[name]
	if !ok {
		w.orig[name] = b
		w.MsgIDs = append(w.MsgIDs, id)
		return true
	}
	return bytes.Equal(o, b)
}

func (w *World) regMsg(name string, m *pb.Message) {
	b, _ := m.Marshal()
	id := hnet.DefaultMsgID(m)
	w.Names.AddMsg(id, name)
	w.mu.Lock()
	w.orig[name] = b
	w.msgs[name] = m
	w.MsgIDs = append(w.MsgIDs, id)
	w.mu.Unlock()
}

// RealID returns the real message id for a symbolic name (or the name itself
// for ids the harness invented).
func (w *World) RealID(name string) string {
	w.mu.Lock()
	defer w.mu.Unlock()
	if m, ok := w.msgs[name]; ok {
		return hnet.DefaultMsgID(m)
	}
	// a message the NUT published itself: its id is known once it was named
	if id, ok := w.Names.IDOf(name); ok {
		return id
	}
	return name
}

func (w *World) RealIDs(names []string) []string {
	out := make([]string, len(names))
	for i, n := range names {
		out[i] = w.RealID(n)
	}
	return out
}

func str(a M, k string) string {
	s, _ := a[k].(string)
	return s
}
func num(a M, k string) int {
	switch v := a[k].(type) {
	case float64:
		return int(v)
	case int:
		return v
	}
	return 0
}
func boolean(a M, k string) bool { b, _ := a[k].(bool); return b }

// splitIDs cuts ids into consecutive groups of the given sizes ([]any of numbers or []int); ids left over
// form a last group. Used to put several control entries of one kind into ONE RPC.
func splitIDs(ids []string, sizes any) [][]string {
	var ns []int
	switch l := sizes.(type) {
	case []any:
		for _, x := range l {
			switch v := x.(type) {
			case float64:
				ns = append(ns, int(v))
			case int:
				ns = append(ns, v)
			}
		}
	case []int:
		ns = l
	}
	var out [][]string
	for _, n := range ns {
		if n > len(ids) {
			n = len(ids)
		}
		if n < 0 {
			n = 0
		}
		out = append(out, ids[:n])
		ids = ids[n:]
	}
	if len(ids) > 0 {
		out = append(out, ids)
	}
	return out
}
func strs(a M, k string) []string {
	var out []string
	if l, ok := a[k].([]any); ok {
		for _, x := range l {
			if s, ok := x.(string); ok {
				out = append(out, s)
			}
		}
	}
	if l, ok := a[k].([]string); ok {
		out = l
	}
	return out
}

// AddPeer creates a fake peer. dir "in": the peer dials the NUT; "out": the NUT dials.
func (w *World) AddPeer(name, proto, dir string, subs []string) *hnet.FakePeer {
	f := hnet.NewFakePeer(w.Net.Take(), name, proto, w.H.Host)
	w.Names.AddPeer(f.ID(), name)
	w.Fakes[name] = f
	w.connect(f, dir, subs)
	return f
}

func (w *World) connect(f *hnet.FakePeer, dir string, subs []string) {
	var err error
	if dir == "out" {
		err = hnet.Connect(w.H.Host, f.H)
	} else {
		err = f.DialNUT()
	}
	if err != nil {
		w.T.Fatalf("world: connect %s: %v", f.Name, err)
	}
	hnet.Settle(20 * time.Millisecond)
	if err := f.OpenOut(); err != nil {
		w.T.Fatalf("world: open stream %s: %v", f.Name, err)
	}
	// hello: our subscriptions, like a real node
	hello := &pb.RPC{}
	for _, t := range subs {
		t := t
		tr := true
		hello.Subscriptions = append(hello.Subscriptions, &pb.RPC_SubOpts{Topicid: &t, Subscribe: &tr})
	}
	if len(hello.Subscriptions) > 0 {
		f.Send(hello)
	}
	hnet.Settle(20 * time.Millisecond)
}

// Do performs one scenario action, settles, and emits its step line.
// Returns false if the action is unknown.
func (w *World) Do(a M) bool {
	w.guard()
	kind := str(a, "a")
	p := str(a, "p")
	f := w.Fakes[p]
	t := str(a, "t")
	settle := 15 * time.Millisecond
	switch kind {
	case "peer":
		if f == nil {
			w.AddPeer(p, str(a, "proto"), str(a, "dir"), strs(a, "subs"))
		} else {
			w.connect(f, str(a, "dir"), strs(a, "subs"))
		}
	case "sub":
		f.Send(hnet.SubRPC(t, boolean(a, "v")))
	case "graft":
		f.Send(hnet.GraftRPC(t))
	case "prune":
		var px []*pb.PeerInfo
		for _, x := range strs(a, "px") {
			if xf := w.Fakes[x]; xf != nil {
				px = append(px, &pb.PeerInfo{PeerID: []byte(xf.ID())})
			} else {
				px = append(px, &pb.PeerInfo{PeerID: []byte(x)})
			}
		}
		_, has := a["bo"]
		f.Send(hnet.PruneRPC(t, uint64(num(a, "bo")), has, px))
	case "ihave":
		// optional "split":[n1,n2,..] = several IHAVE entries in ONE RPC (ids cut in that order, rest in a last
		// entry); optional "ts":[..] = topic of each entry (default t)
		if _, ok := a["split"]; ok {
			ts := strs(a, "ts")
			c := &pb.ControlMessage{}
			for i, part := range splitIDs(w.RealIDs(strs(a, "ids")), a["split"]) {
				tp := t
				if i < len(ts) {
					tp = ts[i]
				}
				c.Ihave = append(c.Ihave, &pb.ControlIHave{TopicID: &tp, MessageIDs: part})
			}
			f.Send(&pb.RPC{Control: c})
		} else {
			f.Send(hnet.IHaveRPC(t, w.RealIDs(strs(a, "ids"))...))
		}
	case "iwant":
		if _, ok := a["split"]; ok { // several IWANT entries in one RPC
			c := &pb.ControlMessage{}
			for _, part := range splitIDs(w.RealIDs(strs(a, "ids")), a["split"]) {
				c.Iwant = append(c.Iwant, &pb.ControlIWant{MessageIDs: part})
			}
			f.Send(&pb.RPC{Control: c})
		} else {
			f.Send(hnet.IWantRPC(w.RealIDs(strs(a, "ids"))...))
		}
	case "idontwant":
		if _, ok := a["split"]; ok { // several IDONTWANT entries in one RPC
			c := &pb.ControlMessage{}
			for _, part := range splitIDs(w.RealIDs(strs(a, "ids")), a["split"]) {
				c.Idontwant = append(c.Idontwant, &pb.ControlIDontWant{MessageIDs: part})
			}
			f.Send(&pb.RPC{Control: c})
		} else {
			f.Send(hnet.IDontWantRPC(w.RealIDs(strs(a, "ids"))...))
		}
	case "msg":
		// a message sent by fake peer p; authored by "author" (default p); "m" names it
		name := str(a, "m")
		w.mu.Lock()
		m := w.msgs[name]
		w.mu.Unlock()
		if m == nil {
			au := f
			if x := w.Fakes[str(a, "author")]; x != nil {
				au = x
			}
			size := num(a, "size")
			if size == 0 {
				size = 16
			}
			m = au.NewMessage(name, t, size, !boolean(a, "unsigned"))
			if boolean(a, "badsig") {
				m.Signature[0] ^= 0xff
			}
			w.regMsg(name, m)
		}
		f.Send(hnet.MsgRPC(m))
	case "mkmsg":
		// create and register a message without sending it (so that its id can be advertised first)
		name := str(a, "m")
		if w.Msg(name) == nil {
			au := f
			if x := w.Fakes[str(a, "author")]; x != nil {
				au = x
			}
			size := num(a, "size")
			if size == 0 {
				size = 16
			}
			w.regMsg(name, au.NewMessage(name, t, size, true))
		}
	case "closeTopic":
		if tp, ok := w.topics[t]; ok {
			if err := tp.Close(); err == nil {
				delete(w.topics, t)
			}
		}
	case "join":
		w.join(t, boolean(a, "fanoutOnly"))
	case "subscribe":
		w.subscribe(t)
	case "cancel":
		w.cancel(t)
	case "relay":
		w.relay(t)
	case "unrelay":
		w.unrelay(t)
	case "publish":
		w.publish(t, str(a, "m"), num(a, "size"), boolean(a, "localOnly"))
	case "score":
		w.mu.Lock()
		w.app[f.ID()] = float64(num(a, "v"))
		w.mu.Unlock()
	case "down":
		f.Disconnect()
		settle = 30 * time.Millisecond
	case "resetOut": // the fake peer's stream to the NUT (NUT's inbound)
		f.ResetOut()
	case "closeOut":
		f.CloseOut()
	case "resetIn": // the NUT's outbound stream
		f.ResetIn()
	case "openOut":
		f.OpenOut()
	case "blacklist":
		w.NUT.BlacklistPeer(f.ID())
	case "direct":
		if boolean(a, "on") {
			w.NUT.AddDirectPeer(peer.AddrInfo{ID: f.ID(), Addrs: f.H.Addrs()})
		} else {
			w.NUT.RemoveDirectPeer(f.ID())
		}
	case "gate":
		if boolean(a, "on") {
			w.H.GateWrites(f.ID())
		} else {
			w.H.UngateWrites(f.ID())
		}
	case "hb":
		w.Heartbeat()
		return true
	case "adv":
		hnet.Settle(time.Duration(num(a, "ms")) * time.Millisecond)
	case "elapse":
		hnet.Settle(time.Duration(num(a, "s")) * time.Second)
	default:
		return false
	}
	hnet.Settle(settle)
	w.emit(a)
	return true
}

func (w *World) join(t string, fanoutOnly bool) *pubsub.Topic {
	if tp, ok := w.topics[t]; ok {
		return tp
	}
	var opts []pubsub.TopicOpt
	if fanoutOnly {
		opts = append(opts, pubsub.FanoutOnly())
	}
	if w.Cfg.TopicOpts != nil {
		opts = append(opts, w.Cfg.TopicOpts(t)...)
	}
	tp, err := w.NUT.Join(t, opts...)
	if err != nil {
		w.T.Fatalf("world: join %s: %v", t, err)
	}
	w.topics[t] = tp
	return tp
}

func (w *World) subscribe(t string) {
	tp := w.join(t, false)
	s, err := tp.Subscribe()
	if err != nil {
		w.T.Fatalf("world: subscribe %s: %v", t, err)
	}
	w.nsub++
	name := fmt.Sprintf("s%d", w.nsub)
	w.subs[t] = append(w.subs[t], subRec{name, s})
	go func() {
		for {
			msg, err := s.Next(w.Ctx)
			if err != nil {
				return
			}
			id := msg.ID
			if id == "" {
				id = hnet.DefaultMsgID(msg.Message)
			}
			mname := w.Names.MsgFromData(id, msg.GetData())
			w.mu.Lock()
			w.deliv = append(w.deliv, M{"sub": name, "topic": t, "m": mname})
			w.mu.Unlock()
		}
	}()
}

func (w *World) cancel(t string) {
	l := w.subs[t]
	if len(l) == 0 {
		return
	}
	l[len(l)-1].sub.Cancel()
	w.subs[t] = l[:len(l)-1]
}

func (w *World) relay(t string) {
	tp := w.join(t, false)
	c, err := tp.Relay()
	if err != nil {
		w.T.Fatalf("world: relay %s: %v", t, err)
	}
	w.relays[t] = append(w.relays[t], c)
}

func (w *World) unrelay(t string) {
	l := w.relays[t]
	if len(l) == 0 {
		return
	}
	l[len(l)-1]()
	w.relays[t] = l[:len(l)-1]
}

func (w *World) publish(t, name string, size int, local bool) {
	tp := w.join(t, false)
	if size == 0 {
		size = 16
	}
	data := []byte(name + "|")
	for len(data) < size {
		data = append(data, '.')
	}
	var opts []pubsub.PubOpt
	if local {
		opts = append(opts, pubsub.WithLocalPublication(true))
	}
	if err := tp.Publish(w.Ctx, data, opts...); err != nil {
		w.mu.Lock()
		w.deliv = append(w.deliv, M{"sub": "publish-error", "topic": t, "m": name + ":" + err.Error()})
		w.mu.Unlock()
	}
}

// Emit writes a step line for a stimulus the caller performed itself (drivers
// that need stimuli outside the action alphabet). The caller settles first.
func (w *World) Emit(act M) { w.emit(act) }

// Guard keeps a custom stimulus away from heartbeat instants (see guard).
func (w *World) Guard() { w.guard() }

// Topic returns the NUT's handle for a topic, joining it if necessary.
func (w *World) Topic(t string) *pubsub.Topic { return w.join(t, false) }

// Msg returns the message registered under a symbolic name (nil if none).
func (w *World) Msg(name string) *pb.Message {
	w.mu.Lock()
	defer w.mu.Unlock()
	return w.msgs[name]
}

// RegMsg registers a message the driver built itself under a symbolic name.
func (w *World) RegMsg(name string, m *pb.Message) { w.regMsg(name, m) }

// SetApp sets the application-specific score of a peer.
func (w *World) SetApp(p peer.ID, v float64) {
	w.mu.Lock()
	w.app[p] = v
	w.mu.Unlock()
}

// PeerNames returns the sorted names of the fake peers.
func (w *World) PeerNames() []string {
	out := make([]string, 0, len(w.Fakes))
	for n := range w.Fakes {
		out = append(out, n)
	}
	sort.Strings(out)
	return out
}
