package world

import (
	"os"
	"testing"
	"testing/synctest"

	"verifharness/vh"
)

func TestWorldSmoke(t *testing.T) {
	if os.Getenv("VERIF_OUT") == "" {
		os.Setenv("VERIF_OUT", os.TempDir()+"/world-smoke.ndjson")
	}
	out := vh.NewOut(t, "VERIF_OUT")
	synctest.Test(t, func(t *testing.T) {
		w := New(t, out, 1, Config{Score: true, Hosts: 6}, nil)
		defer w.Close()
		w.Do(M{"a": "peer", "p": "p1", "proto": "v11", "dir": "in", "subs": []any{"T1"}})
		w.Do(M{"a": "peer", "p": "p2", "proto": "v12", "dir": "out", "subs": []any{"T1"}})
		w.Do(M{"a": "peer", "p": "p3", "proto": "flood", "dir": "in", "subs": []any{"T1"}})
		w.Do(M{"a": "subscribe", "t": "T1"})
		w.Do(M{"a": "hb"})
		w.Do(M{"a": "msg", "p": "p1", "t": "T1", "m": "m1", "size": 100})
		w.Do(M{"a": "publish", "t": "T1", "m": "m2"})
		w.Do(M{"a": "hb"})
		w.Do(M{"a": "iwant", "p": "p3", "ids": []any{"m1"}})
		w.Do(M{"a": "prune", "p": "p1", "t": "T1", "bo": 3})
		w.Do(M{"a": "score", "p": "p2", "v": -1})
		w.Do(M{"a": "hb"})
		w.Do(M{"a": "down", "p": "p2"})
		w.Do(M{"a": "cancel", "t": "T1"})
	})
}
