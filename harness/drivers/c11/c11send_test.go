// Send-level driver for property C11: the REAL GossipSubRouter.sendRPC is run
// (inside the event loop of a real gossipsub node, through
// PubSub.VerifSendRPC) towards a peer that exists as an outbound queue only.
// Recorded per case: the input, the limit (maximum message size), what was
// queued for the wire (shapes and sizes, in queue order), how many times the
// tracer's DropRPC / SendRPC callbacks ran, and - as a measurement - the size
// every single input element would have as an RPC of its own. TLC judges
// (spec/split/SplitTrace.tla, SendVerdict of SplitRel.tla).
package c11

import (
	"context"
	"fmt"
	"math/rand"
	"runtime/debug"
	"testing"

	"github.com/libp2p/go-libp2p"
	pubsub "github.com/libp2p/go-libp2p-pubsub"
	pb "github.com/libp2p/go-libp2p-pubsub/pb"
	"github.com/libp2p/go-libp2p/core/network"
	"github.com/libp2p/go-libp2p/core/peer"
	"github.com/libp2p/go-libp2p/core/protocol"

	"verifharness/vh"
)

// dropCounter is a RawTracer that counts the RPC-level callbacks.
type dropCounter struct{ drops, sends int }

func (d *dropCounter) AddPeer(peer.ID, protocol.ID)               {}
func (d *dropCounter) RemovePeer(peer.ID)                         {}
func (d *dropCounter) OnNewInboundStream(peer.ID, protocol.ID)    {}
func (d *dropCounter) OnClosedInboundStream(peer.ID, protocol.ID) {}
func (d *dropCounter) OnNewOutboundStream(peer.ID, protocol.ID)   {}
func (d *dropCounter) OnClosedOutboundStream(peer.ID)             {}
func (d *dropCounter) Join(string)                                {}
func (d *dropCounter) Leave(string)                               {}
func (d *dropCounter) Graft(peer.ID, string)                      {}
func (d *dropCounter) Prune(peer.ID, string)                      {}
func (d *dropCounter) ValidateMessage(*pubsub.Message)            {}
func (d *dropCounter) DeliverMessage(*pubsub.Message)             {}
func (d *dropCounter) RejectMessage(*pubsub.Message, string)      {}
func (d *dropCounter) DuplicateMessage(*pubsub.Message)           {}
func (d *dropCounter) ThrottlePeer(peer.ID)                       {}
func (d *dropCounter) RecvRPC(*pubsub.RPC)                        {}
func (d *dropCounter) SendRPC(*pubsub.RPC, peer.ID)               { d.sends++ }
func (d *dropCounter) DropRPC(*pubsub.RPC, peer.ID)               { d.drops++ }
func (d *dropCounter) UndeliverableMessage(*pubsub.Message)       {}

// aloneSizes measures, for every element of the RPC, the size of an RPC that
// carries just that element (same layout as the content shape).
func aloneSizes(r *pb.RPC) vh.M {
	sh := vh.M{"ctl": r.Control != nil}
	put := func(k string, n int, v any) {
		if n > 0 {
			sh[k] = v
		}
	}
	one := func(x pb.RPC) int { return x.Size() }
	ctl := func(c pb.ControlMessage) int { return one(pb.RPC{Control: &c}) }
	var pub, subs, graft, prune, ext, partial, testext []int
	var ihave []vh.M
	var iwant, idw [][]int
	for _, m := range r.Publish {
		pub = append(pub, one(pb.RPC{Publish: []*pb.Message{m}}))
	}
	for _, s := range r.Subscriptions {
		subs = append(subs, one(pb.RPC{Subscriptions: []*pb.RPC_SubOpts{s}}))
	}
	if c := r.Control; c != nil {
		for _, g := range c.Graft {
			graft = append(graft, ctl(pb.ControlMessage{Graft: []*pb.ControlGraft{g}}))
		}
		for _, p := range c.Prune {
			prune = append(prune, ctl(pb.ControlMessage{Prune: []*pb.ControlPrune{p}}))
		}
		for _, h := range c.Ihave {
			ids := []int{}
			for _, id := range h.MessageIDs {
				ids = append(ids, ctl(pb.ControlMessage{Ihave: []*pb.ControlIHave{{TopicID: h.TopicID, MessageIDs: []string{id}}}}))
			}
			ihave = append(ihave, vh.M{"t": 0, "ids": ids})
		}
		for _, w := range c.Iwant {
			ids := []int{}
			for _, id := range w.MessageIDs {
				ids = append(ids, ctl(pb.ControlMessage{Iwant: []*pb.ControlIWant{{MessageIDs: []string{id}}}}))
			}
			iwant = append(iwant, ids)
		}
		for _, d := range c.Idontwant {
			ids := []int{}
			for _, id := range d.MessageIDs {
				ids = append(ids, ctl(pb.ControlMessage{Idontwant: []*pb.ControlIDontWant{{MessageIDs: []string{id}}}}))
			}
			idw = append(idw, ids)
		}
		if c.Extensions != nil {
			ext = append(ext, ctl(pb.ControlMessage{Extensions: c.Extensions}))
		}
	}
	if r.Partial != nil {
		partial = append(partial, one(pb.RPC{Partial: r.Partial}))
	}
	if r.TestExtension != nil {
		testext = append(testext, one(pb.RPC{TestExtension: r.TestExtension}))
	}
	put("pub", len(pub), pub)
	put("subs", len(subs), subs)
	put("graft", len(graft), graft)
	put("prune", len(prune), prune)
	put("ihave", len(ihave), ihave)
	put("iwant", len(iwant), iwant)
	put("idw", len(idw), idw)
	put("ext", len(ext), ext)
	put("partial", len(partial), partial)
	put("testext", len(testext), testext)
	return sh
}

type sendRig struct {
	ps  *pubsub.PubSub
	tr  *dropCounter
	out *vh.Out
	to  peer.ID
}

func newSendRig(t *testing.T, out *vh.Out) *sendRig {
	h, err := libp2p.New(libp2p.NoListenAddrs, libp2p.ResourceManager(&network.NullResourceManager{}))
	if err != nil {
		t.Fatal(err)
	}
	t.Cleanup(func() { h.Close() })
	ctx, cancel := context.WithCancel(context.Background())
	t.Cleanup(cancel)
	tr := &dropCounter{}
	ps, err := pubsub.NewGossipSub(ctx, h, pubsub.WithRawTracer(tr))
	if err != nil {
		t.Fatal(err)
	}
	return &sendRig{ps: ps, tr: tr, out: out, to: peer.ID("verif-c11-queue-only-peer")}
}

// sendCase runs sendRPC once. Everything is read inside the event loop, in the same
// evaluation as the call, so nothing else of the node interleaves.
//
// With piggy set, the PRUNEs and the IHAVEs of the built RPC are not handed to sendRPC inside the
// RPC but left waiting for the peer (control retry, pending gossip), so that sendRPC piggybacks them:
// what has to reach the queue is the same content, and "inp"/"insize" describe the whole of it.
func (r *sendRig) sendCase(t *testing.T, id, src string, limit int, build func() pb.RPC, extra vh.M, piggy bool) {
	in := build()
	line := vh.M{"e": "send", "id": id, "src": src, "limit": limit, "inp": shapeOf(&in), "alone": aloneSizes(&in), "insize": in.Size()}
	rest := in
	rest.Publish = nil
	line["rest"] = rest.Size()
	for k, v := range extra {
		line[k] = v
	}
	var pendingCtl *pb.ControlMessage
	var pendingGossip []*pb.ControlIHave
	if c := in.Control; piggy && c != nil && (len(c.Prune) > 0 || len(c.Ihave) > 0) {
		if len(c.Prune) > 0 {
			pendingCtl = &pb.ControlMessage{Prune: c.Prune}
		}
		if len(c.Ihave) > 0 {
			pendingGossip = c.Ihave
		}
		own := *c
		own.Prune, own.Ihave = nil, nil
		if own.Size() > 0 {
			in.Control = &own
		} else {
			in.Control = nil
		}
		line["piggy"], line["outsize"] = true, in.Size()
	}
	rpc := pubsub.VerifNewRPC(in, peer.ID("verif-c11-self"))
	shapes, sizes := []vh.M{}, []int{}
	err := r.ps.VerifEval(func() {
		d0, s0 := r.tr.drops, r.tr.sends
		defer func() {
			if p := recover(); p != nil {
				line["panic"] = fmt.Sprint(p)
				line["stack"] = libFrames(string(debug.Stack()))
			}
			line["drops"], line["sends"] = r.tr.drops-d0, r.tr.sends-s0
		}()
		queued, retry := r.ps.VerifSendRPC(r.to, rpc, false, limit, pendingCtl, pendingGossip)
		for _, q := range queued {
			shapes = append(shapes, shapeOf(&q.RPC))
			sizes = append(sizes, q.Size())
		}
		line["retry_graft"], line["retry_prune"] = len(retry.GetGraft()), len(retry.GetPrune())
	})
	if err != nil {
		t.Fatalf("VerifEval: %v", err)
	}
	line["queued"], line["qsizes"] = shapes, sizes
	r.out.Emit(line)
}

// TestC11Send replays a part of the TLC-generated (shape, limit) cases and seeded random RPCs
// through the real sendRPC.
func TestC11Send(t *testing.T) {
	shapes := vh.ReadScenarios[shapeIn](t, "VERIF_IN")
	out := vh.NewOut(t, "VERIF_OUT")
	rig := newSendRig(t, out)
	for _, s := range shapes {
		build := concretise(t, s.Abs)
		for i, lim := range s.Lims {
			// every third limit, and always the ones next to the sizes that decide sendRPC's branches
			if i%3 != s.Sid%3 && lim != s.Size && lim != s.Size+1 && lim != s.Size-1 && lim != s.Rest && lim != s.Rest+1 {
				continue
			}
			// every other case with the PRUNEs / IHAVEs arriving by piggybacking
			rig.sendCase(t, fmt.Sprintf("st%d-%d", s.Sid, lim), "tlc", lim, build, vh.M{"sid": s.Sid}, (i+s.Sid)%2 == 0)
		}
	}
	seed := vh.Seed()
	nCases := vh.EnvInt("VERIF_C11_RANDOM", 150)
	profiles := []profile{
		{msgs: 4, msgMax: 600, subs: 6, grafts: 8, prunes: 5, entries: 6, idsPer: 20},
		{msgs: 2, msgMax: 300, subs: 3, grafts: 10, prunes: 8, entries: 8, idsPer: 40},
		{msgs: 20, msgMax: 3000, subs: 2, grafts: 2, prunes: 2, entries: 2, idsPer: 10},
		{msgs: 5, msgMax: 200, subs: 4, grafts: 4, prunes: 3, entries: 5, idsPer: 12, dup: true},
		{msgs: 5, msgMax: 200, subs: 4, grafts: 4, prunes: 3, entries: 5, idsPer: 6, degenerate: true},
		{msgs: 3, msgMax: 20000, subs: 3, grafts: 3, prunes: 3, entries: 4, idsPer: 30},
		{msgs: 1, msgMax: 64, subs: 1, grafts: 1, prunes: 1, entries: 2, idsPer: 3},
	}
	for c := 0; c < nCases; c++ {
		p := profiles[c%len(profiles)]
		mk := func() pb.RPC {
			g := &gen{r: rand.New(rand.NewSource(seed*1000033 + int64(c)))}
			return g.rpc(p)
		}
		probe := mk()
		size := probe.Size()
		rest := probe
		rest.Publish = nil
		rs := rest.Size()
		lr := rand.New(rand.NewSource(seed*7927 + int64(c)))
		cand := []int{size, size - 1, size + 1, rs, rs + 1, size / 2, size / 3, rs / 2, 300 + lr.Intn(1500), 1024}
		for _, e := range elementSizes(&probe) {
			cand = append(cand, e-1, e)
		}
		lr.Shuffle(len(cand), func(i, j int) { cand[i], cand[j] = cand[j], cand[i] })
		used := map[int]bool{}
		k := 0
		for _, lim := range cand {
			if lim < 16 || lim < size/200 || used[lim] {
				continue
			}
			used[lim] = true
			rig.sendCase(t, fmt.Sprintf("sr%d.%d-%d", seed, c, lim), "rand", lim, mk, vh.M{"profile": c % len(profiles)}, (c+k)%2 == 0)
			if k++; k >= 4 {
				break
			}
		}
	}
}
