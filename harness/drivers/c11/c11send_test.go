// Send-level driver for property C11: the REAL GossipSubRouter.sendRPC is run
// (inside the event loop of a real gossipsub node, through
// PubSub.VerifSendRPCQ) towards a peer that exists as an outbound queue only
// (unbounded, or bounded so that the "queue full" drop path is taken).
// Recorded per case: the input, the limit (maximum message size), the queue
// capacity, what was queued for the wire (shapes and sizes, in queue order),
// every drop REPORT - the content of the RPC handed to RawTracer.DropRPC,
// snapshotted inside the callback (the object is altered afterwards), and the
// meta of the DROP_RPC event handed to the EventTracer - and the GRAFT/PRUNE
// sendRPC kept for a retry. TLC judges (spec/split/SplitTrace.tla, SendVerdict
// of SplitRel.tla).
package c11

import (
	"context"
	"fmt"
	"math/rand"
	"runtime/debug"
	"strings"
	"testing"

	"github.com/libp2p/go-libp2p"
	pubsub "github.com/libp2p/go-libp2p-pubsub"
	pb "github.com/libp2p/go-libp2p-pubsub/pb"
	"github.com/libp2p/go-libp2p/core/network"
	"github.com/libp2p/go-libp2p/core/peer"
	"github.com/libp2p/go-libp2p/core/protocol"

	"verifharness/vh"
)

// sendTracer is a RawTracer and an EventTracer. Both run synchronously inside the event loop.
// It snapshots, INSIDE the callbacks, what is reported as dropped.
type sendTracer struct {
	drops, sends int
	rep          []vh.M // content of the RPCs handed to RawTracer.DropRPC
	dsizes       []int  // their Size() at that moment
	evt          []vh.M // meta of the DROP_RPC trace events
}

func (d *sendTracer) reset() { d.rep, d.dsizes, d.evt = []vh.M{}, []int{}, []vh.M{} }

func (d *sendTracer) AddPeer(peer.ID, protocol.ID)               {}
func (d *sendTracer) RemovePeer(peer.ID)                         {}
func (d *sendTracer) OnNewInboundStream(peer.ID, protocol.ID)    {}
func (d *sendTracer) OnClosedInboundStream(peer.ID, protocol.ID) {}
func (d *sendTracer) OnNewOutboundStream(peer.ID, protocol.ID)   {}
func (d *sendTracer) OnClosedOutboundStream(peer.ID)             {}
func (d *sendTracer) Join(string)                                {}
func (d *sendTracer) Leave(string)                               {}
func (d *sendTracer) Graft(peer.ID, string)                      {}
func (d *sendTracer) Prune(peer.ID, string)                      {}
func (d *sendTracer) ValidateMessage(*pubsub.Message)            {}
func (d *sendTracer) DeliverMessage(*pubsub.Message)             {}
func (d *sendTracer) RejectMessage(*pubsub.Message, string)      {}
func (d *sendTracer) DuplicateMessage(*pubsub.Message)           {}
func (d *sendTracer) ThrottlePeer(peer.ID)                       {}
func (d *sendTracer) RecvRPC(*pubsub.RPC)                        {}
func (d *sendTracer) SendRPC(*pubsub.RPC, peer.ID)               { d.sends++ }
func (d *sendTracer) UndeliverableMessage(*pubsub.Message)       {}

func (d *sendTracer) DropRPC(rpc *pubsub.RPC, _ peer.ID) {
	d.drops++
	d.rep = append(d.rep, shapeOf(&rpc.RPC))
	d.dsizes = append(d.dsizes, rpc.Size())
}

// Trace receives every trace event; the DROP_RPC ones carry the public drop report.
func (d *sendTracer) Trace(evt *pb.TraceEvent) {
	if evt.GetType() != pb.TraceEvent_DROP_RPC {
		return
	}
	m := evt.GetDropRPC().GetMeta()
	sh := vh.M{"ctl": m.GetControl() != nil}
	ids := func(raw [][]byte) []string {
		out := make([]string, 0, len(raw))
		for _, b := range raw {
			out = append(out, idKey(string(b)))
		}
		return out
	}
	c := m.GetControl()
	if n := len(c.GetIhave()); n > 0 {
		l := []vh.M{}
		for _, h := range c.GetIhave() {
			l = append(l, vh.M{"t": topicKey(h.Topic), "ids": ids(h.MessageIDs)})
		}
		sh["ihave"] = l
	}
	if n := len(c.GetIwant()); n > 0 {
		l := [][]string{}
		for _, w := range c.GetIwant() {
			l = append(l, ids(w.MessageIDs))
		}
		sh["iwant"] = l
	}
	if n := len(c.GetIdontwant()); n > 0 {
		l := [][]string{}
		for _, w := range c.GetIdontwant() {
			l = append(l, ids(w.MessageIDs))
		}
		sh["idw"] = l
	}
	// the meta names messages by id and GRAFT/PRUNE/subscriptions by topic: only their numbers are compared
	sh["n"] = []int{len(m.GetMessages()), len(m.GetSubscription()), len(c.GetGraft()), len(c.GetPrune())}
	d.evt = append(d.evt, sh)
}

type sendRig struct {
	ps  *pubsub.PubSub
	tr  *sendTracer
	out *vh.Out
	to  peer.ID
}

func newSendRig(t *testing.T, out *vh.Out) *sendRig {
	h, err := libp2p.New(libp2p.NoListenAddrs, libp2p.ResourceManager(&network.NullResourceManager{}))
	if err != nil {
		t.Fatal(err)
	}
	t.Cleanup(func() { h.Close() })
	ctx, cancel := context.WithCancel(context.Background())
	t.Cleanup(cancel)
	tr := &sendTracer{}
	ps, err := pubsub.NewGossipSub(ctx, h, pubsub.WithRawTracer(tr), pubsub.WithEventTracer(tr))
	if err != nil {
		t.Fatal(err)
	}
	return &sendRig{ps: ps, tr: tr, out: out, to: peer.ID("verif-c11-queue-only-peer")}
}

// sendCase runs sendRPC once. Everything is read inside the event loop, in the same
// evaluation as the call, so nothing else of the node interleaves.
//
// queueCap < 0: the peer's outbound queue is unbounded; otherwise it takes queueCap RPCs and every
// further RPC is dropped by doSendRPC ("queue full").
//
// With piggy set, the PRUNEs and the IHAVEs of the built RPC are not handed to sendRPC inside the
// RPC but left waiting for the peer (control retry, pending gossip), so that sendRPC piggybacks them:
// what has to be accounted for is the same content, and "inp"/"insize" describe the whole of it.
func (r *sendRig) sendCase(t *testing.T, id, src string, limit, queueCap int, build func() pb.RPC, extra vh.M, piggy bool) {
	in := build()
	line := vh.M{"e": "send", "id": id, "src": src, "limit": limit, "cap": queueCap, "inp": shapeOf(&in), "insize": in.Size()}
	rest := in
	rest.Publish = nil
	line["rest"] = rest.Size()
	for k, v := range extra {
		line[k] = v
	}
	var pendingCtl *pb.ControlMessage
	var pendingGossip []*pb.ControlIHave
	if c := in.Control; piggy && c != nil && (len(c.Prune) > 0 || len(c.Ihave) > 0) {
		if len(c.Prune) > 0 {
			pendingCtl = &pb.ControlMessage{Prune: c.Prune}
		}
		if len(c.Ihave) > 0 {
			pendingGossip = c.Ihave
		}
		own := *c
		own.Prune, own.Ihave = nil, nil
		if own.Size() > 0 {
			in.Control = &own
		} else {
			in.Control = nil
		}
		line["piggy"], line["outsize"] = true, in.Size()
	}
	rpc := pubsub.VerifNewRPC(in, peer.ID("verif-c11-self"))
	shapes, sizes := []vh.M{}, []int{}
	err := r.ps.VerifEval(func() {
		d0, s0 := r.tr.drops, r.tr.sends
		r.tr.reset()
		defer func() {
			if p := recover(); p != nil {
				line["panic"] = fmt.Sprint(p)
				line["stack"] = libFrames(string(debug.Stack()))
			}
			line["drops"], line["sends"] = r.tr.drops-d0, r.tr.sends-s0
			line["rep"], line["dsizes"], line["evt"] = r.tr.rep, r.tr.dsizes, r.tr.evt
			r.tr.reset()
		}()
		queued, retry := r.ps.VerifSendRPCQ(r.to, rpc, false, limit, queueCap, pendingCtl, pendingGossip)
		for _, q := range queued {
			shapes = append(shapes, shapeOf(&q.RPC))
			sizes = append(sizes, q.Size())
		}
		// what sendRPC left in gs.control for the peer (GRAFT/PRUNE to be piggybacked onto a later RPC)
		line["retry"] = shapeOf(&pb.RPC{Control: retry})
	})
	if err != nil {
		t.Fatalf("VerifEval: %v", err)
	}
	line["queued"], line["qsizes"] = shapes, sizes
	r.out.Emit(line)
}

// giantRPC builds an RPC of ordinary elements in which one message id (or one id of each of the three
// gossip kinds, kind "all") is larger than the limit by itself. pos: "only" (the RPC is that id alone),
// "first" / "middle" / "last" (position of the giant id among three ordinary ids of its entry, with
// ordinary elements of every kind before and after it in the RPC).
func giantRPC(kind, pos string, limit int) func() pb.RPC {
	return func() pb.RPC {
		n := 0
		id := func(l string, size int) string {
			n++
			return text(fmt.Sprintf("%s%d.", l, n), size)
		}
		place := func(l string, giant bool) []string {
			small := []string{id(l, 32), id(l, 20), id(l, 40)}
			if !giant {
				return small
			}
			g := id(strings.ToUpper(l)+"GIANT", 2*limit+17)
			switch pos {
			case "only":
				return []string{g}
			case "first":
				return append([]string{g}, small...)
			case "middle":
				return []string{small[0], g, small[1], small[2]}
			}
			return append(small, g)
		}
		is := func(k string) bool { return kind == k || kind == "all" }
		tA, tB := "topic-A", "topic-B"
		c := &pb.ControlMessage{}
		if pos == "only" {
			switch kind {
			case "ihave":
				c.Ihave = []*pb.ControlIHave{{TopicID: &tA, MessageIDs: place("h", true)}}
			case "iwant":
				c.Iwant = []*pb.ControlIWant{{MessageIDs: place("w", true)}}
			default:
				c.Idontwant = []*pb.ControlIDontWant{{MessageIDs: place("d", true)}}
			}
			return pb.RPC{Control: c}
		}
		tru := true
		bo := uint64(60)
		c.Graft = []*pb.ControlGraft{{TopicID: &tA}, {TopicID: &tB}}
		c.Prune = []*pb.ControlPrune{{TopicID: &tA, Backoff: &bo}, {TopicID: &tB, Peers: []*pb.PeerInfo{{PeerID: []byte(id("peer", 38))}}}}
		c.Ihave = []*pb.ControlIHave{{TopicID: &tA, MessageIDs: place("h", is("ihave"))}, {TopicID: &tB, MessageIDs: []string{id("h", 32)}}}
		c.Iwant = []*pb.ControlIWant{{MessageIDs: place("w", is("iwant"))}}
		c.Idontwant = []*pb.ControlIDontWant{{MessageIDs: place("d", is("idw"))}, {MessageIDs: []string{id("d", 32)}}}
		c.Extensions = &pb.ControlExtensions{PartialMessages: &tru}
		return pb.RPC{
			Publish:       []*pb.Message{{Data: []byte(id("data", 60)), Topic: &tA}, {Data: []byte(id("data", 40)), Topic: &tB}},
			Subscriptions: []*pb.RPC_SubOpts{{Subscribe: &tru, Topicid: &tA}, {Subscribe: &tru, Topicid: &tB}},
			Control:       c,
			Partial:       &pb.PartialMessagesExtension{TopicID: &tA, GroupID: []byte("group")},
			TestExtension: &pb.TestExtension{},
		}
	}
}

// TestC11Send replays a part of the TLC-generated (shape, limit) cases, the "one message id larger than
// the limit" classes and seeded random RPCs through the real sendRPC, with unbounded and with small queues.
func TestC11Send(t *testing.T) {
	shapes := vh.ReadScenarios[shapeIn](t, "VERIF_IN")
	out := vh.NewOut(t, "VERIF_OUT")
	rig := newSendRig(t, out)

	// 1. a single gossip id that cannot fit by itself, alone and with fitting elements before and after it
	for _, kind := range []string{"ihave", "iwant", "idw", "all"} {
		for _, pos := range []string{"only", "first", "middle", "last"} {
			if kind == "all" && pos == "only" {
				continue
			}
			for _, lim := range []int{200, 4096} {
				for _, qc := range []int{-1, 0, 1, 3} {
					for _, piggy := range []bool{false, true} {
						if piggy && (kind == "iwant" || kind == "idw") && qc >= 0 {
							continue
						}
						rig.sendCase(t, fmt.Sprintf("sg-%s-%s-%d-q%d-%v", kind, pos, lim, qc, piggy), "giant", lim, qc,
							giantRPC(kind, pos, lim), vh.M{"giant": kind, "pos": pos}, piggy)
					}
				}
			}
		}
	}

	// 2. TLC shapes: unbounded queue, and (every other selected case) a queue of 0, 1 or 2 RPCs
	for _, s := range shapes {
		build := concretise(t, s.Abs)
		for i, lim := range s.Lims {
			// every third limit, and always the ones next to the sizes that decide sendRPC's branches
			if i%3 != s.Sid%3 && lim != s.Size && lim != s.Size+1 && lim != s.Size-1 && lim != s.Rest && lim != s.Rest+1 {
				continue
			}
			// every other case with the PRUNEs / IHAVEs arriving by piggybacking
			piggy := (i+s.Sid)%2 == 0
			rig.sendCase(t, fmt.Sprintf("st%d-%d", s.Sid, lim), "tlc", lim, -1, build, vh.M{"sid": s.Sid}, piggy)
			if (i/2+s.Sid)%2 == 0 {
				qc := (i + s.Sid/2) % 3
				rig.sendCase(t, fmt.Sprintf("sq%d-%d-c%d", s.Sid, lim, qc), "tlc", lim, qc, build, vh.M{"sid": s.Sid}, !piggy)
			}
		}
	}

	// 3. seeded random RPCs
	seed := vh.Seed()
	nCases := vh.EnvInt("VERIF_C11_RANDOM", 150)
	profiles := []profile{
		{msgs: 4, msgMax: 600, subs: 6, grafts: 8, prunes: 5, entries: 6, idsPer: 20},
		{msgs: 2, msgMax: 300, subs: 3, grafts: 10, prunes: 8, entries: 8, idsPer: 40},
		{msgs: 20, msgMax: 3000, subs: 2, grafts: 2, prunes: 2, entries: 2, idsPer: 10},
		{msgs: 5, msgMax: 200, subs: 4, grafts: 4, prunes: 3, entries: 5, idsPer: 12, dup: true},
		{msgs: 5, msgMax: 200, subs: 4, grafts: 4, prunes: 3, entries: 5, idsPer: 6, degenerate: true},
		{msgs: 3, msgMax: 20000, subs: 3, grafts: 3, prunes: 3, entries: 4, idsPer: 30},
		{msgs: 1, msgMax: 64, subs: 1, grafts: 1, prunes: 1, entries: 2, idsPer: 3},
		{msgs: 3, msgMax: 300, subs: 3, grafts: 3, prunes: 3, entries: 4, idsPer: 8, giant: true},
	}
	for c := 0; c < nCases; c++ {
		p := profiles[c%len(profiles)]
		mk := func() pb.RPC {
			g := &gen{r: rand.New(rand.NewSource(seed*1000033 + int64(c)))}
			return g.rpc(p)
		}
		probe := mk()
		size := probe.Size()
		rest := probe
		rest.Publish = nil
		rs := rest.Size()
		lr := rand.New(rand.NewSource(seed*7927 + int64(c)))
		cand := []int{size, size - 1, size + 1, rs, rs + 1, size / 2, size / 3, rs / 2, 300 + lr.Intn(1500), 1024}
		if p.giant {
			cand = append(cand, 2048, 4096, 1200)
		}
		for _, e := range elementSizes(&probe) {
			cand = append(cand, e-1, e)
		}
		lr.Shuffle(len(cand), func(i, j int) { cand[i], cand[j] = cand[j], cand[i] })
		used := map[int]bool{}
		k := 0
		for _, lim := range cand {
			if lim < 16 || lim < size/200 || used[lim] {
				continue
			}
			used[lim] = true
			piggy := (c+k)%2 == 0
			rig.sendCase(t, fmt.Sprintf("sr%d.%d-%d", seed, c, lim), "rand", lim, -1, mk, vh.M{"profile": c % len(profiles)}, piggy)
			if k%2 == 0 {
				qc := lr.Intn(4)
				rig.sendCase(t, fmt.Sprintf("sq%d.%d-%d-c%d", seed, c, lim, qc), "rand", lim, qc, mk, vh.M{"profile": c % len(profiles)}, !piggy)
			}
			if k++; k >= 4 {
				break
			}
		}
	}
}
