// Drivers for property C11 (splitting an oversized RPC). They build real
// pubsub.RPC values, run the real RPC.split (through pubsub.VerifSplit) and
// record, per case, one NDJSON line with the input, the limit, the fragments
// (as content shapes) and the real Size() of everything. TLC validates every
// line against the relation of spec/split/SplitRel.tla (SplitTrace.tla); the
// drivers never judge.
package c11

import (
	"crypto/sha256"
	"encoding/hex"
	"fmt"
	"math/rand"
	"runtime/debug"
	"strconv"
	"strings"
	"testing"

	pubsub "github.com/libp2p/go-libp2p-pubsub"
	pb "github.com/libp2p/go-libp2p-pubsub/pb"
	"github.com/libp2p/go-libp2p/core/peer"

	"verifharness/vh"
)

// ---------------------------------------------------------------------------
// content shapes

func short(prefix string, b []byte) string {
	if len(b) <= 20 {
		return prefix + hex.EncodeToString(b)
	}
	h := sha256.Sum256(b)
	return fmt.Sprintf("%s#%s/%d", prefix, hex.EncodeToString(h[:8]), len(b))
}

type marshaler interface{ Marshal() ([]byte, error) }

func key(prefix string, m marshaler) string {
	b, err := m.Marshal()
	if err != nil {
		return prefix + "!marshal:" + err.Error()
	}
	return short(prefix, b)
}

func idKey(id string) string {
	for i := 0; i < len(id); i++ {
		if c := id[i]; c < 0x20 || c > 0x7e || c == '"' || c == '\\' {
			return short("hex:", []byte(id))
		}
	}
	if len(id) > 48 {
		h := sha256.Sum256([]byte(id))
		return fmt.Sprintf("i:%s#%s/%d", id[:16], hex.EncodeToString(h[:8]), len(id))
	}
	return "i:" + id
}

func idKeys(ids []string) []string {
	out := make([]string, 0, len(ids))
	for _, id := range ids {
		out = append(out, idKey(id))
	}
	return out
}

func topicKey(t *string) string {
	if t == nil {
		return "<nil>"
	}
	return idKey(*t)
}

// shapeOf describes the contents of an RPC: one key per element, derived from
// the element's encoded content only (equal keys <=> equal content).
func shapeOf(r *pb.RPC) vh.M {
	pub, subs, graft, prune := []string{}, []string{}, []string{}, []string{}
	ihave, iwant, idw := []vh.M{}, [][]string{}, [][]string{}
	ext, partial, testext := []string{}, []string{}, []string{}
	unk := len(r.XXX_unrecognized)
	for _, m := range r.Publish {
		pub = append(pub, key("m:", m))
	}
	for _, s := range r.Subscriptions {
		subs = append(subs, key("s:", s))
	}
	if c := r.Control; c != nil {
		unk += len(c.XXX_unrecognized)
		for _, g := range c.Graft {
			graft = append(graft, key("g:", g))
		}
		for _, p := range c.Prune {
			prune = append(prune, key("p:", p))
		}
		for _, h := range c.Ihave {
			unk += len(h.XXX_unrecognized)
			ihave = append(ihave, vh.M{"t": topicKey(h.TopicID), "ids": idKeys(h.MessageIDs)})
		}
		for _, w := range c.Iwant {
			unk += len(w.XXX_unrecognized)
			iwant = append(iwant, idKeys(w.MessageIDs))
		}
		for _, d := range c.Idontwant {
			unk += len(d.XXX_unrecognized)
			idw = append(idw, idKeys(d.MessageIDs))
		}
		if c.Extensions != nil {
			ext = append(ext, key("x:", c.Extensions))
		}
	}
	if r.Partial != nil {
		partial = append(partial, key("pm:", r.Partial))
	}
	if r.TestExtension != nil {
		testext = append(testext, key("te:", r.TestExtension))
	}
	// empty fields are omitted (the trace spec restores them); "ctl" is always there
	sh := vh.M{"ctl": r.Control != nil}
	put := func(k string, n int, v any) {
		if n > 0 {
			sh[k] = v
		}
	}
	put("pub", len(pub), pub)
	put("subs", len(subs), subs)
	put("graft", len(graft), graft)
	put("prune", len(prune), prune)
	put("ihave", len(ihave), ihave)
	put("iwant", len(iwant), iwant)
	put("idw", len(idw), idw)
	put("ext", len(ext), ext)
	put("partial", len(partial), partial)
	put("testext", len(testext), testext)
	put("unk", unk, unk)
	return sh
}

// ---------------------------------------------------------------------------
// running one case

var from = peer.ID("verif-c11-peer")

// runCase builds the RPC afresh, records its shape and sizes BEFORE the split,
// runs the real splitter and records what came out.
func runCase(out *vh.Out, id, src string, limit int, build func() pb.RPC, extra vh.M) {
	in := build()
	line := vh.M{"e": "case", "id": id, "src": src, "limit": limit, "inp": shapeOf(&in), "insize": in.Size()}
	rest := in
	rest.Publish = nil
	line["rest"] = rest.Size()
	for k, v := range extra {
		line[k] = v
	}
	rpc := pubsub.VerifNewRPC(in, from)
	var frags []pubsub.RPC
	func() {
		defer func() {
			if p := recover(); p != nil {
				line["panic"] = fmt.Sprint(p)
				line["stack"] = libFrames(string(debug.Stack()))
			}
		}()
		frags = pubsub.VerifSplit(rpc, limit)
	}()
	shapes, sizes := []vh.M{}, []int{}
	for i := range frags {
		shapes = append(shapes, shapeOf(&frags[i].RPC))
		sizes = append(sizes, frags[i].Size())
	}
	line["frags"], line["sizes"] = shapes, sizes
	// the input must not have been altered by the splitter
	line["insize_after"] = rpc.Size()
	out.Emit(line)
}

func libFrames(stack string) []string {
	var fr []string
	for _, l := range strings.Split(stack, "\n") {
		l = strings.TrimSpace(l)
		if strings.Contains(l, "go-libp2p-pubsub") || strings.Contains(l, "/pubsub.go:") {
			fr = append(fr, l)
		}
		if len(fr) >= 6 {
			break
		}
	}
	return fr
}

// ---------------------------------------------------------------------------
// concretisation of the abstract shapes emitted by TLC (spec/split/MCSplit.tla)

type absIHave struct {
	T   string `json:"t"`
	Tn  int    `json:"tn"`
	Ids []int  `json:"ids"`
}

type absShape struct {
	Pub     []int      `json:"pub"`
	Subs    []int      `json:"subs"`
	Graft   []int      `json:"graft"`
	Prune   []int      `json:"prune"`
	IWant   [][]int    `json:"iwant"`
	IHave   []absIHave `json:"ihave"`
	Idw     [][]int    `json:"idw"`
	Ext     []int      `json:"ext"`
	Partial []int      `json:"partial"`
	TestExt []int      `json:"testext"`
}

type shapeIn struct {
	Sid  int      `json:"sid"`
	Abs  absShape `json:"abs"`
	Size int      `json:"size"`
	Rest int      `json:"rest"`
	Lims []int    `json:"lims"`
	Cmp  bool     `json:"cmp"`
}

func sov(l int) int {
	n := 1
	for l >= 128 {
		l >>= 7
		n++
	}
	return n
}

// payload returns n such that a length-delimited field with an n-byte payload
// (tag < 16) takes exactly s bytes.
func payload(t testing.TB, s int) int {
	for _, n := range []int{s - 2, s - 3, s - 4} {
		if n >= 0 && 1+n+sov(n) == s {
			return n
		}
	}
	t.Fatalf("no payload length gives an encoded field of %d bytes", s)
	return 0
}

// text returns a string of exactly n bytes starting with label (as far as it fits).
func text(label string, n int) string {
	if len(label) >= n {
		return label[:n]
	}
	return label + strings.Repeat("-", n-len(label))
}

func concretise(t testing.TB, a absShape) func() pb.RPC {
	return func() pb.RPC {
		var r pb.RPC
		tru := true
		for i, s := range a.Pub {
			if s == 0 {
				r.Publish = append(r.Publish, &pb.Message{})
				continue
			}
			r.Publish = append(r.Publish, &pb.Message{Data: []byte(text(fmt.Sprintf("M%d.", i), payload(t, s)))})
		}
		for i, s := range a.Subs {
			tp := text(fmt.Sprintf("S%d.", i), payload(t, s-2))
			r.Subscriptions = append(r.Subscriptions, &pb.RPC_SubOpts{Subscribe: &tru, Topicid: &tp})
		}
		ctl := &pb.ControlMessage{}
		has := false
		for i, s := range a.Graft {
			tp := text(fmt.Sprintf("G%d.", i), payload(t, s))
			ctl.Graft = append(ctl.Graft, &pb.ControlGraft{TopicID: &tp})
			has = true
		}
		for i, s := range a.Prune {
			tp := text(fmt.Sprintf("P%d.", i), payload(t, s))
			ctl.Prune = append(ctl.Prune, &pb.ControlPrune{TopicID: &tp})
			has = true
		}
		mkIDs := func(kind string, e int, lens []int) []string {
			var ids []string
			for j, n := range lens {
				ids = append(ids, text(fmt.Sprintf("%s%d.%d", kind, e, j), n))
			}
			return ids
		}
		for e, lens := range a.IWant {
			ctl.Iwant = append(ctl.Iwant, &pb.ControlIWant{MessageIDs: mkIDs("w", e, lens)})
			has = true
		}
		topics := map[string]*string{} // equal topics share one *string, as they do in gossipsub's own RPCs
		for e, h := range a.IHave {
			tp, ok := topics[h.T]
			if !ok {
				s := text(h.T, h.Tn)
				tp = &s
				topics[h.T] = tp
			}
			ctl.Ihave = append(ctl.Ihave, &pb.ControlIHave{TopicID: tp, MessageIDs: mkIDs("h", e, h.Ids)})
			has = true
		}
		for e, lens := range a.Idw {
			ctl.Idontwant = append(ctl.Idontwant, &pb.ControlIDontWant{MessageIDs: mkIDs("d", e, lens)})
			has = true
		}
		for _, s := range a.Ext {
			x := &pb.ControlExtensions{}
			switch s {
			case 0:
			case 2:
				x.PartialMessages = &tru
			case 5:
				x.TestExtension = &tru
			case 7:
				x.PartialMessages, x.TestExtension = &tru, &tru
			default:
				t.Fatalf("no ControlExtensions of %d bytes", s)
			}
			ctl.Extensions = x
			has = true
		}
		if has {
			r.Control = ctl
		}
		for _, s := range a.Partial {
			tp := "T"
			r.Partial = &pb.PartialMessagesExtension{TopicID: &tp, GroupID: []byte(text("grp", payload(t, s-3)))}
		}
		for range a.TestExt {
			r.TestExtension = &pb.TestExtension{}
		}
		return r
	}
}

// TestC11Shapes replays every (shape, limit) emitted by TLC on the real splitter.
func TestC11Shapes(t *testing.T) {
	shapes := vh.ReadScenarios[shapeIn](t, "VERIF_IN")
	out := vh.NewOut(t, "VERIF_OUT")
	for _, s := range shapes {
		build := concretise(t, s.Abs)
		probe := build()
		rest := probe
		rest.Publish = nil
		if probe.Size() != s.Size || rest.Size() != s.Rest {
			// the abstract size function and the encoder disagree: machinery, not a verdict
			out.Emit(vh.M{"e": "sizedrift", "sid": s.Sid, "abs": s.Abs, "want": s.Size, "got": probe.Size(),
				"wantrest": s.Rest, "gotrest": rest.Size()})
			continue
		}
		for _, lim := range s.Lims {
			extra := vh.M{"sid": s.Sid}
			if s.Cmp {
				extra["abs"] = s.Abs
			}
			runCase(out, fmt.Sprintf("t%d-%d", s.Sid, lim), "tlc", lim, build, extra)
		}
	}
}

// ---------------------------------------------------------------------------
// seeded random generator of larger RPCs (ids by the hundreds and thousands,
// elements of 128 bytes and more, elements that exceed the limit by themselves)

type gen struct {
	r      *rand.Rand
	n      int
	topics []*string
	giant  bool // now and then a message id of several KB (larger than any realistic limit used with it)
}

// str returns a string of exactly n bytes that is unique within the case as long as n >= 3
// (the low-order base-36 digits of a counter come first, so truncation keeps them).
func (g *gen) str(label string, n int) string {
	g.n++
	d := strconv.FormatInt(int64(g.n), 36)
	b := []byte(d)
	for i, j := 0, len(b)-1; i < j; i, j = i+1, j-1 {
		b[i], b[j] = b[j], b[i]
	}
	for len(b) < 3 {
		b = append(b, '0')
	}
	return text(string(b)+"."+label, n)
}

func (g *gen) pick(xs ...int) int { return xs[g.r.Intn(len(xs))] }

// between returns a value in [lo, hi].
func (g *gen) between(lo, hi int) int { return lo + g.r.Intn(hi-lo+1) }

func (g *gen) idLen(dup bool) int {
	if g.giant && g.r.Intn(12) == 0 {
		return g.between(2500, 9000)
	}
	switch g.r.Intn(10) {
	case 0:
		if dup {
			return g.between(1, 8) // ids of one or two bytes collide: more duplicates
		}
		return g.between(3, 8)
	case 1:
		return g.between(120, 140) // around the one/two byte length prefix
	case 2:
		return g.between(41, 100)
	default:
		return g.pick(20, 32, 40)
	}
}

func (g *gen) ids(label string, n int, dup bool) []string {
	ids := make([]string, 0, n)
	for i := 0; i < n; i++ {
		if dup && i > 0 && g.r.Intn(4) == 0 {
			ids = append(ids, ids[g.r.Intn(len(ids))])
			continue
		}
		ids = append(ids, g.str(label, g.idLen(dup)))
	}
	return ids
}

func (g *gen) topic() *string {
	if len(g.topics) == 0 || g.r.Intn(3) == 0 {
		s := g.str("topic", g.pick(5, 12, 30, 64, 130))
		if g.r.Intn(5) == 0 || len(g.topics) == 0 {
			g.topics = append(g.topics, &s)
		}
		return &s // sometimes a pointer of its own (equal strings, different pointers are possible too)
	}
	return g.topics[g.r.Intn(len(g.topics))]
}

// count draws a number of elements: often 0, otherwise up to max, skewed to small.
func (g *gen) count(max int) int {
	if max <= 0 {
		return 0
	}
	switch g.r.Intn(4) {
	case 0:
		return 0
	case 1:
		return g.between(1, min(3, max))
	default:
		return g.between(1, max)
	}
}

type profile struct {
	msgs, msgMax, subs, grafts, prunes, entries, idsPer int
	dup, degenerate, giant                              bool
}

func (g *gen) rpc(p profile) pb.RPC {
	var r pb.RPC
	g.giant = p.giant
	tru, fls := true, false
	for i, n := 0, g.count(p.msgs); i < n; i++ {
		m := &pb.Message{Data: []byte(g.str("data", g.pick(2, 16, 100, 126, 127, 128, 129, 300, p.msgMax)))}
		if g.r.Intn(2) == 0 {
			m.Topic = g.topic()
			m.From = []byte(g.str("from", 38))
			m.Seqno = []byte(g.str("", 8))
		}
		if g.r.Intn(4) == 0 {
			m.Signature = []byte(g.str("sig", 64))
		}
		if p.degenerate && g.r.Intn(6) == 0 {
			m = &pb.Message{}
		}
		r.Publish = append(r.Publish, m)
	}
	for i, n := 0, g.count(p.subs); i < n; i++ {
		s := &pb.RPC_SubOpts{Subscribe: &tru, Topicid: g.topic()}
		if g.r.Intn(3) == 0 {
			s.Subscribe = &fls
		}
		if g.r.Intn(4) == 0 {
			s.RequestsPartial = &tru
		}
		r.Subscriptions = append(r.Subscriptions, s)
	}
	c := &pb.ControlMessage{}
	for i, n := 0, g.count(p.grafts); i < n; i++ {
		c.Graft = append(c.Graft, &pb.ControlGraft{TopicID: g.topic()})
	}
	for i, n := 0, g.count(p.prunes); i < n; i++ {
		pr := &pb.ControlPrune{TopicID: g.topic()}
		if g.r.Intn(2) == 0 {
			b := uint64(g.between(1, 100000))
			pr.Backoff = &b
		}
		for k, m := 0, g.r.Intn(4); k < m; k++ {
			pr.Peers = append(pr.Peers, &pb.PeerInfo{PeerID: []byte(g.str("peer", 38)), SignedPeerRecord: []byte(g.str("rec", g.pick(0, 60, 200)))})
		}
		c.Prune = append(c.Prune, pr)
	}
	for i, n := 0, g.count(p.entries); i < n; i++ {
		k := g.count(p.idsPer)
		if !p.degenerate && k == 0 {
			k = 1
		}
		c.Ihave = append(c.Ihave, &pb.ControlIHave{TopicID: g.topic(), MessageIDs: g.ids("h", k, p.dup)})
	}
	for i, n := 0, g.count(max(1, p.entries/3)); i < n; i++ {
		k := g.count(p.idsPer)
		if !p.degenerate && k == 0 {
			k = 1
		}
		c.Iwant = append(c.Iwant, &pb.ControlIWant{MessageIDs: g.ids("w", k, p.dup)})
	}
	for i, n := 0, g.count(max(1, p.entries/3)); i < n; i++ {
		k := g.count(p.idsPer)
		if !p.degenerate && k == 0 {
			k = 1
		}
		c.Idontwant = append(c.Idontwant, &pb.ControlIDontWant{MessageIDs: g.ids("d", k, p.dup)})
	}
	if g.r.Intn(3) == 0 {
		c.Extensions = &pb.ControlExtensions{PartialMessages: &tru}
		if g.r.Intn(2) == 0 {
			c.Extensions.TestExtension = &tru
		}
	}
	if c.Size() > 0 {
		r.Control = c
	}
	if g.r.Intn(3) == 0 {
		r.Partial = &pb.PartialMessagesExtension{TopicID: g.topic(), GroupID: []byte(g.str("grp", g.pick(4, 32))),
			PartialMessage: []byte(g.str("part", g.pick(10, 200, 1500)))}
		if g.r.Intn(2) == 0 {
			r.Partial.PartsMetadata = []byte(g.str("meta", g.pick(8, 130)))
		}
	}
	if g.r.Intn(3) == 0 {
		r.TestExtension = &pb.TestExtension{}
	}
	return r
}

// elementSizes lists the sizes a few single elements would have as RPCs of their own
// (limits right at those values make "fits exactly / just does not fit" cases).
func elementSizes(r *pb.RPC) []int {
	var out []int
	add := func(x pb.RPC) { out = append(out, x.Size()) }
	for i, m := range r.Publish {
		if i < 3 {
			add(pb.RPC{Publish: []*pb.Message{m}})
		}
	}
	for i, s := range r.Subscriptions {
		if i < 2 {
			add(pb.RPC{Subscriptions: []*pb.RPC_SubOpts{s}})
		}
	}
	if c := r.Control; c != nil {
		for i, p := range c.Prune {
			if i < 2 {
				add(pb.RPC{Control: &pb.ControlMessage{Prune: []*pb.ControlPrune{p}}})
			}
		}
		for i, h := range c.Ihave {
			if i < 2 && len(h.MessageIDs) > 0 {
				add(pb.RPC{Control: &pb.ControlMessage{Ihave: []*pb.ControlIHave{{TopicID: h.TopicID, MessageIDs: h.MessageIDs[:1]}}}})
			}
		}
	}
	if r.Partial != nil {
		add(pb.RPC{Partial: r.Partial})
	}
	return out
}

func TestC11Random(t *testing.T) {
	out := vh.NewOut(t, "VERIF_OUT")
	seed := vh.Seed()
	nCases := vh.EnvInt("VERIF_C11_RANDOM", 150)
	profiles := []profile{
		{msgs: 4, msgMax: 600, subs: 6, grafts: 8, prunes: 5, entries: 6, idsPer: 60},                   // mixed, moderate
		{msgs: 2, msgMax: 300, subs: 3, grafts: 30, prunes: 20, entries: 12, idsPer: 400},               // control heavy: thousands of ids
		{msgs: 40, msgMax: 5000, subs: 2, grafts: 2, prunes: 2, entries: 2, idsPer: 10},                 // publish heavy
		{msgs: 3, msgMax: 100, subs: 80, grafts: 100, prunes: 30, entries: 3, idsPer: 5},                // many small elements
		{msgs: 5, msgMax: 200, subs: 4, grafts: 4, prunes: 3, entries: 5, idsPer: 12, dup: true},        // duplicated ids
		{msgs: 5, msgMax: 200, subs: 4, grafts: 4, prunes: 3, entries: 5, idsPer: 6, degenerate: true},  // entries without ids, empty messages
		{msgs: 3, msgMax: 20000, subs: 3, grafts: 3, prunes: 3, entries: 4, idsPer: 30},                 // some elements beyond any limit
		{msgs: 1, msgMax: 64, subs: 1, grafts: 1, prunes: 1, entries: 2, idsPer: 3},                     // tiny
		{msgs: 0, msgMax: 2, subs: 0, grafts: 0, prunes: 0, entries: 9, idsPer: 150, dup: false},        // control only: ids only
		{msgs: 6, msgMax: 1000, subs: 10, grafts: 10, prunes: 10, entries: 10, idsPer: 100, dup: false}, // everything, large
		{msgs: 2, msgMax: 40, subs: 2, grafts: 2, prunes: 2, entries: 2, idsPer: 4, dup: true, degenerate: true},
		{msgs: 3, msgMax: 300, subs: 3, grafts: 3, prunes: 3, entries: 4, idsPer: 8, giant: true}, // message ids of several KB
	}
	for c := 0; c < nCases; c++ {
		// every case has its own generator so that a case can be reproduced from (seed, case number)
		p := profiles[c%len(profiles)]
		mk := func() pb.RPC {
			g := &gen{r: rand.New(rand.NewSource(seed*1000003 + int64(c)))}
			return g.rpc(p)
		}
		probe := mk()
		size := probe.Size()
		rest := probe
		rest.Publish = nil
		rs := rest.Size()
		lr := rand.New(rand.NewSource(seed*7919 + int64(c)))
		cand := []int{size, size - 1, size + 1, rs, rs - 1, rs + 1, size / 2, size / 3, size / 7, rs / 2, rs / 5,
			300 + lr.Intn(1500), 1024, 4096}
		if size < 4000 { // small limits only for small RPCs (otherwise thousands of one-element fragments)
			cand = append(cand, 64+lr.Intn(200), 20+lr.Intn(40))
		}
		for _, e := range elementSizes(&probe) {
			cand = append(cand, e-1, e, e+1)
		}
		lr.Shuffle(len(cand), func(i, j int) { cand[i], cand[j] = cand[j], cand[i] })
		used := map[int]bool{}
		k := 0
		want := 4
		if vh.Thorough() {
			want = 7
		}
		for _, lim := range cand {
			if lim < 8 || lim < size/400 || used[lim] {
				continue
			}
			used[lim] = true
			runCase(out, fmt.Sprintf("r%d.%d-%d", seed, c, lim), "rand", lim, mk, vh.M{"profile": c % len(profiles)})
			if k++; k >= want {
				break
			}
		}
	}
}
