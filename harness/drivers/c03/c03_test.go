// Driver for property C03 (only authentic messages are accepted under the
// configured signature policy).
//
// TestC03 reads "worlds" (VERIF_IN, one JSON object per line) produced by
// bin/lib/props/c03.py from the rows that TLC emitted from spec/sigpolicy/
// GenSigPolicy.tla. A world is one REAL node under test (NUT: gossipsub or
// floodsub) built with one signature policy and one author mode, subscribed to
// two topics, with wire-level fake peers around it:
//
//	A  sender with an Ed25519 host identity (inline id)   - "via author" for inline ids
//	R  sender with an RSA-2048 host identity (hashed id)  - "via author" for hashed ids
//	C  sender that is never the author                    - "via third party"
//	O  observer, subscribed to both topics and grafted into the mesh: everything
//	   the NUT FORWARDS or PUBLISHES arrives here
//
// Receiving direction: every abstract message class of the world is concretised
// with real keys by signing according to the pubsub specification (prefix
// "libp2p-pubsub:" + marshalled message without signature and key) and then
// tampering exactly as the class says; it is injected alone, the network
// settles, and one line records what the real node did with it (delivered at
// Subscription.Next, forwarded to O, tracer events) next to the verdict of an
// INDEPENDENT oracle (go-libp2p crypto over the bytes that were sent; it calls
// no pubsub code). Thorough tier: additionally random byte-level mutations of
// valid messages, classified by the oracle alone.
//
// Sending direction: the NUT publishes under its author mode, plainly and with
// per-publish keys; the bytes O receives go through the same oracle.
//
// The driver never judges: spec/sigpolicy/SigPolicyTrace.tla does.
package c03

import (
	"bytes"
	"context"
	"crypto/rand"
	"crypto/sha256"
	"encoding/binary"
	"fmt"
	mrand "math/rand"
	"os"
	"sync"
	"testing"
	"testing/synctest"
	"time"

	"github.com/libp2p/go-libp2p"
	pubsub "github.com/libp2p/go-libp2p-pubsub"
	pb "github.com/libp2p/go-libp2p-pubsub/pb"
	"github.com/libp2p/go-libp2p/core/crypto"
	"github.com/libp2p/go-libp2p/core/host"
	"github.com/libp2p/go-libp2p/core/network"
	"github.com/libp2p/go-libp2p/core/peer"
	"github.com/libp2p/go-libp2p/core/protocol"
	"github.com/libp2p/go-libp2p/x/simlibp2p"
	"github.com/marcopolo/simnet"

	"verifharness/hnet"
	"verifharness/vh"
)

type M = map[string]any

// ---------------------------------------------------------------------------
// input

type cls struct {
	From  string `json:"from"`
	Seqno string `json:"seqno"`
	Key   string `json:"key"`
	Sig   string `json:"sig"`
	Extra string `json:"extra"`
	Via   string `json:"via"`
}

type msgSpec struct {
	Cls     cls    `json:"cls"`
	Verdict string `json:"verdict"` // what the transcription of the code predicts (echoed, never used here)
	Auth    bool   `json:"auth"`
	Sauth   bool   `json:"sauth"`
}

type sendSpec struct {
	Pub string `json:"pub"` // plain | perKeyInline | perKeyHashed
	Exp cls    `json:"exp"` // class the model expects on the wire (echoed)
	Ok  bool   `json:"ok"`  // model: the local publish succeeds (echoed)
}

type worldSpec struct {
	W      int        `json:"w"`
	Router string     `json:"router"` // gossipsub | floodsub
	Policy string     `json:"policy"`
	Mode   string     `json:"mode"` // default | custom | noAuthor
	Ak     string     `json:"ak"`   // kind of the custom author id: inline | hashed
	Valid  bool       `json:"valid"`
	Msgs   []msgSpec  `json:"msgs"`
	Sends  []sendSpec `json:"sends"`
	Fuzz   int        `json:"fuzz"` // random mutations per base message
}

// ---------------------------------------------------------------------------
// identities (generated once per run; RSA key generation is slow)

type ident struct {
	priv crypto.PrivKey
	pub  crypto.PubKey
	id   peer.ID
	kb   []byte // marshalled public key
}

func mkIdent(priv crypto.PrivKey) ident {
	id, err := peer.IDFromPrivateKey(priv)
	if err != nil {
		panic(err)
	}
	kb, err := crypto.MarshalPublicKey(priv.GetPublic())
	if err != nil {
		panic(err)
	}
	return ident{priv: priv, pub: priv.GetPublic(), id: id, kb: kb}
}

var (
	keysOnce           sync.Once
	e1, e2, r1, r2, rh ident // two Ed25519, two RSA-2048 identities and the RSA host identity of peer R
)

func genKeys() {
	keysOnce.Do(func() {
		ed := func() ident {
			k, _, err := crypto.GenerateEd25519Key(rand.Reader)
			if err != nil {
				panic(err)
			}
			return mkIdent(k)
		}
		rsa := func() ident {
			k, _, err := crypto.GenerateRSAKeyPair(2048, rand.Reader)
			if err != nil {
				panic(err)
			}
			return mkIdent(k)
		}
		e1, e2, r1, r2, rh = ed(), ed(), rsa(), rsa(), rsa()
		// sanity of the premises: Ed25519 ids embed the key, RSA-2048 ids do not
		if k, _ := e1.id.ExtractPublicKey(); k == nil {
			panic("c03: Ed25519 id does not embed its key")
		}
		if k, _ := r1.id.ExtractPublicKey(); k != nil {
			panic("c03: RSA id embeds its key")
		}
	})
}

// ---------------------------------------------------------------------------
// the independent oracle

const signPrefix = "libp2p-pubsub:"

type verdict struct {
	Parsed    bool
	From      string // absent | empty | self | inline | hashed | garbage
	Seqno     string // absent | empty | present
	Key       string // absent | empty | matches | other | garbage
	Sig       string // absent | empty | present
	Topic     string
	Authentic bool // a present signature verifies over the received contents under a key bound to From
	Strict    bool // ... and any attached key matches From
}

func presence(b []byte) string {
	if b == nil {
		return "absent"
	}
	if len(b) == 0 {
		return "empty"
	}
	return "present"
}

// oracle classifies the bytes of one pb.Message as they travel on the wire. It
// uses go-libp2p's crypto and peer packages and the protobuf codec only.
func oracle(raw []byte, self peer.ID) verdict {
	var m pb.Message
	if err := m.Unmarshal(raw); err != nil {
		return verdict{}
	}
	v := verdict{Parsed: true, Seqno: presence(m.Seqno), Sig: presence(m.Signature), Topic: m.GetTopic()}
	var pid peer.ID
	var extracted crypto.PubKey
	validID := false
	switch {
	case m.From == nil:
		v.From = "absent"
	case len(m.From) == 0:
		v.From = "empty"
	default:
		id, err := peer.IDFromBytes(m.From)
		if err != nil {
			v.From = "garbage"
			break
		}
		pid, validID = id, true
		extracted, _ = id.ExtractPublicKey()
		switch {
		case id == self:
			v.From = "self"
		case extracted != nil:
			v.From = "inline"
		default:
			v.From = "hashed"
		}
	}
	var attached crypto.PubKey
	attachedMatches := false
	switch {
	case m.Key == nil:
		v.Key = "absent"
	case len(m.Key) == 0:
		v.Key = "empty"
	default:
		k, err := crypto.UnmarshalPublicKey(m.Key)
		if err != nil || k == nil {
			v.Key = "garbage"
			break
		}
		attached = k
		if validID {
			if kid, err := peer.IDFromPublicKey(k); err == nil && kid == pid {
				attachedMatches = true
			}
		}
		if attachedMatches {
			v.Key = "matches"
		} else {
			v.Key = "other"
		}
	}
	if v.Sig != "present" || !validID {
		return v
	}
	// the bytes the signature has to cover
	x := m
	x.Signature, x.Key = nil, nil
	body, err := x.Marshal()
	if err != nil {
		return v
	}
	signed := append([]byte(signPrefix), body...)
	var bound []crypto.PubKey
	if extracted != nil {
		bound = append(bound, extracted)
	}
	if attached != nil && attachedMatches {
		bound = append(bound, attached)
	}
	for _, k := range bound {
		if ok, err := k.Verify(signed, m.Signature); err == nil && ok {
			v.Authentic = true
		}
	}
	v.Strict = v.Authentic && (m.Key == nil || attachedMatches)
	return v
}

func (v verdict) obs() M {
	return M{"from": v.From, "seqno": v.Seqno, "key": v.Key, "sig": v.Sig}
}

// ---------------------------------------------------------------------------
// tracer: what the NUT says it did with the message of the current step

type tracer struct {
	mu sync.Mutex
	ev []string
}

func (t *tracer) add(s string) { t.mu.Lock(); t.ev = append(t.ev, s); t.mu.Unlock() }
func (t *tracer) take() []string {
	t.mu.Lock()
	defer t.mu.Unlock()
	e := t.ev
	t.ev = nil
	if e == nil {
		e = []string{}
	}
	return e
}
func (t *tracer) OnNewOutboundStream(peer.ID, protocol.ID) {}
func (t *tracer) OnClosedOutboundStream(peer.ID)           {}
func (t *tracer) Join(string)                              {}
func (t *tracer) Leave(string)                             {}
func (t *tracer) Graft(peer.ID, string)                    {}
func (t *tracer) Prune(peer.ID, string)                    {}
func (t *tracer) ValidateMessage(*pubsub.Message)          { t.add("Validate") }
func (t *tracer) DeliverMessage(*pubsub.Message)           { t.add("Deliver") }
func (t *tracer) RejectMessage(_ *pubsub.Message, reason string) {
	t.add("Reject:" + reason)
}
func (t *tracer) DuplicateMessage(*pubsub.Message)     { t.add("Duplicate") }
func (t *tracer) ThrottlePeer(peer.ID)                 { t.add("Throttle") }
func (t *tracer) RecvRPC(*pubsub.RPC)                  {}
func (t *tracer) SendRPC(*pubsub.RPC, peer.ID)         {}
func (t *tracer) DropRPC(*pubsub.RPC, peer.ID)         { t.add("DropRPC") }
func (t *tracer) UndeliverableMessage(*pubsub.Message) { t.add("Undeliverable") }

var _ pubsub.RawTracer = (*tracer)(nil)

// ---------------------------------------------------------------------------
// network: like hnet.New, but host identities can be chosen (peer R needs an RSA identity)

func newNet(t testing.TB, ids []crypto.PrivKey) (*simnet.Simnet, []host.Host) {
	sim := &simnet.Simnet{LatencyFunc: simnet.StaticLatency(time.Millisecond)}
	link := simnet.NodeBiDiLinkSettings{
		Downlink: simnet.LinkSettings{BitsPerSecond: 1000 * simlibp2p.OneMbps},
		Uplink:   simnet.LinkSettings{BitsPerSecond: 1000 * simlibp2p.OneMbps},
	}
	var hosts []host.Host
	for i, k := range ids {
		addr := fmt.Sprintf("/ip4/%s/udp/8000/quic-v1", simnet.IntToPublicIPv4(i))
		opts := []libp2p.Option{
			libp2p.ListenAddrStrings(addr),
			simlibp2p.QUICSimnet(sim, link),
			libp2p.DisableIdentifyAddressDiscovery(),
			libp2p.ResourceManager(&network.NullResourceManager{}),
		}
		if k != nil {
			opts = append(opts, libp2p.Identity(k))
		}
		h, err := libp2p.New(opts...)
		if err != nil {
			t.Fatalf("c03: host %d: %v", i, err)
		}
		hosts = append(hosts, h)
	}
	sim.Start()
	return sim, hosts
}

// ---------------------------------------------------------------------------
// world

const (
	topicA = "ta"
	topicB = "tb"
)

type world struct {
	t     *testing.T
	out   *vh.Out
	spec  worldSpec
	nut   host.Host
	self  ident
	ps    *pubsub.PubSub
	tr    *tracer
	a, r  *hnet.FakePeer
	c, o  *hnet.FakePeer
	aID   ident
	rng   *mrand.Rand
	n     int
	seq   uint64
	mu    sync.Mutex
	deliv [][]byte
	tops  map[string]*pubsub.Topic
}

// msgID makes every distinct byte string a distinct message (with the no-signing
// policies the default id from||seqno is empty or collides).
func msgID(m *pb.Message) string {
	b, _ := m.Marshal()
	h := sha256.Sum256(b)
	return string(h[:])
}

func policyOf(s string) pubsub.MessageSignaturePolicy {
	switch s {
	case "StrictSign":
		return pubsub.StrictSign
	case "StrictNoSign":
		return pubsub.StrictNoSign
	case "LaxSign":
		return pubsub.LaxSign
	case "LaxNoSign":
		return pubsub.LaxNoSign
	}
	panic("c03: unknown policy " + s)
}

func (w *world) base(extra M) M {
	l := M{"w": w.spec.W, "router": w.spec.Router, "policy": w.spec.Policy, "mode": w.spec.Mode, "ak": w.spec.Ak}
	for k, v := range extra {
		l[k] = v
	}
	return l
}

func (w *world) customAuthor() ident {
	if w.spec.Ak == "hashed" {
		return r1
	}
	return e1
}

// build creates the network and the NUT and emits the ctor line. Returns false
// when the constructor refused the configuration.
func (w *world) build(ctx context.Context) bool {
	sim, hosts := newNet(w.t, []crypto.PrivKey{nil, nil, rh.priv, nil, nil})
	w.t.Cleanup(func() {
		for _, h := range hosts {
			h.Close()
		}
		sim.Close()
	})
	w.nut = hosts[0]
	w.self = mkIdent(w.nut.Peerstore().PrivKey(w.nut.ID()))
	if w.self.id != w.nut.ID() {
		w.t.Fatalf("c03: host key does not belong to the host id")
	}
	w.aID = mkIdent(hosts[1].Peerstore().PrivKey(hosts[1].ID()))
	w.tr = &tracer{}
	opts := []pubsub.Option{pubsub.WithMessageIdFn(msgID), pubsub.WithRawTracer(w.tr)}
	switch w.spec.Mode {
	case "custom":
		au := w.customAuthor()
		if err := w.nut.Peerstore().AddPrivKey(au.id, au.priv); err != nil {
			w.t.Fatal(err)
		}
		if err := w.nut.Peerstore().AddPubKey(au.id, au.pub); err != nil {
			w.t.Fatal(err)
		}
		opts = append(opts, pubsub.WithMessageAuthor(au.id))
	case "noAuthor":
		opts = append(opts, pubsub.WithNoAuthor())
	}
	// the policy goes last so that it is exactly the requested one
	opts = append(opts, pubsub.WithMessageSignaturePolicy(policyOf(w.spec.Policy)))
	var err error
	if w.spec.Router == "floodsub" {
		w.ps, err = pubsub.NewFloodSub(ctx, w.nut, opts...)
	} else {
		w.ps, err = pubsub.NewGossipSub(ctx, w.nut, opts...)
	}
	es := ""
	if err != nil {
		es = err.Error()
	}
	w.out.Emit(w.base(M{"e": "ctor", "valid": w.spec.Valid, "err": err != nil, "errs": es}))
	if err != nil {
		hnet.Settle(50 * time.Millisecond) // let the hosts finish starting before they are closed
		return false
	}
	w.tops = map[string]*pubsub.Topic{}
	for _, tn := range []string{topicA, topicB} {
		tp, err := w.ps.Join(tn)
		if err != nil {
			w.t.Fatal(err)
		}
		sub, err := tp.Subscribe()
		if err != nil {
			w.t.Fatal(err)
		}
		w.tops[tn] = tp
		go func() {
			for {
				m, err := sub.Next(ctx)
				if err != nil {
					return
				}
				b, _ := m.Message.Marshal()
				w.mu.Lock()
				w.deliv = append(w.deliv, b)
				w.mu.Unlock()
			}
		}()
	}
	proto, oproto := "v11", "v11"
	if w.spec.Router == "floodsub" {
		proto, oproto = "flood", "flood"
	}
	w.a = hnet.NewFakePeer(hosts[1], "A", proto, w.nut)
	w.r = hnet.NewFakePeer(hosts[2], "R", proto, w.nut)
	w.c = hnet.NewFakePeer(hosts[3], "C", proto, w.nut)
	w.o = hnet.NewFakePeer(hosts[4], "O", oproto, w.nut)
	if w.r.ID() != rh.id {
		w.t.Fatalf("c03: peer R does not have the RSA identity")
	}
	for _, f := range []*hnet.FakePeer{w.a, w.r, w.c, w.o} {
		if err := f.DialNUT(); err != nil {
			w.t.Fatalf("c03: connect %s: %v", f.Name, err)
		}
	}
	hnet.Settle(30 * time.Millisecond)
	for _, f := range []*hnet.FakePeer{w.a, w.r, w.c, w.o} {
		if err := f.OpenOut(); err != nil {
			w.t.Fatalf("c03: open stream %s: %v", f.Name, err)
		}
	}
	hello := &pb.RPC{}
	for _, tn := range []string{topicA, topicB} {
		tn, tr := tn, true
		hello.Subscriptions = append(hello.Subscriptions, &pb.RPC_SubOpts{Topicid: &tn, Subscribe: &tr})
	}
	w.o.Send(hello)
	hnet.Settle(30 * time.Millisecond)
	if w.spec.Router != "floodsub" {
		w.o.Send(hnet.GraftRPC(topicA, topicB))
		hnet.Settle(30 * time.Millisecond)
	}
	w.collect()
	return true
}

// collect drains everything observable since the previous call.
func (w *world) collect() (deliv [][]byte, fwd []*pb.Message, ev []string) {
	w.mu.Lock()
	deliv = w.deliv
	w.deliv = nil
	w.mu.Unlock()
	for _, fr := range w.o.Drain() {
		fwd = append(fwd, fr.RPC.GetPublish()...)
	}
	for _, f := range []*hnet.FakePeer{w.a, w.r, w.c} {
		f.Drain()
	}
	return deliv, fwd, w.tr.take()
}

// ---------------------------------------------------------------------------
// concretisation of a class

var garbageFrom = []byte{0xde, 0xad, 0xbe, 0xef, 0x01, 0x02, 0x03, 0x04, 0x05, 0x06, 0x07, 0x08, 0x09, 0x0a, 0x0b, 0x0c, 0x0d, 0x0e, 0x0f, 0x10}
var garbageKey = []byte{0xff, 0xfe, 0xfd, 0x00, 0x01, 0x02, 0x03}

// unknownField is protobuf field 15 (length-delimited), which pb.Message does not define.
func unknownField(val string) []byte {
	return append([]byte{15<<3 | 2, byte(len(val))}, val...)
}

func (w *world) nextSeqno() []byte {
	w.seq++
	b := make([]byte, 8)
	binary.BigEndian.PutUint64(b, w.seq)
	return b
}

func signOver(priv crypto.PrivKey, m *pb.Message) []byte {
	x := *m
	x.Signature, x.Key = nil, nil
	b, err := x.Marshal()
	if err != nil {
		panic(err)
	}
	sig, err := priv.Sign(append([]byte(signPrefix), b...))
	if err != nil {
		panic(err)
	}
	return sig
}

type concrete struct {
	raw    []byte
	sender *hnet.FakePeer
	note   string
}

func (w *world) concretise(c cls) concrete {
	w.n++
	topic := topicA
	if w.rng.Intn(3) == 0 {
		topic = topicB
	}
	other := topicB
	if topic == topicB {
		other = topicA
	}
	final := &pb.Message{Data: []byte(fmt.Sprintf("n%d|w%d", w.n, w.spec.W)), Topic: &topic}
	// author
	var author *ident
	sender := w.c
	switch c.From {
	case "absent":
	case "empty":
		final.From = []byte{}
	case "garbage":
		final.From = append([]byte(nil), garbageFrom...)
	case "self":
		author = &w.self
	case "inline":
		if c.Via == "author" {
			author, sender = &w.aID, w.a
		} else {
			author = &e1
		}
	case "hashed":
		if c.Via == "author" {
			author, sender = &rh, w.r
		} else {
			author = &r1
		}
	default:
		w.t.Fatalf("c03: from class %q", c.From)
	}
	if author != nil {
		final.From = []byte(author.id)
	}
	if c.Seqno == "present" {
		final.Seqno = w.nextSeqno()
	}
	// attached key
	otherID := &e2 // the foreign key is an Ed25519 or an RSA key (seeded choice)
	if w.rng.Intn(2) == 0 {
		otherID = &r2
	}
	switch c.Key {
	case "absent":
	case "empty":
		final.Key = []byte{}
	case "garbage":
		final.Key = append([]byte(nil), garbageKey...)
	case "matches":
		final.Key = author.kb
	case "other":
		final.Key = otherID.kb
	default:
		w.t.Fatalf("c03: key class %q", c.Key)
	}
	// unknown fields of the received message
	if c.Extra != "none" {
		final.XXX_unrecognized = unknownField("xyz")
	}
	// what gets signed: the received message, except for what the class says was different
	pre := *final
	pre.Data = append([]byte(nil), final.Data...)
	if c.Extra == "addedAfter" {
		pre.XXX_unrecognized = nil
	}
	signer := author
	switch c.Sig {
	case "absent":
		signer = nil
	case "empty":
		signer = nil
		final.Signature = []byte{}
	case "garbage":
		signer = nil
		final.Signature = make([]byte, 64)
		w.rng.Read(final.Signature)
	case "fromThis":
	case "attThis":
		signer = otherID
	case "fromOverData":
		pre.Data[len(pre.Data)-1] ^= 0x01 // the data byte is flipped after signing
	case "fromOverTopic":
		pre.Topic = &other
	case "fromOverFrom":
		pre.From = []byte(e2.id)
		if author.id == e2.id {
			pre.From = []byte(e1.id)
		}
	case "fromOverSeqno":
		if final.Seqno != nil {
			pre.Seqno = append([]byte(nil), final.Seqno...)
			pre.Seqno[7] ^= 0x80
		} else {
			pre.Seqno = w.nextSeqno() // signed with a sequence number that was removed afterwards
		}
	case "fromOverUnknown":
		if c.Extra == "none" {
			pre.XXX_unrecognized = unknownField("xyz") // signed with an unknown field that was stripped afterwards
		} else {
			pre.XXX_unrecognized = unknownField("xyw") // the unknown field was changed afterwards
		}
	case "swapped":
		// the signature of ANOTHER valid message of the same author
		donor := &pb.Message{From: final.From, Data: []byte(fmt.Sprintf("donor%d|w%d", w.n, w.spec.W)), Seqno: w.nextSeqno(), Topic: &topic}
		pre = *donor
	default:
		w.t.Fatalf("c03: sig class %q", c.Sig)
	}
	if signer != nil {
		final.Signature = signOver(signer.priv, &pre)
	}
	raw, err := final.Marshal()
	if err != nil {
		w.t.Fatal(err)
	}
	return concrete{raw: raw, sender: sender}
}

// rpcFrame wraps the raw bytes of one message into an RPC (field 2, publish) without re-encoding them.
func rpcFrame(raw []byte) []byte {
	hdr := make([]byte, 1+binary.MaxVarintLen64)
	hdr[0] = 2<<3 | 2
	n := binary.PutUvarint(hdr[1:], uint64(len(raw)))
	return append(hdr[:1+n], raw...)
}

// guard keeps stimuli away from gossipsub's heartbeat instants (k*1000+100 ms).
func guard() {
	ph := (hnet.NowMs() - 100) % 1000
	if ph < 0 {
		ph += 1000
	}
	if ph > 950 {
		hnet.Settle(time.Duration(1000-ph+30) * time.Millisecond)
	} else if ph < 30 {
		hnet.Settle(time.Duration(30-ph) * time.Millisecond)
	}
}

// inject sends one message alone, settles, and reports what the NUT did.
func (w *world) inject(kind string, c concrete, extra M) {
	guard()
	frame := rpcFrame(c.raw)
	var chk pb.RPC
	if err := chk.Unmarshal(frame); err != nil || len(chk.Publish) != 1 {
		w.t.Fatalf("c03: harness built an unparsable RPC: %v", err)
	}
	v := oracle(c.raw, w.self.id)
	if err := c.sender.SendRaw(frame, true); err != nil {
		w.t.Fatalf("c03: send: %v", err)
	}
	hnet.Settle(10 * time.Millisecond)
	deliv, fwd, ev := w.collect()
	same := true
	for _, d := range deliv {
		if !bytes.Equal(d, c.raw) {
			same = false
		}
	}
	for _, f := range fwd {
		if b, _ := f.Marshal(); !bytes.Equal(b, c.raw) {
			same = false
		}
	}
	line := w.base(M{"e": kind, "n": w.n, "sender": c.sender.Name, "obs": v.obs(), "authentic": v.Authentic, "authStrict": v.Strict,
		"deliv": len(deliv) > 0, "fwd": len(fwd) > 0, "ndeliv": len(deliv), "nfwd": len(fwd), "same": same, "ev": ev, "topicOK": v.Topic == topicA || v.Topic == topicB})
	for k, x := range extra {
		line[k] = x
	}
	w.out.Emit(line)
}

// ---------------------------------------------------------------------------
// random byte-level mutations (thorough tier)

func (w *world) mutate(raw []byte) []byte {
	for try := 0; try < 50; try++ {
		b := append([]byte(nil), raw...)
		for k := 0; k <= w.rng.Intn(2); k++ {
			i := w.rng.Intn(len(b))
			switch w.rng.Intn(5) {
			case 0:
				b[i] ^= 1 << uint(w.rng.Intn(8))
			case 1:
				b[i] = byte(w.rng.Intn(256))
			case 2:
				b = append(b[:i], b[i+1:]...)
			case 3:
				b = append(b[:i], append([]byte{byte(w.rng.Intn(256))}, b[i:]...)...)
			case 4:
				j := w.rng.Intn(len(b))
				b[i], b[j] = b[j], b[i]
			}
			if len(b) == 0 {
				break
			}
		}
		var m pb.Message
		if len(b) == 0 || bytes.Equal(b, raw) || m.Unmarshal(b) != nil {
			continue
		}
		if t := m.GetTopic(); t != topicA && t != topicB {
			continue // the NUT is not subscribed: the message would not even be looked at
		}
		return b
	}
	return nil
}

func (w *world) fuzz() {
	bases := []cls{
		{From: "inline", Seqno: "present", Key: "absent", Sig: "fromThis", Extra: "none", Via: "author"},
		{From: "inline", Seqno: "present", Key: "matches", Sig: "fromThis", Extra: "signedOver", Via: "third"},
		{From: "hashed", Seqno: "present", Key: "matches", Sig: "fromThis", Extra: "none", Via: "author"},
		{From: "hashed", Seqno: "absent", Key: "matches", Sig: "fromThis", Extra: "none", Via: "third"},
		{From: "inline", Seqno: "present", Key: "absent", Sig: "absent", Extra: "none", Via: "third"},
		{From: "absent", Seqno: "absent", Key: "absent", Sig: "absent", Extra: "none", Via: "third"},
	}
	for bi, bc := range bases {
		base := w.concretise(bc)
		for k := 0; k < w.spec.Fuzz; k++ {
			mb := w.mutate(base.raw)
			if mb == nil {
				continue
			}
			w.n++
			w.inject("fuzz", concrete{raw: mb, sender: base.sender}, M{"base": bi})
		}
	}
}

// ---------------------------------------------------------------------------
// sending direction

func (w *world) send(s sendSpec) {
	w.n++
	data := []byte(fmt.Sprintf("pub%d|w%d", w.n, w.spec.W))
	var opts []pubsub.PubOpt
	switch s.Pub {
	case "plain":
	case "perKeyInline":
		opts = append(opts, pubsub.WithSecretKeyAndPeerId(e2.priv, e2.id))
	case "perKeyHashed":
		opts = append(opts, pubsub.WithSecretKeyAndPeerId(r2.priv, r2.id))
	default:
		w.t.Fatalf("c03: pub mode %q", s.Pub)
	}
	guard()
	err := w.tops[topicA].Publish(context.Background(), data, opts...)
	hnet.Settle(10 * time.Millisecond)
	deliv, got, ev := w.collect()
	es := ""
	if err != nil {
		es = err.Error()
	}
	line := w.base(M{"e": "send", "n": w.n, "pub": s.Pub, "exp": s.Exp, "ok": s.Ok, "err": err != nil, "errs": es,
		"recv": len(got) > 0, "nrecv": len(got), "local": len(deliv) > 0, "ev": ev})
	v := verdict{From: "absent", Seqno: "absent", Key: "absent", Sig: "absent"}
	dataOK := true
	if len(got) > 0 {
		raw, _ := got[0].Marshal()
		v = oracle(raw, w.self.id)
		dataOK = bytes.Equal(got[0].GetData(), data) && got[0].GetTopic() == topicA
	}
	line["obs"], line["authentic"], line["authStrict"], line["dataOK"] = v.obs(), v.Authentic, v.Strict, dataOK
	w.out.Emit(line)
}

// ---------------------------------------------------------------------------

func marker(i int) {
	if p := os.Getenv("VERIF_MARKER"); p != "" {
		os.WriteFile(p, []byte(fmt.Sprintf("%d", i)), 0o644)
	}
}

// ctorOnly handles the configurations the model says the constructor refuses (a signing policy
// without author). It runs outside a synctest bubble on an unconnected host: a refused
// NewGossipSub leaves the router's address-book goroutine behind, which a bubble cannot end with.
func ctorOnly(t *testing.T, out *vh.Out, spec worldSpec) {
	h, err := libp2p.New(libp2p.NoListenAddrs, libp2p.ResourceManager(&network.NullResourceManager{}))
	if err != nil {
		t.Fatal(err)
	}
	defer h.Close()
	ctx, cancel := context.WithCancel(context.Background())
	defer cancel()
	w := &world{t: t, out: out, spec: spec}
	opts := []pubsub.Option{pubsub.WithMessageIdFn(msgID)}
	if spec.Mode == "noAuthor" {
		opts = append(opts, pubsub.WithNoAuthor())
	}
	opts = append(opts, pubsub.WithMessageSignaturePolicy(policyOf(spec.Policy)))
	if spec.Router == "floodsub" {
		_, err = pubsub.NewFloodSub(ctx, h, opts...)
	} else {
		_, err = pubsub.NewGossipSub(ctx, h, opts...)
	}
	es := ""
	if err != nil {
		es = err.Error()
	}
	out.Emit(w.base(M{"e": "ctor", "valid": spec.Valid, "err": err != nil, "errs": es}))
}

func runWorld(t *testing.T, out *vh.Out, spec worldSpec) {
	if !spec.Valid {
		ctorOnly(t, out, spec)
		return
	}
	synctest.Test(t, func(t *testing.T) {
		ctx, cancel := context.WithCancel(context.Background())
		w := &world{t: t, out: out, spec: spec, rng: mrand.New(mrand.NewSource(vh.Seed()*1000 + int64(spec.W)))}
		defer func() {
			cancel()
			hnet.Settle(10 * time.Millisecond)
		}()
		if !w.build(ctx) {
			return
		}
		// stimuli stay away from the heartbeat instants (k*1000+100 ms for gossipsub)
		for _, ms := range spec.Msgs {
			w.inject("msg", w.concretise(ms.Cls), M{"cls": ms.Cls, "verdict": ms.Verdict, "auth": ms.Auth, "sauth": ms.Sauth})
		}
		if spec.Fuzz > 0 {
			w.fuzz()
		}
		for _, s := range spec.Sends {
			w.send(s)
		}
	})
}

func TestC03(t *testing.T) {
	worlds := vh.ReadScenarios[worldSpec](t, "VERIF_IN")
	out := vh.NewOut(t, "VERIF_OUT")
	genKeys()
	only := vh.EnvInt("VERIF_ONLY", -1)
	for _, ws := range worlds {
		if only >= 0 && ws.W != only {
			continue
		}
		marker(ws.W)
		runWorld(t, out, ws)
	}
}
