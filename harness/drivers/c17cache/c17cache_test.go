// Driver for the container part of property C17: the gossipsub MessageCache
// (mcache.go, public API). It replays TLC-generated sequences of
// Put / Shift / GetForPeer on the REAL cache and, after every call, asks the
// cache everything that can be asked without changing it (Get for every id,
// GetGossipIDs for every topic). Answers are recorded as NDJSON; TLC validates
// them against spec/mcache/MCacheTrace.tla. The driver never judges results.
package c17cache

import (
	"fmt"
	"sort"
	"testing"

	pubsub "github.com/libp2p/go-libp2p-pubsub"
	pb "github.com/libp2p/go-libp2p-pubsub/pb"
	"github.com/libp2p/go-libp2p/core/peer"

	"verifharness/vh"
)

type op struct {
	Op string `json:"op"` // put | shift | gfp
	ID string `json:"id"`
	P  string `json:"p"`
}

type scenario struct {
	Scn  int    `json:"scn"`
	H    int    `json:"h"`    // history length
	G    int    `json:"g"`    // gossip length
	IDFn string `json:"idfn"` // default (From+Seqno) | custom (SetMsgIdFn)
	Ops  []op   `json:"ops"`
}

// The universe of the specification (MCacheTrace.tla): m1, m2 in topic t1, m3 in
// topic t2; t0 is a topic no message carries; "ghost" is an id never put.
var (
	ids     = []string{"m1", "m2", "m3"}
	seqOf   = map[string]byte{"m1": 1, "m2": 2, "m3": 3}
	topicOf = map[string]string{"m1": "t1", "m2": "t1", "m3": "t2"}
	topics  = []string{"t0", "t1", "t2"}
)

type run struct {
	mc      *pubsub.MessageCache
	custom  bool
	lastPut map[string]*pubsub.Message
}

// realID is the message id the cache uses for the symbolic id.
func (r *run) realID(sym string) string {
	if sym == "ghost" {
		return "no-such-message"
	}
	if r.custom {
		return "custom/" + sym
	}
	return "a" + string([]byte{seqOf[sym]}) // DefaultMsgIdFn: From + Seqno
}

func (r *run) symbolic(real string) string {
	for _, s := range ids {
		if r.realID(s) == real {
			return s
		}
	}
	return fmt.Sprintf("?%x", real)
}

func (r *run) newMessage(sym string) *pubsub.Message {
	t := topicOf[sym]
	return &pubsub.Message{Message: &pb.Message{From: []byte("a"), Seqno: []byte{seqOf[sym]}, Topic: &t,
		Data: []byte(sym)}}
}

// observe asks the cache everything read-only and adds the answers to the line.
func (r *run) observe(line vh.M) {
	has, bad := []string{}, []string{}
	for _, s := range append(append([]string{}, ids...), "ghost") {
		m, ok := r.mc.Get(r.realID(s))
		if ok {
			has = append(has, s)
			if m == nil || m != r.lastPut[s] {
				bad = append(bad, s)
			}
		}
	}
	g := vh.M{}
	for _, t := range topics {
		l := []string{}
		for _, mid := range r.mc.GetGossipIDs(t) {
			l = append(l, r.symbolic(mid))
		}
		sort.Strings(l)
		g[t] = l
	}
	line["has"], line["bad"], line["g"] = has, bad, g
}

func TestC17Cache(t *testing.T) {
	scns := vh.ReadScenarios[scenario](t, "VERIF_IN")
	out := vh.NewOut(t, "VERIF_OUT")
	for _, s := range scns {
		out.Emit(vh.M{"e": "reset", "scn": s.Scn, "h": s.H, "g": s.G, "idfn": s.IDFn})
		r := &run{custom: s.IDFn == "custom", lastPut: map[string]*pubsub.Message{}}
		step := func(line vh.M, f func()) (ok bool) {
			defer func() {
				if p := recover(); p != nil {
					out.Emit(vh.M{"e": "panic", "op": line["e"], "msg": fmt.Sprint(p)})
					ok = false
				}
			}()
			f()
			r.observe(line)
			out.Emit(line)
			return true
		}
		if !step(vh.M{"e": "obs"}, func() {
			r.mc = pubsub.NewMessageCache(s.G, s.H)
			if r.custom {
				r.mc.SetMsgIdFn(func(m *pubsub.Message) string { return "custom/" + string(m.GetData()) })
			}
		}) {
			continue
		}
		for _, o := range s.Ops {
			var ok bool
			switch o.Op {
			case "put":
				ok = step(vh.M{"e": "put", "id": o.ID}, func() {
					m := r.newMessage(o.ID)
					r.mc.Put(m)
					r.lastPut[o.ID] = m
				})
			case "shift":
				ok = step(vh.M{"e": "shift"}, func() { r.mc.Shift() })
			case "gfp":
				line := vh.M{"e": "gfp", "id": o.ID, "p": o.P}
				ok = step(line, func() {
					m, n, found := r.mc.GetForPeer(r.realID(o.ID), peer.ID(o.P))
					line["ok"], line["n"] = found, n
					line["same"] = (found && m != nil && m == r.lastPut[o.ID]) || (!found && m == nil)
				})
			default:
				t.Fatalf("scenario %d: unknown op %q", s.Scn, o.Op)
			}
			if !ok {
				break
			}
		}
	}
}
