// X03 driver (connection-manager tagging, /repo/tag_tracer.go).
//
// One real gossipsub node is built through the public constructor on a host that carries a real
// BasicConnMgr (hnet.New(..., true)), with a topic validator per topic that parks on a per-message
// gate (messages whose name starts with "g") so that the scenario - not the scheduler - decides which
// copies of a message arrive while it is still validating (the near-first deliverers).  Scenarios are
// sequences of world actions (see harness/world) plus
//
//	rel{m,r}   the gated validation of message m ends with verdict r ("accept" | "reject" | "ignore")
//	tick       virtual time passes to 500 ms behind the next tick of the connection manager's decayer
//	expire     virtual time passes beyond the seen-cache TTL
//
// and a configuration {interval (s), cap, amount, bump, score, throttle, direct0:[peers], npeers}.
// Every step line carries, read from the connection manager after the step has settled:
//
//	"x": {"prot":{peer:[protection tags]}, "tags":{peer:{tag:value}}, "conn":{peer:bool}, "nf":{message:[peers]}}
//
// (nf = tagTracer.nearFirst from the verif snapshot).  The driver never judges; spec/tags/TagsTrace.tla does.
package x03

import (
	"context"
	"os"
	"sort"
	"strings"
	"sync"
	"testing"
	"testing/synctest"
	"time"

	pubsub "github.com/libp2p/go-libp2p-pubsub"
	"github.com/libp2p/go-libp2p/core/network"
	"github.com/libp2p/go-libp2p/core/peer"

	"verifharness/hnet"
	"verifharness/vh"
	"verifharness/world"
)

type M = map[string]any

type scenario struct {
	ID   int `json:"id"`
	Cfg  M   `json:"cfg"`
	Acts []M `json:"acts"`
}

const (
	seenTTL    = 5 * time.Minute
	resolution = time.Minute // connmgr.DefaultResolution: the decayer ticks once a minute
)

var topics = []string{"t1", "t2", "t3"}

func geti(m M, k string, def int) int {
	switch v := m[k].(type) {
	case float64:
		return int(v)
	case int:
		return v
	}
	return def
}
func getb(m M, k string) bool { b, _ := m[k].(bool); return b }
func gets(m M, k string) string {
	s, _ := m[k].(string)
	return s
}
func getl(m M, k string) []string {
	var out []string
	if l, ok := m[k].([]any); ok {
		for _, x := range l {
			if s, ok := x.(string); ok {
				out = append(out, s)
			}
		}
	}
	return out
}

func marker(i int) {
	if p := os.Getenv("VERIF_MARKER"); p != "" {
		os.WriteFile(p, []byte(vh.Sprintf("%d", i)), 0o644)
	}
}

type gate struct {
	ch      chan struct{}
	open    bool
	verdict pubsub.ValidationResult
}

type drv struct {
	t    *testing.T
	w    *world.World
	mu   sync.Mutex
	gts  map[string]*gate
	done chan struct{}
}

func msgName(data []byte) string {
	for i, b := range data {
		if b == '|' {
			return string(data[:i])
		}
	}
	return "?"
}

func (d *drv) gate(name string) *gate {
	d.mu.Lock()
	defer d.mu.Unlock()
	g := d.gts[name]
	if g == nil {
		g = &gate{ch: make(chan struct{}), verdict: pubsub.ValidationIgnore}
		d.gts[name] = g
	}
	return g
}

// validator: "g..." waits for rel, "r..." rejects, "i..." ignores, everything else is accepted at once.
func (d *drv) validator(ctx context.Context, src peer.ID, msg *pubsub.Message) pubsub.ValidationResult {
	name := msgName(msg.GetData())
	switch {
	case strings.HasPrefix(name, "g"):
		g := d.gate(name)
		select {
		case <-g.ch:
			d.mu.Lock()
			v := g.verdict
			d.mu.Unlock()
			return v
		case <-d.done:
			return pubsub.ValidationIgnore
		}
	case strings.HasPrefix(name, "r"):
		return pubsub.ValidationReject
	case strings.HasPrefix(name, "i"):
		return pubsub.ValidationIgnore
	}
	return pubsub.ValidationAccept
}

func (d *drv) release(name, verdict string) {
	g := d.gate(name)
	d.mu.Lock()
	switch verdict {
	case "accept":
		g.verdict = pubsub.ValidationAccept
	case "reject":
		g.verdict = pubsub.ValidationReject
	default:
		g.verdict = pubsub.ValidationIgnore
	}
	if !g.open {
		g.open = true
		close(g.ch)
	}
	d.mu.Unlock()
}

// extra adds what the connection manager holds to every step line.
func (d *drv) extra(w *world.World, line M) {
	cm := w.Net.ConnMs[0]
	prot, tags, conn, nf := M{}, M{}, M{}, M{}
	ids := map[string]peer.ID{"self": w.H.ID()}
	for name, f := range w.Fakes {
		ids[name] = f.ID()
	}
	for name, id := range ids {
		l := []string{}
		for _, tag := range append([]string{"<direct>"}, topics...) {
			if cm.IsProtected(id, "pubsub:"+tag) {
				l = append(l, tag)
			}
		}
		if len(l) == 0 && cm.IsProtected(id, "") {
			l = append(l, "?") // protected under a tag this driver does not know
		}
		prot[name] = l
		tg := M{}
		if ti := cm.GetTagInfo(id); ti != nil {
			for k, v := range ti.Tags {
				tg[k] = v
			}
			tg["#value"] = ti.Value
		}
		tags[name] = tg
		conn[name] = name != "self" && w.H.Network().Connectedness(id) == network.Connected
	}
	if st := w.RawSnap(); st != nil && st.GS != nil {
		for mid, l := range st.GS.NearFirst {
			ps := w.Names.Ps(l)
			sort.Strings(ps)
			nf[w.Names.M(mid)] = ps
		}
	}
	line["x"] = M{"prot": prot, "tags": tags, "conn": conn, "nf": nf}
}

func (d *drv) do(a M) {
	w := d.w
	switch gets(a, "a") {
	case "rel":
		w.Guard()
		d.release(gets(a, "m"), gets(a, "r"))
		hnet.Settle(15 * time.Millisecond)
		w.Emit(a)
	case "tick":
		w.Guard()
		res := resolution.Milliseconds()
		next := (hnet.NowMs()/res + 1) * res
		hnet.AdvanceTo(next + 500)
		w.Emit(a)
	case "expire":
		w.Guard()
		hnet.Settle(seenTTL + 65*time.Second) // the time cache sweeps once a minute
		w.Emit(a)
	case "peer":
		if f := w.Fakes[gets(a, "p")]; f != nil {
			w.H.FailOpen(f.ID(), false)
		}
		if !w.Do(a) {
			d.t.Fatalf("x03: world refused %v", a)
		}
	case "down":
		// from now on a NewStream of the node to this peer fails, as it does on a connection that is gone (the
		// swarm would re-dial the fake peer otherwise: the node may respawn its writer when it sees the stream die
		// before the connection is reported closed)
		if f := w.Fakes[gets(a, "p")]; f != nil {
			w.H.FailOpen(f.ID(), true)
		}
		if !w.Do(a) {
			d.t.Fatalf("x03: world refused %v", a)
		}
	default:
		if !w.Do(a) {
			d.t.Fatalf("x03: unknown action %v", a)
		}
	}
}

func runScenario(t *testing.T, out *vh.Out, s scenario) {
	// the tag tracer is configured through package variables (read when a topic is joined / a tag is bumped)
	oldI, oldC, oldA, oldB := pubsub.GossipSubConnTagDecayInterval, pubsub.GossipSubConnTagMessageDeliveryCap,
		pubsub.GossipSubConnTagDecayAmount, pubsub.GossipSubConnTagBumpMessageDelivery
	defer func() {
		pubsub.GossipSubConnTagDecayInterval, pubsub.GossipSubConnTagMessageDeliveryCap,
			pubsub.GossipSubConnTagDecayAmount, pubsub.GossipSubConnTagBumpMessageDelivery = oldI, oldC, oldA, oldB
	}()
	interval := time.Duration(geti(s.Cfg, "interval", 600)) * time.Second
	pubsub.GossipSubConnTagDecayInterval = interval
	pubsub.GossipSubConnTagMessageDeliveryCap = geti(s.Cfg, "cap", 15)
	pubsub.GossipSubConnTagDecayAmount = geti(s.Cfg, "amount", 1)
	pubsub.GossipSubConnTagBumpMessageDelivery = geti(s.Cfg, "bump", 1)

	synctest.Test(t, func(t *testing.T) {
		d := &drv{t: t, gts: map[string]*gate{}, done: make(chan struct{})}
		direct0 := getl(s.Cfg, "direct0")
		dproto := gets(s.Cfg, "dproto") // protocol of the peers configured through WithDirectPeers
		if dproto == "" {
			dproto = "v11"
		}
		cfg := world.Config{ConnMgr: true, Hosts: 2 + geti(s.Cfg, "npeers", 3), Score: getb(s.Cfg, "score")}
		cfg.Opts = []pubsub.Option{pubsub.WithSeenMessagesTTL(seenTTL)}
		if n := geti(s.Cfg, "throttle", 0); n > 0 {
			cfg.Opts = append(cfg.Opts, pubsub.WithValidateThrottle(n))
		}
		cfg.PreNUT = func(w *world.World) {
			var pis []peer.AddrInfo
			for _, p := range direct0 {
				// peers configured through WithDirectPeers exist (unconnected) before the node is built; the node
				// dials them itself after DirectConnectInitialDelay
				f := hnet.NewFakePeer(w.Net.Take(), p, dproto, w.H.Host)
				w.Names.AddPeer(f.ID(), p)
				w.Fakes[p] = f
				pis = append(pis, peer.AddrInfo{ID: f.ID(), Addrs: f.H.Addrs()})
			}
			if len(pis) > 0 {
				w.Cfg.Opts = append(w.Cfg.Opts, pubsub.WithDirectPeers(pis))
			}
		}
		reset := M{"x03": true, "intervalMs": interval.Milliseconds(), "resMs": resolution.Milliseconds(),
			"cap": pubsub.GossipSubConnTagMessageDeliveryCap, "amount": pubsub.GossipSubConnTagDecayAmount,
			"bump": pubsub.GossipSubConnTagBumpMessageDelivery, "direct0": direct0, "score": cfg.Score,
			"throttle": geti(s.Cfg, "throttle", 0), "seenTTLMs": seenTTL.Milliseconds()}
		w := world.New(t, out, s.ID, cfg, reset)
		d.w = w
		w.Extra = d.extra
		defer func() {
			close(d.done)
			w.Close()
		}()
		hnet.Settle(10 * time.Millisecond)
		// every fake peer exists (unconnected) from the start, so that AddDirectPeer / BlacklistPeer can name a peer
		// that has never connected; its protocol is that of its first "peer" action
		proto := map[string]string{}
		for _, a := range s.Acts {
			if gets(a, "a") == "peer" && proto[gets(a, "p")] == "" {
				proto[gets(a, "p")] = gets(a, "proto")
			}
		}
		for i := 1; i <= geti(s.Cfg, "npeers", 3); i++ {
			p := vh.Sprintf("p%d", i)
			if w.Fakes[p] != nil {
				continue
			}
			pr := proto[p]
			if pr == "" {
				pr = "v11"
			}
			f := hnet.NewFakePeer(w.Net.Take(), p, pr, w.H.Host)
			w.Names.AddPeer(f.ID(), p)
			w.Fakes[p] = f
		}
		for _, tp := range topics {
			if err := w.NUT.RegisterTopicValidator(tp, d.validator); err != nil {
				t.Fatalf("x03: validator: %v", err)
			}
		}
		for _, a := range s.Acts {
			d.do(a)
		}
		// a last line so that the orchestrator can tell a complete scenario from one the driver died in
		hnet.Settle(15 * time.Millisecond)
		w.Emit(M{"a": "end", "fin": true})
	})
}

// TestX03Replay replays the scenarios of VERIF_IN (shard VERIF_SHARD of VERIF_SHARDS).
func TestX03Replay(t *testing.T) {
	scns := vh.ReadScenarios[scenario](t, "VERIF_IN")
	out := vh.NewOut(t, "VERIF_OUT")
	only := vh.EnvInt("VERIF_ONLY", -1)
	shard, shards := vh.EnvInt("VERIF_SHARD", 0), vh.EnvInt("VERIF_SHARDS", 1)
	skip := map[string]bool{} // scenarios a previous run of this shard died in
	for _, x := range strings.Split(os.Getenv("VERIF_SKIPIDS"), ",") {
		skip[x] = true
	}
	for i, s := range scns {
		if skip[vh.Sprintf("%d", s.ID)] {
			continue
		}
		if only >= 0 && s.ID != only {
			continue
		}
		if only < 0 && i%shards != shard {
			continue
		}
		marker(s.ID)
		runScenario(t, out, s)
	}
}
