// Drivers for property C10 (peer score = GossipSub v1.1 scoring function of the
// peer's history). TestC10Replay replays TLC-generated event histories into a REAL
// peerScore inside a synctest bubble (virtual clock, every event at its scenario
// instant) and logs, after every event, the real Score of every peer as an exact
// integer (score * 2^12) together with the counters and the tracked/retained
// status. TestC10Params pushes parameter vectors through the real validators and,
// when accepted, through a fixed history under recover(). The drivers never
// judge: TLC (spec/score/ScoreTrace.tla) and bin/lib/props/c10.py do.
package c10

import (
	"encoding/json"
	"fmt"
	"math"
	"net"
	"runtime/debug"
	"strings"
	"testing"
	"testing/synctest"
	"time"

	pubsub "github.com/libp2p/go-libp2p-pubsub"
	pb "github.com/libp2p/go-libp2p-pubsub/pb"
	"github.com/libp2p/go-libp2p/core/peer"

	"verifharness/vh"
)

const (
	unitS  = 64.0          // counters are logged in units of 1/S
	unitS2 = unitS * unitS // scores (and the sticky penalty) in units of 1/S^2
	tick   = time.Second
)

// ---------------------------------------------------------------------------
// scenario format (emitted by spec/score/GenScore.tla)

type topicPar struct {
	Tw  int `json:"tw"`
	W1  int `json:"w1"`
	Q   int `json:"q"`
	C1  int `json:"c1"`
	W2  int `json:"w2"`
	D2  int `json:"d2"`
	C2  int `json:"c2"`
	W3  int `json:"w3"`
	D3  int `json:"d3"`
	C3  int `json:"c3"`
	Thr int `json:"thr"`
	Win int `json:"win"`
	Act int `json:"act"`
	W3b int `json:"w3b"`
	D3b int `json:"d3b"`
	W4  int `json:"w4"`
	D4  int `json:"d4"`
}

type scorePar struct {
	Topics map[string]topicPar `json:"topics"`
	Cap    int                 `json:"cap"`
	AppW   int                 `json:"appW"`
	IpW    int                 `json:"ipW"`
	IpThr  int                 `json:"ipThr"`
	Wl     []string            `json:"wl"`
	PenW   int                 `json:"penW"`
	PenThr int                 `json:"penThr"`
	PenD   int                 `json:"penD"`
	Dtz    int                 `json:"dtz"`
	Retain int                 `json:"retain"`
	Ttl    int                 `json:"ttl"`
}

type event struct {
	E      string          `json:"e"`
	P      string          `json:"p,omitempty"`
	T      string          `json:"t,omitempty"`
	Id     string          `json:"id,omitempty"`
	Reason string          `json:"reason,omitempty"`
	N      int             `json:"n,omitempty"`
	V      int             `json:"v,omitempty"`
	Dt     int             `json:"dt,omitempty"`
	Ips    []string        `json:"ips,omitempty"`
	Tp     json.RawMessage `json:"tp,omitempty"`
}

type scenario struct {
	PS     int             `json:"ps"`
	Par    json.RawMessage `json:"par"`
	Peers  []string        `json:"peers"`
	Topics []string        `json:"topics"`
	Ev     []event         `json:"ev"`
}

func (tp topicPar) real() *pubsub.TopicScoreParams {
	return &pubsub.TopicScoreParams{
		TopicWeight:                     float64(tp.Tw),
		TimeInMeshWeight:                float64(tp.W1),
		TimeInMeshQuantum:               time.Duration(tp.Q) * tick,
		TimeInMeshCap:                   float64(tp.C1),
		FirstMessageDeliveriesWeight:    float64(tp.W2),
		FirstMessageDeliveriesDecay:     1 / float64(tp.D2),
		FirstMessageDeliveriesCap:       float64(tp.C2),
		MeshMessageDeliveriesWeight:     float64(tp.W3),
		MeshMessageDeliveriesDecay:      1 / float64(tp.D3),
		MeshMessageDeliveriesCap:        float64(tp.C3),
		MeshMessageDeliveriesThreshold:  float64(tp.Thr),
		MeshMessageDeliveriesWindow:     time.Duration(tp.Win) * tick,
		MeshMessageDeliveriesActivation: time.Duration(tp.Act) * tick,
		MeshFailurePenaltyWeight:        float64(tp.W3b),
		MeshFailurePenaltyDecay:         1 / float64(tp.D3b),
		InvalidMessageDeliveriesWeight:  float64(tp.W4),
		InvalidMessageDeliveriesDecay:   1 / float64(tp.D4),
	}
}

func (sp scorePar) real(app map[peer.ID]float64) *pubsub.PeerScoreParams {
	p := &pubsub.PeerScoreParams{
		Topics:                      map[string]*pubsub.TopicScoreParams{},
		TopicScoreCap:               float64(sp.Cap),
		AppSpecificScore:            func(id peer.ID) float64 { return app[id] },
		AppSpecificWeight:           float64(sp.AppW),
		IPColocationFactorWeight:    float64(sp.IpW),
		IPColocationFactorThreshold: sp.IpThr,
		BehaviourPenaltyWeight:      float64(sp.PenW),
		BehaviourPenaltyThreshold:   float64(sp.PenThr),
		BehaviourPenaltyDecay:       1 / float64(sp.PenD),
		DecayInterval:               tick,
		DecayToZero:                 float64(sp.Dtz) / unitS,
		RetainScore:                 time.Duration(sp.Retain) * tick,
		SeenMsgTTL:                  time.Duration(sp.Ttl) * tick,
	}
	for t, tp := range sp.Topics {
		p.Topics[t] = tp.real()
	}
	for _, ip := range sp.Wl {
		p.IPColocationFactorWhitelist = append(p.IPColocationFactorWhitelist,
			&net.IPNet{IP: net.ParseIP(ip).To4(), Mask: net.CIDRMask(32, 32)})
	}
	return p
}

func mkMsg(id, from, topic string) *pubsub.Message {
	t := topic
	return &pubsub.Message{
		Message:      &pb.Message{From: []byte("src"), Seqno: []byte(id), Topic: &t, Data: []byte("x")},
		ReceivedFrom: peer.ID(from),
	}
}

// exact returns x*unit as an integer and whether that is exact and small.
func exact(x, unit float64) (int64, bool) {
	v := x * unit
	if math.IsNaN(v) || math.IsInf(v, 0) || v != math.Trunc(v) || math.Abs(v) >= 1<<30 {
		return 0, false
	}
	return int64(v), true
}

func fstr(x float64) string { return fmt.Sprintf("%v", x) }

// observe logs what the real scorer says about every peer of the scenario.
func observe(ps *pubsub.VerifPeerScore, peers, topics []string) vh.M {
	obs := vh.M{}
	scores := map[string]float64{}
	for _, p := range peers {
		scores[p] = ps.Score(peer.ID(p))
	}
	snap := ps.VerifSnapshot()
	for _, p := range peers {
		sc, ok := exact(scores[p], unitS2)
		st, tracked := snap.Peers[peer.ID(p)]
		cok := true
		num := func(x, unit float64) int64 {
			v, k := exact(x, unit)
			cok = cok && k
			return v
		}
		top := vh.M{}
		for _, t := range topics {
			s := st.Topics[t] // zero value when there is no entry
			mt := int64(0)
			if s.MeshTime%int64(tick) != 0 {
				cok = false
			} else {
				mt = s.MeshTime / int64(tick)
			}
			top[t] = vh.M{"fmd": num(s.FirstMessageDeliveries, unitS), "mmd": num(s.MeshMessageDeliveries, unitS),
				"imd": num(s.InvalidMessageDeliveries, unitS), "mfp": num(s.MeshFailurePenalty, unitS2),
				"mt": mt, "in": s.InMesh, "act": s.MeshMessageDeliveriesActive}
		}
		o := vh.M{"score": sc, "ok": ok, "tracked": tracked, "conn": st.Connected,
			"pen": num(st.BehaviourPenalty, unitS), "top": top}
		o["cok"] = cok
		if !ok {
			o["raw"] = fstr(scores[p])
		}
		obs[p] = o
	}
	return obs
}

func rangeIPs(l []string) []string {
	if l == nil {
		return []string{}
	}
	return l
}

// errRefused: the library's validation refused the parameter record of a setparams event (logged, not an error).
var errRefused = fmt.Errorf("refused")

// apply performs one event on the real scorer.
func apply(ps *pubsub.VerifPeerScore, app map[peer.ID]float64, e event) error {
	switch e.E {
	case "connect":
		ps.OnNewOutboundStream(peer.ID(e.P), "/meshsub/1.1.0")
		ps.VerifSetPeerIPs(peer.ID(e.P), append([]string(nil), e.Ips...))
	case "disconnect":
		ps.OnClosedOutboundStream(peer.ID(e.P))
	case "graft":
		ps.Graft(peer.ID(e.P), e.T)
	case "prune":
		ps.Prune(peer.ID(e.P), e.T)
	case "validate":
		ps.ValidateMessage(mkMsg(e.Id, "nobody", e.T))
	case "deliver":
		ps.DeliverMessage(mkMsg(e.Id, e.P, e.T))
	case "reject":
		ps.RejectMessage(mkMsg(e.Id, e.P, e.T), e.Reason)
	case "duplicate":
		ps.DuplicateMessage(mkMsg(e.Id, e.P, e.T))
	case "penalty":
		ps.AddPenalty(peer.ID(e.P), e.N)
	case "refresh":
		ps.VerifRefreshScores()
	case "gc":
		ps.VerifGC()
	case "setapp":
		app[peer.ID(e.P)] = float64(e.V)
	case "setips":
		ps.VerifSetPeerIPs(peer.ID(e.P), append([]string(nil), e.Ips...))
	case "setparams":
		var tp topicPar
		if err := json.Unmarshal(e.Tp, &tp); err != nil {
			return err
		}
		// what Topic.SetScoreParams does: validate, and only then hand the record to the scorer
		r := tp.real()
		if err := pubsub.VerifValidateTopicScoreParams(r); err != nil {
			return errRefused
		}
		return ps.SetTopicScoreParams(e.T, r)
	case "tick":
		time.Sleep(time.Duration(e.Dt) * tick)
	default:
		return fmt.Errorf("unknown event %q", e.E)
	}
	return nil
}

func line(e event, now int64, obs vh.M) vh.M {
	m := vh.M{"e": e.E, "now": now, "obs": obs}
	switch e.E {
	case "connect", "setips":
		m["p"], m["ips"] = e.P, rangeIPs(e.Ips)
	case "disconnect":
		m["p"] = e.P
	case "graft", "prune":
		m["p"], m["t"] = e.P, e.T
	case "validate":
		m["id"], m["t"] = e.Id, e.T
	case "deliver", "duplicate":
		m["id"], m["p"], m["t"] = e.Id, e.P, e.T
	case "reject":
		m["id"], m["p"], m["t"], m["reason"] = e.Id, e.P, e.T, e.Reason
	case "penalty":
		m["p"], m["n"] = e.P, e.N
	case "setapp":
		m["p"], m["v"] = e.P, e.V
	case "setparams":
		m["t"], m["tp"] = e.T, e.Tp
	case "tick":
		m["dt"] = e.Dt
	}
	return m
}

// replay runs one scenario in its own bubble. A panic inside the library is logged as a
// `panic` line (the remaining events are skipped).
func replay(t *testing.T, out *vh.Out, idx int, s scenario) {
	synctest.Test(t, func(t *testing.T) {
		var sp scorePar
		if err := json.Unmarshal(s.Par, &sp); err != nil {
			t.Fatalf("scenario %d: %v", idx, err)
		}
		app := map[peer.ID]float64{}
		params := sp.real(app)
		if err := pubsub.VerifValidatePeerScoreParams(params); err != nil {
			out.Emit(vh.M{"e": "badparams", "scn": idx, "err": err.Error()})
			return
		}
		out.Emit(vh.M{"e": "reset", "scn": idx, "ps": s.PS, "par": s.Par, "peers": s.Peers, "topics": s.Topics})
		ps := pubsub.VerifNewPeerScore(params)
		start := time.Now()
		for k, e := range s.Ev {
			var err error
			pmsg := ""
			func() {
				defer func() {
					if r := recover(); r != nil {
						pmsg = fmt.Sprintf("%v | %s", r, firstLibFrame(string(debug.Stack())))
					}
				}()
				err = apply(ps, app, e)
				refused := err == errRefused
				if refused {
					err = nil
				}
				if err == nil {
					el := time.Since(start)
					now := int64(el / tick)
					if el%tick != 0 {
						now = -1
					}
					ln := line(e, now, observe(ps, s.Peers, s.Topics))
					if e.E == "setparams" {
						ln["refused"] = refused
					}
					out.Emit(ln)
				}
			}()
			if pmsg != "" {
				out.Emit(vh.M{"e": "panic", "scn": idx, "at": k, "ev": e.E, "msg": pmsg})
				return
			}
			if err != nil {
				out.Emit(vh.M{"e": "drivererror", "scn": idx, "at": k, "err": err.Error()})
				return
			}
		}
	})
}

// firstLibFrame names the innermost go-libp2p-pubsub frame of a stack trace.
func firstLibFrame(stack string) string {
	lines := strings.Split(stack, "\n")
	for i, l := range lines {
		if strings.HasPrefix(l, "github.com/libp2p/go-libp2p-pubsub.") && !strings.Contains(l, "Verif") && i+1 < len(lines) {
			loc := strings.TrimSpace(lines[i+1])
			if j := strings.LastIndex(loc, "/"); j >= 0 {
				loc = loc[j+1:]
			}
			if j := strings.Index(loc, " "); j >= 0 {
				loc = loc[:j]
			}
			fn := l
			if j := strings.Index(fn, "("); j >= 0 {
				fn = fn[:j]
			}
			return strings.TrimPrefix(fn, "github.com/libp2p/go-libp2p-pubsub.") + " " + loc
		}
	}
	return "no library frame"
}

func TestC10Replay(t *testing.T) {
	scns := vh.ReadScenarios[scenario](t, "VERIF_IN")
	out := vh.NewOut(t, "VERIF_OUT")
	for i, s := range scns {
		replay(t, out, i, s)
	}
}

// ---------------------------------------------------------------------------
// parameter space (spec/score/ScoreParams.tla)

type vector struct {
	Kind   string            `json:"kind"`
	Grp    string            `json:"grp"`
	Skip   bool              `json:"skip"`
	F      map[string]string `json:"f"`
	Accept bool              `json:"accept"`
	Hazard bool              `json:"hazard"`
}

func ext(s string) float64 {
	switch s {
	case "NaN":
		return math.NaN()
	case "-Inf":
		return math.Inf(-1)
	case "+Inf":
		return math.Inf(1)
	case "1/2":
		return 0.5
	}
	var f float64
	if _, err := fmt.Sscanf(s, "%g", &f); err != nil {
		panic("bad grid value " + s)
	}
	return f
}

func dur(s string) time.Duration {
	switch s {
	case "-1ns":
		return -1
	case "0":
		return 0
	case "1ms":
		return time.Millisecond
	case "1s":
		return time.Second
	case "2s":
		return 2 * time.Second
	}
	panic("bad duration " + s)
}

// defaults = DefT / DefG / DefH of ScoreParams.tla
func defaultTopic() map[string]string {
	return map[string]string{"TopicWeight": "1",
		"TimeInMeshWeight": "1", "TimeInMeshQuantum": "1s", "TimeInMeshCap": "2",
		"FirstMessageDeliveriesWeight": "1", "FirstMessageDeliveriesDecay": "1/2", "FirstMessageDeliveriesCap": "2",
		"MeshMessageDeliveriesWeight": "-1", "MeshMessageDeliveriesDecay": "1/2", "MeshMessageDeliveriesCap": "2",
		"MeshMessageDeliveriesThreshold": "1", "MeshMessageDeliveriesWindow": "1s", "MeshMessageDeliveriesActivation": "1s",
		"MeshFailurePenaltyWeight": "-1", "MeshFailurePenaltyDecay": "1/2",
		"InvalidMessageDeliveriesWeight": "-1", "InvalidMessageDeliveriesDecay": "1/2"}
}

func defaultGlobal() map[string]string {
	return map[string]string{"TopicScoreCap": "2", "AppSpecificScore": "fn", "AppSpecificWeight": "1",
		"IPColocationFactorWeight": "-1", "IPColocationFactorThreshold": "1",
		"BehaviourPenaltyWeight": "-1", "BehaviourPenaltyThreshold": "1", "BehaviourPenaltyDecay": "1/2",
		"DecayInterval": "1s", "DecayToZero": "1/2"}
}

func defaultThresholds() map[string]string {
	return map[string]string{"GossipThreshold": "-1", "PublishThreshold": "-1", "GraylistThreshold": "-1",
		"AcceptPXThreshold": "1", "OpportunisticGraftThreshold": "1"}
}

func merged(def, over map[string]string) map[string]string {
	for k, v := range over {
		if _, ok := def[k]; ok {
			def[k] = v
		}
	}
	return def
}

func buildTopic(m map[string]string, skip bool) *pubsub.TopicScoreParams {
	return &pubsub.TopicScoreParams{
		SkipAtomicValidation:            skip,
		TopicWeight:                     ext(m["TopicWeight"]),
		TimeInMeshWeight:                ext(m["TimeInMeshWeight"]),
		TimeInMeshQuantum:               dur(m["TimeInMeshQuantum"]),
		TimeInMeshCap:                   ext(m["TimeInMeshCap"]),
		FirstMessageDeliveriesWeight:    ext(m["FirstMessageDeliveriesWeight"]),
		FirstMessageDeliveriesDecay:     ext(m["FirstMessageDeliveriesDecay"]),
		FirstMessageDeliveriesCap:       ext(m["FirstMessageDeliveriesCap"]),
		MeshMessageDeliveriesWeight:     ext(m["MeshMessageDeliveriesWeight"]),
		MeshMessageDeliveriesDecay:      ext(m["MeshMessageDeliveriesDecay"]),
		MeshMessageDeliveriesCap:        ext(m["MeshMessageDeliveriesCap"]),
		MeshMessageDeliveriesThreshold:  ext(m["MeshMessageDeliveriesThreshold"]),
		MeshMessageDeliveriesWindow:     dur(m["MeshMessageDeliveriesWindow"]),
		MeshMessageDeliveriesActivation: dur(m["MeshMessageDeliveriesActivation"]),
		MeshFailurePenaltyWeight:        ext(m["MeshFailurePenaltyWeight"]),
		MeshFailurePenaltyDecay:         ext(m["MeshFailurePenaltyDecay"]),
		InvalidMessageDeliveriesWeight:  ext(m["InvalidMessageDeliveriesWeight"]),
		InvalidMessageDeliveriesDecay:   ext(m["InvalidMessageDeliveriesDecay"]),
	}
}

func buildGlobal(m map[string]string, skip bool, topic *pubsub.TopicScoreParams) *pubsub.PeerScoreParams {
	p := &pubsub.PeerScoreParams{
		SkipAtomicValidation:        skip,
		Topics:                      map[string]*pubsub.TopicScoreParams{"t": topic},
		TopicScoreCap:               ext(m["TopicScoreCap"]),
		AppSpecificWeight:           ext(m["AppSpecificWeight"]),
		IPColocationFactorWeight:    ext(m["IPColocationFactorWeight"]),
		IPColocationFactorThreshold: int(ext(m["IPColocationFactorThreshold"])),
		BehaviourPenaltyWeight:      ext(m["BehaviourPenaltyWeight"]),
		BehaviourPenaltyThreshold:   ext(m["BehaviourPenaltyThreshold"]),
		BehaviourPenaltyDecay:       ext(m["BehaviourPenaltyDecay"]),
		DecayInterval:               dur(m["DecayInterval"]),
		DecayToZero:                 ext(m["DecayToZero"]),
		RetainScore:                 2 * time.Second,
		SeenMsgTTL:                  10 * time.Second,
	}
	if m["AppSpecificScore"] == "fn" {
		// the application's own score is an ordinary finite number
		p.AppSpecificScore = func(id peer.ID) float64 {
			if id == "B" {
				return 1
			}
			return 0
		}
	}
	return p
}

// fixedHistory drives an accepted parameter set through every kind of scoring event and reports the
// first step at which a score is NaN (nanAt), whether an infinite score was seen, or the panic.
func fixedHistory(params *pubsub.PeerScoreParams) (steps int, nanAt int, nanWhat string, inf bool, pmsg string) {
	nanAt = -1
	ps := pubsub.VerifNewPeerScore(params)
	a, b := peer.ID("A"), peer.ID("B")
	sleep := func(d time.Duration) func() { return func() { time.Sleep(d) } }
	hist := []struct {
		name string
		f    func()
	}{
		{"connect A", func() { ps.OnNewOutboundStream(a, "/meshsub/1.1.0"); ps.VerifSetPeerIPs(a, []string{"10.1.1.1"}) }},
		{"connect B", func() { ps.OnNewOutboundStream(b, "/meshsub/1.1.0"); ps.VerifSetPeerIPs(b, []string{"10.1.1.1"}) }},
		{"graft A", func() { ps.Graft(a, "t") }},
		{"graft B", func() { ps.Graft(b, "t") }},
		{"validate m1", func() { ps.ValidateMessage(mkMsg("m1", "A", "t")) }},
		{"duplicate m1 B", func() { ps.DuplicateMessage(mkMsg("m1", "B", "t")) }},
		{"deliver m1 A", func() { ps.DeliverMessage(mkMsg("m1", "A", "t")) }},
		{"deliver m2 A", func() { ps.DeliverMessage(mkMsg("m2", "A", "t")) }},
		{"deliver m3 A", func() { ps.DeliverMessage(mkMsg("m3", "A", "t")) }},
		{"reject m4 B", func() { ps.RejectMessage(mkMsg("m4", "B", "t"), pubsub.RejectValidationFailed) }},
		{"penalty A", func() { ps.AddPenalty(a, 3) }},
		{"sleep 3s", sleep(3 * time.Second)},
		{"refresh 1", func() { ps.VerifRefreshScores() }},
		{"duplicate m2 B (late)", func() { ps.DuplicateMessage(mkMsg("m2", "B", "t")) }},
		{"sleep 1s", sleep(time.Second)},
		{"refresh 2", func() { ps.VerifRefreshScores() }},
		{"deliver m6 A (active)", func() { ps.DeliverMessage(mkMsg("m6", "A", "t")) }},
		{"prune B", func() { ps.Prune(b, "t") }},
		{"refresh 3", func() { ps.VerifRefreshScores() }},
		{"disconnect B", func() { ps.OnClosedOutboundStream(b) }},
		{"sleep 1s", sleep(time.Second)},
		{"refresh 4", func() { ps.VerifRefreshScores() }},
		{"reconnect B", func() { ps.OnNewOutboundStream(b, "/meshsub/1.1.0") }},
		{"graft B again", func() { ps.Graft(b, "t") }},
		{"deliver m5 B", func() { ps.DeliverMessage(mkMsg("m5", "B", "t")) }},
		{"sleep 2s", sleep(2 * time.Second)},
		{"refresh 5", func() { ps.VerifRefreshScores() }},
		{"disconnect A", func() { ps.OnClosedOutboundStream(a) }},
		{"sleep 4s", sleep(4 * time.Second)},
		{"refresh 6 (purge)", func() { ps.VerifRefreshScores() }},
	}
	defer func() {
		if r := recover(); r != nil {
			pmsg = fmt.Sprintf("%v | %s", r, firstLibFrame(string(debug.Stack())))
		}
	}()
	for i, h := range hist {
		steps = i
		h.f()
		for _, p := range []peer.ID{a, b} {
			s := ps.Score(p)
			if math.IsNaN(s) && nanAt < 0 {
				nanAt, nanWhat = i, h.name+" peer "+string(p)
			}
			if math.IsInf(s, 0) {
				inf = true
			}
		}
	}
	steps = len(hist)
	return
}

func TestC10Params(t *testing.T) {
	vecs := vh.ReadScenarios[vector](t, "VERIF_IN")
	out := vh.NewOut(t, "VERIF_OUT")
	for i, v := range vecs {
		line := vh.M{"i": i, "kind": v.Kind, "grp": v.Grp, "skip": v.Skip, "f": v.F, "accept_model": v.Accept, "hazard_model": v.Hazard}
		if v.Kind == "thresholds" {
			m := merged(defaultThresholds(), v.F)
			th := &pubsub.PeerScoreThresholds{SkipAtomicValidation: v.Skip, GossipThreshold: ext(m["GossipThreshold"]),
				PublishThreshold: ext(m["PublishThreshold"]), GraylistThreshold: ext(m["GraylistThreshold"]),
				AcceptPXThreshold: ext(m["AcceptPXThreshold"]), OpportunisticGraftThreshold: ext(m["OpportunisticGraftThreshold"])}
			err := pubsub.VerifValidateThresholds(th)
			line["accept_real"] = err == nil
			if err != nil {
				line["err"] = err.Error()
			}
			out.Emit(line)
			continue
		}
		topic := buildTopic(merged(defaultTopic(), v.F), v.Skip)
		params := buildGlobal(merged(defaultGlobal(), v.F), v.Skip, topic)
		terr := pubsub.VerifValidateTopicScoreParams(topic)
		err := pubsub.VerifValidatePeerScoreParams(params)
		line["accept_topic_real"] = terr == nil
		line["accept_real"] = err == nil
		if err != nil {
			line["err"] = err.Error()
			out.Emit(line)
			continue
		}
		synctest.Test(t, func(t *testing.T) {
			steps, nanAt, nanWhat, inf, pmsg := fixedHistory(params)
			line["steps"], line["nan"], line["inf"], line["panic"] = steps, nanAt >= 0, inf, pmsg != ""
			if nanAt >= 0 {
				line["nan_at"] = nanWhat
			}
			if pmsg != "" {
				line["panic_msg"] = pmsg
			}
		})
		out.Emit(line)
	}
}
