// Driver for property C19 (the event trace is a faithful account from which
// state can be rebuilt). It replays scenario files through the shared world
// interpreter with the protobuf EventTracer stream kept on every step line
// ("tev"), and adds to every line what the repo hook pubsub.VerifQueuePushFn saw:
// every push onto a peer's outbound queue, accepted or refused, with the RPC's
// content rendered in the same shape as the trace's RPC metadata ("push").
// With cfg.files the same event stream is also written through the library's
// JSON and protobuf file tracers and parsed back after Close ("files" line).
// The driver never judges; spec/tracereplay/TraceReplayTrace.tla does.
package c19

import (
	"context"
	"encoding/json"
	"io"
	"os"
	"path/filepath"
	"sync"
	"testing"
	"testing/synctest"
	"time"

	pubsub "github.com/libp2p/go-libp2p-pubsub"
	pb "github.com/libp2p/go-libp2p-pubsub/pb"
	"github.com/libp2p/go-libp2p/core/peer"

	//lint:ignore SA1019 same reader as the repository's own tracer tests
	"github.com/libp2p/go-msgio/protoio"

	"verifharness/hnet"
	"verifharness/rec"
	"verifharness/vh"
	"verifharness/world"
)

type M = map[string]any

// scenario is {"cfg":{router,score,flood,px,queue,maxMsg,hosts,files,validator,D,Dlo,Dhi,Dscore,Dout,Dlazy,oppTicks,oppPeers,pruneBackoffS},"acts":[{...},...]}.
// Besides the world alphabet the driver understands, on the driver-owned topic
// names: bsub{t}, bcancel{t}, pubbatch{t,ms:[names][,ls:[bool: local-only]][,size]}.
type scenario struct {
	Cfg  M   `json:"cfg"`
	Acts []M `json:"acts"`
}

func geti(m M, k string, def int) int {
	if v, ok := m[k].(float64); ok {
		return int(v)
	}
	return def
}
func getb(m M, k string) bool { b, _ := m[k].(bool); return b }
func gets(m M, k string) string {
	s, _ := m[k].(string)
	return s
}
func getbl(m M, k string) []bool {
	var out []bool
	if l, ok := m[k].([]any); ok {
		for _, x := range l {
			b, _ := x.(bool)
			out = append(out, b)
		}
	}
	return out
}
func getl(m M, k string) []string {
	var out []string
	if l, ok := m[k].([]any); ok {
		for _, x := range l {
			if s, ok := x.(string); ok {
				out = append(out, s)
			}
		}
	}
	return out
}

// ---------------------------------------------------------------------------
// queue-push observer (repo hook, verif build tag)

type idTopic struct{ id, topic string }

type pushRec struct {
	ok, urgent bool
	msgs       []idTopic
	subs       []M
	graft      []string
	prune      []string
	ihave      []M // {"topic", "_ids"}
	iwant      [][]string
	idw        [][]string
}

type pushLog struct {
	mu  sync.Mutex
	l   []pushRec
	nm  *hnet.Names
	all int
}

var (
	curLog   *pushLog
	curLogMu sync.Mutex
	hookOnce sync.Once
)

func installHook() {
	hookOnce.Do(func() {
		fn := func(q *pubsub.VerifRPCQueue, rpc *pubsub.RPC, urgent bool, err error) {
			curLogMu.Lock()
			pl := curLog
			curLogMu.Unlock()
			if pl == nil {
				return
			}
			r := pushRec{ok: err == nil, urgent: urgent}
			for _, m := range rpc.GetPublish() {
				id := hnet.DefaultMsgID(m)
				// the payload names the message: make the name known before the step line is rendered
				pl.nm.MsgFromData(id, m.GetData())
				r.msgs = append(r.msgs, idTopic{id, m.GetTopic()})
			}
			for _, s := range rpc.GetSubscriptions() {
				r.subs = append(r.subs, M{"topic": s.GetTopicid(), "sub": s.GetSubscribe()})
			}
			if c := rpc.GetControl(); c != nil {
				for _, g := range c.GetGraft() {
					r.graft = append(r.graft, g.GetTopicID())
				}
				for _, p := range c.GetPrune() {
					r.prune = append(r.prune, p.GetTopicID())
				}
				for _, h := range c.GetIhave() {
					r.ihave = append(r.ihave, M{"topic": h.GetTopicID(), "_ids": append([]string(nil), h.GetMessageIDs()...)})
				}
				for _, w := range c.GetIwant() {
					r.iwant = append(r.iwant, append([]string(nil), w.GetMessageIDs()...))
				}
				for _, d := range c.GetIdontwant() {
					r.idw = append(r.idw, append([]string(nil), d.GetMessageIDs()...))
				}
			}
			pl.mu.Lock()
			pl.l = append(pl.l, r)
			pl.all++
			pl.mu.Unlock()
		}
		pubsub.VerifQueuePushFn.Store(&fn)
	})
}

func setLog(pl *pushLog) {
	curLogMu.Lock()
	curLog = pl
	curLogMu.Unlock()
}

func names(nm *hnet.Names, ids []string) []string {
	out := make([]string, 0, len(ids))
	for _, id := range ids {
		out = append(out, nm.M(id))
	}
	return out
}

// take renders the pushes since the previous step line in the shape of the
// trace's RPC metadata (rec.PBShape): msgs, subs, graft, prune, ihave, iwant, idontwant.
func (pl *pushLog) take() M {
	pl.mu.Lock()
	l := pl.l
	pl.l = nil
	pl.mu.Unlock()
	ok, full := 0, 0
	list := []any{}
	for _, r := range l {
		if r.ok {
			ok++
		} else {
			full++
		}
		msgs, subs, graft, prune, ihave, iwant, idw := []any{}, []any{}, []any{}, []any{}, []any{}, []any{}, []any{}
		for _, m := range r.msgs {
			msgs = append(msgs, M{"m": pl.nm.M(m.id), "topic": m.topic})
		}
		for _, s := range r.subs {
			subs = append(subs, s)
		}
		for _, g := range r.graft {
			graft = append(graft, g)
		}
		for _, p := range r.prune {
			prune = append(prune, p)
		}
		for _, h := range r.ihave {
			ihave = append(ihave, M{"topic": h["topic"], "ids": names(pl.nm, h["_ids"].([]string))})
		}
		for _, w := range r.iwant {
			iwant = append(iwant, names(pl.nm, w))
		}
		for _, d := range r.idw {
			idw = append(idw, names(pl.nm, d))
		}
		list = append(list, M{"ok": r.ok, "urgent": r.urgent,
			"rpc": M{"msgs": msgs, "subs": subs, "graft": graft, "prune": prune, "ihave": ihave, "iwant": iwant, "idontwant": idw}})
	}
	return M{"ok": ok, "full": full, "list": list}
}

// ---------------------------------------------------------------------------
// tee tracer: in-memory recorder + the library's file tracers

type tee struct {
	mu    sync.Mutex
	mem   pubsub.EventTracer
	early []*pb.TraceEvent
	files []pubsub.EventTracer
	n     int
}

// Trace hands the event to every sink under one lock so that all sinks see the
// same total order even when events come from different goroutines (PUBLISH_MESSAGE
// is traced on the publisher's goroutine, the rest on the event loop).
func (t *tee) Trace(evt *pb.TraceEvent) {
	t.mu.Lock()
	defer t.mu.Unlock()
	t.n++
	if t.mem == nil {
		t.early = append(t.early, evt)
	} else {
		t.mem.Trace(evt)
	}
	for _, f := range t.files {
		f.Trace(evt)
	}
}

func (t *tee) bind(mem pubsub.EventTracer) {
	t.mu.Lock()
	defer t.mu.Unlock()
	for _, e := range t.early {
		mem.Trace(e)
	}
	t.early = nil
	t.mem = mem
}

func readJSONTrace(path string) ([]*pb.TraceEvent, error) {
	f, err := os.Open(path)
	if err != nil {
		return nil, err
	}
	defer f.Close()
	var out []*pb.TraceEvent
	dec := json.NewDecoder(f)
	for {
		evt := new(pb.TraceEvent)
		err := dec.Decode(evt)
		if err == io.EOF {
			return out, nil
		}
		if err != nil {
			return out, err
		}
		out = append(out, evt)
	}
}

func readPBTrace(path string) ([]*pb.TraceEvent, error) {
	f, err := os.Open(path)
	if err != nil {
		return nil, err
	}
	defer f.Close()
	var out []*pb.TraceEvent
	r := protoio.NewDelimitedReader(f, 1<<22)
	for {
		evt := new(pb.TraceEvent)
		err := r.ReadMsg(evt)
		if err == io.EOF {
			return out, nil
		}
		if err != nil {
			return out, err
		}
		out = append(out, evt)
	}
}

// ---------------------------------------------------------------------------
// driver-owned topics (batch publishing needs a *pubsub.Topic handle)

type own struct {
	w      *world.World
	mu     sync.Mutex
	topics map[string]*pubsub.Topic
	subs   map[string][]*pubsub.Subscription
	deliv  []M
	nsub   int
}

func (o *own) topic(t *testing.T, name string) *pubsub.Topic {
	if tp, ok := o.topics[name]; ok {
		return tp
	}
	// the world's handle (joined on first use), so that batch actions also work on topics the world subscribes to
	tp := o.w.Topic(name)
	o.topics[name] = tp
	return tp
}

func (o *own) subscribe(t *testing.T, name string) {
	s, err := o.topic(t, name).Subscribe()
	if err != nil {
		t.Fatalf("c19: subscribe %s: %v", name, err)
	}
	o.nsub++
	sn := vh.Sprintf("b%d", o.nsub)
	o.subs[name] = append(o.subs[name], s)
	go func() {
		for {
			msg, err := s.Next(o.w.Ctx)
			if err != nil {
				return
			}
			id := msg.ID
			if id == "" {
				id = hnet.DefaultMsgID(msg.Message)
			}
			mname := o.w.Names.MsgFromData(id, msg.GetData())
			o.mu.Lock()
			o.deliv = append(o.deliv, M{"sub": sn, "topic": name, "m": mname})
			o.mu.Unlock()
		}
	}()
}

func (o *own) cancel(name string) {
	l := o.subs[name]
	if len(l) == 0 {
		return
	}
	l[len(l)-1].Cancel()
	o.subs[name] = l[:len(l)-1]
}

// pubBatch adds one message per name to a MessageBatch (local[i] = with WithLocalPublication(true)) and publishes it.
func (o *own) pubBatch(t *testing.T, name string, ms []string, local []bool, size int) {
	tp := o.topic(t, name)
	if size == 0 {
		size = 16
	}
	var batch pubsub.MessageBatch
	for i, m := range ms {
		data := []byte(m + "|")
		for len(data) < size {
			data = append(data, '.')
		}
		var opts []pubsub.PubOpt
		if i < len(local) && local[i] {
			opts = append(opts, pubsub.WithLocalPublication(true))
		}
		if err := tp.AddToBatch(o.w.Ctx, &batch, data, opts...); err != nil {
			o.mu.Lock()
			o.deliv = append(o.deliv, M{"sub": "publish-error", "topic": name, "m": m + ":" + err.Error()})
			o.mu.Unlock()
		}
	}
	if err := o.w.NUT.PublishBatch(&batch); err != nil {
		o.mu.Lock()
		o.deliv = append(o.deliv, M{"sub": "publish-error", "topic": name, "m": "batch:" + err.Error()})
		o.mu.Unlock()
	}
}

// safeWindow moves virtual time (through ordinary world steps) to a phase of the
// heartbeat period in which the next world step will not insert a heartbeat of
// its own, so that a driver-side action and the step line that reports it stay together.
func safeWindow(w *world.World, router string) {
	if router != "gossipsub" && router != "" {
		return
	}
	for i := 0; i < 3; i++ {
		ph := (hnet.NowMs() - 100) % 1000
		if ph < 0 {
			ph += 1000
		}
		switch {
		case ph < 55:
			w.Do(M{"a": "adv", "ms": 60 - int(ph)})
		case ph > 1000-150-60:
			w.Do(M{"a": "hb"})
		default:
			return
		}
	}
}

func marker(i int) {
	if p := os.Getenv("VERIF_MARKER"); p != "" {
		os.WriteFile(p, []byte(vh.Sprintf("%d", i)), 0o644)
	}
}

func runScenario(t *testing.T, out *vh.Out, idx int, s scenario, dir string) {
	synctest.Test(t, func(t *testing.T) {
		router := gets(s.Cfg, "router")
		files := getb(s.Cfg, "files")
		cfg := world.Config{Router: router, Score: getb(s.Cfg, "score"), FloodPublish: getb(s.Cfg, "flood"),
			DoPX: getb(s.Cfg, "px"), QueueSize: geti(s.Cfg, "queue", 0), MaxMsgSize: geti(s.Cfg, "maxMsg", 0),
			Hosts: geti(s.Cfg, "hosts", 8), KeepPB: true, Retain: 10 * time.Second}
		// scaled-down gossipsub parameters of the shared harness, degrees overridable per scenario
		gp := world.SmallParams()
		gp.D, gp.Dlo, gp.Dhi = geti(s.Cfg, "D", gp.D), geti(s.Cfg, "Dlo", gp.Dlo), geti(s.Cfg, "Dhi", gp.Dhi)
		gp.Dscore, gp.Dout, gp.Dlazy = geti(s.Cfg, "Dscore", gp.Dscore), geti(s.Cfg, "Dout", gp.Dout), geti(s.Cfg, "Dlazy", gp.Dlazy)
		gp.OpportunisticGraftTicks = uint64(geti(s.Cfg, "oppTicks", int(gp.OpportunisticGraftTicks)))
		gp.OpportunisticGraftPeers = geti(s.Cfg, "oppPeers", gp.OpportunisticGraftPeers)
		gp.PruneBackoff = time.Duration(geti(s.Cfg, "pruneBackoffS", int(gp.PruneBackoff/time.Second))) * time.Second
		cfg.Params = &gp
		var tr *tee
		var jt *pubsub.JSONTracer
		var pt *pubsub.PBTracer
		jpath := filepath.Join(dir, vh.Sprintf("trace-%d.json", idx))
		ppath := filepath.Join(dir, vh.Sprintf("trace-%d.pb", idx))
		if files {
			var err error
			if jt, err = pubsub.NewJSONTracer(jpath); err != nil {
				t.Fatal(err)
			}
			if pt, err = pubsub.NewPBTracer(ppath); err != nil {
				t.Fatal(err)
			}
			tr = &tee{files: []pubsub.EventTracer{jt, pt}}
			// the last WithEventTracer wins: the tee feeds the world's recorder and both file tracers
			cfg.Opts = append(cfg.Opts, pubsub.WithEventTracer(tr))
		}
		validator := getb(s.Cfg, "validator")
		if validator {
			// a default validator that decides by the first byte of the payload (= of the message's name):
			// x... is rejected, y... is ignored, everything else accepted; it also runs for local publications
			cfg.Opts = append(cfg.Opts, pubsub.WithDefaultValidator(func(_ context.Context, _ peer.ID, msg *pubsub.Message) pubsub.ValidationResult {
				if d := msg.GetData(); len(d) > 0 {
					switch d[0] {
					case 'x':
						return pubsub.ValidationReject
					case 'y':
						return pubsub.ValidationIgnore
					}
				}
				return pubsub.ValidationAccept
			}))
		}
		pl := &pushLog{}
		reset := M{"validator": validator, "D": gp.D, "Dlo": gp.Dlo, "Dhi": gp.Dhi, "Dscore": gp.Dscore, "Dout": gp.Dout,
			"oppTicks": int(gp.OpportunisticGraftTicks),"queue": cfg.QueueSize, "maxMsg": cfg.MaxMsgSize, "files": files, "score": cfg.Score,
			"flood": cfg.FloodPublish, "px": cfg.DoPX, "push": true}
		w := world.New(t, out, idx, cfg, reset)
		// runs after w.Close(): an announce that found a full queue leaves a goroutine sleeping up to 1 s
		// (PubSub.announceRetry); it must see the cancelled context before the bubble may end
		defer hnet.Settle(1100 * time.Millisecond)
		defer w.Close()
		nm := w.Names
		pl.nm = nm
		setLog(pl)
		defer setLog(nil)
		if tr != nil {
			tr.bind(w.Rec)
		}
		o := &own{w: w, topics: map[string]*pubsub.Topic{}, subs: map[string][]*pubsub.Subscription{}}
		w.Extra = func(w *world.World, line M) {
			line["push"] = pl.take()
			o.mu.Lock()
			d := o.deliv
			o.deliv = nil
			o.mu.Unlock()
			if len(d) > 0 {
				l, _ := line["deliv"].([]M)
				line["deliv"] = append(l, d...)
			}
		}
		// a writer goroutine parked on a write gate would never let the bubble end
		defer func() {
			for _, f := range w.Fakes {
				w.H.UngateWrites(f.ID())
			}
		}()
		for _, a := range s.Acts {
			switch gets(a, "a") {
			case "bsub", "bcancel", "pubbatch":
				safeWindow(w, router)
				switch gets(a, "a") {
				case "bsub":
					o.subscribe(t, gets(a, "t"))
				case "bcancel":
					o.cancel(gets(a, "t"))
				case "pubbatch":
					o.pubBatch(t, gets(a, "t"), getl(a, "ms"), getbl(a, "ls"), geti(a, "size", 0))
				}
				// the world step that settles and reports it; "c19" carries the real action
				w.Do(M{"a": "adv", "ms": 1, "c19": a})
			default:
				if !w.Do(a) {
					t.Fatalf("unknown action %v", a)
				}
			}
		}
		if files {
			// stop the file tracers, let their writer goroutines drain and close the files, read them back
			total := 0
			tr.mu.Lock()
			total = tr.n
			tr.mu.Unlock()
			jt.Close()
			pt.Close()
			hnet.Settle(5 * time.Millisecond)
			shape := func(l []*pb.TraceEvent, err error) (any, string) {
				o := []any{}
				for _, e := range l {
					o = append(o, rec.PBShape(e, nm))
				}
				if err != nil {
					return o, err.Error()
				}
				return o, ""
			}
			js, jerr := shape(readJSONTrace(jpath))
			ps, perr := shape(readPBTrace(ppath))
			out.Emit(M{"i": 100000, "scn": idx, "t": hnet.NowMs(), "act": M{"a": "files"}, "json": js, "pb": ps,
				"jsonErr": jerr, "pbErr": perr, "traced": total})
			os.Remove(jpath)
			os.Remove(ppath)
		}
	})
}

// TestC19Replay replays the scenarios of VERIF_IN.
func TestC19Replay(t *testing.T) {
	scns := vh.ReadScenarios[scenario](t, "VERIF_IN")
	out := vh.NewOut(t, "VERIF_OUT")
	only := vh.EnvInt("VERIF_ONLY", -1)
	installHook()
	dir := t.TempDir()
	for i, s := range scns {
		if only >= 0 && i != only {
			continue
		}
		marker(i)
		runScenario(t, out, i, s, dir)
	}
}
