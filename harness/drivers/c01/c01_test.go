// C01 driver: complete exactly-once delivery in a connected network of correct
// nodes. Replays scenarios emitted by spec/net/GenNet.tla on N REAL nodes (all
// three routers, simnet hosts, virtual time) and logs, per publish batch, the
// configuration that was in force, every node's view of the topic and the bag of
// deliveries per (node, subscription, message). The driver never judges;
// spec/net/NetTrace.tla evaluates P_C01_ExactlyOnce / P_C01_NoDup on the lines.
//
// Scenario (one JSON object per line of VERIF_IN):
//
//	{"n":3,"kinds":["gossip","flood","random"],"edges":[[1,2],[2,3]],
//	 "roles":["sub","relay","none"],"params":"small",
//	 "ops":[{"op":"cancel","a":1,"b":0,"gap":"s"},{"op":"sub","a":1,"b":0,"gap":"h"},{"op":"pub","a":2,"b":0,"gap":"l"}]}
//
// roles: sub (one subscription) | sub2 (two subscriptions) | relay | none.
// ops:   sub/cancel/relay/unrelay a | conn/disc a b | pub a.
// gap:   how much time passes BEFORE the operation: "s" = 100 ms and no heartbeat,
//
//	"h" = exactly one heartbeat, "l" = the full settle period. A "pub" is always preceded by the
//	full settle period counted from the last churn operation; a maximal run of consecutive "pub"
//	operations is one batch published at the same instant, followed by the quiescence wait and
//	ONE check line.
//
// Second topic: when "uroles" is present every node first takes its role on the unrelated topic "U" (then on T, then the
// graph is built); every U-interested node publishes one message on U in every batch, and the check line carries the same
// observations for U under "u" (judged per topic by NetTrace).
//
// Several measured topics: "clones":c adds the topics T2..T<c+1>; whatever the scenario does on T (roles, sub/cancel/relay/unrelay,
// publications) is done on each of them in the same instant, so that one heartbeat's gossip has to advertise messages of
// several topics to the same peer. The check line carries one observation record per clone under "clones".
//
// Backpressure: with "queue":q (small per-peer outbound queues) and "bulk":true (everybody subscribes to the bulk topic "B"
// first), a churn operation may carry "burst":k: node a publishes k messages of 256 KiB on B and, in the same virtual
// instant, performs the operation, so that the announcement of its new interest meets full outbound queues (the op line
// logs how many of a's peer queues were full, from the node's own snapshot, and how many announcements were dropped and
// left to announceRetry). Bulk messages are never judged; the measured batches come after the usual settle period.
//
// Long-running histories: {"op":"stream","a":count,"b":payload bytes,"ps":[publishers],"gap":g} publishes one message per
// heartbeat (400 ms after it) for `count` heartbeats, publishers in turn, records the nodes' mesh state at every publish
// instant and every GRAFT/PRUNE event, waits the quiescence period and emits ONE check line ("stream":true). NetTrace then
// judges every message of the stream whose own propagation window saw no mesh change. gap "l" settles first like "pub".
//
// ops also accepts {"op":"wait","a":k} (let k heartbeats pass; not a stimulus) for targeted scenarios such as
// testdata/unsettled_star.ndjson: a 4-star whose hub has degree Dhi, so its mesh is cut back every sweep period and
// the meshes never settle; the leaf whose mesh is empty publishes just before the sweeping heartbeat, which GRAFTs the
// hub first and gossips to non-mesh peers second - the message reaches nobody (most runs; it depends on whom the
// hub prunes next). Outside the premise of C01 (a prune backoff is pending); NetTrace discards that batch.
//
// Timeline: all nodes are created at the same instant t0, heartbeats fire at
// t0+100 ms+k*1 s; every stimulus happens between 400 and 800 ms after a heartbeat.
package c01

import (
	"context"
	"fmt"
	"os"
	"sort"
	"strings"
	"sync"
	"testing"
	"testing/synctest"
	"time"

	pubsub "github.com/libp2p/go-libp2p-pubsub"
	"github.com/libp2p/go-libp2p/core/host"
	"github.com/libp2p/go-libp2p/core/network"
	"github.com/libp2p/go-libp2p/core/peer"
	"github.com/libp2p/go-libp2p/core/protocol"

	"verifharness/hnet"
	"verifharness/vh"
)

type M = map[string]any

const (
	topicName = "T" // the topic under test
	topicU    = "U" // an unrelated second topic (static roles, traffic in every batch)
	topicB    = "B" // bulk topic of the backpressure family (bursts of large messages, never judged)
	burstSize = 256 << 10
)

type op struct {
	Op  string `json:"op"`
	A   int    `json:"a"`
	B   int    `json:"b"`
	Gap string `json:"gap"`
	Ps  []int  `json:"ps"` // stream: publishers, used round-robin
	// Burst: before this churn operation, IN THE SAME VIRTUAL INSTANT, node A publishes this many 256 KiB messages on the bulk
	// topic "B", so that its per-peer outbound queues are full when the operation announces the change of interest
	Burst int `json:"burst"`
}

type scenario struct {
	N      int      `json:"n"`
	Kinds  []string `json:"kinds"`
	Edges  [][]int  `json:"edges"`
	Roles  []string `json:"roles"`
	Ops    []op     `json:"ops"`
	Params string   `json:"params"`
	Src    string   `json:"src"`
	// roles on the unrelated second topic "U" ("none" | "sub" | "relay"), established BEFORE the roles on T
	Uroles []string `json:"uroles"`
	// LateRoles: build the graph FIRST and take the roles afterwards (interest travels in announcements instead of hello packets)
	LateRoles bool `json:"late_roles"`
	// Backpressure family: Queue = WithPeerOutboundQueueSize for every node (0 = library default); Bulk = every node first
	// subscribes to the bulk topic "B" (never judged), on which the bursts of the operations are published
	Queue int  `json:"queue"`
	Bulk  bool `json:"bulk"`
	// Clones: that many additional MEASURED topics "T2".."T<c+1>" on which every node takes the same roles and performs the
	// same operations and publications as on T (same instant); each is observed and judged like T (check line: "clones")
	Clones int `json:"clones"`
}

// smallParams: the scaled-down gossipsub parameters of spec/net (D=2, Dlo=1, Dhi=3, Dlazy=2).
func smallParams() pubsub.GossipSubParams {
	p := pubsub.DefaultGossipSubParams()
	p.D, p.Dlo, p.Dhi, p.Dscore, p.Dout, p.Dlazy = 2, 1, 3, 1, 0, 2
	p.PruneBackoff = 5 * time.Second
	p.UnsubscribeBackoff = 2 * time.Second
	p.GraftFloodThreshold = 2 * time.Second
	p.HeartbeatInitialDelay = 100 * time.Millisecond
	p.HeartbeatInterval = time.Second
	return p
}

func defaultParams() pubsub.GossipSubParams {
	p := pubsub.DefaultGossipSubParams()
	p.HeartbeatInitialDelay = 100 * time.Millisecond
	p.HeartbeatInterval = time.Second
	return p
}

// ---------------------------------------------------------------------------
// per-node wire counters (coverage information only)

type counter struct {
	mu        sync.Mutex
	iwantRecv int // IWANT ids received
	ihaveRecv int // IHAVE ids received
	msgSent   int
	log       []string
	mev       [][2]int64 // GRAFT/PRUNE events: (virtual ms, 1 if on the topic under test else 0)
	annDrop   int        // announcements (SUB/UNSUB) that met a full outbound queue
	ctlDrop   int        // GRAFT/PRUNE that met a full outbound queue
	keep      bool
	me        string
	names     *hnet.Names
}

func (c *counter) note(f string, a ...any) {
	if !c.keep {
		return
	}
	c.log = append(c.log, fmt.Sprintf("%d %s ", hnet.NowMs(), c.me)+fmt.Sprintf(f, a...))
}

func (c *counter) shape(r *pubsub.RPC) string {
	var sb strings.Builder
	for _, s := range r.GetSubscriptions() {
		if s.GetSubscribe() {
			sb.WriteString(" SUB")
		} else {
			sb.WriteString(" UNSUB")
		}
	}
	for _, m := range r.GetPublish() {
		sb.WriteString(" MSG(" + c.names.MsgFromData(pubsub.DefaultMsgIdFn(m), m.GetData()) + ")")
	}
	if ctl := r.GetControl(); ctl != nil {
		for range ctl.GetGraft() {
			sb.WriteString(" GRAFT")
		}
		for _, p := range ctl.GetPrune() {
			sb.WriteString(fmt.Sprintf(" PRUNE(%d)", p.GetBackoff()))
		}
		for _, ih := range ctl.GetIhave() {
			sb.WriteString(" IHAVE" + fmt.Sprint(c.names.Ms(ih.GetMessageIDs())))
		}
		for _, iw := range ctl.GetIwant() {
			sb.WriteString(" IWANT" + fmt.Sprint(c.names.Ms(iw.GetMessageIDs())))
		}
		for range ctl.GetIdontwant() {
			sb.WriteString(" IDONTWANT")
		}
	}
	return sb.String()
}

func (c *counter) OnNewOutboundStream(p peer.ID, proto protocol.ID) {
	c.mu.Lock()
	c.note("up %s %s", c.names.P(p), proto)
	c.mu.Unlock()
}
func (c *counter) OnClosedOutboundStream(p peer.ID) {
	c.mu.Lock()
	c.note("down %s", c.names.P(p))
	c.mu.Unlock()
}
func (c *counter) Join(string)  { c.mu.Lock(); c.note("join"); c.mu.Unlock() }
func (c *counter) Leave(string) { c.mu.Lock(); c.note("leave"); c.mu.Unlock() }

// topicIdx: 1 = the topic under test, 0 = the unrelated topic U, n = the clone "T<n>", -1 = anything else (bulk).
func topicIdx(tp string) int64 {
	switch {
	case tp == topicName:
		return 1
	case tp == topicU:
		return 0
	case len(tp) > 1 && tp[0] == 'T':
		var n int64
		if _, err := fmt.Sscanf(tp[1:], "%d", &n); err == nil {
			return n
		}
	}
	return -1
}

// msgPrefix / subPrefix: how payload names and subscription ids of a topic start ("m", "u", "c<n>x").
func msgPrefix(tp string) string {
	switch i := topicIdx(tp); {
	case i == 1:
		return "m"
	case i == 0:
		return "u"
	default:
		return fmt.Sprintf("c%dx", i)
	}
}
func subPrefix(tp string) string {
	switch i := topicIdx(tp); {
	case i == 1:
		return ""
	case i == 0:
		return "u"
	default:
		return fmt.Sprintf("c%d.", i)
	}
}
func (c *counter) Graft(p peer.ID, tp string) {
	c.mu.Lock()
	c.mev = append(c.mev, [2]int64{hnet.NowMs(), topicIdx(tp)})
	c.note("graft %s %s", c.names.P(p), tp)
	c.mu.Unlock()
}
func (c *counter) Prune(p peer.ID, tp string) {
	c.mu.Lock()
	c.mev = append(c.mev, [2]int64{hnet.NowMs(), topicIdx(tp)})
	c.note("prune %s %s", c.names.P(p), tp)
	c.mu.Unlock()
}
func (c *counter) ValidateMessage(*pubsub.Message) {}
func (c *counter) DeliverMessage(m *pubsub.Message) {
	c.mu.Lock()
	c.note("deliver %s from %s", c.names.MsgFromData(pubsub.DefaultMsgIdFn(m.Message), m.GetData()), c.names.P(m.ReceivedFrom))
	c.mu.Unlock()
}
func (c *counter) RejectMessage(m *pubsub.Message, reason string) {
	c.mu.Lock()
	c.note("reject %s", reason)
	c.mu.Unlock()
}
func (c *counter) DuplicateMessage(m *pubsub.Message) {
	c.mu.Lock()
	c.note("duplicate %s from %s", c.names.MsgFromData(pubsub.DefaultMsgIdFn(m.Message), m.GetData()), c.names.P(m.ReceivedFrom))
	c.mu.Unlock()
}
func (c *counter) ThrottlePeer(peer.ID) {}
func (c *counter) RecvRPC(r *pubsub.RPC) {
	c.mu.Lock()
	if ctl := r.GetControl(); ctl != nil {
		for _, iw := range ctl.GetIwant() {
			c.iwantRecv += len(iw.GetMessageIDs())
		}
		for _, ih := range ctl.GetIhave() {
			c.ihaveRecv += len(ih.GetMessageIDs())
		}
	}
	if c.keep {
		c.note("recv <-%s%s", c.names.P(r.From()), c.shape(r))
	}
	c.mu.Unlock()
}
func (c *counter) SendRPC(r *pubsub.RPC, p peer.ID) {
	c.mu.Lock()
	c.msgSent += len(r.GetPublish())
	if c.keep {
		c.note("send ->%s%s", c.names.P(p), c.shape(r))
	}
	c.mu.Unlock()
}
func (c *counter) DropRPC(r *pubsub.RPC, p peer.ID) {
	c.mu.Lock()
	c.annDrop += len(r.GetSubscriptions())
	if ctl := r.GetControl(); ctl != nil {
		c.ctlDrop += len(ctl.GetGraft()) + len(ctl.GetPrune())
	}
	c.note("DROP ->%s%s", c.names.P(p), c.shape(r))
	c.mu.Unlock()
}
func (c *counter) UndeliverableMessage(*pubsub.Message) {
	c.mu.Lock()
	c.note("UNDELIVERABLE")
	c.mu.Unlock()
}

// ---------------------------------------------------------------------------

type subRec struct {
	id    string // "<node>.<k>" on T, "u<node>.<k>" on U
	sub   *pubsub.Subscription
	mu    sync.Mutex
	count map[string]int // message name -> deliveries
	other int            // deliveries whose payload the harness did not publish on this topic
	done  chan struct{}
}

// tstate is what one node holds on one topic.
type tstate struct {
	topic  *pubsub.Topic
	subs   []*subRec // live subscriptions
	dead   []*subRec // cancelled subscriptions
	relays []pubsub.RelayCancelFunc
	nsub   int
}

type node struct {
	idx  int
	kind string
	h    host.Host
	ps   *pubsub.PubSub
	ts   map[string]*tstate
	ctr  *counter
	bulk *pubsub.Topic
}

func (n *node) st(tn string) *tstate {
	if n.ts[tn] == nil {
		n.ts[tn] = &tstate{}
	}
	return n.ts[tn]
}

type world struct {
	t       *testing.T
	ctx     context.Context
	stop    context.CancelFunc
	net     *hnet.Net
	nodes   []*node // 0-based
	names   *hnet.Names
	t0      int64
	params  pubsub.GossipSubParams
	settle  int // heartbeats
	edges   map[[2]int]bool
	msgs    map[string][]string // topic -> names of all messages published so far
	lastOp  int64               // heartbeat number (since t0) of the last churn stimulus
	debug   bool
	nextMsg map[string]int
	twoTop  bool
	clones  []string // names of the additional measured topics
}

func (w *world) node(i int) *node { return w.nodes[i-1] }

// phase = ms since the most recent heartbeat instant; hbNo = heartbeats so far.
func (w *world) phase() int64 {
	d := hnet.NowMs() - w.t0 - 100
	if d < 0 {
		return d
	}
	return d % 1000
}
func (w *world) hbNo() int64 {
	d := hnet.NowMs() - w.t0 - 100
	if d < 0 {
		return 0
	}
	return d/1000 + 1
}

// crossTo advances virtual time to the next instant whose phase is ph, crossing `hbs` heartbeats
// first (hbs=0: stay inside the current heartbeat interval; if ph has passed, cross one).
func (w *world) crossTo(hbs int, ph int64) {
	now := hnet.NowMs()
	cur := w.phase()
	var target int64
	if cur < 0 { // before the first heartbeat
		target = w.t0 + 100 + int64(hbs-1)*1000 + ph
		if hbs == 0 {
			target = now
		}
	} else {
		base := now - cur // the last heartbeat instant
		target = base + int64(hbs)*1000 + ph
	}
	if target < now {
		target += 1000
	}
	hnet.AdvanceTo(target)
}

func (w *world) join(n *node, tn string) *pubsub.Topic {
	st := n.st(tn)
	if st.topic == nil {
		tp, err := n.ps.Join(tn)
		if err != nil {
			w.t.Fatalf("join: %v", err)
		}
		st.topic = tp
	}
	return st.topic
}

func (w *world) subscribe(n *node, tn string) {
	tp := w.join(n, tn)
	s, err := tp.Subscribe(pubsub.WithBufferSize(256))
	if err != nil {
		w.t.Fatalf("subscribe: %v", err)
	}
	st := n.st(tn)
	st.nsub++
	r := &subRec{id: fmt.Sprintf("%s%d.%d", subPrefix(tn), n.idx, st.nsub), sub: s, count: map[string]int{}, done: make(chan struct{})}
	st.subs = append(st.subs, r)
	want := msgPrefix(tn)
	go func() {
		defer close(r.done)
		for {
			m, err := s.Next(w.ctx)
			if err != nil {
				return
			}
			name := payloadName(m.GetData())
			r.mu.Lock()
			if name == "" || !strings.HasPrefix(name, want) || m.GetTopic() != tn {
				r.other++
			} else {
				r.count[name]++
			}
			r.mu.Unlock()
		}
	}()
}

func payloadName(b []byte) string {
	for i, c := range b {
		if c == '|' {
			return string(b[:i])
		}
		if i > 12 {
			break
		}
	}
	return ""
}

func (w *world) cancel(n *node, tn string) bool {
	st := n.st(tn)
	if len(st.subs) == 0 {
		return false
	}
	r := st.subs[len(st.subs)-1]
	st.subs = st.subs[:len(st.subs)-1]
	r.sub.Cancel()
	st.dead = append(st.dead, r)
	return true
}

func (w *world) relay(n *node, tn string) {
	tp := w.join(n, tn)
	c, err := tp.Relay()
	if err != nil {
		w.t.Fatalf("relay: %v", err)
	}
	st := n.st(tn)
	st.relays = append(st.relays, c)
}

func (w *world) unrelay(n *node, tn string) bool {
	st := n.st(tn)
	if len(st.relays) == 0 {
		return false
	}
	c := st.relays[len(st.relays)-1]
	st.relays = st.relays[:len(st.relays)-1]
	c()
	return true
}

func ekey(a, b int) [2]int {
	if a > b {
		a, b = b, a
	}
	return [2]int{a, b}
}

func (w *world) connect(a, b int) bool {
	if a == b || w.edges[ekey(a, b)] {
		return false
	}
	if err := hnet.Connect(w.node(a).h, w.node(b).h); err != nil {
		w.t.Logf("connect %d-%d: %v", a, b, err)
		return false
	}
	w.edges[ekey(a, b)] = true
	return true
}

func (w *world) disconnect(a, b int) bool {
	if !w.edges[ekey(a, b)] {
		return false
	}
	hnet.Disconnect(w.node(a).h, w.node(b).h)
	delete(w.edges, ekey(a, b))
	return true
}

// publish one distinguishable payload ("m<k>|..." on T, "u<k>|..." on U), padded to size bytes.
func (w *world) publish(n *node, tn string, size int) string {
	w.nextMsg[tn]++
	name := fmt.Sprintf("%s%d", msgPrefix(tn), w.nextMsg[tn])
	data := []byte(name + "|from " + fmt.Sprint(n.idx))
	if size > len(data) {
		data = append(data, make([]byte, size-len(data))...)
	}
	tp := w.join(n, tn)
	if err := tp.Publish(w.ctx, data); err != nil {
		w.t.Fatalf("publish: %v", err)
	}
	w.msgs[tn] = append(w.msgs[tn], name)
	return name
}

// ---------------------------------------------------------------------------
// observation

func idxOf(name string) int {
	var i int
	if _, err := fmt.Sscanf(name, "n%d", &i); err != nil {
		return 0
	}
	return i
}

func (w *world) idxList(ids []peer.ID) []int {
	out := make([]int, 0, len(ids))
	for _, id := range ids {
		out = append(out, idxOf(w.names.P(id)))
	}
	sort.Ints(out)
	return out
}

// meshState: what the routers hold for topic tn right now (cheap: used at every publish instant of a stream).
func (w *world) meshState(tn string) M {
	views, mesh, joined := []any{}, []any{}, []any{}
	for _, n := range w.nodes {
		views = append(views, w.idxList(n.ps.ListPeers(tn)))
		me, j := []int{}, false
		if st := n.ps.VerifSnapshot(); st != nil && st.GS != nil {
			if m, ok := st.GS.Mesh[tn]; ok {
				j, me = true, w.idxList(m)
			}
		}
		mesh, joined = append(mesh, me), append(joined, j)
	}
	return M{"views": views, "mesh": mesh, "joined": joined}
}

// views: what every node believes about topic tn right now.
func (w *world) views(tn string) M {
	peers, views, topics, subs, relays := []any{}, []any{}, []any{}, []any{}, []any{}
	mesh, fanout, joined, backoff, protos := []any{}, []any{}, []any{}, []any{}, []any{}
	for _, n := range w.nodes {
		peers = append(peers, w.idxList(n.ps.ListPeers("")))
		views = append(views, w.idxList(n.ps.ListPeers(tn)))
		has := false
		for _, t := range n.ps.GetTopics() {
			if t == tn {
				has = true
			}
		}
		topics = append(topics, has)
		st := n.ps.VerifSnapshot()
		ns, nr := 0, 0
		if st != nil {
			ns, nr = st.MySubs[tn], st.MyRelays[tn]
		}
		subs = append(subs, ns)
		relays = append(relays, nr)
		me, fo, bo, pr := []int{}, []int{}, []int{}, M{}
		j := false
		if st != nil && st.GS != nil {
			if m, ok := st.GS.Mesh[tn]; ok {
				j = true
				me = w.idxList(m)
			}
			fo = w.idxList(st.GS.Fanout[tn])
			var b []peer.ID
			for p := range st.GS.Backoff[tn] {
				b = append(b, p)
			}
			bo = w.idxList(b)
			for p, x := range st.GS.Peers {
				pr[w.names.P(p)] = x
			}
		}
		if st != nil && st.RandomPeers != nil {
			for p, x := range st.RandomPeers {
				pr[w.names.P(p)] = x
			}
		}
		if len(pr) == 0 {
			pr["-"] = ""
		}
		mesh, fanout, joined, backoff, protos = append(mesh, me), append(fanout, fo), append(joined, j), append(backoff, bo), append(protos, pr)
	}
	return M{"peers": peers, "views": views, "topics": topics, "nsubs": subs, "nrelays": relays,
		"mesh": mesh, "fanout": fanout, "joined": joined, "backoff": backoff, "protos": protos}
}

// realEdges: host-level connectedness (the environment half of the precondition).
func (w *world) realEdges() [][]int {
	out := [][]int{}
	for i, a := range w.nodes {
		for j, b := range w.nodes {
			if i < j {
				ab := a.h.Network().Connectedness(b.h.ID()) == network.Connected
				ba := b.h.Network().Connectedness(a.h.ID()) == network.Connected
				if ab && ba {
					out = append(out, []int{i + 1, j + 1})
				} else if ab || ba {
					out = append(out, []int{i + 1, j + 1, 0}) // half-open: never equal to an intended edge list
				}
			}
		}
	}
	return out
}

func (w *world) wantEdges() [][]int {
	out := [][]int{}
	for e := range w.edges {
		out = append(out, []int{e[0], e[1]})
	}
	sort.Slice(out, func(i, j int) bool {
		if out[i][0] != out[j][0] {
			return out[i][0] < out[j][0]
		}
		return out[i][1] < out[j][1]
	})
	return out
}

func (w *world) deliveries(tn string) []any {
	out := []any{}
	for _, n := range w.nodes {
		st := n.st(tn)
		for _, grp := range [][]*subRec{st.subs, st.dead} {
			for _, r := range grp {
				r.mu.Lock()
				for _, m := range w.msgs[tn] {
					out = append(out, M{"n": n.idx, "s": r.id, "m": m, "c": r.count[m]})
				}
				if r.other > 0 {
					out = append(out, M{"n": n.idx, "s": r.id, "m": "?", "c": r.other})
				}
				r.mu.Unlock()
			}
		}
	}
	return out
}

func subIDs(l []*subRec) []string {
	out := []string{}
	for _, r := range l {
		out = append(out, r.id)
	}
	return out
}

// liveDead: subscription ids and relay counts the harness itself holds on topic tn.
func (w *world) liveDead(tn string) (live, dead, irel []any) {
	live, dead, irel = []any{}, []any{}, []any{}
	for _, n := range w.nodes {
		st := n.st(tn)
		live = append(live, subIDs(st.subs))
		dead = append(dead, subIDs(st.dead))
		irel = append(irel, len(st.relays))
	}
	return
}

// fullQueues: how many of n's per-peer outbound queues are full right now (the node's own snapshot).
func (w *world) fullQueues(n *node, size int) int {
	st := n.ps.VerifSnapshot()
	if st == nil {
		return 0
	}
	full := 0
	for _, q := range st.Peers {
		if q.Normal+q.Priority >= size {
			full++
		}
	}
	return full
}

// meshEvents: GRAFT/PRUNE events of all nodes since virtual ms `since`: [ms relative to t0, onT].
func (w *world) meshEvents(since int64) []any {
	out := []any{}
	for _, n := range w.nodes {
		n.ctr.mu.Lock()
		for _, e := range n.ctr.mev {
			if e[0] >= since {
				out = append(out, []int64{e[0] - w.t0, e[1]})
			}
		}
		n.ctr.mu.Unlock()
	}
	return out
}

// ---------------------------------------------------------------------------

func marker(i int) {
	if p := os.Getenv("VERIF_MARKER"); p != "" {
		os.WriteFile(p, []byte(vh.Sprintf("%d", i)), 0o644)
	}
}

func runScenario(t *testing.T, out *vh.Out, idx int, s scenario, debug bool) {
	synctest.Test(t, func(t *testing.T) {
		w := &world{t: t, names: hnet.NewNames(), edges: map[[2]int]bool{}, debug: debug,
			msgs: map[string][]string{}, nextMsg: map[string]int{}, twoTop: len(s.Uroles) == s.N}
		w.ctx, w.stop = context.WithCancel(context.Background())
		if s.Params == "default" {
			w.params = defaultParams()
		} else {
			s.Params = "small"
			w.params = smallParams()
		}
		bo := w.params.PruneBackoff
		if w.params.UnsubscribeBackoff > bo {
			bo = w.params.UnsubscribeBackoff
		}
		// no stimulus for max(PruneBackoff, UnsubscribeBackoff) + 17 heartbeats (sweep every 15th tick, 2 s slack) + 3 heartbeats
		w.settle = int((bo+time.Second-1)/time.Second) + 17 + 3
		w.net = hnet.New(t, s.N, false)
		w.t0 = hnet.NowMs()
		for i := 0; i < s.N; i++ {
			h := w.net.Take()
			name := fmt.Sprintf("n%d", i+1)
			w.names.AddPeer(h.ID(), name)
			n := &node{idx: i + 1, kind: s.Kinds[i], h: h, ts: map[string]*tstate{}, ctr: &counter{keep: debug, me: name, names: w.names}}
			opts := []pubsub.Option{pubsub.WithRawTracer(n.ctr)}
			if s.Queue > 0 {
				opts = append(opts, pubsub.WithPeerOutboundQueueSize(s.Queue))
			}
			var err error
			switch n.kind {
			case "flood":
				n.ps, err = pubsub.NewFloodSub(w.ctx, h, opts...)
			case "random":
				n.ps, err = pubsub.NewRandomSub(w.ctx, h, s.N, opts...)
			case "gossip":
				n.ps, err = pubsub.NewGossipSub(w.ctx, h, append(opts, pubsub.WithGossipSubParams(w.params))...)
			default:
				t.Fatalf("unknown kind %q", n.kind)
			}
			if err != nil {
				t.Fatalf("cannot build node %d (%s): %v", i+1, n.kind, err)
			}
			w.nodes = append(w.nodes, n)
		}
		defer func() {
			w.stop()
			hnet.Settle(10 * time.Millisecond)
		}()
		// roles on the unrelated topic first, then the roles on the topic under test, then the initial graph
		// (the hello packets carry the interest)
		role := func(n *node, tn, r string) {
			switch r {
			case "sub":
				w.subscribe(n, tn)
			case "sub2":
				w.subscribe(n, tn)
				w.subscribe(n, tn)
			case "relay":
				w.relay(n, tn)
			case "none":
			default:
				t.Fatalf("unknown role %q", r)
			}
		}
		if s.Bulk { // everybody listens on the bulk topic (drained, never judged)
			for _, n := range w.nodes {
				tp, err := n.ps.Join(topicB)
				if err != nil {
					t.Fatalf("join bulk: %v", err)
				}
				sub, err := tp.Subscribe(pubsub.WithBufferSize(64))
				if err != nil {
					t.Fatalf("subscribe bulk: %v", err)
				}
				n.bulk = tp
				go func() {
					for {
						if _, err := sub.Next(w.ctx); err != nil {
							return
						}
					}
				}()
			}
		}
		if s.LateRoles {
			for _, e := range s.Edges {
				w.connect(e[0], e[1])
			}
			hnet.Settle(30 * time.Millisecond)
		}
		if w.twoTop {
			for i, r := range s.Uroles {
				role(w.nodes[i], topicU, r)
			}
		}
		for c := 0; c < s.Clones; c++ {
			w.clones = append(w.clones, fmt.Sprintf("T%d", c+2))
		}
		for i, r := range s.Roles {
			role(w.nodes[i], topicName, r)
			for _, cn := range w.clones {
				role(w.nodes[i], cn, r)
			}
		}
		if !s.LateRoles {
			for _, e := range s.Edges {
				w.connect(e[0], e[1])
			}
		}
		p := w.params
		uroles := s.Uroles
		if !w.twoTop {
			uroles = []string{}
		}
		out.Emit(M{"e": "reset", "scn": idx, "n": s.N, "kinds": s.Kinds, "edges": w.wantEdges(), "roles": s.Roles, "uroles": uroles, "late_roles": s.LateRoles, "queue": s.Queue, "bulk": s.Bulk, "clones": s.Clones, "src": s.Src,
			"params": M{"name": s.Params, "D": p.D, "Dlo": p.Dlo, "Dhi": p.Dhi, "Dlazy": p.Dlazy, "Dscore": p.Dscore, "Dout": p.Dout,
				"RandomSubD": pubsub.RandomSubD, "pruneBackoffMs": p.PruneBackoff.Milliseconds(), "unsubBackoffMs": p.UnsubscribeBackoff.Milliseconds(),
				"historyGossip": p.HistoryGossip, "historyLength": p.HistoryLength, "settleHb": w.settle, "fanoutTTLMs": p.FanoutTTL.Milliseconds(),
				"windowMs": int64(s.N+p.HistoryGossip+1) * 1000},
			"nops": len(s.Ops), "t": hnet.NowMs() - w.t0})
		w.crossTo(1, 400) // past the first heartbeat
		w.lastOp = 0

		for k := 0; k < len(s.Ops); k++ {
			o := s.Ops[k]
			if o.Op == "wait" { // let o.A heartbeats pass (not a stimulus; used by targeted scenarios)
				w.crossTo(o.A, 400)
				out.Emit(M{"e": "op", "scn": idx, "k": k + 1, "op": o.Op, "a": o.A, "b": o.B, "gap": o.Gap, "ok": true, "t": hnet.NowMs() - w.t0})
				continue
			}
			if o.Op != "pub" && o.Op != "stream" {
				switch o.Gap {
				case "h":
					w.crossTo(1, 400)
				case "l":
					w.crossTo(w.settle, 400)
				default:
					if ph := w.phase(); ph+100 > 800 {
						w.crossTo(1, 400)
					} else {
						hnet.Settle(100 * time.Millisecond)
					}
				}
				extra := M{}
				if o.Burst > 0 && s.Bulk && s.Queue > 0 && o.A >= 1 && o.A <= s.N {
					// the burst and the operation happen in the same virtual instant: the writers cannot drain anything meanwhile
					a := w.node(o.A)
					a.ctr.mu.Lock()
					a.ctr.annDrop, a.ctr.ctlDrop = 0, 0
					a.ctr.mu.Unlock()
					big := make([]byte, burstSize)
					for i := 0; i < o.Burst; i++ {
						copy(big, fmt.Sprintf("b%d.%d.%d|", o.A, k, i))
						if err := a.bulk.Publish(w.ctx, append([]byte(nil), big...)); err != nil {
							t.Fatalf("bulk publish: %v", err)
						}
					}
					extra["burst"], extra["qfull"], extra["npeers"] = o.Burst, w.fullQueues(a, s.Queue), len(a.ps.ListPeers(""))
				}
				ok := false
				switch o.Op {
				case "sub":
					w.subscribe(w.node(o.A), topicName)
					for _, cn := range w.clones {
						w.subscribe(w.node(o.A), cn)
					}
					ok = true
				case "cancel":
					ok = w.cancel(w.node(o.A), topicName)
					for _, cn := range w.clones {
						w.cancel(w.node(o.A), cn)
					}
				case "relay":
					w.relay(w.node(o.A), topicName)
					for _, cn := range w.clones {
						w.relay(w.node(o.A), cn)
					}
					ok = true
				case "unrelay":
					ok = w.unrelay(w.node(o.A), topicName)
					for _, cn := range w.clones {
						w.unrelay(w.node(o.A), cn)
					}
				case "conn":
					ok = w.connect(o.A, o.B)
				case "disc":
					ok = w.disconnect(o.A, o.B)
				default:
					t.Fatalf("unknown op %q", o.Op)
				}
				if _, b := extra["burst"]; b {
					a := w.node(o.A)
					extra["qfull1"] = w.fullQueues(a, s.Queue) // still the same instant: after the announcement was attempted
					a.ctr.mu.Lock()
					extra["anndrop"], extra["ctldrop"] = a.ctr.annDrop, a.ctr.ctlDrop
					a.ctr.mu.Unlock()
				}
				hnet.Settle(20 * time.Millisecond)
				w.lastOp = w.hbNo()
				line := M{"e": "op", "scn": idx, "k": k + 1, "op": o.Op, "a": o.A, "b": o.B, "gap": o.Gap, "ok": ok, "t": hnet.NowMs() - w.t0}
				for kk, v := range extra {
					line[kk] = v
				}
				out.Emit(line)
				continue
			}
			// ---- a publish batch or a stream: settle, observe, publish, wait, observe
			stream := o.Op == "stream"
			if !stream || o.Gap == "l" {
				need := int(w.lastOp) + w.settle - int(w.hbNo())
				if need > 0 {
					w.crossTo(need, 400)
				} else if w.phase() != 400 {
					w.crossTo(0, 400)
				}
			} else {
				w.crossTo(1, 400)
			}
			pre := w.views(topicName)
			var preU M
			if w.twoTop {
				preU = w.views(topicU)
			}
			preC := []M{}
			cpubs := make([][]any, len(w.clones))
			for _, cn := range w.clones {
				preC = append(preC, w.views(cn))
			}
			real := w.realEdges()
			for _, n := range w.nodes {
				n.ctr.mu.Lock()
				n.ctr.iwantRecv, n.ctr.ihaveRecv, n.ctr.msgSent = 0, 0, 0
				n.ctr.mu.Unlock()
			}
			t0abs := hnet.NowMs()
			tpub := t0abs - w.t0
			pubs, upubs := []any{}, []any{}
			if stream {
				ps := o.Ps
				if len(ps) == 0 {
					ps = []int{1}
				}
				for i := 0; i < o.A; i++ {
					if i > 0 {
						w.crossTo(1, 400)
					}
					n := w.node(ps[i%len(ps)])
					e := w.meshState(topicName)
					e["n"], e["t"] = n.idx, hnet.NowMs()-w.t0
					e["m"] = w.publish(n, topicName, o.B)
					pubs = append(pubs, e)
					if w.twoTop && i%4 == 0 { // the other topic keeps carrying traffic
						for _, un := range w.nodes {
							if len(un.st(topicU).subs) > 0 || len(un.st(topicU).relays) > 0 {
								upubs = append(upubs, M{"n": un.idx, "m": w.publish(un, topicU, 0)})
								break
							}
						}
					}
				}
			} else {
				for ; k < len(s.Ops) && s.Ops[k].Op == "pub"; k++ {
					n := w.node(s.Ops[k].A)
					pubs = append(pubs, M{"n": n.idx, "m": w.publish(n, topicName, 0)})
					for ci, cn := range w.clones { // the same publication on every measured topic, same instant
						cpubs[ci] = append(cpubs[ci], M{"n": n.idx, "m": w.publish(n, cn, 0)})
					}
				}
				k--
				if w.twoTop { // every U-interested node publishes on U in the same instant
					for _, un := range w.nodes {
						if len(un.st(topicU).subs) > 0 || len(un.st(topicU).relays) > 0 {
							upubs = append(upubs, M{"n": un.idx, "m": w.publish(un, topicU, 0)})
						}
					}
				}
			}
			hnet.Settle(20 * time.Millisecond)
			fan := w.views(topicName)["fanout"]
			var fanU any
			if w.twoTop {
				fanU = w.views(topicU)["fanout"]
			}
			fanC := []any{}
			for _, cn := range w.clones {
				fanC = append(fanC, w.views(cn)["fanout"])
			}
			// quiescence: eager push is over within milliseconds; lazy repair needs one IHAVE/IWANT round per
			// gossip hop: wait 2N + HistoryGossip + 2 heartbeats
			w.crossTo(2*s.N+p.HistoryGossip+2, 400)
			iw, ih, sent := 0, 0, 0
			for _, n := range w.nodes {
				n.ctr.mu.Lock()
				iw, ih, sent = iw+n.ctr.iwantRecv, ih+n.ctr.ihaveRecv, sent+n.ctr.msgSent
				n.ctr.mu.Unlock()
			}
			// the premise must have held throughout: observe the environment and the meshes again now
			peers1 := []any{}
			for _, n := range w.nodes {
				peers1 = append(peers1, w.idxList(n.ps.ListPeers("")))
			}
			post := w.views(topicName)
			live, dead, irel := w.liveDead(topicName)
			line := M{"e": "check", "scn": idx, "k": k + 1, "t": tpub, "tq": hnet.NowMs() - w.t0, "stream": stream,
				"edges": w.wantEdges(), "real": real, "real1": w.realEdges(), "peers1": peers1,
				"pubs": pubs, "live": live, "dead": dead, "deliv": w.deliveries(topicName),
				"fanout1": fan, "irelays": irel, "kinds": s.Kinds, "iwant": iw, "ihave": ih, "sent": sent,
				"mesh1": post["mesh"], "backoff1": post["backoff"], "views1": post["views"], "joined1": post["joined"],
				"meshev": w.meshEvents(t0abs)}
			for kk, v := range pre {
				line[kk] = v
			}
			if w.twoTop {
				postU := w.views(topicU)
				ulive, udead, uirel := w.liveDead(topicU)
				u := M{"pubs": upubs, "live": ulive, "dead": udead, "irelays": uirel, "deliv": w.deliveries(topicU), "fanout1": fanU,
					"mesh1": postU["mesh"], "backoff1": postU["backoff"], "views1": postU["views"], "joined1": postU["joined"]}
				for kk, v := range preU {
					if kk != "peers" && kk != "protos" {
						u[kk] = v
					}
				}
				line["u"] = u
			} else {
				line["u"] = M{"pubs": []any{}}
			}
			cl := []any{}
			for ci, cn := range w.clones {
				postC := w.views(cn)
				clive, cdead, cirel := w.liveDead(cn)
				cps := cpubs[ci]
				if cps == nil {
					cps = []any{}
				}
				c := M{"topic": topicIdx(cn), "pubs": cps, "live": clive, "dead": cdead, "irelays": cirel, "deliv": w.deliveries(cn), "fanout1": fanC[ci],
					"mesh1": postC["mesh"], "backoff1": postC["backoff"], "views1": postC["views"], "joined1": postC["joined"]}
				for kk, v := range preC[ci] {
					if kk != "peers" && kk != "protos" {
						c[kk] = v
					}
				}
				cl = append(cl, c)
			}
			line["clones"] = cl
			if debug {
				var lg []string
				for _, n := range w.nodes {
					n.ctr.mu.Lock()
					lg = append(lg, n.ctr.log...)
					n.ctr.log = nil
					n.ctr.mu.Unlock()
				}
				sort.SliceStable(lg, func(i, j int) bool {
					var a, b int64
					fmt.Sscanf(lg[i], "%d", &a)
					fmt.Sscanf(lg[j], "%d", &b)
					return a < b
				})
				line["log"] = lg
			}
			out.Emit(line)
		}
	})
}

// TestC01Replay replays every scenario of VERIF_IN (optionally only VERIF_ONLY=<index>).
func TestC01Replay(t *testing.T) {
	out := vh.NewOut(t, "VERIF_OUT")
	scns := vh.ReadScenarios[scenario](t, "VERIF_IN")
	only := vh.EnvInt("VERIF_ONLY", -1)
	debug := os.Getenv("VERIF_C01_DEBUG") != ""
	for i, s := range scns {
		if only >= 0 && i != only {
			continue
		}
		marker(i)
		runScenario(t, out, i, s, debug)
	}
	marker(-1)
}
