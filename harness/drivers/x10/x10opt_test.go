package x10

import (
	"context"
	"testing"
	"testing/synctest"
	"time"

	pubsub "github.com/libp2p/go-libp2p-pubsub"
	"github.com/libp2p/go-libp2p/core/peer"

	"verifharness/hnet"
	"verifharness/vh"
)

// TestX10Options applies the sizing options of the validation pipeline with boundary values to the real
// constructor and records what comes back (error / panic / what was allocated).  ValBoundsTrace judges.
func TestX10Options(t *testing.T) {
	out := vh.NewOut(t, "VERIF_OUT")
	type probe struct {
		opt string
		n   int
	}
	var probes []probe
	for _, o := range []string{"queue", "workers", "throttle", "vconc", "vtimeout"} {
		for _, n := range []int{-1, 0, 1, 3} {
			probes = append(probes, probe{o, n})
		}
	}
	nop := func(ctx context.Context, p peer.ID, m *pubsub.Message) pubsub.ValidationResult {
		return pubsub.ValidationAccept
	}
	for i, pbe := range probes {
		synctest.Test(t, func(t *testing.T) {
			net := hnet.New(t, 1, false)
			h := net.Take()
			ctx, cancel := context.WithCancel(context.Background())
			line := vh.M{"a": "opt", "scn": i, "opt": pbe.opt, "n": pbe.n, "err": "", "panic": "", "got": -1}
			func() {
				defer func() {
					if r := recover(); r != nil {
						line["panic"] = vh.Sprintf("%v", r)
					}
				}()
				var o pubsub.Option
				switch pbe.opt {
				case "queue":
					o = pubsub.WithValidateQueueSize(pbe.n)
				case "workers":
					o = pubsub.WithValidateWorkers(pbe.n)
				case "throttle":
					o = pubsub.WithValidateThrottle(pbe.n)
				case "vconc":
					o = pubsub.WithDefaultValidator(nop, pubsub.WithValidatorConcurrency(pbe.n))
				case "vtimeout":
					o = pubsub.WithDefaultValidator(nop, pubsub.WithValidatorTimeout(time.Duration(pbe.n)*time.Second))
				}
				ps, err := pubsub.NewFloodSub(ctx, h, o)
				if err != nil {
					line["err"] = err.Error()
					return
				}
				pr := reflPipe(ps)
				synctest.Wait() // the workers have started
				switch pbe.opt {
				case "queue":
					line["got"] = pr.q.Cap()
				case "workers":
					wk, _, _ := libGoroutines()
					line["got"] = wk
				case "throttle":
					line["got"] = pr.g.Cap()
				case "vconc":
					line["got"] = pr.dv.Index(0).Elem().FieldByName("validateThrottle").Cap()
				case "vtimeout":
					line["got"] = int(time.Duration(pr.dv.Index(0).Elem().FieldByName("validateTimeout").Int()) / time.Second)
				}
			}()
			out.Emit(line)
			cancel()
			hnet.Settle(50 * time.Millisecond)
			net.Close()
			_, _, ids := libGoroutines()
			for _, id := range ids {
				stale[id] = true
			}
		})
	}
}
