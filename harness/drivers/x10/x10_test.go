// Driver of the extension family X10 (spec/valbounds): resource bounds and timing of the
// validation pipeline (validation.go: validateQ, validateWorkers, the global and the
// per-validator throttle, validator timeouts, registration through the event loop).
//
// One real node is built through the public constructors with small capacities
// (WithValidateQueueSize / WithValidateWorkers / WithValidateThrottle, and per validator
// WithValidatorConcurrency / WithValidatorTimeout / WithValidatorInline).  Its validators are
// harness functions that BLOCK on a per-(validator, message) gate (the technique of
// harness/drivers/ingest), so the scenario - not the Go scheduler - decides when each
// validation ends, and the node is quiescent between stimuli.  Everything that happens is
// appended to ONE ordered event list (a mutex-protected counter `g`):
//
//	Arr      a copy of message m from peer p reached the event loop (RawTracer.RecvRPC)
//	Val      tracer ValidateMessage   (a worker took the copy and marked the id seen)
//	Dup      tracer DuplicateMessage
//	Rej      tracer RejectMessage; why = Q (queue full) T (throttled) R (failed) I (ignored) S (bad signature: the blockers)
//	Dlv      tracer DeliverMessage,   Dl = a Subscription.Next result
//	Enter    validator v was invoked for m (dl = ms until the deadline of its context, -1 = none; loc = local publish)
//	Ctx      the context of that invocation ended while it was running (how = deadline | cancel)
//	Exit     the invocation returned verdict r (how = gate | deadline | cancel)
//	PubRet   Topic.Publish returned
//
// and after every stimulus the driver records, at quiescence, what the REAL semaphores hold
// (reflection: len of validateQ, of the global throttle and of every validator's own throttle),
// how many library goroutines sit in validateWorker / doValidateTopic (one stack dump), whether
// the event loop still answers (`ping`), and the per-peer invalid-message counters.
// The driver never judges; spec/valbounds/ValBoundsTrace.tla does.
package x10

import (
	"context"
	"os"
	"reflect"
	"runtime"
	"sort"
	"strconv"
	"strings"
	"sync"
	"testing"
	"testing/synctest"
	"time"

	pubsub "github.com/libp2p/go-libp2p-pubsub"
	pb "github.com/libp2p/go-libp2p-pubsub/pb"
	"github.com/libp2p/go-libp2p/core/peer"

	"verifharness/hnet"
	"verifharness/vh"
	"verifharness/world"
)

type M = map[string]any

const (
	topic1 = "T1"
	topic2 = "T2"
	tickMs = 10000 // one `adv` = one tick of virtual time; validator timeouts are 17 s = "the second adv after the call"
)

// topicOf: messages whose name starts with 'n' travel on T2, everything else on T1.
func topicOf(name string) string {
	if len(name) > 0 && name[0] == 'n' {
		return topic2
	}
	return topic1
}

type scenario struct {
	Name string `json:"name"`
	Cfg  M      `json:"cfg"`
	Acts []M    `json:"acts"`
}

func geti(m M, k string, def int) int {
	switch v := m[k].(type) {
	case float64:
		return int(v)
	case int:
		return v
	}
	return def
}
func getb(m M, k string) bool { b, _ := m[k].(bool); return b }
func gets(m M, k, def string) string {
	if s, ok := m[k].(string); ok && s != "" {
		return s
	}
	return def
}

type valCfg struct {
	V    int
	Top  string // "D" default validator, "T1"/"T2" validator of that topic, "-" not registered at the start
	Inl  bool
	Thr  int
	Tmo  int // ms, 0 = none
	Deaf bool
}

type gate struct {
	ch      chan struct{}
	open    bool
	waiting int
	verdict int
}

type drv struct {
	w     *world.World
	mu    sync.Mutex
	g     int
	evs   []M
	gts   map[string]*gate
	blk   map[string]chan struct{}
	done  chan struct{}
	vals  map[int]valCfg
	vimpl map[int]reflect.Value // validator number -> *validatorImpl of its registration
	tv    int                   // verdict a validator that honours its context returns when the context ends
	wg    sync.WaitGroup
	park  chan struct{}
}

func msgName(data []byte) string {
	for i, b := range data {
		if b == '|' {
			return string(data[:i])
		}
	}
	return "?"
}

func (d *drv) log(ev M) {
	d.mu.Lock()
	d.g++
	ev["g"] = d.g
	ev["t"] = hnet.NowMs()
	d.evs = append(d.evs, ev)
	d.mu.Unlock()
}

func mkev(k, m string) M {
	tp := topicOf(m)
	if strings.HasPrefix(m, "b") {
		tp = "B" // a blocker
	}
	return M{"k": k, "m": m, "tp": tp, "p": "", "why": "", "v": 0, "r": -1, "loc": false, "dl": -1, "how": "", "s": 0}
}

func (d *drv) gate(v int, m string, loc bool) *gate {
	k := vh.Sprintf("%d/%s/%v", v, m, loc)
	d.mu.Lock()
	defer d.mu.Unlock()
	g := d.gts[k]
	if g == nil {
		g = &gate{ch: make(chan struct{}), verdict: 2}
		d.gts[k] = g
	}
	return g
}

// validator builds harness validator number v.
func (d *drv) validator(v int) pubsub.ValidatorEx {
	return func(ctx context.Context, src peer.ID, msg *pubsub.Message) pubsub.ValidationResult {
		name := msgName(msg.GetData())
		local := d.w != nil && src == d.w.H.ID()
		if d.w != nil && msg.ID != "" {
			d.w.Names.MsgFromData(msg.ID, msg.GetData())
		}
		g := d.gate(v, name, local)
		dl := -1
		if t, ok := ctx.Deadline(); ok {
			dl = int(time.Until(t).Milliseconds())
		}
		e := mkev("Enter", name)
		e["v"], e["loc"], e["dl"] = v, local, dl
		d.mu.Lock()
		g.waiting++
		d.mu.Unlock()
		d.log(e)
		defer func() {
			d.mu.Lock()
			g.waiting--
			d.mu.Unlock()
		}()
		ret := func(r int, how string) pubsub.ValidationResult {
			x := mkev("Exit", name)
			x["v"], x["loc"], x["r"], x["how"] = v, local, r, how
			d.log(x)
			return pubsub.ValidationResult(r)
		}
		deaf := d.vals[v].Deaf
		ctxDone := ctx.Done()
		for {
			select {
			case <-g.ch:
				d.mu.Lock()
				r := g.verdict
				d.mu.Unlock()
				return ret(r, "gate")
			case <-ctxDone:
				select {
				case <-d.done: // the scenario is over: not an observation
					return pubsub.ValidationIgnore
				default:
				}
				how := "cancel"
				if ctx.Err() == context.DeadlineExceeded {
					how = "deadline"
				}
				c := mkev("Ctx", name)
				c["v"], c["loc"], c["how"] = v, local, how
				d.log(c)
				if !deaf {
					return ret(d.tv, how)
				}
				ctxDone = nil // a validator that does not watch its context: only the gate ends it
			case <-d.done:
				return pubsub.ValidationIgnore
			}
		}
	}
}

func payload(name string) []byte {
	data := []byte(name + "|")
	for len(data) < 16 {
		data = append(data, '.')
	}
	return data
}

func marker(s string) {
	if p := os.Getenv("VERIF_MARKER"); p != "" {
		os.WriteFile(p, []byte(s), 0o644)
	}
}

func whyOf(reason string) string {
	switch reason {
	case pubsub.RejectValidationQueueFull:
		return "Q"
	case pubsub.RejectValidationThrottled:
		return "T"
	case pubsub.RejectValidationFailed:
		return "R"
	case pubsub.RejectValidationIgnored:
		return "I"
	case pubsub.RejectInvalidSignature:
		return "S"
	}
	return "X:" + reason
}

// hook turns the recorder's tracer events into entries of the ordered event list; a blocker
// (message b*, invalid signature) parks the worker inside the tracer callback that reports it.
func (d *drv) hook(ev M) {
	k, _ := ev["k"].(string)
	name, _ := ev["m"].(string)
	if id, ok := ev["_id"].(string); ok {
		name = d.w.Names.M(id) // event-tracer events of locally published messages
	}
	self, _ := ev["self"].(bool)
	via, _ := ev["via"].(string)
	switch k {
	case "Recv":
		p, _ := ev["p"].(string)
		if rpc, ok := ev["rpc"].(M); ok {
			if ms, ok := rpc["msgs"].([]any); ok {
				for _, x := range ms {
					if mm, ok := x.(M); ok {
						e := mkev("Arr", mm["m"].(string))
						e["p"] = p
						d.log(e)
					}
				}
			}
		}
	case "Validate":
		e := mkev("Val", name)
		e["p"] = via
		d.log(e)
	case "Duplicate":
		e := mkev("Dup", name)
		e["p"] = via
		d.log(e)
	case "Deliver":
		e := mkev("Dlv", name)
		e["p"], e["loc"] = via, self
		d.log(e)
	case "Reject":
		reason, _ := ev["reason"].(string)
		e := mkev("Rej", name)
		e["p"], e["why"], e["loc"] = via, whyOf(reason), self
		d.log(e)
		if whyOf(reason) == "S" {
			d.mu.Lock()
			ch := d.blk[name]
			d.mu.Unlock()
			if ch != nil {
				select {
				case <-ch:
				case <-d.done:
				}
			}
		}
	}
}

// ---------------------------------------------------------------- observations of the real pipeline

type pipeRefl struct {
	q, g reflect.Value // validateQ, validateThrottle
	tv   reflect.Value // topicVals
	dv   reflect.Value // defaultVals
	nw   reflect.Value // validateWorkers
}

func reflPipe(ps *pubsub.PubSub) pipeRefl {
	val := reflect.ValueOf(ps).Elem().FieldByName("val").Elem()
	return pipeRefl{q: val.FieldByName("validateQ"), g: val.FieldByName("validateThrottle"), tv: val.FieldByName("topicVals"),
		dv: val.FieldByName("defaultVals"), nw: val.FieldByName("validateWorkers")}
}

// goroutines of THIS scenario (goroutines left behind by earlier scenarios stay in their dead bubble) that sit in the
// named library functions
var stale = map[string]bool{}

func libGoroutines() (workers, jobs int, ids []string) {
	buf := make([]byte, 1<<20)
	for {
		n := runtime.Stack(buf, true)
		if n < len(buf) {
			buf = buf[:n]
			break
		}
		buf = make([]byte, 2*len(buf))
	}
	for _, blk := range strings.Split(string(buf), "\n\n") {
		if !strings.HasPrefix(blk, "goroutine ") {
			continue
		}
		sp := strings.IndexByte(blk[10:], ' ')
		if sp < 0 {
			continue
		}
		id := blk[10 : 10+sp]
		if stale[id] {
			continue
		}
		isW := strings.Contains(blk, "(*validation).validateWorker")
		isJ := strings.Contains(blk, "(*validation).doValidateTopic")
		if isJ {
			jobs++
		} else if isW {
			workers++
		}
		if isW || isJ || strings.Contains(blk, "go-libp2p-pubsub") {
			ids = append(ids, id)
		}
	}
	return
}

func (d *drv) observe(pr pipeRefl, nv int, parked bool) M {
	x := M{"q": pr.q.Len(), "g": pr.g.Len(), "parked": parked}
	vt := make([]int, nv)
	for v := 1; v <= nv; v++ {
		vt[v-1] = -1
		if pv, ok := d.vimpl[v]; ok {
			vt[v-1] = pv.Elem().FieldByName("validateThrottle").Len()
		}
	}
	x["vt"] = vt
	wk, jobs, _ := libGoroutines()
	x["wk"], x["jobs"] = wk, jobs
	// does the event loop still answer?  (VerifSnapshot is evaluated inside the loop; it also yields the score counters)
	pen := []M{}
	ping := false
	if !parked {
		ch := make(chan *pubsub.VerifState, 1)
		go func() { ch <- d.w.RawSnap() }()
		synctest.Wait()
		select {
		case st := <-ch:
			ping = st != nil
			if st != nil && st.GS != nil && st.GS.Score != nil {
				names := d.w.PeerNames()
				sort.Strings(names)
				for _, n := range names {
					if ps, ok := st.GS.Score.Peers[d.w.Fakes[n].ID()]; ok && n != "pb" {
						pen = append(pen, M{"p": n, "n": int(ps.Topics[topic1].InvalidMessageDeliveries + ps.Topics[topic2].InvalidMessageDeliveries)})
					}
				}
			}
		default:
		}
	}
	x["ping"], x["pen"] = ping, pen
	return x
}

// ---------------------------------------------------------------- one scenario

func runScenario(t *testing.T, out *vh.Out, idx int, s scenario) {
	func() {
		// a library goroutine that never ends (event loop blocked for good) keeps the bubble from draining: synctest
		// reports that as a panic on this goroutine AFTER the scenario's lines were written
		defer func() {
			if e := recover(); e != nil {
				if !strings.Contains(vh.Sprintf("%v", e), "deadlock") {
					panic(e)
				}
			}
		}()
		synctest.Test(t, func(t *testing.T) { play(t, out, idx, s) })
	}()
	_, _, ids := libGoroutines()
	for _, id := range ids {
		stale[id] = true
	}
}

func play(t *testing.T, out *vh.Out, idx int, s scenario) {
	c := s.Cfg
	qcap, nw, gthr := geti(c, "qcap", 2), geti(c, "nw", 1), geti(c, "gthr", 2)
	router := gets(c, "router", "floodsub")
	d := &drv{gts: map[string]*gate{}, blk: map[string]chan struct{}{}, done: make(chan struct{}), vals: map[int]valCfg{},
		vimpl: map[int]reflect.Value{}, tv: geti(c, "tv", 2)}
	nv := 0
	var order []int
	if l, ok := c["vals"].([]any); ok {
		for _, x := range l {
			m, _ := x.(map[string]any)
			vc := valCfg{V: geti(m, "v", 0), Top: gets(m, "top", "-"), Inl: getb(m, "inl"), Thr: geti(m, "thr", 1), Tmo: geti(m, "tmo", 0), Deaf: getb(m, "deaf")}
			d.vals[vc.V] = vc
			order = append(order, vc.V)
			if vc.V > nv {
				nv = vc.V
			}
		}
	}
	sort.Ints(order)
	valOpts := func(v int) []pubsub.ValidatorOpt {
		vc := d.vals[v]
		o := []pubsub.ValidatorOpt{pubsub.WithValidatorInline(vc.Inl), pubsub.WithValidatorConcurrency(vc.Thr)}
		if vc.Tmo > 0 {
			o = append(o, pubsub.WithValidatorTimeout(time.Duration(vc.Tmo)*time.Millisecond))
		}
		return o
	}
	opts := []pubsub.Option{pubsub.WithValidateWorkers(nw), pubsub.WithValidateThrottle(gthr), pubsub.WithValidateQueueSize(qcap)}
	ndef := 0
	for _, v := range order {
		if d.vals[v].Top == "D" {
			opts = append(opts, pubsub.WithDefaultValidator(d.validator(v), valOpts(v)...))
			ndef++
		}
	}
	tsp := func() *pubsub.TopicScoreParams {
		return &pubsub.TopicScoreParams{TopicWeight: 1, TimeInMeshQuantum: time.Second,
			InvalidMessageDeliveriesWeight: -1, InvalidMessageDeliveriesDecay: 0.5}
	}
	wc := world.Config{Router: router, Score: true, Hosts: 6, Opts: opts,
		TopicScore: map[string]*pubsub.TopicScoreParams{topic1: tsp(), topic2: tsp()},
		Thresholds: &pubsub.PeerScoreThresholds{GossipThreshold: -1e9, PublishThreshold: -2e9, GraylistThreshold: -3e9,
			AcceptPXThreshold: 1e9, OpportunisticGraftThreshold: 0}}
	w := world.New(t, nullOut(t), idx, wc, M{})
	d.w = w
	w.Rec.Hook = d.hook
	pr := reflPipe(w.NUT)

	step := 0
	parked := false
	aborted := false
	emit := func(act M) {
		step++
		w.Rec.Take() // (memory only: the hook has already copied what matters)
		x := d.observe(pr, nv, parked)
		d.mu.Lock()
		evs := d.evs
		d.evs = nil
		d.mu.Unlock()
		if evs == nil {
			evs = []M{}
		}
		kind, _ := act["a"].(string)
		for _, e := range evs {
			e["s"] = step
		}
		out.Emit(M{"scn": idx, "i": step, "t": hnet.NowMs(), "a": kind, "act": act, "ev": evs, "x": x})
		if !parked && x["ping"] == false {
			aborted = true
		}
	}
	defer func() {
		close(d.done)
		d.mu.Lock()
		for _, ch := range d.blk {
			select {
			case <-ch:
			default:
				close(ch)
			}
		}
		if d.park != nil {
			select {
			case <-d.park:
			default:
				close(d.park)
			}
		}
		d.mu.Unlock()
		hnet.Settle(5 * time.Millisecond)
		w.Close()
		d.wg.Wait()
	}()

	proto := "v11"
	if router == "floodsub" {
		proto = "flood"
	}
	topics := []string{topic1, topic2}
	for _, p := range []string{"p1", "p2", "pb"} {
		w.AddPeer(p, proto, "in", topics)
	}
	handles := map[string]*pubsub.Topic{}
	// register calls go through the event loop; a call that does not come back is reported, not waited for
	register := func(tn string, v int) (string, bool) {
		ch := make(chan error, 1)
		go func() { ch <- w.NUT.RegisterTopicValidator(tn, d.validator(v), valOpts(v)...) }()
		hnet.Settle(2 * time.Millisecond)
		select {
		case err := <-ch:
			if err != nil {
				return err.Error(), true
			}
			if pv := pr.tv.MapIndex(reflect.ValueOf(tn)); pv.IsValid() {
				d.vimpl[v] = pv
			}
			return "", true
		default:
			return "", false
		}
	}
	unregister := func(tn string) (string, bool) {
		ch := make(chan error, 1)
		go func() { ch <- w.NUT.UnregisterTopicValidator(tn) }()
		hnet.Settle(2 * time.Millisecond)
		select {
		case err := <-ch:
			if err != nil {
				return err.Error(), true
			}
			return "", true
		default:
			return "", false
		}
	}
	for _, tn := range topics {
		tp, err := w.NUT.Join(tn)
		if err != nil {
			t.Fatalf("join: %v", err)
		}
		handles[tn] = tp
		for _, v := range order {
			if d.vals[v].Top == tn {
				if es, ok := register(tn, v); es != "" || !ok {
					t.Fatalf("register topic validator %d: %q returned=%v", v, es, ok)
				}
			}
		}
		sub, err := tp.Subscribe()
		if err != nil {
			t.Fatalf("subscribe: %v", err)
		}
		d.wg.Add(1)
		go func() {
			defer d.wg.Done()
			for {
				msg, err := sub.Next(w.Ctx)
				if err != nil {
					return
				}
				if msg.ID != "" {
					w.Names.MsgFromData(msg.ID, msg.GetData())
				}
				d.log(mkev("Dl", msgName(msg.GetData())))
			}
		}()
	}
	// the default validators, in registration order
	k := 0
	for _, v := range order {
		if d.vals[v].Top == "D" {
			d.vimpl[v] = pr.dv.Index(k)
			k++
		}
	}
	hnet.Settle(30 * time.Millisecond)
	// virtual time: stimuli of tick n happen right after base + n*tickMs + 500 ms, an `adv` moves to the next tick
	base := (hnet.NowMs()/1000 + 1) * 1000
	tick := 0
	hnet.AdvanceTo(base + 500)
	d.mu.Lock()
	d.evs = nil
	d.mu.Unlock()

	// the reset line: the configuration and what the node really allocated
	vl := []M{}
	for _, v := range order {
		vc := d.vals[v]
		cp := -1
		if pv, ok := d.vimpl[v]; ok {
			cp = pv.Elem().FieldByName("validateThrottle").Cap()
		}
		vl = append(vl, M{"v": vc.V, "top": vc.Top, "inl": vc.Inl, "thr": vc.Thr, "tmo": vc.Tmo, "deaf": vc.Deaf, "cap": cp})
	}
	wk0, _, _ := libGoroutines()
	out.Emit(M{"scn": idx, "i": 0, "t": hnet.NowMs(), "a": "reset", "name": s.Name,
		"cfg": M{"qcap": qcap, "nw": nw, "gthr": gthr, "nv": nv, "router": router, "tv": d.tv, "vals": vl,
			"sendCap": reflect.ValueOf(w.NUT).Elem().FieldByName("sendMsg").Cap(), "qcapReal": pr.q.Cap(), "gthrReal": pr.g.Cap(), "nwReal": int(pr.nw.Int()), "wk": wk0}})

	settle := func() { hnet.Settle(15 * time.Millisecond) }
	message := func(p, name string) *pb.Message {
		pm := w.Msg(name)
		if pm == nil {
			pm = w.Fakes[p].NewMessage(name, topicOf(name), 16, true)
			if strings.HasPrefix(name, "b") {
				pm.Signature[0] ^= 0xff
			}
			w.RegMsg(name, pm)
		}
		return pm
	}

	for _, a := range s.Acts {
		if aborted {
			break
		}
		kind, _ := a["a"].(string)
		m, _ := a["m"].(string)
		p, _ := a["p"].(string)
		switch kind {
		case "msg":
			w.Fakes[p].Send(hnet.MsgRPC(message(p, m)))
			settle()
			emit(M{"a": "msg", "p": p, "m": m})
		case "burst":
			var list []*pb.Message
			names := []string{}
			if l, ok := a["ms"].([]any); ok {
				for _, x := range l {
					name, _ := x.(string)
					list = append(list, message(p, name))
					names = append(names, name)
				}
			}
			w.Fakes[p].Send(hnet.MsgRPC(list...))
			settle()
			emit(M{"a": "burst", "p": p, "ms": names})
		case "block":
			d.mu.Lock()
			d.blk[m] = make(chan struct{})
			d.mu.Unlock()
			w.Fakes["pb"].Send(hnet.MsgRPC(message("pb", m)))
			settle()
			emit(M{"a": "block", "m": m})
		case "unblock":
			d.mu.Lock()
			if ch := d.blk[m]; ch != nil {
				select {
				case <-ch:
				default:
					close(ch)
				}
			}
			d.mu.Unlock()
			settle()
			emit(M{"a": "unblock", "m": m})
		case "rel":
			v, r := geti(a, "v", 0), geti(a, "r", 0)
			g := d.gate(v, m, getb(a, "loc"))
			d.mu.Lock()
			g.verdict = r
			if !g.open {
				g.open = true
				close(g.ch)
			}
			d.mu.Unlock()
			settle()
			emit(M{"a": "rel", "v": v, "m": m, "r": r})
		case "adv":
			tick++
			hnet.AdvanceTo(base + int64(tick)*tickMs + 500)
			settle()
			emit(M{"a": "adv"})
		case "unreg":
			tn := gets(a, "t", topic1)
			es, ok := unregister(tn)
			settle()
			emit(M{"a": "unreg", "top": tn, "v": 0, "err": es, "ret": ok})
		case "reg":
			tn, v := gets(a, "t", topic1), geti(a, "v", 0)
			es, ok := register(tn, v)
			settle()
			emit(M{"a": "reg", "top": tn, "v": v, "err": es, "ret": ok})
		case "pub":
			d.wg.Add(1)
			go func() {
				defer d.wg.Done()
				err := handles[topicOf(m)].Publish(w.Ctx, payload(m))
				select {
				case <-d.done:
					return
				default:
				}
				e := mkev("PubRet", m)
				if err != nil {
					e["why"] = err.Error()
				}
				d.log(e)
			}()
			settle()
			emit(M{"a": "pub", "m": m})
		case "park":
			// park the event loop inside an evaluation (the technique of the X02 driver)
			d.mu.Lock()
			d.park = make(chan struct{})
			pk := d.park
			d.mu.Unlock()
			in := make(chan struct{})
			go w.NUT.VerifEval(func() { close(in); <-pk })
			<-in
			parked = true
			settle()
			emit(M{"a": "park"})
		case "unpark":
			d.mu.Lock()
			if d.park != nil {
				close(d.park)
				d.park = nil
			}
			d.mu.Unlock()
			parked = false
			settle()
			emit(M{"a": "unpark"})
		default:
			t.Fatalf("unknown action %v", a)
		}
	}
	// drain: whatever is still parked at the end is released with the scenario's drain verdict, so that every
	// validation finishes and is judged
	drainV := geti(c, "drain", 2)
	for round := 0; round < 60 && !aborted; round++ {
		n := 0
		d.mu.Lock()
		if d.park != nil {
			close(d.park)
			d.park = nil
			parked = false
			n++
		}
		for _, g := range d.gts {
			if !g.open && g.waiting > 0 {
				g.open = true
				g.verdict = drainV
				close(g.ch)
				n++
			}
		}
		for _, ch := range d.blk {
			select {
			case <-ch:
			default:
				close(ch)
				n++
			}
		}
		d.mu.Unlock()
		if n == 0 {
			break
		}
		settle()
		emit(M{"a": "drain", "r": drainV})
	}
	if !aborted {
		settle()
		emit(M{"a": "end"})
	} else {
		out.Emit(M{"scn": idx, "i": step + 1, "t": hnet.NowMs(), "a": "abort", "act": M{"a": "abort"}, "ev": []M{}, "x": M{"q": 0, "g": 0, "parked": false, "vt": []int{}, "wk": 0, "jobs": 0, "ping": false, "pen": []M{}}})
	}
}

// nullOut is a sink for the world's own reset line (this driver writes its own lines).
var theNull *vh.Out

func nullOut(t *testing.T) *vh.Out {
	if theNull == nil {
		os.Setenv("VERIF_X10_NULL", os.DevNull)
		theNull = vh.NewOut(t, "VERIF_X10_NULL")
	}
	return theNull
}

// TestX10Replay replays the scenarios of VERIF_IN (VERIF_ONLY=i: only scenario i).
func TestX10Replay(t *testing.T) {
	scns := vh.ReadScenarios[scenario](t, "VERIF_IN")
	out := vh.NewOut(t, "VERIF_OUT")
	only := vh.EnvInt("VERIF_ONLY", -1)
	shard, shards := vh.EnvInt("VERIF_SHARD", 0), vh.EnvInt("VERIF_SHARDS", 1)
	skip := map[int]bool{}
	for _, x := range strings.Split(os.Getenv("VERIF_SKIPIDS"), ",") {
		if n, err := strconv.Atoi(x); err == nil {
			skip[n] = true
		}
	}
	for i, s := range scns {
		if only >= 0 && i != only {
			continue
		}
		if only < 0 && (i%shards != shard || skip[i]) {
			continue
		}
		marker(strconv.Itoa(i))
		runScenario(t, out, i, s)
	}
	marker("done")
}
