// Drivers for the extension family X04 (partial messages extension and the extensions
// handshake), see /verif/spec/partial.
//
// TestX04Obj drives the REAL partialmessages.PartialMessagesExtension alone: a recording router
// stub (SendRPC / MeshPeers / PeerRequestsPartial as the scenario says) and a small application
// over bitmap parts metadata (the real partialmessages/bitmap package), shaped like the
// application of the repository's own tests. Scenarios (spec/partial/PartialExt.tla, GenSpec;
// directed ones from bin/lib/props/x04.py):
//
//	{"id":n,"cfg":{"ttl":GroupTTLByHeatbeat,"limT":..,"limP":..,"eager":bool,"regossip":bool,"sloppy":bool},
//	 "acts":[{"a":"mesh","t":topic,"ps":[peers]}            router stub: MeshPeers(t) := ps
//	         {"a":"req","p":peer,"t":topic,"v":bool}        router stub: PeerRequestsPartial(p,t) := v
//	         {"a":"pub","t":topic,"g":group,"parts":[..],"err":[peers]}
//	                                                         the application publishes the group with its own parts;
//	                                                         for the peers in err it yields a PublishAction with Err
//	         {"a":"rpc","p":peer,"t":topic,"g":group,"hasMeta":bool,"meta":[..],"hasMsg":bool,"apperr":bool}
//	                                                         HandleRPC(p, ..); apperr: OnIncomingRPC returns an error
//	         {"a":"hb"} {"a":"close","p":peer} {"a":"gossip","t":topic,"ps":[peers]}]}
//
// One line per action with everything the extension did: return value, RPCs handed to the router
// (in order), application callbacks with the per-peer state maps they were given, and the
// extension's whole bookkeeping afterwards (VerifX04Snapshot). Go randomises map iteration, so
// every scenario is replayed VERIF_REPS times. The driver never judges; spec/partial/PartialTrace.tla does.
package x04

import (
	"errors"
	"iter"
	"log/slog"
	"io"
	"os"
	"sort"
	"strings"
	"testing"

	"github.com/libp2p/go-libp2p-pubsub/partialmessages"
	"github.com/libp2p/go-libp2p-pubsub/partialmessages/bitmap"
	pb "github.com/libp2p/go-libp2p-pubsub/pb"
	"github.com/libp2p/go-libp2p/core/peer"

	"verifharness/vh"
)

type M = map[string]any

type scenario struct {
	ID   int    `json:"id"`
	Src  string `json:"src"`
	Cfg  M      `json:"cfg"`
	Acts []M    `json:"acts"`
}

func geti(m M, k string, def int) int {
	switch v := m[k].(type) {
	case float64:
		return int(v)
	case int:
		return v
	}
	return def
}
func getb(m M, k string) bool { b, _ := m[k].(bool); return b }
func gets(m M, k string) string {
	s, _ := m[k].(string)
	return s
}
func getl(m M, k string) []string {
	out := []string{}
	if l, ok := m[k].([]any); ok {
		for _, x := range l {
			if s, ok := x.(string); ok {
				out = append(out, s)
			}
		}
	}
	return out
}
func getil(m M, k string) []int {
	out := []int{}
	if l, ok := m[k].([]any); ok {
		for _, x := range l {
			if f, ok := x.(float64); ok {
				out = append(out, int(f))
			}
		}
	}
	return out
}

func marker(i int) {
	if p := os.Getenv("VERIF_MARKER"); p != "" {
		os.WriteFile(p, []byte(vh.Sprintf("%d", i)), 0o644)
	}
}

// ---------------------------------------------------------------------------- the application

// appPeerState is the application's per-peer state (what the extension stores for it).
type appPeerState struct {
	recvd bitmap.Bitmap // parts the peer is known to have (nil: nothing known yet)
	sent  bitmap.Bitmap // the parts metadata we last sent to the peer (nil: never)
}

const nParts = 8

func bm(parts []int) bitmap.Bitmap {
	b := make(bitmap.Bitmap, (nParts+7)/8)
	for _, i := range parts {
		b.Set(i)
	}
	return b
}

func partsOf(b []byte) []int {
	out := []int{}
	for i := 0; i < len(b)*8; i++ {
		if bitmap.Bitmap(b).Get(i) {
			out = append(out, i)
		}
	}
	return out
}

func encodeMsg(parts []int) []byte {
	s := make([]string, len(parts))
	for i, p := range parts {
		s[i] = vh.Sprintf("%d", p)
	}
	return []byte("parts:" + strings.Join(s, ","))
}

func psShape(ps appPeerState) M {
	return M{"hr": ps.recvd != nil, "recvd": partsOf(ps.recvd), "hs": ps.sent != nil, "sent": partsOf(ps.sent)}
}

func statesShape(m map[peer.ID]appPeerState) []any {
	keys := make([]string, 0, len(m))
	for p := range m {
		keys = append(keys, string(p))
	}
	sort.Strings(keys)
	out := []any{}
	for _, k := range keys {
		s := psShape(m[peer.ID(k)])
		s["p"] = k
		out = append(out, s)
	}
	return out
}

// app is the application around one extension object; the same code serves the in-node driver.
type app struct {
	ext      *partialmessages.PartialMessagesExtension[appPeerState]
	eager    bool
	regossip bool
	sloppy   bool
	mine     map[string][]int // topic|group -> own parts
	cb       []any            // callbacks of the current step
	appErr   bool             // the next OnIncomingRPC returns an error
	errPeers map[string]bool  // peers the next publish yields an Err action for
	name     func(peer.ID) string
}

func newApp(cfg M, name func(peer.ID) string) *app {
	a := &app{eager: getb(cfg, "eager"), regossip: getb(cfg, "regossip"), sloppy: getb(cfg, "sloppy"),
		mine: map[string][]int{}, name: name}
	a.ext = &partialmessages.PartialMessagesExtension[appPeerState]{
		Logger:                                 slog.New(slog.NewTextHandler(io.Discard, nil)),
		OnEmitGossip:                           a.onEmitGossip,
		OnIncomingRPC:                          a.onIncomingRPC,
		PeerInitiatedGroupLimitPerTopic:        geti(cfg, "limT", 0),
		PeerInitiatedGroupLimitPerTopicPerPeer: geti(cfg, "limP", 0),
		GroupTTLByHeatbeat:                     geti(cfg, "ttl", 0),
	}
	return a
}

func (a *app) named(m map[peer.ID]appPeerState) []any {
	out := statesShape(m)
	for _, x := range out {
		x.(M)["p"] = a.name(peer.ID(x.(M)["p"].(string)))
	}
	sort.Slice(out, func(i, j int) bool { return out[i].(M)["p"].(string) < out[j].(M)["p"].(string) })
	return out
}

func (a *app) onIncomingRPC(from peer.ID, peerStates map[peer.ID]appPeerState, rpc *pb.PartialMessagesExtension) error {
	a.cb = append(a.cb, M{"k": "in", "from": a.name(from), "t": rpc.GetTopicID(), "g": string(rpc.GroupID), "hasMeta": rpc.PartsMetadata != nil,
		"meta": partsOf(rpc.PartsMetadata), "hasMsg": len(rpc.PartialMessage) > 0, "ps": []any{}, "states": a.named(peerStates)})
	if a.appErr {
		a.appErr = false
		return errors.New("x04: application refuses")
	}
	if rpc.PartsMetadata != nil {
		ps := peerStates[from]
		ps.recvd = bitmap.Merge(ps.recvd, rpc.PartsMetadata)
		peerStates[from] = ps
	}
	return nil
}

func (a *app) onEmitGossip(topic string, groupID []byte, gossipPeers []peer.ID, peerStates map[peer.ID]appPeerState) {
	ps := []any{}
	for _, p := range gossipPeers {
		ps = append(ps, a.name(p))
	}
	a.cb = append(a.cb, M{"k": "gossip", "from": "", "t": topic, "g": string(groupID), "hasMeta": false, "meta": []int{}, "hasMsg": false,
		"ps": ps, "states": a.named(peerStates)})
	if a.regossip {
		if _, ok := a.mine[topic+"|"+string(groupID)]; ok {
			a.ext.PublishPartial(topic, groupID, a.actions(topic, string(groupID)))
		}
	}
}

// actions is the application's PublishActionsFn: to a peer that requests partial messages the parts it
// is not known to have (everything, eagerly, when nothing is known and eager pushing is on), and the
// parts metadata whenever it differs from what was last sent. A sloppy application encodes a partial
// message without asking whether the peer requested one.
func (a *app) actions(topic, group string) partialmessages.PublishActionsFn[appPeerState] {
	mine := a.mine[topic+"|"+group]
	mineB := bm(mine)
	errPeers := a.errPeers
	a.errPeers = nil
	return func(peerStates map[peer.ID]appPeerState, peerRequestsPartial func(peer.ID) bool) iter.Seq2[peer.ID, partialmessages.PublishAction] {
		a.cb = append(a.cb, M{"k": "actions", "from": "", "t": topic, "g": group, "hasMeta": false, "meta": []int{}, "hasMsg": false,
			"ps": []any{}, "states": a.named(peerStates)})
		return func(yield func(peer.ID, partialmessages.PublishAction) bool) {
			for p, ps := range peerStates {
				if errPeers[a.name(p)] {
					// an action that carries an error AND data: nothing of it may be sent
					if !yield(p, partialmessages.PublishAction{Err: errors.New("x04:" + a.name(p)), EncodedPartialMessage: encodeMsg(mine),
						EncodedPartsMetadata: append([]byte(nil), mineB...)}) {
						return
					}
					continue
				}
				var msg []byte
				if a.sloppy || peerRequestsPartial(p) {
					if ps.recvd != nil {
						var miss []int
						for _, i := range mine {
							if !ps.recvd.Get(i) {
								miss = append(miss, i)
							}
						}
						if len(miss) > 0 {
							msg = encodeMsg(miss)
						}
						ps.recvd = bitmap.Merge(ps.recvd, mineB)
					} else if a.eager {
						msg = encodeMsg(mine)
						ps.recvd = append(bitmap.Bitmap(nil), mineB...)
					}
				}
				var meta []byte
				if ps.sent == nil || !sameBits(ps.sent, mineB) {
					meta = append([]byte(nil), mineB...)
					ps.sent = append(bitmap.Bitmap(nil), mineB...)
				}
				peerStates[p] = ps
				if !yield(p, partialmessages.PublishAction{EncodedPartialMessage: msg, EncodedPartsMetadata: meta}) {
					return
				}
			}
		}
	}
}

func sameBits(a, b bitmap.Bitmap) bool {
	if len(a) != len(b) {
		return false
	}
	for i := range a {
		if a[i] != b[i] {
			return false
		}
	}
	return true
}

// snapshot renders the extension's bookkeeping with symbolic peer names.
func (a *app) snapshot() M {
	st := a.ext.VerifX04Snapshot()
	groups := []any{}
	for _, g := range st.Groups {
		by := ""
		if g.InitiatedBy != "" {
			by = a.name(g.InitiatedBy)
		}
		groups = append(groups, M{"t": g.Topic, "g": g.Group, "ttl": g.TTL, "by": by, "ps": a.named(a.ext.VerifPeerStates(g.Topic, g.Group))})
	}
	ctr := []any{}
	for _, c := range st.Counters {
		per := []any{}
		keys := []string{}
		byName := map[string]int{}
		for p, n := range c.PerPeer {
			keys = append(keys, a.name(p))
			byName[a.name(p)] = n
		}
		sort.Strings(keys)
		for _, k := range keys {
			per = append(per, M{"p": k, "n": byName[k]})
		}
		ctr = append(ctr, M{"t": c.Topic, "total": c.Total, "per": per})
	}
	empty := []any{}
	for _, t := range st.EmptyTopics {
		empty = append(empty, t)
	}
	return M{"groups": groups, "empty": empty, "ctr": ctr}
}

func errKind(err error) string {
	if err == nil {
		return ""
	}
	s := err.Error()
	switch {
	case strings.Contains(s, "for this peer"):
		return "peer-limit"
	case strings.Contains(s, "too many peer initiated"):
		return "total-limit"
	case strings.Contains(s, "application refuses"):
		return "app"
	case strings.Contains(s, "x04:"):
		// joined errors of the yielded actions: "x04:p1\nx04:p2"
		var ps []string
		for _, l := range strings.Split(s, "\n") {
			ps = append(ps, strings.TrimPrefix(l, "x04:"))
		}
		sort.Strings(ps)
		return "actions:" + strings.Join(ps, ",")
	}
	return "other:" + s
}

// ---------------------------------------------------------------------------- the router stub

type stubRouter struct {
	mesh map[string][]string
	req  map[string]bool // "p|t"
	sent []any
}

func (r *stubRouter) SendRPC(p peer.ID, rpc *pb.PartialMessagesExtension, urgent bool) {
	r.sent = append(r.sent, M{"p": string(p), "t": rpc.GetTopicID(), "g": string(rpc.GroupID), "hasMsg": len(rpc.PartialMessage) > 0,
		"msg": string(rpc.PartialMessage), "hasMeta": len(rpc.PartsMetadata) > 0, "meta": partsOf(rpc.PartsMetadata), "urgent": urgent})
}

func (r *stubRouter) MeshPeers(topic string) iter.Seq[peer.ID] {
	return func(yield func(peer.ID) bool) {
		for _, p := range r.mesh[topic] {
			if !yield(peer.ID(p)) {
				return
			}
		}
	}
}

func (r *stubRouter) PeerRequestsPartial(p peer.ID, topic string) bool { return r.req[string(p)+"|"+topic] }

// ---------------------------------------------------------------------------- replay

func runObj(t *testing.T, out *vh.Out, s scenario, run int) {
	a := newApp(s.Cfg, func(p peer.ID) string { return string(p) })
	r := &stubRouter{mesh: map[string][]string{}, req: map[string]bool{}}
	if err := a.ext.Init(r); err != nil {
		t.Fatalf("x04: Init: %v", err)
	}
	st0 := a.ext.VerifX04Snapshot()
	ttl := st0.GroupTTL
	if ttl < 3 {
		ttl = 3 // minGroupTTL
	}
	out.Emit(M{"e": "reset", "scn": run, "id": s.ID, "cfg": M{"ttl": ttl, "limT": st0.LimitTopic, "limP": st0.LimitPeer,
		"eager": a.eager, "regossip": a.regossip, "sloppy": a.sloppy}})
	for i, act := range s.Acts {
		a.cb, r.sent = nil, nil
		ret := ""
		switch gets(act, "a") {
		case "mesh":
			r.mesh[gets(act, "t")] = getl(act, "ps")
		case "req":
			r.req[gets(act, "p")+"|"+gets(act, "t")] = getb(act, "v")
		case "pub":
			tp, g := gets(act, "t"), gets(act, "g")
			a.mine[tp+"|"+g] = getil(act, "parts")
			a.errPeers = map[string]bool{}
			for _, p := range getl(act, "err") {
				a.errPeers[p] = true
			}
			ret = errKind(a.ext.PublishPartial(tp, []byte(g), a.actions(tp, g)))
		case "rpc":
			tp := gets(act, "t")
			rpc := &pb.PartialMessagesExtension{TopicID: &tp, GroupID: []byte(gets(act, "g"))}
			if getb(act, "hasMeta") {
				rpc.PartsMetadata = bm(getil(act, "meta"))
			}
			if getb(act, "hasMsg") {
				rpc.PartialMessage = []byte("payload")
			}
			a.appErr = getb(act, "apperr")
			ret = errKind(a.ext.HandleRPC(peer.ID(gets(act, "p")), rpc))
			a.appErr = false
		case "hb":
			a.ext.Heartbeat()
		case "close":
			a.ext.OnClosedOutboundStream(peer.ID(gets(act, "p")))
		case "gossip":
			var ps []peer.ID
			for _, p := range getl(act, "ps") {
				ps = append(ps, peer.ID(p))
			}
			a.ext.EmitGossip(gets(act, "t"), ps)
		default:
			t.Fatalf("x04: unknown action %v", act)
		}
		sent, cb := r.sent, a.cb
		if sent == nil {
			sent = []any{}
		}
		if cb == nil {
			cb = []any{}
		}
		out.Emit(M{"e": "step", "scn": run, "i": i + 1, "act": act, "ret": ret, "sent": sent, "cb": cb, "st": a.snapshot()})
	}
	out.Emit(M{"e": "end", "scn": run})
}

func TestX04Obj(t *testing.T) {
	scns := vh.ReadScenarios[scenario](t, "VERIF_IN")
	out := vh.NewOut(t, "VERIF_OUT")
	reps := vh.EnvInt("VERIF_REPS", 2)
	n := 0
	for _, s := range scns {
		for k := 0; k < reps; k++ {
			marker(n)
			runObj(t, out, s, n)
			n++
		}
	}
}
