// TestX04Node replays in-node scenarios of the extension family X04 on one REAL gossipsub node built by
// harness/world, with wire-level fake peers that speak (or do not speak) the extensions handshake and
// the partial-messages extension. The node carries the application of obj_test.go around a real
// PartialMessagesExtension (cfg partial), optionally the test extension (cfg test), peer scoring (the
// misbehaviour report is a behaviour penalty), flood publishing.
//
// Scenario: {"id","cfg":{"partial":bool,"test":bool,"flood":bool,"ttl","limT","limP","eager","regossip","sloppy",
//
//	"topics":{"t1":"req"|"sup"|"none"}},"acts":[world actions and ...]}
//
//	{"a":"x","p":peer,"ext":{"present":bool,"partial":bool,"test":bool},"subs":[{"t","sub","req","sup"}],
//	 "part":{"present":bool,"t","g","hasMeta","meta":[..],"hasMsg"},"testx":bool,"graft":[topics]}
//	        the fake peer writes ONE RPC with exactly these parts on its stream to the node
//	{"a":"ppub","t":topic,"g":group,"parts":[..]}     the application calls pubsub.PublishPartial
//	{"a":"peer",...}  world's action; give subs [] so that the peer's first RPC is the scenario's
//	{"a":"hold","p":peer} / {"a":"release","p":peer}  the node's next NewStream to the peer blocks / proceeds
//
// Every step line carries
//
//	"x":{"ext":{"my":{"partial","test"},"peer":[{"p","partial","test"}],"sent":[peers],"hasPM":bool},
//	     "pm":{"groups":[..],"empty":[..],"ctr":[..]}   (the extension's bookkeeping, as in TestX04Obj; absent groups when no extension)
//	     "cb":[application callbacks since the previous line], "testrecv":[peers whose TestExtension RPC was delivered],
//	     "ret":"" | error kind of ppub}
//
// The driver never judges; spec/partial/PartialNodeTrace.tla does.
package x04

import (
	"strings"
	"sync"
	"testing"
	"testing/synctest"
	"time"

	pubsub "github.com/libp2p/go-libp2p-pubsub"
	pb "github.com/libp2p/go-libp2p-pubsub/pb"
	"github.com/libp2p/go-libp2p/core/peer"

	"verifharness/hnet"
	"verifharness/vh"
	"verifharness/world"
)

type nodeDrv struct {
	t        *testing.T
	w        *world.World
	app      *app
	partial  bool
	mu       sync.Mutex
	testRecv []string
	ret      string
}

func getm(m M, k string) M {
	x, _ := m[k].(map[string]any)
	return x
}

func (d *nodeDrv) extra(w *world.World, line M) {
	x := M{"ret": d.ret}
	d.ret = ""
	ext := M{"my": M{"partial": false, "test": false}, "peer": []any{}, "sent": []any{}, "hasPM": false}
	pm := M{"groups": []any{}, "empty": []any{}, "ctr": []any{}}
	cb := []any{}
	es := (*pubsub.VerifExtState)(nil)
	// one visit of the event loop: the handshake state, the extension's bookkeeping and the callbacks so far
	w.NUT.VerifEval(func() {
		es = w.NUT.VerifExtensionsInLoop()
		if d.partial {
			pm = d.app.snapshot()
			cb = d.app.cb
			d.app.cb = nil
		}
	})
	if es != nil {
		peers := []any{}
		for _, name := range w.PeerNames() {
			if e, ok := es.Peer[w.Fakes[name].ID()]; ok {
				peers = append(peers, M{"p": name, "partial": e.PartialMessages, "test": e.TestExtension})
			}
		}
		for id, e := range es.Peer {
			if n := w.Names.P(id); w.Fakes[n] == nil {
				peers = append(peers, M{"p": n, "partial": e.PartialMessages, "test": e.TestExtension})
			}
		}
		ext = M{"my": M{"partial": es.My.PartialMessages, "test": es.My.TestExtension}, "peer": peers, "sent": w.Names.Ps(es.Sent),
			"hasPM": es.HasPartialExtension}
	}
	if cb == nil {
		cb = []any{}
	}
	d.mu.Lock()
	tr := d.testRecv
	d.testRecv = nil
	d.mu.Unlock()
	if tr == nil {
		tr = []string{}
	}
	x["ext"], x["pm"], x["cb"], x["testrecv"] = ext, pm, cb, tr
	line["x"] = x
}

func buildRPC(a M) *pb.RPC {
	rpc := &pb.RPC{}
	if e := getm(a, "ext"); e != nil && getb(e, "present") {
		ce := &pb.ControlExtensions{}
		if getb(e, "partial") {
			v := true
			ce.PartialMessages = &v
		}
		if getb(e, "test") {
			v := true
			ce.TestExtension = &v
		}
		rpc.Control = &pb.ControlMessage{Extensions: ce}
	}
	if l, ok := a["subs"].([]any); ok {
		for _, x := range l {
			s, _ := x.(map[string]any)
			if s == nil {
				continue
			}
			t, sub := gets(s, "t"), getb(s, "sub")
			so := &pb.RPC_SubOpts{Topicid: &t, Subscribe: &sub}
			if _, has := s["req"]; has {
				v := getb(s, "req")
				so.RequestsPartial = &v
			}
			if _, has := s["sup"]; has {
				v := getb(s, "sup")
				so.SupportsSendingPartial = &v
			}
			rpc.Subscriptions = append(rpc.Subscriptions, so)
		}
	}
	if p := getm(a, "part"); p != nil && getb(p, "present") {
		t := gets(p, "t")
		pm := &pb.PartialMessagesExtension{TopicID: &t, GroupID: []byte(gets(p, "g"))}
		if getb(p, "hasMeta") {
			pm.PartsMetadata = bm(getil(p, "meta"))
		}
		if getb(p, "hasMsg") {
			pm.PartialMessage = []byte("payload")
		}
		rpc.Partial = pm
	}
	if getb(a, "testx") {
		rpc.TestExtension = &pb.TestExtension{}
	}
	for _, t := range getl(a, "graft") {
		t := t
		if rpc.Control == nil {
			rpc.Control = &pb.ControlMessage{}
		}
		rpc.Control.Graft = append(rpc.Control.Graft, &pb.ControlGraft{TopicID: &t})
	}
	return rpc
}

func (d *nodeDrv) do(a M) {
	w := d.w
	switch gets(a, "a") {
	case "x":
		w.Guard()
		f := w.Fakes[gets(a, "p")]
		if f == nil {
			d.t.Fatalf("x04: unknown peer in %v", a)
		}
		if err := f.Send(buildRPC(a)); err != nil {
			a["sendErr"] = err.Error()
		}
		hnet.Settle(15 * time.Millisecond)
		w.Emit(a)
	case "ppub":
		w.Guard()
		tp, g := gets(a, "t"), gets(a, "g")
		if d.partial {
			// the application's own parts are kept inside the event loop's reach only
			w.NUT.VerifEval(func() { d.app.mine[tp+"|"+g] = getil(a, "parts") })
			d.ret = errKind(pubsub.PublishPartial(w.NUT, tp, []byte(g), d.app.actions(tp, g)))
		} else {
			var none *app = newApp(M{}, func(p peer.ID) string { return w.Names.P(p) })
			err := pubsub.PublishPartial(w.NUT, tp, []byte(g), none.actions(tp, g))
			d.ret = "other"
			if err != nil && strings.Contains(err.Error(), "not enabled") {
				d.ret = "not-enabled"
			}
		}
		hnet.Settle(15 * time.Millisecond)
		w.Emit(a)
	case "hold", "release":
		// hold: the node's next NewStream to the peer blocks (its outbound stream stays down while the connection lives)
		w.Guard()
		if f := w.Fakes[gets(a, "p")]; f != nil {
			if gets(a, "a") == "hold" {
				w.H.HoldOpen(f.ID())
			} else {
				w.H.ReleaseOpen(f.ID())
			}
		}
		hnet.Settle(15 * time.Millisecond)
		w.Emit(a)
	case "down":
		if f := w.Fakes[gets(a, "p")]; f != nil {
			w.H.FailOpen(f.ID(), true)
		}
		if !w.Do(a) {
			d.t.Fatalf("x04: world refused %v", a)
		}
	case "peer":
		if f := w.Fakes[gets(a, "p")]; f != nil {
			w.H.FailOpen(f.ID(), false)
		}
		if !w.Do(a) {
			d.t.Fatalf("x04: world refused %v", a)
		}
	default:
		if !w.Do(a) {
			d.t.Fatalf("x04: unknown action %v", a)
		}
	}
}

func runNode(t *testing.T, out *vh.Out, s scenario) {
	synctest.Test(t, func(t *testing.T) {
		d := &nodeDrv{t: t, partial: getb(s.Cfg, "partial")}
		cfg := world.Config{Hosts: 2 + geti(s.Cfg, "npeers", 4), Score: true, PenWeight: 0, FloodPublish: getb(s.Cfg, "flood")}
		var names *hnet.Names
		d.app = newApp(s.Cfg, func(p peer.ID) string {
			if names == nil {
				return string(p)
			}
			return names.P(p)
		})
		if d.partial {
			cfg.Opts = append(cfg.Opts, pubsub.WithPartialMessagesExtension(d.app.ext))
		}
		if getb(s.Cfg, "test") {
			cfg.Opts = append(cfg.Opts, pubsub.WithTestExtension(pubsub.TestExtensionConfig{OnReceiveTestExtension: func(p peer.ID) {
				d.mu.Lock()
				d.testRecv = append(d.testRecv, names.P(p))
				d.mu.Unlock()
			}}))
		}
		modes := getm(s.Cfg, "topics")
		cfg.TopicOpts = func(topic string) []pubsub.TopicOpt {
			switch gets(modes, topic) {
			case "req":
				return []pubsub.TopicOpt{pubsub.RequestPartialMessages()}
			case "sup":
				return []pubsub.TopicOpt{pubsub.SupportsPartialMessages()}
			}
			return nil
		}
		cfg.PreNUT = func(w *world.World) { names = w.Names }
		reset := M{"x04": true, "partial": d.partial, "test": getb(s.Cfg, "test"), "flood": cfg.FloodPublish,
			"ttl": max(geti(s.Cfg, "ttl", 0), 3), "limT": geti(s.Cfg, "limT", 255), "limP": geti(s.Cfg, "limP", 8),
			"eager": d.app.eager, "regossip": d.app.regossip, "sloppy": d.app.sloppy, "topics": modes}
		w := world.New(t, out, s.ID, cfg, reset)
		d.w = w
		w.Extra = d.extra
		defer w.Close()
		hnet.Settle(10 * time.Millisecond)
		for _, a := range s.Acts {
			d.do(a)
		}
		hnet.Settle(15 * time.Millisecond)
		w.Emit(M{"a": "end", "fin": true})
	})
}

// TestX04Node replays the scenarios of VERIF_IN (VERIF_ONLY: a single scenario id).
func TestX04Node(t *testing.T) {
	scns := vh.ReadScenarios[scenario](t, "VERIF_IN")
	out := vh.NewOut(t, "VERIF_OUT")
	only := vh.EnvInt("VERIF_ONLY", -1)
	for _, s := range scns {
		if only >= 0 && s.ID != only {
			continue
		}
		marker(s.ID)
		runNode(t, out, s)
	}
}
