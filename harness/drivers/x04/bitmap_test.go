// TestX04Bitmap records what the REAL partialmessages/bitmap package computes (Merge - the parts-metadata merge the
// applications of the repository's tests and of this driver rely on - Set, Clear, Get, OnesCount, IsZero) for all pairs /
// indices over a small family of bitmaps of 0..2 bytes. One line per call; spec/partial/BitmapTrace.tla judges them
// against set union / insertion / removal.
package x04

import (
	"testing"

	"github.com/libp2p/go-libp2p-pubsub/partialmessages/bitmap"

	"verifharness/vh"
)

func bitsOf(b bitmap.Bitmap) []int { return partsOf(b) }

func TestX04Bitmap(t *testing.T) {
	out := vh.NewOut(t, "VERIF_OUT")
	bytesOf := []byte{0x00, 0x01, 0x80, 0xA5, 0xFF}
	var fam []bitmap.Bitmap
	fam = append(fam, bitmap.Bitmap{})
	for _, x := range bytesOf {
		fam = append(fam, bitmap.Bitmap{x})
		for _, y := range bytesOf {
			fam = append(fam, bitmap.Bitmap{x, y})
		}
	}
	clone := func(b bitmap.Bitmap) bitmap.Bitmap { return append(bitmap.Bitmap{}, b...) }
	n := 0
	out.Emit(M{"e": "reset", "scn": 0, "i": 0})
	for _, a0 := range fam {
		for _, b0 := range fam {
			a, b := clone(a0), clone(b0)
			m := bitmap.Merge(a, b)
			n++
			out.Emit(M{"e": "merge", "scn": 0, "i": n, "a": bitsOf(a0), "la": len(a0), "b": bitsOf(b0), "lb": len(b0), "out": bitsOf(m), "lo": len(m),
				"aAfter": bitsOf(a), "bAfter": bitsOf(b), "idx": 0, "get": false, "ones": m.OnesCount(), "zero": m.IsZero()})
		}
		for _, idx := range []int{0, 3, 7, 8, 15, 16, 23} {
			a := clone(a0)
			a.Set(idx)
			n++
			out.Emit(M{"e": "set", "scn": 0, "i": n, "a": bitsOf(a0), "la": len(a0), "b": []int{}, "lb": 0, "out": bitsOf(a), "lo": len(a),
				"aAfter": bitsOf(a), "bAfter": []int{}, "idx": idx, "get": a.Get(idx), "ones": a.OnesCount(), "zero": a.IsZero()})
			c := clone(a0)
			c.Clear(idx)
			n++
			out.Emit(M{"e": "clear", "scn": 0, "i": n, "a": bitsOf(a0), "la": len(a0), "b": []int{}, "lb": 0, "out": bitsOf(c), "lo": len(c),
				"aAfter": bitsOf(c), "bAfter": []int{}, "idx": idx, "get": c.Get(idx), "ones": c.OnesCount(), "zero": c.IsZero()})
		}
	}
}
