// X02 drivers: dead-peer handling and reconnect backoff (spec/deadpeer).
//
// TestX02Pure replays TLC-generated operation histories on the REAL backoff object
// (pubsub.VerifNewBackoff = newBackoff, cleanup-loop goroutine included) under virtual time and
// records what every call returned and which peers the object still remembers.
//
// TestX02Node replays TLC-generated stimulus sequences on ONE real node (floodsub / gossipsub /
// randomsub) with wire-level fake peers: connections, resets of the node's outbound stream,
// failing / held NewStream, disconnects from either side, duplicate connections, and a parked
// event loop (to put a peer in newPeersPend and peerDeadPend in the same loop turn).  It records
// the router notifications (Up/Down, RawTracer, inside the event loop), every NewStream attempt
// of the node with its virtual time and the backoff history of the peer at that instant, and after
// each step a snapshot: p.peers (queue identities), the backoff object, the pending sets, live
// outbound streams seen by the fake peers, connections, and the node's writer / dead-stream-watcher /
// opener goroutines.  Drivers never judge: BackoffTrace.tla / DeadPeerTrace.tla do.
package x02

import (
	"context"
	"os"
	"runtime"
	"sort"
	"strings"
	"sync"
	"testing"
	"testing/synctest"
	"time"

	pubsub "github.com/libp2p/go-libp2p-pubsub"
	"github.com/libp2p/go-libp2p/core/network"
	"github.com/libp2p/go-libp2p/core/peer"
	"github.com/libp2p/go-libp2p/core/protocol"

	"verifharness/hnet"
	"verifharness/rec"
	"verifharness/vh"
	"verifharness/world"
)

type M = map[string]any

func marker(i int) {
	if p := os.Getenv("VERIF_MARKER"); p != "" {
		os.WriteFile(p, []byte(vh.Sprintf("%d", i)), 0o644)
	}
}

func shard(i int) bool {
	if only := vh.EnvInt("VERIF_ONLY", -1); only >= 0 {
		return i == only
	}
	n := vh.EnvInt("VERIF_SHARDS", 1)
	return n <= 1 || i%n == vh.EnvInt("VERIF_SHARD", 0)
}

// ---------------------------------------------------------------------------
// level 1: the backoff object

type pureOp struct {
	A  string `json:"a"` // get | cleanup | adv
	P  string `json:"p"`
	Ms int64  `json:"ms"`
}

type pureScn struct {
	ID   int      `json:"id"`
	Max  int      `json:"max"`  // maxAttempts handed to newBackoff
	Loop bool     `json:"loop"` // true: the real cleanup interval (the loop goroutine cleans); false: only explicit cleanup
	Ops  []pureOp `json:"ops"`
}

func msOf(t time.Time) int64 { return t.Sub(hnet.Epoch).Milliseconds() }

func TestX02Pure(t *testing.T) {
	scns := vh.ReadScenarios[pureScn](t, "VERIF_IN")
	out := vh.NewOut(t, "VERIF_OUT")
	c := pubsub.VerifBackoffConstants()
	for i, s := range scns {
		if !shard(i) {
			continue
		}
		marker(i)
		synctest.Test(t, func(t *testing.T) {
			ctx, cancel := context.WithCancel(context.Background())
			ci := 1000000 * time.Hour / 1000 // never within a scenario
			if s.Loop {
				ci = c.CleanupInterval
			}
			b := pubsub.VerifNewBackoff(ctx, 1000, ci, s.Max)
			// keep every later instant off the cleanup ticker's grid
			time.Sleep(500 * time.Millisecond)
			synctest.Wait()
			ids := map[string]peer.ID{"p1": peer.ID("x02-peer-1"), "p2": peer.ID("x02-peer-2"), "p3": peer.ID("x02-peer-3")}
			names := map[peer.ID]string{}
			for n, id := range ids {
				names[id] = n
			}
			keys := func() []string {
				l := []string{}
				for _, id := range b.VerifKeys() {
					l = append(l, names[id])
				}
				sort.Strings(l)
				return l
			}
			out.Emit(M{"e": "reset", "scn": s.ID, "max": s.Max, "loop": s.Loop, "t": hnet.NowMs(), "p": "", "ok": true, "d": 0, "rem": 0, "ms": 0, "keys": keys(),
				"c": M{"min": c.MinDelay.Milliseconds(), "maxd": c.MaxDelay.Milliseconds(), "ttl": c.TTL.Milliseconds(), "ci": c.CleanupInterval.Milliseconds(),
					"mult": c.Multiplier, "jit": c.JitterCoff, "natt": c.MaxAttempts}})
			for _, o := range s.Ops {
				line := M{"e": o.A, "scn": s.ID, "p": o.P, "ok": true, "d": 0, "rem": 0, "ms": o.Ms}
				switch o.A {
				case "get":
					d, err := b.VerifUpdateAndGet(ids[o.P])
					line["ok"] = err == nil
					line["d"] = d.Milliseconds()
					line["rem"] = int64(d % time.Millisecond)
				case "cleanup":
					b.VerifCleanup()
				case "adv":
					time.Sleep(time.Duration(o.Ms) * time.Millisecond)
					synctest.Wait()
				default:
					t.Fatalf("x02: unknown pure op %q", o.A)
				}
				line["t"] = hnet.NowMs()
				line["keys"] = keys()
				out.Emit(line)
			}
			cancel()
			synctest.Wait()
		})
	}
}

// ---------------------------------------------------------------------------
// level 2: one real node

type nodeScn struct {
	ID     int    `json:"id"`
	Router string `json:"router"`
	Class  string `json:"class"`
	Acts   []M    `json:"acts"`
}

func gets(m M, k string) string { s, _ := m[k].(string); return s }
func getb(m M, k string) bool   { b, _ := m[k].(bool); return b }
func geti(m M, k string, def int64) int64 {
	switch v := m[k].(type) {
	case float64:
		return int64(v)
	case int:
		return int64(v)
	case int64:
		return v
	}
	return def
}

// tHost logs every NewStream call of the node (before hnet.WrapHost decides to hold / fail / pass it).
type tHost struct {
	*hnet.WrapHost
	r *run
}

func (h *tHost) NewStream(ctx context.Context, p peer.ID, pids ...protocol.ID) (network.Stream, error) {
	h.r.event(M{"k": "open", "p": h.r.names.P(p)}, p)
	s, err := h.WrapHost.NewStream(ctx, p, pids...)
	if err != nil {
		h.r.event(M{"k": "openfail", "p": h.r.names.P(p)}, p)
	} else {
		h.r.event(M{"k": "opened", "p": h.r.names.P(p)}, p)
	}
	return s, err
}

type run struct {
	t      *testing.T
	s      nodeScn
	net    *hnet.Net
	h      *hnet.WrapHost
	nut    *pubsub.PubSub
	rec    *rec.Recorder
	names  *hnet.Names
	fakes  map[string]*hnet.FakePeer
	peers  []string
	ctx    context.Context
	stop   context.CancelFunc
	mu     sync.Mutex
	evs    []M
	seq    int
	qn     map[string]string
	parked chan struct{}
	step   int
	out    *vh.Out
	failed map[string]bool
	held   map[string]bool
}

func (r *run) boOf(p peer.ID) M {
	info := r.nut.VerifDeadPeerBackoff().VerifInfo()
	if e, ok := info[p]; ok {
		return M{"has": true, "d": e.Duration.Milliseconds(), "rem": int64(e.Duration % time.Millisecond), "att": e.Attempts, "last": msOf(e.LastTried)}
	}
	return M{"has": false, "d": 0, "rem": 0, "att": 0, "last": 0}
}

// event appends to the scenario's ordered event log (called from the event loop through the
// recorder hook, from the node's opener goroutines through tHost, never from the driver itself).
func (r *run) event(ev M, p peer.ID) {
	var bo M
	if r.nut != nil && p != "" {
		bo = r.boOf(p)
	} else {
		bo = M{"has": false, "d": 0, "rem": 0, "att": 0, "last": 0}
	}
	r.mu.Lock()
	r.seq++
	ev["n"] = r.seq
	ev["t"] = hnet.NowMs()
	ev["bo"] = bo
	r.evs = append(r.evs, ev)
	r.mu.Unlock()
}

func (r *run) take() []M {
	r.mu.Lock()
	defer r.mu.Unlock()
	e := r.evs
	r.evs = nil
	if e == nil {
		e = []M{}
	}
	return e
}

func (r *run) proto() string {
	switch r.s.Router {
	case "floodsub":
		return "flood"
	case "randomsub":
		return "random"
	}
	return "v11"
}

func (r *run) fake(name string) *hnet.FakePeer {
	if f, ok := r.fakes[name]; ok {
		return f
	}
	f := hnet.NewFakePeer(r.net.Take(), name, r.proto(), r.h.Host)
	r.names.AddPeer(f.ID(), name)
	r.fakes[name] = f
	// the handler must be known to identify before the first connection
	hnet.Settle(5 * time.Millisecond)
	return f
}

// goroutines counts the node's goroutines by role (one stop-the-world stack dump).
func goroutines() M {
	buf := make([]byte, 1<<20)
	for {
		n := runtime.Stack(buf, true)
		if n < len(buf) {
			buf = buf[:n]
			break
		}
		buf = make([]byte, 2*len(buf))
	}
	w, d, o, b := 0, 0, 0, 0
	for _, g := range strings.Split(string(buf), "\n\n") {
		switch {
		case strings.Contains(g, "(*PubSub).handleSendingMessages"):
			w++
		case strings.Contains(g, "(*PubSub).handlePeerDead"):
			d++
		case strings.Contains(g, "(*PubSub).handleNewPeerWithBackoff") && !strings.Contains(g, "(*PubSub).handleNewPeer("):
			b++ // still waiting for the backoff delay
		case strings.Contains(g, "(*PubSub).handleNewPeer("):
			o++ // inside handleNewPeer (NewStream, or handing the stream / the error to the loop)
		}
	}
	return M{"w": w, "d": d, "o": o, "b": b}
}

func (r *run) qname(ptr string) string {
	if ptr == "" {
		return ""
	}
	if n, ok := r.qn[ptr]; ok {
		return n
	}
	n := vh.Sprintf("q%d", len(r.qn)+1)
	r.qn[ptr] = n
	return n
}

func (r *run) snapshot() M {
	st := M{"ok": false}
	q, closed, rt, bo, alive, conn, pn, pd := M{}, M{}, M{}, M{}, M{}, M{}, M{}, M{}
	var qids map[peer.ID]string
	var vs *pubsub.VerifState
	if r.parked == nil {
		var extra []peer.ID
		for _, f := range r.fakes {
			extra = append(extra, f.ID())
		}
		vs = r.nut.VerifSnapshot(extra...)
		r.nut.VerifEval(func() { qids = r.nut.VerifQueueIDsInLoop() })
		st["ok"] = vs != nil
	}
	newP, deadP := r.nut.VerifPending()
	for _, name := range r.peers {
		q[name], closed[name], rt[name], alive[name], conn[name], pn[name], pd[name] = "", false, false, 0, 0, false, false
		bo[name] = M{"has": false, "d": 0, "rem": 0, "att": 0, "last": 0}
		f, ok := r.fakes[name]
		if !ok {
			continue
		}
		id := f.ID()
		if vs != nil {
			if qs, ok := vs.Peers[id]; ok {
				q[name] = r.qname(qids[id])
				closed[name] = qs.Closed
			}
			switch {
			case vs.GS != nil:
				_, rt[name] = vs.GS.Peers[id]
			case vs.RandomPeers != nil:
				_, rt[name] = vs.RandomPeers[id]
			}
		}
		bo[name] = r.boOf(id)
		alive[name] = f.InboundAlive()
		conn[name] = len(r.h.Network().ConnsToPeer(id))
		for _, x := range newP {
			if x == id {
				pn[name] = true
			}
		}
		for _, x := range deadP {
			if x == id {
				pd[name] = true
			}
		}
	}
	st["q"], st["closed"], st["rt"], st["bo"], st["alive"], st["conn"], st["pn"], st["pd"] = q, closed, rt, bo, alive, conn, pn, pd
	st["hasrt"] = r.s.Router != "floodsub"
	st["g"] = goroutines()
	return st
}

func (r *run) emit(a M) {
	r.step++
	act := M{"a": "", "p": "", "on": false, "ms": 0, "by": "", "made": false}
	for k, v := range a {
		act[k] = v
	}
	r.out.Emit(M{"e": "step", "i": r.step, "scn": r.s.ID, "t": hnet.NowMs(), "act": act, "parked": r.parked != nil, "ev": r.take(), "st": r.snapshot()})
}

const settleShort = 20 * time.Millisecond
const settleConn = 60 * time.Millisecond

// pubsubConn finds the connection that carries the node's outbound pubsub stream to id.
func (r *run) pubsubConn(id peer.ID) network.Conn {
	for _, c := range r.h.Network().ConnsToPeer(id) {
		for _, s := range c.GetStreams() {
			if s.Stat().Direction == network.DirOutbound && (strings.Contains(string(s.Protocol()), "sub/")) {
				return c
			}
		}
	}
	return nil
}

func (r *run) do(a M) {
	name := gets(a, "p")
	var f *hnet.FakePeer
	var id peer.ID
	if name != "" {
		f = r.fake(name)
		id = f.ID()
	}
	switch gets(a, "a") {
	case "conn":
		// a (further) connection; by = "r" the fake peer dials, "n" the node dials
		var err error
		ctx, cancel := context.WithTimeout(context.Background(), 5*time.Second)
		before := len(r.h.Network().ConnsToPeer(id))
		if gets(a, "by") == "n" {
			r.h.Peerstore().AddAddrs(id, f.H.Addrs(), time.Hour)
			_, err = r.h.Network().DialPeer(ctx, id)
		} else {
			r.fakes[name].H.Peerstore().AddAddrs(r.h.ID(), r.h.Addrs(), time.Hour)
			_, err = f.H.Network().DialPeer(ctx, r.h.ID())
		}
		cancel()
		if err != nil {
			r.t.Fatalf("x02: connect %s: %v", name, err)
		}
		hnet.Settle(settleConn)
		// identify only runs (and announces the peer) on a NEW connection
		a = M{"a": "conn", "p": name, "by": gets(a, "by"), "made": before == 0 && len(r.h.Network().ConnsToPeer(id)) > 0}
	case "rst":
		f.ResetIn()
		hnet.Settle(settleShort)
	case "down":
		if gets(a, "by") == "n" {
			r.h.Network().ClosePeer(id)
		} else {
			f.Disconnect()
		}
		hnet.Settle(settleShort)
	case "close1":
		// the node closes the one connection that carries its outbound stream (a duplicate connection goes away)
		if c := r.pubsubConn(id); c != nil {
			c.Close()
		}
		hnet.Settle(settleShort)
	case "fail":
		r.h.FailOpen(id, getb(a, "on"))
		r.failed[name] = getb(a, "on")
	case "hold":
		r.h.HoldOpen(id)
		r.held[name] = true
	case "release":
		r.h.ReleaseOpen(id)
		delete(r.held, name)
		hnet.Settle(settleShort)
	case "adv":
		hnet.Settle(time.Duration(geti(a, "ms", 0)) * time.Millisecond)
	case "park":
		if r.parked == nil {
			ch := make(chan struct{})
			in := make(chan struct{})
			go r.nut.VerifEval(func() { close(in); <-ch })
			<-in
			r.parked = ch
		}
		hnet.Settle(time.Millisecond)
	case "unpark":
		if r.parked != nil {
			close(r.parked)
			r.parked = nil
		}
		hnet.Settle(settleShort)
	case "renotify":
		// identify pushes the new protocol; the node's watcher sees a supported protocol being added
		extra := protocol.ID("/floodsub/1.0.0")
		if r.s.Router != "gossipsub" {
			r.t.Fatalf("x02: renotify needs a router with two protocols")
		}
		f.H.SetStreamHandler(extra, func(s network.Stream) { s.Reset() })
		hnet.Settle(settleConn)
		f.H.RemoveStreamHandler(extra)
		hnet.Settle(settleConn)
	default:
		r.t.Fatalf("x02: unknown action %v", a)
	}
	r.emit(a)
}

func runNode(t *testing.T, out *vh.Out, s nodeScn) {
	synctest.Test(t, func(t *testing.T) {
		r := &run{t: t, s: s, out: out, fakes: map[string]*hnet.FakePeer{}, peers: []string{"p1", "p2"}, names: hnet.NewNames(),
			qn: map[string]string{}, failed: map[string]bool{}, held: map[string]bool{}}
		r.net = hnet.New(t, 3, false)
		r.h = hnet.Wrap(r.net.Take())
		r.names.AddPeer(r.h.ID(), "self")
		r.rec = rec.New(r.names, r.h.ID())
		var hookID = map[string]peer.ID{}
		r.rec.Hook = func(ev M) {
			k, _ := ev["k"].(string)
			if k != "Up" && k != "Down" {
				return
			}
			p, _ := ev["p"].(string)
			r.event(M{"k": k, "p": p}, hookID[p])
		}
		r.ctx, r.stop = context.WithCancel(context.Background())
		th := &tHost{WrapHost: r.h, r: r}
		opts := []pubsub.Option{pubsub.WithRawTracer(r.rec)}
		var err error
		switch s.Router {
		case "floodsub":
			r.nut, err = pubsub.NewFloodSub(r.ctx, th, opts...)
		case "randomsub":
			r.nut, err = pubsub.NewRandomSub(r.ctx, th, 10, opts...)
		default:
			r.nut, err = pubsub.NewGossipSub(r.ctx, th, append(opts, pubsub.WithGossipSubParams(world.SmallParams()))...)
		}
		if err != nil {
			t.Fatalf("x02: cannot build the node: %v", err)
		}
		hnet.Settle(10 * time.Millisecond)
		for _, n := range r.peers {
			hookID[n] = r.fake(n).ID()
		}
		c := pubsub.VerifBackoffConstants()
		out.Emit(M{"e": "reset", "i": 0, "scn": s.ID, "t": hnet.NowMs(), "router": s.Router, "class": s.Class,
			"c": M{"min": c.MinDelay.Milliseconds(), "maxd": c.MaxDelay.Milliseconds(), "ttl": c.TTL.Milliseconds(), "ci": c.CleanupInterval.Milliseconds(),
				"mult": c.Multiplier, "jit": c.JitterCoff, "natt": c.MaxAttempts}})
		r.take()
		for _, a := range s.Acts {
			r.do(a)
		}
		// let everything go: open gates, release holds, stop the node, let uncancellable sleeps run out
		if r.parked != nil {
			close(r.parked)
			r.parked = nil
		}
		for _, f := range r.fakes {
			r.h.ReleaseOpen(f.ID())
			r.h.UngateWrites(f.ID())
		}
		r.stop()
		hnet.Settle(1200 * time.Millisecond)
	})
}

func TestX02Node(t *testing.T) {
	scns := vh.ReadScenarios[nodeScn](t, "VERIF_IN")
	out := vh.NewOut(t, "VERIF_OUT")
	for i, s := range scns {
		if !shard(i) {
			continue
		}
		marker(i)
		runNode(t, out, s)
	}
}
