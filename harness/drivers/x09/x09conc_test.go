// TestX09Conc: the concurrent level of X09. Several goroutines call the Topic / Subscription / validator API of one
// real node at the same time; the overlaps are FORCED by parking the event loop (an eval thunk that blocks) until
// every call of the round is issued and blocked, then releasing it. Call / return lines, the DeliverMessage /
// UndeliverableMessage trace (written from the event loop itself), quiescence lines naming the calls that are still
// blocked, and a final snapshot + the drained subscription buffers are written as NDJSON; spec/topicapi/TopicApiLin.tla
// searches a linearisation. No virtual time here: a goroutine parked on Topic.mux is not "durably blocked" for
// testing/synctest, so quiescence is read off a stop-the-world goroutine dump instead (every goroutine that has a
// frame of the library or of this driver is in a wait state).
package x09

import (
	"context"
	"runtime"
	"strings"
	"sync"
	"sync/atomic"
	"testing"
	"time"

	pubsub "github.com/libp2p/go-libp2p-pubsub"
	"github.com/libp2p/go-libp2p"
	"github.com/libp2p/go-libp2p/core/network"

	"verifharness/hnet"
	"verifharness/vh"
)

// busy counts the goroutines (other than the caller) that run library or driver code and are not waiting.
var dumpBuf = make([]byte, 2<<20)

func busy() int {
	buf := dumpBuf[:runtime.Stack(dumpBuf, true)]
	n := 0
	for i, blk := range strings.Split(string(buf), "\n\n") {
		if i == 0 {
			continue // the caller
		}
		if !strings.Contains(blk, "go-libp2p-pubsub") && !strings.Contains(blk, "drivers/x09") {
			continue
		}
		a, b := strings.IndexByte(blk, '['), strings.IndexByte(blk, ']')
		if a < 0 || b < a {
			continue
		}
		st := blk[a+1 : b]
		if j := strings.IndexByte(st, ','); j >= 0 {
			st = st[:j]
		}
		switch st {
		case "chan receive", "chan send", "select", "select (no cases)", "sync.Mutex.Lock", "sync.RWMutex.RLock", "sync.RWMutex.Lock",
			"sync.Cond.Wait", "sync.WaitGroup.Wait", "semacquire", "IO wait", "sleep", "chan receive (nil chan)", "chan send (nil chan)":
			// parked until somebody else acts
		default:
			// running, runnable, syscall, preempted, GC assist wait, copystack, ...: will go on by itself
			n++
		}
	}
	return n
}

// quiesce waits until cond holds and nothing runs; false = gave up
func quiesce(cond func() bool) bool {
	deadline := time.Now().Add(10 * time.Second)
	for spins := 0; ; spins++ {
		if cond() && busy() == 0 && cond() {
			return true
		}
		if time.Now().After(deadline) {
			return false
		}
		if spins < 50 {
			runtime.Gosched()
		} else {
			time.Sleep(100 * time.Microsecond)
		}
	}
}

type subT = pubsub.Subscription

// abandoned counts the histories of this process in which a call other than Next never returned
var abandoned int

type call struct {
	id     int
	op     M
	done   atomic.Bool
	cancel context.CancelFunc
}

func runConc(t *testing.T, out *vh.Out, n *node, s scenario, rep int) {
	scn := s.ID*100 + rep
	out.Emit(M{"e": "reset", "scn": scn, "src": s.ID, "cfg": s.Cfg})
	n.tr.mu.Lock()
	n.tr.hook = func(k, m, r string) {
		switch k {
		case "Deliver":
			out.Emit(M{"e": "dlv", "scn": scn, "m": m})
		case "Undeliverable":
			out.Emit(M{"e": "undlv", "scn": scn, "m": m})
		}
	}
	n.tr.mu.Unlock()
	id := 0
	// prologue: sequential calls
	for _, o := range s.Pro {
		id++
		out.Emit(M{"e": "call", "scn": scn, "id": id, "g": 0, "op": o})
		res := n.do(o, context.Background())
		out.Emit(M{"e": "ret", "scn": scn, "id": id, "res": res})
	}
	if !quiesce(func() bool { return true }) {
		out.Emit(M{"e": "noquiesce", "scn": scn, "at": "prologue"})
		return
	}
	rounds := 0
	for _, g := range s.G {
		if len(g) > rounds {
			rounds = len(g)
		}
	}
	for r := 0; r < rounds; r++ {
		// park the event loop
		in, gate := make(chan struct{}), make(chan struct{})
		go n.ps.VerifEval(func() { close(in); <-gate })
		select {
		case <-in:
		case <-time.After(20 * time.Second):
			// the event loop does not take requests any more (all calls have returned: it is stuck on its own)
			out.Emit(M{"e": "loopdead", "scn": scn, "at": "park"})
			close(gate)
			abandoned++
			return
		}
		var calls []*call
		var issued atomic.Int32
		var wg sync.WaitGroup
		for gi, g := range s.G {
			if r >= len(g) {
				continue
			}
			id++
			o := M{}
			for k, v := range g[r] {
				o[k] = v
			}
			o["cid"] = id
			ctx, cancel := context.WithCancel(context.Background())
			c := &call{id: id, op: o, cancel: cancel}
			calls = append(calls, c)
			wg.Add(1)
			go func(gi int) {
				defer wg.Done()
				out.Emit(M{"e": "call", "scn": scn, "id": c.id, "g": gi + 1, "op": g[r]})
				issued.Add(1)
				res := n.do(c.op, ctx)
				out.Emit(M{"e": "ret", "scn": scn, "id": c.id, "res": res})
				c.done.Store(true)
			}(gi)
			// issue the calls of a round in script order (the order of the call lines is then the same in every repetition)
			if !quiesce(func() bool { return int(issued.Load()) == len(calls) }) {
				close(gate)
				out.Emit(M{"e": "noquiesce", "scn": scn, "at": "issue"})
				return
			}
		}
		out.Emit(M{"e": "release", "scn": scn, "round": r + 1})
		close(gate)
		if !quiesce(func() bool { return true }) {
			out.Emit(M{"e": "noquiesce", "scn": scn, "at": "release"})
			return
		}
		pendingOther := func() bool {
			for _, c := range calls {
				if !c.done.Load() && gets(c.op, "o") != "next" {
					return true
				}
			}
			return false
		}
		if pendingOther() {
			// a call other than Next looks blocked: before saying so give it real time (the verdict "never returns" must not
			// hinge on the goroutine dump); a call that completes in the grace period only shows that the dump was read too early
			time.Sleep(200 * time.Millisecond)
			quiesce(func() bool { return true })
			if !pendingOther() {
				out.Emit(M{"e": "release", "scn": scn, "round": r + 1, "slow": true})
			}
		}
		blocked := []int{}
		for _, c := range calls {
			if !c.done.Load() {
				blocked = append(blocked, c.id)
			}
		}
		out.Emit(M{"e": "quiet", "scn": scn, "blocked": blocked})
		if pendingOther() {
			// nothing more can be done with this node: stop it (that frees the callers) and say so
			n.stop()
			fin := make(chan struct{})
			go func() { wg.Wait(); close(fin) }()
			select {
			case <-fin:
			case <-time.After(5 * time.Second):
			}
			out.Emit(M{"e": "abandoned", "scn": scn})
			abandoned++
			return
		}
		for _, c := range calls {
			if !c.done.Load() {
				out.Emit(M{"e": "ctx", "scn": scn, "id": c.id})
				c.cancel()
			}
		}
		wg.Wait()
		for _, c := range calls {
			c.cancel()
		}
	}
	// final: snapshot + what every subscription still holds
	if !quiesce(func() bool { return true }) {
		out.Emit(M{"e": "noquiesce", "scn": scn, "at": "final"})
		return
	}
	stCh := make(chan M, 1)
	go func() { stCh <- n.snap() }()
	var st M
	select {
	case st = <-stCh:
	case <-time.After(20 * time.Second):
		out.Emit(M{"e": "loopdead", "scn": scn, "at": "final"})
		abandoned++
		return
	}
	bufs := []any{}
	n.objMu.Lock()
	subs := append([]*subT(nil), n.ss...)
	newSubs := map[int]*subT{}
	for k, v := range n.newSub {
		newSubs[k] = v
	}
	n.objMu.Unlock()
	one := func(key int, isNew bool, sub *subT) {
		got := []string{}
		end := "live"
		for {
			ctx, cancel := context.WithCancel(context.Background())
			done := make(chan string, 1)
			go func() {
				msg, err := sub.Next(ctx)
				if msg == nil && err == nil {
					done <- "\x00nil-without-error"
					return
				}
				if err != nil {
					if ctx.Err() != nil && err == ctx.Err() {
						done <- "\x00blocked"
					} else {
						done <- "\x00" + errClass(err)
					}
					return
				}
				done <- tagOf(n, msg)
			}()
			var r string
			select {
			case r = <-done:
			case <-time.After(0):
				// not at once: wait until the reader is parked, then give up
				quiesce(func() bool { return true })
				select {
				case r = <-done:
				default:
					cancel()
					r = <-done
				}
			}
			cancel()
			if strings.HasPrefix(r, "\x00") {
				if r != "\x00blocked" {
					end = r[1:]
				}
				break
			}
			got = append(got, r)
		}
		bufs = append(bufs, M{"s": key, "new": isNew, "buf": got, "end": end})
	}
	for i, sub := range subs {
		one(i+1, false, sub)
	}
	for k, sub := range newSubs {
		one(k, true, sub)
	}
	out.Emit(M{"e": "final", "scn": scn, "st": st, "bufs": bufs})
}

func TestX09Conc(t *testing.T) {
	scns := vh.ReadScenarios[scenario](t, "VERIF_IN")
	out := vh.NewOut(t, "VERIF_OUT")
	h, err := libp2p.New(libp2p.NoListenAddrs, libp2p.ResourceManager(&network.NullResourceManager{}))
	if err != nil {
		t.Fatal(err)
	}
	defer h.Close()
	names := hnet.NewNames()
	names.AddPeer(h.ID(), "self")
	reps := vh.EnvInt("VERIF_REPS", 3)
	for i, s := range scns {
		if !shard(i) {
			continue
		}
		marker(s.ID)
		for rep := 0; rep < reps; rep++ {
			n := newNode(t, h, s.Cfg, names)
			runConc(t, out, n, s, rep)
			n.stop()
		}
		if abandoned >= 4 {
			out.Emit(M{"e": "giveup", "at": i, "abandoned": abandoned})
			break
		}
	}
}
