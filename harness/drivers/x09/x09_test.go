// Package x09 drives the Topic / Subscription / TopicEventHandler / validator-registration API of ONE real
// PubSub instance (extension family X09, spec/topicapi).
//
// TestX09Seq replays TLC-generated call sequences from one goroutine under testing/synctest: every call runs in
// its own goroutine, the bubble is settled, and the call's result (or the fact that it never returned), the
// tracer events of the step, the validator invocations, what the fake peers received, and a snapshot of
// myTopics / mySubs / myRelays / event handlers / GetTopics are written as one NDJSON line. Drivers never judge;
// spec/topicapi/TopicApiTrace.tla does.
package x09

import (
	"context"
	"encoding/hex"
	"fmt"
	"os"
	"runtime"
	"sort"
	"strings"
	"sync"
	"testing"
	"testing/synctest"
	"time"

	pubsub "github.com/libp2p/go-libp2p-pubsub"
	pb "github.com/libp2p/go-libp2p-pubsub/pb"
	"github.com/libp2p/go-libp2p/core/crypto"
	"github.com/libp2p/go-libp2p/core/host"
	"github.com/libp2p/go-libp2p/core/peer"
	"github.com/libp2p/go-libp2p/core/protocol"

	"verifharness/hnet"
	"verifharness/vh"
)

type M = map[string]any

// U is the topic universe of every scenario (snapshot vectors are aligned with it).
var U = []string{"A", "B"}

type scenario struct {
	ID  int `json:"id"`
	Cfg M   `json:"cfg"`
	Ops []M `json:"ops"`
	// concurrent level
	Pro []M   `json:"pro"`
	G   [][]M `json:"g"`
}

func geti(m M, k string, def int) int {
	switch v := m[k].(type) {
	case float64:
		return int(v)
	case int:
		return v
	}
	return def
}
func gets(m M, k string) string { s, _ := m[k].(string); return s }
func getb(m M, k string) bool   { b, _ := m[k].(bool); return b }

func marker(i int) {
	if p := os.Getenv("VERIF_MARKER"); p != "" {
		os.WriteFile(p, []byte(vh.Sprintf("%d", i)), 0o644)
	}
}

func shard(i int) bool {
	n := vh.EnvInt("VERIF_SHARDS", 1)
	k := vh.EnvInt("VERIF_SHARD", 0)
	if only := vh.EnvInt("VERIF_ONLY", -1); only >= 0 {
		return i == only
	}
	return n <= 1 || i%n == k
}

// ---------------------------------------------------------------------------------------------------------------
// message naming: the payload starts with "<name>|"; the node's message-id function makes the name recoverable from
// the id ("name" mode: id = name, so re-publishing a name is a duplicate; "uniq" mode: id = name/seqno+author, so every
// local publication is new and only re-sent bytes are duplicates). The per-topic override used by join{opt:"K"} yields
// "K!<name>".

func payload(name string) []byte {
	data := []byte(name + "|")
	for len(data) < 16 {
		data = append(data, '.')
	}
	return data
}

func nameOfData(b []byte) string {
	if i := strings.IndexByte(string(b), '|'); i >= 0 {
		return string(b[:i])
	}
	return "?" + hex.EncodeToString(b)
}

func idFn(mode string) pubsub.MsgIdFunction {
	return func(m *pb.Message) string {
		n := nameOfData(m.GetData())
		if mode == "name" {
			return n
		}
		f := m.GetFrom()
		if len(f) > 4 {
			f = f[len(f)-4:]
		}
		return n + "/" + hex.EncodeToString(m.GetSeqno()) + hex.EncodeToString(f)
	}
}

func kFn(m *pb.Message) string { return "K!" + nameOfData(m.GetData()) }

func nameOfID(id string) string {
	if i := strings.IndexByte(id, '/'); i >= 0 {
		return id[:i]
	}
	return id
}

// ---------------------------------------------------------------------------------------------------------------
// tracer: message events from the EventTracer (it sees local and remote messages alike), Undeliverable / Validate /
// Join / Leave / Send / Drop from the RawTracer.

type tracer struct {
	mu    sync.Mutex
	names *hnet.Names
	rawID func(*pb.Message) string
	ev    []any
	snd   []any
	// hook is called (outside mu) for every recorded event, on the goroutine that produced it
	hook func(k, m, r string)
}

func (t *tracer) add(k, m, r string) {
	t.mu.Lock()
	t.ev = append(t.ev, M{"k": k, "m": m, "r": r})
	h := t.hook
	t.mu.Unlock()
	if h != nil {
		h(k, m, r)
	}
}

func (t *tracer) take() (ev, snd []any) {
	t.mu.Lock()
	defer t.mu.Unlock()
	ev, snd = t.ev, t.snd
	t.ev, t.snd = nil, nil
	if ev == nil {
		ev = []any{}
	}
	if snd == nil {
		snd = []any{}
	}
	return
}

func (t *tracer) Trace(evt *pb.TraceEvent) {
	switch evt.GetType() {
	case pb.TraceEvent_PUBLISH_MESSAGE:
		t.add("Publish", nameOfID(string(evt.GetPublishMessage().GetMessageID())), "")
	case pb.TraceEvent_DELIVER_MESSAGE:
		t.add("Deliver", nameOfID(string(evt.GetDeliverMessage().GetMessageID())), "")
	case pb.TraceEvent_REJECT_MESSAGE:
		t.add("Reject", nameOfID(string(evt.GetRejectMessage().GetMessageID())), evt.GetRejectMessage().GetReason())
	case pb.TraceEvent_DUPLICATE_MESSAGE:
		t.add("Duplicate", nameOfID(string(evt.GetDuplicateMessage().GetMessageID())), "")
	}
}

func (t *tracer) msgName(msg *pubsub.Message) string {
	if msg.ID != "" {
		return nameOfID(msg.ID)
	}
	return nameOfData(msg.GetData())
}

func (t *tracer) OnNewOutboundStream(p peer.ID, proto protocol.ID) {}
func (t *tracer) OnClosedOutboundStream(p peer.ID)                {}
func (t *tracer) Join(topic string)                               { t.add("Join", topic, "") }
func (t *tracer) Leave(topic string)                              { t.add("Leave", topic, "") }
func (t *tracer) Graft(p peer.ID, topic string)                   {}
func (t *tracer) Prune(p peer.ID, topic string)                   {}
func (t *tracer) ValidateMessage(msg *pubsub.Message)             { t.add("Validate", t.msgName(msg), "") }
func (t *tracer) DeliverMessage(msg *pubsub.Message)              {}
func (t *tracer) RejectMessage(msg *pubsub.Message, r string)     {}
func (t *tracer) DuplicateMessage(msg *pubsub.Message)            {}
func (t *tracer) ThrottlePeer(p peer.ID)                          {}
func (t *tracer) RecvRPC(rpc *pubsub.RPC)                         {}
func (t *tracer) UndeliverableMessage(msg *pubsub.Message)        { t.add("Undeliverable", t.msgName(msg), "") }
func (t *tracer) rpcMsgs(kind string, rpc *pubsub.RPC, p peer.ID) {
	t.mu.Lock()
	for _, m := range rpc.GetPublish() {
		t.snd = append(t.snd, M{"p": kind + t.names.P(p), "m": t.idName(rpc, m)})
	}
	t.mu.Unlock()
}

// idName is the name under which the node knows the message (its message id), so that a per-topic id function shows
func (t *tracer) idName(rpc *pubsub.RPC, m *pb.Message) string {
	if t.rawID != nil {
		return nameOfID(t.rawID(m))
	}
	return nameOfData(m.GetData())
}

func (t *tracer) SendRPC(rpc *pubsub.RPC, p peer.ID) { t.rpcMsgs("", rpc, p) }
func (t *tracer) DropRPC(rpc *pubsub.RPC, p peer.ID) { t.rpcMsgs("drop:", rpc, p) }

var _ pubsub.RawTracer = (*tracer)(nil)
var _ pubsub.EventTracer = (*tracer)(nil)

// ---------------------------------------------------------------------------------------------------------------
// the node under test and everything the scenario's operations refer to by index

type vcall struct {
	m, where, vd string
	dl           int64
}

type node struct {
	ctx    context.Context
	stop   context.CancelFunc
	ps     *pubsub.PubSub
	h      host.Host
	tr     *tracer
	names  *hnet.Names
	fakes  map[string]*hnet.FakePeer
	msgs   map[string]*pb.Message // remote messages by name
	vkey   crypto.PrivKey
	vpid   peer.ID
	router string

	hs []*pubsub.Topic
	ss []*pubsub.Subscription
	rs []pubsub.RelayCancelFunc
	es []*pubsub.TopicEventHandler

	objMu  sync.Mutex
	newSub map[int]*pubsub.Subscription // concurrent level: subscriptions created by call id

	mu     sync.Mutex
	vc     []vcall
	parked []chan struct{} // blocked validator invocations, oldest first
	polls  int
}

func errClass(err error) string {
	if err == nil {
		return "ok"
	}
	s := err.Error()
	switch {
	case err == pubsub.ErrTopicClosed:
		return "closed"
	case err == pubsub.ErrFanoutOnlyTopic:
		return "fanoutonly"
	case err == pubsub.ErrNilSignKey:
		return "nilkey"
	case err == pubsub.ErrEmptyPeerID:
		return "emptypid"
	case err == pubsub.ErrSubscriptionCancelled:
		return "cancelled"
	case s == "topic already exists":
		return "exists"
	case strings.HasPrefix(s, "cannot close topic"):
		return "outstanding"
	case strings.HasPrefix(s, "duplicate validator"):
		return "duplicate"
	case strings.HasPrefix(s, "no validator for topic"):
		return "absent"
	case strings.HasPrefix(s, "unknown validator type"):
		return "badtype"
	case s == pubsub.RejectValidationFailed:
		return "rejected"
	case s == pubsub.RejectValidationIgnored:
		return "ignored"
	case strings.HasPrefix(s, "invalid topic score parameters"):
		return "invalidparams"
	case s == "pubsub router is not gossipsub":
		return "notgossipsub"
	case s == "peer scoring is not enabled in router":
		return "noscoring"
	case strings.HasPrefix(s, "router is not ready"):
		return "notready"
	}
	return "err:" + s
}

// where tells from which part of the pipeline a validator was invoked (read off the stack): "local" = synchronously
// inside Topic.Publish, "inline" = on the validation worker itself, "async" = on a goroutine spawned for the message.
func where() string {
	buf := make([]byte, 8192)
	s := string(buf[:runtime.Stack(buf, false)])
	switch {
	case strings.Contains(s, ").ValidateLocal("):
		return "local"
	case strings.Contains(s, ").doValidateTopic("):
		return "async"
	case strings.Contains(s, ").validateWorker("):
		return "inline"
	}
	return "other"
}

func (n *node) validator(kind, ty string) any {
	if kind == "bad" {
		return func(m *pubsub.Message) bool { return true }
	}
	ex := func(ctx context.Context, from peer.ID, msg *pubsub.Message) pubsub.ValidationResult {
		c := vcall{m: nameOfData(msg.GetData()), where: where(), dl: -1}
		if d, ok := ctx.Deadline(); ok {
			c.dl = time.Until(d).Milliseconds()
		}
		if s, ok := msg.ValidatorData.(string); ok {
			c.vd = s
		}
		var gate chan struct{}
		n.mu.Lock()
		n.vc = append(n.vc, c)
		if kind == "block" {
			gate = make(chan struct{})
			n.parked = append(n.parked, gate)
		}
		n.mu.Unlock()
		switch kind {
		case "reject":
			return pubsub.ValidationReject
		case "ignore":
			return pubsub.ValidationIgnore
		case "weird":
			return pubsub.ValidationResult(7) // outside the enumeration: documented to count as Ignore
		case "block":
			select {
			case <-gate:
			case <-ctx.Done():
				return pubsub.ValidationIgnore
			}
		}
		return pubsub.ValidationAccept
	}
	// the four function types RegisterTopicValidator accepts
	b := func(ctx context.Context, from peer.ID, msg *pubsub.Message) bool {
		return ex(ctx, from, msg) == pubsub.ValidationAccept
	}
	switch ty {
	case "bool":
		return b
	case "V":
		return pubsub.Validator(b)
	case "Ex":
		return pubsub.ValidatorEx(ex)
	}
	return ex
}

func newNode(t testing.TB, h host.Host, cfg M, names *hnet.Names) *node {
	n := &node{h: h, names: names, fakes: map[string]*hnet.FakePeer{}, msgs: map[string]*pb.Message{}, router: gets(cfg, "router"),
		newSub: map[int]*pubsub.Subscription{}}
	n.tr = &tracer{names: names}
	n.ctx, n.stop = context.WithCancel(context.Background())
	opts := []pubsub.Option{pubsub.WithRawTracer(n.tr), pubsub.WithEventTracer(n.tr), pubsub.WithMessageIdFn(idFn(gets(cfg, "idfn"))),
		pubsub.WithValidateWorkers(1)}
	var err error
	switch n.router {
	case "gossipsub":
		n.ps, err = pubsub.NewGossipSub(n.ctx, h, opts...)
	case "gossipsub-score":
		sp := &pubsub.PeerScoreParams{AppSpecificScore: func(peer.ID) float64 { return 0 }, AppSpecificWeight: 1, DecayInterval: time.Hour,
			DecayToZero: 0.01, Topics: map[string]*pubsub.TopicScoreParams{}}
		th := &pubsub.PeerScoreThresholds{GossipThreshold: -2, PublishThreshold: -4, GraylistThreshold: -6, AcceptPXThreshold: 2, OpportunisticGraftThreshold: 1}
		n.ps, err = pubsub.NewGossipSub(n.ctx, h, append(opts, pubsub.WithPeerScore(sp, th))...)
	default:
		n.ps, err = pubsub.NewFloodSub(n.ctx, h, opts...)
	}
	if err != nil {
		t.Fatalf("x09: cannot build the node: %v", err)
	}
	sk, _, err := crypto.GenerateEd25519Key(strings.NewReader(strings.Repeat("x09-virtual-identity-", 4)))
	if err != nil {
		t.Fatal(err)
	}
	n.vkey = sk
	n.vpid, _ = peer.IDFromPrivateKey(sk)
	n.tr.rawID = n.ps.VerifMessageID
	return n
}

func (n *node) takeVC() []any {
	n.mu.Lock()
	defer n.mu.Unlock()
	out := []any{}
	for _, c := range n.vc {
		out = append(out, M{"m": c.m, "w": c.where, "dl": c.dl, "vd": c.vd})
	}
	n.vc = nil
	return out
}

// snapshot of the API-visible bookkeeping, as vectors over U
func (n *node) snap() M {
	st := n.ps.VerifSnapshot()
	reg, subs, rel, evh, gt := []bool{}, []int{}, []int{}, []int{}, []bool{}
	got := map[string]bool{}
	for _, t := range n.ps.GetTopics() {
		got[t] = true
	}
	extra := []string{}
	for _, t := range U {
		if st == nil {
			reg, subs, rel, evh = append(reg, false), append(subs, -1), append(rel, -1), append(evh, -1)
		} else {
			f, ok := st.MyTopics[t]
			reg, subs, rel, evh = append(reg, ok), append(subs, st.MySubs[t]), append(rel, st.MyRelays[t]), append(evh, f.EvtHandlers)
		}
		gt = append(gt, got[t])
		delete(got, t)
	}
	if st != nil {
		for t := range st.MyTopics {
			if t != "A" && t != "B" {
				extra = append(extra, "topic:"+t)
			}
		}
		// map entries that should have been deleted (a key with value 0) are visible to the code's `_, ok :=` tests
		for t, c := range st.MyRelays {
			if c <= 0 {
				extra = append(extra, vh.Sprintf("relayKey:%s=%d", t, c))
			}
		}
		for t, c := range st.MySubs {
			if c <= 0 {
				extra = append(extra, vh.Sprintf("subKey:%s=%d", t, c))
			}
		}
	}
	for t := range got {
		extra = append(extra, "gt:"+t)
	}
	sort.Strings(extra)
	return M{"reg": reg, "subs": subs, "rel": rel, "evh": evh, "gt": gt, "extra": extra}
}

func (n *node) pubOpts(mode string) (opts []pubsub.PubOpt, ctx context.Context, cancel context.CancelFunc) {
	ctx, cancel = context.WithCancel(n.ctx)
	switch mode {
	case "local":
		opts = append(opts, pubsub.WithLocalPublication(true))
	case "key":
		opts = append(opts, pubsub.WithSecretKeyAndPeerId(n.vkey, n.vpid))
	case "nilkey":
		opts = append(opts, pubsub.WithSecretKeyAndPeerId(nil, n.vpid))
	case "emptypid":
		opts = append(opts, pubsub.WithSecretKeyAndPeerId(n.vkey, ""))
	case "localnilkey":
		opts = append(opts, pubsub.WithLocalPublication(true), pubsub.WithSecretKeyAndPeerId(nil, ""))
	case "vd":
		opts = append(opts, pubsub.WithValidatorData("vd1"))
	case "ready2", "readyto":
		// ready on the third poll; "readyto" gives up after 500 ms (polls at 0, 200, 400)
		n.mu.Lock()
		n.polls = 0
		n.mu.Unlock()
		opts = append(opts, pubsub.WithReadiness(func(rt pubsub.PubSubRouter, topic string) (bool, error) {
			n.mu.Lock()
			defer n.mu.Unlock()
			n.polls++
			return mode == "ready2" && n.polls >= 3, nil
		}))
		if mode == "readyto" {
			cancel()
			ctx, cancel = context.WithTimeout(n.ctx, 500*time.Millisecond)
		}
	}
	return
}

func (n *node) remoteMsg(p, topic, name string) *pb.Message {
	if m := n.msgs[name]; m != nil {
		return m
	}
	m := n.fakes[p].NewMessage(name, topic, 16, true)
	n.msgs[name] = m
	return m
}

// tagOf names a received message: payload name, "@v" when authored by the virtual identity, "@l" when local-only
func tagOf(n *node, msg *pubsub.Message) string {
	r := nameOfData(msg.GetData())
	if peer.ID(msg.GetFrom()) == n.vpid {
		r += "@v"
	}
	if msg.Local {
		r += "@l"
	}
	return r
}

// do performs one operation and returns its result class. It runs on its own goroutine.
func (n *node) do(o M, nextCtx context.Context) string {
	t := gets(o, "t")
	hi, si, ri, ei := geti(o, "h", 0)-1, geti(o, "s", 0)-1, geti(o, "r", 0)-1, geti(o, "e", 0)-1
	// the scenario was generated on the reference machine: when the node has diverged from it (an earlier line says so)
	// an operation can refer to an object the node never handed out
	n.objMu.Lock()
	nh, ns, nr, ne := len(n.hs), len(n.ss), len(n.rs), len(n.es)
	n.objMu.Unlock()
	switch gets(o, "o") {
	case "close", "sub", "relay", "evh", "pub", "addb", "lp", "str", "score":
		if hi < 0 || hi >= nh {
			return "no-such-object"
		}
	case "cancel", "next":
		if si < 0 || si >= ns {
			return "no-such-object"
		}
	case "unrelay":
		if ri < 0 || ri >= nr {
			return "no-such-object"
		}
	case "evcancel":
		if ei < 0 || ei >= ne {
			return "no-such-object"
		}
	}
	switch gets(o, "o") {
	case "join":
		var opts []pubsub.TopicOpt
		switch gets(o, "opt") {
		case "fan":
			opts = append(opts, pubsub.FanoutOnly())
		case "K":
			opts = append(opts, pubsub.WithTopicMessageIdFn(kFn))
		}
		h, err := n.ps.Join(t, opts...)
		if err == nil {
			n.objMu.Lock()
			n.hs = append(n.hs, h)
			n.objMu.Unlock()
		}
		return errClass(err)
	case "close":
		return errClass(n.hs[hi].Close())
	case "sub", "psub":
		var opts []pubsub.SubOpt
		if c := geti(o, "cap", 0); c > 0 {
			opts = append(opts, pubsub.WithBufferSize(c))
		}
		var s *pubsub.Subscription
		var err error
		if gets(o, "o") == "psub" {
			s, err = n.ps.Subscribe(t, opts...)
		} else {
			s, err = n.hs[hi].Subscribe(opts...)
		}
		if err == nil {
			n.objMu.Lock()
			if cid := geti(o, "cid", 0); cid > 0 {
				n.newSub[cid] = s
			} else {
				n.ss = append(n.ss, s)
			}
			n.objMu.Unlock()
		}
		return errClass(err)
	case "cancel":
		n.ss[si].Cancel()
		return "ok"
	case "next":
		msg, err := n.ss[si].Next(nextCtx)
		if msg == nil && err == nil {
			return "nil-without-error"
		}
		if err != nil {
			if nextCtx.Err() != nil && err == nextCtx.Err() {
				return "blocked"
			}
			return errClass(err)
		}
		return tagOf(n, msg)
	case "relay":
		c, err := n.hs[hi].Relay()
		if err == nil {
			n.objMu.Lock()
			n.rs = append(n.rs, c)
			n.objMu.Unlock()
		}
		return errClass(err)
	case "unrelay":
		n.rs[ri]()
		return "ok"
	case "evh":
		e, err := n.hs[hi].EventHandler()
		if err == nil {
			n.objMu.Lock()
			n.es = append(n.es, e)
			n.objMu.Unlock()
		}
		return errClass(err)
	case "evcancel":
		n.es[ei].Cancel()
		return "ok"
	case "pub", "ppub", "addb":
		opts, ctx, cancel := n.pubOpts(gets(o, "mode"))
		defer cancel()
		t0 := hnet.NowMs()
		var err error
		switch gets(o, "o") {
		case "ppub":
			err = n.ps.Publish(t, payload(gets(o, "m")), opts...)
		case "addb":
			err = n.hs[hi].AddToBatch(ctx, &pubsub.MessageBatch{}, payload(gets(o, "m")), opts...)
		default:
			err = n.hs[hi].Publish(ctx, payload(gets(o, "m")), opts...)
		}
		r := errClass(err)
		if m := gets(o, "mode"); m == "ready2" || m == "readyto" {
			n.mu.Lock()
			r += vh.Sprintf("/polls=%d/ms=%d", n.polls, hnet.NowMs()-t0)
			n.mu.Unlock()
		}
		return r
	case "reg":
		var opts []pubsub.ValidatorOpt
		if getb(o, "inl") {
			opts = append(opts, pubsub.WithValidatorInline(true))
		}
		if d := geti(o, "to", 0); d > 0 {
			opts = append(opts, pubsub.WithValidatorTimeout(time.Duration(d)*time.Millisecond))
		}
		if c := geti(o, "conc", 0); c > 0 {
			opts = append(opts, pubsub.WithValidatorConcurrency(c))
		}
		return errClass(n.ps.RegisterTopicValidator(t, n.validator(gets(o, "v"), gets(o, "opt")), opts...))
	case "unreg":
		return errClass(n.ps.UnregisterTopicValidator(t))
	case "lp", "plp":
		var ps []peer.ID
		if gets(o, "o") == "lp" {
			ps = n.hs[hi].ListPeers()
		} else {
			ps = n.ps.ListPeers(t)
		}
		l := n.names.Ps(ps)
		sort.Strings(l)
		return "[" + strings.Join(l, ",") + "]"
	case "str":
		return n.hs[hi].String()
	case "score":
		p := &pubsub.TopicScoreParams{SkipAtomicValidation: true, TopicWeight: 1}
		if gets(o, "v") == "invalid" {
			p.TopicWeight = -1
		}
		return errClass(n.hs[hi].SetScoreParams(p))
	case "rmsg":
		n.fakes[gets(o, "p")].Send(hnet.MsgRPC(n.remoteMsg(gets(o, "p"), t, gets(o, "m"))))
		return "ok"
	case "rsub":
		n.fakes[gets(o, "p")].Send(hnet.SubRPC(t, getb(o, "pv")))
		return "ok"
	case "rel":
		n.mu.Lock()
		var g chan struct{}
		if len(n.parked) > 0 {
			g, n.parked = n.parked[0], n.parked[1:]
		}
		n.mu.Unlock()
		if g == nil {
			return "none"
		}
		close(g)
		return "ok"
	}
	return "unknown-op"
}

// wire returns what the fake peers received since the last call: per peer the sorted names of the messages.
func (n *node) wire(peers []string) M {
	w := M{"p1": []string{}, "p2": []string{}}
	for _, p := range peers {
		l := []string{}
		for _, fr := range n.fakes[p].Drain() {
			for _, m := range fr.RPC.GetPublish() {
				x := nameOfData(m.GetData())
				if peer.ID(m.GetFrom()) == n.vpid {
					x += "@v"
				}
				l = append(l, x)
			}
		}
		sort.Strings(l)
		w[p] = l
	}
	return w
}

// ---------------------------------------------------------------------------------------------------------------
// sequential replay

type seqRun struct {
	t     *testing.T
	out   *vh.Out
	net   *hnet.Net
	names *hnet.Names
	nutH  host.Host
	used  bool
}

func cfgPeers(cfg M) []string {
	ps := []string{}
	for i := 1; i <= geti(cfg, "peers", 0); i++ {
		ps = append(ps, vh.Sprintf("p%d", i))
	}
	return ps
}

// runSeq replays one scenario. It returns false when a call never returned (the bubble cannot be re-used).
func (r *seqRun) runSeq(s scenario) bool {
	peers := cfgPeers(s.Cfg)
	n := newNode(r.t, r.nutH, s.Cfg, r.names)
	settle := func() { synctest.Wait() }
	if len(peers) > 0 {
		settle = func() { hnet.Settle(12 * time.Millisecond) }
	}
	for _, p := range peers {
		f := hnet.NewFakePeer(r.net.Take(), p, "flood", r.nutH)
		r.names.AddPeer(f.ID(), p)
		n.fakes[p] = f
		if err := f.DialNUT(); err != nil {
			r.t.Fatalf("x09: connect %s: %v", p, err)
		}
		hnet.Settle(20 * time.Millisecond)
		if err := f.OpenOut(); err != nil {
			r.t.Fatalf("x09: open stream %s: %v", p, err)
		}
		hello := &pb.RPC{}
		if m, ok := s.Cfg["psubs"].(M); ok {
			if l, ok := m[p].([]any); ok {
				for _, x := range l {
					tp, tr := x.(string), true
					hello.Subscriptions = append(hello.Subscriptions, &pb.RPC_SubOpts{Topicid: &tp, Subscribe: &tr})
				}
			}
		}
		// always send a first frame: streams are negotiated lazily
		f.Send(hello)
		hnet.Settle(20 * time.Millisecond)
	}
	settle()
	n.tr.take()
	n.wire(peers)
	r.out.Emit(M{"e": "reset", "scn": s.ID, "cfg": s.Cfg, "st": n.snap()})
	ok := true
	for i, o := range s.Ops {
		done := make(chan string, 1)
		nctx, ncancel := context.WithCancel(context.Background())
		go func() { done <- n.do(o, nctx) }()
		synctest.Wait()
		res, hung, late := "", false, false
		select {
		case res = <-done:
		default:
			switch {
			case gets(o, "o") == "next":
				ncancel()
				res = <-done
			case strings.HasPrefix(gets(o, "mode"), "ready"):
				hnet.Settle(1500 * time.Millisecond)
				select {
				case res = <-done:
				default:
					hung = true
				}
			default:
				hung = true
			}
		}
		ncancel()
		if hung {
			// one more chance: virtual time (nothing in this API may need it, but say so rather than guess)
			hnet.Settle(2 * time.Second)
			select {
			case res = <-done:
				hung, late = false, true
			default:
				res = "hung"
			}
		}
		line := M{"e": "step", "scn": s.ID, "i": i + 1, "op": o, "res": res, "t": hnet.NowMs(), "hung": hung, "late": late}
		if hung {
			line["ev"], line["snd"] = n.tr.take()
			line["vc"], line["wire"] = n.takeVC(), n.wire(nil)
			line["st"] = M{"reg": []bool{}, "subs": []int{}, "rel": []int{}, "evh": []int{}, "gt": []bool{}, "extra": []string{"hung"}}
			r.out.Emit(line)
			ok = false
			hungScenarios++
			break
		}
		settle()
		// the snapshot goes through the event loop: a loop that is stuck (say, behind a slow subscriber) never answers
		snapCh := make(chan M, 1)
		go func() { snapCh <- n.snap() }()
		synctest.Wait()
		var st M
		select {
		case st = <-snapCh:
		default:
			hnet.Settle(2 * time.Second)
			select {
			case st = <-snapCh:
				line["late"] = true
			default:
			}
		}
		line["ev"], line["snd"] = n.tr.take()
		line["vc"] = n.takeVC()
		if st == nil {
			line["hung"] = true
			line["wire"] = n.wire(nil)
			line["st"] = M{"reg": []bool{}, "subs": []int{}, "rel": []int{}, "evh": []int{}, "gt": []bool{}, "extra": []string{"event loop does not answer"}}
			r.out.Emit(line)
			ok = false
			hungScenarios++
			break
		}
		line["wire"] = n.wire(peers)
		line["st"] = st
		r.out.Emit(line)
	}
	// release whatever is still parked, then shut the instance down
	n.mu.Lock()
	for _, g := range n.parked {
		close(g)
	}
	n.parked = nil
	n.mu.Unlock()
	n.stop()
	if ok {
		for _, p := range peers {
			n.fakes[p].Disconnect()
		}
		settle()
	}
	return ok
}

// chunk runs scenarios[from:] inside one bubble until the bubble has to be given up; it returns the index to go on with.
func seqChunk(t *testing.T, out *vh.Out, scns []scenario, from int, max int) (next int) {
	next = from
	defer func() {
		// a call that never returned leaves goroutines blocked for ever: synctest reports that as a deadlock of the
		// bubble when its main goroutine exits. The lines are written; go on with the next scenario in a new bubble.
		if r := recover(); r != nil {
			if !strings.Contains(fmt.Sprint(r), "deadlock") {
				panic(r)
			}
		}
	}()
	synctest.Test(t, func(t *testing.T) {
		var net *hnet.Net
		var r *seqRun
		left := 0
		for n := 0; next < len(scns) && n < max; n++ {
			s := scns[next]
			if !shard(next) {
				next++
				continue
			}
			marker(s.ID)
			np := geti(s.Cfg, "peers", 0)
			if np > 0 && net != nil {
				return // scenarios with peers get a bubble (and a network) of their own
			}
			if net == nil {
				// scenarios without peers share one host
				net = hnet.New(t, 1+np, false)
				r = &seqRun{t: t, out: out, net: net, names: hnet.NewNames(), nutH: net.Take()}
				r.names.AddPeer(r.nutH.ID(), "self")
				left = 256
				if np > 0 {
					left = 1
				}
			}
			if left <= 0 {
				return
			}
			left--
			next++
			if !r.runSeq(s) {
				return
			}
		}
	})
	return next
}

// hungScenarios counts the scenarios of this process in which a call never returned
var hungScenarios int

func TestX09Seq(t *testing.T) {
	scns := vh.ReadScenarios[scenario](t, "VERIF_IN")
	out := vh.NewOut(t, "VERIF_OUT")
	for i := 0; i < len(scns); {
		i = seqChunk(t, out, scns, i, 512)
		if hungScenarios >= 8 {
			// every one of them costs a bubble (and leaves its goroutines behind): the point is made
			out.Emit(M{"e": "giveup", "at": i, "hung": hungScenarios})
			break
		}
	}
}
