// Drivers for extension family X08 (the buffered event tracers of tracer.go).
// They record call/return histories of Trace/Close on REAL tracer objects,
// interleaved with what the underlying writer / the collector received, as
// NDJSON; TLC validates them against spec/tracer/TracerTrace.tla and
// RemoteTrace.tla. The drivers never judge.
package x08

import (
	"bytes"
	"encoding/binary"
	"encoding/json"
	"fmt"
	"os"
	"regexp"
	"runtime"
	"strings"
	"sync"
	"sync/atomic"
	"testing"
	"testing/synctest"
	"time"

	pubsub "github.com/libp2p/go-libp2p-pubsub"
	pb "github.com/libp2p/go-libp2p-pubsub/pb"

	"verifharness/vh"
)

type M = vh.M

// ---------------------------------------------------------------------------
// events

var evTopic = "x08"

// mkEvt builds a trace event that carries its number twice (Timestamp and PeerID).
func mkEvt(id int, pad int) *pb.TraceEvent {
	ts := int64(id)
	e := &pb.TraceEvent{Type: pb.TraceEvent_JOIN.Enum(), PeerID: []byte(fmt.Sprintf("x%d", id)), Timestamp: &ts,
		Join: &pb.TraceEvent_Join{Topic: &evTopic}}
	if pad > 0 {
		t := strings.Repeat("p", pad)
		e.Join = &pb.TraceEvent_Join{Topic: &t}
	}
	return e
}

// evtID recovers the number; -1 when the two copies disagree or are missing (a corrupted event).
func evtID(e *pb.TraceEvent) int {
	if e == nil || e.Timestamp == nil {
		return -1
	}
	id := int(*e.Timestamp)
	if string(e.PeerID) != fmt.Sprintf("x%d", id) || e.GetType() != pb.TraceEvent_JOIN {
		return -1
	}
	return id
}

// streamDecoder turns the bytes a tracer writes into event numbers.
type streamDecoder struct {
	kind   string // "json" | "pb"
	tsOnly bool   // events made by the library (node driver): the number is in Timestamp only
	buf    []byte
}

func (d *streamDecoder) id(e *pb.TraceEvent) int {
	if d.tsOnly {
		if e.Timestamp == nil {
			return -1
		}
		return int(*e.Timestamp)
	}
	return evtID(e)
}

// feed appends b and returns the numbers of the events completed by it.
func (d *streamDecoder) feed(b []byte) []int {
	d.buf = append(d.buf, b...)
	var out []int
	for {
		if d.kind == "json" {
			i := bytes.IndexByte(d.buf, '\n')
			if i < 0 {
				return out
			}
			var e pb.TraceEvent
			if err := json.Unmarshal(d.buf[:i], &e); err != nil {
				out = append(out, -1)
			} else {
				out = append(out, d.id(&e))
			}
			d.buf = d.buf[i+1:]
		} else {
			n, k := binary.Uvarint(d.buf)
			if k <= 0 || len(d.buf) < k+int(n) {
				return out
			}
			var e pb.TraceEvent
			if err := e.Unmarshal(d.buf[k : k+int(n)]); err != nil {
				out = append(out, -1)
			} else {
				out = append(out, d.id(&e))
			}
			d.buf = d.buf[k+int(n):]
		}
	}
}

// ---------------------------------------------------------------------------
// gated in-memory WriteCloser (for the verif constructors, inside a synctest bubble)

type gateW struct {
	mu      sync.Mutex
	out     *vh.Out
	dec     streamDecoder
	gateOn  bool
	permits int
	wake    chan struct{}
	waiting bool
	nclose  int
	nw      int
}

func newGateW(out *vh.Out, kind string) *gateW {
	return &gateW{out: out, dec: streamDecoder{kind: kind}, wake: make(chan struct{})}
}

// Write blocks at an event boundary while the gate is on and no permit is left.
func (g *gateW) Write(b []byte) (int, error) {
	g.mu.Lock()
	if len(g.dec.buf) == 0 {
		for g.gateOn && g.permits == 0 {
			g.waiting = true
			ch := g.wake
			g.mu.Unlock()
			<-ch
			g.mu.Lock()
		}
		g.waiting = false
		if g.gateOn {
			g.permits--
		}
	}
	for _, x := range g.dec.feed(b) {
		g.out.Emit(M{"e": "w", "x": x})
		g.nw++
	}
	g.mu.Unlock()
	return len(b), nil
}

func (g *gateW) Close() error {
	g.mu.Lock()
	g.out.Emit(M{"e": "wclose"}) // under the lock, like "w": the log order is the order of the writer's operations
	g.nclose++
	g.mu.Unlock()
	return nil
}

func (g *gateW) kick() {
	close(g.wake)
	g.wake = make(chan struct{})
}

func (g *gateW) set(on bool) {
	g.mu.Lock()
	g.gateOn, g.permits = on, 0
	g.kick()
	g.mu.Unlock()
}

// step lets exactly one event through, provided the writer is at the gate.
func (g *gateW) step() bool {
	g.mu.Lock()
	defer g.mu.Unlock()
	if g.waiting && g.permits == 0 {
		g.permits = 1
		g.kick()
		return true
	}
	return false
}

func (g *gateW) wpos() string {
	g.mu.Lock()
	defer g.mu.Unlock()
	if g.waiting {
		return "gate"
	}
	return "idle"
}

// ---------------------------------------------------------------------------
// one scenario's bookkeeping

type tracerObj interface {
	Trace(*pb.TraceEvent)
	Close()
	VerifBufLen() int
	VerifClosed() bool
}

type run struct {
	out  *vh.Out
	tr   tracerObj
	mu   sync.Mutex
	open map[int]string // calls that have not returned: id -> "trace" | "close"
	next int
	nev  int
}

func (r *run) id(op string) int {
	r.mu.Lock()
	defer r.mu.Unlock()
	r.next++
	r.open[r.next] = op
	return r.next
}

// tracesOut is the number of Trace calls that have not returned.
func (r *run) tracesOut() int {
	r.mu.Lock()
	defer r.mu.Unlock()
	n := 0
	for _, op := range r.open {
		if op == "trace" {
			n++
		}
	}
	return n
}

func (r *run) ev() int {
	r.mu.Lock()
	defer r.mu.Unlock()
	r.nev++
	return r.nev
}

func (r *run) ret(id int, res string) {
	// the line and the bookkeeping change together (see quiet): the log never contradicts a "blocked" list
	r.mu.Lock()
	r.out.Emit(M{"e": "ret", "id": id, "res": res})
	delete(r.open, id)
	r.mu.Unlock()
}

// quiet writes a quiescence line; its list of calls that have not returned is exact with respect to the "ret"
// lines before and after it.
func (r *run) quiet(buf int, wpos string) {
	r.mu.Lock()
	b := []int{}
	for id := range r.open {
		b = append(b, id)
	}
	r.out.Emit(M{"e": "quiet", "blocked": b, "buf": buf, "wpos": wpos})
	r.mu.Unlock()
}

func (r *run) blocked() []int {
	r.mu.Lock()
	defer r.mu.Unlock()
	b := []int{}
	for id := range r.open {
		b = append(b, id)
	}
	return b
}

func guarded(f func()) (res string) {
	res = "done"
	defer func() {
		if p := recover(); p != nil {
			res = fmt.Sprintf("panic:%v", p)
		}
	}()
	f()
	return
}

// callTrace announces a Trace call; the returned function performs it.
func (r *run) callTrace(pad int) func() {
	id, x := r.id("trace"), r.ev()
	r.out.Emit(M{"e": "call", "id": id, "op": "trace", "x": x})
	e := mkEvt(x, pad)
	return func() { r.ret(id, guarded(func() { r.tr.Trace(e) })) }
}

func (r *run) callClose() func() {
	id := r.id("close")
	r.out.Emit(M{"e": "call", "id": id, "op": "close"})
	return func() { r.ret(id, guarded(func() { r.tr.Close() })) }
}

// ---------------------------------------------------------------------------
// watchdog (real time, outside any bubble): a Trace/Close call parked on the tracer's mutex while the
// writer goroutine sits in the harness gate can never finish, and synctest.Wait would hang with it.

type watchdog struct {
	progress atomic.Int64
	inStep   atomic.Bool
	stop     chan struct{}
}

var gorHeader = regexp.MustCompile(`^goroutine (\d+) \[([^\]]*)\]:`)

type gor struct {
	state string
	funcs []string
}

func allGoroutines() []gor {
	buf := make([]byte, 1<<20)
	for {
		n := runtime.Stack(buf, true)
		if n < len(buf) {
			buf = buf[:n]
			break
		}
		buf = make([]byte, 2*len(buf))
	}
	var out []gor
	for _, blk := range strings.Split(string(buf), "\n\n") {
		lines := strings.Split(strings.TrimSpace(blk), "\n")
		m := gorHeader.FindStringSubmatch(lines[0])
		if m == nil {
			continue
		}
		g := gor{state: m[2]}
		for _, ln := range lines[1:] {
			if strings.HasPrefix(ln, "\t") || strings.HasPrefix(ln, "created by ") {
				continue
			}
			if i := strings.LastIndex(ln, "("); i > 0 {
				ln = ln[:i]
			}
			g.funcs = append(g.funcs, ln)
		}
		out = append(out, g)
	}
	return out
}

func hasFunc(g gor, sub string) bool {
	for _, f := range g.funcs {
		if strings.Contains(f, sub) {
			return true
		}
	}
	return false
}

func startWatchdog(out *vh.Out, limit time.Duration) *watchdog {
	w := &watchdog{stop: make(chan struct{})}
	go func() {
		last, since := int64(-1), time.Now()
		for {
			select {
			case <-w.stop:
				return
			case <-time.After(500 * time.Millisecond):
			}
			p := w.progress.Load()
			if p != last || !w.inStep.Load() {
				last, since = p, time.Now()
				continue
			}
			if time.Since(since) < limit {
				continue
			}
			// no progress for `limit` of real time inside one step: look at who waits for whom
			callers, writerAtGate, writerBusy := []string{}, false, false
			for _, g := range allGoroutines() {
				switch {
				case hasFunc(g, "basicTracer).Trace") || hasFunc(g, "basicTracer).Close") || hasFunc(g, "basicTracer).VerifBufLen"):
					op := "Trace"
					if hasFunc(g, "basicTracer).Close") {
						op = "Close"
					} else if hasFunc(g, "basicTracer).VerifBufLen") {
						op = "VerifBufLen" // the harness's own look at the buffer: takes the same mutex as Trace and Close
					}
					callers = append(callers, op+":"+strings.Split(g.state, ",")[0])
				case hasFunc(g, ").doWrite"):
					if hasFunc(g, "x08.(*gateW).Write") {
						writerAtGate = true
					} else if g.state == "running" || g.state == "runnable" {
						writerBusy = true
					}
				}
			}
			out.Emit(M{"e": "hang", "callers": callers, "writerAtGate": writerAtGate, "writerBusy": writerBusy,
				"secs": int(time.Since(since).Seconds())})
			out.Close()
			os.Exit(3)
		}
	}()
	return w
}

// ---------------------------------------------------------------------------
// TestX08File: TLC-generated scenarios on JSONTracer / PBTracer built by the verif constructors over a
// gated in-memory writer, inside a synctest bubble (quiescence = synctest.Wait).

type fileScn struct {
	Ops []string `json:"ops"`
}

const fileBound = 1

func TestX08File(t *testing.T) {
	scns := vh.ReadScenarios[fileScn](t, "VERIF_IN")
	out := vh.NewOut(t, "VERIF_OUT")
	pubsub.TraceBufferSize = fileBound
	wd := startWatchdog(out, 20*time.Second)
	defer close(wd.stop)
	type variant struct {
		kind  string
		lossy bool
	}
	all := []variant{{"json", false}, {"pb", true}, {"pb", false}, {"json", true}}
	for i, s := range scns {
		vs := all
		if !vh.Thorough() {
			vs = all[2*(i%2) : 2*(i%2)+2]
		}
		for _, v := range vs {
			synctest.Test(t, func(t *testing.T) { fileScenario(out, wd, s, v.kind, v.lossy) })
		}
	}
}

func fileScenario(out *vh.Out, wd *watchdog, s fileScn, kind string, lossy bool) {
	out.Emit(M{"e": "reset", "kind": kind, "ctor": "verif", "lossy": lossy, "bound": fileBound})
	g := newGateW(out, kind)
	r := &run{out: out, open: map[int]string{}}
	if kind == "json" {
		r.tr = pubsub.VerifNewJSONTracerW(g, lossy)
	} else {
		r.tr = pubsub.VerifNewPBTracerW(g, lossy)
	}
	wd.inStep.Store(true)
	defer wd.inStep.Store(false)
	quiet := func() {
		synctest.Wait()
		r.quiet(r.tr.VerifBufLen(), g.wpos())
		wd.progress.Add(1)
	}
	gateOn, closed := false, false
	do := func(op string) {
		switch op {
		case "tr":
			go r.callTrace(0)()
		case "par":
			a, b := r.callTrace(0), r.callTrace(0)
			go a()
			go b()
		case "trc":
			a, b := r.callTrace(0), r.callClose()
			go a()
			go b()
			closed = true
		case "cl":
			go r.callClose()()
			closed = true
		case "gon":
			out.Emit(M{"e": "gate", "on": true})
			g.set(true)
			gateOn = true
		case "goff":
			out.Emit(M{"e": "gate", "on": false})
			g.set(false)
			gateOn = false
		case "step":
			out.Emit(M{"e": "step", "ok": g.step()})
		}
		quiet()
	}
	synctest.Wait()
	for _, op := range s.Ops {
		do(op)
	}
	// the end of every scenario: release the writer, close, and look once more
	if gateOn {
		do("goff")
	}
	if !closed {
		do("cl")
	}
}
