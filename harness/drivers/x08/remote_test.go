package x08

import (
	"compress/gzip"
	"context"
	"io"
	"log/slog"
	"sync"
	"testing"
	"testing/synctest"
	"time"

	pubsub "github.com/libp2p/go-libp2p-pubsub"
	pb "github.com/libp2p/go-libp2p-pubsub/pb"
	"github.com/libp2p/go-libp2p/core/host"
	"github.com/libp2p/go-libp2p/core/network"
	"github.com/libp2p/go-libp2p/core/peer"

	//lint:ignore SA1019 same reader as the repository's own collector
	"github.com/libp2p/go-msgio/protoio"

	"verifharness/hnet"
	"verifharness/vh"
)

// ---------------------------------------------------------------------------
// the collector: decodes the gzip/protobuf batch stream exactly like the repository's mockRemoteTracer

type collector struct {
	mu   sync.Mutex
	out  *vh.Out
	h    host.Host
	nsid int
	cur  network.Stream
}

func (c *collector) handle(s network.Stream) {
	c.mu.Lock()
	c.nsid++
	sid := c.nsid
	c.cur = s
	c.mu.Unlock()
	c.out.Emit(M{"e": "open", "s": sid, "t": hnet.NowMs()})
	end := func(err error) {
		c.mu.Lock()
		if c.cur == s {
			c.cur = nil
		}
		c.mu.Unlock()
		how := "err"
		if err == io.EOF {
			how = "eof"
			s.Close()
		} else {
			s.Reset()
		}
		c.out.Emit(M{"e": "end", "s": sid, "how": how, "t": hnet.NowMs()})
	}
	gzr, err := gzip.NewReader(s)
	if err != nil {
		end(err)
		return
	}
	r := protoio.NewDelimitedReader(gzr, 1<<24)
	var batch pb.TraceEventBatch
	for {
		batch.Reset()
		if err := r.ReadMsg(&batch); err != nil {
			end(err)
			return
		}
		xs := []int{}
		for _, e := range batch.GetBatch() {
			xs = append(xs, evtID(e))
		}
		c.out.Emit(M{"e": "rx", "s": sid, "xs": xs, "t": hnet.NowMs()})
	}
}

func (c *collector) up() { c.h.SetStreamHandler(pubsub.RemoteTracerProtoID, c.handle) }

func (c *collector) resetCur() bool {
	c.mu.Lock()
	s := c.cur
	c.cur = nil
	c.mu.Unlock()
	if s != nil {
		s.Reset()
	}
	return s != nil
}

// ---------------------------------------------------------------------------

// writerPos reads the control point of the RemoteTracer's writer goroutine off a goroutine dump.
func writerPos() string {
	for _, g := range allGoroutines() {
		if !hasFunc(g, "RemoteTracer).doWrite") {
			continue
		}
		st := g.state
		switch {
		case hasFunc(g, "RemoteTracer).openStream"):
			return "open"
		case hasFunc(g, "gatedStream).Write"):
			return "write"
		case len(st) >= 12 && st[:12] == "chan receive" && len(g.funcs) > 0 && hasFunc(gor{funcs: g.funcs[:1]}, "RemoteTracer).doWrite"):
			return "wait"
		case len(st) >= 5 && st[:5] == "sleep":
			return "batch"
		}
		return "other"
	}
	return "gone"
}

type remScn struct {
	Down0 bool     `json:"down0"`
	Ops   []string `json:"ops"`
}

const (
	remBound = 5
	remMin   = 4
	dShort   = 37
	dLong    = 3037
	dLong2   = 62037
)

func TestX08Remote(t *testing.T) {
	scns := vh.ReadScenarios[remScn](t, "VERIF_IN")
	out := vh.NewOut(t, "VERIF_OUT")
	pubsub.TraceBufferSize = remBound
	pubsub.MinTraceBatchSize = remMin
	wd := startWatchdog(out, 30*time.Second)
	defer close(wd.stop)
	for i, s := range scns {
		synctest.Test(t, func(t *testing.T) { remoteScenario(t, out, wd, i, s) })
	}
}

func remoteScenario(t *testing.T, out *vh.Out, wd *watchdog, idx int, s remScn) {
	nw := hnet.New(t, 2, false)
	ch := nw.Take()
	src := hnet.Wrap(nw.Take())
	col := &collector{out: out, h: ch}
	out.Emit(M{"e": "reset", "scn": idx, "bound": remBound, "min": remMin, "down0": s.Down0})
	if !s.Down0 {
		col.up()
	}
	hnet.AdvanceTo(500)
	ctx, cancel := context.WithCancel(context.Background())
	defer cancel()
	tr, err := pubsub.NewRemoteTracer(ctx, src, peer.AddrInfo{ID: ch.ID(), Addrs: ch.Addrs()}, slog.New(slog.DiscardHandler))
	if err != nil {
		t.Fatal(err)
	}
	nev := 0
	wd.inStep.Store(true)
	defer wd.inStep.Store(false)
	settle := func(ms int, long int) {
		time.Sleep(time.Duration(ms) * time.Millisecond)
		synctest.Wait()
		out.Emit(M{"e": "quiet", "t": hnet.NowMs(), "long": long, "buf": tr.VerifBufLen(), "wpos": writerPos()})
		wd.progress.Add(1)
	}
	trace := func(n int) {
		xs := make([]int, n)
		for i := range xs {
			nev++
			xs[i] = nev
		}
		res := guarded(func() {
			for _, x := range xs {
				out.Emit(M{"e": "tr", "x": x, "t": hnet.NowMs()})
				tr.Trace(mkEvt(x, 0))
			}
		})
		out.Emit(M{"e": "traceret", "res": res})
	}
	gateOn, down, closed, cancelled := false, s.Down0, false, false
	do := func(op string) {
		d, long := dShort, 0
		switch op {
		case "tr1":
			trace(1)
		case "tr4":
			trace(remMin)
		case "burst":
			trace(remBound + 3)
		case "adv":
			out.Emit(M{"e": "note", "op": op})
			d, long = dLong, 1
		case "adv61":
			out.Emit(M{"e": "note", "op": op})
			d, long = dLong2, 2
		case "reset":
			if col.resetCur() {
				out.Emit(M{"e": "break", "how": "reset", "t": hnet.NowMs()})
			} else {
				out.Emit(M{"e": "note", "op": "reset-without-stream"})
			}
		case "down":
			out.Emit(M{"e": "down", "t": hnet.NowMs()})
			ch.RemoveStreamHandler(pubsub.RemoteTracerProtoID)
			ch.Network().ClosePeer(src.ID())
			down = true
		case "up":
			out.Emit(M{"e": "up"})
			col.up()
			down = false
		case "gon":
			out.Emit(M{"e": "gate", "on": true})
			src.GateWrites(ch.ID())
			gateOn = true
		case "goff":
			out.Emit(M{"e": "gate", "on": false})
			src.UngateWrites(ch.ID())
			gateOn = false
		case "cl":
			out.Emit(M{"e": "close"})
			res := guarded(func() { tr.Close() })
			out.Emit(M{"e": "closeret", "res": res})
			closed = true
		case "cancel":
			out.Emit(M{"e": "cancel"})
			cancel()
			cancelled = true
		}
		settle(d, long)
	}
	settle(dShort, 0)
	for _, op := range s.Ops {
		do(op)
	}
	// the end of every scenario: release the writer, bring the collector back, give a healthy tracer the time to
	// flush, then Close and cancel: the writer goroutine must be gone afterwards
	if gateOn {
		do("goff")
	}
	if down {
		do("up")
	}
	if !closed {
		do("adv")
		do("cl")
		do("adv")
	}
	if !cancelled {
		do("cancel")
	}
	do("adv")
}
