package x08

import (
	"context"
	"testing"
	"testing/synctest"
	"time"

	pubsub "github.com/libp2p/go-libp2p-pubsub"
	pb "github.com/libp2p/go-libp2p-pubsub/pb"

	"verifharness/hnet"
	"verifharness/vh"
)

// nodeTracer sits between a real node's pubsubTracer and a real file tracer: it logs every Trace call the library
// makes (from the event loop and from publishing goroutines) and hands the tracer a copy numbered in Timestamp.
type nodeTracer struct {
	r *run
}

func (n *nodeTracer) Trace(evt *pb.TraceEvent) {
	id, x := n.r.id("trace"), n.r.ev()
	b, err := evt.Marshal()
	if err != nil {
		panic(err)
	}
	c := new(pb.TraceEvent)
	if err := c.Unmarshal(b); err != nil {
		panic(err)
	}
	ts := int64(x)
	c.Timestamp = &ts
	n.r.out.Emit(M{"e": "call", "id": id, "op": "trace", "x": x})
	n.r.ret(id, guarded(func() { n.r.tr.Trace(c) }))
}

// TestX08Node: a real gossipsub node traces into a JSONTracer / PBTracer whose writer goroutine is held inside its
// write. The node must carry on (X08.c: the event loop calls Trace synchronously), and once the writer is released the
// file must hold exactly the events the node handed over, in hand-over order.
func TestX08Node(t *testing.T) {
	out := vh.NewOut(t, "VERIF_OUT")
	pubsub.TraceBufferSize = fileBound
	wd := startWatchdog(out, 30*time.Second)
	defer close(wd.stop)
	reps := 1
	if vh.Thorough() {
		reps = 5
	}
	for rep := 0; rep < reps; rep++ {
		for _, kind := range []string{"json", "pb"} {
			synctest.Test(t, func(t *testing.T) { nodeScenario(t, out, wd, kind) })
		}
	}
}

func nodeScenario(t *testing.T, out *vh.Out, wd *watchdog, kind string) {
	nw := hnet.New(t, 2, false)
	h1, h2 := nw.Take(), nw.Take()
	out.Emit(M{"e": "reset", "kind": kind, "ctor": "verif", "lossy": false, "bound": fileBound, "shape": "node"})
	g := newGateW(out, kind)
	g.dec.tsOnly = true
	r := &run{out: out, open: map[int]string{}}
	if kind == "json" {
		r.tr = pubsub.VerifNewJSONTracerW(g, false)
	} else {
		r.tr = pubsub.VerifNewPBTracerW(g, false)
	}
	wd.inStep.Store(true)
	defer wd.inStep.Store(false)
	quiet := func(d time.Duration) {
		time.Sleep(d)
		synctest.Wait()
		r.quiet(r.tr.VerifBufLen(), g.wpos())
		wd.progress.Add(1)
	}
	ctx, cancel := context.WithCancel(context.Background())
	defer cancel()
	out.Emit(M{"e": "gate", "on": true})
	g.set(true)
	ps1, err := pubsub.NewGossipSub(ctx, h1, pubsub.WithEventTracer(&nodeTracer{r: r}))
	if err != nil {
		t.Fatal(err)
	}
	ps2, err := pubsub.NewGossipSub(ctx, h2)
	if err != nil {
		t.Fatal(err)
	}
	if err := hnet.Connect(h1, h2); err != nil {
		t.Fatal(err)
	}
	t1, _ := ps1.Join("x08")
	t2, _ := ps2.Join("x08")
	s1, _ := t1.Subscribe()
	s2, _ := t2.Subscribe()
	quiet(2500 * time.Millisecond) // a couple of heartbeats: the mesh forms, all of it traced while the writer is held
	next := func(s *pubsub.Subscription) bool {
		c, cc := context.WithTimeout(ctx, 2*time.Second)
		defer cc()
		_, err := s.Next(c)
		return err == nil
	}
	if err := t1.Publish(ctx, []byte("held")); err != nil {
		out.Emit(M{"e": "note", "op": "publish-error", "err": err.Error()})
	}
	ok := next(s1) && next(s2)
	out.Emit(M{"e": "note", "op": "delivered-while-gated", "ok": ok})
	quiet(500 * time.Millisecond)
	out.Emit(M{"e": "gate", "on": false})
	g.set(false)
	quiet(10 * time.Millisecond)
	t1.Publish(ctx, []byte("free"))
	out.Emit(M{"e": "note", "op": "delivered", "ok": next(s1) && next(s2)})
	quiet(1500 * time.Millisecond)
	go r.callClose()()
	quiet(10 * time.Millisecond)
	t1.Publish(ctx, []byte("after-close")) // traced after Close: must leave nothing
	quiet(500 * time.Millisecond)
	cancel()
	time.Sleep(time.Second)
	synctest.Wait()
}
