package x08

import (
	"io"
	"log/slog"
	"math/rand"
	"os"
	"path/filepath"
	"runtime"
	"sync"
	"sync/atomic"
	"syscall"
	"testing"
	"time"
	"unsafe"

	pubsub "github.com/libp2p/go-libp2p-pubsub"

	"verifharness/vh"
)

// Real-time drivers on tracers built by the library's OWN constructors (NewJSONTracer, OpenJSONTracer,
// NewPBTracer, OpenPBTracer). A named pipe of one page stands in for a slow disk: an event larger than the
// pipe parks the writer goroutine inside its write until the harness starts reading (the gate).

const realWait = 15 * time.Second

// nTimeouts counts waits that ran into the limit; a few witnesses are enough, the rest of a driver's programme is
// skipped then (every such wait costs 15 s).
var nTimeouts atomic.Int32

func enough(out *vh.Out) bool {
	if nTimeouts.Load() >= 3 {
		out.Emit(M{"e": "note", "op": "rest-skipped-after-timeouts"})
		return true
	}
	return false
}

// bufLen is VerifBufLen with a limit: the accessor takes the tracer's mutex, which a (broken) writer goroutine may
// hold while it is parked in its write; -1 then.
func bufLen(tr tracerObj) int {
	c := make(chan int, 1)
	go func() { c <- tr.VerifBufLen() }()
	select {
	case n := <-c:
		return n
	case <-time.After(realWait):
		nTimeouts.Add(1)
		return -1
	}
}

// isClosed is VerifClosed with the same limit.
func isClosed(tr tracerObj) bool {
	c := make(chan bool, 1)
	go func() { c <- tr.VerifClosed() }()
	select {
	case b := <-c:
		return b
	case <-time.After(realWait):
		nTimeouts.Add(1)
		return false
	}
}

// waitFor polls cond until it holds or the (generous) real-time limit expires; the driver only chooses how long to
// look, the verdict on what it then reports is TLC's.
func waitFor(cond func() bool) bool {
	deadline := time.Now().Add(realWait)
	for {
		if cond() {
			return true
		}
		if time.Now().After(deadline) {
			nTimeouts.Add(1)
			return false
		}
		time.Sleep(200 * time.Microsecond)
	}
}

type fifo struct {
	path     string
	rd       *os.File
	capacity int
	out      *vh.Out
	dec      streamDecoder
	nread    atomic.Int64 // events decoded
	eof      atomic.Bool
	done     chan struct{}
}

func fionread(f *os.File) int {
	var n int32
	rc, err := f.SyscallConn()
	if err != nil {
		return -1
	}
	rc.Control(func(fd uintptr) {
		syscall.Syscall(syscall.SYS_IOCTL, fd, syscall.TIOCINQ, uintptr(unsafe.Pointer(&n)))
	})
	return int(n)
}

func newFifo(t testing.TB, out *vh.Out, dir, kind string, n int) *fifo {
	path := filepath.Join(dir, vh.Sprintf("x08-%d-%d.fifo", os.Getpid(), n))
	os.Remove(path)
	if err := syscall.Mkfifo(path, 0600); err != nil {
		t.Fatalf("mkfifo: %v", err)
	}
	rd, err := os.OpenFile(path, os.O_RDONLY|syscall.O_NONBLOCK, 0)
	if err != nil {
		t.Fatalf("open fifo: %v", err)
	}
	f := &fifo{path: path, rd: rd, out: out, dec: streamDecoder{kind: kind}, done: make(chan struct{})}
	rc, _ := rd.SyscallConn()
	rc.Control(func(fd uintptr) {
		const F_SETPIPE_SZ = 1031
		r, _, _ := syscall.Syscall(syscall.SYS_FCNTL, fd, F_SETPIPE_SZ, 4096)
		f.capacity = int(r)
	})
	if f.capacity <= 0 {
		t.Fatalf("F_SETPIPE_SZ failed")
	}
	return f
}

// full: the pipe holds as much as it can, so the tracer's writer goroutine is inside a write it cannot finish.
func (f *fifo) full() bool { return fionread(f.rd) >= f.capacity }

// drain starts reading (the gate opens for good); "w" per decoded event, "wclose" at end of file (= every write end,
// i.e. the tracer's file, was closed).
func (f *fifo) drain() {
	go func() {
		defer close(f.done)
		buf := make([]byte, 1<<16)
		for {
			n, err := f.rd.Read(buf)
			for _, x := range f.dec.feed(buf[:n]) {
				f.out.Emit(M{"e": "w", "x": x})
				f.nread.Add(1)
			}
			if err != nil {
				if err == io.EOF {
					f.out.Emit(M{"e": "wclose"})
					f.eof.Store(true)
				} else {
					f.out.Emit(M{"e": "note", "op": "fifo-read-error", "err": err.Error()})
				}
				return
			}
		}
	}()
}

func (f *fifo) close() {
	f.rd.Close()
	os.Remove(f.path)
}

type ctor struct {
	name string
	kind string
	mk   func(path string) (tracerObj, error)
}

var quietLogger = slog.New(slog.DiscardHandler)

func ctors(forFifo bool) []ctor {
	flags := os.O_CREATE | os.O_WRONLY | os.O_TRUNC
	if forFifo {
		flags = os.O_WRONLY
	}
	return []ctor{
		{"NewJSONTracer", "json", func(p string) (tracerObj, error) { return pubsub.NewJSONTracer(p) }},
		{"NewPBTracer", "pb", func(p string) (tracerObj, error) { return pubsub.NewPBTracer(p) }},
		{"OpenJSONTracer", "json", func(p string) (tracerObj, error) { return pubsub.OpenJSONTracer(p, flags, 0644, quietLogger) }},
		{"OpenPBTracer", "pb", func(p string) (tracerObj, error) { return pubsub.OpenPBTracer(p, flags, 0644, quietLogger) }},
	}
}

func workDir(t testing.TB) string {
	d := filepath.Dir(os.Getenv("VERIF_OUT"))
	if d == "" || d == "." {
		d = t.TempDir()
	}
	if r, err := filepath.EvalSymlinks(d); err == nil {
		d = r
	}
	return d
}

// TestX08Fifo: forced schedules through the library's own constructors. Every shape starts with an event larger than
// the pipe, so that the writer goroutine has swapped the buffers and sits in its write while the rest happens.
func TestX08Fifo(t *testing.T) {
	out := vh.NewOut(t, "VERIF_OUT")
	pubsub.TraceBufferSize = fileBound
	dir := workDir(t)
	reps := 3
	if vh.Thorough() {
		reps = 25
	}
	shapes := []string{"wake", "closefull", "par", "many", "wake2"}
	n := 0
	for rep := 0; rep < reps; rep++ {
		for _, c := range ctors(true) {
			for _, sh := range shapes {
				if enough(out) {
					return
				}
				n++
				fifoShape(t, out, dir, n, c, sh)
			}
		}
	}
}

type abortShape struct{}

func fifoShape(t *testing.T, out *vh.Out, dir string, n int, c ctor, shape string) {
	f := newFifo(t, out, dir, c.kind, n)
	defer f.close()
	defer func() {
		if p := recover(); p != nil {
			if _, ok := p.(abortShape); !ok {
				panic(p)
			}
		}
	}()
	out.Emit(M{"e": "reset", "kind": c.kind, "ctor": c.name, "lossy": false, "bound": fileBound, "shape": shape})
	tr, err := c.mk(f.path)
	if err != nil {
		t.Fatalf("%s: %v", c.name, err)
	}
	r := &run{out: out, tr: tr, open: map[int]string{}}
	gate := true
	traced, closedCalled := 0, false
	// quiet waits (bounded) for what can be expected, then reports what is the case
	quiet := func() {
		// Trace calls must return whatever the writer does; a Close call is only waited for once the writer is free
		// (in the code as found Close never waits; a Close that waits for the writer's flush would be legitimate)
		waitFor(func() bool { return r.tracesOut() == 0 && (len(r.blocked()) == 0 || isClosed(tr)) })
		if !gate {
			waitFor(func() bool { return len(r.blocked()) == 0 })
			if closedCalled {
				waitFor(func() bool { return f.eof.Load() })
			} else {
				waitFor(func() bool { return int(f.nread.Load()) >= traced })
			}
		}
		wpos := "idle"
		if gate && f.full() {
			wpos = "gate"
		}
		r.quiet(bufLen(tr), wpos)
		if nTimeouts.Load() >= 3 {
			panic(abortShape{}) // enough witnesses: what follows in this shape would only wait again
		}
	}
	tr1 := func(pad int) { traced++; go r.callTrace(pad)() }
	par := func() {
		traced += 2
		a, b := r.callTrace(0), r.callTrace(0)
		go a()
		go b()
	}
	cl := func() { closedCalled = true; go r.callClose()() }
	release := func() {
		out.Emit(M{"e": "gate", "on": false})
		gate = false
		f.drain()
	}

	out.Emit(M{"e": "gate", "on": true})
	tr1(3 * f.capacity) // larger than the pipe: the writer goroutine parks in the middle of writing it
	if !waitFor(f.full) {
		out.Emit(M{"e": "note", "op": "writer-never-filled-the-pipe"})
	}
	quiet()
	switch shape {
	case "wake": // an event appended while the writer is between "swap buffers" and "wait on ch" is written without a further event
		tr1(0)
		quiet()
		release()
		quiet()
		cl()
		quiet()
	case "wake2": // ... also when the wake-up channel already holds a token
		tr1(0)
		quiet()
		tr1(0)
		quiet()
		release()
		quiet()
		tr1(0)
		quiet()
		cl()
		quiet()
	case "closefull": // Close while the wake-up channel is full and the writer is busy; Trace after Close
		tr1(0)
		quiet()
		tr1(0)
		quiet()
		cl()
		quiet()
		traced-- // (not counted: after Close)
		tr1(0)
		quiet()
		cl() // second Close
		quiet()
		release()
		quiet()
	case "par": // two producers at once, then Trace racing Close
		par()
		quiet()
		traced++
		a, b := r.callTrace(0), r.callClose()
		closedCalled = true
		go a()
		go b()
		quiet()
		release()
		quiet()
	case "many": // more than TraceBufferSize + 1 events wait in the buffer: a file tracer drops none
		for i := 0; i < fileBound+4; i++ {
			tr1(0)
			quiet()
		}
		release()
		quiet()
		cl()
		quiet()
	}
	if !gate {
		waitFor(func() bool { return f.eof.Load() })
	}
}

// ---------------------------------------------------------------------------
// TestX08RealFile: the library's constructors on regular files. The file is read back once the writer goroutine has
// closed it (seen in /proc/self/fd: the API offers no way to wait for that - finding X08-F1).

func fileStillOpen(path string) bool {
	ents, err := os.ReadDir("/proc/self/fd")
	if err != nil {
		return false
	}
	for _, e := range ents {
		if l, err := os.Readlink("/proc/self/fd/" + e.Name()); err == nil && l == path {
			return true
		}
	}
	return false
}

func decodeFile(path, kind string) []int {
	b, _ := os.ReadFile(path)
	d := streamDecoder{kind: kind}
	xs := d.feed(b)
	if len(d.buf) > 0 {
		xs = append(xs, -2) // trailing bytes that are not a whole event
	}
	return xs
}

func TestX08RealFile(t *testing.T) {
	out := vh.NewOut(t, "VERIF_OUT")
	dir := workDir(t)
	reps := 5
	if vh.Thorough() {
		reps = 60
	}
	rng := rand.New(rand.NewSource(vh.Seed()))
	n := 0
	for rep := 0; rep < reps; rep++ {
		for _, c := range ctors(false) {
			if enough(out) {
				return
			}
			n++
			path := filepath.Join(dir, vh.Sprintf("x08-%d-%d.trace", os.Getpid(), n))
			// stale content, longer than what this run will write: the constructors truncate
			os.WriteFile(path, make([]byte, 1<<16), 0644)
			out.Emit(M{"e": "reset", "kind": c.kind, "ctor": c.name, "lossy": false, "bound": fileBound, "shape": "file"})
			tr, err := c.mk(path)
			if err != nil {
				t.Fatalf("%s: %v", c.name, err)
			}
			r := &run{out: out, tr: tr, open: map[int]string{}}
			nProd, per := 1, 10+rng.Intn(60) // one producer: the file is only read back at the end
			var wg sync.WaitGroup
			for p := 0; p < nProd; p++ {
				wg.Add(1)
				go func() {
					defer wg.Done()
					for i := 0; i < per; i++ {
						r.callTrace(0)()
					}
				}()
			}
			wg.Wait()
			r.callClose()()
			// what a user sees who reads the file as soon as Close has returned (as the repository's own tests do)
			have := 0
			for _, x := range decodeFile(path, c.kind) {
				if x >= 0 {
					have++
				}
			}
			out.Emit(M{"e": "note", "op": "at-close-return", "have": have, "want": nProd * per})
			r.callTrace(0)() // after Close: must leave no trace
			r.callClose()()  // second Close
			closedFile := waitFor(func() bool { return !fileStillOpen(path) })
			for _, x := range decodeFile(path, c.kind) {
				out.Emit(M{"e": "w", "x": x})
			}
			if closedFile {
				out.Emit(M{"e": "wclose"})
			}
			r.quiet(bufLen(tr), "idle")
			os.Remove(path)
		}
	}
}

// ---------------------------------------------------------------------------
// TestX08Stress: many short concurrent rounds in real time on tracers over an (ungated) in-memory writer: the runtime
// picks the interleavings of producers, Close and the writer goroutine; TLC linearises every round.

func TestX08Stress(t *testing.T) {
	out := vh.NewOut(t, "VERIF_OUT")
	pubsub.TraceBufferSize = fileBound
	rounds := 400
	if vh.Thorough() {
		rounds = 6000
	}
	rng := rand.New(rand.NewSource(vh.Seed()))
	for i := 0; i < rounds; i++ {
		if enough(out) {
			return
		}
		kind := []string{"json", "pb"}[i%2]
		out.Emit(M{"e": "reset", "kind": kind, "ctor": "verif", "lossy": false, "bound": fileBound, "shape": "stress"})
		g := newGateW(out, kind)
		r := &run{out: out, open: map[int]string{}}
		if kind == "json" {
			r.tr = pubsub.VerifNewJSONTracerW(g, false)
		} else {
			r.tr = pubsub.VerifNewPBTracerW(g, false)
		}
		var wg sync.WaitGroup
		nProd := 2 + rng.Intn(2)
		total := 0
		for p := 0; p < nProd; p++ {
			k := 1 + rng.Intn(3)
			total += k
			spin := rng.Intn(3)
			wg.Add(1)
			go func() {
				defer wg.Done()
				for j := 0; j < k; j++ {
					r.callTrace(0)()
					for s := 0; s < spin; s++ {
						runtime.Gosched()
					}
				}
			}()
		}
		withClose := rng.Intn(3) > 0
		if withClose {
			d := time.Duration(rng.Intn(60)) * time.Microsecond
			nc := 1 + rng.Intn(2)
			for c := 0; c < nc; c++ {
				wg.Add(1)
				go func() {
					defer wg.Done()
					time.Sleep(d)
					r.callClose()()
				}()
			}
		}
		done := make(chan struct{})
		go func() { wg.Wait(); close(done) }()
		select {
		case <-done:
		case <-time.After(realWait):
		}
		nclosed := func() int { g.mu.Lock(); defer g.mu.Unlock(); return g.nclose }
		if withClose {
			waitFor(func() bool { return nclosed() > 0 })
		} else {
			// nobody closed: everything traced must get written without further ado
			waitFor(func() bool { g.mu.Lock(); defer g.mu.Unlock(); return g.nw >= total })
		}
		r.quiet(bufLen(r.tr), g.wpos())
		if !withClose {
			r.callClose()()
			waitFor(func() bool { return nclosed() > 0 })
			r.quiet(bufLen(r.tr), g.wpos())
		}
	}
}
